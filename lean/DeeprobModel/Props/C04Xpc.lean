import DeeprobModel.Model.Xpc
import DeeprobModel.Lemmas.XpcLemmas
import DeeprobModel.Lemmas.XpcSdLemmas
import DeeprobModel.Lemmas.XpcChain
import DeeprobModel.Spec.Structured
import Mathlib.Tactic.NormNum
import Mathlib.Tactic.IntervalCases
/-
C04 for the XPC learner (deeprob/spn/learning/xpc.py).  The random partition tree is an oracle
(`Part`, the exported `utils['part_root']`), so are the leaf parameters (`LeafPar`); `buildXpc`
(Model/Xpc.lean) mirrors `build_xpc` / `build_leaf` / `build_disjunction`, `buildExpc` the root of
`learn_expc`.  All data is binary (`dom v = 2`).

WHAT THE ORACLE MUST SATISFY.
* `PartInv` (decided by the driver on every exported tree, `partInvB_iff`): the shape
  `generate_random_partitioning` guarantees (rows / columns partitioned as described at `PartInv`) and the
  shapes `build_leaf` needs in order not to raise (`LeafInv`).
* `ParOK`: the numeric facts the fitted leaf parameters satisfy in exact arithmetic: a fitted Bernoulli
  table sums to one, the smoothed disjunction weights are positive and sum to one, the CPT rows of a fitted
  Chow-Liu leaf sum to one.
-/
namespace Deeprob
open List XC

section
variable {α : Type} [Field α] [LinearOrder α] [IsStrictOrderedRing α]

/-- **`buildXpc_valid`** — the circuit `build_xpc` builds from a partition tree satisfying `PartInv` is
smooth and decomposable with every leaf a distribution over its scope (`Circ.Valid` of its semantics
`XC.toCirc`), and every node's stored scope is duplicate-free (what `Node.__init__` demands). -/
theorem buildXpc_valid (dom : Nat → Nat) (hdom : ∀ v, dom v = 2) (useClt det : Bool) (p : Part α)
    (hi : PartInv useClt det p) (hp : ParOK useClt det p) :
    Circ.Valid dom (buildXpc useClt det p).toCirc ∧ ScopesNodup (buildXpc useClt det p) :=
  ⟨(buildXpc_built dom hdom useClt det p hi hp).good.valid, (buildXpc_built dom hdom useClt det p hi hp).good.nodup⟩

/-- **`buildXpc_scope`** — the root scope is exactly the set of columns of the root partition (for
`learn_xpc`: all training columns, `col_ids = ordering`, a permutation of `range(n_features)`). -/
theorem buildXpc_scope (useClt det : Bool) (p : Part α) (hi : PartInv useClt det p) (hp : ParOK useClt det p) :
    scopeEq (buildXpc useClt det p).scope p.cols ∧ (buildXpc useClt det p).scope.Nodup :=
  ⟨(buildXpc_built (fun _ => 2) (fun _ => rfl) useClt det p hi hp).scope,
   (buildXpc_built (fun _ => 2) (fun _ => rfl) useClt det p hi hp).good.nodup.scope_nodup⟩

/-- **`buildXpc_normW`** — every sum node's weights are positive and sum to one (horizontal splits: the
row proportions `|rows_i| / |rows|`; disjunctions: the oracle's smoothed weights), Bernoulli tables and
Chow-Liu CPT rows sum to one. -/
theorem buildXpc_normW (useClt det : Bool) (p : Part α) (hi : PartInv useClt det p) (hp : ParOK useClt det p) :
    Normalised (buildXpc useClt det p) :=
  (buildXpc_built (fun _ => 2) (fun _ => rfl) useClt det p hi hp).norm

/-- hence the learned circuit is a normalised distribution: its complete-evidence values sum to one over
all binary assignments of its scope (`Circ.normalised`). -/
theorem buildXpc_normalised (dom : Nat → Nat) (hdom : ∀ v, dom v = 2) (useClt det : Bool) (p : Part α)
    (hi : PartInv useClt det p) (hp : ParOK useClt det p) :
    sumOver dom (buildXpc useClt det p).scope (fun _ => none)
      (fun x => Circ.eval x (buildXpc useClt det p).toCirc) = 1 := by
  have hb := buildXpc_built dom hdom useClt det p hi hp
  have := Circ.normalised dom _ hb.good.valid (Normalised.normW _ hb.norm) (Normalised.leafNorm dom _ hb.norm)
  rwa [scope_toCirc] at this

/-- **`expc_valid`** — the ensemble root of `learn_expc` (`Sum(weights=np.full(k, 1/k), children=xpc_l)`)
over member partition trees that all satisfy `PartInv` and cover the same column set: valid, root scope the
common column set, uniform positive weights summing to one, normalised. -/
theorem expc_valid (dom : Nat → Nat) (hdom : ∀ v, dom v = 2) (useClt det : Bool) (parts : List (Part α))
    (cols : List Nat) (hne : parts ≠ [])
    (hi : ∀ p ∈ parts, PartInv useClt det p ∧ ParOK useClt det p ∧ scopeEq p.cols cols) :
    Circ.Valid dom (buildExpc useClt det parts).toCirc ∧ ScopesNodup (buildExpc useClt det parts) ∧
    scopeEq (buildExpc useClt det parts).scope cols ∧ Normalised (buildExpc useClt det parts) := by
  have ih : ∀ p ∈ parts, Built dom p.cols (buildXpc useClt det p) :=
    fun p hp => buildXpc_built dom hdom useClt det p (hi p hp).1 (hi p hp).2.1
  have hsc : ∀ p ∈ parts, scopeEq (buildXpc useClt det p).scope cols :=
    fun p hp => (ih p hp).scope.trans (hi p hp).2.2
  unfold buildExpc
  cases parts with
  | nil => exact absurd rfl hne
  | cons p0 rest =>
    have hg : Good dom (mkSum (List.map (fun _ => (1 : α) / ((p0 :: rest).length : α)) (p0 :: rest))
        (List.map (buildXpc useClt det) (p0 :: rest))) := by
      apply good_mkSum dom _ _ (by simp) (by simp)
      · intro c hc
        obtain ⟨s, hs, rfl⟩ := List.mem_map.1 hc
        exact (ih s hs).good
      · intro c hc
        obtain ⟨s, hs, rfl⟩ := List.mem_map.1 hc
        simp only [List.map_cons, List.headD_cons]
        exact (hsc s hs).trans (hsc p0 List.mem_cons_self).symm
    refine ⟨hg.valid, hg.nodup, ?_, ?_⟩
    · simp only [List.map_cons, scope_mkSum_cons]
      exact hsc p0 List.mem_cons_self
    · have hpos : (0 : α) < ((p0 :: rest).length : α) := by
        have : 0 < (p0 :: rest).length := by simp
        exact_mod_cast this
      apply normalised_mkSum
      · have := tsum_map_div (α := α) ((p0 :: rest).map (fun _ => 1)) (p0 :: rest).length
        rw [List.map_map] at this
        have h1 : ((p0 :: rest).map (fun _ => 1)).sum = (p0 :: rest).length := by
          simp; omega
        rw [h1] at this
        have h2 : (fun k : Nat => (Nat.cast k : α) / (Nat.cast (p0 :: rest).length : α)) ∘ (fun _ : Part α => 1) =
            fun _ => (1 : α) / (((p0 :: rest).length : Nat) : α) := by
          funext _; simp
        rw [h2] at this
        rw [this]
        exact div_self hpos.ne'
      · intro w hw
        obtain ⟨s, hs, rfl⟩ := List.mem_map.1 hw
        exact div_pos one_pos hpos
      · intro c hc
        obtain ⟨s, hs, rfl⟩ := List.mem_map.1 hc
        exact (ih s hs).norm

end

/-! ### non-vacuity: a partition tree with every kind of node -/

namespace XpcEx

/-- Chow-Liu leaf over columns `[2, 1]` (tree `2 → 1`) -/
def cltA : LeafPar Rat :=
  { cltScope := [2, 1], cltPred := [-1, 0],
    cltCpt := [[[1/4, 3/4], [1/4, 3/4]], [[1/2, 1/2], [1/3, 2/3]]] }

/-- Chow-Liu leaf over the single column `[2]` -/
def cltB : LeafPar Rat := { cltScope := [2], cltPred := [-1], cltCpt := [[[2/5, 3/5], [2/5, 3/5]]] }

/-- `det = True`, `use_clt = True`, `conj_len = 1`, six rows, three columns:
* root: horizontal split into the discarded rows `[0,1,2]` and the conjunction rows `[3,4,5]`;
* first part: vertical split into the naive leaf over `[0]` (one discarded assignment ⇒ a one-product
  disjunction) and a Chow-Liu leaf over `[1, 2]`;
* second part: vertical split into the conjunction leaf `X0 = 1` and a partition over `[1, 2]` whose
  horizontal split found all rows in one assignment (single sub-partition, "vertical" for `build_xpc`),
  below it a vertical split into a naive leaf over `[1]` (both assignments discarded ⇒ `learn_mle`) and a
  Chow-Liu leaf over `[2]`. -/
def tree : Part Rat :=
  .horiz [0, 1, 2, 3, 4, 5] [0, 1, 2]
    [ .vert [0, 1, 2] [0, 1, 2]
        [ .leaf [0, 1, 2] [0] false true [[0]] { row0 := [0] },
          .leaf [0, 1, 2] [1, 2] false false [] cltA ],
      .vert [3, 4, 5] [0, 1, 2]
        [ .leaf [3, 4, 5] [0] true true [] { row0 := [1] },
          .vert [3, 4, 5] [1, 2]
            [ .vert [3, 4, 5] [1, 2]
                [ .leaf [3, 4, 5] [1] false true [[0], [1]] { tbl := [(1/3, 2/3)] },
                  .leaf [3, 4, 5] [2] false false [] cltB ] ] ] ]

theorem isTree_a : Clt.isTree [-1, 0] = true := by
  simp [Clt.isTree, Clt.rootOf, Clt.build, Clt.childrenOf, RTree.vars, List.range_succ]
theorem isTree_b : Clt.isTree [-1] = true := by
  simp [Clt.isTree, Clt.rootOf, Clt.build, Clt.childrenOf, RTree.vars, List.range_succ]
theorem isTree_c : Clt.isTree [-1, 0, 0] = true := by
  simp [Clt.isTree, Clt.rootOf, Clt.build, Clt.childrenOf, RTree.vars, List.range_succ]

/-- the driver's decision procedure accepts the tree -/
theorem tree_invB : partInvB true true tree = true := by
  simp [tree, partInvB, partInvBL, leafInvB, nodupB, sameSetB, mleBranch, cltA, cltB, isTree_a, isTree_b,
    Part.rows, Part.cols]
  decide

theorem tree_inv : PartInv true true tree := (partInvB_iff true true tree).1 tree_invB

theorem tree_par : ParOK true true tree := by
  simp [tree, ParOK, LeafParOK, mleBranch, cltA, cltB, Clt.cptAt]
  refine ⟨?_, ?_⟩
  · intro i hi l hl
    interval_cases i <;> interval_cases l <;> norm_num
  · refine ⟨by norm_num, ?_⟩
    intro l hl
    interval_cases l <;> norm_num

end XpcEx

example : Circ.Valid (fun _ => 2) (buildXpc true true XpcEx.tree).toCirc ∧
    ScopesNodup (buildXpc true true XpcEx.tree) :=
  buildXpc_valid _ (fun _ => rfl) true true _ XpcEx.tree_inv XpcEx.tree_par

example : scopeEq (buildXpc true true XpcEx.tree).scope [0, 1, 2] :=
  (buildXpc_scope true true _ XpcEx.tree_inv XpcEx.tree_par).1

example : Normalised (buildXpc true true XpcEx.tree) :=
  buildXpc_normW true true _ XpcEx.tree_inv XpcEx.tree_par

/-- the model really flattens: the second product takes over the two leaves of the nested vertical split -/
example : (buildXpc true true XpcEx.tree).prodScopes = [[0, 2, 1], [0, 1, 2]] := by
  decide +kernel

example : sumOver (fun _ => 2) (buildXpc true true XpcEx.tree).scope (fun _ => none)
    (fun x => Circ.eval x (buildXpc true true XpcEx.tree).toCirc) = 1 :=
  buildXpc_normalised _ (fun _ => rfl) true true _ XpcEx.tree_inv XpcEx.tree_par

/-- two members over the same columns (the second one a single unsplit Chow-Liu leaf partition) -/
example : Circ.Valid (fun _ => 2) (buildExpc true true [XpcEx.tree,
      .leaf [0, 1, 2, 3, 4, 5] [1, 2, 0] false false []
        { cltScope := [1, 2, 0], cltPred := [-1, 0, 0],
          cltCpt := [[[1/2, 1/2], [1/2, 1/2]], [[1/2, 1/2], [1/3, 2/3]], [[1/5, 4/5], [1, 0]]] }]).toCirc := by
  refine (expc_valid (fun _ => 2) (fun _ => rfl) true true _ [0, 1, 2] (by simp) ?_).1
  intro p hp
  simp only [List.mem_cons, List.mem_nil_iff, or_false] at hp
  rcases hp with rfl | rfl
  · exact ⟨XpcEx.tree_inv, XpcEx.tree_par, by simp [XpcEx.tree, Part.cols, scopeEq]⟩
  · refine ⟨(partInvB_iff true true _).1 (by
      simp [partInvB, leafInvB, nodupB, sameSetB, XpcEx.isTree_c]), ?_, ?_⟩
    · simp [ParOK, LeafParOK, Clt.cptAt]
      intro i hi l hl
      interval_cases i <;> interval_cases l <;> norm_num
    · simp [Part.cols, scopeEq]; omega

/-! ### `is_horizontally_partitioned` agrees with the kind recorded in the tree -/

section classify
variable {α : Type}

/-- a horizontal split with at least two sub-partitions (what `get_horizontal_split` produces) is
classified as horizontal by `len(self.row_ids) > len(self.sub_partitions[0].row_ids)` -/
theorem ofNode_horiz (useClt det : Bool) (rows cols : List Nat) (subs : List (Part α))
    (hi : PartInv useClt det (.horiz rows cols subs)) (h2 : 2 ≤ subs.length) :
    Part.ofNode rows cols subs = .horiz rows cols subs := by
  unfold PartInv at hi
  obtain ⟨_, _, _, _, _, hperm, hsub⟩ := hi
  match subs, h2 with
  | s0 :: s1 :: rest, _ =>
    have hlen := hperm.length_eq
    simp only [List.map_cons, List.flatten_cons, List.length_append] at hlen
    have h1 : 0 < s1.rows.length := List.length_pos_iff.2 (hsub s1 (by simp)).1
    unfold Part.ofNode Part.isHorizB
    have : s0.rows.length < rows.length := by omega
    simp [this]

/-- a vertical split (sub-partitions over the same rows) is classified as not horizontal -/
theorem ofNode_vert (useClt det : Bool) (rows cols : List Nat) (subs : List (Part α))
    (hi : PartInv useClt det (.vert rows cols subs)) :
    Part.ofNode rows cols subs = .vert rows cols subs := by
  unfold PartInv at hi
  obtain ⟨_, _, _, _, _, hsub⟩ := hi
  unfold Part.ofNode Part.isHorizB
  cases subs with
  | nil => simp
  | cons s0 rest =>
    have := (hsub s0 (by simp)).1.length_eq
    simp [this]

end classify

example : Part.ofNode [0, 1, 2, 3, 4, 5] [0, 1, 2] XpcEx.tree.subs = XpcEx.tree :=
  ofNode_horiz true true _ _ _ XpcEx.tree_inv (by simp [XpcEx.tree, Part.subs])

/-! ### structured decomposability (`sd = True`) -/

section sd
variable {α : Type} [Field α] [LinearOrder α] [IsStrictOrderedRing α]

/-- **`xpc_sd_laminar`** — structured decomposability of `learn_xpc(…, sd=True)`.
`scopes = conj_vars_l + [free_vars]` (the blocks of the fixed variable ordering, `free_vars` only if
non-empty), `trees[k]` the spanning tree `build_trees_dict` computed over `scopes[k]` (an oracle);
* `blocksOkB`: the blocks are pairwise disjoint and every `trees[k]` is a rooted tree over `scopes[k]`;
* `sdInvB`: the partition tree follows the sd discipline (a partition below `d` horizontal splits has the
  columns `scopes[d] ∪ scopes[d+1] ∪ …`, its vertical split separates a leaf over the block `scopes[d]`
  from a partition one level deeper, a Chow-Liu leaf takes `(tree, scope) = trees_dict[len(cols)]` with
  `trees_dict = Xpc.treesDict trees scopes`, the model of the concatenation loop of `build_trees_dict`).
Both are decided by the driver on every exported instance.  Then the scopes of ALL product nodes of the
built circuit together with the scopes `get_scopes()` reports for its Chow-Liu leaves (the product scopes
of their `to_pc()` circuits, `Clt.get_scopes_spec`) are pairwise nested or disjoint.  No gap: the chain
shape of the concatenated trees is proved (`Xpc.chain_inFamily`), not assumed. -/
theorem xpc_sd_laminar (useClt det : Bool) (trees : List (List Int)) (scopes : List (List Nat)) (p : Part α)
    (hb : Xpc.blocksOkB trees scopes = true) (hi : PartInv useClt det p) (hp : ParOK useClt det p)
    (hsd : Xpc.sdInvB useClt trees scopes p = true) :
    Laminar (buildXpc useClt det p).sdScopes := by
  have hB := Xpc.blocksOkB_imp hb
  apply Xpc.laminar_of_family hB
  have h := Xpc.sd_scopes_inFamily hB useClt det (Xpc.chain_inFamily hB) p 0 hi hp hsd
  intro s hs
  unfold XC.sdScopes at hs
  rcases List.mem_append.1 hs with hs | hs
  · exact h.1 s hs
  · exact h.2 s hs

/-- **`expc_sd_laminar`** — `learn_expc(…, sd_level=2)`: all members follow the discipline of ONE block
list and ONE tree dictionary (`build_trees_dict(data, cl_parts_l_l, max(conj_vars_l_l, key=len), …)`), so
the whole ensemble is structured decomposable. -/
theorem expc_sd_laminar (useClt det : Bool) (trees : List (List Int)) (scopes : List (List Nat))
    (parts : List (Part α)) (hb : Xpc.blocksOkB trees scopes = true)
    (h : ∀ p ∈ parts, PartInv useClt det p ∧ ParOK useClt det p ∧ Xpc.sdInvB useClt trees scopes p = true) :
    Laminar (buildExpc useClt det parts).sdScopes := by
  have hB := Xpc.blocksOkB_imp hb
  apply Xpc.laminar_of_family hB
  intro s hs
  unfold XC.sdScopes buildExpc at hs
  rw [prodScopes_mkSum, cltScopes_mkSum] at hs
  rcases List.mem_append.1 hs with hs | hs
  · obtain ⟨l, hl, hsl⟩ := List.mem_flatten.1 hs
    obtain ⟨c, hc, rfl⟩ := List.mem_map.1 hl
    obtain ⟨p, hp, rfl⟩ := List.mem_map.1 hc
    exact (Xpc.sd_scopes_inFamily hB useClt det (Xpc.chain_inFamily hB) p 0 (h p hp).1 (h p hp).2.1 (h p hp).2.2).1 s hsl
  · obtain ⟨l, hl, hsl⟩ := List.mem_flatten.1 hs
    obtain ⟨c, hc, rfl⟩ := List.mem_map.1 hl
    obtain ⟨p, hp, rfl⟩ := List.mem_map.1 hc
    exact (Xpc.sd_scopes_inFamily hB useClt det (Xpc.chain_inFamily hB) p 0 (h p hp).1 (h p hp).2.1 (h p hp).2.2).2 s hsl

end sd

/-! non-vacuity: ordering `[2, 0, 1, 3]`, `conj_len = 1`: `conj_vars_l = [[2], [0]]`, `free_vars = [1, 3]` -/
namespace XpcSdEx

def scopes : List (List Nat) := [[2], [0], [1, 3]]
def trees : List (List Int) := [[-1], [-1], [-1, 0]]

/-- the model of `build_trees_dict` hangs the free tree `1 → 3` under the block `[0]` -/
example : Xpc.treesDict trees scopes = [([-1, 0], [1, 3]), ([2, 0, -1], [1, 3, 0])] := by decide +kernel

def half : List (List (List Rat)) := [[[1/2, 1/2], [1/2, 1/2]], [[1/2, 1/2], [1/2, 1/2]], [[1/2, 1/2], [1/2, 1/2]]]
def clt2 : LeafPar Rat := { cltScope := [1, 3], cltPred := [-1, 0], cltCpt := half }
def clt3 : LeafPar Rat := { cltScope := [1, 3, 0], cltPred := [2, 0, -1], cltCpt := half }

/-- six rows; root split on `X2`; the discarded part keeps a Chow-Liu leaf over `[0, 1, 3]` (tree from
`trees_dict[3]`), the conjunction part is split again on `X0` with Chow-Liu leaves over `[1, 3]` -/
def tree : Part Rat :=
  .horiz [0, 1, 2, 3, 4, 5] [2, 0, 1, 3]
    [ .vert [0, 1, 2] [2, 0, 1, 3]
        [ .leaf [0, 1, 2] [2] false true [[0]] { tbl := [(1, 0)] },
          .leaf [0, 1, 2] [0, 1, 3] false false [] clt3 ],
      .vert [3, 4, 5] [2, 0, 1, 3]
        [ .leaf [3, 4, 5] [2] true true [] { row0 := [1] },
          .horiz [3, 4, 5] [0, 1, 3]
            [ .vert [3, 4] [0, 1, 3]
                [ .leaf [3, 4] [0] false true [[1]] { tbl := [(1, 0)] },
                  .leaf [3, 4] [1, 3] false false [] clt2 ],
              .vert [5] [0, 1, 3]
                [ .leaf [5] [0] true true [] { row0 := [1] },
                  .leaf [5] [1, 3] false false [] clt2 ] ] ] ]

theorem isTree_3 : Clt.isTree [2, 0, -1] = true := by
  simp [Clt.isTree, Clt.rootOf, Clt.build, Clt.childrenOf, RTree.vars, List.range_succ]

theorem blocks_ok : Xpc.blocksOkB trees scopes = true := by
  simp [Xpc.blocksOkB, trees, scopes, nodupB, XpcEx.isTree_a, XpcEx.isTree_b]

theorem tree_sd : Xpc.sdInvB true trees scopes tree = true := by decide +kernel

theorem tree_inv : PartInv true false tree := (partInvB_iff true false tree).1 (by
  simp [tree, partInvB, partInvBL, leafInvB, nodupB, sameSetB, mleBranch, clt2, clt3, XpcEx.isTree_a, isTree_3,
    Part.rows, Part.cols]
  decide)

theorem tree_par : ParOK true false tree := by
  simp [tree, ParOK, LeafParOK, mleBranch, clt2, clt3, half, Clt.cptAt]
  refine ⟨?_, ?_⟩ <;> intro i hi l hl <;> interval_cases i <;> interval_cases l <;> norm_num

end XpcSdEx

example : Laminar (buildXpc true false XpcSdEx.tree).sdScopes :=
  xpc_sd_laminar true false XpcSdEx.trees XpcSdEx.scopes XpcSdEx.tree XpcSdEx.blocks_ok XpcSdEx.tree_inv
    XpcSdEx.tree_par XpcSdEx.tree_sd

/-- the family is not trivial: three nested column sets and the disjoint block `[0]`-side products -/
example : (buildXpc true false XpcSdEx.tree).prodScopes = [[2, 1, 3, 0], [2, 0, 1, 3], [0, 1, 3], [0, 1, 3]] := by
  decide +kernel

example : Laminar (buildExpc true false [XpcSdEx.tree, XpcSdEx.tree]).sdScopes :=
  expc_sd_laminar true false XpcSdEx.trees XpcSdEx.scopes _ XpcSdEx.blocks_ok (fun p hp => by
    simp only [List.mem_cons, List.mem_nil_iff, or_false, or_self] at hp
    subst hp
    exact ⟨XpcSdEx.tree_inv, XpcSdEx.tree_par, XpcSdEx.tree_sd⟩)

/-- without the discipline the statement is false: with `sd = False` two branches may split off
different conjunction variables, so that the remaining column sets `[1, 2]` and `[0, 1]` cross — the model
reproduces that (and the demo observes it on most learned `sd = False` circuits) -/
def crossing : Part Rat :=
  .horiz [0, 1, 2, 3] [0, 1, 2]
    [ .vert [0, 1] [0, 1, 2]
        [ .leaf [0, 1] [0] true true [] { row0 := [1] },
          .horiz [0, 1] [1, 2] [ .leaf [0] [1, 2] true true [] { row0 := [1, 1] },
                                 .leaf [1] [1, 2] true true [] { row0 := [0, 1] } ] ],
      .vert [2, 3] [0, 1, 2]
        [ .leaf [2, 3] [2] true true [] { row0 := [1] },
          .horiz [2, 3] [0, 1] [ .leaf [2] [0, 1] true true [] { row0 := [1, 1] },
                                 .leaf [3] [0, 1] true true [] { row0 := [0, 1] } ] ] ]

example : partInvB true false crossing = true ∧ ¬ Laminar (buildXpc true false crossing).sdScopes := by
  refine ⟨by decide +kernel, ?_⟩
  have h : (buildXpc true false crossing).sdScopes = [[0, 1, 2], [1, 2], [1, 2], [2, 0, 1], [0, 1], [0, 1]] := by
    decide +kernel
  rw [h]
  unfold Laminar
  intro hp
  have h1 := (List.pairwise_cons.1 (List.pairwise_cons.1 hp).2).1 [0, 1] (by simp)
  rcases h1 with h1 | h1 | h1
  · exact absurd (h1 2 (by simp)) (by simp)
  · exact absurd (h1 0 (by simp)) (by simp)
  · exact h1 1 ⟨by simp, by simp⟩

end Deeprob
