import DeeprobModel.Lemmas.MargNetLemmas
import DeeprobModel.Props.C09Net
set_option linter.unusedSectionVars false
set_option linter.unusedSimpArgs false
set_option linter.unusedVariables false
/-
C10 at the level the code works on: the node table with sharing (`marginalizeNet`, Model/RewriteNet.lean).
Chow-Liu-tree leaves are not part of the net-level model (`marginalizeNet` answers `unsupported:clt`); they
are covered at tree level through the `margLeaf` parameter (Props/C10.lean).
-/
namespace Deeprob
open Net Circ

/-! ### a circuit with a shared leaf: `S{½,½}( P(A₀, B₁), P(A₀, B₁') )`, `A₀` shared -/
namespace C10w
def net : Net Rat :=
  [ { id := 3, kind := .leaf, scope := [0], ch := [], ws := [], leaf := .cat 0 [1/2, 1/2] },
    { id := 4, kind := .leaf, scope := [1], ch := [], ws := [], leaf := .cat 1 [1/3, 2/3] },
    { id := 1, kind := .prod, scope := [0, 1], ch := [0, 1], ws := [], leaf := .absent },
    { id := 5, kind := .leaf, scope := [1], ch := [], ws := [], leaf := .cat 1 [1/4, 3/4] },
    { id := 2, kind := .prod, scope := [1, 0], ch := [0, 3], ws := [], leaf := .absent },
    { id := 0, kind := .sum, scope := [0, 1], ch := [2, 4], ws := [1/2, 1/2], leaf := .absent } ]

def view (r : Except String (Net Rat × List Nat)) : List (Kind × Nat × List Nat × List Nat × List Rat) :=
  match r with
  | .ok p => p.1.map (fun x => (x.kind, x.id, x.scope, x.ch, x.ws))
  | .error _ => []
def origin (r : Except String (Net Rat × List Nat)) : List Nat := match r with | .ok p => p.2 | .error _ => []

theorem wellOrdered : WellOrdered net := (wellOrderedB_iff net).1 (by decide)

theorem sumOK : NetSumOK net := by
  intro i x hx hk
  match i, hx with
  | 0, hx => simp [net] at hx; subst hx; simp at hk
  | 1, hx => simp [net] at hx; subst hx; simp at hk
  | 2, hx => simp [net] at hx; subst hx; simp at hk
  | 3, hx => simp [net] at hx; subst hx; simp at hk
  | 4, hx => simp [net] at hx; subst hx; simp at hk
  | 5, hx => simp [net] at hx; subst hx; norm_num [tsum]
  | n+6, hx => simp [net] at hx

theorem nodeOK : ∀ (i : Nat) (x : NNode Rat), net[i]? = some x → MargNodeOK net x := by
  intro i x hx
  match i, hx with
  | 0, hx => simp [net] at hx; subst hx; simp [MargNodeOK]
  | 1, hx => simp [net] at hx; subst hx; simp [MargNodeOK]
  | 2, hx => simp [net] at hx; subst hx; simp [MargNodeOK, scopeOf, net, scopeEq]
  | 3, hx => simp [net] at hx; subst hx; simp [MargNodeOK]
  | 4, hx => simp [net] at hx; subst hx; simp [MargNodeOK, scopeOf, net, scopeEq]; omega
  | 5, hx => simp [net] at hx; subst hx; simp [MargNodeOK, scopeOf, net, scopeEq]; omega
  | n+6, hx => simp [net] at hx

/-- keeping variable 0: both products lose their second child and are replaced by the SHARED leaf, the root's
two children coincide, are merged with weight ½+½ and (repaired code) the root is replaced by the leaf;
keeping variable 1: a two-child sum over the two leaves of variable 1 -/
theorem results :
    view (marginalizeNet [0] net 5) = [(.leaf, 0, [0], [], [])] ∧ origin (marginalizeNet [0] net 5) = [0] ∧
    view (marginalizeNetWith false [0] net 5) = [(.leaf, 1, [0], [], []), (.sum, 0, [0], [0], [1])] ∧
    view (marginalizeNet [1] net 5) = [(.leaf, 1, [1], [], []), (.leaf, 2, [1], [], []), (.sum, 0, [1], [0, 1], [1/2, 1/2])] ∧
    origin (marginalizeNet [1] net 5) = [1, 3, 5] := by
  refine ⟨?_, ?_, ?_, ?_, ?_⟩ <;> decide +kernel
end C10w

variable {α : Type} [CommSemiring α]

/-- **C10 at DAG level, value**: whenever `marginalize` (with the repaired or the pinned `prune`) returns a table,
its root (last entry) has, under every evidence in which all variables outside the kept set are missing, the value
the original table has at `root` — shared sub-circuits and merged coinciding children included.
Hypotheses on the table: children-first storage, every sum has one weight per child and weights summing to
one, sums are non-empty and smooth, product scopes are the union of the child scopes, leaves are
single-variable table / density leaves. (Decomposability is not needed for this equality.) -/
theorem marginalizeNetWith_eval (b : Bool) (keep : List Nat) (net : Net α) (root : Nat)
    (hw : WellOrdered net) (hs : NetSumOK net)
    (hn : ∀ (i : Nat) (x : NNode α), net[i]? = some x → MargNodeOK net x)
    (hr : root < net.length) (out : Net α) (order : List Nat)
    (h : marginalizeNetWith b keep net root = .ok (out, order))
    (e : Ev) (he : ∀ v, v ∉ keep → e v = none) (dens : List α) :
    out ≠ [] ∧ nval e (order.map (fun i => dens.getD i 0)) out (out.length - 1) = nval e dens net root := by
  have I := minv_final net keep hw hs hn e he dens
  unfold marginalizeNetWith at h
  split at h
  · cases h
  · split at h
    · cases h
    · generalize hst : margPass keep net = st at h I
      simp only at h
      split at h
      · cases h
      · rename_i r1 hr1
        split at h
        · cases h
        · rename_i res hres
          simp only [Except.ok.injEq] at h
          subst h
          have hle := I.some_le root r1 hr hr1
          have P := pruneNetWith_eval b st.1 r1 I.ch_lt I.sum_ok (by rw [I.lt]; omega) out order hres e dens
          refine ⟨P.2.1, ?_⟩
          rw [P.2.2]
          have := I.val_some root r1 hr hr1
          rwa [List.take_length] at this

/-- with complete evidence on the kept variables: the marginalised table evaluated on `x` equals the original
table evaluated on `x` with every other variable marked missing -/
theorem marginalizeNet_eval (keep : List Nat) (net : Net α) (root : Nat)
    (hw : WellOrdered net) (hs : NetSumOK net)
    (hn : ∀ (i : Nat) (x : NNode α), net[i]? = some x → MargNodeOK net x)
    (hr : root < net.length) (out : Net α) (order : List Nat)
    (h : marginalizeNet keep net root = .ok (out, order)) (x : Ev) (dens : List α) :
    nval (fun v => if v ∈ keep then x v else none) (order.map (fun i => dens.getD i 0)) out (out.length - 1)
      = nval (fun v => if v ∈ keep then x v else none) dens net root :=
  (marginalizeNetWith_eval true keep net root hw hs hn hr out order h _
    (by intro v hv; simp [hv]) dens).2

example : ∀ (x : Ev) (dens : List Rat), ∃ out order, marginalizeNet [1] C10w.net 5 = .ok (out, order) ∧
    nval (fun v => if v ∈ [1] then x v else none) (order.map (fun i => dens.getD i 0)) out (out.length - 1)
      = nval (fun v => if v ∈ [1] then x v else none) dens C10w.net 5 := by
  intro x dens
  cases h : marginalizeNet [1] C10w.net 5 with
  | error s =>
    have := C10w.results.2.2.2.1
    rw [h] at this; simp [C10w.view] at this
  | ok r =>
    exact ⟨r.1, r.2, rfl, marginalizeNet_eval [1] C10w.net 5 C10w.wellOrdered C10w.sumOK C10w.nodeOK (by decide)
      r.1 r.2 h x dens⟩

end Deeprob
