import DeeprobModel.Lemmas.CltLemmas
import DeeprobModel.Lemmas.CltMpe
import DeeprobModel.Lemmas.CltExample
set_option linter.unusedSimpArgs false
set_option linter.unusedVariables false
/-
Property theorems about binary Chow-Liu trees (deeprob/spn/structure/cltree.py): C02 (marginals,
batch split), C06 (MPE), C07 (conditional sampling), C12 (conversion `to_pc`).
`lab scope t = t.vars.map (fun i => scope.getD i 0)` is the list of variable ids of the tree `t`
of local indices.  Every theorem is followed by a non-vacuity example on the 4-variable tree of
`Lemmas/CltExample.lean` (variable ids 7 → {2 → {4}, 9}, rational tables, variable 2 observed).
-/
namespace Deeprob
namespace Clt

/-! ## A. the conversion `to_pc` (C12) and what it gives for message passing (C02) -/
section semiring
variable {α : Type} [CommSemiring α]

/-- **C12, exactness**: the circuit built by `to_pc` evaluates to the upward message of
`message_passing` under every evidence (complete, partial, empty): the conversion is exact on every
complete and marginal query. -/
theorem pc_eval (scope : List Nat) (cpt : List (List (List α))) (t : RTree) (l : Nat) (e : Ev) :
    Circ.eval e (pc scope cpt t l) = up scope cpt t l e :=
  pc_eval_lem scope cpt t l e

example : Circ.eval Ex.ev (pc Ex.scope Ex.cpt Ex.tree 0) = up Ex.scope Ex.cpt Ex.tree 0 Ex.ev ∧
    up Ex.scope Ex.cpt Ex.tree 0 Ex.ev = 13 / 25 := by
  refine ⟨pc_eval _ _ _ _ _, ?_⟩
  norm_num [up, Ex.tree, Ex.scope, Ex.cpt, Ex.ev, cptAt, lprod, sumVar, List.range, List.range.loop]

/-- **C12, validity**: over pairwise distinct binary variables the circuit built by `to_pc` is smooth
and decomposable and its (indicator) leaves are distributions. -/
theorem pc_valid (dom : Nat → Nat) (scope : List Nat) (cpt : List (List (List α))) (t : RTree) (l : Nat)
    (hnd : (t.vars.map (fun i => scope.getD i 0)).Nodup)
    (hdom : ∀ v ∈ t.vars.map (fun i => scope.getD i 0), dom v = 2) :
    Circ.Valid dom (pc scope cpt t l) :=
  pc_valid_lem dom scope cpt t l hnd hdom

example : Circ.Valid (fun _ => 2) (pc Ex.scope Ex.cpt Ex.tree 0) :=
  pc_valid (fun _ => 2) _ _ _ _ Ex.lab_nodup (fun _ _ => rfl)

/-- **C12 for the object `to_pc` returns** (`pos_buffer[0]`: the root sum with the weights of ROW 1 of
the root's table): it evaluates to the CLT's own value (`value`, root row 0) under every evidence,
PROVIDED the two rows of the root's table are equal; it is valid over distinct binary scope variables. -/
theorem toPc_eval (dom : Nat → Nat) (scope : List Nat) (pred : List Int) (cpt : List (List (List α))) (r : Nat)
    (hr : rootOf pred = some r) (hroot : ∀ k, cptAt cpt r 0 k = cptAt cpt r 1 k) :
    (∀ e : Ev, Circ.eval e (toPc scope pred cpt) = value scope pred cpt e) ∧
    (isTree pred = true → scope.length = pred.length → scope.Nodup → (∀ v ∈ scope, dom v = 2) →
      Circ.Valid dom (toPc scope pred cpt)) := by
  refine ⟨fun e => ?_, fun htree hlen hnd hdom => ?_⟩
  · simp only [toPc, value, hr]
    rw [pc_eval]
    obtain ⟨cs, hcs⟩ := build_node pred pred.length r
    rw [hcs]; exact up_root_row scope cpt r cs e hroot
  · obtain ⟨r', hr', hperm⟩ := isTree_perm htree
    have hp := lab_build_perm scope hlen hperm
    simp only [toPc, hr']
    exact pc_valid_lem dom scope cpt _ 1 (hp.nodup_iff.2 hnd) (fun v hv => hdom v (hp.mem_iff.1 hv))

example : (∀ e : Ev, Circ.eval e (toPc Ex.scope Ex.pred Ex.cpt) = value Ex.scope Ex.pred Ex.cpt e) ∧
    Circ.Valid (fun _ => 2) (toPc Ex.scope Ex.pred Ex.cpt) :=
  let h := toPc_eval (fun _ => 2) Ex.scope Ex.pred Ex.cpt 0 Ex.root_eq (Ex.root_rows 0 Ex.root_eq)
  ⟨h.1, h.2 Ex.isTree_eq Ex.scope_len Ex.scope_nodup (fun _ _ => rfl)⟩

/-- the scope stored at the root of `to_pc`'s circuit lists exactly the variables of the tree -/
theorem pc_scope_perm (scope : List Nat) (cpt : List (List (List α))) (t : RTree) (l : Nat) :
    (Circ.scope (pc scope cpt t l)).Perm (lab scope t) := by
  rw [pc_scope]; exact pcScope_perm scope t

example : Circ.scope (pc Ex.scope Ex.cpt Ex.tree 0) = [7, 9, 2, 4] := by
  rw [pc_scope]; simp [Ex.tree, Ex.scope, pcScope]

/-- **C02 for CLTs**: the message-passing value under any evidence equals the explicit sum, over all
completions of the missing variables of the sub-tree, of the message-passing values (from `Circ.marg`
applied to `to_pc`; any commutative semiring). -/
theorem up_marg (dom : Nat → Nat) (scope : List Nat) (cpt : List (List (List α))) (t : RTree) (l : Nat)
    (hnd : (lab scope t).Nodup) (hdom : ∀ v ∈ lab scope t, dom v = 2) (e : Ev) :
    up scope cpt t l e = sumOver dom (lab scope t) e (fun e' => up scope cpt t l e') :=
  up_marg_lem dom scope cpt t l hnd hdom e

example : up Ex.scope Ex.cpt Ex.tree 0 Ex.ev =
    sumOver (fun _ => 2) [7, 2, 4, 9] Ex.ev (fun e' => up Ex.scope Ex.cpt Ex.tree 0 e') := by
  rw [← Ex.lab_eq]; exact up_marg (fun _ => 2) _ _ _ _ Ex.lab_nodup (fun _ _ => rfl) _

/-- a CLT sub-tree is a distribution over its variables in the sense `Circ.Valid` asks of a leaf -/
theorem clt_leafOK (dom : Nat → Nat) (scope : List Nat) (cpt : List (List (List α))) (t : RTree) (l : Nat)
    (hnd : (lab scope t).Nodup) (hdom : ∀ v ∈ lab scope t, dom v = 2) :
    LeafOK dom (lab scope t) (up scope cpt t l) :=
  clt_leafOK_lem dom scope cpt t l hnd hdom

example : LeafOK (fun _ => 2) [7, 2, 4, 9] (up Ex.scope Ex.cpt Ex.tree 0) := by
  rw [← Ex.lab_eq]; exact clt_leafOK (fun _ => 2) _ _ _ _ Ex.lab_nodup (fun _ => fun _ => rfl)

/-- the whole `BinaryCLT` leaf (`value`, what `log_likelihood` computes on rows with NaNs): for a
well-formed predecessor vector and pairwise distinct binary scope variables it is a distribution over
its scope — so it can sit as a leaf of a valid circuit and `Circ.marg` goes through it. -/
theorem value_leafOK (dom : Nat → Nat) (scope : List Nat) (pred : List Int) (cpt : List (List (List α)))
    (htree : isTree pred = true) (hlen : scope.length = pred.length) (hnd : scope.Nodup)
    (hdom : ∀ v ∈ scope, dom v = 2) : LeafOK dom scope (value scope pred cpt) :=
  Clt.value_leafOK_lem dom scope pred cpt htree hlen hnd hdom

example : LeafOK (fun _ => 2) Ex.scope (value Ex.scope Ex.pred Ex.cpt) :=
  value_leafOK _ _ _ _ Ex.isTree_eq Ex.scope_len Ex.scope_nodup (fun _ _ => rfl)

/-- **C02 for the whole CLT**: NaN-marginal = sum over completions of the scope -/
theorem value_marg (dom : Nat → Nat) (scope : List Nat) (pred : List Int) (cpt : List (List (List α)))
    (htree : isTree pred = true) (hlen : scope.length = pred.length) (hnd : scope.Nodup)
    (hdom : ∀ v ∈ scope, dom v = 2) (e : Ev) :
    value scope pred cpt e = sumOver dom scope e (fun e' => value scope pred cpt e') :=
  Clt.value_marg_lem dom scope pred cpt htree hlen hnd hdom e

example : value Ex.scope Ex.pred Ex.cpt Ex.ev =
    sumOver (fun _ => 2) Ex.scope Ex.ev (fun e' => value Ex.scope Ex.pred Ex.cpt e') :=
  value_marg _ _ _ _ Ex.isTree_eq Ex.scope_len Ex.scope_nodup (fun _ _ => rfl) _

/-- **normalisation**: if every CPT row of the sub-tree sums to one, the message with nothing observed
is one, and (distinct binary variables) the complete-evidence values sum to one over `{0,1}^n`. -/
theorem up_normalised (dom : Nat → Nat) (scope : List Nat) (cpt : List (List (List α))) (t : RTree) (l : Nat)
    (hl : l < 2) (hrows : ∀ i ∈ t.vars, ∀ l < 2, cptAt cpt i l 0 + cptAt cpt i l 1 = 1) :
    up scope cpt t l (fun _ => none) = 1 ∧
    ((lab scope t).Nodup → (∀ v ∈ lab scope t, dom v = 2) →
      sumOver dom (lab scope t) (fun _ => none) (fun x => up scope cpt t l x) = 1) := by
  refine ⟨up_all_missing scope cpt t l hl hrows, fun hnd hdom => ?_⟩
  rw [← up_marg dom scope cpt t l hnd hdom]
  exact up_all_missing scope cpt t l hl hrows

example : up Ex.scope Ex.cpt Ex.tree 0 (fun _ => none) = 1 ∧
    sumOver (fun _ => 2) (lab Ex.scope Ex.tree) (fun _ => none) (fun x => up Ex.scope Ex.cpt Ex.tree 0 x) = 1 :=
  let h := up_normalised (fun _ => 2) Ex.scope Ex.cpt Ex.tree 0 (by omega) Ex.rows
  ⟨h.1, h.2 Ex.lab_nodup (fun _ _ => rfl)⟩

/-- complete evidence, RTree form: message passing returns the product of the selected CPT entries -/
theorem up_complete_eq_treeJoint (scope : List Nat) (cpt : List (List (List α))) (x : Nat → Nat) (t : RTree) (l : Nat) :
    up scope cpt t l (fun v => some (x v)) = treeJoint scope cpt x t l :=
  up_complete scope cpt x t l

example : up Ex.scope Ex.cpt Ex.tree 0 (fun v => some (if v = 7 then 1 else 0)) = 189 / 2000 := by
  rw [up_complete_eq_treeJoint]
  norm_num [treeJoint, Ex.tree, Ex.scope, Ex.cpt, cptAt, lprod]

/-- **C02, batch split**: on a complete binary row the vectorised full-evidence path of
`log_likelihood` (`joint`: `Σ params[vs, x[:, tree], x[:, vs]]`, where the root reads the row selected by
the LAST column, NumPy index `-1`) and the message-passing path (`value`, root row 0) agree.
Structural hypothesis: `isTree pred = true` (exactly one `-1`, and the unfolding `build pred n r` from it
lists `n` indices covering `0..n-1`); parameter hypothesis: the two rows of the root's table are equal
(what `compute_clt_parameters`, `em_init` and `em_step` establish).  Hence mixing complete and
incomplete rows in one batch cannot change a row's value. -/
theorem joint_eq_up (scope : List Nat) (pred : List Int) (cpt : List (List (List α))) (x : Nat → Nat)
    (htree : isTree pred = true)
    (hroot : ∀ r, rootOf pred = some r → ∀ k, cptAt cpt r 0 k = cptAt cpt r 1 k)
    (hx : ∀ i < pred.length, x (scope.getD i 0) < 2) :
    joint scope pred cpt x = value scope pred cpt (fun v => some (x v)) :=
  joint_eq_value scope pred cpt x htree hroot hx

example : joint Ex.scope Ex.pred Ex.cpt (fun v => if v = 7 then 1 else 0)
    = value Ex.scope Ex.pred Ex.cpt (fun v => some (if v = 7 then 1 else 0)) :=
  joint_eq_up _ _ _ _ Ex.isTree_eq Ex.root_rows (fun i _ => by split <;> omega)

/-- the hypothesis "the two rows of the root's table are equal" of `joint_eq_up` / `toPc_eval` is needed:
the constructor of `BinaryCLT` only checks that every row sums to one, and for the 2-variable tree `3 → 8`
with root rows `(1/2, 1/2)`, `(1/4, 3/4)` the complete row `X₃ = 0, X₈ = 1` gets `1/40` on the vectorised
path (root row selected by the last column) and `1/20` by message passing, while `to_pc` evaluates to `1/40`. -/
theorem root_rows_needed :
    let scope : List Nat := [3, 8]
    let pred : List Int := [-1, 0]
    let cpt : List (List (List ℚ)) := [[[1/2, 1/2], [1/4, 3/4]], [[9/10, 1/10], [1/5, 4/5]]]
    let x : Nat → Nat := fun v => if v = 8 then 1 else 0
    isTree pred = true ∧ joint scope pred cpt x = 1 / 40 ∧ value scope pred cpt (fun v => some (x v)) = 1 / 20 ∧
    Circ.eval (fun v => some (x v)) (toPc scope pred cpt) = 1 / 40 := by
  intro scope pred cpt x
  have hr : rootOf pred = some 0 := by rfl
  have hb : build pred pred.length 0 = .node 0 [.node 1 []] := by rfl
  refine ⟨?_, ?_, ?_, ?_⟩
  · simp only [isTree, hr, hb]
    simp [RTree.vars, pred]
    omega
  · norm_num [joint, pred, scope, cpt, x, cptAt, lprod, List.range, List.range.loop]
  · simp only [value, hr, hb]
    norm_num [up, scope, cpt, x, cptAt, lprod]
  · simp only [toPc, hr, hb, pc_eval]
    norm_num [up, scope, cpt, x, cptAt, lprod]

/-- **C12, structured decomposability**: the scopes stored at the product nodes of `to_pc`'s circuit are
exactly the scopes `pcScope u` of the inner sub-trees `u` (each a permutation of the variable set of `u`),
and, over pairwise distinct variables, they form a laminar family (pairwise nested or disjoint). -/
theorem pc_structured (scope : List Nat) (cpt : List (List (List α))) (t : RTree) (l : Nat) :
    (∀ s, s ∈ Circ.prodScopes (pc scope cpt t l) ↔ ∃ u ∈ t.subtrees, u.kids ≠ [] ∧ s = pcScope scope u) ∧
    (∀ u, (pcScope scope u).Perm (lab scope u)) ∧
    ((lab scope t).Nodup → Laminar (Circ.prodScopes (pc scope cpt t l))) :=
  ⟨fun s => mem_prodScopes_pc scope cpt s t l, pcScope_perm scope, pc_laminar scope cpt t l⟩

example : Circ.prodScopes (pc Ex.scope Ex.cpt Ex.tree 0) =
      [[7, 9, 2, 4], [2, 4], [2, 4], [7, 9, 2, 4], [2, 4], [2, 4]] ∧
    Laminar (Circ.prodScopes (pc Ex.scope Ex.cpt Ex.tree 0)) := by
  refine ⟨?_, (pc_structured _ _ _ _).2.2 Ex.lab_nodup⟩
  simp [pc, Ex.tree, Ex.scope, Circ.mkSum, Circ.mkProd, Circ.prodScopes, Circ.catLeaf, Circ.scope]

/-- `get_scopes` returns the same family: one list per inner sub-tree, a permutation of its variable set
(hence of the scope stored at the corresponding product nodes of `to_pc`). -/
theorem get_scopes_spec (scope : List Nat) (cpt : List (List (List α))) (t : RTree) (l : Nat) :
    (∀ s, s ∈ getScopes scope t ↔ ∃ u ∈ t.subtrees, u.kids ≠ [] ∧ s = getScopeTop scope u) ∧
    (∀ s ∈ getScopes scope t, ∃ s' ∈ Circ.prodScopes (pc scope cpt t l), s.Perm s') ∧
    (∀ s' ∈ Circ.prodScopes (pc scope cpt t l), ∃ s ∈ getScopes scope t, s.Perm s') := by
  refine ⟨fun s => mem_getScopes scope s t, ?_, ?_⟩
  · intro s hs
    obtain ⟨u, hu, hk, rfl⟩ := (mem_getScopes scope s t).1 hs
    exact ⟨pcScope scope u, (mem_prodScopes_pc scope cpt _ t l).2 ⟨u, hu, hk, rfl⟩,
      (getScopeTop_perm scope u).trans (pcScope_perm scope u).symm⟩
  · intro s' hs'
    obtain ⟨u, hu, hk, rfl⟩ := (mem_prodScopes_pc scope cpt s' t l).1 hs'
    exact ⟨getScopeTop scope u, (mem_getScopes scope _ t).2 ⟨u, hu, hk, rfl⟩,
      (getScopeTop_perm scope u).trans (pcScope_perm scope u).symm⟩

example : getScopes Ex.scope Ex.tree = [[4, 2], [9, 4, 2, 7]] := by
  simp [getScopes, getScopeTop, Ex.tree, Ex.scope]

/-- **C12, determinism**: on evidence that observes every variable of the tree, at most one child of
every sum node of `to_pc`'s circuit evaluates to a non-zero value (the two children carry
contradictory indicators). -/
theorem pc_deterministic (scope : List Nat) (cpt : List (List (List α))) (e : Ev) (t : RTree) (l : Nat)
    (hcomplete : ∀ v ∈ lab scope t, e v ≠ none) : Circ.DetAt e (pc scope cpt t l) :=
  pc_detAt scope cpt e t l hcomplete

example : Circ.DetAt Ex.full (pc Ex.scope Ex.cpt Ex.tree 0) :=
  pc_deterministic _ _ _ _ _ Ex.full_fill

end semiring

/-! ## C. conditional sampling (C07) -/
section field
variable {α : Type} [Field α]

/-- **C07, exactness of the repaired CLT sampler** (division-free): for every completion `X` of the
evidence `e` (agrees with `e` where `e` is observed, observes every variable of the tree), the
probability `samplePmf` of drawing `X` times the marginal of `e` is the joint value of `X`, provided the
marginals the sampler divides by along the path of `X` are non-zero (`SampleDefined`). -/
theorem samplePmf_exact (scope : List Nat) (cpt : List (List (List α))) (t : RTree) (l : Nat) (e X : Ev)
    (hagree : ∀ v, e v ≠ none → X v = e v) (hfill : ∀ v ∈ lab scope t, X v ≠ none)
    (hd : SampleDefined scope cpt t l e (fun v => (X v).getD 0)) :
    samplePmf scope cpt t l e (fun v => (X v).getD 0) * up scope cpt t l e = up scope cpt t l X :=
  samplePmf_exact_up scope cpt t l e X hagree hfill hd

example : samplePmf Ex.scope Ex.cpt Ex.tree 0 Ex.ev (fun v => (Ex.full v).getD 0) * up Ex.scope Ex.cpt Ex.tree 0 Ex.ev
    = up Ex.scope Ex.cpt Ex.tree 0 Ex.full :=
  samplePmf_exact _ _ _ _ _ _ Ex.full_agree Ex.full_fill
    (sampleDefined_of_pos _ _ _ _ _ _ (by omega) Ex.cpt_pos Ex.ev_obs Ex.full_lt)

/-- the same for the whole tree (`value`, `samplePmfTree`) -/
theorem samplePmf_exact_value (scope : List Nat) (pred : List Int) (cpt : List (List (List α))) (r : Nat)
    (hr : rootOf pred = some r) (e X : Ev)
    (hagree : ∀ v, e v ≠ none → X v = e v) (hfill : ∀ v ∈ lab scope (build pred pred.length r), X v ≠ none)
    (hd : SampleDefined scope cpt (build pred pred.length r) 0 e (fun v => (X v).getD 0)) :
    samplePmfTree scope pred cpt e (fun v => (X v).getD 0) * value scope pred cpt e = value scope pred cpt X := by
  simp only [samplePmfTree, value, hr]
  exact samplePmf_exact_up scope cpt _ 0 e X hagree hfill hd

example : samplePmfTree Ex.scope Ex.pred Ex.cpt Ex.ev (fun v => (Ex.full v).getD 0) * value Ex.scope Ex.pred Ex.cpt Ex.ev
    = value Ex.scope Ex.pred Ex.cpt Ex.full :=
  samplePmf_exact_value _ _ _ 0 Ex.root_eq _ _ Ex.full_agree (by rw [Ex.build_eq]; exact Ex.full_fill)
    (by rw [Ex.build_eq]
        exact sampleDefined_of_pos _ _ _ _ _ _ (by omega) Ex.cpt_pos Ex.ev_obs Ex.full_lt)

end field

section ordfield
variable {α : Type} [Field α] [LinearOrder α] [IsStrictOrderedRing α]

/-- with strictly positive tables and binary evidence no division by zero can occur: the sampler is
exact for every binary completion -/
theorem samplePmf_exact_pos (scope : List Nat) (cpt : List (List (List α))) (t : RTree) (l : Nat) (hl : l < 2)
    (hpos : ∀ i ∈ t.vars, ∀ l < 2, ∀ k < 2, 0 < cptAt cpt i l k) (e X : Ev)
    (hobs : ∀ v ∈ lab scope t, ∀ o, e v = some o → o < 2)
    (hagree : ∀ v, e v ≠ none → X v = e v) (hfill : ∀ v ∈ lab scope t, X v ≠ none)
    (hX : ∀ v ∈ lab scope t, (X v).getD 0 < 2) :
    samplePmf scope cpt t l e (fun v => (X v).getD 0) * up scope cpt t l e = up scope cpt t l X ∧
    up scope cpt t l e ≠ 0 :=
  ⟨samplePmf_exact_up scope cpt t l e X hagree hfill
      (sampleDefined_of_pos scope cpt e _ t l hl hpos hobs hX),
    ne_of_gt (up_pos scope cpt e t l hl hpos hobs)⟩

example : (samplePmf Ex.scope Ex.cpt Ex.tree 0 Ex.ev (fun v => (Ex.full v).getD 0) * up Ex.scope Ex.cpt Ex.tree 0 Ex.ev
    = up Ex.scope Ex.cpt Ex.tree 0 Ex.full) ∧ up Ex.scope Ex.cpt Ex.tree 0 Ex.ev ≠ 0 :=
  samplePmf_exact_pos _ _ _ _ (by omega) Ex.cpt_pos _ _ Ex.ev_obs Ex.full_agree Ex.full_fill Ex.full_lt

end ordfield

/-- **C07, the pinned sampler is wrong (root)**: 2-variable tree `3 → 8`, root prior `(3/5, 2/5)`, child
table `P(X₈=1|X₃=0) = 1/10`, `P(X₈=1|X₃=1) = 4/5`, evidence `X₈ = 1`.  The Bernoulli parameter the pinned
`sample` uses for the root, `exp(params[root,0,1] + messages[root,·,1])`, is `8/25`; the true conditional
`P(X₃=1 | X₈=1)`, which the normalised local conditional returns, is `16/19`. -/
theorem old_clt_sampler_wrong :
    let scope : List Nat := [3, 8]
    let cpt : List (List (List ℚ)) := [[[3/5, 2/5], [3/5, 2/5]], [[9/10, 1/10], [1/5, 4/5]]]
    let t : RTree := .node 0 [.node 1 []]
    let e : Ev := fun v => if v = 8 then some 1 else none
    oldRootParam scope cpt 0 [.node 1 []] e = 8 / 25 ∧
    localCond scope cpt 0 [.node 1 []] 0 1 e = 16 / 19 ∧
    up scope cpt t 0 (e.set 3 1) / up scope cpt t 0 e = 16 / 19 ∧
    oldRootParam scope cpt 0 [.node 1 []] e ≠ up scope cpt t 0 (e.set 3 1) / up scope cpt t 0 e := by
  intro scope cpt t e
  have h1 : oldRootParam scope cpt 0 [.node 1 []] e = 8 / 25 := by
    norm_num [oldRootParam, msgAt, up, cptAt, lprod, scope, cpt, e]
  have h2 : localCond scope cpt 0 [.node 1 []] 0 1 e = 16 / 19 := by
    norm_num [localCond, msgAt, up, cptAt, lprod, sumVar, List.range, List.range.loop, scope, cpt, e]
  have h3 : up scope cpt t 0 (e.set 3 1) / up scope cpt t 0 e = 16 / 19 := by
    norm_num [up, cptAt, lprod, sumVar, List.range, List.range.loop, Ev.set, scope, cpt, e, t]
  refine ⟨h1, h2, h3, ?_⟩
  rw [h1, h3]; norm_num

/-- **C07, the pinned sampler is wrong (inner variable)**: chain `3 → 8 → 5`, evidence `X₃ = 0, X₅ = 1`,
`X₈` missing.  The pinned code uses `exp(params[j, pa, 1] + messages[j, ·, pa])` (the message indexed by the
PARENT's value `pa = 0`): `1/2 · 1/10 = 1/20`; the true conditional `P(X₈=1 | X₃=0, X₅=1)` is `8/9`. -/
theorem old_clt_sampler_wrong_child :
    let scope : List Nat := [3, 8, 5]
    let cpt : List (List (List ℚ)) :=
      [[[3/5, 2/5], [3/5, 2/5]], [[1/2, 1/2], [1/5, 4/5]], [[9/10, 1/10], [1/5, 4/5]]]
    let e : Ev := fun v => if v = 3 then some 0 else if v = 5 then some 1 else none
    oldChildParam scope cpt 1 [.node 2 []] 0 e = 1 / 20 ∧
    localCond scope cpt 1 [.node 2 []] 0 1 e = 8 / 9 ∧
    up scope cpt (.node 0 [.node 1 [.node 2 []]]) 0 (e.set 8 1) / up scope cpt (.node 0 [.node 1 [.node 2 []]]) 0 e = 8 / 9 := by
  intro scope cpt e
  refine ⟨?_, ?_, ?_⟩
  · norm_num [oldChildParam, msgAt, up, cptAt, lprod, scope, cpt, e]
  · norm_num [localCond, msgAt, up, cptAt, lprod, sumVar, List.range, List.range.loop, scope, cpt, e]
  · norm_num [up, cptAt, lprod, sumVar, List.range, List.range.loop, Ev.set, scope, cpt, e]

/-! ## B. MPE by max-product (C06) -/
section mpe
variable {α : Type} [CommSemiring α] [LinearOrder α] [IsStrictOrderedRing α]

/-- **max-product message passing = max over completions**: `upMax` (the `reduce='mpe'` messages) is
`up` at the max-times carrier, and there it is — by the SAME theorem `up_marg` — the completion "sum",
i.e. the maximum over all completions of the missing variables; in particular it dominates the value
of every completion. -/
theorem up_max_eq_maxOver (scope : List Nat) (cpt : List (List (List α))) (hc : ∀ i l k, 0 ≤ cptAt cpt i l k)
    (t : RTree) (l : Nat) (hnd : (lab scope t).Nodup) (e : Ev) :
    upMax scope cpt t l e
        = (sumOver (fun _ => 2) (lab scope t) e (fun e' => up scope (liftCpt cpt) t l e')).val ∧
    (∀ X : Ev, (∀ v ∈ lab scope t, X v ≠ none) → (up scope (liftCpt cpt) t l X).val = up scope cpt t l X) ∧
    (∀ X : Ev, (∀ v ∈ lab scope t, e v ≠ none → X v = e v) →
        (∀ v ∈ lab scope t, e v = none → ∃ k, k < 2 ∧ X v = some k) →
        up scope cpt t l X ≤ upMax scope cpt t l e) := by
  refine ⟨?_, ?_, ?_⟩
  · rw [upMax_eq_val scope cpt hc, ← up_maxTimes_marg scope (liftCpt cpt) t l hnd e]
  · intro X hX; exact (up_complete_val scope cpt hc t l X hX).symm
  · intro X h1 h2; exact up_le_upMax scope cpt hc t l hnd e X h1 h2

example : upMax Ex.scope Ex.cpt Ex.tree 0 Ex.ev
    = (sumOver (fun _ => 2) (lab Ex.scope Ex.tree) Ex.ev (fun e' => up Ex.scope (liftCpt Ex.cpt) Ex.tree 0 e')).val :=
  (up_max_eq_maxOver Ex.scope Ex.cpt Ex.cpt_nonneg Ex.tree 0 Ex.lab_nodup Ex.ev).1

/-- at the max-times carrier the completion "sum" is an upper bound of the values at all completions -/
theorem maxOver_upper_bound (dom : Nat → Nat) (S : List Nat) (f : Ev → MaxTimes α) (e X : Ev)
    (h : CompletesIn dom S e X) : (f X).val ≤ (sumOver dom S e f).val :=
  maxOver_ge dom S f e X h

example : (MaxTimes.ofVal (if (Ev.set (fun _ => none) 7 1) 7 = some 1 then (3 : ℚ) else 1)).val
    ≤ (sumOver (fun _ => 2) [7] (fun _ => none)
        (fun X : Ev => MaxTimes.ofVal (if X 7 = some 1 then (3 : ℚ) else 1))).val := by
  apply maxOver_upper_bound (fun _ => 2) [7] (fun X : Ev => MaxTimes.ofVal (if X 7 = some 1 then (3 : ℚ) else 1))
    (fun _ => none) (Ev.set (fun _ => none) 7 1)
  refine ⟨fun w hw => ?_, fun v hv _ => ⟨1, by show 1 < 2; omega, ?_⟩⟩
  · rcases hw with hw | hw
    · exact Ev.set_ne _ 1 (by simpa using hw)
    · exact absurd rfl hw
  · have : v = 7 := by simpa using hv
    subst this; exact Ev.set_self _ 7 1

/-- **C06**: `mpe` leaves observed entries untouched (any tree, any tables, any labels) -/
theorem decode_keeps_observed (scope : List Nat) (cpt : List (List (List α))) (t : RTree) (l : Nat) (e : Ev)
    (w o : Nat) (h : e w = some o) : decode scope cpt t l e w = some o :=
  decode_keeps_observed' scope cpt e t l w o h

example : decode Ex.scope Ex.cpt Ex.tree 0 Ex.ev 2 = some 1 :=
  decode_keeps_observed _ _ _ _ _ 2 1 (by simp [Ex.ev])

/-- **C06**: `mpe` gives a value to every variable of the tree — a value `< 2` when the observed
entries of the tree are binary — and changes nothing outside the tree -/
theorem decode_fills_all (scope : List Nat) (cpt : List (List (List α))) (t : RTree) (l : Nat) (e : Ev) :
    (∀ w ∈ lab scope t, ∃ k, decode scope cpt t l e w = some k ∧
        ((∀ v ∈ lab scope t, ∀ o, e v = some o → o < 2) → k < 2)) ∧
    (∀ w, w ∉ lab scope t → decode scope cpt t l e w = e w) :=
  ⟨fun w hw => decode_fills' scope cpt e t l w hw, fun w hw => decode_outside' scope cpt e t l w hw⟩

example : ∀ w ∈ [7, 2, 4, 9], ∃ k, decode Ex.scope Ex.cpt Ex.tree 0 Ex.ev w = some k ∧ k < 2 := by
  intro w hw
  rw [← Ex.lab_eq] at hw
  obtain ⟨k, hk, hlt⟩ := (decode_fills_all Ex.scope Ex.cpt Ex.tree 0 Ex.ev).1 w hw
  exact ⟨k, hk, hlt Ex.ev_obs⟩

/-- **C06, exactness on Chow-Liu trees**: for non-negative tables over pairwise distinct variables, the
joint value of the row completed by the decoding pass of `mpe` equals the max-product value, i.e. the
maximum over all completions of the evidence: it is at least the value of every completion. -/
theorem decode_attains_max (scope : List Nat) (cpt : List (List (List α))) (hc : ∀ i l k, 0 ≤ cptAt cpt i l k)
    (t : RTree) (l : Nat) (hnd : (lab scope t).Nodup) (e : Ev) :
    up scope cpt t l (decode scope cpt t l e) = upMax scope cpt t l e ∧
    up scope cpt t l (decode scope cpt t l e)
        = (sumOver (fun _ => 2) (lab scope t) e (fun e' => up scope (liftCpt cpt) t l e')).val ∧
    (∀ X : Ev, (∀ v ∈ lab scope t, e v ≠ none → X v = e v) →
        (∀ v ∈ lab scope t, e v = none → ∃ k, k < 2 ∧ X v = some k) →
        up scope cpt t l X ≤ up scope cpt t l (decode scope cpt t l e)) := by
  have h := decode_attains scope cpt hc e t l hnd
  refine ⟨h, ?_, ?_⟩
  · rw [h]; exact (up_max_eq_maxOver scope cpt hc t l hnd e).1
  · intro X h1 h2; rw [h]; exact up_le_upMax scope cpt hc t l hnd e X h1 h2

example : up Ex.scope Ex.cpt Ex.tree 0 (decode Ex.scope Ex.cpt Ex.tree 0 Ex.ev) = upMax Ex.scope Ex.cpt Ex.tree 0 Ex.ev ∧
    up Ex.scope Ex.cpt Ex.tree 0 Ex.full ≤ up Ex.scope Ex.cpt Ex.tree 0 (decode Ex.scope Ex.cpt Ex.tree 0 Ex.ev) :=
  let h := decode_attains_max Ex.scope Ex.cpt Ex.cpt_nonneg Ex.tree 0 Ex.lab_nodup Ex.ev
  ⟨h.1, h.2.2 Ex.full (fun v _ hv => Ex.full_agree v hv) Ex.full_mis⟩

/-- the whole tree: `value (mpe e)` dominates `value X` for every binary completion `X` of `e` -/
theorem mpe_attains_max (scope : List Nat) (pred : List Int) (cpt : List (List (List α)))
    (hc : ∀ i l k, 0 ≤ cptAt cpt i l k) (htree : isTree pred = true) (hlen : scope.length = pred.length)
    (hnd : scope.Nodup) (e X : Ev) (hobs : ∀ v ∈ scope, e v ≠ none → X v = e v)
    (hmis : ∀ v ∈ scope, e v = none → ∃ k, k < 2 ∧ X v = some k) :
    value scope pred cpt X ≤ value scope pred cpt (mpe scope pred cpt e) := by
  obtain ⟨r, hr, hperm⟩ := isTree_perm htree
  have hp := lab_build_perm scope hlen hperm
  simp only [value, mpe, hr]
  exact (decode_attains_max scope cpt hc _ 0 (hp.nodup_iff.2 hnd) e).2.2 X
    (fun v hv => hobs v (hp.mem_iff.1 hv)) (fun v hv => hmis v (hp.mem_iff.1 hv))

example : value Ex.scope Ex.pred Ex.cpt Ex.full ≤ value Ex.scope Ex.pred Ex.cpt (mpe Ex.scope Ex.pred Ex.cpt Ex.ev) :=
  mpe_attains_max _ _ _ Ex.cpt_nonneg Ex.isTree_eq Ex.scope_len Ex.scope_nodup _ _
    (fun v _ hv => Ex.full_agree v hv)
    (fun v hv he => Ex.full_mis v (by rw [Ex.lab_eq]; simp [Ex.scope] at hv ⊢; omega) he)

end mpe

end Clt
end Deeprob
