import DeeprobModel.Lemmas.MargNetStruct
import DeeprobModel.Props.C10Net
import DeeprobModel.Props.C09NetKahn
set_option linter.unusedSectionVars false
set_option linter.unusedSimpArgs false
set_option linter.unusedVariables false
/-
C10 at DAG level, beyond the value: shape of the result of `marginalize`
(/repo/deeprob/spn/algorithms/structure.py) on node tables with sharing (`marginalizeNet`, Model/RewriteNet.lean):
normal form, validity (`check_spn` with all three flags), scope = `root.scope ∩ keep_scope`, totality.
Chow-Liu-tree leaves are outside (`marginalizeNet` answers `unsupported:clt`).
-/
namespace Deeprob
open Net

namespace C10w
theorem accept : Net.checkSpn net 5 true true true = .accept := by decide
theorem leafNoCh' : ∀ j : Fin net.length, (net[j]).kind = .leaf → (net[j]).ch = [] := by decide
theorem leafNoCh : ∀ i ∈ collect net 5, ∀ x, net[i]? = some x → x.kind = .leaf → x.ch = [] := by
  intro i hi x hx hk
  obtain ⟨hlt, rfl⟩ := List.getElem?_eq_some_iff.1 hx
  exact leafNoCh' ⟨i, hlt⟩ hk
end C10w

variable {α : Type} [CommSemiring α]

/-- **C10 at DAG level, shape of the result**: for a children-first table accepted by
`check_spn(labeled, smooth, decomposable)` whose leaves have no children, whenever `marginalize(root, keep)` (repaired
`prune`) returns a table,
* it is accepted by `check_spn(labeled, smooth, decomposable)` at its root (last entry), every entry being reachable;
* it is in normal form (`normalFormB`; in fact every entry, `NetNF`) and children-first;
* its root scope is `root.scope ∩ keep` as a set, and every stored scope is duplicate-free;
* pruning it again changes nothing. -/
theorem marginalizeNet_shape (keep : List Nat) (net : Net α) (root : Nat) (hw : WellOrdered net)
    (hr : root < net.length) (hacc : Net.checkSpn net root true true true = .accept)
    (hleaf : ∀ i ∈ collect net root, ∀ x, net[i]? = some x → x.kind = .leaf → x.ch = [])
    (out : Net α) (order : List Nat) (h : marginalizeNet keep net root = .ok (out, order)) :
    Net.checkSpn out (out.length - 1) true true true = .accept ∧
    (∀ p, p < out.length → p ∈ collect out (out.length - 1)) ∧
    normalFormB out (out.length - 1) = true ∧ NetNF out ∧ WellOrdered out ∧
    (∀ v, v ∈ scopeOf out (out.length - 1) ↔ (v ∈ scopeOf net root ∧ v ∈ keep)) ∧
    (∀ p, p < out.length → (scopeOf out p).Nodup) ∧
    pruneNet out (out.length - 1) = some (out, List.range out.length) := by
  unfold marginalizeNet marginalizeNetWith at h
  split at h
  · cases h
  · split at h
    · cases h
    · rename_i hun
      have hm := margOK_of_accept net root hw hacc hleaf hun
      have I := msinv_final net keep _ hw hm
      obtain ⟨rw1, rl, rcl, rsh, rlo, rnd⟩ := margPass_ready net keep _ hw hm
      generalize hst : margPass keep net = st at h I rw1 rl rcl rsh rlo rnd
      simp only at h
      split at h
      · cases h
      · rename_i r1 hr1
        split at h
        · cases h
        · rename_i res hres
          simp only [Except.ok.injEq] at h
          subst h
          have hG : MRepOf net.length st.2 (fun i => i ∈ collect net root) r1 :=
            ⟨root, hr, root_mem_collect net root, hr1⟩
          have hr1lt : r1 < st.1.length := by rw [rl]; exact (rnd r1 hG).2
          have hres' : pruneNet st.1 r1 = some (out, order) := hres
          obtain ⟨n1, n2⟩ := pruneNet_normal_form_of st.1 r1 rw1 hr1lt _ rcl hG rsh out order hres'
          obtain ⟨n3, n4⟩ := pruneNet_netNF_of st.1 r1 rw1 hr1lt _ rcl hG rsh out order hres'
          obtain ⟨v1, v2, v3, v4⟩ := pruneNet_valid_of st.1 r1 rw1 hr1lt _ rcl hG rsh rlo
            (fun i hi => (rnd i hi).1) out order hres'
          have S := prunePass_sol true st.1 rw1
          have hrr : (prunePass true st.1).2.getD r1 r1 < (prunePass true st.1).1.length := by
            have := (S.basic r1 hr1lt).rep_le; rw [S.lt]; omega
          have hexp : exportFrom (prunePass true st.1).1 ((prunePass true st.1).2.getD r1 r1) = some (out, order) := hres
          obtain ⟨l1, l2⟩ := exportFrom_labeled _ (sol_chLt true st.1 _ _ S) _ hrr
            (kahnFacts_of_ChLt _ (sol_chLt true st.1 _ _ S) _) out order hexp
          refine ⟨?_, l2, n1, n4, n3, ?_, v4, ?_⟩
          · rw [checkSpn_flags_accept_iff] at v1 ⊢
            exact ⟨fun _ => l1, v1.2.1, v1.2.2⟩
          · intro v
            rw [v2 v]
            exact (I.some_ok root r1 hr (root_mem_collect net root) hr1).2 v
          · rw [(pruneNet_fix out (out.length - 1) n3 n4).2]
            exact exportFrom_export_ids _ (sol_chLt true st.1 _ _ S) _ hrr out order hexp

example : ∃ out order, marginalizeNet [1] C10w.net 5 = .ok (out, order) ∧
    Net.checkSpn out (out.length - 1) true true true = .accept ∧ normalFormB out (out.length - 1) = true ∧
    (∀ v, v ∈ scopeOf out (out.length - 1) ↔ (v ∈ scopeOf C10w.net 5 ∧ v ∈ [1])) := by
  cases h : marginalizeNet [1] C10w.net 5 with
  | error s =>
    have := C10w.results.2.2.2.1
    rw [h] at this; simp [C10w.view] at this
  | ok r =>
    have key := marginalizeNet_shape [1] C10w.net 5 C10w.wellOrdered (by decide) C10w.accept C10w.leafNoCh r.1 r.2 h
    exact ⟨r.1, r.2, rfl, key.1, key.2.2.1, key.2.2.2.2.2.1⟩

/-- **C10 at DAG level, totality**: under the same hypotheses, with `keep_scope` non-empty, duplicate-free and inside
the root scope (the three argument checks) and no Chow-Liu / multivariate leaf, `marginalize` returns a table: the
first pass cannot answer `None` at the root and the final `prune` cannot report a cycle. -/
theorem marginalizeNet_total (keep : List Nat) (net : Net α) (root : Nat) (hw : WellOrdered net)
    (hr : root < net.length) (hacc : Net.checkSpn net root true true true = .accept)
    (hleaf : ∀ i ∈ collect net root, ∀ x, net[i]? = some x → x.kind = .leaf → x.ch = [])
    (hg : margGuard keep (scopeAt net root) = none)
    (hun : margUnsupported net (collect net root) = none) :
    ∃ res, marginalizeNet keep net root = .ok res := by
  have hm := margOK_of_accept net root hw hacc hleaf hun
  have I := msinv_final net keep _ hw hm
  obtain ⟨rw1, rl, _⟩ := margPass_ready net keep _ hw hm
  unfold marginalizeNet marginalizeNetWith
  rw [hg, hun]
  simp only
  generalize hst : margPass keep net = st at I rw1 rl
  -- the root is not marginalised away
  have hsome : ∃ r1, st.2.getD root none = some r1 := by
    cases hn : st.2.getD root none with
    | some r1 => exact ⟨r1, rfl⟩
    | none =>
      exfalso
      have hno := (I.none_iff root hr (root_mem_collect net root)).1 hn
      obtain ⟨hne, hsub⟩ := margGuard_none keep _ hg
      obtain ⟨v, hv⟩ := List.exists_mem_of_ne_nil _ hne
      exact hno v (hsub v hv) hv
  obtain ⟨r1, hr1⟩ := hsome
  rw [hr1]
  simp only
  have S := prunePass_sol true st.1 rw1
  obtain ⟨ko, hk⟩ := Net.kahn_some_of (prunePass true st.1).1 ((prunePass true st.1).2.getD r1 r1)
    (Net.chLt_of_wellOrdered _ (sol_chLt true st.1 _ _ S))
  have : ∃ res, pruneNetWith true st.1 r1 = some res := by
    unfold pruneNetWith exportFrom
    simp only [hk]
    exact ⟨_, rfl⟩
  obtain ⟨res, hres⟩ := this
  rw [hres]
  exact ⟨res, rfl⟩

example : ∃ res, marginalizeNet [0] C10w.net 5 = .ok res :=
  marginalizeNet_total [0] C10w.net 5 C10w.wellOrdered (by decide) C10w.accept C10w.leafNoCh (by decide) (by decide)

end Deeprob
