import DeeprobModel.Lemmas.GraphOrderPass
import DeeprobModel.Lemmas.GraphOrderTree
import DeeprobModel.Props.Clt
import Mathlib.Tactic.NormNum
set_option linter.unusedSimpArgs false
set_option linter.unusedVariables false
/-
C02 / C06 / C12 for binary Chow-Liu trees, the part the inductive model (`Model/Clt.lean`, `Props/Clt.lean`) took
from the implementation: THE ORDER in which `BinaryCLT.message_passing` visits the variables.

* `computeBfsOrdering` (Model/GraphOrder.lean) is `compute_bfs_ordering` of deeprob/utils/graph.py as coded
  (`build_tree_structure`: children lists filled while enumerating the vector; a FIFO queue);
* `arrayPass` / `passValue` / `codeValue` are the loop `for j in reversed(self.bfs[1:])` of
  deeprob/spn/structure/cltree.py `message_passing` with its array `messages[n_features, ·, 2]`.

`WellFormedPred tree` (decidable): exactly one entry `-1`, every other entry an index `< n`, every index climbs
to the root in `≤ n-1` steps.  Every theorem below is followed by a non-vacuity example on the reviewers'
regression tree `[3, 4, 1, -1, 0]` (the chain 3 → 0 → 4 → 1 → 2: parents do NOT have smaller indices).
-/
namespace Deeprob.GraphIo
open Deeprob Deeprob.Clt Deeprob.CltFit

/-- the regression tree and a table for it (rows sum to one, root rows equal) -/
def exTree : List Int := [3, 4, 1, -1, 0]
def exCpt : List (List (List ℚ)) :=
  [[[3/10, 7/10], [3/5, 2/5]], [[1/5, 4/5], [3/5, 2/5]], [[1/10, 9/10], [1/2, 1/2]],
   [[1/4, 3/4], [1/4, 3/4]], [[1/2, 1/2], [9/20, 11/20]]]
def exScope : List Nat := [7, 3, 9, 2, 5]
/-- variable 9 (column 2) observed with value 1, everything else missing -/
def exEv : Ev := fun v => if v = 9 then some 1 else none

theorem exTree_wf : WellFormedPred exTree := by decide

/-! ## 0. the predicate -/

/-- **`Clt.build` succeeds iff the vector is well formed**: `Clt.isTree` (the unfolding from the root lists every
index exactly once — the hypothesis of all theorems of `Props/Clt.lean`) is equivalent to the decidable
`WellFormedPred`; and the latter says what it should. -/
theorem wellFormedPred_iff_build (tree : List Int) :
    (WellFormedPred tree ↔ Clt.isTree tree = true) ∧
    (WellFormedPred tree ↔ ∃ r, r < tree.length ∧ tree.getD r 0 = -1 ∧
      (∀ c, c < tree.length → tree.getD c 0 = -1 → c = r) ∧
      (∀ i, i < tree.length → i ≠ r → ∃ p, p < tree.length ∧ tree.getD i (-1) = (p : Int)) ∧
      (∀ i, i < tree.length → reaches tree r (tree.length - 1) i = true)) := by
  refine ⟨wellFormedPred_iff_isTree tree, ?_⟩
  constructor
  · intro hw
    obtain ⟨r, h⟩ := WF.of_wf hw
    obtain ⟨h1, h2, h3⟩ := (onlyAt_iff_spec tree r).1 ((rootIdx_iff tree r).1 h.root)
    refine ⟨r, h1, h2, h3, ?_, fun i hi => h.reaches hi⟩
    intro i hi hir
    obtain ⟨p, _, _, hpl, hpe⟩ := h.parent_ne hi hir
    exact ⟨p, hpl, hpe⟩
  · rintro ⟨r, h1, h2, h3, h4, h5⟩
    rw [wf_iff]
    refine ⟨r, (rootIdx_iff tree r).2 ((onlyAt_iff_spec tree r).2 ⟨h1, h2, h3⟩), ?_⟩
    rw [isRST_iff]
    refine ⟨h1, h2, ?_, h5⟩
    intro i hi
    by_cases hir : i = r
    · exact Or.inl hir
    · obtain ⟨p, hpl, hpe⟩ := h4 i hi hir
      right; rw [parent_of_entry hpl hpe]; rfl

example : WellFormedPred exTree ∧ Clt.isTree exTree = true ∧ ¬ WellFormedPred [1, 0, -1] ∧
    ¬ WellFormedPred [-1, -1] ∧ ¬ WellFormedPred [-1, 5] :=
  ⟨exTree_wf, (wellFormedPred_iff_build exTree).1.1 exTree_wf, by decide, by decide, by decide⟩

/-! ## (a) a permutation starting with the root -/

/-- **bfsOrder_perm**: on every well-formed predecessor vector `compute_bfs_ordering` does not raise and returns a
permutation of `0..n-1` whose first element is the root -/
theorem bfsOrder_perm (tree : List Int) (hwf : WellFormedPred tree) :
    ∃ r bfs, rootIdx tree = some r ∧ computeBfsOrdering tree = some bfs ∧
      bfs.Perm (List.range tree.length) ∧ bfs.head? = some r := by
  obtain ⟨r, h⟩ := WF.of_wf hwf
  refine ⟨r, _, h.root, h.bfs_eq, h.levels_perm, ?_⟩
  obtain ⟨rest, hrest⟩ := h.levels_head
  rw [hrest]; rfl

example : computeBfsOrdering exTree = some [3, 0, 4, 1, 2] ∧ rootIdx exTree = some 3 := by decide

/-- the function `Clt.bfsOrder` of the existing model (driver op `clt_tree`) is the same queue: on a well-formed
vector it returns what `compute_bfs_ordering` returns -/
theorem bfsOrder_eq_model (tree : List Int) (hwf : WellFormedPred tree) :
    ∃ r, Clt.rootOf tree = some r ∧ computeBfsOrdering tree = some (Clt.bfsOrder tree tree.length [r]) := by
  obtain ⟨r, h⟩ := WF.of_wf hwf
  refine ⟨r, by rw [← rootIdx_eq_rootOf]; exact h.root, ?_⟩
  unfold computeBfsOrdering buildTreeStructure
  rw [h.root, h.childLists_eq]
  simp only [Option.map_some]
  rw [bfsLoop_eq_cltBfsOrder _ h.getD_children]

example : Clt.bfsOrder exTree exTree.length [3] = [3, 0, 4, 1, 2] := by decide

/-! ## (b) parents first -/

/-- **bfsOrder_parent_before_child**: every non-root node appears after its parent; hence `reversed(bfs[1:])`,
the list `message_passing` walks, contains every non-root variable once and visits every child before its
parent -/
theorem bfsOrder_parent_before_child (tree : List Int) (hwf : WellFormedPred tree) :
    ∃ r bfs, rootIdx tree = some r ∧ computeBfsOrdering tree = some bfs ∧
      (∀ i p, i < tree.length → parent tree i = some p → bfs.idxOf p < bfs.idxOf i) ∧
      bfs.tail.reverse.Perm ((List.range tree.length).erase r) ∧
      childFirst tree bfs.tail.reverse = true := by
  obtain ⟨r, h⟩ := WF.of_wf hwf
  refine ⟨r, _, h.root, h.bfs_eq, ?_, h.code_order_perm, h.code_order_childFirst⟩
  intro i p hi hp
  have hpl : p < tree.length := (parent_some hp).2
  have hmi := (h.mem_levels i).2 hi
  have hmp := (h.mem_levels p).2 hpl
  by_contra hlt
  rcases Nat.lt_or_eq_of_le (Nat.le_of_not_lt hlt) with hlt' | heq
  · exact idxOf_lt_of_pairwise h.levels_parent_first hmi hmp hlt' hp
  · have : i = p := by
      have h1 := List.getElem_idxOf (List.idxOf_lt_length_iff.2 hmi)
      have h2 := List.getElem_idxOf (List.idxOf_lt_length_iff.2 hmp)
      rw [← h1, ← h2]; simp [heq]
    subst this
    have := h.depth_child hi hp
    omega

example : ([3, 0, 4, 1, 2] : List Nat).tail.reverse = [2, 1, 4, 0] ∧ childFirst exTree [2, 1, 4, 0] = true ∧
    childFirst exTree [4, 2, 1, 0] = false := by decide

/-! ## (c) it is THE breadth-first order -/

/-- **bfsOrder_levels**: the list is the concatenation of the levels `0, 1, …, n-1` of the tree, where level 0 is
the root and level `k+1` lists, for the nodes of level `k` in their order, their children in increasing index
order (`level`); level `k` holds exactly the nodes at distance `k` from the root.  Consequently depths never
decrease along the list, and siblings appear in index order. -/
theorem bfsOrder_levels (tree : List Int) (hwf : WellFormedPred tree) :
    ∃ r bfs, rootIdx tree = some r ∧ computeBfsOrdering tree = some bfs ∧
      bfs = (List.range tree.length).flatMap (level tree r) ∧
      (∀ k x, x ∈ level tree r k ↔ x < tree.length ∧ depthOf tree x = k) ∧
      (depthOf tree r = 0 ∧ ∀ i p, i < tree.length → parent tree i = some p → depthOf tree i = depthOf tree p + 1) ∧
      (∀ j c, c ∈ childrenOf tree j ↔ c < tree.length ∧ parent tree c = some j) ∧
      (∀ j, (childrenOf tree j).Pairwise (· < ·)) ∧
      bfs.Pairwise (fun a b => depthOf tree a ≤ depthOf tree b) ∧
      bfs.Pairwise (fun a b => ∀ p, parent tree a = some p → parent tree b = some p → a < b) := by
  obtain ⟨r, h⟩ := WF.of_wf hwf
  refine ⟨r, _, h.root, h.bfs_eq, rfl, h.mem_level, ⟨h.depth_root, fun i p hi hp => h.depth_child hi hp⟩,
    fun j c => h.mem_children, childrenOf_sorted tree, h.levels_depth_sorted, ?_⟩
  -- siblings: both in the same level `k+1 = (level k).flatMap children`
  rw [List.pairwise_flatMap]
  refine ⟨fun k _ => ?_, ?_⟩
  · cases k with
    | zero => simp [level]
    | succ k =>
      rw [level_succ, List.pairwise_flatMap]
      refine ⟨fun q _ => (childrenOf_sorted tree q).imp (fun hab _ _ _ => hab), ?_⟩
      apply (h.level_nodup k).imp
      intro q q' hne a ha b hb p hpa hpb
      have h1 := (h.mem_children.1 ha).2
      have h2 := (h.mem_children.1 hb).2
      rw [hpa] at h1; rw [hpb] at h2
      exact absurd (by rw [Option.some.inj h1.symm, Option.some.inj h2.symm] : q = q') hne
  · apply List.nodup_range.imp
    intro k k' hne a ha b hb p hpa hpb
    obtain ⟨hal, hda⟩ := (h.mem_level k a).1 ha
    obtain ⟨hbl, hdb⟩ := (h.mem_level k' b).1 hb
    have h1 := h.depth_child hal hpa
    have h2 := h.depth_child hbl hpb
    omega

example : (List.range 6).flatMap (level [-1, 0, 0, 2, 1, 2] 0) = [0, 1, 2, 4, 3, 5] ∧
    computeBfsOrdering [-1, 0, 0, 2, 1, 2] = some [0, 1, 2, 4, 3, 5] ∧
    (List.range 5).map (depthOf exTree) = [1, 3, 4, 0, 2] := by decide

/-! ## (d) the array pass does not depend on the order, as long as children come first -/

section semiring
variable {α : Type} [CommSemiring α]

/-- **arrayPass_order_indep**: for a well-formed vector, the array-based pass of `message_passing` run over ANY list
that contains every non-root variable once and in which every child precedes its parent
(i) leaves in slot `j` the product of the upward messages `Clt.up` of the children of `j` (for both values of `j`),
(ii) returns, after the root step, `Clt.value` of the existing inductive model — in particular the same value for
all such orders — and (iii) the code's own order `reversed(compute_bfs_ordering(tree)[1:])` is one of them.
Carrier: any commutative semiring (ℚ: 'mar'; max-times: 'mpe'). -/
theorem arrayPass_order_indep (tree : List Int) (hwf : WellFormedPred tree) (scope : List Nat)
    (cpt : List (List (List α))) (e : Ev) :
    ∃ r, rootIdx tree = some r ∧
      (∀ order : List Nat, order.Perm ((List.range tree.length).erase r) → childFirst tree order = true →
        passValue tree cpt (rowOf scope e) r order = Clt.value scope tree cpt e ∧
        ∀ j, j < tree.length → (arrayPass tree cpt (rowOf scope e) order).getD j (1, 1) =
          (lprod ((childrenOf tree j).map (fun d => up scope cpt (build tree tree.length d) 0 e)),
           lprod ((childrenOf tree j).map (fun d => up scope cpt (build tree tree.length d) 1 e)))) ∧
      codeValue tree cpt (rowOf scope e) = some (Clt.value scope tree cpt e) := by
  obtain ⟨r, h⟩ := WF.of_wf hwf
  refine ⟨r, h.root, fun order hperm hcf => ⟨h.passValue_eq scope cpt e order hperm hcf,
    (h.arrayPass_slots scope cpt e order hperm hcf).2⟩, ?_⟩
  unfold codeValue
  rw [h.root, h.bfs_eq]
  simp only
  rw [h.passValue_eq scope cpt e _ h.code_order_perm h.code_order_childFirst]

/-- the value of the example row, obtained THROUGH the theorem from the array pass in the code's order -/
theorem exValue : Clt.value exScope exTree exCpt exEv = 3319 / 5000 := by
  obtain ⟨r, hr, hall, _⟩ := arrayPass_order_indep exTree exTree_wf exScope exCpt exEv
  have h3 : rootIdx exTree = some 3 := by decide
  rw [h3] at hr; cases hr
  rw [← (hall [2, 1, 4, 0] (by decide) (by decide)).1]
  decide +kernel

example : passValue exTree exCpt (rowOf exScope exEv) 3 [2, 1, 4, 0] = 3319 / 5000 ∧
    passValue exTree exCpt (rowOf exScope exEv) 3 [2, 1, 0, 4] ≠ 3319 / 5000 ∧
    Clt.value exScope exTree exCpt exEv = 3319 / 5000 ∧
    codeValue exTree exCpt (rowOf exScope exEv) = some (3319 / 5000) := by
  refine ⟨by decide +kernel, by decide +kernel, exValue, by decide +kernel⟩

/-- the theorems of `Props/Clt.lean` therefore apply to THE CODE'S pass: e.g. **C02** — what `message_passing`
returns on a row with missing entries is the sum over all completions of the values of the completed rows -/
theorem codeValue_marg (dom : Nat → Nat) (tree : List Int) (hwf : WellFormedPred tree) (scope : List Nat)
    (cpt : List (List (List α))) (hlen : scope.length = tree.length) (hnd : scope.Nodup)
    (hdom : ∀ v ∈ scope, dom v = 2) (e : Ev) :
    codeValue tree cpt (rowOf scope e) =
      some (sumOver dom scope e (fun e' => Clt.value scope tree cpt e')) := by
  obtain ⟨r, _, _, hc⟩ := arrayPass_order_indep tree hwf scope cpt e
  rw [hc, ← Clt.value_marg dom scope tree cpt ((wellFormedPred_iff_build tree).1.1 hwf) hlen hnd hdom e]

example : codeValue exTree exCpt (rowOf exScope exEv) =
    some (sumOver (fun _ => 2) exScope exEv (fun e' => Clt.value exScope exTree exCpt e')) :=
  codeValue_marg (fun _ => 2) exTree exTree_wf exScope exCpt rfl (by decide) (fun _ _ => rfl) exEv

end semiring

/-- **C06**: at the max-times carrier (`reduce='mpe'`) the slots of the code's pass are the products of the
max-product messages `upMax` of `Props/Clt.lean` (`up_max_eq_maxOver`: the maximum over all completions) -/
theorem arrayPass_max_slots {α : Type} [CommSemiring α] [LinearOrder α] [IsStrictOrderedRing α]
    (tree : List Int) (hwf : WellFormedPred tree) (scope : List Nat) (cpt : List (List (List α)))
    (hc : ∀ i l k, 0 ≤ cptAt cpt i l k) (e : Ev) (order : List Nat) (r : Nat) (hr : rootIdx tree = some r)
    (hperm : order.Perm ((List.range tree.length).erase r)) (hcf : childFirst tree order = true)
    (j : Nat) (hj : j < tree.length) (k : Nat) (hk : k < 2) :
    sel ((arrayPass tree (liftCpt cpt) (rowOf scope e) order).getD j (1, 1)) k =
      lprod ((childrenOf tree j).map (fun d => MaxTimes.ofVal (upMax scope cpt (build tree tree.length d) k e))) := by
  obtain ⟨r', hr', hall, _⟩ := arrayPass_order_indep tree hwf scope (liftCpt cpt) e
  rw [hr] at hr'; cases hr'
  rw [(hall order hperm hcf).2 j hj]
  have hval : ∀ d l, up scope (liftCpt cpt) (build tree tree.length d) l e =
      MaxTimes.ofVal (upMax scope cpt (build tree tree.length d) l e) := by
    intro d l
    rw [upMax_eq_val scope cpt hc]
    apply MaxTimes.ext
    simp [MaxTimes.ofVal, MaxTimes.nonneg]
  have : k = 0 ∨ k = 1 := by omega
  rcases this with rfl | rfl
  · simp only [sel_pair, if_true, hval]
  · simp only [sel_pair, hval]; simp

theorem exCpt_nonneg : ∀ i l k, 0 ≤ cptAt exCpt i l k := by
  intro i l k
  unfold cptAt
  split
  · rcases i with _|_|_|_|_|i <;> rcases l with _|_|l <;> rcases k with _|_|k <;> simp [exCpt] <;> norm_num
  · exact le_refl 0

example : sel ((arrayPass exTree (liftCpt exCpt) (rowOf exScope exEv) [2, 1, 4, 0]).getD 0 (1, 1)) 1 =
    lprod ((childrenOf exTree 0).map (fun d =>
      MaxTimes.ofVal (upMax exScope exCpt (build exTree exTree.length d) 1 exEv))) ∧ childrenOf exTree 0 = [4] :=
  ⟨arrayPass_max_slots exTree exTree_wf exScope exCpt exCpt_nonneg exEv [2, 1, 4, 0] 3 (by decide) (by decide)
    (by decide) 0 (by decide) 1 (by decide), by decide⟩

/-! ## the regression: a permutation that violates child-before-parent drops messages -/

/-- **bad_order_drops_message**: tree `[3, 4, 1, -1, 0]`.  A `compute_bfs_ordering` that is only right when parents
have smaller indices returns the permutation `[3, 0, 1, 2, 4]` (root first!); `reversed(bfs[1:]) = [4, 2, 1, 0]` visits
node 4 BEFORE its child 1, so node 4 forwards an empty slot and the evidence on column 2 never reaches the root:
the row with column 2 observed (= 1) and the rest missing gets probability `1` instead of `3319/5000`. -/
theorem bad_order_drops_message :
    WellFormedPred exTree ∧ ([3, 0, 1, 2, 4] : List Nat).Perm (List.range 5) ∧
    ([4, 2, 1, 0] : List Nat).Perm ((List.range 5).erase 3) ∧ childFirst exTree [4, 2, 1, 0] = false ∧
    passValue exTree exCpt (rowOf exScope exEv) 3 [4, 2, 1, 0] = 1 ∧
    Clt.value exScope exTree exCpt exEv = 3319 / 5000 ∧
    passValue exTree exCpt (rowOf exScope exEv) 3 [4, 2, 1, 0] ≠ Clt.value exScope exTree exCpt exEv := by
  refine ⟨exTree_wf, by decide, by decide, by decide, by decide +kernel, exValue, ?_⟩
  rw [exValue]; decide +kernel

end Deeprob.GraphIo
