import DeeprobModel.Model.GaussQ
import Mathlib.Probability.Distributions.Gaussian.Real
import Mathlib.Probability.Moments.MGFAnalytic
import Mathlib.Analysis.Calculus.IteratedDeriv.Lemmas
import Mathlib.Analysis.SpecialFunctions.ExpDeriv
set_option linter.unusedSimpArgs false
set_option linter.unusedVariables false
/-
Exact theory of the Gaussian leaf of `deeprob/spn/structure/leaf.py` (`class Gaussian`: `likelihood` = `scipy.stats.norm.pdf`,
`log_likelihood` = `scipy.stats.norm.logpdf`, `mpe` fills the mean, `moment(k)` = `scipy.stats.norm.moment`).  What C01 / C02 /
C06 / C19 used to take as trusted closed forms is proved here over ℝ with Mathlib's `gaussianReal`:
the density as SciPy evaluates it integrates to one, `exp ∘ logpdf = pdf`, the mean is the (unique) mode, and the raw moment of
EVERY order is the polynomial `GaussQ.gaussRawMoment` that the driver evaluates at ℚ.
Hypothesis throughout: `0 < σ` (the constructor and every producer — `fit`, `em_step` — guarantee `σ ≥ 1e-5`).
-/
namespace Deeprob.GaussTheory
open MeasureTheory ProbabilityTheory Real
open scoped NNReal

/-- `scipy.stats.norm.pdf(x, loc=μ, scale=σ)` = `_norm_pdf((x - μ) / σ) / σ`, `_norm_pdf(y) = exp(-y²/2) / √(2π)` -/
noncomputable def gaussPdf (μ σ x : ℝ) : ℝ := Real.exp (-((x - μ) / σ) ^ 2 / 2) / Real.sqrt (2 * π) / σ

/-- `scipy.stats.norm.logpdf(x, loc=μ, scale=σ)` = `-y²/2 - log √(2π) - log σ`, `y = (x - μ) / σ` -/
noncomputable def gaussLogPdf (μ σ x : ℝ) : ℝ := -((x - μ) / σ) ^ 2 / 2 - Real.log (Real.sqrt (2 * π)) - Real.log σ

/-- the variance as Mathlib wants it -/
def var (σ : ℝ) : ℝ≥0 := ⟨σ ^ 2, sq_nonneg σ⟩

@[simp] theorem var_coe (σ : ℝ) : ((var σ : ℝ≥0) : ℝ) = σ ^ 2 := rfl

theorem var_ne_zero {σ : ℝ} (hσ : 0 < σ) : var σ ≠ 0 := by
  intro h
  have : ((var σ : ℝ≥0) : ℝ) = 0 := by rw [h]; rfl
  rw [var_coe] at this
  exact (pow_ne_zero 2 hσ.ne') this

theorem sqrt_two_pi_pos : 0 < Real.sqrt (2 * π) := Real.sqrt_pos.2 (by positivity)

/-- **gauss_exp_logpdf (C01)**: `likelihood` and `log_likelihood` of a Gaussian leaf agree. -/
theorem gauss_exp_logpdf (μ σ x : ℝ) (hσ : 0 < σ) : Real.exp (gaussLogPdf μ σ x) = gaussPdf μ σ x := by
  unfold gaussLogPdf gaussPdf
  rw [Real.exp_sub, Real.exp_sub, Real.exp_log sqrt_two_pi_pos, Real.exp_log hσ]

theorem gaussPdf_eq_mathlib (μ σ x : ℝ) (hσ : 0 < σ) : gaussPdf μ σ x = gaussianPDFReal μ (var σ) x := by
  unfold gaussPdf gaussianPDFReal
  rw [var_coe]
  have h1 : Real.sqrt (2 * π * σ ^ 2) = Real.sqrt (2 * π) * σ := by
    rw [Real.sqrt_mul (by positivity), Real.sqrt_sq hσ.le]
  have h2 : -((x - μ) / σ) ^ 2 / 2 = -(x - μ) ^ 2 / (2 * σ ^ 2) := by
    field_simp
  rw [h1, h2, mul_inv, div_div, div_eq_mul_inv, mul_comm, mul_inv]

theorem gaussPdf_pos (μ σ x : ℝ) (hσ : 0 < σ) : 0 < gaussPdf μ σ x := by
  unfold gaussPdf
  have := sqrt_two_pi_pos
  positivity

/-- **gauss_integral_one (C01, C02)**: the density integrates to one over ℝ. -/
theorem gauss_integral_one (μ σ : ℝ) (hσ : 0 < σ) : ∫ x, gaussPdf μ σ x = 1 := by
  have : (fun x => gaussPdf μ σ x) = gaussianPDFReal μ (var σ) := by
    funext x; exact gaussPdf_eq_mathlib μ σ x hσ
  rw [this]
  exact integral_gaussianPDFReal_eq_one μ (var_ne_zero hσ)

/-- **gauss_mode (C06)**: `Gaussian.mpe` fills NaN entries with the mean, which maximises the density … -/
theorem gauss_mode (μ σ x : ℝ) (hσ : 0 < σ) : gaussPdf μ σ x ≤ gaussPdf μ σ μ := by
  unfold gaussPdf
  have hs := sqrt_two_pi_pos
  apply div_le_div_of_nonneg_right _ hσ.le
  apply div_le_div_of_nonneg_right _ hs.le
  apply Real.exp_le_exp.2
  have : 0 ≤ ((x - μ) / σ) ^ 2 := sq_nonneg _
  simp
  linarith

/-- … and is the only maximiser. -/
theorem gauss_mode_strict (μ σ x : ℝ) (hσ : 0 < σ) (hx : x ≠ μ) : gaussPdf μ σ x < gaussPdf μ σ μ := by
  unfold gaussPdf
  have hs := sqrt_two_pi_pos
  apply div_lt_div_of_pos_right _ hσ
  apply div_lt_div_of_pos_right _ hs
  apply Real.exp_lt_exp.2
  have h1 : (x - μ) / σ ≠ 0 := div_ne_zero (sub_ne_zero.2 hx) hσ.ne'
  have : 0 < ((x - μ) / σ) ^ 2 := by positivity
  simp
  linarith

/-! ## raw moments of every order -/

/-- the moment generating function of `N(μ, v)` -/
noncomputable def M (μ v : ℝ) (t : ℝ) : ℝ := Real.exp (μ * t + v * t ^ 2 / 2)

theorem M_contDiff (μ v : ℝ) : ContDiff ℝ ⊤ (M μ v) := by
  unfold M
  fun_prop

theorem D_differentiable (μ v : ℝ) (n : ℕ) : Differentiable ℝ (iteratedDeriv n (M μ v)) :=
  (M_contDiff μ v).differentiable_iteratedDeriv n (by exact_mod_cast WithTop.coe_lt_top _)

theorem M_deriv (μ v : ℝ) : deriv (M μ v) = fun t => (μ + v * t) * M μ v t := by
  funext t
  have h : HasDerivAt (fun t => μ * t + v * t ^ 2 / 2) (μ + v * t) t := by
    have h1 : HasDerivAt (fun t : ℝ => μ * t) μ t := by simpa using (hasDerivAt_id t).const_mul μ
    have h2 : HasDerivAt (fun t : ℝ => v * t ^ 2 / 2) (v * t) t := by
      have h3 := ((hasDerivAt_pow 2 t).const_mul v).div_const 2
      have e : v * ((2 : ℕ) * t ^ (2 - 1)) / 2 = v * t := by norm_num; ring
      rw [e] at h3
      exact h3
    exact h1.add h2
  have := h.exp
  unfold M
  rw [this.deriv]; ring

/-- Leibniz for a linear factor: the recurrence of the derivatives of the mgf, at every `t` -/
theorem D_rec (μ v : ℝ) : ∀ n : ℕ, iteratedDeriv (n + 2) (M μ v) =
    fun t => (μ + v * t) * iteratedDeriv (n + 1) (M μ v) t + ((n : ℝ) + 1) * v * iteratedDeriv n (M μ v) t := by
  have hlin : ∀ t : ℝ, HasDerivAt (fun t : ℝ => μ + v * t) v t := by
    intro t
    simpa using ((hasDerivAt_id t).const_mul v).const_add μ
  have h1 : iteratedDeriv 1 (M μ v) = fun t => (μ + v * t) * iteratedDeriv 0 (M μ v) t := by
    rw [iteratedDeriv_one, iteratedDeriv_zero, M_deriv]
  intro n
  induction n with
  | zero =>
    rw [iteratedDeriv_succ]
    funext t
    have hd : HasDerivAt (iteratedDeriv 1 (M μ v))
        (v * iteratedDeriv 0 (M μ v) t + (μ + v * t) * deriv (iteratedDeriv 0 (M μ v)) t) t := by
      rw [h1]
      exact (hlin t).mul ((D_differentiable μ v 0 t).hasDerivAt)
    rw [hd.deriv, ← iteratedDeriv_succ]
    simp only [Nat.cast_zero, zero_add]
    ring
  | succ n ih =>
    rw [iteratedDeriv_succ (n := n + 2)]
    funext t
    have hd : HasDerivAt (iteratedDeriv (n + 2) (M μ v))
        ((v * iteratedDeriv (n + 1) (M μ v) t + (μ + v * t) * deriv (iteratedDeriv (n + 1) (M μ v)) t)
          + ((n : ℝ) + 1) * v * deriv (iteratedDeriv n (M μ v)) t) t := by
      rw [ih]
      exact ((hlin t).mul ((D_differentiable μ v (n + 1) t).hasDerivAt)).add
        (((D_differentiable μ v n t).hasDerivAt).const_mul _)
    rw [hd.deriv, ← iteratedDeriv_succ, ← iteratedDeriv_succ]
    push_cast
    ring

open Deeprob.GaussQ in
/-- the derivatives of the mgf at 0 are the pairs of the polynomial recurrence -/
theorem D_zero_eq (μ σ : ℝ) : ∀ n : ℕ,
    (iteratedDeriv n (M μ (σ ^ 2)) 0, iteratedDeriv (n + 1) (M μ (σ ^ 2)) 0) = momPair μ σ n := by
  intro n
  induction n with
  | zero =>
    have h : deriv (M μ (σ ^ 2)) 0 = μ := by rw [M_deriv]; simp [M]
    simp [momPair, h, M]
  | succ n ih =>
    have h := congrFun (D_rec μ (σ ^ 2) n) 0
    simp only [momPair]
    rw [← ih]
    simp only [Prod.mk.injEq, true_and]
    rw [h]
    push_cast
    ring

/-- **gauss_moment_is_integral (C19)**: for EVERY order `k`, `∫ x^k · pdf(x) dx` is the polynomial `gaussRawMoment k μ σ`
(`Gaussian.moment(k)`; k ≤ 4 is what `variance`, `skewness`, `kurtosis` of `moments.py` consume). -/
theorem gauss_moment_is_integral (μ σ : ℝ) (hσ : 0 < σ) (k : ℕ) :
    ∫ x, x ^ k * gaussPdf μ σ x = Deeprob.GaussQ.gaussRawMoment k μ σ := by
  have hv := var_ne_zero hσ
  have h0 : (0 : ℝ) ∈ interior (integrableExpSet id (gaussianReal μ (var σ))) := by
    rw [integrableExpSet_id_gaussianReal]; simp
  have h1 := iteratedDeriv_mgf_zero h0 k
  rw [mgf_id_gaussianReal] at h1
  have h2 : (fun t => Real.exp (μ * t + (var σ : ℝ) * t ^ 2 / 2)) = M μ (σ ^ 2) := by
    funext t; simp [M]
  rw [h2] at h1
  have h3 : ∫ x, x ^ k * gaussPdf μ σ x = ∫ x, (id ^ k) x ∂(gaussianReal μ (var σ)) := by
    rw [integral_gaussianReal_eq_integral_smul hv]
    congr 1
    funext x
    rw [← gaussPdf_eq_mathlib μ σ x hσ]
    simp [mul_comm]
  rw [h3, ← h1]
  have := D_zero_eq μ σ k
  unfold Deeprob.GaussQ.gaussRawMoment
  rw [← this]

/-- integrability of `x^k · pdf` (so that the integrals above are not junk values) -/
theorem gauss_moment_integrable (μ σ : ℝ) (hσ : 0 < σ) (k : ℕ) :
    Integrable (fun x => x ^ k * gaussPdf μ σ x) := by
  have hv := var_ne_zero hσ
  have hm : MemLp id (k : ℝ≥0) (gaussianReal μ (var σ)) := memLp_id_gaussianReal (k : ℝ≥0)
  have hi : Integrable (fun x : ℝ => x ^ k) (gaussianReal μ (var σ)) := by
    by_cases hk : k = 0
    · subst hk; simp
    · have := hm.integrable_norm_pow (by exact_mod_cast hk)
      have h2 : Integrable (fun x : ℝ => ‖x‖ ^ k) (gaussianReal μ (var σ)) := by
        simpa using this
      refine h2.mono' (by fun_prop) (ae_of_all _ fun x => ?_)
      simp [norm_pow]
  have hd : gaussianReal μ (var σ) = volume.withDensity (gaussianPDF μ (var σ)) := gaussianReal_of_var_ne_zero μ hv
  rw [hd] at hi
  have := (integrable_withDensity_iff_integrable_smul' (measurable_gaussianPDF μ (var σ))
    (ae_of_all _ fun _ => gaussianPDF_lt_top)).1 hi
  refine this.congr (ae_of_all _ fun x => ?_)
  simp [toReal_gaussianPDF, ← gaussPdf_eq_mathlib μ σ x hσ, mul_comm]

/-! ## closed forms for the orders the library's statistics use, a wrong variant, and concrete instances -/

theorem gauss_moment_closed (μ σ : ℝ) (hσ : 0 < σ) :
    (∫ x, x ^ 1 * gaussPdf μ σ x = μ) ∧
    (∫ x, x ^ 2 * gaussPdf μ σ x = μ ^ 2 + σ ^ 2) ∧
    (∫ x, x ^ 3 * gaussPdf μ σ x = μ ^ 3 + 3 * μ * σ ^ 2) ∧
    (∫ x, x ^ 4 * gaussPdf μ σ x = μ ^ 4 + 6 * μ ^ 2 * σ ^ 2 + 3 * σ ^ 4) := by
  refine ⟨?_, ?_, ?_, ?_⟩ <;> rw [gauss_moment_is_integral μ σ hσ] <;>
    simp [Deeprob.GaussQ.gaussRawMoment, Deeprob.GaussQ.momPair] <;> ring

/-- a plausible slip — `σ` instead of `σ²` in the second moment — is wrong: at μ = 1, σ = 2 the second moment is 5, not 3 -/
theorem sigma_for_variance_is_wrong : ∫ x, x ^ 2 * gaussPdf 1 2 x ≠ 1 ^ 2 + (2 : ℝ) := by
  rw [(gauss_moment_closed 1 2 (by norm_num)).2.1]; norm_num

example : (∫ x, x ^ 2 * gaussPdf 1 2 x = 5) ∧ (∫ x, x ^ 3 * gaussPdf 1 2 x = 13) ∧ (∫ x, x ^ 4 * gaussPdf 1 2 x = 73) := by
  obtain ⟨_, h2, h3, h4⟩ := gauss_moment_closed 1 2 (by norm_num)
  refine ⟨by rw [h2]; norm_num, by rw [h3]; norm_num, by rw [h4]; norm_num⟩

example : ∫ x, gaussPdf 1 2 x = 1 := gauss_integral_one 1 2 (by norm_num)
example : gaussPdf 1 2 3 < gaussPdf 1 2 1 := gauss_mode_strict 1 2 3 (by norm_num) (by norm_num)
example : Deeprob.GaussQ.gaussRawMoment 6 (1 : ℚ) 2 = 1741 := by decide +kernel

end Deeprob.GaussTheory
