import DeeprobModel.Lemmas.CircLemmas
/-
Central theorems about tree circuits (used by C01, C02, C03, C10, C12, C16, C17, C19).
-/
namespace Deeprob
namespace Circ
variable {α : Type} [CommSemiring α]

/-- **NaN-marginalisation = explicit sum over all completions**, for every valid
circuit, every arity / depth / labelling, every evidence pattern, any commutative semiring. -/
theorem marg (dom : Nat → Nat) : (c : Circ α) → Valid dom c → ∀ e : Ev,
    eval e c = sumOver dom (scope c) e (fun e' => eval e' c)
  | leaf s f, hv, e => by
      unfold Valid at hv
      simp only [eval, scope]; exact (hv.marg e).symm
  | sum s ws cs, hv, e => by
      unfold Valid at hv
      obtain ⟨_, _, hsc, hval⟩ := hv
      simp only [eval, scope]
      rw [wsum_sumOver]
      congr 1
      apply List.map_congr_left; intro c hc
      rw [marg dom c (hval c hc) e]
      exact sumOver_set_eq dom (hsc c hc) e _
  | prod s cs, hv, e => by
      unfold Valid at hv
      obtain ⟨hnd, hsc, hval⟩ := hv
      simp only [eval, scope]
      rw [← sumOver_set_eq dom hsc]
      exact prod_list dom cs hval hnd (fun c hc e => marg dom c (hval c hc) e) e

/-- with nothing observed a valid circuit with normalised weights and leaves evaluates to one -/
theorem all_missing_one (dom : Nat → Nat) : (c : Circ α) → Valid dom c → NormW c → LeafNorm dom c →
    eval (fun _ => none) c = 1
  | leaf s f, _, _, hl => by unfold LeafNorm at hl; simpa [eval] using hl
  | sum s ws cs, hv, hn, hl => by
      unfold Valid at hv; unfold NormW at hn; unfold LeafNorm at hl
      obtain ⟨_, hlen, _, hval⟩ := hv
      simp only [eval]
      rw [wsum_ones ws _ _ (by simpa using hlen), hn.1]
      intro x hx
      simp only [List.mem_map] at hx
      obtain ⟨c, hc, rfl⟩ := hx
      exact all_missing_one dom c (hval c hc) (hn.2 c hc) (hl c hc)
  | prod s cs, hv, hn, hl => by
      unfold Valid at hv; unfold NormW at hn; unfold LeafNorm at hl
      simp only [eval]
      apply lprod_ones
      intro x hx
      simp only [List.mem_map] at hx
      obtain ⟨c, hc, rfl⟩ := hx
      exact all_missing_one dom c (hv.2.2 c hc) (hn c hc) (hl c hc)

/-- **normalisation**: the complete-evidence values of a valid normalised circuit sum to one
over the whole domain of its scope -/
theorem normalised (dom : Nat → Nat) (c : Circ α) (hv : Valid dom c) (hn : NormW c) (hl : LeafNorm dom c) :
    sumOver dom (scope c) (fun _ => none) (fun x => eval x c) = 1 := by
  rw [← marg dom c hv, all_missing_one dom c hv hn hl]

end Circ
end Deeprob
