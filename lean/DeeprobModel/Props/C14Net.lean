import DeeprobModel.Lemmas.BackwardLemmas
import DeeprobModel.Props.C14
import Mathlib.Algebra.Order.Field.Rat
import Mathlib.Tactic.IntervalCases
set_option linter.unusedSimpArgs false
set_option linter.unusedVariables false
set_option linter.unusedSectionVars false
/-
C14 on node tables (DAGs with sharing) — the backward pass `eval_backward` (deeprob/spn/algorithms/gradient.py,
modelled by `backward` in Model/Em.lean) computes `grads[i] = ∂ root / ∂ node_i`, the root is affine in every node's
value, and the numbers EM feeds to `em_step` are the posterior masses flowing through the nodes.

Vocabulary (Lemmas/BackwardLemmas.lean):
 * `evalNetWith e dens net i x` — the value table of `evalNet` with node `i` forced to `x` (parents recomputed);
 * `Reach net j i`              — `i` is `j` or a descendant of `j`;
 * `DecompAt net root i`        — below `root`, no product reaches `i` through two different child positions
                                  (implied by the `check_spn` conditions `NodeOK` for every node with a non-empty
                                  scope: `decompAt_of_nodeOK`; sharing under sums is unconstrained);
 * `nodeAt net root p`          — the node at the end of the path `p` of child positions.
-/
namespace Deeprob.C14
open Deeprob Deeprob.Bwd

/-! ### the running example: a DAG in which leaf 0 is shared by the two products 3 and 4 under the sum 5, and leaf 2
by the products 4 and 7 under different sums; the inner sum 5 is a child of the root sum 8 -/

def exDag : Net ℚ :=
  [⟨0, .leaf, [0], [], [], .cat 0 [1/2, 1/2]⟩,
   ⟨1, .leaf, [1], [], [], .cat 1 [1/3, 2/3]⟩,
   ⟨2, .leaf, [1], [], [], .cat 1 [1/10, 9/10]⟩,
   ⟨3, .prod, [0, 1], [0, 1], [], .absent⟩,
   ⟨4, .prod, [0, 1], [0, 2], [], .absent⟩,
   ⟨5, .sum, [0, 1], [3, 4], [1/4, 3/4], .absent⟩,
   ⟨6, .leaf, [0], [], [], .cat 0 [1/5, 4/5]⟩,
   ⟨7, .prod, [0, 1], [6, 2], [], .absent⟩,
   ⟨8, .sum, [0, 1], [5, 7], [2/3, 1/3], .absent⟩]

/-- the row `(X0, X1) = (1, 0)` -/
def exRow : Ev := Ev.ofList [some 1, some 0]

theorem exDag_wo : WellOrdered exDag := (wellOrderedB_iff exDag).1 (by decide)

/-- every product of `exDag` has two leaf children, so no node is reached through two of them -/
theorem exDag_decomp (i : Nat) : DecompAt exDag 8 i := by
  intro m x _ hx hk
  have hm : m < 9 := by
    by_contra h
    rw [List.getElem?_eq_none (by simp [exDag]; omega)] at hx
    cases hx
  have leaf2 : ∀ (a b : Nat) (xa xb : NNode ℚ), exDag[a]? = some xa → exDag[b]? = some xb → xa.kind = .leaf →
      xb.kind = .leaf → a ≠ b → List.Pairwise (fun c c' => ¬ (Reach exDag c i ∧ Reach exDag c' i)) [a, b] := by
    intro a b xa xb ha hb hka hkb hab
    simp only [List.pairwise_cons, List.mem_singleton, forall_eq, List.not_mem_nil, false_imp_iff, imp_true_iff,
      List.Pairwise.nil, and_true]
    intro h
    exact hab ((reach_of_leaf xa ha hka h.1).symm.trans (reach_of_leaf xb hb hkb h.2))
  interval_cases m <;> simp only [exDag, List.getElem?_cons_zero, List.getElem?_cons_succ, Option.some.injEq] at hx <;>
    subst hx <;> simp only [reduceCtorEq] at hk
  · exact leaf2 0 1 _ _ rfl rfl rfl rfl (by omega)
  · exact leaf2 0 2 _ _ rfl rfl rfl rfl (by omega)
  · exact leaf2 6 2 _ _ rfl rfl rfl rfl (by omega)

/-- the values and the gradients of the example on `exRow` -/
theorem exDag_vals : evalNet exRow [] exDag = [1/2, 1/3, 1/10, 1/6, 1/20, 19/240, 4/5, 2/25, 143/1800] := by
  decide +kernel

theorem exDag_grads : backward exDag (evalNet exRow [] exDag) 8 = [19/180, 1/12, 31/60, 1/6, 1/2, 2/3, 1/30, 1/3, 1] := by
  decide +kernel

section derivative
variable {α : Type} [CommSemiring α]

/-- **backward_is_derivative** — DAGs. For every children-first table, every evidence, every root and every node `i`
that no product below the root reaches twice: the root value, as a function of the value `x` forced at node `i`, is
affine with slope `grads[i]`, the entry the backward pass leaves at `i` (sum of the contributions of *all* parents of
`i`, each the product of the factors sent down one root-to-`i` path). Sharing below sum nodes — and below products,
as long as it is not through two children of the same product — is covered. No hypothesis on weights, leaves,
smoothness or normalisation. -/
theorem backward_is_derivative (e : Ev) (dens : List α) (net : Net α) (hw : WellOrdered net) (root i : Nat)
    (hr : root < net.length) (hi : i < net.length) (hd : DecompAt net root i) (x : α) :
    (evalNetWith e dens net i x).getD root 0
      = (evalNetWith e dens net i 0).getD root 0 + (backward net (evalNet e dens net) root).getD i 0 * x := by
  rw [backward_eq_fwd net _ hw root i hr hi]
  exact override_affine e dens net hw root i hd x root hr (Reach.refl root)

/-- non-vacuity: the shared leaf 0 of `exDag` (two parents under one sum): slope `2/3·(1/4·1/3 + 3/4·1/10)`, the sum of
the contributions of both parents; and the shared leaf 2 (parents under different sums) -/
example (x : ℚ) : (evalNetWith exRow [] exDag 0 x).getD 8 0 = 2/75 + 19/180 * x := by
  have h := backward_is_derivative exRow [] exDag exDag_wo 8 0 (by decide) (by decide) (exDag_decomp 0) x
  rw [h, exDag_grads]
  have : (evalNetWith exRow [] exDag 0 0).getD 8 0 = 2/75 := by decide +kernel
  rw [this]; rfl

example (x : ℚ) : (evalNetWith exRow [] exDag 2 x).getD 8 0 = 1/36 + 31/60 * x := by
  have h := backward_is_derivative exRow [] exDag exDag_wo 8 2 (by decide) (by decide) (exDag_decomp 2) x
  rw [h, exDag_grads]
  have : (evalNetWith exRow [] exDag 2 0).getD 8 0 = 1/36 := by decide +kernel
  rw [this]; rfl

/-- decomposability is essential: with one leaf listed twice under a product the root is `x²`, not affine -/
def exBad : Net ℚ := [⟨0, .leaf, [0], [], [], .cat 0 [1/2, 1/2]⟩, ⟨1, .prod, [0], [0, 0], [], .absent⟩]

theorem decomposability_needed :
    ¬ ∀ x : ℚ, (evalNetWith exRow [] exBad 0 x).getD 1 0
      = (evalNetWith exRow [] exBad 0 0).getD 1 0 + (backward exBad (evalNet exRow [] exBad) 1).getD 0 0 * x := by
  intro h
  have h2 := h 2
  revert h2
  decide +kernel

/-- the same under the hypotheses `check_spn` establishes: every stored node satisfies the local validity
condition `NodeOK` (product children have pairwise disjoint scopes), and node `i` has a non-empty scope -/
theorem backward_is_derivative_valid (dom : Nat → Nat) (e : Ev) (dens : List α) (net : Net α) (hw : WellOrdered net)
    (hok : ∀ i (x : NNode α), net[i]? = some x → NodeOK dom net dens i x) (root i : Nat)
    (hr : root < net.length) (hi : i < net.length) (hne : scopeOf net i ≠ []) (x : α) :
    (evalNetWith e dens net i x).getD root 0
      = (evalNetWith e dens net i 0).getD root 0 + (backward net (evalNet e dens net) root).getD i 0 * x :=
  backward_is_derivative e dens net hw root i hr hi (decompAt_of_nodeOK dom net dens hok root i hne) x

/-- non-vacuity: `exDag` satisfies `NodeOK` at every entry (binary variables) -/
theorem exDag_nodeOK : ∀ i (x : NNode ℚ), exDag[i]? = some x → NodeOK (fun _ => 2) exDag [] i x := by
  intro i x hx
  have hi : i < 9 := by
    by_contra h
    rw [List.getElem?_eq_none (by simp [exDag]; omega)] at hx
    cases hx
  have hcat : ∀ (v : Nat) (a b : ℚ), a + b = 1 →
      LeafOK (fun _ => 2) [v] ((LeafP.cat v [a, b]).fn [v] (([] : List ℚ).getD i 0)) := by
    intro v a b hab
    exact Circ.catLeaf_ok (fun _ => 2) v [a, b] rfl (by simp [tsum, hab])
  interval_cases i <;> simp only [exDag, List.getElem?_cons_zero, List.getElem?_cons_succ, Option.some.injEq] at hx <;>
    subst hx <;> unfold NodeOK <;> simp only
  · exact hcat 0 _ _ (by norm_num)
  · exact hcat 1 _ _ (by norm_num)
  · exact hcat 1 _ _ (by norm_num)
  · simp [scopeOf, exDag, scopeEq]
  · simp [scopeOf, exDag, scopeEq]
  · simp [scopeOf, exDag, scopeEq]
  · exact hcat 0 _ _ (by norm_num)
  · simp [scopeOf, exDag, scopeEq]
  · simp [scopeOf, exDag, scopeEq]

example (x : ℚ) : (evalNetWith exRow [] exDag 0 x).getD 8 0
    = (evalNetWith exRow [] exDag 0 0).getD 8 0 + (backward exDag (evalNet exRow [] exDag) 8).getD 0 0 * x :=
  backward_is_derivative_valid (fun _ => 2) exRow [] exDag exDag_wo exDag_nodeOK 8 0 (by decide) (by decide)
    (by simp [scopeOf, exDag]) x

/-- `root = (root with node i zeroed) + grads[i]·value[i]` -/
theorem root_affine_in_node (e : Ev) (dens : List α) (net : Net α) (hw : WellOrdered net) (root i : Nat)
    (hr : root < net.length) (hi : i < net.length) (hd : DecompAt net root i) :
    (evalNet e dens net).getD root 0
      = (evalNetWith e dens net i 0).getD root 0
        + (backward net (evalNet e dens net) root).getD i 0 * (evalNet e dens net).getD i 0 := by
  rw [← backward_is_derivative e dens net hw root i hr hi hd, evalNetWith_self e dens net hw i root hr]

/-- non-vacuity: `143/1800 = 2/75 + 19/180 · 1/2` at the shared leaf 0 -/
example : (evalNet exRow [] exDag).getD 8 0
    = (evalNetWith exRow [] exDag 0 0).getD 8 0
      + (backward exDag (evalNet exRow [] exDag) 8).getD 0 0 * (evalNet exRow [] exDag).getD 0 0 :=
  root_affine_in_node exRow [] exDag exDag_wo 8 0 (by decide) (by decide) (exDag_decomp 0)

/-- `grads[root] = 1` (`grads[root.id] = 0.0` in the log domain, and nothing is ever added to it) -/
theorem backward_root_one (net : Net α) (vals : List α) (hw : WellOrdered net) (root : Nat) (hr : root < net.length) :
    (backward net vals root).getD root 0 = 1 := by
  rw [backward_eq_fwd net vals hw root root hr hr, fwdDeriv_rec net vals hw root root hr, if_pos rfl]

example : (backward exDag (evalNet exRow [] exDag) 8).getD 8 0 = 1 :=
  backward_root_one exDag _ exDag_wo 8 (by decide)

/-- the pass itself is linear algebra and needs no decomposability: for any value table it returns the forward-mode
derivative `∂ root / ∂ node_i` of the linearised circuit (reverse mode = forward mode) -/
theorem backward_is_reverse_mode (net : Net α) (vals : List α) (hw : WellOrdered net) (root i : Nat)
    (hr : root < net.length) (hi : i < net.length) :
    (backward net vals root).getD i 0 = (fwdDeriv net vals i).getD root 0 :=
  backward_eq_fwd net vals hw root i hr hi

example : (backward exDag (evalNet exRow [] exDag) 8).getD 0 0 = (fwdDeriv exDag (evalNet exRow [] exDag) 0).getD 8 0 :=
  backward_is_reverse_mode exDag _ exDag_wo 8 0 (by decide) (by decide)

/-- **backward_tree_agrees** — when node `i` has exactly one path `p` from the root (in particular on tree-shaped
tables), the table pass agrees with the path product `Circ.gradAlong` on the unfolding `toTree` -/
theorem backward_tree_agrees (e : Ev) (dens : List α) (net : Net α) (hw : WellOrdered net) (root i : Nat)
    (hr : root < net.length) (p : List Nat) (hp : nodeAt net root p = some i)
    (huniq : ∀ q, nodeAt net root q = some i → q = p) :
    (backward net (evalNet e dens net) root).getD i 0 = Circ.gradAlong e p (toTree net dens (root+1) root) := by
  have hi : i < net.length := by have := reach_le net hw (nodeAt_reach net p root i hp); omega
  rw [backward_eq_fwd net _ hw root i hr hi]
  exact fwd_eq_gradAlong e dens net hw i hi p root hr hp huniq

/-- non-vacuity inside the DAG: product 3 of `exDag` has the single path `[0, 0]` from the root (its leaf 0 has two) -/
theorem exDag_path3 : ∀ q, nodeAt exDag 8 q = some 3 → q = [0, 0] :=
  unique_path_of_pathsTo exDag exDag_wo 8 3 [0, 0] (by decide)

/-- … while the shared leaf 0 has two -/
example : pathsTo exDag 8 8 0 = [[0, 0, 0], [0, 1, 0]] := by decide

example : (backward exDag (evalNet exRow [] exDag) 8).getD 3 0
    = Circ.gradAlong exRow [0, 0] (toTree exDag [] 9 8) :=
  backward_tree_agrees exRow [] exDag exDag_wo 8 3 (by decide) [0, 0] (by simp [nodeAt, exDag]) exDag_path3

example : Circ.gradAlong exRow [0, 0] (toTree exDag [] 9 8) = 2/3 * (1/4) := by
  norm_num [toTree, exDag, Circ.gradAlong]

/-- on tree-shaped tables, for every node (given by its path): `backward` is `gradAlong`, forcing the node's value is
`Circ.plug`, and the tree statement `backward_is_derivative_partial` about the unfolding follows from the table
theorem -/
theorem backward_is_derivative_tree (e : Ev) (dens : List α) (net : Net α) (hw : WellOrdered net) (root : Nat)
    (hr : root < net.length) (ht : TreeShaped net root) (p : List Nat) (i : Nat) (hp : nodeAt net root p = some i)
    (x : α) :
    (backward net (evalNet e dens net) root).getD i 0 = Circ.gradAlong e p (toTree net dens (root+1) root) ∧
    Circ.eval e (Circ.plug x p (toTree net dens (root+1) root)) = (evalNetWith e dens net i x).getD root 0 ∧
    Circ.eval e (Circ.plug x p (toTree net dens (root+1) root))
      = Circ.eval e (Circ.plug 0 p (toTree net dens (root+1) root))
        + Circ.gradAlong e p (toTree net dens (root+1) root) * x := by
  have hi : i < net.length := by have := reach_le net hw (nodeAt_reach net p root i hp); omega
  have huniq : ∀ q, nodeAt net root q = some i → q = p := fun q hq => ht i q p hq hp
  have h1 := backward_tree_agrees e dens net hw root i hr p hp huniq
  have h2 := fun y => plug_toTree_eq_override e dens net hw i hi y p root hr hp huniq
  refine ⟨h1, h2 x, ?_⟩
  rw [h2 x, h2 0, ← h1]
  exact backward_is_derivative e dens net hw root i hr hi (decompAt_of_unique_path net root i (ht i)) x

/-- non-vacuity: the tree table `exNet` of Props/C14.lean (a mixture of two products, root at index 6) -/
theorem exNet_wo : WellOrdered exNet := (wellOrderedB_iff exNet).1 (by decide)

theorem exNet_tree : TreeShaped exNet 6 :=
  treeShaped_of_pathsTo exNet exNet_wo 6 (by decide)

example (x : ℚ) :
    (backward exNet (evalNet (Ev.ofList [some 1, some 0]) [] exNet) 6).getD 2 0
      = Circ.gradAlong (Ev.ofList [some 1, some 0]) [1, 0] (toTree exNet [] 7 6) ∧
    Circ.eval (Ev.ofList [some 1, some 0]) (Circ.plug x [1, 0] (toTree exNet [] 7 6))
      = (evalNetWith (Ev.ofList [some 1, some 0]) [] exNet 2 x).getD 6 0 ∧
    Circ.eval (Ev.ofList [some 1, some 0]) (Circ.plug x [1, 0] (toTree exNet [] 7 6))
      = Circ.eval (Ev.ofList [some 1, some 0]) (Circ.plug 0 [1, 0] (toTree exNet [] 7 6))
        + Circ.gradAlong (Ev.ofList [some 1, some 0]) [1, 0] (toTree exNet [] 7 6) * x :=
  backward_is_derivative_tree (Ev.ofList [some 1, some 0]) [] exNet exNet_wo 6 (by decide) exNet_tree [1, 0] 2
    (by simp [nodeAt, exNet]) x

/-- the unfolding of the table is the tree circuit `exCirc` of Props/C14.lean, up to the scopes of its nodes: same
slope `3/4 · 1/10` -/
example : Circ.gradAlong (Ev.ofList [some 1, some 0]) [1, 0] (toTree exNet [] 7 6) = 3/40 := by
  norm_num [toTree, exNet, Circ.gradAlong, Circ.eval, LeafP.fn, Circ.catLeafFn, Ev.ofList, lprod]

end derivative

section resp
variable {F : Type} [Field F]

/-- **resp_is_posterior** — for every sum node `n` of a children-first table: the responsibilities
`exp(children_ll − root_ll + grads[n])` EM hands to `Sum.em_step`, weighted by the current weights
(`unnorm_weights` before mixing), add up to `value[n]·grads[n]/value[root]` … -/
theorem resp_is_posterior (e : Ev) (dens : List F) (net : Net F) (hw : WellOrdered net) (root n : Nat)
    (hn : n < net.length) (hk : (net[n]).kind = .sum) :
    wsum (net[n]).ws (respSum (evalNet e dens net) (backward net (evalNet e dens net) root) root n net[n])
      = (evalNet e dens net).getD n 0 * (backward net (evalNet e dens net) root).getD n 0
          / (evalNet e dens net).getD root 0 := by
  apply resp_sum_one
  rw [evalNet_rec e dens net hw n hn]
  unfold nodeFn
  rw [hk]

/-- non-vacuity: the inner sum 5 of `exDag` (not the root): `(1/4·1/6 + 3/4·1/20)·(2/3)/(143/1800) = 95/143` -/
example : wsum (exDag[5]).ws (respSum (evalNet exRow [] exDag) (backward exDag (evalNet exRow [] exDag) 8) 8 5 exDag[5])
    = 95/143 := by
  rw [resp_is_posterior exRow [] exDag exDag_wo 8 5 (by decide) rfl, exDag_grads, exDag_vals]
  norm_num

/-- … which is the share of the root's mass that flows through `n`: one minus what is left of the root when `n` is
zeroed, relative to the root (the posterior probability that the sum node is reached) -/
theorem resp_is_mass_through_node (e : Ev) (dens : List F) (net : Net F) (hw : WellOrdered net) (root n : Nat)
    (hr : root < net.length) (hn : n < net.length) (hk : (net[n]).kind = .sum) (hd : DecompAt net root n)
    (hne : (evalNet e dens net).getD root 0 ≠ 0) :
    wsum (net[n]).ws (respSum (evalNet e dens net) (backward net (evalNet e dens net) root) root n net[n])
      = 1 - (evalNetWith e dens net n 0).getD root 0 / (evalNet e dens net).getD root 0 := by
  rw [resp_is_posterior e dens net hw root n hn hk]
  have h := root_affine_in_node e dens net hw root n hr hn hd
  rw [eq_sub_iff_add_eq, ← add_div, div_eq_one_iff_eq hne]
  conv_rhs => rw [h]
  ring

example : wsum (exDag[5]).ws (respSum (evalNet exRow [] exDag) (backward exDag (evalNet exRow [] exDag) 8) 8 5 exDag[5])
    = 1 - (2/75) / (143/1800) := by
  rw [resp_is_mass_through_node exRow [] exDag exDag_wo 8 5 (by decide) (by decide) rfl (exDag_decomp 5)
    (by rw [exDag_vals]; norm_num), exDag_vals]
  have : (evalNetWith exRow [] exDag 5 0).getD 8 0 = 2/75 := by decide +kernel
  rw [this]; rfl

/-- the same for a leaf: `exp(lls[i] − root_ll + grads[i])` is the share of the root's mass flowing through it -/
theorem respLeaf_is_mass_through_node (e : Ev) (dens : List F) (net : Net F) (hw : WellOrdered net) (root i : Nat)
    (hr : root < net.length) (hi : i < net.length) (hd : DecompAt net root i)
    (hne : (evalNet e dens net).getD root 0 ≠ 0) :
    respLeaf (evalNet e dens net) (backward net (evalNet e dens net) root) root i
      = 1 - (evalNetWith e dens net i 0).getD root 0 / (evalNet e dens net).getD root 0 := by
  unfold respLeaf
  have h := root_affine_in_node e dens net hw root i hr hi hd
  rw [eq_sub_iff_add_eq, ← add_div, div_eq_one_iff_eq hne]
  conv_rhs => rw [h]
  ring

/-- non-vacuity: the shared leaf 0: `(1/2)·(19/180)/(143/1800) = 95/143` (every path to leaf 0 goes through sum 5) -/
example : respLeaf (evalNet exRow [] exDag) (backward exDag (evalNet exRow [] exDag) 8) 8 0 = 1 - (2/75) / (143/1800) := by
  rw [respLeaf_is_mass_through_node exRow [] exDag exDag_wo 8 0 (by decide) (by decide) (exDag_decomp 0)
    (by rw [exDag_vals]; norm_num), exDag_vals]
  have : (evalNetWith exRow [] exDag 0 0).getD 8 0 = 2/75 := by decide +kernel
  rw [this]; rfl

/-- at a root sum node the weighted responsibilities add up to one on every row with non-zero likelihood:
`resp_root_sum_one` with its two hypotheses (`value[root]` is the node's weighted sum, `grads[root] = 1`) discharged
for the tables `evalNet` and `backward` -/
theorem resp_root_sums_to_one (e : Ev) (dens : List F) (net : Net F) (hw : WellOrdered net) (root : Nat)
    (hr : root < net.length) (hk : (net[root]).kind = .sum) (hne : (evalNet e dens net).getD root 0 ≠ 0) :
    wsum (net[root]).ws (respSum (evalNet e dens net) (backward net (evalNet e dens net) root) root root net[root])
      = 1 := by
  apply resp_root_sum_one _ _ root net[root] _ (backward_root_one net _ hw root hr) hne
  rw [evalNet_rec e dens net hw root hr]
  unfold nodeFn
  rw [hk]

example : wsum (exDag[8]).ws (respSum (evalNet exRow [] exDag) (backward exDag (evalNet exRow [] exDag) 8) 8 8 exDag[8])
    = 1 :=
  resp_root_sums_to_one exRow [] exDag exDag_wo 8 (by decide) rfl (by rw [exDag_vals]; norm_num)

end resp

end Deeprob.C14
