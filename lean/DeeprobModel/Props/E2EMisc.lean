import DeeprobModel.Lemmas.E2ELemmas
import DeeprobModel.Oblig.Struct3Io
import DeeprobModel.Oblig.C13
import DeeprobModel.Props.C13
import DeeprobModel.Props.C13Gen
import DeeprobModel.Oblig.Struct3Posterior
import DeeprobModel.Oblig.StructTopDown
import DeeprobModel.Props.C20
import DeeprobModel.Oblig.Struct4RatSpn
import DeeprobModel.Props.C16Sample
/-
END-TO-END corollaries, io / facade / tensorised circuits: the property theorems of `Props/*.lean` stated DIRECTLY about
the definitions the translator extracts from the current source, by composing the "as coded" obligations (`Oblig/*.lean`)
with the property theorems about the hand-written model.  One section per item.

Contents: item 6 (C13 `e2e_io…`), item 9 (C20 `e2e_predict_proba…`), item 10 (C16 `e2e_rat_topdown…`).

### item 6 — C13, `deeprob/spn/structure/io.py` (prefix `io`)

GENERATED: the rounding of the sum weights of one node (`Gen.S3ioSumWeights`), the number of decimals (`Gen.jsonDigits`),
the `add_edge` calls of ONE node (`Gen.S3ioEdges`), the update of `parent.children` for ONE edge on the reading side
(`Gen.S3ioPlace`), the constructor guard of `Sum` (`Gen.sumCtorRejects`).
NOT generated (written out below, calling the generated definitions and nothing else of substance): the loop
`for node in topological_order(root)` of `spn_to_digraph` (`ioGenEncode`), the loop `for u, v, idx in graph.edges` of
`digraph_to_spn` (`ioGenChildrenOf`, `ioGenDecode`).  NOT generated and taken from the model verbatim: the semantics of
`nx.DiGraph.add_edge` (`addEdge`: a simple digraph), the test that every child slot was filled (`allSome`), the float
casts of the constructors (`Io32.storeNode`), and the conversion of the LEAF parameters: the translator only extracts the
names of the conversions (`Gen.S3ioLeafParamConv`: "around8.tolist" / "round8"), not a function, so `ioGenEncodeNode`
rounds the parameters with `roundN Gen.jsonDigits`.
Composed: `Struct3.encodeNode_as_coded`, `Struct3.nodeEdges_as_coded`, `Struct3.place_as_coded`,
`Oblig.C13.round8_is_generated`, `Oblig.C13.weights_loadable` with `decode_perm_encode` / `C13.decode_encode`,
`Io32.gen_stable`, `Io32.reload_is_fixed_point`, `C13.repeated_child_loses_edge`.

### item 9 — C20 `SPNClassifier.predict_proba` / `predict_log_proba` / `predict` (prefix `pp`)
GENERATED: `Gen.S3predictLogProba` (the last two statements of `predict_log_proba` on one row of `X`), `Gen.S3predictProba`
(`np.exp` of it), `Gen.sumMpeScore` / `Gen.sumMpeSelector` / `Gen.sumMpeAxis` (the reduction `sum_mpe` performs),
`Gen.S3predictSteps` (names of the three steps of `predict`).  NOT generated: the forward pass that produces the class
log-likelihoods `lls` (they enter as the logarithms of positive class likelihoods, column `r` of the class-major table
`L`), `np.argmax` (the model's `argmaxL`: first maximal index), and `predict` beyond its step names — `ppSumMpe` is the
root step of `mpe` written out (arg-max of the generated score over the children).
Composed: `Struct3.predict_log_proba_as_coded`, `Struct3.predict_proba_as_coded`, `StructTopDown.sum_mpe_as_coded` with
`C20.posterior_rows_normalised`, `C20.posterior_def`, `C20.predict_is_argmax`, `C20.predict_is_argmax_log`
(`C20.softmax_is_posterior` is already inside `predict_proba_as_coded`).

### (10) C16 `e2e_rat_topdown…` — top-down pass of the RAT-SPN (prefix `rt`)
GENERATED: one row of `ProductLayer.sample/mpe` (`Gen.S4ratProdSample`), `SumLayer.mpe` (`Gen.S4ratSumMpe`),
`RootLayer.mpe` (`Gen.S4ratRootMpe`), `RootLayer.sample` index split (`Gen.S4ratRootSample`), the rows `SumLayer.sample`
draws from (`Gen.S4ratSumSampleLogits`), `unpad_samples` (`Gen.S4ratUnpad`), `RegionGraphLayer.mpe` (`Gen.S4ratBaseMpe`),
the pad (`Gen.ratPad`); the ORDER of the calls in `RatSpn.mpe` / `RatSpn.sample` only as statement listings
(`Gen.S4ratModelMpe`, `Gen.S4ratModelSample`).  NOT generated: the loops themselves (`rtGenDown`, `rtGenPmfDown` write them
out: generated layer methods and nothing else), the forward values `lls` (`prodVal`, `sumVal`, `baseVal`: model), the
index buffers `inv_mask` / `inv_pad_mask` (model), the Bernoulli modes, the law of the base layer (`basePmf`: model), the
evidence-conditioned branch rows (`lawCond`: there is no such code).  The generated methods work on rows of `long`s
(`rtIdx`), in the linear-domain reading of `Oblig/Struct4RatSpn.lean` (`+ ↦ *`, `log_softmax(weight) ↦` soft-max row).
Composed: `Struct4.prodSample_as_coded`, `sumMpe_as_coded`, `rootMpe_as_coded`, `rootSample_as_coded`,
`sumSample_as_coded`, `unpadSamples_as_coded`, `baseMpe_as_coded`, `mpeDown_order`, `StructRatSpn.padOf_as_coded` and the
new linking lemma `rt_modes_cover` with `C16Sample.ratspn_mpe_is_descent`, `ratspn_sample_law`, `ratspn_sample_exact`.
-/
set_option linter.unusedSectionVars false
set_option linter.unusedSimpArgs false
set_option linter.unusedVariables false
set_option linter.unnecessarySeqFocus false
namespace Deeprob.E2E

section item6
open Deeprob

/-! ## item 6 — the JSON round trip (C13) -/

/-! ### the generated writer and reader -/

/-- `graph.add_node(node.id, **attr)` for one node: the sum weights through the GENERATED `Gen.S3ioSumWeights` (with the
exact decimal rounding `roundN` as the reading of `round(float(w), ·)`), the leaf parameters rounded to the GENERATED number
of decimals `Gen.jsonDigits` (the conversion itself is not generated as a function, see the header); class and scope are
copied (`Gen.S3ioSumAttr` / `Gen.S3ioProductAttr` / `Gen.S3ioLeafAttr` list exactly these attributes) -/
def ioGenEncodeNode (n : MNode) : DocNode :=
  { id := n.id, cls := n.cls, scope := n.scope,
    weights := Gen.S3ioSumWeights roundN n.weights,
    params := n.params.map (roundN Gen.jsonDigits) }

/-- the `add_edge` calls of one node: the GENERATED `Gen.S3ioEdges` (nodes are their ids: `nid = id`, the children of the
node are `n.ch`), each triple `(u, v, idx)` stored as the link `u → v` with attribute `idx` -/
def ioGenNodeEdges (n : MNode) : List Edge :=
  (Gen.S3ioEdges (N := Nat) id (fun _ => n.ch) n.id).map
    (fun t => ({ child := t.1, parent := t.2.1, idx := t.2.2.toNat } : Edge))

/-- the loop `for node in topological_order(root)` of `spn_to_digraph` written out: one call of the generated node writer
and of the generated edge writer per node, the edges inserted into a simple digraph (`addEdge`, the model of
`nx.DiGraph.add_edge`) -/
def ioGenEncode (m : Model) : Doc :=
  { nodes := m.map ioGenEncodeNode, edges := (m.flatMap ioGenNodeEdges).foldl addEdge [] }

/-- the loop `for u, v, idx in graph.edges` of `digraph_to_spn` written out for the parent with id `p`: one call of the
GENERATED `Gen.S3ioPlace` per link into `p`, in document order (links into other nodes do not touch this list, which is
how the model's `childrenOf` splits the single loop of the code) -/
def ioGenChildrenOf (es : List Edge) (p : Nat) : List (Option Nat) :=
  (es.filter (fun e => e.parent == p)).foldl (fun l e => Gen.S3ioPlace l (e.idx : Int) e.child) []

/-- `digraph_to_spn` with the generated placement of children (`none`: a child slot stayed `None`) -/
def ioGenDecode (d : Doc) : Option Model :=
  d.nodes.mapM (fun n => (allSome (ioGenChildrenOf d.edges n.id)).map (fun ch =>
    ({ id := n.id, cls := n.cls, scope := n.scope, weights := n.weights, params := n.params, ch := ch } : MNode)))

/-- `load_spn_json`: the generated reader followed by the constructors' float casts (`Io32.storeNode`, not generated) -/
def ioGenLoadDoc (d : Doc) : Option Model := (ioGenDecode d).map (fun m => m.map Io32.storeNode)

/-- total version (an unloadable document gives the empty model), as `Io32.loadModel` -/
def ioGenLoadModel (d : Doc) : Model := (ioGenLoadDoc d).getD []

/-! ### linking lemmas -/

/-- the generated node writer is the model's (`encodeNode_as_coded`, `round8_is_generated`) -/
theorem ioGenEncodeNode_eq (n : MNode) : ioGenEncodeNode n = encodeNode n := by
  obtain ⟨hw, hid, hc, hs, hp, _⟩ := Struct3.encodeNode_as_coded n
  cases h : encodeNode n with
  | mk id cls scope weights params =>
    rw [h] at hw hid hc hs hp
    simp only at hw hid hc hs hp
    subst hw hid hc hs hp
    rfl

/-- the generated edge writer is the model's (`nodeEdges_as_coded` read backwards: the obligation compares after a cast of
`idx` to `Int`) -/
theorem ioGenNodeEdges_eq (n : MNode) : ioGenNodeEdges n = nodeEdges n := by
  unfold ioGenNodeEdges
  rw [← Struct3.nodeEdges_as_coded, List.map_map]
  conv_rhs => rw [← List.map_id (nodeEdges n)]
  apply List.map_congr_left
  intro e _
  cases e
  simp

/-- **the written-out writer loop equals the model's encoder** -/
theorem ioGenEncode_eq (m : Model) : ioGenEncode m = encode m := by
  unfold ioGenEncode encode insertedEdges
  have h1 : m.map ioGenEncodeNode = m.map encodeNode := List.map_congr_left (fun n _ => ioGenEncodeNode_eq n)
  have h2 : m.flatMap ioGenNodeEdges = m.flatMap nodeEdges := by
    have : ioGenNodeEdges = nodeEdges := funext ioGenNodeEdges_eq
    rw [this]
  rw [h1, h2]

/-- the written-out reader loop equals the model's `childrenOf` (`place_as_coded`) -/
theorem ioGenChildrenOf_eq (es : List Edge) (p : Nat) : ioGenChildrenOf es p = childrenOf es p := by
  unfold ioGenChildrenOf childrenOf
  simp only [Struct3.place_as_coded]

theorem ioGenDecode_eq (d : Doc) : ioGenDecode d = decode d := by
  unfold ioGenDecode decode
  simp only [ioGenChildrenOf_eq]

theorem ioGenLoadDoc_eq (d : Doc) : ioGenLoadDoc d = Io32.loadDoc d := by
  unfold ioGenLoadDoc Io32.loadDoc
  rw [ioGenDecode_eq]

theorem ioGenLoadModel_eq (d : Doc) : ioGenLoadModel d = Io32.loadModel d := by
  unfold ioGenLoadModel Io32.loadModel
  rw [ioGenLoadDoc_eq]

/-! ### the end-to-end corollaries -/

/-- **`e2e_io_decode`** (C13): for every model with distinct ids in which no node lists the same child twice, reading — with
the GENERATED placement of children — what the GENERATED node / edge writers wrote, the links taken in ANY order, succeeds
and returns exactly the model with its float parameters rounded to 8 decimals.
Ingredients: `encodeNode_as_coded`, `nodeEdges_as_coded`, `place_as_coded` + `decode_perm_encode`. -/
theorem e2e_io_decode (m : Model) (h : NoRepeat m) (es : List Edge) (hp : es.Perm (ioGenEncode m).edges) :
    ioGenDecode { nodes := (ioGenEncode m).nodes, edges := es } = some (m.map roundNode) := by
  rw [ioGenEncode_eq] at hp ⊢
  rw [ioGenDecode_eq]
  exact decode_perm_encode m h es hp

/-- **`e2e_io`** (C13, the property as `C13.decode_encode` states it): the reload through the generated writer and reader
has the same ids, classes, scopes and children (in the same order) as the model, and every weight / parameter is within
½·10⁻⁸ of the original.  Ingredients: the three obligations + `C13.decode_encode`. -/
theorem e2e_io (m : Model) (h : NoRepeat m) (es : List Edge) (hp : es.Perm (ioGenEncode m).edges) :
    ∃ m', ioGenDecode { nodes := (ioGenEncode m).nodes, edges := es } = some m' ∧
      m'.map C13.shape = m.map C13.shape ∧ C13.Close8 m m' := by
  rw [ioGenEncode_eq] at hp ⊢
  rw [ioGenDecode_eq]
  exact C13.decode_encode m h es hp

/-- the document as written, links in insertion order -/
theorem e2e_io_id (m : Model) (h : NoRepeat m) : ioGenDecode (ioGenEncode m) = some (m.map roundNode) :=
  e2e_io_decode m h _ (List.Perm.refl _)

/-- non-vacuity: the DAG `C13.exM` (a sum over two products sharing a leaf).  The generated writers produce the rounded
weights `0.33333333, 0.66666667`, the Gaussian parameters `0.33333333, 0.00001`, and six links; the hypotheses of
`e2e_io_decode` / `e2e_io` hold, also for the links re-ordered as a digraph iterates them (grouped by child). -/
example : NoRepeat C13.exM ∧
    ((ioGenEncode C13.exM).nodes.map (·.weights)).head? = some [33333333 / 100000000, 66666667 / 100000000] ∧
    ((ioGenEncode C13.exM).nodes.map (·.params))[4]? = some [33333333 / 100000000, 1 / 100000] ∧
    (ioGenEncode C13.exM).edges = [⟨1, 0, 0⟩, ⟨2, 0, 1⟩, ⟨3, 1, 0⟩, ⟨4, 1, 1⟩, ⟨5, 2, 0⟩, ⟨3, 2, 1⟩] ∧
    C13.exEdgesByChild.Perm (ioGenEncode C13.exM).edges ∧
    ioGenChildrenOf C13.exEdgesByChild 2 = [some 5, some 3] :=
  ⟨C13.exM_noRepeat, by decide +kernel, by decide +kernel, by decide +kernel, by decide +kernel, by decide +kernel⟩

example : ioGenDecode { nodes := (ioGenEncode C13.exM).nodes, edges := C13.exEdgesByChild }
    = some (C13.exM.map roundNode) :=
  e2e_io_decode C13.exM C13.exM_noRepeat _ (by decide +kernel)

example : ∃ m', ioGenDecode (ioGenEncode C13.exM) = some m' ∧ m'.map C13.shape = C13.exM.map C13.shape ∧
    C13.Close8 C13.exM m' :=
  e2e_io C13.exM C13.exM_noRepeat _ (List.Perm.refl _)

/-- **`e2e_io_gen_stable`** (C13, "× repeated save / load generations", single-precision storage modelled): with the
GENERATED writers and the GENERATED reader (followed by the constructors' float casts), the document of generation 3
equals the document of generation 2 — nodes, rounded numbers and links.
Ingredients: the three obligations + `Io32.gen_stable`. -/
theorem e2e_io_gen_stable (m : Model) (h : NoRepeat m) :
    ioGenEncode (ioGenLoadModel (ioGenEncode (ioGenLoadModel (ioGenEncode m))))
      = ioGenEncode (ioGenLoadModel (ioGenEncode m)) := by
  simp only [ioGenEncode_eq, ioGenLoadModel_eq]
  exact Io32.gen_stable m h

/-- **`e2e_io_reload_fixed`** (C13): the first reload through the generated writer / reader succeeds, keeps ids, classes,
scopes and child order, and yields a model that save + load reproduces EXACTLY.
Ingredients: the three obligations + `Io32.reload_is_fixed_point`. -/
theorem e2e_io_reload_fixed (m : Model) (h : NoRepeat m) :
    ∃ m1, ioGenLoadDoc (ioGenEncode m) = some m1 ∧ m1.map C13.shape = m.map C13.shape ∧
      ioGenLoadDoc (ioGenEncode m1) = some m1 := by
  simp only [ioGenEncode_eq, ioGenLoadDoc_eq]
  exact Io32.reload_is_fixed_point m h

/-- non-vacuity: `Io32.exM` (parameters 1/3, 2/3, 1/7, 0.7 … none of them a float32); generation 2 DIFFERS from generation
1 (the weight 0.33333333 becomes 0.33333334), generation 3 equals generation 2 -/
example : NoRepeat Io32.exM ∧
    ioGenEncode (ioGenLoadModel (ioGenEncode Io32.exM)) ≠ ioGenEncode Io32.exM ∧
    ((ioGenEncode (ioGenLoadModel (ioGenEncode Io32.exM))).nodes.map (·.weights)).head?
      = some [33333334 / 100000000, 66666669 / 100000000] ∧
    ioGenEncode (ioGenLoadModel (ioGenEncode (ioGenLoadModel (ioGenEncode Io32.exM))))
      = ioGenEncode (ioGenLoadModel (ioGenEncode Io32.exM)) :=
  ⟨Io32.exM_noRepeat, by decide +kernel, by decide +kernel, e2e_io_gen_stable Io32.exM Io32.exM_noRepeat⟩

example : ∃ m1, ioGenLoadDoc (ioGenEncode Io32.exM) = some m1 ∧ m1.map C13.shape = Io32.exM.map C13.shape ∧
    ioGenLoadDoc (ioGenEncode m1) = some m1 := e2e_io_reload_fixed Io32.exM Io32.exM_noRepeat

/-- **`e2e_io_weights_loadable`** (C13, writer against constructor): the weights the GENERATED writer stores for a sum node
with at most 10³ children whose weights sum to one pass the GENERATED guard of `Sum.__init__`.
Ingredients: `encodeNode_as_coded` (first component, definitional) + `Oblig.C13.weights_loadable`. -/
theorem e2e_io_weights_loadable (ws : List ℚ) (hsum : tsum ws = 1) (hn : ws.length ≤ 1000) :
    ¬ Gen.sumCtorRejects (tsum (Gen.S3ioSumWeights roundN ws)) :=
  Oblig.C13.weights_loadable ws hsum hn

example : tsum ([1/3, 2/3] : List ℚ) = 1 ∧ ¬ Gen.sumCtorRejects (tsum (Gen.S3ioSumWeights roundN [1/3, 2/3])) :=
  ⟨by norm_num [tsum], e2e_io_weights_loadable _ (by norm_num [tsum]) (by decide)⟩

/-- **`e2e_io_repeated_child`** (finding F15 about the generated writers): the hypothesis "no node lists the same child
twice" is needed — for the sum node of `C13.exRepeated` the GENERATED edge writer makes two `add_edge` calls for the
pair (child 1, parent 0), the simple digraph keeps one link with the last `idx`, and the GENERATED placement leaves slot 0
empty: the reload fails.  Ingredients: `nodeEdges_as_coded`, `place_as_coded` + `C13.repeated_child_loses_edge`. -/
theorem e2e_io_repeated_child :
    (C13.exRepeated.flatMap ioGenNodeEdges).length = 2 ∧ (ioGenEncode C13.exRepeated).edges = [⟨1, 0, 1⟩] ∧
    ioGenChildrenOf (ioGenEncode C13.exRepeated).edges 0 = [none, some 1] ∧
    ioGenDecode (ioGenEncode C13.exRepeated) = none := by
  have h : ioGenNodeEdges = nodeEdges := funext ioGenNodeEdges_eq
  simp only [ioGenEncode_eq, ioGenDecode_eq, ioGenChildrenOf_eq, h]
  exact C13.repeated_child_loses_edge

example : ¬ NoRepeat C13.exRepeated := fun h => by
  have := h.children _ (List.mem_cons_self)
  revert this
  decide

end item6

section item9
open Deeprob

/-! ## item 9 — C20: `SPNClassifier.predict_proba` / `predict_log_proba` / `predict` -/

section predictProba
variable {F : Type} [Field F] [LinearOrder F] [IsStrictOrderedRing F]

/-! ### linking lemmas -/

theorem pp_wsum_nonneg : ∀ (w ls : List F), (∀ x ∈ w, 0 < x) → (∀ x ∈ ls, 0 < x) → 0 ≤ wsum w ls
  | [], _, _, _ => by simp [wsum]
  | _ :: _, [], _, _ => by simp [wsum]
  | a :: w, l :: ls, hw, hl => by
    simp only [wsum]
    have h1 := mul_pos (hw a List.mem_cons_self) (hl l List.mem_cons_self)
    have h2 := pp_wsum_nonneg w ls (fun x hx => hw x (List.mem_cons_of_mem _ hx))
      (fun x hx => hl x (List.mem_cons_of_mem _ hx))
    linarith

theorem pp_wsum_pos (w ls : List F) (hwn : w ≠ []) (hln : ls ≠ []) (hw : ∀ x ∈ w, 0 < x) (hl : ∀ x ∈ ls, 0 < x) :
    0 < wsum w ls := by
  cases w with
  | nil => exact absurd rfl hwn
  | cons a w =>
    cases ls with
    | nil => exact absurd rfl hln
    | cons l ls =>
      simp only [wsum]
      have h1 := mul_pos (hw a List.mem_cons_self) (hl l List.mem_cons_self)
      have h2 := pp_wsum_nonneg w ls (fun x hx => hw x (List.mem_cons_of_mem _ hx))
        (fun x hx => hl x (List.mem_cons_of_mem _ hx))
      linarith

/-- the evidence hypothesis of `C20.posterior_rows_normalised` / `C20.predict_is_argmax` follows from the positivity
hypotheses of `predict_proba_as_coded` as soon as there is at least one class -/
theorem pp_evidence_pos (w : List F) (L : List (List F)) (r : Nat) (hwn : w ≠ []) (hLn : L ≠ [])
    (hw : ∀ x ∈ w, 0 < x) (hl : ∀ x ∈ colOf L r, 0 < x) : 0 < evidenceOf w L r := by
  unfold evidenceOf
  apply pp_wsum_pos w (colOf L r) hwn _ hw hl
  unfold colOf
  intro h
  exact hLn (List.map_eq_nil_iff.1 h)

/-- the scores `sum_mpe` reduces (`lls + np.log(node.weights)`, one entry per child) are the class log-likelihoods
`class_ll` of `predict_log_proba` (`lls[class_ids].T + np.log(weights)`): same numbers, the two summands swapped -/
theorem pp_scores_eq_classLL (E : ExpLog F) : ∀ (w lls : List F),
    List.zipWith (fun ll wk => Gen.sumMpeScore E ll wk) lls w = classLL E w lls
  | [], [] => rfl
  | [], _ :: _ => rfl
  | _ :: _, [] => rfl
  | a :: w, l :: ls => by
    have ih := pp_scores_eq_classLL E w ls
    unfold classLL at ih ⊢
    rw [List.zipWith_cons_cons, List.zipWith_cons_cons, ih]
    simp only [Gen.sumMpeScore, add_comm]

/-- subtracting the normaliser does not move `np.argmax` -/
theorem pp_argmax_logSoftmax (E : ExpLog F) (zs : List F) : argmaxL (logSoftmax E zs) = argmaxL zs := by
  unfold logSoftmax
  exact C20.argmaxL_map (fun z => z - E.log (tsum (zs.map E.exp))) (fun a b => (sub_lt_sub_iff_right _).symm) zs

/-! ### the end-to-end corollaries -/

/-- **`e2e_predict_proba_normalised`** (C20): the row the GENERATED `predict_proba` returns on the logarithms of positive
class likelihoods (column `r` of the class-major table `L`) with positive priors sums to one.
Ingredients: `Struct3.predict_proba_as_coded` + `C20.posterior_rows_normalised`. -/
theorem e2e_predict_proba_normalised (E : ExpLog F) (w : List F) (L : List (List F)) (r : Nat)
    (hw : ∀ x ∈ w, 0 < x) (hl : ∀ x ∈ colOf L r, 0 < x) (h : evidenceOf w L r ≠ 0) :
    tsum (Gen.S3predictProba E w ((colOf L r).map E.log)) = 1 := by
  rw [Struct3.predict_proba_as_coded E w L r hw hl]
  exact C20.posterior_rows_normalised w L r h

/-- the same with the evidence hypothesis discharged (`pp_evidence_pos`): at least one class -/
theorem e2e_predict_proba_normalised' (E : ExpLog F) (w : List F) (L : List (List F)) (r : Nat)
    (hwn : w ≠ []) (hLn : L ≠ []) (hw : ∀ x ∈ w, 0 < x) (hl : ∀ x ∈ colOf L r, 0 < x) :
    tsum (Gen.S3predictProba E w ((colOf L r).map E.log)) = 1 :=
  e2e_predict_proba_normalised E w L r hw hl (ne_of_gt (pp_evidence_pos w L r hwn hLn hw hl))

/-- **`e2e_predict_proba_normalised_any`**: normalisation does not depend on the model at all — for ANY weights and ANY
log-values (no positivity, `log` of a non-positive weight being whatever `E.log` returns) the generated row sums to one as
soon as it is non-empty.  Ingredients: `Struct3.predict_log_proba_as_coded` + `C20.exp_logSoftmax`. -/
theorem e2e_predict_proba_normalised_any (E : ExpLog F) (w lls : List F) (hwn : w ≠ []) (hln : lls ≠ []) :
    tsum (Gen.S3predictProba E w lls) = 1 := by
  have h0 : Gen.S3predictProba E w lls = (logSoftmax E (classLL E w lls)).map E.exp := by
    unfold Gen.S3predictProba
    rw [Struct3.predict_log_proba_as_coded]
  have hne : classLL E w lls ≠ [] := by
    unfold classLL
    cases w with
    | nil => exact absurd rfl hwn
    | cons a w => cases lls with
      | nil => exact absurd rfl hln
      | cons l ls => simp
  rw [h0, C20.exp_logSoftmax, C20.tsum_map_div]
  exact div_self (ne_of_gt (C20.tsum_exp_pos E _ hne))

/-- **`e2e_predict_proba_entry`** (C20): entry `k` of the row the GENERATED `predict_proba` returns is the posterior
`w_k · L_k(x_r) / Σ_j w_j · L_j(x_r)`.  Ingredients: `Struct3.predict_proba_as_coded` + `C20.posterior_def`. -/
theorem e2e_predict_proba_entry (E : ExpLog F) (w : List F) (L : List (List F)) (r k : Nat)
    (hw : ∀ x ∈ w, 0 < x) (hl : ∀ x ∈ colOf L r, 0 < x) (hk : k < w.length) (hL : k < L.length) :
    (Gen.S3predictProba E w ((colOf L r).map E.log)).getD k 0 = w[k] * (L[k]).getD r 0 / evidenceOf w L r := by
  rw [Struct3.predict_proba_as_coded E w L r hw hl]
  exact C20.posterior_def w L r k hk hL

/-- **`e2e_predict_argmax`** (C20): the arg-max (first maximal index, `np.argmax`) of the row the GENERATED
`predict_proba` returns is the arg-max of `w_k · L_k(x_r)`, the class `predict` answers.
Ingredients: `Struct3.predict_proba_as_coded` + `C20.predict_is_argmax`. -/
theorem e2e_predict_argmax (E : ExpLog F) (w : List F) (L : List (List F)) (r : Nat)
    (hw : ∀ x ∈ w, 0 < x) (hl : ∀ x ∈ colOf L r, 0 < x) (h : 0 < evidenceOf w L r) :
    argmaxL (Gen.S3predictProba E w ((colOf L r).map E.log)) = predictBranch w L r := by
  rw [Struct3.predict_proba_as_coded E w L r hw hl]
  exact C20.predict_is_argmax w L r h

/-- **`e2e_predict_proba`** (C20, summary): with at least one class, positive priors and positive class likelihoods, the
row the GENERATED `predict_proba` returns on the logarithms of the class likelihoods sums to one, entry `k` is the posterior
`w_k · L_k(x_r) / Σ_j w_j · L_j(x_r)`, and its arg-max is the arg-max of `w_k · L_k(x_r)` (the class `predict` answers).
Ingredients: the three theorems above + `pp_evidence_pos`. -/
theorem e2e_predict_proba (E : ExpLog F) (w : List F) (L : List (List F)) (r : Nat)
    (hwn : w ≠ []) (hLn : L ≠ []) (hw : ∀ x ∈ w, 0 < x) (hl : ∀ x ∈ colOf L r, 0 < x) :
    tsum (Gen.S3predictProba E w ((colOf L r).map E.log)) = 1 ∧
    (∀ k (hk : k < w.length) (hL : k < L.length),
      (Gen.S3predictProba E w ((colOf L r).map E.log)).getD k 0 = w[k] * (L[k]).getD r 0 / evidenceOf w L r) ∧
    argmaxL (Gen.S3predictProba E w ((colOf L r).map E.log)) = predictBranch w L r :=
  ⟨e2e_predict_proba_normalised' E w L r hwn hLn hw hl,
   fun k hk hL => e2e_predict_proba_entry E w L r k hw hl hk hL,
   e2e_predict_argmax E w L r hw hl (pp_evidence_pos w L r hwn hLn hw hl)⟩

/-- **`e2e_predict_argmax_log`** (C20, log domain): the same for the row the GENERATED `predict_log_proba` returns; needs
`exp` strictly increasing.  Ingredients: `Struct3.predict_log_proba_as_coded` + `pp_argmax_logSoftmax` +
`C20.predict_is_argmax_log` + `C20.predict_is_argmax`. -/
theorem e2e_predict_argmax_log (E : ExpLogMono F) (w : List F) (L : List (List F)) (r : Nat)
    (hw : ∀ x ∈ w, 0 < x) (hl : ∀ x ∈ colOf L r, 0 < x) (h : 0 < evidenceOf w L r) :
    argmaxL (Gen.S3predictLogProba E.toExpLog w ((colOf L r).map E.log)) = predictBranch w L r := by
  rw [Struct3.predict_log_proba_as_coded, pp_argmax_logSoftmax, C20.predict_is_argmax_log E w L r hw hl h]
  exact C20.predict_is_argmax w L r h

/-- `sum_mpe` at the root on one row, written out: `np.argmax` (`Gen.sumMpeSelector`, along the children axis
`Gen.sumMpeAxis`) of the GENERATED score `Gen.sumMpeScore` of every child — this is the branch `predict` follows
(`Gen.S3predictSteps`: the label is missing, `inference.mpe` completes it).  Nothing but the generated score and the
model's `np.argmax`. -/
def ppSumMpe (E : ExpLog F) (w lls : List F) : Nat :=
  argmaxL (List.zipWith (fun ll wk => Gen.sumMpeScore E ll wk) lls w)

/-- **`e2e_predict_is_sum_mpe`** (C20): `predict` and `predict_proba` agree — the branch the GENERATED `sum_mpe` score
selects at the root is the arg-max of the GENERATED `predict_proba` row and of the GENERATED `predict_log_proba` row.
Ingredients: `StructTopDown.sum_mpe_as_coded` (selector and axis), `pp_scores_eq_classLL`, the two theorems above. -/
theorem e2e_predict_is_sum_mpe (E : ExpLogMono F) (w : List F) (L : List (List F)) (r : Nat)
    (hw : ∀ x ∈ w, 0 < x) (hl : ∀ x ∈ colOf L r, 0 < x) (h : 0 < evidenceOf w L r) :
    Gen.sumMpeSelector = "argmax" ∧ Gen.sumMpeAxis = some 1 ∧
    ppSumMpe E.toExpLog w ((colOf L r).map E.log) = argmaxL (Gen.S3predictProba E.toExpLog w ((colOf L r).map E.log)) ∧
    ppSumMpe E.toExpLog w ((colOf L r).map E.log)
      = argmaxL (Gen.S3predictLogProba E.toExpLog w ((colOf L r).map E.log)) ∧
    ppSumMpe E.toExpLog w ((colOf L r).map E.log) = predictBranch w L r := by
  have hs : ppSumMpe E.toExpLog w ((colOf L r).map E.log) = predictBranch w L r := by
    unfold ppSumMpe
    rw [pp_scores_eq_classLL, C20.predict_is_argmax_log E w L r hw hl h]
    exact C20.predict_is_argmax w L r h
  refine ⟨by decide, by decide, ?_, ?_, hs⟩
  · rw [hs, e2e_predict_argmax E.toExpLog w L r hw hl h]
  · rw [hs, e2e_predict_argmax_log E w L r hw hl h]

/-! ### non-vacuity at ℝ (usual `exp` / `log`): 2 classes, `w = (1/4, 3/4)`, `L_0 = (1/2, 1/2)`, `L_1 = (1/8, 7/8)` -/

theorem ppEx_evidence0 : evidenceOf C20.exWR C20.exLR 0 = 7/32 := by
  norm_num [evidenceOf, C20.exWR, C20.exLR, colOf, wsum]

theorem ppEx_evidence1 : evidenceOf C20.exWR C20.exLR 1 = 25/32 := by
  norm_num [evidenceOf, C20.exWR, C20.exLR, colOf, wsum]

/-- all hypotheses hold; the generated row 0 sums to one and its entries are `4/7`, `3/7` -/
example : tsum (Gen.S3predictProba realExpLog C20.exWR ((colOf C20.exLR 0).map realExpLog.log)) = 1 ∧
    (Gen.S3predictProba realExpLog C20.exWR ((colOf C20.exLR 0).map realExpLog.log)).getD 0 0 = 4/7 ∧
    (Gen.S3predictProba realExpLog C20.exWR ((colOf C20.exLR 0).map realExpLog.log)).getD 1 0 = 3/7 := by
  refine ⟨e2e_predict_proba_normalised realExpLog _ _ 0 C20.exWR_pos (C20.exLR_pos 0 (by norm_num))
      (by rw [ppEx_evidence0]; norm_num), ?_, ?_⟩
  · rw [e2e_predict_proba_entry realExpLog _ _ 0 0 C20.exWR_pos (C20.exLR_pos 0 (by norm_num))
      (by simp [C20.exWR]) (by simp [C20.exLR]), ppEx_evidence0]
    norm_num [C20.exWR, C20.exLR]
  · rw [e2e_predict_proba_entry realExpLog _ _ 0 1 C20.exWR_pos (C20.exLR_pos 0 (by norm_num))
      (by simp [C20.exWR]) (by simp [C20.exLR]), ppEx_evidence0]
    norm_num [C20.exWR, C20.exLR]

example : tsum (Gen.S3predictProba realExpLog C20.exWR ((colOf C20.exLR 1).map realExpLog.log)) = 1 :=
  e2e_predict_proba_normalised' realExpLog _ _ 1 (by simp [C20.exWR]) (by simp [C20.exLR]) C20.exWR_pos
    (C20.exLR_pos 1 (by norm_num))

example : tsum (Gen.S3predictProba realExpLog C20.exWR ((colOf C20.exLR 1).map realExpLog.log)) = 1 ∧
    (∀ k (hk : k < C20.exWR.length) (hL : k < C20.exLR.length),
      (Gen.S3predictProba realExpLog C20.exWR ((colOf C20.exLR 1).map realExpLog.log)).getD k 0
        = C20.exWR[k] * (C20.exLR[k]).getD 1 0 / evidenceOf C20.exWR C20.exLR 1) ∧
    argmaxL (Gen.S3predictProba realExpLog C20.exWR ((colOf C20.exLR 1).map realExpLog.log))
      = predictBranch C20.exWR C20.exLR 1 :=
  e2e_predict_proba realExpLog _ _ 1 (by simp [C20.exWR]) (by simp [C20.exLR]) C20.exWR_pos
    (C20.exLR_pos 1 (by norm_num))

/-- no positivity needed: weights `(-1, 2)`, arbitrary log-values -/
example : tsum (Gen.S3predictProba realExpLog [-1, 2] [5, -3]) = 1 :=
  e2e_predict_proba_normalised_any realExpLog _ _ (by simp) (by simp)

/-- row 1 of the example: all three readings of the prediction give class 1 -/
example : argmaxL (Gen.S3predictProba realExpLog C20.exWR ((colOf C20.exLR 1).map realExpLog.log)) = 1 ∧
    argmaxL (Gen.S3predictLogProba realExpLog C20.exWR ((colOf C20.exLR 1).map realExpLog.log)) = 1 ∧
    ppSumMpe realExpLog C20.exWR ((colOf C20.exLR 1).map realExpLog.log) = 1 := by
  have hev : (0:ℝ) < evidenceOf C20.exWR C20.exLR 1 := by rw [ppEx_evidence1]; norm_num
  have hb : predictBranch C20.exWR C20.exLR 1 = 1 := by
    simp only [predictBranch, classScores, C20.exWR, C20.exLR, colOf, List.map, List.getD, List.zipWith]
    norm_num [argmaxL, postArgmaxAux]
  have h := e2e_predict_is_sum_mpe realExpLogMono C20.exWR C20.exLR 1 C20.exWR_pos (C20.exLR_pos 1 (by norm_num)) hev
  refine ⟨?_, ?_, ?_⟩
  · exact (e2e_predict_argmax realExpLog _ _ 1 C20.exWR_pos (C20.exLR_pos 1 (by norm_num)) hev).trans hb
  · exact (e2e_predict_argmax_log realExpLogMono _ _ 1 C20.exWR_pos (C20.exLR_pos 1 (by norm_num)) hev).trans hb
  · exact h.2.2.2.2.trans hb

end predictProba

end item9

section item10
open Deeprob

/-! ## (10) C16 — the generated top-down pass of the RAT-SPN -/
section rt
open Deeprob.RatSpn Deeprob.RatSample Deeprob.TCirc Deeprob.Tensor Deeprob.Struct4

/-- one row of `(idx_group, idx_offset)` as the GENERATED layer methods see it (torch `long` entries) -/
abbrev rtIdx := List Int × List Int

/-- the model's row of indices as a row of `long`s -/
def rtCast (io : Idx) : rtIdx := (castL io.1, castL io.2)
/-- … and back (`Int.toNat` entry-wise) -/
def rtUncast (io : rtIdx) : Idx := (io.1.map Int.toNat, io.2.map Int.toNat)

theorem rtUncast_cast (io : Idx) : rtUncast (rtCast io) = io := by
  unfold rtUncast rtCast castL
  simp only [List.map_map]
  refine Prod.ext ?_ ?_ <;> simp [Function.comp_def]

/-- `ProductLayer.mpe` / `ProductLayer.sample` on one row: the GENERATED `Gen.S4ratProdSample` -/
def rtGenProd (inNodes : Nat) (io : rtIdx) : rtIdx := Gen.S4ratProdSample (inNodes : Int) io.1 io.2

theorem rtGenProd_eq (m : Nat) (io : Idx) : rtGenProd m (rtCast io) = rtCast (prodDownI m io) :=
  prodSample_as_coded m io.1 io.2

section mpe
variable {α : Type} [Zero α] [One α] [Add α] [Mul α] [LT α] [DecidableLT α]

/-- `SumLayer.mpe(lls[i], idx_group, idx_offset)` on one row: the GENERATED `Gen.S4ratSumMpe` in the linear-domain reading
of `Oblig/Struct4RatSpn.lean` (`+ ↦ *`, `log_softmax(weight[g, o]) ↦ w g o`, the model's soft-max row); `V` = the input
the layer received in the forward pass -/
def rtGenSumMpe (w : Nat → Nat → List α) (V : Tab α) (io : rtIdx) : rtIdx :=
  @Gen.S4ratSumMpe α ⟨(· * ·)⟩ _ _ (fun v => v) (fun g => (List.range V.nodes).map (fun t => V.at_ g.toNat t))
    (fun g o => w g.toNat o.toNat) io.1 io.2

/-- `RootLayer.mpe(x, y)` on one row: the GENERATED `Gen.S4ratRootMpe` (same reading; `wroot c` = soft-max row of
class `c`, `V` = input of the root layer) -/
def rtGenRootMpe (wroot : Nat → List α) (V : Tab α) (y : Nat) : rtIdx :=
  @Gen.S4ratRootMpe α ⟨(· * ·)⟩ _ _ (fun v => v)
    ((List.range V.groups).map (fun g => (List.range V.nodes).map (fun t => V.at_ g t)))
    (fun c => wroot c.toNat) (V.nodes : Int) (y : Int)

/-- the loop `for i in range(len(self.layers) - 1, -1, -1): idx = self.layers[i].mpe(lls[i], idx)` of `RatSpn.mpe`
(`Gen.S4ratModelMpe`, `Struct4.modelMpe_as_coded`) written out: every step is a GENERATED layer method
(`rtGenProd`, `rtGenSumMpe`) and nothing else; the recursion visits the upper layers first, each sum layer on the input
it received in the forward pass (`Struct4.mpeDown_order`).  The stored forward values `lls` (`prodVal`, `sumVal`) are
the model's — the forward pass of the layers is not a generated fragment. -/
def rtGenDown (w : Nat → Nat → Nat → List α) (rgSum : Nat) : Nat → Nat → Tab α → rtIdx → rtIdx
  | 0, _, _, io => io
  | 1, _, V, io => rtGenProd V.nodes io
  | k + 2, l, V, io =>
      rtGenProd V.nodes
        (rtGenSumMpe (w l) (prodVal V) (rtGenDown w rgSum (k + 1) (l + 1) (sumVal (w l) rgSum (prodVal V)) io))

/-- index pair reaching the base layer: GENERATED root step, then the GENERATED loop -/
def rtGenMpeIdx (S : Spec α) (y : Nat) (e : Ev) : rtIdx :=
  rtGenDown S.w S.rgSum S.depth 0 (baseVal S e) (rtGenRootMpe S.wroot (topVal S e) y)

/-- `self.unpad_samples` of the base layer: the GENERATED `Gen.S4ratUnpad` with the GENERATED pad `Gen.ratPad` and the
model's index buffers `inv_mask`, `inv_pad_mask` (their construction is C16's tensor part, `Props/C16.lean`) -/
def rtGenUnpad (S : Spec α) (samples : List Nat) (idxGroup : List Int) : List Nat :=
  Gen.S4ratUnpad (S.depth : Int) (Gen.ratPad (S.n : Int) (S.depth : Int)) (S.n : Int)
    (fun t => castL (invMask S.n S.depth S.regs t.toNat)) (fun t => invPadMask S.n S.depth S.regs t.toNat) 1
    samples idxGroup

/-- `RatSpn.mpe(x, y)` on one row, top-down part: the GENERATED `RegionGraphLayer.mpe` (`Gen.S4ratBaseMpe`, with the
modes `probs >= 0.5` of `BernoulliLayer.distribution_mode` read from the model's tables — not a generated fragment)
on the index pair the GENERATED root step and loop deliver -/
def rtGenMpeRow (S : Spec α) (y : Nat) (row : List (Option Nat)) : List Nat :=
  let io := rtGenMpeIdx S y (Ev.ofList row)
  Gen.S4ratBaseMpe
    (fun g o => (List.range (S.mrow g.toNat).length).map (fun k => TCirc.bernIdx (S.tbl g.toNat o.toNat k)))
    (rtGenUnpad S) row io.1 io.2

end mpe

section mpeLink
variable {α : Type} [Field α] [LinearOrder α] [IsStrictOrderedRing α]

theorem rtGenSumMpe_eq (w : Nat → Nat → List α) (V : Tab α) (io : Idx) :
    rtGenSumMpe w V (rtCast io) = rtCast (sumMpe w V io) :=
  sumMpe_as_coded w V io

theorem rtGenRootMpe_eq (wroot : Nat → List α) (V : Tab α) (y : Nat) :
    rtGenRootMpe wroot V y = rtCast (rootMpe (wroot y) V) := by
  rw [rtCast, ← rootMpe_as_coded (wroot y) V (y : Int)]
  unfold rtGenRootMpe Gen.S4ratRootMpe
  simp only [Int.toNat_natCast]

/-- **the generated loop is the model's `mpeDown`** (`prodSample_as_coded` and `sumMpe_as_coded` at every layer, the order
by `mpeDown_order`) -/
theorem rtGenDown_eq (w : Nat → Nat → Nat → List α) (rgSum : Nat) : ∀ (k l : Nat) (V : Tab α) (io : Idx),
    rtGenDown w rgSum k l V (rtCast io) = rtCast (mpeDown w rgSum k l V io)
  | 0, _, _, _ => rfl
  | 1, _, V, io => rtGenProd_eq V.nodes io
  | k + 2, l, V, io => by
      rw [mpeDown_order]
      simp only [rtGenDown]
      rw [rtGenDown_eq w rgSum (k + 1) (l + 1), rtGenSumMpe_eq, rtGenProd_eq]

theorem rtGenMpeIdx_eq (S : Spec α) (y : Nat) (e : Ev) : rtGenMpeIdx S y e = rtCast (mpeIdx S y e) := by
  unfold rtGenMpeIdx mpeIdx
  rw [rtGenRootMpe_eq, rtGenDown_eq]

/-- **the generated pass returns the model's `mpeRow`** on an accepted architecture (`baseMpe_as_coded` with its
hypothesis on `unpad_samples` discharged by `unpadSamples_as_coded`, whose in-range side condition is
`rt_modes_cover`; `padOf_as_coded` for the pad) -/
theorem rtGenMpeRow_eq (S : Spec α) (y : Nat) (row : List (Option Nat))
    (hρ : ∀ t r, (S.ρ t r).Perm r) (hacc : accepted S.n S.depth = true) (hreps : 0 < S.reps)
    (hb : 0 < S.batch) (hs : 0 < S.rgSum) :
    rtGenMpeRow S y row = mpeRow S y row := by
  unfold rtGenMpeRow mpeRow
  simp only [rtGenMpeIdx_eq, rtCast]
  apply baseMpe_as_coded S (mpeIdx S y (Ev.ofList row)) row (rtGenUnpad S)
  unfold rtGenUnpad
  rw [Oblig.StructRatSpn.padOf_as_coded]
  exact unpadSamples_as_coded S.n S.depth S.regs _ _ 1 (rt_modes_cover S y (Ev.ofList row) hρ hacc hreps hb hs)

/-- **`e2e_rat_topdown_mpe`** (C16): for every accepted architecture, every permutation draw, all parameters and every
evidence row of the input width, the row returned by the top-down pass of `RatSpn.mpe(x, y)` whose steps are the
GENERATED layer methods (`RootLayer.mpe`, `SumLayer.mpe`, `ProductLayer.mpe`, `RegionGraphLayer.mpe` with
`unpad_samples`) is exactly the row the arg-max descent `mpeDescent` (C06) produces on the unrolled circuit.
Ingredients: `Struct4.rootMpe_as_coded`, `sumMpe_as_coded`, `prodSample_as_coded`, `mpeDown_order`, `baseMpe_as_coded`,
`unpadSamples_as_coded`, `StructRatSpn.padOf_as_coded`, the linking lemma `rt_modes_cover`, and
`C16Sample.ratspn_mpe_is_descent`. -/
theorem e2e_rat_topdown_mpe (S : Spec α) (y : Nat) (row : List (Option Nat))
    (hρ : ∀ t r, (S.ρ t r).Perm r) (hacc : accepted S.n S.depth = true) (hreps : 0 < S.reps)
    (hb : 0 < S.batch) (hs : 0 < S.rgSum) (hrow : row.length = S.n) :
    (rtGenMpeRow S y row).map some = (List.range S.n).map (mpeDescent (Ev.ofList row) (unrollT S y)) := by
  rw [rtGenMpeRow_eq S y row hρ hacc hreps hb hs]
  exact ratspn_mpe_is_descent S y row hρ hacc hreps hb hs hrow

/-- non-vacuity: the padded Bernoulli RAT-SPN `exS` of `Props/C16Sample.lean` (5 features, depth 2, pad 3, 2 repetitions),
variables 1 and 3 observed; the GENERATED pass returns `[1, 1, 1, 0, 1]`, reaching the four leaf regions of repetition 0
(`idx_group = [0, 1, 2, 3]`) at the nodes `idx_offset = [0, 0, 0, 1]` -/
example : (∀ t r, (exS.ρ t r).Perm r) ∧ accepted exS.n exS.depth = true ∧ exRow.length = exS.n ∧
    rtGenMpeRow exS 1 exRow = [1, 1, 1, 0, 1] ∧ rtGenMpeIdx exS 1 (Ev.ofList exRow) = ([0, 1, 2, 3], [0, 0, 0, 1]) :=
  ⟨revOracle_perm, by decide, rfl, by decide +kernel, by decide +kernel⟩

example : (rtGenMpeRow exS 1 exRow).map some
    = (List.range exS.n).map (mpeDescent (Ev.ofList exRow) (unrollT exS 1)) :=
  e2e_rat_topdown_mpe exS 1 exRow revOracle_perm (by decide) (by decide) (by decide) (by decide) rfl

end mpeLink

section sample
variable {α : Type} [Zero α] [One α] [Add α] [Mul α] [Div α]

/-- a sum layer of `RatSpn.sample` seen from above: the new offsets are independent draws from the rows `rows io`
(one pmf on the `m` input nodes per entry of the index row), `idx_group` is returned unchanged; `κ` = probability that
the rest of the pass yields the target row (`RatSample.sumStep` on rows of `long`s) -/
def rtGenSumStep (rows : rtIdx → List (List α)) (m : Nat) (κ : rtIdx → α) (io : rtIdx) : α :=
  expect m (rows io) (fun os' => κ (io.1, castL os'))

/-- the loop `for i in range(len(self.layers) - 1, -1, -1): idx = self.layers[i].sample(idx)` of `RatSpn.sample`
(`Gen.S4ratModelSample`, `Struct4.modelSample_as_coded`) as a pmf transformer: product layers route the indices with
the GENERATED `Gen.S4ratProdSample`; sum layer `l` draws from the rows `rows l V` (`V` = the layer's input) -/
def rtGenPmfDown (rows : Nat → Tab α → rtIdx → List (List α)) (w : Nat → Nat → Nat → List α) (rgSum : Nat) :
    Nat → Nat → Tab α → (rtIdx → α) → rtIdx → α
  | 0, _, _, κ, io => κ io
  | 1, _, V, κ, io => κ (rtGenProd V.nodes io)
  | k + 2, l, V, κ, io =>
      rtGenPmfDown rows w rgSum (k + 1) (l + 1) (sumVal (w l) rgSum (prodVal V))
        (rtGenSumStep (rows l (prodVal V)) (prodVal V).nodes (fun io' => κ (rtGenProd V.nodes io'))) io

/-- `RootLayer.sample`: flat index `idx ~ pm`, split by the GENERATED `Gen.S4ratRootSample` -/
def rtGenRootStep (pm : List α) (V : Tab α) (κ : rtIdx → α) : α :=
  sumVar (V.groups * V.nodes) (fun idx => pm.getD idx 0 * κ (Gen.S4ratRootSample (V.nodes : Int) [(idx : Int)]))

/-- the rows `SumLayer.sample` draws from: the GENERATED `Gen.S4ratSumSampleLogits` in the linear reading
(`Categorical(logits = log_softmax(weight[g, o]))` has pmf `w g o`) -/
def rtGenSampleRows (w : Nat → Nat → List α) (_V : Tab α) (io : rtIdx) : List (List α) :=
  Gen.S4ratSumSampleLogits (fun v => v) (fun g o => w g.toNat o.toNat) io.1 io.2

/-- the rows of the evidence-conditioned pass (`RatSample.lawCond`: `wᵢ·xᵢ / Σⱼ wⱼ·xⱼ` on the layer's input under the
evidence).  NOT a generated fragment: `RatSpn.sample` takes no evidence; this is `SumLayer.mpe` with the arg-max
replaced by a draw, the object `C16Sample.ratspn_sample_exact` is about. -/
def rtCondRows (w : Nat → Nat → List α) (V : Tab α) (io : rtIdx) : List (List α) :=
  List.zipWith (fun g o => lawCond w V g.toNat o.toNat) io.1 io.2

/-- **law of `RatSpn.sample(·, y)`** with the GENERATED index steps: root draw from the soft-max row of class `y`, split
by `Gen.S4ratRootSample`; sum layers draw from `Gen.S4ratSumSampleLogits`; product layers route with
`Gen.S4ratProdSample`; the law of the base layer on the selected leaves is the model's `basePmf`
(`RegionGraphLayer.sample` is not a generated fragment) -/
def rtGenSamplePmf (S : Spec α) (y : Nat) (x : Ev) : α :=
  let V0 := baseVal S (fun _ => none)
  rtGenRootStep (S.wroot y) (innerVal S.w S.rgSum S.depth 0 V0)
    (rtGenPmfDown (fun l => rtGenSampleRows (S.w l)) S.w S.rgSum S.depth 0 V0
      (fun io => basePmf S (fun _ => none) x (rtUncast io)))

/-- the evidence-conditioned pass (`RatSample.condPmf`) with the GENERATED index steps of the product layers and of the
root split; the branch rows `rtCondRows` and the base law are the model's -/
def rtGenCondPmf (S : Spec α) (y : Nat) (e x : Ev) : α :=
  let V0 := baseVal S e
  let Vt := innerVal S.w S.rgSum S.depth 0 V0
  rtGenRootStep (TCirc.branchPmf (rootVal (S.wroot y) Vt) (S.wroot y) (flat Vt)) Vt
    (rtGenPmfDown (fun l => rtCondRows (S.w l)) S.w S.rgSum S.depth 0 V0 (fun io => basePmf S e x (rtUncast io)))

/-! linking lemmas -/

theorem rtGenSampleRows_eq (w : Nat → Nat → List α) (V : Tab α) (io : Idx) :
    rtGenSampleRows w V (rtCast io) = List.zipWith (lawSample w V) io.1 io.2 :=
  (sumSample_as_coded w V io).1

theorem rtCondRows_eq (w : Nat → Nat → List α) (V : Tab α) (io : Idx) :
    rtCondRows w V (rtCast io) = List.zipWith (lawCond w V) io.1 io.2 := by
  unfold rtCondRows rtCast castL
  simp only [List.zipWith_map_left, List.zipWith_map_right, Int.toNat_natCast]

/-- **the generated pmf loop is the model's `pmfDown`** when the rows agree (`prodSample_as_coded` at every product layer) -/
theorem rtGenPmfDown_eq (rows : Nat → Tab α → rtIdx → List (List α)) (law : Nat → Tab α → Nat → Nat → List α)
    (hrows : ∀ l V (io : Idx), rows l V (rtCast io) = List.zipWith (law l V) io.1 io.2)
    (w : Nat → Nat → Nat → List α) (rgSum : Nat) : ∀ (k l : Nat) (V : Tab α) (κ : rtIdx → α) (io : Idx),
    rtGenPmfDown rows w rgSum k l V κ (rtCast io) = pmfDown law w rgSum k l V (fun io' => κ (rtCast io')) io
  | 0, _, _, _, _ => rfl
  | 1, _, V, κ, io => by simp only [rtGenPmfDown, pmfDown, rtGenProd_eq]
  | k + 2, l, V, κ, io => by
      simp only [rtGenPmfDown, pmfDown]
      rw [rtGenPmfDown_eq rows law hrows w rgSum (k + 1) (l + 1)]
      congr 1
      funext io'
      unfold rtGenSumStep sumStep
      rw [hrows]
      congr 1
      funext os'
      exact congrArg κ (rtGenProd_eq V.nodes (io'.1, os'))

theorem rtGenRootStep_eq (pm : List α) (V : Tab α) (κ : rtIdx → α) :
    rtGenRootStep pm V κ = rootStep pm V (fun io => κ (rtCast io)) := by
  unfold rtGenRootStep rootStep
  congr 1
  funext idx
  rw [rootSample_as_coded]
  rfl

theorem rtGenSamplePmf_eq (S : Spec α) (y : Nat) (x : Ev) : rtGenSamplePmf S y x = samplePmf S y x := by
  unfold rtGenSamplePmf samplePmf
  simp only [rtGenRootStep_eq]
  congr 1
  funext io
  rw [rtGenPmfDown_eq _ (fun l => lawSample (S.w l)) (fun l V io => rtGenSampleRows_eq (S.w l) V io)]
  simp only [rtUncast_cast]

theorem rtGenCondPmf_eq (S : Spec α) (y : Nat) (e x : Ev) : rtGenCondPmf S y e x = condPmf S y e x := by
  unfold rtGenCondPmf condPmf
  simp only [rtGenRootStep_eq]
  congr 1
  funext io
  rw [rtGenPmfDown_eq _ (fun l => lawCond (S.w l)) (fun l V io => rtCondRows_eq (S.w l) V io)]
  simp only [rtUncast_cast]

end sample

section sampleLaw
variable {α : Type} [Field α] [LinearOrder α] [IsStrictOrderedRing α]

/-- **`e2e_rat_topdown_sample`** (C16): the law of `RatSpn.sample(·, y)` whose index steps are the GENERATED ones
(`RootLayer.sample` split, `SumLayer.sample` rows, `ProductLayer.sample` routing) is the polynomial of the unrolled
circuit: `P(sample agrees with x on its observed entries) = value(x)`.  No hypothesis on the parameters.
Ingredients: `Struct4.rootSample_as_coded`, `sumSample_as_coded`, `prodSample_as_coded`, `C16Sample.ratspn_sample_law`. -/
theorem e2e_rat_topdown_sample (S : Spec α) (y : Nat) (x : Ev) :
    rtGenSamplePmf S y x = Circ.eval x (circ S y) := by
  rw [rtGenSamplePmf_eq]
  exact ratspn_sample_law S y x

/-- **`e2e_rat_topdown_sample_exact`** (C16): the evidence-conditioned top-down pass with the GENERATED index steps draws
from the exact conditional distribution of the unrolled circuit given the observed entries (division-free form).
The branch rows are the model's `lawCond` (see `rtCondRows`: the source has no evidence-conditioned sampler for
RAT-SPNs; only the index routing and the root split of this pass are generated).
Ingredients: `rootSample_as_coded`, `prodSample_as_coded`, `C16Sample.ratspn_sample_exact`. -/
theorem e2e_rat_topdown_sample_exact (S : Spec α) (h : S.WF) (y : Nat) (e x : Ev)
    (hx : Completes (List.range S.n) e x) :
    rtGenCondPmf S y e x * Circ.eval e (circ S y) = Circ.eval x (circ S y) := by
  rw [rtGenCondPmf_eq]
  exact ratspn_sample_exact S h y e x hx

/-- **`e2e_rat_topdown`** (C16, the three statements together for a well-formed specification `S.WF`: permutation draws,
accepted architecture, positive sizes, tables and soft-max rows of the right lengths and non-negative): on an evidence
row of the input width the GENERATED MPE pass is the arg-max descent of the unrolled circuit; the evidence-conditioned
pass with the generated index steps draws every completion `x` of the row with its exact conditional probability; and
the law of the GENERATED `sample` pass is the circuit polynomial. -/
theorem e2e_rat_topdown (S : Spec α) (h : S.WF) (y : Nat) (row : List (Option Nat)) (hrow : row.length = S.n)
    (x : Ev) (hx : Completes (List.range S.n) (Ev.ofList row) x) :
    (rtGenMpeRow S y row).map some = (List.range S.n).map (mpeDescent (Ev.ofList row) (unrollT S y)) ∧
    rtGenCondPmf S y (Ev.ofList row) x * Circ.eval (Ev.ofList row) (circ S y) = Circ.eval x (circ S y) ∧
    rtGenSamplePmf S y x = Circ.eval x (circ S y) :=
  ⟨e2e_rat_topdown_mpe S y row h.perm h.acc h.reps_pos h.batch_pos h.sum_pos hrow,
   e2e_rat_topdown_sample_exact S h y (Ev.ofList row) x hx, e2e_rat_topdown_sample S y x⟩

example : (rtGenMpeRow exS 1 exRow).map some = (List.range exS.n).map (mpeDescent (Ev.ofList exRow) (unrollT exS 1)) ∧
    rtGenCondPmf exS 1 (Ev.ofList exRow) exCompl * Circ.eval (Ev.ofList exRow) (circ exS 1)
      = Circ.eval exCompl (circ exS 1) ∧
    rtGenSamplePmf exS 1 exCompl = Circ.eval exCompl (circ exS 1) :=
  e2e_rat_topdown exS exS_wf 1 exRow rfl exCompl exCompl_completes

/-- non-vacuity on `exS`: the hypotheses hold and the generated passes compute the numbers of `Props/C16Sample.lean` -/
example : exS.WF ∧ Completes (List.range exS.n) exEv exCompl ∧
    rtGenCondPmf exS 1 exEv exCompl = 2396297 / 15531264 ∧ rtGenSamplePmf exS 1 exCompl = 2396297 / 63700992 :=
  ⟨exS_wf, exCompl_completes, by decide +kernel, by decide +kernel⟩

example : rtGenCondPmf exS 1 exEv exCompl * Circ.eval exEv (circ exS 1) = Circ.eval exCompl (circ exS 1) :=
  e2e_rat_topdown_sample_exact exS exS_wf 1 exEv exCompl exCompl_completes

end sampleLaw

end rt

end item10

end Deeprob.E2E
