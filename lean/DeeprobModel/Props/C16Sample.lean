import DeeprobModel.Lemmas.RatSampleLeafRow
import DeeprobModel.Props.C16
import DeeprobModel.Props.C06
import DeeprobModel.Props.C07
set_option linter.unusedSimpArgs false
set_option linter.unusedVariables false
set_option linter.unusedSectionVars false
/-
C16, sampling / MPE clause — "MPE and sampling return complete in-domain rows of the input width that
keep observed entries, and samples follow the model's distribution."

Model: `Model/RatSample.lean` — the layer-wise top-down pass of `RatSpn.mpe` / `RatSpn.sample` on the index
pair `(idx_group, idx_offset)` as the layers propagate it (`mpeRow`, `sampleRow`), and its law as a pmf
transformer (`samplePmf` = the coded `sample`, which takes no evidence; `condPmf` = the same pass with the
branch draws conditioned on the forward values under evidence, i.e. `RatSpn.mpe` with the arg-max replaced
by a draw).  `unrollT S y` is `RatSpn.unroll` with the top-down data of the leaves.

What the code computes, exactly:
* `sample`: ancestral sampling with the soft-max weights — its law is the circuit polynomial itself
  (`ratspn_sample_law`, no hypothesis), hence the model's distribution when the weights are normalised;
* `mpe`: bottom-up values are the ordinary (sum, not max) forward values `lls`; top-down every sum node
  follows `argmax wᵢ·valueᵢ` (first maximiser), leaves write their mode (`p ≥ 0.5 → 1`).  This is the
  same arg-max descent as `deeprob.spn.algorithms.inference.mpe` (`TCirc.mpeDescent`), proved here; it is
  not a max-product (Viterbi) evaluation, and C16 does not claim that it is.
-/
namespace Deeprob
namespace RatSample
open RatSpn TCirc

/-! ### non-vacuity: a padded Bernoulli RAT-SPN (5 features, depth 2, pad 3, 2 repetitions, batch 2,
2 sums per region, 2 classes) with non-uniform parameters -/

def exS : Spec Rat where
  ρ := revOracle
  n := 5
  depth := 2
  reps := 2
  batch := 2
  rgSum := 2
  classes := 2
  tbl := fun i c _ => if (i + c) % 2 = 0 then [1/4, 3/4] else [2/3, 1/3]
  w := fun _ _ o => if o = 0 then [1/10, 2/10, 3/10, 4/10] else [1/4, 1/4, 1/4, 1/4]
  wroot := fun y => if y = 0 then [1/8, 1/8, 1/8, 1/8, 1/8, 1/8, 1/8, 1/8]
                    else [1/16, 3/16, 1/16, 3/16, 1/8, 1/8, 1/8, 1/8]

theorem exS_wf : exS.WF where
  perm := revOracle_perm
  acc := by decide
  reps_pos := by decide
  batch_pos := by decide
  sum_pos := by decide
  w_len := by
    intro l j o
    by_cases ho : o = 0 <;> by_cases hl : l = 0 <;> simp [exS, ho, hl]
  root_len := by
    intro y
    by_cases hy : y = 0 <;> simp [exS, hy]
  w_nonneg := by
    intro l j o a ha
    by_cases ho : o = 0
    · simp only [exS, ho, if_true, List.mem_cons, List.not_mem_nil, or_false] at ha
      rcases ha with rfl | rfl | rfl | rfl <;> norm_num
    · simp only [exS, ho, if_false, List.mem_cons, List.not_mem_nil, or_false] at ha
      rcases ha with rfl | rfl | rfl | rfl <;> norm_num
  root_nonneg := by
    intro y a ha
    by_cases hy : y = 0
    · simp only [exS, hy, if_true, List.mem_cons, List.not_mem_nil, or_false] at ha
      rcases ha with rfl | rfl | rfl | rfl | rfl | rfl | rfl | rfl <;> norm_num
    · simp only [exS, hy, if_false, List.mem_cons, List.not_mem_nil, or_false] at ha
      rcases ha with rfl | rfl | rfl | rfl | rfl | rfl | rfl | rfl <;> norm_num
  tbl_len := by
    intro i c k
    by_cases h : (i + c) % 2 = 0 <;> simp [exS, h]
  tbl_sum := by
    intro i c k
    by_cases h : (i + c) % 2 = 0 <;> simp [exS, h, tsum] <;> norm_num
  tbl_nonneg := by
    intro i c k a ha
    by_cases h : (i + c) % 2 = 0
    · simp only [exS, h, if_true, List.mem_cons, List.not_mem_nil, or_false] at ha
      rcases ha with rfl | rfl <;> norm_num
    · simp only [exS, h, if_false, List.mem_cons, List.not_mem_nil, or_false] at ha
      rcases ha with rfl | rfl <;> norm_num

theorem exS_normalised : exS.Normalised where
  w_sum := by
    intro l j o
    by_cases ho : o = 0 <;> simp [exS, ho, tsum] <;> norm_num
  root_sum := by
    intro y
    by_cases hy : y = 0 <;> simp [exS, hy, tsum] <;> norm_num

/-- evidence: variables 1 and 3 observed -/
def exRow : List (Option Nat) := [none, some 1, none, some 0, none]
def exEv : Ev := Ev.ofList exRow
/-- a completion -/
def exCompl : Ev := Ev.ofList [some 1, some 1, some 0, some 0, some 1]

theorem exCompl_completes : Completes (List.range exS.n) exEv exCompl := by
  constructor
  · intro v hv
    match v with
    | 0 => simp [exEv, exRow, Ev.ofList] at hv
    | 1 => simp [exEv, exRow, exCompl, Ev.ofList]
    | 2 => simp [exEv, exRow, Ev.ofList] at hv
    | 3 => simp [exEv, exRow, exCompl, Ev.ofList]
    | 4 => simp [exEv, exRow, Ev.ofList] at hv
    | n + 5 => simp [exEv, exRow, Ev.ofList] at hv
  · intro v hv
    have : v < 5 := by simpa [exS] using hv
    match v, this with
    | 0, _ => simp [exCompl, Ev.ofList]
    | 1, _ => simp [exCompl, Ev.ofList]
    | 2, _ => simp [exCompl, Ev.ofList]
    | 3, _ => simp [exCompl, Ev.ofList]
    | 4, _ => simp [exCompl, Ev.ofList]

section law
variable {α : Type} [Field α] [LinearOrder α] [IsStrictOrderedRing α]

/-- **simulation**: the layer-wise pass — joint independent draws of a whole row of `idx_offset` per sum
layer, index routing by the product layers, per-column draws at the base layer — has the same law as
the node-wise top-down sampler `topDownPmf` of the unrolled circuit, and that circuit is
`RatSpn.unroll` (the one `unroll_valid`, `ratspn_marg`, `ratspn_normalised` are about).  No hypothesis. -/
theorem ratspn_pass_is_topdown (S : Spec α) (y : Nat) (e x : Ev) :
    condPmf S y e x = topDownPmf e x (unrollT S y) ∧ (unrollT S y).toCirc = circ S y ∧
    forward S y e = Circ.eval e (circ S y) :=
  ⟨condPmf_eq_topDownPmf S y e x, unrollT_toCirc S y, by rw [forward_eq_eval, eval_unrollT]⟩

example : condPmf exS 1 exEv exCompl = topDownPmf exEv exCompl (unrollT exS 1) ∧
    (unrollT exS 1).toCirc = circ exS 1 ∧ forward exS 1 exEv = Circ.eval exEv (circ exS 1) :=
  ratspn_pass_is_topdown exS 1 exEv exCompl

/-- the evidence of the witness has positive value (computed through the layer-wise forward pass) -/
theorem exEv_pos : Circ.eval exEv (circ exS 1) ≠ 0 := by
  rw [← (ratspn_pass_is_topdown exS 1 exEv exEv).2.2]
  decide +kernel

/-- **ratspn_sample_exact**: for every accepted architecture (padded or not) and every evidence `e`, the
pmf of the evidence-conditioned layer-wise pass is the exact conditional distribution of the unrolled
circuit given the observed entries (division-free form; with `ratspn_marg` the value under `e` is the sum
over the completions, so this is `P(x | e)` of the RAT-SPN itself).  Route: simulation lemma +
`C07.topDownPmf_exact` on `unrollT`. -/
theorem ratspn_sample_exact (S : Spec α) (h : S.WF) (y : Nat) (e x : Ev)
    (hx : Completes (List.range S.n) e x) :
    condPmf S y e x * Circ.eval e (circ S y) = Circ.eval x (circ S y) := by
  rw [condPmf_eq_topDownPmf, ← eval_unrollT, ← eval_unrollT]
  exact C07.topDownPmf_exact (fun _ => 2) (unrollT S y) (unrollT_valid S h y) (unrollT_nonneg S h y)
    (unrollT_leafExact S y) e x hx

example : condPmf exS 1 exEv exCompl * Circ.eval exEv (circ exS 1) = Circ.eval exCompl (circ exS 1) :=
  ratspn_sample_exact exS exS_wf 1 exEv exCompl exCompl_completes

/-- the same with the division: `condPmf = P(x | observed entries of e)` when the evidence has positive value -/
theorem ratspn_sample_eq_cond (S : Spec α) (h : S.WF) (y : Nat) (e x : Ev)
    (hx : Completes (List.range S.n) e x) (he : Circ.eval e (circ S y) ≠ 0) :
    condPmf S y e x = Circ.eval x (circ S y) / Circ.eval e (circ S y) := by
  rw [eq_div_iff he]
  exact ratspn_sample_exact S h y e x hx

example : condPmf exS 1 exEv exCompl = Circ.eval exCompl (circ exS 1) / Circ.eval exEv (circ exS 1) :=
  ratspn_sample_eq_cond exS exS_wf 1 exEv exCompl exCompl_completes exEv_pos

/-- the law of the evidence-conditioned pass sums to one over the completions of the evidence -/
theorem ratspn_sample_sums_to_one (S : Spec α) (h : S.WF) (y : Nat) (e : Ev)
    (he : Circ.eval e (circ S y) ≠ 0) :
    sumOver (fun _ => 2) (List.range S.n) e (fun x => condPmf S y e x) = 1 := by
  have h1 := C07.topDownPmf_sums_to_one (fun _ => 2) (unrollT S y) (unrollT_valid S h y) (unrollT_nonneg S h y)
    (unrollT_leafExact S y) e (by rw [eval_unrollT]; exact he)
  rw [unrollT_scope] at h1
  rw [← h1]
  apply sumOver_congr
  intro x _
  exact condPmf_eq_topDownPmf S y e x

example : sumOver (fun _ => 2) (List.range exS.n) exEv (fun x => condPmf exS 1 exEv x) = 1 :=
  ratspn_sample_sums_to_one exS exS_wf 1 exEv exEv_pos

/-- **ratspn_sample_law**: the law of the coded `RatSpn.sample(·, y)` (weights only, no evidence) is the
polynomial of the unrolled circuit: for every row `x`, `P(sample agrees with x on its observed entries) =
value(x)`.  No hypothesis on the parameters. -/
theorem ratspn_sample_law (S : Spec α) (y : Nat) (x : Ev) : samplePmf S y x = Circ.eval x (circ S y) := by
  rw [samplePmf_eq_eval, eval_unrollT]

example : samplePmf exS 1 exCompl = Circ.eval exCompl (circ exS 1) := ratspn_sample_law exS 1 exCompl

/-- with normalised soft-max rows the coded sampler draws from the model's distribution: its law is the
conditional law given no evidence (= `topDownPmf` of the unrolled circuit from the all-missing row) and it
sums to one over the complete rows. -/
theorem ratspn_sample_law_normalised (S : Spec α) (h : S.WF) (hn : S.Normalised) (y : Nat) :
    (∀ x, (∀ v ∈ List.range S.n, x v ≠ none) →
        samplePmf S y x = condPmf S y (fun _ => none) x ∧
        samplePmf S y x = topDownPmf (fun _ => none) x (unrollT S y)) ∧
    sumOver (fun _ => 2) (List.range S.n) (fun _ => none) (fun x => samplePmf S y x) = 1 := by
  obtain ⟨_, hd, _⟩ := (accepted_iff S.n S.depth).1 h.acc
  have hl1 : ∀ i c k, lfOf S i c k (fun _ => none) = 1 := fun i c k => rfl
  have hnorm := ratspn_normalised (fun _ => 2) S.ρ h.perm S.n S.depth S.reps S.batch S.rgSum h.acc h.reps_pos
    h.batch_pos h.sum_pos (lfOf S) (lfOf_leafOK S h) hl1 S.w h.w_len hn.w_sum (S.wroot y) (h.root_len y)
    (hn.root_sum y)
  constructor
  · intro x hx
    have hc : Completes (List.range S.n) (fun _ => none) x := ⟨fun v hv => absurd rfl hv, hx⟩
    have h1 := ratspn_sample_exact S h y (fun _ => none) x hc
    have h0 : Circ.eval (fun _ => none) (circ S y) = 1 := hnorm.1
    rw [h0, mul_one] at h1
    refine ⟨by rw [ratspn_sample_law, h1], ?_⟩
    rw [ratspn_sample_law, ← h1, condPmf_eq_topDownPmf]
  · have := hnorm.2
    rw [← this]
    apply sumOver_congr
    intro x _
    exact ratspn_sample_law S y x

example : sumOver (fun _ => 2) (List.range exS.n) (fun _ => none) (fun x => samplePmf exS 1 x) = 1 :=
  (ratspn_sample_law_normalised exS exS_wf exS_normalised 1).2

/-- **ratspn_sample_rowlaw**: the law of the row *returned* by the coded `RatSpn.sample(·, y)` — every
column of every selected leaf drawn, dummy columns included, the padded row reordered and un-padded by the
repaired `unpad_samples` of the repetition `idx_group[:, 0] // 2**rg_depth` — is the model's distribution:
for every complete in-domain row of the input width, `P(sample = xrow) = value(xrow)` of the unrolled
circuit (hence a normalised distribution by `ratspn_normalised` when the soft-max rows sum to one). -/
theorem ratspn_sample_rowlaw (S : Spec α) (h : S.WF) (y : Nat) (xrow : List Nat) (hx : xrow.length = S.n)
    (hx2 : ∀ v ∈ xrow, v < 2) :
    sampleRowPmf S y xrow = Circ.eval (Ev.ofList (xrow.map some)) (circ S y) := by
  rw [sampleRowPmf_eq S h y xrow hx hx2, ratspn_sample_law]

example : sampleRowPmf exS 1 [1, 1, 0, 0, 1] = Circ.eval (Ev.ofList ([1, 1, 0, 0, 1].map some)) (circ exS 1) :=
  ratspn_sample_rowlaw exS exS_wf 1 [1, 1, 0, 0, 1] rfl (by decide)

/-- `RatSpn.sample(n)` without a class draws the class uniformly: the law is the uniform mixture of the
class distributions -/
theorem ratspn_sample_law_anyclass (S : Spec α) (x : Ev) :
    sampleAnyClassPmf S x = sumVar S.classes (fun y => Circ.eval x (circ S y)) / sumVar S.classes (fun _ => 1) := by
  unfold sampleAnyClassPmf
  congr 1
  apply sumVar_congr
  intro y
  exact ratspn_sample_law S y x

example : sampleAnyClassPmf exS exCompl =
    sumVar exS.classes (fun y => Circ.eval exCompl (circ exS y)) / sumVar exS.classes (fun _ => 1) :=
  ratspn_sample_law_anyclass exS exCompl

end law

/-! ### contract -/
section contract
variable {α : Type} [Field α] [LinearOrder α] [IsStrictOrderedRing α]

/-- **ratspn_sample_contract**: every outcome of the pass — whatever flat index `r` the root draws (within
its `reps · in_nodes` entries), whatever offsets `ch` the sum layers draw and whatever values `dr` the
selected leaves draw in `{0, 1}` (dummy columns included) — is a row of the input width whose entries are
in the domain; combined with the evidence as `RegionGraphLayer.mpe` does (`torch.where(isnan(x), ·, x)`)
it is complete, of the input width, and keeps every observed entry. -/
theorem ratspn_sample_contract (S : Spec α) (h : S.WF) (r : Nat) (ch : Nat → Nat → Nat) (dr : Nat → Nat → Nat)
    (hr : r < S.reps * (if S.depth = 1 then S.batch * S.batch else S.rgSum * S.rgSum))
    (hdr : ∀ j k, dr j k < 2) (row : List (Option Nat)) (hrow : row.length = S.n) :
    (sampleRow S r ch dr).length = S.n ∧
    (∀ (i k : Nat), (sampleRow S r ch dr)[i]? = some k → k < 2) ∧
    (completeRow row (sampleRow S r ch dr)).length = S.n ∧
    (∀ (i v : Nat), row[i]? = some (some v) → (completeRow row (sampleRow S r ch dr))[i]? = some v) := by
  obtain ⟨_, hd, _⟩ := (accepted_iff S.n S.depth).1 h.acc
  have hp2 := two_pow_pos S.depth
  generalize hmdef : (if S.depth = 1 then S.batch * S.batch else S.rgSum * S.rgSum) = m at hr
  have ht : r / m < S.reps := Nat.div_lt_of_lt_mul (by rw [Nat.mul_comm]; exact hr)
  generalize htdef : r / m = t at ht
  have hregs : S.regs.length = S.reps * 2 ^ S.depth := leafRegions_length S.ρ S.n S.depth S.reps hd
  -- the padded row of draws
  have hcore : (sampleRow S r ch dr).length = S.n ∧ ∀ (i k : Nat), (sampleRow S r ch dr)[i]? = some k → k < 2 := by
    unfold sampleRow
    simp only [hmdef, htdef]
    rw [sampleDown_groups, leafGroups_head]
    have hlen : ((List.range (leafGroups t S.depth).length).flatMap (fun j =>
        (List.range (S.mrow ((leafGroups t S.depth).getD j 0)).length).map (dr j))).length
          = S.n + padOf S.n S.depth := by
      rw [flatMap_range_length _ (dimOf S.n S.depth)]
      · rw [leafGroups_eq, List.length_map, List.length_range, pad_total]
      · intro j
        rw [List.length_map, List.length_range]
        apply mrow_len_of_lt S h
        rw [hregs, leafGroups_eq]
        by_cases hj : j < 2 ^ S.depth
        · simp only [List.getD_eq_getElem?_getD, List.getElem?_map, List.getElem?_range hj, Option.map_some,
            Option.getD_some]
          exact block_index_lt _ _ _ _ ht hj
        · simp only [List.getD_eq_getElem?_getD, List.getElem?_map,
            List.getElem?_eq_none (by simpa using Nat.le_of_not_lt hj : (List.range (2 ^ S.depth)).length ≤ j),
            Option.map_none, Option.getD_none]
          exact Nat.mul_pos h.reps_pos hp2
    have hdom := unpad_in_domain S.ρ h.perm S.n S.depth S.reps t h.acc ht _ hlen (fun _ v => v < 2)
      (by
        intro p v _ _ hv
        have hm := List.mem_of_getElem? hv
        obtain ⟨j, _, hm⟩ := List.mem_flatMap.1 hm
        obtain ⟨k, _, rfl⟩ := List.mem_map.1 hm
        exact hdr j k)
    exact hdom
  obtain ⟨hl, hdomv⟩ := hcore
  have hk := mpe_keeps_observed row (sampleRow S r ch dr) (by rw [hl, hrow])
  exact ⟨hl, hdomv, by rw [hk.1, hrow], hk.2⟩

/-- one outcome: the root draws flat index 5 (repetition 1, node 1), every sum-layer draw is 3, every leaf draws 1 -/
example : (sampleRow exS 5 (fun _ _ => 3) (fun _ _ => 1)).length = exS.n ∧
    (∀ (i k : Nat), (sampleRow exS 5 (fun _ _ => 3) (fun _ _ => 1))[i]? = some k → k < 2) ∧
    (completeRow exRow (sampleRow exS 5 (fun _ _ => 3) (fun _ _ => 1))).length = exS.n ∧
    (∀ (i v : Nat), exRow[i]? = some (some v) → (completeRow exRow (sampleRow exS 5 (fun _ _ => 3) (fun _ _ => 1)))[i]? = some v) :=
  ratspn_sample_contract exS exS_wf 5 (fun _ _ => 3) (fun _ _ => 1) (by decide) (fun _ _ => by decide) exRow rfl

/-- **ratspn_mpe_is_descent**: for every accepted architecture (any feature count incl. padding, depth,
repetitions, batch and sum sizes), every permutation draw, all parameters and every evidence row of the
input width, the row returned by the layer-wise pass of `RatSpn.mpe(x, y)` — forward values `lls`, root
arg-max over the flattened `(repetition, node)` table, per-region arg-max of `weights × child values` in
the sum layers, index routing in the product layers, modes of the selected leaves, `unpad_samples`,
`torch.where(isnan(x), samples, x)` — is exactly the row that the arg-max descent `mpeDescent` (the model of
`deeprob.spn.algorithms.inference.mpe`, C06) produces on the unrolled circuit.  No hypothesis on the
weights or the leaf tables. -/
theorem ratspn_mpe_is_descent (S : Spec α) (y : Nat) (row : List (Option Nat))
    (hρ : ∀ t r, (S.ρ t r).Perm r) (hacc : accepted S.n S.depth = true) (hreps : 0 < S.reps)
    (hb : 0 < S.batch) (hs : 0 < S.rgSum) (hrow : row.length = S.n) :
    (mpeRow S y row).map some = (List.range S.n).map (mpeDescent (Ev.ofList row) (unrollT S y)) :=
  mpeRow_eq_descent S y row hρ hacc hreps hb hs hrow

example : (mpeRow exS 1 exRow).map some = (List.range exS.n).map (mpeDescent (Ev.ofList exRow) (unrollT exS 1)) :=
  ratspn_mpe_is_descent exS 1 exRow revOracle_perm (by decide) (by decide) (by decide) (by decide) rfl

/-- **MPE contract** (through the descent and C06): the row has the input width, keeps every observed
entry, and a missing entry receives a value of the domain `{0, 1}`. -/
theorem ratspn_mpe_contract (S : Spec α) (y : Nat) (row : List (Option Nat))
    (hρ : ∀ t r, (S.ρ t r).Perm r) (hacc : accepted S.n S.depth = true) (hreps : 0 < S.reps)
    (hb : 0 < S.batch) (hs : 0 < S.rgSum) (hrow : row.length = S.n) :
    (mpeRow S y row).length = S.n ∧
    (∀ (i v : Nat), row[i]? = some (some v) → (mpeRow S y row)[i]? = some v) ∧
    (∀ (i k : Nat), (mpeRow S y row)[i]? = some k → row[i]? = some (some k) ∨ (row[i]? = some none ∧ k < 2)) := by
  have hd := ratspn_mpe_is_descent S y row hρ hacc hreps hb hs hrow
  have hlen : (mpeRow S y row).length = S.n := by
    have := congrArg List.length hd
    simpa using this
  have hent : ∀ i, i < S.n → mpeDescent (Ev.ofList row) (unrollT S y) i = (mpeRow S y row)[i]? := by
    intro i hi
    have := congrArg (fun l => l[i]?) hd
    simp only [List.getElem?_map, List.getElem?_range hi, Option.map_some] at this
    rw [List.getElem?_eq_getElem (by rw [hlen]; exact hi)] at this ⊢
    simpa using this.symm
  have hev : ∀ i, Ev.ofList row i = (row[i]?).getD none := by
    intro i; simp [Ev.ofList, List.getD_eq_getElem?_getD]
  refine ⟨hlen, ?_, ?_⟩
  · intro i v hiv
    have hi : i < S.n := by
      rw [← hrow]
      by_contra hc
      rw [List.getElem?_eq_none (Nat.le_of_not_lt hc)] at hiv; cases hiv
    have hk := C06.mpe_keeps_observed (fun _ => 2) (unrollT S y) (unrollT_modeOK S y) (Ev.ofList row) i
    have he : Ev.ofList row i = some v := by rw [hev, hiv]; rfl
    rw [← hent i hi, hk (by rw [he]; simp), he]
  · intro i k hik
    have hi : i < S.n := by
      rw [← hlen]
      by_contra hc
      rw [List.getElem?_eq_none (Nat.le_of_not_lt hc)] at hik; cases hik
    have hin := C06.mpe_in_domain (fun _ => 2) (unrollT S y) (unrollT_modeOK S y) (Ev.ofList row) i k
      (by rw [hent i hi]; exact hik)
    have hil : i < row.length := by rw [hrow]; exact hi
    rw [hev, List.getElem?_eq_getElem hil] at hin
    simp only [Option.getD_some] at hin
    rw [List.getElem?_eq_getElem hil]
    rcases hin with h1 | ⟨h1, h2⟩
    · exact Or.inl (by rw [h1])
    · exact Or.inr ⟨by rw [h1], h2⟩

example : (mpeRow exS 1 exRow).length = exS.n ∧
    (∀ (i v : Nat), exRow[i]? = some (some v) → (mpeRow exS 1 exRow)[i]? = some v) ∧
    (∀ (i k : Nat), (mpeRow exS 1 exRow)[i]? = some k → exRow[i]? = some (some k) ∨ (exRow[i]? = some none ∧ k < 2)) :=
  ratspn_mpe_contract exS 1 exRow revOracle_perm (by decide) (by decide) (by decide) (by decide) rfl

end contract

/-- concrete values on the witness (computed by the kernel): the MPE row, the conditional probability of
`exCompl` given `exEv`, and the probability that the coded sampler returns `exCompl` -/
example : mpeRow exS 1 exRow = [1, 1, 1, 0, 1] ∧ condPmf exS 1 exEv exCompl = 2396297 / 15531264 ∧
    samplePmf exS 1 exCompl = 2396297 / 63700992 := by decide +kernel

/-! ### what `RatSpn.mpe` is not: a most-probable completion -/

/-- smallest witness architecture: 2 features, depth 1, 2 repetitions, one leaf per region, one class;
repetition 0 has both leaves at `p = 3/5`, repetition 1 puts all its mass on `(0, 0)`; root weights
`3/5, 2/5` -/
def wS : Spec Rat where
  ρ := revOracle
  n := 2
  depth := 1
  reps := 2
  batch := 1
  rgSum := 1
  classes := 1
  tbl := fun i _ _ => if i < 2 then [2/5, 3/5] else [1, 0]
  w := fun _ _ _ => [1]
  wroot := fun _ => [3/5, 2/5]

/-- **mpe_descent_not_maximal** (observation, replayed on the real code by `witness_mpe_not_max.py`): with
nothing observed the pass follows the heavier repetition and returns `(1, 1)` of probability `27/125`,
while `(0, 0)` has probability `62/125`.  The coded MPE is the arg-max descent on sum-values (as C06 states
for general circuits), not a max-product evaluation. -/
theorem mpe_descent_not_maximal :
    accepted wS.n wS.depth = true ∧ mpeRow wS 0 [none, none] = [1, 1] ∧
    forward wS 0 (Ev.ofList [some 1, some 1]) = 27 / 125 ∧
    forward wS 0 (Ev.ofList [some 0, some 0]) = 62 / 125 := by decide +kernel

end RatSample
end Deeprob
