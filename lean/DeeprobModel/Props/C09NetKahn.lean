import DeeprobModel.Props.C09NetMore
import DeeprobModel.Lemmas.KahnLemmas
import DeeprobModel.Lemmas.KahnRename
set_option linter.unusedSectionVars false
set_option linter.unusedSimpArgs false
set_option linter.unusedVariables false
/-
C09 at DAG level: the `_partial` theorems of `Props/C09NetMore.lean` with their hypothesis on Kahn's order
discharged by `Net.kahn_spec` / `Net.kahn_some_of` (`Lemmas/KahnLemmas.lean`).
-/
namespace Deeprob
open Net
variable {α : Type} [CommSemiring α]

/-- **C09 at DAG level, the result of the repaired `prune` passes `check_spn` with all three flags**, every
exported entry is reachable from the new root, and `prune` does not fail (no cycle is reported). Hypotheses: the
input is a children-first table accepted by `check_spn`, leaves have no children, stored scopes are duplicate-free. -/
theorem pruneNet_checkSpn (net : Net α) (root : Nat) (hw : WellOrdered net) (hr : root < net.length)
    (hacc : Net.checkSpn net root true true true = .accept)
    (hleaf : ∀ i ∈ collect net root, ∀ x, net[i]? = some x → x.kind = .leaf → x.ch = [])
    (hnd : ∀ i ∈ collect net root, (scopeOf net i).Nodup) :
    ∃ out order, pruneNet net root = some (out, order) ∧
      Net.checkSpn out (out.length - 1) true true true = .accept ∧
      normalFormB out (out.length - 1) = true ∧
      scopeEq (scopeOf out (out.length - 1)) (scopeOf net root) ∧
      (∀ p, p < out.length → p ∈ collect out (out.length - 1)) := by
  have S := prunePass_sol true net hw
  have hcl := sol_chLt true net _ _ S
  obtain ⟨ko, hk⟩ := Net.kahn_some_of (prunePass true net).1 ((prunePass true net).2.getD root root)
    (Net.chLt_of_wellOrdered _ hcl)
  cases h : pruneNet net root with
  | none =>
    exfalso
    unfold pruneNet pruneNetWith exportFrom at h
    simp only [hk] at h
    cases h
  | some res =>
    obtain ⟨out, order⟩ := res
    have h1 := pruneNet_checkSpn_partial net root hw hr hacc hleaf hnd (kahnFacts_of_ChLt _ hcl _) out order h
    have h2 := pruneNet_normal_form net root hw hr hacc hleaf out order h
    have h3 := pruneNet_valid net root hw hr hacc hleaf hnd out order h
    exact ⟨out, order, rfl, h1.1, h2.1, h3.2.1, h1.2⟩

example : ∃ out order, pruneNet C09x.net 9 = some (out, order) ∧
      Net.checkSpn out (out.length - 1) true true true = .accept ∧ normalFormB out (out.length - 1) = true ∧
      scopeEq (scopeOf out (out.length - 1)) (scopeOf C09x.net 9) ∧
      (∀ p, p < out.length → p ∈ collect out (out.length - 1)) :=
  pruneNet_checkSpn C09x.net 9 C09x.wellOrdered (by decide) C09x.accept C09x.leafNoCh C09x.scopesNodup

/-- **`prune` as coded (`reversed(topological_order(root))`) = `prune` in storage order**, on every children-first
table; pinned and repaired behaviour alike. In particular the run-time comparison of the two passes in the driver
can never fail. -/
theorem pruneNetKahn_eq' (b : Bool) (net : Net α) (hw : WellOrdered net) (root : Nat) (hr : root < net.length) :
    pruneNetKahn b net root = pruneNetWith b net root := by
  obtain ⟨ko, hk⟩ := Net.kahn_some_of net root (Net.chLt_of_wellOrdered net hw)
  exact pruneNetKahn_eq b net hw root hr ko hk (kahnOrdOK_of_wellOrdered net hw root ko hk)

example : pruneNetKahn true C09x.net 9 = pruneNet C09x.net 9 ∧ pruneNetKahn false C09x.net 9 = pruneNetOld C09x.net 9 :=
  ⟨pruneNetKahn_eq' true C09x.net C09x.wellOrdered 9 (by decide),
   pruneNetKahn_eq' false C09x.net C09x.wellOrdered 9 (by decide)⟩

/-- **C09 at DAG level, value, for the pass as coded**: `pruneNetWith_eval` lifted to `pruneNetKahn` -/
theorem pruneNetKahn_eval (b : Bool) (net : Net α) (root : Nat) (hw : WellOrdered net) (hs : NetSumOK net)
    (hr : root < net.length) (out : Net α) (order : List Nat)
    (h : pruneNetKahn b net root = some (out, order)) (e : Ev) (dens : List α) :
    out.length = order.length ∧ out ≠ [] ∧
    nval e (order.map (fun i => dens.getD i 0)) out (out.length - 1) = nval e dens net root := by
  rw [pruneNetKahn_eq' b net hw root hr] at h
  exact pruneNetWith_eval b net root hw hs hr out order h e dens

example : ∃ out order, pruneNetKahn true C09x.net 9 = some (out, order) ∧
    ∀ (e : Ev) (dens : List Rat),
      nval e (order.map (fun i => dens.getD i 0)) out (out.length - 1) = nval e dens C09x.net 9 := by
  cases h : pruneNetKahn true C09x.net 9 with
  | none => exact absurd h (by decide +kernel)
  | some r =>
    exact ⟨r.1, r.2, rfl, fun e dens =>
      (pruneNetKahn_eval true C09x.net 9 C09x.wellOrdered C09x.sumOK (by decide) r.1 r.2 h e dens).2.2⟩

/-- **C09 at DAG level, idempotence** (repaired `prune`, ids included): pruning the result again returns exactly
the same table in the same storage order — `nodes_map` of the second run is the identity, and the second
`assign_ids` writes the ids of the first (Kahn's order commutes with the relabelling of the export, `kahn_export`). -/
theorem pruneNet_idem (net : Net α) (root : Nat) (hw : WellOrdered net) (hr : root < net.length)
    (hacc : Net.checkSpn net root true true true = .accept)
    (hleaf : ∀ i ∈ collect net root, ∀ x, net[i]? = some x → x.kind = .leaf → x.ch = [])
    (out : Net α) (order : List Nat) (h : pruneNet net root = some (out, order)) :
    pruneNet out (out.length - 1) = some (out, List.range out.length) := by
  obtain ⟨hwo, hnf⟩ := pruneNet_netNF net root hw hr hacc hleaf out order h
  rw [(pruneNet_fix out (out.length - 1) hwo hnf).2]
  have S := prunePass_sol true net hw
  unfold pruneNet pruneNetWith at h
  simp only at h
  exact exportFrom_export_ids _ (sol_chLt true net _ _ S) _
    (by have := (S.basic root hr).rep_le; rw [S.lt]; omega) out order h

example : ∃ out order, pruneNet C09x.net 9 = some (out, order) ∧
    pruneNet out (out.length - 1) = some (out, List.range out.length) := by
  cases h : pruneNet C09x.net 9 with
  | none => exact absurd h (by decide +kernel)
  | some r =>
    exact ⟨r.1, r.2, rfl, pruneNet_idem C09x.net 9 C09x.wellOrdered (by decide) C09x.accept C09x.leafNoCh r.1 r.2 h⟩

/-- idempotence in one line: `prune ∘ prune = prune` on the table component -/
theorem pruneNet_idem' (net : Net α) (root : Nat) (hw : WellOrdered net) (hr : root < net.length)
    (hacc : Net.checkSpn net root true true true = .accept)
    (hleaf : ∀ i ∈ collect net root, ∀ x, net[i]? = some x → x.kind = .leaf → x.ch = []) :
    ((pruneNet net root).bind (fun r => pruneNet r.1 (r.1.length - 1))).map Prod.fst
      = (pruneNet net root).map Prod.fst := by
  cases h : pruneNet net root with
  | none => rfl
  | some r =>
    simp only [Option.bind_some, Option.map_some]
    rw [pruneNet_idem net root hw hr hacc hleaf r.1 r.2 h]
    rfl

example : ((pruneNet C09x.net 9).bind (fun r => pruneNet r.1 (r.1.length - 1))).map Prod.fst
    = (pruneNet C09x.net 9).map Prod.fst :=
  pruneNet_idem' C09x.net 9 C09x.wellOrdered (by decide) C09x.accept C09x.leafNoCh

end Deeprob
