import DeeprobModel.Lemmas.PredTree
import DeeprobModel.Lemmas.MstBrute
import DeeprobModel.Spec.CltFitSpec
import Mathlib.Tactic.NormNum
import Mathlib.Tactic.IntervalCases
/-
C11 — Chow-Liu fitting: maximum-MI spanning tree with exact CPTs.

Property theorems only; each is followed by a non-vacuity `example`.
Model: `Model/CltFit.lean` (A layer), `Spec/CltFitSpec.lean` (MI weights), helper lemmas in
`Lemmas/CltFitLemmas.lean`, `Lemmas/CltNorm.lean`, `Lemmas/SpanningTree.lean`, `Lemmas/PredTree.lean`.
-/
set_option linter.unusedSimpArgs false
set_option linter.unusedVariables false

namespace Deeprob
namespace C11
open CltFit SpanTree

/-- running example: 4 rows × 3 binary variables -/
def X0 : List (List Nat) := [[1, 0, 1], [1, 1, 0], [0, 0, 1], [1, 1, 1]]

theorem X0_binary : Binary X0 := isBinary_sound (by decide)

/-! ## 1. counts and smoothing (`estimate_priors_joints`) -/

/-- **counts_incl_excl.** For 0/1 data the four vectorised cells
`n − c_j − c_i + c_ij`, `c_j − c_ij`, `c_i − c_ij`, `c_ij` (with `c = XᵀX`) are the true co-occurrence
counts `#{rows : x_i = a ∧ x_j = b}`; any field (any characteristic). -/
theorem counts_incl_excl {α : Type} [Field α] {X : List (List Nat)} (hX : Binary X)
    (i j a b : Nat) (ha : a < 2) (hb : b < 2) :
    (cell X i j a b : α) = (cnt2 X i j a b : α) :=
  cell_eq_cnt2 hX i j a b ha hb

example : (cell X0 0 1 1 0 : ℚ) = 1 ∧ cnt2 X0 0 1 1 0 = 1 :=
  ⟨by rw [counts_incl_excl X0_binary 0 1 1 0 (by omega) (by omega)]; decide +kernel, by decide⟩

/-- **priors_sum_one.** `priors[i,0] + priors[i,1] = 1` (no hypothesis at all). -/
theorem priors_sum_one {α : Type} [Field α] (X : List (List Nat)) (al : α) (i : Nat) :
    prior X al i 0 + prior X al i 1 = 1 :=
  prior_sum X al i

example : prior X0 (1/10 : ℚ) 2 0 + prior X0 (1/10 : ℚ) 2 1 = 1 := priors_sum_one _ _ _

/-- **joints_marginal.** The smoothed joints marginalise *exactly* to the smoothed priors, in both
directions, also on the corrected diagonal: `Σ_b joints[i,j,a,b] = priors[i,a]` and
`Σ_a joints[i,j,a,b] = priors[j,b]`, as soon as `n + 4α ≠ 0` — for any counts, binary data or not. -/
theorem joints_marginal {α : Type} [Field α] (X : List (List Nat)) (al : α)
    (hD : (X.length : α) + 4 * al ≠ 0) (i j a : Nat) :
    joint X al i j a 0 + joint X al i j a 1 = prior X al i a ∧
    joint X al i j 0 a + joint X al i j 1 a = prior X al j a := by
  have hD' : denom X al ≠ 0 := by unfold denom; push_cast; exact hD
  exact ⟨joint_row_sum X al hD' i j a, joint_col_sum X al hD' i j a⟩

example : joint X0 (1/10 : ℚ) 0 2 1 0 + joint X0 (1/10 : ℚ) 0 2 1 1 = prior X0 (1/10 : ℚ) 0 1 :=
  (joints_marginal X0 (1/10 : ℚ) (by norm_num [X0]) 0 2 1).1

/-- the joints tensor is symmetric: `joints[i,j,a,b] = joints[j,i,b,a]`
(the check `joints == joints.transpose([1,0,3,2])` of `compute_mutual_information` never fires) -/
theorem joints_symmetric {α : Type} [Field α] (X : List (List Nat)) (al : α) (i j a b : Nat) :
    joint X al i j a b = joint X al j i b a :=
  joint_symm X al i j a b

example : joint X0 (1/10 : ℚ) 0 2 1 0 = joint X0 (1/10 : ℚ) 2 0 0 1 := joints_symmetric _ _ _ _ _ _

section ordered
variable {α : Type} [Field α] [LinearOrder α] [IsStrictOrderedRing α]

/-- smoothed priors and off-diagonal joints in closed form (0/1 data, `α > 0`) -/
theorem priors_joints_closed_form {X : List (List Nat)} (hX : Binary X) {al : α} (hal : 0 < al) :
    (∀ i k, k < 2 → prior X al i k = ((cnt1 X i k : α) + 2 * al) / ((X.length : α) + 4 * al)) ∧
    (∀ i j a b, i ≠ j → a < 2 → b < 2 →
      joint X al i j a b = ((cnt2 X i j a b : α) + al) / ((X.length : α) + 4 * al)) :=
  ⟨fun i k hk => prior_eq hX hal i k hk, fun i j a b hij ha hb => joint_eq hX al hij a b ha hb⟩

example : prior X0 (1/10 : ℚ) 0 1 = (3 + 2 * (1/10)) / (4 + 4 * (1/10)) := by
  have := (priors_joints_closed_form X0_binary (al := (1/10 : ℚ)) (by norm_num)).1 0 1 (by omega)
  rw [this]; norm_num [X0]; decide +kernel

/-! ## 2. `compute_clt_parameters` -/

/-- **cpt_is_smoothed_conditional.** For a non-root variable `i` with parent `pa = tree[i] ≠ i`:
`params[i, l, k] = (#{x_i = k ∧ x_pa = l} + α) / (#{x_pa = l} + 2α)`. -/
theorem cpt_is_smoothed_conditional {X : List (List Nat)} (hX : Binary X) {al : α} (hal : 0 < al)
    (pred : List Int) (root : Nat) {i : Nat} (hi : i ≠ root) (hpa : paIdx pred i ≠ i)
    (l k : Nat) (hl : l < 2) (hk : k < 2) :
    cpt X al pred root i l k =
      ((cnt2 X i (paIdx pred i) k l : α) + al) / ((cnt1 X (paIdx pred i) l : α) + 2 * al) := by
  rw [cpt_eq_rawParam hX hal pred root i l k hl]
  unfold rawParam
  rw [if_neg hi, joint_eq hX al (Ne.symm hpa) k l hk hl, prior_eq hX hal _ l hl]
  have h1 : (0:α) ≤ (cnt1 X (paIdx pred i) l : α) := Nat.cast_nonneg _
  have h2 : (0:α) ≤ (X.length : α) := Nat.cast_nonneg _
  have h3 : (cnt1 X (paIdx pred i) l : α) + 2 * al ≠ 0 := by linarith
  have h4 : (X.length : α) + 4 * al ≠ 0 := by linarith
  field_simp

/-- the root rows (both `l`) are the smoothed prior `(#{x_root = k} + 2α) / (n + 4α)` -/
theorem cpt_root_is_smoothed_prior {X : List (List Nat)} (hX : Binary X) {al : α} (hal : 0 < al)
    (pred : List Int) (root : Nat) (l k : Nat) (hl : l < 2) (hk : k < 2) :
    cpt X al pred root root l k = ((cnt1 X root k : α) + 2 * al) / ((X.length : α) + 4 * al) := by
  rw [cpt_eq_rawParam hX hal pred root root l k hl]
  unfold rawParam
  rw [if_pos rfl, prior_eq hX hal root k hk]

example : cpt X0 (1/10 : ℚ) [-1, 0, 0] 0 1 1 1 = (2 + 1/10) / (3 + 2 * (1/10)) ∧
    cpt X0 (1/10 : ℚ) [-1, 0, 0] 0 0 1 1 = (3 + 2 * (1/10)) / (4 + 4 * (1/10)) := by
  constructor
  · rw [cpt_is_smoothed_conditional X0_binary (by norm_num) [-1, 0, 0] 0 (i := 1) (by omega)
      (by decide) 1 1 (by omega) (by omega)]
    have h1 : paIdx [-1, 0, 0] 1 = 0 := by decide
    rw [h1]
    have h2 : cnt2 X0 1 0 1 1 = 2 := by decide
    have h3 : cnt1 X0 0 1 = 3 := by decide
    rw [h2, h3]; norm_num
  · rw [cpt_root_is_smoothed_prior X0_binary (by norm_num) [-1, 0, 0] 0 1 1 (by omega) (by omega)]
    have h3 : cnt1 X0 0 1 = 3 := by decide
    rw [h3]; norm_num [X0]

/-- **cpt_rows_sum_one.** Every row of every table sums to one, exactly, for *any* predecessor vector and
root (tree or not), any 0/1 data and any `α > 0`. (In fact the rows already sum to one *before* the
re-normalisation `params /= params.sum(axis=2)`: `rawParam_row_sum`.) -/
theorem cpt_rows_sum_one {X : List (List Nat)} (hX : Binary X) {al : α} (hal : 0 < al)
    (pred : List Int) (root i l : Nat) (hl : l < 2) :
    cpt X al pred root i l 0 + cpt X al pred root i l 1 = 1 := by
  rw [cpt_eq_rawParam hX hal pred root i l 0 hl, cpt_eq_rawParam hX hal pred root i l 1 hl]
  exact rawParam_row_sum hX hal pred root i l hl

example : cpt X0 (1/10 : ℚ) [2, 2, -1] 2 0 1 0 + cpt X0 (1/10 : ℚ) [2, 2, -1] 2 0 1 1 = 1 :=
  cpt_rows_sum_one X0_binary (by norm_num) _ _ _ _ (by omega)

/-- **cpt_pos.** Every table entry is strictly positive (so `np.log(params)` is finite). -/
theorem cpt_pos {X : List (List Nat)} (hX : Binary X) {al : α} (hal : 0 < al)
    (pred : List Int) (root : Nat) (i : Nat) (hpa : i = root ∨ paIdx pred i ≠ i)
    (l k : Nat) (hl : l < 2) (hk : k < 2) : 0 < cpt X al pred root i l k := by
  have h2 : (0:α) ≤ (X.length : α) := Nat.cast_nonneg _
  by_cases hi : i = root
  · subst hi
    rw [cpt_root_is_smoothed_prior hX hal pred i l k hl hk]
    have h1 : (0:α) ≤ (cnt1 X i k : α) := Nat.cast_nonneg _
    apply div_pos <;> linarith
  · have hpa' := hpa.resolve_left hi
    rw [cpt_is_smoothed_conditional hX hal pred root hi hpa' l k hl hk]
    have h1 : (0:α) ≤ (cnt1 X (paIdx pred i) l : α) := Nat.cast_nonneg _
    have h3 : (0:α) ≤ (cnt2 X i (paIdx pred i) k l : α) := Nat.cast_nonneg _
    apply div_pos <;> linarith

example : 0 < cpt X0 (1/10 : ℚ) [2, 2, -1] 2 0 1 0 :=
  cpt_pos X0_binary (by norm_num) _ _ _ (Or.inr (by decide)) _ _ (by omega) (by omega)

/-- on a rooted spanning tree all `n·2·2` entries are positive and every row sums to one -/
theorem cpt_tree_valid {X : List (List Nat)} (hX : Binary X) {al : α} (hal : 0 < al)
    {pred : List Int} {root : Nat} (hT : isRootedSpanningTree pred root = true) :
    ∀ i, i < pred.length → ∀ l, l < 2 →
      (∀ k, k < 2 → 0 < cpt X al pred root i l k) ∧
      cpt X al pred root i l 0 + cpt X al pred root i l 1 = 1 := by
  intro i hi l hl
  refine ⟨fun k hk => cpt_pos hX hal pred root i ?_ l k hl hk, cpt_rows_sum_one hX hal pred root i l hl⟩
  by_cases hir : i = root
  · exact Or.inl hir
  · obtain ⟨p, _, hne, _, hpa⟩ := parent_of_isRST hT hi hir
    exact Or.inr (hpa ▸ hne)

example : isRootedSpanningTree [2, 2, -1] 2 = true := by decide

end ordered

/-! ## 3. spanning tree and optimality certificate -/

/-- **isRootedSpanningTree_sound.** The Boolean check means: `root` is a valid index and is the only `-1`
entry (`Clt.rootOf`), every other vertex has an in-range parent different from itself, and the undirected
edge set `{ {i, pred[i]} : i ≠ root }` is a spanning tree of the `n` vertices (connected, `≤ n-1` edges —
equivalently Mathlib's `SimpleGraph.IsTree`: `SpanTree.IsSpanTree.isTree`, `SpanTree.isSpanTree_of_isTree`). -/
theorem isRootedSpanningTree_sound {pred : List Int} {root : Nat}
    (hT : isRootedSpanningTree pred root = true) :
    root < pred.length ∧ Clt.rootOf pred = some root ∧
    (∀ i, i < pred.length → i ≠ root → ∃ p, parent pred i = some p ∧ p ≠ i ∧ p < pred.length) ∧
    IsSpanTree (predEdges pred.length pred root) := by
  refine ⟨((isRST_iff pred root).mp hT).1, rootOf_of_isRST hT, ?_, predEdges_isSpanTree hT rfl⟩
  intro i hi hir
  obtain ⟨p, h1, h2, h3, _⟩ := parent_of_isRST hT hi hir
  exact ⟨p, h1, h2, h3⟩

example : isRootedSpanningTree [3, 3, 0, -1, 2] 3 = true := by decide

section weights
variable {α : Type} [AddCommMonoid α] [LinearOrder α] [IsOrderedAddMonoid α]

omit [IsOrderedAddMonoid α] in
/-- **cycleOK_sound** (Prop meaning of the Boolean certificate): every non-tree edge `{u,v}` is joined
inside the tree by a walk all of whose edges weigh at least `w u v`. -/
theorem cycleOK_sound (w : Nat → Nat → α) (hs : ∀ a b, w a b = w b a) {pred : List Int} {root : Nat}
    (hT : isRootedSpanningTree pred root = true) (hc : cycleOK w pred = true) :
    CycleProp (symW w hs pred.length) (predEdges pred.length pred root) :=
  CltFit.cycleOK_sound w hs hT rfl hc

/-- **cycleOK_max** (maximum spanning tree ⇐ cycle property; exchange argument, unbounded `n`).
If `pred` is a rooted spanning tree passing the `cycleOK` certificate for the symmetric weights `w`, then
**every** spanning tree on the same vertices — every connected edge set `T'` with at most `n-1` edges — has
total weight `≤ treeWeight w pred`; in particular every other predecessor vector that encodes a rooted
spanning tree (any root). -/
theorem cycleOK_max (w : Nat → Nat → α) (hs : ∀ a b, w a b = w b a) {pred : List Int} {root : Nat}
    (hT : isRootedSpanningTree pred root = true) (hc : cycleOK w pred = true) :
    (∀ T' : Finset (Sym2 (Fin pred.length)), IsSpanTree T' →
        ∑ e ∈ T', symW w hs pred.length e ≤ treeWeight w pred) ∧
    (∀ (pred' : List Int) (root' : Nat), pred'.length = pred.length →
        isRootedSpanningTree pred' root' = true → treeWeight w pred' ≤ treeWeight w pred) :=
  ⟨cycleOK_max_edges w hs hT rfl hc, cycleOK_max_pred w hs hT hc⟩

/-- what the driver actually runs: the checks on `symMax w` (the undirected weights SciPy's Kruskal sees) need
no symmetry assumption on the shipped matrix at all -/
theorem cycleOK_max_symMax (w : Nat → Nat → α) {pred : List Int} {root : Nat}
    (hT : isRootedSpanningTree pred root = true) (hc : cycleOK (symMax w) pred = true) :
    ∀ (pred' : List Int) (root' : Nat), pred'.length = pred.length →
      isRootedSpanningTree pred' root' = true →
      treeWeight (symMax w) pred' ≤ treeWeight (symMax w) pred :=
  (cycleOK_max (symMax w) (symMax_symm w) hT hc).2

/-- the same bound against every Mathlib tree (`SimpleGraph.IsTree`) on the `n` vertices -/
theorem cycleOK_max_simpleGraph (w : Nat → Nat → α) (hs : ∀ a b, w a b = w b a) {pred : List Int}
    {root : Nat} (hT : isRootedSpanningTree pred root = true) (hc : cycleOK w pred = true)
    (G : SimpleGraph (Fin pred.length)) [DecidableRel G.Adj] (hG : G.IsTree) :
    ∑ e ∈ G.edgeFinset, symW w hs pred.length e ≤ treeWeight w pred :=
  (cycleOK_max w hs hT hc).1 _ (isSpanTree_of_isTree G hG)

/-- example weights on 5 vertices, `w i j = i + j`: the star centred at the largest vertex is maximal
(weight 22), the path 0-1-2-3-4 weighs 16 -/
def w0 : Nat → Nat → ℤ := fun i j => (i + j : Nat)

example : isRootedSpanningTree [4, 4, 4, 4, -1] 4 = true ∧ cycleOK w0 [4, 4, 4, 4, -1] = true ∧
    (∀ a b, w0 a b = w0 b a) ∧ isRootedSpanningTree [1, 2, 3, 4, -1] 4 = true ∧
    treeWeight w0 [1, 2, 3, 4, -1] = 16 ∧ treeWeight w0 [4, 4, 4, 4, -1] = 22 ∧
    cycleOK (symMax w0) [4, 4, 4, 4, -1] = true := by
  refine ⟨by decide, by decide +kernel, fun a b => by simp [w0, Nat.add_comm], by decide,
    by decide +kernel, by decide +kernel, by decide +kernel⟩

/-- Mathlib trees on `Fin 5` exist (a spanning tree of the complete graph), so the quantifier is inhabited -/
example : ∃ (G : SimpleGraph (Fin 5)) (_ : DecidableRel G.Adj), G.IsTree := by
  classical
  obtain ⟨T, _, hT⟩ := (SimpleGraph.connected_top (V := Fin 5)).exists_isTree_le
  exact ⟨T, inferInstance, hT⟩

end weights

/-- **mstBrute_sound.** The driver's exhaustive cross-check value dominates every predecessor vector rooted
at vertex 0 that encodes a spanning tree (every labelled tree has exactly one such vector). Together with
`cycleOK_max`: when both checks pass, `mstBrute = some (treeWeight w pred')` for the re-rooted optimum. -/
theorem mstBrute_sound {α : Type} [LinearOrder α] [Zero α] [Add α] (w : Nat → Nat → α) {pred : List Int}
    (hT : isRootedSpanningTree pred 0 = true) :
    ∃ b, mstBrute w pred.length = some b ∧ treeWeight w pred ≤ b :=
  mstBrute_ge w hT

example : isRootedSpanningTree [-1, 0, 1, 2, 3] 0 = true ∧ mstBrute w0 5 = some 22 :=
  ⟨by decide, by decide +kernel⟩

/-- **fit_tree_maximal.** The statement of C11 about the structure: with the mutual-information weights of
`compute_mutual_information` under the smoothed estimates (any field with a `log`), a returned tree that
passes the two checks has maximal total mutual information among all spanning trees. -/
theorem fit_tree_maximal {F : Type} [Field F] [LinearOrder F] [IsStrictOrderedRing F] (E : ExpLog F)
    (X : List (List Nat)) (al : F) {pred : List Int} {root : Nat}
    (hT : isRootedSpanningTree pred root = true) (hc : cycleOK (mutualInfo E X al) pred = true) :
    ∀ (pred' : List Int) (root' : Nat), pred'.length = pred.length →
      isRootedSpanningTree pred' root' = true →
      treeWeight (mutualInfo E X al) pred' ≤ treeWeight (mutualInfo E X al) pred :=
  (cycleOK_max (mutualInfo E X al) (mutualInfo_symm E X al) hT hc).2

example {F : Type} [Field F] [LinearOrder F] [IsStrictOrderedRing F] (E : ExpLog F) (X : List (List Nat))
    (al : F) : isRootedSpanningTree [-1, 0] 0 = true ∧ cycleOK (mutualInfo E X al) [-1, 0] = true :=
  ⟨by decide, by
    have : cyclePairs [-1, 0] = [] := by decide
    simp [cycleOK, this]⟩

/-! ## 4. the fitted tree is a normalised distribution -/

/-- **clt_normalised.** Any CLT whose predecessor vector is a rooted spanning tree and whose table rows sum
to one evaluates the all-missing evidence (`message_passing` with every entry NaN) to one — any
commutative semiring. -/
theorem clt_normalised {α : Type} [CommSemiring α] (scope : List Nat) {pred : List Int} {root : Nat}
    (cpt : List (List (List α))) (hT : isRootedSpanningTree pred root = true)
    (hrow : ∀ i, i < pred.length → ∀ l, l < 2 → Clt.cptAt cpt i l 0 + Clt.cptAt cpt i l 1 = 1) :
    Clt.value scope pred cpt (fun _ => none) = 1 :=
  Clt.value_none_one scope pred cpt root (rootOf_of_isRST hT) ((isRST_iff pred root).mp hT).1 hrow

example : Clt.value [0, 1, 2] [-1, 0, 0] [[[(1/2 : ℚ), 1/2], [1/2, 1/2]], [[1/3, 2/3], [1/4, 3/4]],
    [[1, 0], [1/5, 4/5]]] (fun _ => none) = 1 := by
  apply clt_normalised (root := 0) _ _ (by decide)
  intro i hi l hl
  have hi' : i < 3 := hi
  interval_cases i <;> interval_cases l <;> norm_num [Clt.cptAt]

/-- **fit_normalised.** Whatever the 0/1 data, `α > 0`, the root and the spanning tree found, the fitted
CLT (`cptTable` = exp of the stored `params`) is normalised. -/
theorem fit_normalised {α : Type} [Field α] [LinearOrder α] [IsStrictOrderedRing α]
    {X : List (List Nat)} (hX : Binary X) {al : α} (hal : 0 < al) (scope : List Nat)
    {pred : List Int} {root : Nat} (hT : isRootedSpanningTree pred root = true) :
    Clt.value scope pred (cptTable X al pred root) (fun _ => none) = 1 := by
  apply clt_normalised scope _ hT
  intro i hi l hl
  rw [cptAt_cptTable X al pred root hi hl (by omega), cptAt_cptTable X al pred root hi hl (by omega)]
  exact cpt_rows_sum_one hX hal pred root i l hl

example : Clt.value [5, 3, 8] [2, 2, -1] (cptTable X0 (1/10 : ℚ) [2, 2, -1] 2) (fun _ => none) = 1 :=
  fit_normalised X0_binary (by norm_num) _ (by decide)

end C11
end Deeprob
