import DeeprobModel.Lemmas.TopDownExample
set_option linter.unusedSimpArgs false
set_option linter.unusedVariables false
set_option linter.unusedSectionVars false
set_option linter.unnecessarySeqFocus false
/-
C06 (circuit part) — "An MPE query returns its input with every missing entry replaced by a value of
that variable's domain and every observed entry unchanged … for a general circuit it is the
completion reached by following, at each sum node, the child with the largest weighted evidence
likelihood and filling leaves with their modes, and it has positive probability whenever the
evidence has."

`mpeDescent e c` (Model/TopDown.lean) is that completion, defined as the code computes it
(`eval_top_down` with `sum_mpe` / `leaf_mpe`).  Witness of every example: `TCirc.exT`
(3 variables, domains 2,3,2, root = 3-child sum), evidence `exE = [·, 0, ·]`.
-/
namespace Deeprob
open TD
namespace C06
open TCirc

section general
variable {α : Type} [CommSemiring α] [LinearOrder α] [IsStrictOrderedRing α]

/-- every entry of the MPE row is the input entry, or the input entry was missing and now holds a
value of the variable's domain (needs only that each leaf's `mode` obeys the leaf contract). -/
theorem mpe_entrywise (dom : Nat → Nat) (c : TCirc α) (hm : ModeOK dom c) (e : Ev) (v : Nat) :
    FillsVar dom e (mpeDescent e c) v :=
  pass_step (mpeBr e) mpeFill dom v c hm [] e

example : ∀ v, FillsVar exDom exE (mpeDescent exE exT) v := mpe_entrywise exDom exT exT_ok.2.1 exE

/-- **observed entries are unchanged** -/
theorem mpe_keeps_observed (dom : Nat → Nat) (c : TCirc α) (hm : ModeOK dom c) (e : Ev) :
    ∀ v, e v ≠ none → mpeDescent e c v = e v :=
  fun v h => (mpe_entrywise dom c hm e v).keeps h

example : mpeDescent exE exT 1 = some 0 :=
  mpe_keeps_observed exDom exT exT_ok.2.1 exE 1 (by simp [exE, Ev.ofList])

/-- **missing entries are replaced by domain values only** -/
theorem mpe_in_domain (dom : Nat → Nat) (c : TCirc α) (hm : ModeOK dom c) (e : Ev) :
    ∀ v k, mpeDescent e c v = some k → e v = some k ∨ (e v = none ∧ k < dom v) := by
  intro v k h
  rcases mpe_entrywise dom c hm e v with h1 | ⟨h1, k', hk', h2⟩
  · exact Or.inl (h1 ▸ h)
  · rw [h2] at h; cases h; exact Or.inr ⟨h1, hk'⟩

example : ∀ v k, mpeDescent exE exT v = some k → exE v = some k ∨ (exE v = none ∧ k < exDom v) :=
  mpe_in_domain exDom exT exT_ok.2.1 exE

/-- **every variable of the root scope gets a value** -/
theorem mpe_fills_scope (dom : Nat → Nat) (c : TCirc α) (hv : Circ.Valid dom c.toCirc) (hm : ModeOK dom c) (e : Ev) :
    ∀ v ∈ c.scope, mpeDescent e c v ≠ none :=
  fun v h => pass_fills (mpeBr e) mpeFill dom v c hv (mpeBr_ok dom e c hv) hm [] e h

example : ∀ v ∈ [0, 1, 2], mpeDescent exE exT v ≠ none :=
  mpe_fills_scope exDom exT exT_ok.1 exT_ok.2.1 exE

/-- **nothing outside the root scope is touched** -/
theorem mpe_outside_scope_unchanged (dom : Nat → Nat) (c : TCirc α) (hv : Circ.Valid dom c.toCirc) (e : Ev) :
    ∀ v, v ∉ c.scope → mpeDescent e c v = e v :=
  fun v h => pass_outside (mpeBr e) mpeFill dom v c hv [] e h

example : mpeDescent exE exT 7 = exE 7 :=
  mpe_outside_scope_unchanged exDom exT exT_ok.1 exE 7 (by simp [exT, scope])

/-- the MPE row is a completion of the evidence on the root scope -/
theorem mpe_completes (dom : Nat → Nat) (c : TCirc α) (hv : Circ.Valid dom c.toCirc) (hm : ModeOK dom c) (e : Ev) :
    Completes c.scope e (mpeDescent e c) :=
  ⟨mpe_keeps_observed dom c hm e, mpe_fills_scope dom c hv hm e⟩

example : Completes exT.scope exE (mpeDescent exE exT) := mpe_completes exDom exT exT_ok.1 exT_ok.2.1 exE

/-- **one leaf per variable.** In the sub-circuit induced by ANY choice `br` of one child per sum node
(for every path `p` from which the visit is started) the scopes of the reached leaves are pairwise
disjoint and their union is the scope of the root: the leaf writes of one pass never overlap and
cover the whole scope. -/
theorem topdown_one_leaf_per_var (dom : Nat → Nat) (c : TCirc α) (hv : Circ.Valid dom c.toCirc)
    (br : List Nat → List α → List (TCirc α) → Nat) (hb : BrOK br c) (p : List Nat) :
    (reached br p c).Pairwise List.Disjoint ∧ scopeEq (reached br p c).flatten c.scope :=
  reached_partition br dom c hv hb p

example : (reached (mpeBr exE) [] exT).Pairwise List.Disjoint ∧ scopeEq (reached (mpeBr exE) [] exT).flatten exT.scope :=
  topdown_one_leaf_per_var exDom exT exT_ok.1 (mpeBr exE) (mpeBr_ok exDom exE exT exT_ok.1) []

/-- the same with `∃!`: every variable of the root scope lies in the scope of exactly one reached leaf
(`i` = position of that leaf in visiting order) -/
theorem topdown_one_leaf_per_var_unique (dom : Nat → Nat) (c : TCirc α) (hv : Circ.Valid dom c.toCirc)
    (br : List Nat → List α → List (TCirc α) → Nat) (hb : BrOK br c) (p : List Nat) :
    ∀ v ∈ c.scope, ∃! i : Nat, ∃ s : List Nat, (reached br p c)[i]? = some s ∧ v ∈ s := by
  intro v hvs
  obtain ⟨hpw, heq⟩ := reached_partition br dom c hv hb p
  obtain ⟨s, hs, hvs'⟩ := List.mem_flatten.1 ((heq v).2 hvs)
  obtain ⟨i, hi⟩ := List.getElem?_of_mem hs
  refine ⟨i, ⟨s, hi, hvs'⟩, ?_⟩
  rintro j ⟨t, hj, hvt⟩
  by_contra hne
  have hil : i < (reached br p c).length := by
    rcases Nat.lt_or_ge i (reached br p c).length with h | h
    · exact h
    · rw [List.getElem?_eq_none h] at hi; cases hi
  have hjl : j < (reached br p c).length := by
    rcases Nat.lt_or_ge j (reached br p c).length with h | h
    · exact h
    · rw [List.getElem?_eq_none h] at hj; cases hj
  rw [List.getElem?_eq_getElem hil] at hi
  rw [List.getElem?_eq_getElem hjl] at hj
  cases hi; cases hj
  rw [List.pairwise_iff_getElem] at hpw
  rcases Nat.lt_or_gt_of_ne hne with h | h
  · exact hpw j i hjl hil h hvt hvs'
  · exact hpw i j hil hjl h hvs' hvt

example : ∀ v ∈ exT.scope, ∃! i : Nat, ∃ s : List Nat, (reached (mpeBr exE) [] exT)[i]? = some s ∧ v ∈ s :=
  topdown_one_leaf_per_var_unique exDom exT exT_ok.1 (mpeBr exE) (mpeBr_ok exDom exE exT exT_ok.1) []

/-- the arg-max rule of `sum_mpe` is a legal choice on every valid circuit -/
theorem mpe_choice_legal (dom : Nat → Nat) (c : TCirc α) (hv : Circ.Valid dom c.toCirc) (e : Ev) : BrOK (mpeBr e) c :=
  mpeBr_ok dom e c hv

example : BrOK (mpeBr exE) exT := mpe_choice_legal exDom exT exT_ok.1 exE

/-- **the MPE completion has positive value whenever the evidence has** (weights and leaf values
non-negative; each leaf's mode positive whenever the leaf's evidence value is) -/
theorem mpe_positive (dom : Nat → Nat) (c : TCirc α) (hv : Circ.Valid dom c.toCirc) (hn : NonNeg c) (hl : LeafPos c)
    (e : Ev) (h : 0 < eval e c) : 0 < eval (mpeDescent e c) c :=
  pass_mpe_pos dom e c hv hn hl [] e (fun _ _ => rfl) h

example : 0 < eval (mpeDescent exE exT) exT :=
  mpe_positive exDom exT exT_ok.1 exT_ok.2.2.1 exT_ok.2.2.2.1 exE (by rw [exT_eval_e]; norm_num)

end general

/-! ### leaf facts: the table leaves satisfy the leaf hypotheses -/
section leaves
variable {α : Type} [CommSemiring α] [LinearOrder α] [IsStrictOrderedRing α]

/-- Categorical leaf (`mode` = first arg-max of the table, `Categorical.mpe`) -/
theorem cat_leaf_ok (dom : Nat → Nat) (v : Nat) (tbl : List α) (hl : tbl.length = dom v) (hs : tsum tbl = 1)
    (h0 : ∀ x ∈ tbl, 0 ≤ x) :
    Circ.Valid dom (catT v tbl).toCirc ∧ ModeOK dom (catT v tbl) ∧ NonNeg (catT v tbl) ∧ LeafPos (catT v tbl) ∧
      LeafExact (catT v tbl) := catT_ok dom v tbl hl hs h0

example : ModeOK exDom (catT 1 [(1:Rat)/3, 1/3, 1/3]) :=
  (cat_leaf_ok exDom 1 [(1:Rat)/3, 1/3, 1/3] (by simp [exDom]) (by norm_num [tsum])
    (by intro x hx; simp at hx; rcases hx with rfl | rfl | rfl <;> norm_num)).2.1

/-- Bernoulli leaf (`mode` = `0 if p < 0.5 else 1`, `Bernoulli.mpe`) -/
theorem bern_leaf_ok (dom : Nat → Nat) (v : Nat) (tbl : List α) (hl : tbl.length = 2) (hd : dom v = 2)
    (hs : tsum tbl = 1) (h0 : ∀ x ∈ tbl, 0 ≤ x) :
    Circ.Valid dom (bernT v tbl).toCirc ∧ ModeOK dom (bernT v tbl) ∧ NonNeg (bernT v tbl) ∧ LeafPos (bernT v tbl) ∧
      LeafExact (bernT v tbl) := bernT_ok dom v tbl hl hd hs h0

example : ModeOK exDom (bernT 0 [(1:Rat)/2, 1/2]) :=
  (bern_leaf_ok exDom 0 [(1:Rat)/2, 1/2] rfl rfl (by norm_num [tsum])
    (by intro x hx; simp at hx; rcases hx with rfl | rfl <;> norm_num)).2.1

/-- a tie of a Categorical table goes to the first category … -/
example : catMode 0 [(1:Rat)/2, 1/2] (fun _ => none) 0 = some 0 := by
  simp [catMode, Ev.set, argmax, argmaxAux]
/-- … a tied Bernoulli (`p = 1/2`) goes to 1, as coded -/
example : bernMode 0 [(1:Rat)/2, 1/2] (fun _ => none) 0 = some 1 := by
  simp [bernMode, Ev.set, bernIdx]

end leaves

/-- the concrete MPE row of the witness: `[·,0,·] ↦ [1,0,1]` -/
example : (List.range 4).map (mpeDescent exE exT) = [some 1, some 0, some 1, none] := exT_mpe

end C06
end Deeprob
