import DeeprobModel.Oblig.Struct5Eval
import DeeprobModel.Props.RealWitnesses
/-
END-TO-END corollaries about the LOOPS of the serial evaluation passes as the translator extracts them (wave 5, (c)): the
main theorems of `Props/E2ECirc.lean` (`e2e_eval_forward`, `e2e_eval_forward_marginal`, `e2e_eval_forward_all_missing`,
`e2e_eval_forward_normalised`, `e2e_log_likelihood(_log)`, `e2e_moment_table`) restated with the GENERATED loop
(`Gen.S5evalUpLoop` around `Gen.S5evalUpTask`, `Gen.S5evalUp`, `Gen.S5momentLoop`: `Struct5E.upLoop`, `genEvalUp`, `genMoment`)
in place of the hand-written `genTable` / `llTable` / `moGenTable`.  Composed: `Struct5E.genTable_as_coded`,
`llTable_as_coded`, `moGenTable_as_coded`, `evalUp_as_coded`, `moment_as_coded` with the theorems named above.

Explicit hypotheses that no theorem produces here: `hord` — the reverse of the visiting order is the storage order of the
table (the harness exports the table as `reversed(topological_order(root))`; that the generated `topological_order` is a
topological order is `E2ETopo.e2e_topo_eq` + `Topo.kahn_topological`); `ht` — the initial table (`np.empty`) has one row
per node; its CONTENT is arbitrary.
-/
set_option linter.unusedSectionVars false
set_option linter.unusedSimpArgs false
set_option linter.unusedVariables false
namespace Deeprob.E2EEval
open Deeprob Deeprob.E2E Deeprob.Struct5E

section
variable {F : Type} [Field F] [LinearOrder F] [IsStrictOrderedRing F]

/-- **`e2e_eval_forward_loop`** (C01): the table the GENERATED serial loop of `eval_bottom_up` fills (from any initial
content) holds, at every node of a children-first table with table leaves, the mixture / product semantics of that node's
sub-circuit, for every evidence row -/
theorem e2e_eval_forward_loop (net : Net F) (leaves : Nat → SrcLeaf F) (dens : List F) (e : Ev)
    (hw : WellOrdered net) (hl : TableLeaves net leaves)
    (ordering : List Nat) (hord : ordering.reverse = List.range net.length) (t0 : List F) (ht : t0.length = net.length)
    (i : Nat) (hi : i < net.length) :
    (upLoop net (likLeaf e leaves) (genNodeFunc net) ordering t0).getD i 0 = Circ.eval e (toTree net dens (i+1) i) := by
  rw [genTable_as_coded e net leaves hw ordering hord t0 ht]
  exact e2e_eval_forward net leaves dens e hw hl i hi

/-- **`e2e_eval_bottom_up`** (C01): the GENERATED serial path of `eval_bottom_up` as a whole (`Gen.S5evalUp`: ordering,
allocation, loop, returned entry) returns the semantic value of the root's sub-circuit -/
theorem e2e_eval_bottom_up (net : Net F) (leaves : Nat → SrcLeaf F) (dens : List F) (e : Ev)
    (hw : WellOrdered net) (hl : TableLeaves net leaves)
    (topo : Nat → Option (List Nat)) (empty : Nat → List F) (hempty : ∀ k, (empty k).length = k)
    (root : Nat) (hr : root < net.length) (ordering : List Nat) (ho : topo root = some ordering)
    (hord : ordering.reverse = List.range net.length) :
    (genEvalUp net (likLeaf e leaves) (genNodeFunc net) topo empty root).map Prod.fst
      = some (Circ.eval e (toTree net dens (root+1) root)) := by
  rw [evalUp_as_coded net hw _ _ topo empty hempty root ordering ho hord]
  simp only [Option.map_some]
  congr 1
  exact e2e_eval_forward net leaves dens e hw hl root hr

/-- **`e2e_eval_forward_marginal_loop`** (C02): at the root of a valid table, on a row with missing entries, the value the
GENERATED loop stores is the sum, over every completion of the missing entries of the root scope, of the values the
GENERATED loop stores on the completed rows -/
theorem e2e_eval_forward_marginal_loop (dom : Nat → Nat) (net : Net F) (leaves : Nat → SrcLeaf F) (dens : List F)
    (hw : WellOrdered net) (hl : TableLeaves net leaves)
    (hok : ∀ i (x : NNode F), net[i]? = some x → NodeOK dom net dens i x)
    (ordering : List Nat) (hord : ordering.reverse = List.range net.length) (t0 : List F) (ht : t0.length = net.length)
    (root : Nat) (hr : root < net.length) (e : Ev) :
    (upLoop net (likLeaf e leaves) (genNodeFunc net) ordering t0).getD root 0
      = sumOver dom (scopeOf net root) e
          (fun e' => (upLoop net (likLeaf e' leaves) (genNodeFunc net) ordering t0).getD root 0) := by
  rw [genTable_as_coded e net leaves hw ordering hord t0 ht,
    e2e_eval_forward_marginal dom net leaves dens hw hl hok root hr e]
  apply sumOver_congr; intro e' _
  rw [genTable_as_coded e' net leaves hw ordering hord t0 ht]

/-- **`e2e_eval_forward_all_missing_loop`** (C02): with nothing observed the GENERATED loop stores 1 at the root -/
theorem e2e_eval_forward_all_missing_loop (dom : Nat → Nat) (net : Net F) (leaves : Nat → SrcLeaf F) (dens : List F)
    (hw : WellOrdered net) (hl : TableLeaves net leaves)
    (hok : ∀ i (x : NNode F), net[i]? = some x → NodeOK dom net dens i x)
    (hnw : NetNormW net) (hln : NetLeafNorm net dens)
    (ordering : List Nat) (hord : ordering.reverse = List.range net.length) (t0 : List F) (ht : t0.length = net.length)
    (root : Nat) (hr : root < net.length) :
    (upLoop net (likLeaf (fun _ => none) leaves) (genNodeFunc net) ordering t0).getD root 0 = 1 := by
  rw [genTable_as_coded _ net leaves hw ordering hord t0 ht]
  exact e2e_eval_forward_all_missing dom net leaves dens hw hl hok hnw hln root hr

/-- **`e2e_eval_forward_normalised_loop`** (C01): the complete-evidence values the GENERATED loop stores at the root sum to
one over the domain of the root scope -/
theorem e2e_eval_forward_normalised_loop (dom : Nat → Nat) (net : Net F) (leaves : Nat → SrcLeaf F) (dens : List F)
    (hw : WellOrdered net) (hl : TableLeaves net leaves)
    (hok : ∀ i (x : NNode F), net[i]? = some x → NodeOK dom net dens i x)
    (hnw : NetNormW net) (hln : NetLeafNorm net dens)
    (ordering : List Nat) (hord : ordering.reverse = List.range net.length) (t0 : List F) (ht : t0.length = net.length)
    (root : Nat) (hr : root < net.length) :
    sumOver dom (scopeOf net root) (fun _ => none)
      (fun x => (upLoop net (likLeaf x leaves) (genNodeFunc net) ordering t0).getD root 0) = 1 := by
  rw [← e2e_eval_forward_normalised dom net leaves dens hw hl hok hnw hln root hr]
  apply sumOver_congr; intro e' _
  rw [genTable_as_coded e' net leaves hw ordering hord t0 ht]

/-- **`e2e_log_likelihood_loop`** (C01, log domain): under the hypotheses of `e2e_log_likelihood_log` (positive node values,
inactive floor) the GENERATED loop run with the generated log-domain leaf / node functions stores the logarithm of the
semantic value of every node, and `exp` of it is that value -/
theorem e2e_log_likelihood_loop (E : ExpLog F) (net : Net F) (leaves : Nat → SrcLeaf F) (dens : List F) (e : Ev)
    (hw : WellOrdered net) (hl : TableLeaves net leaves)
    (hpos : ∀ i, i < net.length → 0 < Circ.eval e (toTree net dens (i+1) i))
    (hfloor : ∀ i, i < net.length → (-1000000 : F) ≤ E.log (Circ.eval e (toTree net dens (i+1) i)))
    (ordering : List Nat) (hord : ordering.reverse = List.range net.length) (t0 : List F) (ht : t0.length = net.length)
    (i : Nat) (hi : i < net.length) :
    (upLoop net (llLeaf E e leaves) (llNodeFunc E net) ordering t0).getD i 0 = E.log (Circ.eval e (toTree net dens (i+1) i)) ∧
    E.exp ((upLoop net (llLeaf E e leaves) (llNodeFunc E net) ordering t0).getD i 0) = Circ.eval e (toTree net dens (i+1) i) := by
  rw [llTable_as_coded E e net leaves hw ordering hord t0 ht]
  exact ⟨e2e_log_likelihood_log E net leaves dens e hw hl hpos hfloor i hi,
    e2e_log_likelihood E net leaves dens e hw hl hpos hfloor i hi⟩

/-- **`e2e_moment_loop`** (C19): the GENERATED pass of `moments.moment` (`Gen.S5momentLoop`: the generated serial path of
`eval_bottom_up` with `leaf_func = leaf_moment`, `node_func = node_likelihood`) returns, for a variable `v` of the root
scope and an order `k ≥ 0`, the exact raw moment `E[X_v^k]` — under the node-by-node hypotheses of `e2e_moment_table` -/
theorem e2e_moment_loop (dom : Nat → Nat) (k : Nat) (v : Nat) (dens : List F) (moms : Nat → List F) (net : Net F)
    (hw : WellOrdered net) (hok : ∀ i (x : NNode F), net[i]? = some x → NodeOK dom net dens i x)
    (hnw : NetNormW net) (hln : NetLeafNorm net dens) (hm : MoLeafExact dom k v net dens moms)
    (topo : Nat → Option (List Nat)) (empty : Nat → List F) (hempty : ∀ j, (empty j).length = j)
    (root : Nat) (hr : root < net.length) (hin : v ∈ scopeOf net root)
    (ordering : List Nat) (ho : topo root = some ordering) (hord : ordering.reverse = List.range net.length) :
    (genMoment v net moms topo empty root (k : Int)).map Prod.fst
      = some (momentSpec dom k v (toTree net dens (root+1) root)) := by
  rw [moment_as_coded v net hw moms topo empty hempty root (k : Int) ordering ho hord]
  simp only [Option.map_some, Int.toNat_natCast]
  congr 1
  exact e2e_moment_table dom k v dens moms net hw hok hnw hln hm root hr hin

end

/-! ### non-vacuity -/

/-- the shared-leaf DAG `exNet`, visiting order `5, 4, 3, 2, 1, 0`, initial table full of `7`s: the marginal on the row
`(1, NaN)` is the sum of the two complete rows -/
example : (upLoop E2E.exNet (likLeaf (Ev.ofList [some 1, none]) E2E.exLeaves) (genNodeFunc E2E.exNet) [5, 4, 3, 2, 1, 0] [7, 7, 7, 7, 7, 7]).getD 5 0
    = sumOver (fun _ => 2) (scopeOf E2E.exNet 5) (Ev.ofList [some 1, none])
        (fun e' => (upLoop E2E.exNet (likLeaf e' E2E.exLeaves) (genNodeFunc E2E.exNet) [5, 4, 3, 2, 1, 0] [7, 7, 7, 7, 7, 7]).getD 5 0) :=
  e2e_eval_forward_marginal_loop (fun _ => 2) E2E.exNet E2E.exLeaves [] E2E.exNet_wellOrdered E2E.exNet_tableLeaves E2E.exNet_ok _ (by decide) _ rfl
    5 (by decide) _

example (e : Ev) : (upLoop E2E.exNet (likLeaf e E2E.exLeaves) (genNodeFunc E2E.exNet) [5, 4, 3, 2, 1, 0] [7, 7, 7, 7, 7, 7]).getD 5 0
    = Circ.eval e (toTree E2E.exNet [] 6 5) :=
  e2e_eval_forward_loop E2E.exNet E2E.exLeaves [] e E2E.exNet_wellOrdered E2E.exNet_tableLeaves _ (by decide) _ rfl 5 (by decide)

example : (genEvalUp E2E.exNet (likLeaf (Ev.ofList [some 1, none]) E2E.exLeaves) (genNodeFunc E2E.exNet) (fun _ => some [5, 4, 3, 2, 1, 0])
    (fun k => List.replicate k 7) 5).map Prod.fst = some (3/4) := by decide +kernel

example : (upLoop E2E.exNet (likLeaf (fun _ => none) E2E.exLeaves) (genNodeFunc E2E.exNet) [5, 4, 3, 2, 1, 0] [7, 7, 7, 7, 7, 7]).getD 5 0 = 1 :=
  e2e_eval_forward_all_missing_loop (fun _ => 2) E2E.exNet E2E.exLeaves [] E2E.exNet_wellOrdered E2E.exNet_tableLeaves E2E.exNet_ok E2E.exNet_normW
    E2E.exNet_leafNorm _ (by decide) _ rfl 5 (by decide)

/-- log domain, over ℝ with the usual `exp` / `log` (there is no `ExpLog ℚ`): all hypotheses hold on `exNetR` and the row
`(1, 1)`; the generated loop stores `log (23/40)` at the root -/
example : (upLoop RealWitnesses.exNetR (llLeaf realExpLog RealWitnesses.exRow RealWitnesses.exLeavesR)
    (llNodeFunc realExpLog RealWitnesses.exNetR) [5, 4, 3, 2, 1, 0] [7, 7, 7, 7, 7, 7]).getD 5 0 = Real.log (23/40) := by
  rw [llTable_as_coded realExpLog _ _ _ RealWitnesses.exNetR_wellOrdered _ (by decide) _ rfl]
  exact RealWitnesses.e2e_log_likelihood_real.1

example : realExpLog.exp ((upLoop RealWitnesses.exNetR (llLeaf realExpLog RealWitnesses.exRow RealWitnesses.exLeavesR)
    (llNodeFunc realExpLog RealWitnesses.exNetR) [5, 4, 3, 2, 1, 0] [7, 7, 7, 7, 7, 7]).getD 5 0)
    = Circ.eval RealWitnesses.exRow (toTree RealWitnesses.exNetR [] 6 5) :=
  (e2e_log_likelihood_loop realExpLog RealWitnesses.exNetR RealWitnesses.exLeavesR [] RealWitnesses.exRow
    RealWitnesses.exNetR_wellOrdered RealWitnesses.exNetR_tableLeaves
    (fun i hi => lt_of_lt_of_le (by norm_num) (RealWitnesses.ll_exNetR_values i hi))
    (fun i hi => RealWitnesses.real_log_floor _ (RealWitnesses.ll_exNetR_values i hi))
    _ (by decide) _ rfl 5 (by decide)).2

/-- the moment pass on the mixture of two products of `Props/C19.lean`: every order `k`, variable 1 -/
example (k : Nat) : (genMoment 1 C19.exNet (fun _ => []) (fun _ => some [5, 4, 3, 2, 1, 0]) (fun j => List.replicate j 7) 5 (k : Int)).map
    Prod.fst = some (momentSpec C19.exDom k 1 (toTree C19.exNet [] 6 5)) :=
  e2e_moment_loop C19.exDom k 1 [] (fun _ => []) C19.exNet C19.exNet_wellOrdered moExNet_ok moExNet_normW moExNet_leafNorm
    (moExNet_leafExact k 1) _ _ (by simp) 5 (by decide) (by simp [scopeOf, C19.exNet]) _ rfl (by decide)

/-! ### the top-down contract (C06) about the GENERATED serial path of `eval_top_down` -/

section down
variable {α : Type} [CommSemiring α] [LinearOrder α]
open TCirc

/-- **`e2e_eval_top_down`** (C06): on a children-first table whose nodes satisfy the local validity conditions, run in ANY
topological visiting order that lists the root (`TopoOrd`: what `topological_order(root)` returns), the GENERATED serial path
of `eval_top_down` (`Gen.S5evalDown`: ordering, masks with the root's row set, loop of `eval_backward`, returned rows) with
`leaf_func = leaf_mpe`, `sum_func = sum_mpe` returns the tree-level descent `mpeDescent` of the unfolding of the root (shared
nodes visited once).  Ingredients: `Struct5E.evalDown_as_coded` + `C06.mpeNetOrd_refines`. -/
theorem e2e_eval_top_down (dom : Nat → Nat) (net : Net α) (dens : List α) (isBern : Nat → Bool) (hw : WellOrdered net)
    (hok : ∀ i (x : NNode α), net[i]? = some x → NodeOK dom net dens i x)
    (topo : Nat → Option (List Nat)) (root : Nat) (ordering : List Nat) (ho : topo root = some ordering)
    (hord : TopoOrd net ordering) (hroot : root ∈ ordering) (e : Ev) :
    genEvalDown e dens net isBern topo root = some (mpeDescent e (toTTree net dens isBern (root+1) root)) := by
  rw [evalDown_as_coded e dens net isBern topo root ordering ho,
    C06.mpeNetOrd_refines dom net dens isBern hw hok ordering hord root hroot e]

/-- **`e2e_eval_top_down_keeps_observed`** (C06): whatever the table, the order and the root, the row the GENERATED path
returns keeps every observed entry -/
theorem e2e_eval_top_down_keeps_observed (net : Net α) (dens : List α) (isBern : Nat → Bool)
    (topo : Nat → Option (List Nat)) (root : Nat) (e : Ev) (x : Ev)
    (hx : genEvalDown e dens net isBern topo root = some x) : ∀ v, e v ≠ none → x v = e v := by
  cases ho : topo root with
  | none => rw [evalDown_raises e dens net isBern topo root ho] at hx; cases hx
  | some ordering =>
    rw [evalDown_as_coded e dens net isBern topo root ordering ho] at hx
    cases hx
    exact C06.mpeNetOrd_keeps_observed ordering e dens net root isBern

end down

/-- non-vacuity: the 9-node DAG of `Props/C06Net.lean` (node 4 shared by two products), visited `8, 7, …, 0` -/
example (e : Ev) : genEvalDown e [] C06.exNet C06.exBern (fun _ => some [8, 7, 6, 5, 4, 3, 2, 1, 0]) 8
    = some (TCirc.mpeDescent e (toTTree C06.exNet [] C06.exBern 9 8)) :=
  e2e_eval_top_down _ C06.exNet [] C06.exBern C06.exNet_wo C06.exNet_ok _ 8 _ rfl
    (topoOrd_range_reverse C06.exNet C06.exNet_wo 9 (by decide)) (by decide) e

end Deeprob.E2EEval
