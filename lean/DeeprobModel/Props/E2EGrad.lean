import DeeprobModel.Props.C14Backward
import DeeprobModel.Oblig.Struct5Grad
set_option linter.unusedSimpArgs false
set_option linter.unusedVariables false
set_option linter.unusedSectionVars false
/-
End-to-end corollaries for the backward pass of EM (C14): the theorems of `Props/C14Backward.lean` stated about the pass ASSEMBLED FROM
THE RULES EXTRACTED from /repo/deeprob/spn/algorithms/gradient.py (`Oblig/Struct5Grad.lean: genBackward` — `Gen.S5gradRoot`,
`Gen.S5gradNode` / `Gen.S5gradAccum`, `Gen.S5gradSends` with `Gen.S5gradSum`, `Gen.S5gradProd`, at the float32 log-number carrier `LogV`),
closing the chain

    gradient.py --(tools/fragments.py `gradient.eval_backward.rules`, every run)--> Gen.S5grad*
      --(Struct5G.gradSum_as_coded, gradProd_as_coded, gradAccum_as_coded, gradRoot_as_coded, backwardC_as_coded)--> backwardC
      --(C14B.coded_grads_rel, resp_coded_exact, leaf_stat_coded_exact, resp_coded_exact_valid)--> linear-domain derivative / responsibilities.

What stays outside: the loop around the rules (`for node in nodes`, the cache as a dictionary of lists) is written out in Lean
(`genVisit`, `genBackward`) — the fragment checks its shape (iteration over the result of `topological_order(root)` itself, the guard
`node.id != root.id`, one append per child) but only the rules are generated; the visiting order is the children-first table order
(`WellOrdered`); the root has no parent (`NoParent`: `topological_order` returns `None` otherwise and `eval_backward` raises); the
operations of `LogV` are the model of float32 arithmetic next to the `-1e31` floor (tied by `demo_embackward`, entry-wise).
-/
namespace Deeprob.E2EGrad
open Deeprob Deeprob.Bwd Deeprob.LogV Deeprob.C14B Deeprob.Oblig.Struct5G

section main
variable {F : Type} [Field F] [LinearOrder F] [IsStrictOrderedRing F] [DecidableEq F]

/-- the table `eval_backward(root, lls)` returns for the row `e` when run from the GENERATED rules, `lls` being the floored logs of
the row's node values -/
abbrev genGrads (e : Ev) (dens : List F) (net : Net F) (root : Nat) : List (LogV F) :=
  genBackward net (codedLls (evalNet e dens net)) root

/-- the assembled pass is the model's pass -/
theorem genGrads_eq (e : Ev) (dens : List F) (net : Net F) (hw : WellOrdered net) (root : Nat) (hnp : NoParent net root) :
    genGrads e dens net root = codedGrads e dens net root :=
  backwardC_as_coded net _ root hw hnp

/-- … also when `lls` is produced by the forward pass as coded (`node_log_likelihood` with the floor active) -/
theorem genBackward_forwardC (e : Ev) (dens : List F) (net : Net F) (hw : WellOrdered net) (hnn : NonNegNet e dens net)
    (root : Nat) (hnp : NoParent net root) :
    genBackward net (forwardC e dens net) root = codedGrads e dens net root := by
  rw [backwardC_as_coded net _ root hw hnp, backwardC_forwardC e dens net hnn root]

/-- **e2e_coded_grads_rel (C14)** — `coded_grads_rel` for the extracted rules: every entry of the returned table is a number, and at
every node of non-zero value it is the linear-domain gradient -/
theorem e2e_coded_grads_rel (e : Ev) (dens : List F) (net : Net F) (hw : WellOrdered net) (hnn : NonNegNet e dens net)
    (root : Nat) (hnp : NoParent net root) (j : Nat) :
    Rel ((evalNet e dens net).getD j 0) ((genGrads e dens net root).getD j bot)
      ((backward net (evalNet e dens net) root).getD j 0) := by
  rw [genGrads_eq e dens net hw root hnp]
  exact coded_grads_evalNet e dens net hw hnn.1 (evalNet_nonneg e dens net hw hnn) root j

/-- **e2e_backward_coded (C14)** — `resp_coded_exact` for the pass assembled from the GENERATED rules: on every non-negative
children-first table whose root has no parent, every row of positive root value, every sum node `n` and every edge `n → c` of
weight `w`, what `Sum.em_step` makes of the statistics computed from the table `eval_backward` returns,
`weights * exp(children_ll - root_ll + grads[n])`, is exactly `w · value[c] · ∂root/∂node_n / value[root]` — zero-valued product
children, whose `grads` entries are wrong (`(g + F) - F = 0.0` in the association the source has), included. -/
theorem e2e_backward_coded (e : Ev) (dens : List F) (net : Net F) (hw : WellOrdered net)
    (hnn : NonNegNet e dens net) (root : Nat) (hnp : NoParent net root)
    (hroot : 0 < (evalNet e dens net).getD root 0) (n : Nat) (x : NNode F)
    (hn : net[n]? = some x) (hk : x.kind = .sum) (j c : Nat) (w : F) (hc : x.ch[j]? = some c)
    (hwj : x.ws[j]? = some w) :
    (respSumC (codedLls (evalNet e dens net)) (genGrads e dens net root) root n x)[j]?
      = some (some (w * ((evalNet e dens net).getD c 0 * (backward net (evalNet e dens net) root).getD n 0
          / (evalNet e dens net).getD root 0))) := by
  rw [genGrads_eq e dens net hw root hnp]
  exact resp_coded_exact e dens net hw hnn root hroot n x hn hk j c w hc hwj

/-- **e2e_leaf_stat_coded (C14)** — `leaf_stat_coded_exact` for the extracted rules -/
theorem e2e_leaf_stat_coded (e : Ev) (dens : List F) (net : Net F) (hw : WellOrdered net)
    (hnn : NonNegNet e dens net) (root : Nat) (hnp : NoParent net root)
    (hroot : 0 < (evalNet e dens net).getD root 0) (i : Nat) :
    expL (statLeafC (codedLls (evalNet e dens net)) (genGrads e dens net root) root i)
      = some (respLeaf (evalNet e dens net) (backward net (evalNet e dens net) root) root i) := by
  rw [genGrads_eq e dens net hw root hnp]
  exact leaf_stat_coded_exact e dens net hw hnn root hroot i

/-- **e2e_backward_coded_valid (C14)** — `resp_coded_exact_valid` for the extracted rules: under what `check_spn` establishes there
is THE derivative `a = ∂root/∂node_n` such that the leaf statistic and every responsibility computed from the table the extracted
pass returns are `value·a/value[root]` -/
theorem e2e_backward_coded_valid (dom : Nat → Nat) (e : Ev) (dens : List F) (net : Net F) (hw : WellOrdered net)
    (hok : ∀ i (x : NNode F), net[i]? = some x → NodeOK dom net dens i x) (hnn : NonNegNet e dens net)
    (root n : Nat) (hnp : NoParent net root) (hr : root < net.length) (hn : n < net.length) (hne : scopeOf net n ≠ [])
    (hroot : 0 < (evalNet e dens net).getD root 0) :
    ∃ a : F,
      (∀ y : F, (evalNetWith e dens net n y).getD root 0 = (evalNetWith e dens net n 0).getD root 0 + a * y) ∧
      (expL (statLeafC (codedLls (evalNet e dens net)) (genGrads e dens net root) root n)
        = some ((evalNet e dens net).getD n 0 * a / (evalNet e dens net).getD root 0)) ∧
      ((net[n]).kind = .sum → ∀ (j c : Nat) (w : F), (net[n]).ch[j]? = some c → (net[n]).ws[j]? = some w →
        (respSumC (codedLls (evalNet e dens net)) (genGrads e dens net root) root n net[n])[j]?
          = some (some (w * ((evalNet e dens net).getD c 0 * a / (evalNet e dens net).getD root 0)))) := by
  rw [genGrads_eq e dens net hw root hnp]
  exact resp_coded_exact_valid dom e dens net hw hok hnn root n hr hn hne hroot

end main

/-! ### non-vacuity on `exZ` / `exW` of `Props/C14Backward.lean` -/

theorem exZ_noParent : NoParent exZ 5 := noParent_last exZ exZ_wo

theorem exW_wo : WellOrdered exW := (wellOrderedB_iff exW).1 (by decide)

theorem exW_noParent : NoParent exW 8 := noParent_last exW exW_wo

/-- the pass assembled from the generated rules, computed on `exZ` for the row `(1, 0)`: the table of the model, the wrong entry
`0.0` (`fin 1`, true gradient `1/6`) of the zero-valued product child 0 included -/
example : genGrads exZRow [] exZ 5 = [fin 1, fin (1/4), fin (1/2), fin (1/6), fin (1/2), fin 1] := by decide +kernel

example : genGrads exZRow [] exZ 5 = codedGrads exZRow [] exZ 5 := genGrads_eq exZRow [] exZ exZ_wo 5 exZ_noParent

/-- … and from the forward pass as coded -/
example : genBackward exZ (forwardC exZRow [] exZ) 5 = [fin 1, fin (1/4), fin (1/2), fin (1/6), fin (1/2), fin 1] := by
  rw [genBackward_forwardC exZRow [] exZ exZ_wo exZ_nonneg 5 exZ_noParent, exZ_coded_grads]

/-- the messages of the zero-valued product 2 of `exZ` (its gradient is `log(1/2)`): the zero-valued child 0 receives
`(log(1/2) + F) - F = 0.0`, the positive child 1 receives `(log(1/2) + F) - log(1/3) = F` -/
example : genSends exZ (codedLls (evalNet exZRow [] exZ)) 2 (fin (1/2)) = some [(0, fin 1), (1, low 0)] := by decide +kernel

/-- non-vacuity of `e2e_backward_coded`: the edges of the root sum of `exZ` into the zero-valued product 2 and into product 4 -/
example : (respSumC (codedLls (evalNet exZRow [] exZ)) (genGrads exZRow [] exZ 5) 5 5 exZ[5])[0]?
    = some (some (1/2 * ((evalNet exZRow [] exZ).getD 2 0 * (backward exZ (evalNet exZRow [] exZ) 5).getD 5 0
        / (evalNet exZRow [] exZ).getD 5 0))) :=
  e2e_backward_coded exZRow [] exZ exZ_wo exZ_nonneg 5 exZ_noParent (by rw [exZ_vals]; norm_num) 5 exZ[5] rfl rfl 0 2 (1/2)
    rfl rfl

example : respSumC (codedLls (evalNet exZRow [] exZ)) (genGrads exZRow [] exZ 5) 5 5 exZ[5] = [some 0, some 1] := by
  decide +kernel

/-- non-vacuity of `e2e_leaf_stat_coded` at the node with the wrong entry (statistic `0`) and of `e2e_coded_grads_rel` there -/
example : expL (statLeafC (codedLls (evalNet exZRow [] exZ)) (genGrads exZRow [] exZ 5) 5 0)
    = some (respLeaf (evalNet exZRow [] exZ) (backward exZ (evalNet exZRow [] exZ) 5) 5 0) :=
  e2e_leaf_stat_coded exZRow [] exZ exZ_wo exZ_nonneg 5 exZ_noParent (by rw [exZ_vals]; norm_num) 0

example : Rel ((evalNet exZRow [] exZ).getD 1 0) ((genGrads exZRow [] exZ 5).getD 1 bot)
    ((backward exZ (evalNet exZRow [] exZ) 5).getD 1 0) :=
  e2e_coded_grads_rel exZRow [] exZ exZ_wo exZ_nonneg 5 exZ_noParent 1

/-- non-vacuity of `e2e_backward_coded_valid` at the zero-valued product child 0 of `exZ` -/
example : ∃ a : ℚ,
    (∀ y : ℚ, (evalNetWith exZRow [] exZ 0 y).getD 5 0 = (evalNetWith exZRow [] exZ 0 0).getD 5 0 + a * y) ∧
    (expL (statLeafC (codedLls (evalNet exZRow [] exZ)) (genGrads exZRow [] exZ 5) 5 0)
      = some ((evalNet exZRow [] exZ).getD 0 0 * a / (evalNet exZRow [] exZ).getD 5 0)) ∧
    ((exZ[0]).kind = .sum → ∀ (j c : Nat) (w : ℚ), (exZ[0]).ch[j]? = some c → (exZ[0]).ws[j]? = some w →
      (respSumC (codedLls (evalNet exZRow [] exZ)) (genGrads exZRow [] exZ 5) 5 0 exZ[0])[j]?
        = some (some (w * ((evalNet exZRow [] exZ).getD c 0 * a / (evalNet exZRow [] exZ).getD 5 0)))) :=
  e2e_backward_coded_valid (fun _ => 2) exZRow [] exZ exZ_wo exZ_nodeOK exZ_nonneg 5 0 exZ_noParent (by decide) (by decide)
    (by simp [scopeOf, exZ]) (by rw [exZ_vals]; norm_num)

/-- `exW` (zero-weight edge below a zero-valued sum): the extracted pass returns the model's table — entry 2 is the wrong `0.0`
(true gradient `1/6`) —, the raw statistic of the zero-weight edge computed from it is the wrong `8`, the responsibility is `0` -/
example : genGrads exZRow [] exW 8 = codedGrads exZRow [] exW 8 := genGrads_eq exZRow [] exW exW_wo 8 exW_noParent

example : (genGrads exZRow [] exW 8).getD 2 bot = fin 1 ∧ (backward exW (evalNet exZRow [] exW) 8).getD 2 0 = 1/6 ∧
    (statSumC (codedLls (evalNet exZRow [] exW)) (genGrads exZRow [] exW 8) 8 2 exW[2]).map expL = [some 0, some 8] ∧
    respSumC (codedLls (evalNet exZRow [] exW)) (genGrads exZRow [] exW 8) 8 2 exW[2] = [some 0, some 0] := by
  decide +kernel

end Deeprob.E2EGrad
