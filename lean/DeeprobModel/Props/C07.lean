import DeeprobModel.Lemmas.TopDownExample
set_option linter.unusedSimpArgs false
set_option linter.unusedVariables false
set_option linter.unusedSectionVars false
set_option linter.unnecessarySeqFocus false
/-
C07 (circuit part) — "Sampling fills exactly the missing entries of each row, leaves observed entries
untouched, and the filled values are distributed according to the model's exact conditional
distribution given the observed entries of that row (the joint when nothing is observed) … sum nodes
of any number of children … every leaf family."

* support: `sample` is the generic pass `TCirc.pass br fill` for *some* outcome `br` of the branch
  draws and `fill` of the leaf draws — the support theorems hold for every outcome;
* law: `topDownPmf e x c` is the probability that the pass completes `e` to `x`, given that a sum
  node draws branch `i` with probability `wᵢLᵢ/Σⱼ wⱼLⱼ` (Gumbel-max identity, trusted, needs the
  right-skewed standard Gumbel) and leaves draw from their own conditionals (`cond`).
Witness of every example: `TCirc.exT`, evidence `exE = [·,0,·]`, completion `exX = [1,0,1]`.
-/
namespace Deeprob
open TD
namespace C07
open TCirc

/-! ### support: every outcome of the draws -/
section support
variable {α : Type} [Zero α] [One α] [Add α] [Mul α]

/-- whatever branches are drawn (`br`) and whatever the leaves draw (`fill`, within the leaf
contract): **observed entries stay, missing entries only get domain values** … -/
theorem sample_entrywise (dom : Nat → Nat) (c : TCirc α)
    (br : List Nat → List α → List (TCirc α) → Nat) (fill : List Nat → (Ev → Ev) → Ev → Ev)
    (hf : FillOK dom fill c) (e : Ev) (v : Nat) : FillsVar dom e (pass br fill [] c e) v :=
  pass_step br fill dom v c hf [] e

/-- … **observed entries untouched** … -/
theorem sample_keeps_observed (dom : Nat → Nat) (c : TCirc α)
    (br : List Nat → List α → List (TCirc α) → Nat) (fill : List Nat → (Ev → Ev) → Ev → Ev)
    (hf : FillOK dom fill c) (e : Ev) : ∀ v, e v ≠ none → pass br fill [] c e v = e v :=
  fun v h => (sample_entrywise dom c br fill hf e v).keeps h

/-- … **every missing entry of the root scope is filled** (branch draws are child positions) … -/
theorem sample_fills_scope (dom : Nat → Nat) (c : TCirc α) (hv : Circ.Valid dom c.toCirc)
    (br : List Nat → List α → List (TCirc α) → Nat) (fill : List Nat → (Ev → Ev) → Ev → Ev)
    (hb : BrOK br c) (hf : FillOK dom fill c) (e : Ev) : ∀ v ∈ c.scope, pass br fill [] c e v ≠ none :=
  fun v h => pass_fills br fill dom v c hv hb hf [] e h

/-- … **and nothing else is written**. -/
theorem sample_outside_scope_unchanged (dom : Nat → Nat) (c : TCirc α) (hv : Circ.Valid dom c.toCirc)
    (br : List Nat → List α → List (TCirc α) → Nat) (fill : List Nat → (Ev → Ev) → Ev → Ev) (e : Ev) :
    ∀ v, v ∉ c.scope → pass br fill [] c e v = e v :=
  fun v h => pass_outside br fill dom v c hv [] e h

theorem sample_completes (dom : Nat → Nat) (c : TCirc α) (hv : Circ.Valid dom c.toCirc)
    (br : List Nat → List α → List (TCirc α) → Nat) (fill : List Nat → (Ev → Ev) → Ev → Ev)
    (hb : BrOK br c) (hf : FillOK dom fill c) (e : Ev) : Completes c.scope e (pass br fill [] c e) :=
  ⟨sample_keeps_observed dom c br fill hf e, sample_fills_scope dom c hv br fill hb hf e⟩

end support

/-- non-vacuity of the support theorems: the outcome "every sum draws its LAST child, every leaf
draws value 0" on the witness -/
def exBr : List Nat → List Rat → List (TCirc Rat) → Nat := fun _ _ cs => cs.length - 1
def exFill : List Nat → (Ev → Ev) → Ev → Ev := fun _ _ x => fun v => match x v with | none => some 0 | some k => some k

theorem exBr_ok : ∀ c : TCirc Rat, Circ.Valid exDom c.toCirc → BrOK exBr c := by
  intro c
  induction c using TCirc.ind with
  | hl s f m cd => intro _; unfold BrOK; trivial
  | hs s ws cs ih =>
    intro hv
    obtain ⟨hne, _, _, hvc⟩ := valid_sum.1 hv
    unfold BrOK
    refine ⟨fun p => ?_, fun c hc => ih c hc (hvc c hc)⟩
    have : 0 < cs.length := List.length_pos_of_ne_nil hne
    simp only [exBr]; omega
  | hp s cs ih =>
    intro hv
    obtain ⟨_, _, hvc⟩ := valid_prod.1 hv
    unfold BrOK; exact fun c hc => ih c hc (hvc c hc)

theorem exFill_ok : ∀ c : TCirc Rat, Circ.Valid exDom c.toCirc → (∀ v ∈ c.scope, v < 3) → FillOK exDom exFill c := by
  intro c
  induction c using TCirc.ind with
  | hl s f m cd =>
    intro _ hs; unfold FillOK; intro p
    constructor
    · intro x v hvs
      unfold exFill
      cases hx : x v with
      | some k => exact Or.inl (by simp [hx])
      | none =>
        refine Or.inr ⟨hx, 0, ?_, by simp [hx]⟩
        have hv3 := hs v hvs
        have : v = 0 ∨ v = 1 ∨ v = 2 := by omega
        rcases this with rfl | rfl | rfl <;> simp [exDom]
    · intro x v _
      unfold exFill; cases x v <;> simp
  | hs s ws cs ih =>
    intro hv hs
    obtain ⟨_, _, hsc, hvc⟩ := valid_sum.1 hv
    unfold FillOK
    exact fun c hc => ih c hc (hvc c hc) (fun v hvv => hs v ((hsc c hc v).1 hvv))
  | hp s cs ih =>
    intro hv hs
    obtain ⟨_, hsc, hvc⟩ := valid_prod.1 hv
    unfold FillOK
    exact fun c hc => ih c hc (hvc c hc)
      (fun v hvv => hs v ((hsc v).1 (List.mem_flatten.2 ⟨c.scope, List.mem_map_of_mem hc, hvv⟩)))


theorem exT_scope_lt : ∀ v ∈ exT.scope, v < 3 := by
  intro v hv; simp [exT, scope] at hv; omega

example : ∀ v, FillsVar exDom exE (pass exBr exFill [] exT exE) v :=
  sample_entrywise exDom exT exBr exFill (exFill_ok exT exT_ok.1 exT_scope_lt) exE
example : ∀ v, exE v ≠ none → pass exBr exFill [] exT exE v = exE v :=
  sample_keeps_observed exDom exT exBr exFill (exFill_ok exT exT_ok.1 exT_scope_lt) exE
example : ∀ v ∈ exT.scope, pass exBr exFill [] exT exE v ≠ none :=
  sample_fills_scope exDom exT exT_ok.1 exBr exFill (exBr_ok exT exT_ok.1) (exFill_ok exT exT_ok.1 exT_scope_lt) exE
example : ∀ v, v ∉ exT.scope → pass exBr exFill [] exT exE v = exE v :=
  sample_outside_scope_unchanged exDom exT exT_ok.1 exBr exFill exE
example : Completes exT.scope exE (pass exBr exFill [] exT exE) :=
  sample_completes exDom exT exT_ok.1 exBr exFill (exBr_ok exT exT_ok.1) (exFill_ok exT exT_ok.1 exT_scope_lt) exE
/-- the concrete outcome: third child of the root, second child of the nested sum, zeros: `[0,0,0]` -/
example : (List.range 4).map (pass exBr exFill [] exT exE) = [some 0, some 0, some 0, none] := by
  simp [List.range, List.range.loop, exT, pass, passAt, passAll, exBr, catT, bernT, exE, Ev.ofList]
  simp [writeScope, exFill, Ev.ofList]

/-! ### law: the sampler draws from the exact conditional -/
section law
variable {α : Type} [Field α] [LinearOrder α] [IsStrictOrderedRing α]

/-- the branch law of `sum_sample` is a probability vector whenever the node's value is non-zero -/
theorem branchPmf_sums_to_one (ws ls : List α) (h : wsum ws ls ≠ 0) : tsum (branchPmf (wsum ws ls) ws ls) = 1 := by
  have key : ∀ (L : α), L ≠ 0 → ∀ (ws ls : List α), tsum (branchPmf L ws ls) * L = wsum ws ls := by
    intro L hL ws
    induction ws with
    | nil => intro ls; simp [branchPmf, tsum, wsum]
    | cons w ws ih =>
      intro ls
      cases ls with
      | nil => simp [branchPmf, tsum, wsum]
      | cons l ls =>
        have ih' := ih ls
        simp only [branchPmf, List.zipWith_cons_cons, tsum, wsum] at ih' ⊢
        rw [add_mul, ih']; congr 1; field_simp
  have := key _ h ws ls
  exact mul_right_cancel₀ h (by rw [this, one_mul])

example : tsum (branchPmf (wsum [(1:Rat)/5, 1/2, 3/10] [1/10, 1/3, 0]) [(1:Rat)/5, 1/2, 3/10] [1/10, 1/3, 0]) = 1 :=
  branchPmf_sums_to_one _ _ (by norm_num [wsum])

/-- **the sampler's law is the exact conditional** (division-free form): for every completion `x` of the
evidence `e` on the root scope, `P_sampler(x | e) · value(e) = value(x)`.  No hypothesis on `value(e)`:
if it is zero, both sides are zero. -/
theorem topDownPmf_exact (dom : Nat → Nat) (c : TCirc α) (hv : Circ.Valid dom c.toCirc) (hn : NonNeg c)
    (hl : LeafExact c) (e x : Ev) (hx : Completes c.scope e x) :
    topDownPmf e x c * eval e c = eval x c :=
  pmf_exact dom c hv hn hl e x hx

example : topDownPmf exE exX exT * eval exE exT = eval exX exT :=
  topDownPmf_exact exDom exT exT_ok.1 exT_ok.2.2.1 exT_ok.2.2.2.2 exE exX exX_completes

/-- the same with the division: the sampler's pmf *is* `P(x | observed entries of e)` -/
theorem topDownPmf_eq_cond (dom : Nat → Nat) (c : TCirc α) (hv : Circ.Valid dom c.toCirc) (hn : NonNeg c)
    (hl : LeafExact c) (e x : Ev) (hx : Completes c.scope e x) (he : eval e c ≠ 0) :
    topDownPmf e x c = condSpec c e x := by
  unfold condSpec
  rw [eq_div_iff he]
  exact pmf_exact dom c hv hn hl e x hx

/-- on the witness: `P([1,0,1] | x₁ = 0) = (101/1000)/(14/75) = 303/560` -/
example : topDownPmf exE exX exT = 303/560 := by
  rw [topDownPmf_eq_cond exDom exT exT_ok.1 exT_ok.2.2.1 exT_ok.2.2.2.2 exE exX exX_completes
    (by rw [exT_eval_e]; norm_num)]
  unfold condSpec; rw [exT_eval_e, exT_eval_x]; norm_num

/-- **the sampler's law sums to one** over all completions of the evidence on the root scope -/
theorem topDownPmf_sums_to_one (dom : Nat → Nat) (c : TCirc α) (hv : Circ.Valid dom c.toCirc) (hn : NonNeg c)
    (hl : LeafExact c) (e : Ev) (he : eval e c ≠ 0) :
    sumOver dom c.scope e (fun x => topDownPmf e x c) = 1 := by
  have h1 : sumOver dom c.scope e (fun x => eval e c * topDownPmf e x c) = sumOver dom c.scope e (fun x => eval x c) := by
    apply sumOver_congr_completes
    intro x hx
    rw [mul_comm]; exact pmf_exact dom c hv hn hl e x hx
  have h2 : sumOver dom c.scope e (fun x => eval x c) = eval e c := by
    have := Circ.marg dom c.toCirc hv e
    rw [scope_toCirc] at this
    exact this.symm
  rw [sumOver_mul, h2] at h1
  exact mul_left_cancel₀ he (by rw [h1, mul_one])

example : sumOver exDom exT.scope exE (fun x => topDownPmf exE x exT) = 1 :=
  topDownPmf_sums_to_one exDom exT exT_ok.1 exT_ok.2.2.1 exT_ok.2.2.2.2 exE (by rw [exT_eval_e]; norm_num)

/-- joint case (nothing observed): the sampler's law is the circuit's distribution itself when the
circuit is normalised -/
theorem topDownPmf_joint (dom : Nat → Nat) (c : TCirc α) (hv : Circ.Valid dom c.toCirc) (hn : NonNeg c)
    (hl : LeafExact c) (hw : Circ.NormW c.toCirc) (hln : Circ.LeafNorm dom c.toCirc)
    (x : Ev) (hx : ∀ v ∈ c.scope, x v ≠ none) : topDownPmf (fun _ => none) x c = eval x c := by
  have h := pmf_exact dom c hv hn hl (fun _ => none) x ⟨fun v h => absurd rfl h, hx⟩
  have h1 : eval (fun _ => none) c = 1 := Circ.all_missing_one dom c.toCirc hv hw hln
  rw [h1, mul_one] at h
  exact h

example : topDownPmf (fun _ => none) exX exT = eval exX exT :=
  topDownPmf_joint exDom exT exT_ok.1 exT_ok.2.2.1 exT_ok.2.2.2.2
    (by simp [exT, toCirc, Circ.NormW, tsum, catT, bernT]; norm_num)
    (by simp [exT, toCirc, Circ.LeafNorm, catT, bernT, Circ.catLeafFn])
    exX exX_completes.2

end law

/-! ### leaf facts -/
section leaves
variable {α : Type} [CommSemiring α] [LT α] [DecidableLT α]

/-- the law of `Bernoulli.sample` / `Categorical.sample` (table entry for a missing value, the observed
value kept) is the exact conditional of the leaf -/
theorem cat_leaf_exact (v : Nat) (tbl : List α) : LeafExact (catT v tbl) ∧ LeafExact (bernT v tbl) := by
  constructor
  · unfold catT LeafExact; exact catCond_exact v tbl
  · unfold bernT LeafExact; exact catCond_exact v tbl

example : LeafExact (catT 1 [(1:Rat)/10, 6/10, 3/10]) := (cat_leaf_exact (α := Rat) 1 _).1

end leaves

end C07
end Deeprob
