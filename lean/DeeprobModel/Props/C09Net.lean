import DeeprobModel.Lemmas.RewriteNetLemmas
import Mathlib.Algebra.Ring.Rat
import Mathlib.Tactic.NormNum
set_option linter.unusedSectionVars false
set_option linter.unusedSimpArgs false
set_option linter.unusedVariables false
/-
C09 at the level the code works on: the node table with sharing (`Model/RewriteNet.lean`).
`pruneNetWith true` = repaired `prune`, `pruneNetWith false` = the pinned tree (`pruneNetOld`).
-/
namespace Deeprob
open Net Circ

/-! ### the witness circuit: a root sum over two single-child sums that share one leaf -/
namespace C09w
def net : Net Rat :=
  [ { id := 3, kind := .leaf, scope := [0], ch := [], ws := [], leaf := .cat 0 [1/2, 1/2] },
    { id := 1, kind := .sum, scope := [0], ch := [0], ws := [1], leaf := .absent },
    { id := 2, kind := .sum, scope := [0], ch := [0], ws := [1], leaf := .absent },
    { id := 0, kind := .sum, scope := [0], ch := [1, 2], ws := [1/2, 1/2], leaf := .absent } ]

/-- what is compared: kind, new id, children, weights of every exported node -/
def view (r : Option (Net Rat × List Nat)) : List (Kind × Nat × List Nat × List Rat) :=
  match r with
  | some p => p.1.map (fun x => (x.kind, x.id, x.ch, x.ws))
  | none => []
/-- for every exported node, its index in the input table (object identity) -/
def origin (r : Option (Net Rat × List Nat)) : List Nat := match r with | some p => p.2 | none => []

theorem wellOrdered : WellOrdered net := (wellOrderedB_iff net).1 (by decide)

theorem sumOK : NetSumOK net := by
  intro i x hx hk
  match i, hx with
  | 0, hx => simp [net] at hx; subst hx; simp at hk
  | 1, hx => simp [net] at hx; subst hx; simp [tsum]
  | 2, hx => simp [net] at hx; subst hx; simp [tsum]
  | 3, hx => simp [net] at hx; subst hx; norm_num [tsum]
  | n+4, hx => simp [net] at hx
end C09w

/-- **witness of the defect on the pinned tree** (`old_prune_single_child`): on the checked circuit
`S{½,½}( S{1}(B), S{1}(B) )` with one shared leaf `B`, both children of the root are replaced by `B`, the
`children_weights` dictionary merges them into the single entry `B ↦ 1`, and the pinned code keeps the root as a
sum with ONE child; the repaired code returns the leaf. The accepted input passes `check_spn`. -/
theorem old_prune_single_child :
    Net.checkSpn C09w.net 3 true true true = .accept ∧
    C09w.view (pruneNetOld C09w.net 3) = [(.leaf, 1, [], []), (.sum, 0, [0], [1])] ∧
    C09w.origin (pruneNetOld C09w.net 3) = [0, 3] ∧
    C09w.view (pruneNet C09w.net 3) = [(.leaf, 0, [], [])] ∧
    C09w.origin (pruneNet C09w.net 3) = [0] ∧
    (∀ r ∈ pruneNetOld C09w.net 3, normalFormB r.1 (r.1.length - 1) = false) ∧
    (∀ r ∈ pruneNet C09w.net 3, normalFormB r.1 (r.1.length - 1) = true) := by
  refine ⟨by decide, by decide +kernel, by decide +kernel, by decide +kernel, by decide +kernel, ?_, ?_⟩ <;> decide +kernel

variable {α : Type} [CommSemiring α]

/-- **coinciding children are merged**: the children of a rebuilt sum node are pairwise distinct objects -/
theorem prune_keeps_sharing (t : Net α) (rep : List Nat) (x : NNode α) : ((sumAcc t rep x).map Prod.fst).Nodup := by
  unfold sumAcc
  generalize sumItems t rep _ x.ws = items
  have : ∀ (a0 : List (Nat × α)), (a0.map Prod.fst).Nodup →
      ((items.foldl (fun a (p : Nat × α) => accAdd a p.1 p.2) a0).map Prod.fst).Nodup := by
    induction items with
    | nil => intro a0 h; exact h
    | cons p r ih => intro a0 h; simp only [List.foldl_cons]; exact ih _ (accAdd_keys_nodup a0 p.1 p.2 h)
  exact this [] (by simp)

/-- **C09 at DAG level, value**: the table returned by `prune` (pinned or repaired) followed by `assign_ids` and the
canonical export has, at its root (last entry), the value the original table has at `root` — for every
evidence, shared sub-circuits and merged coinciding children included. `dens` are the supplied densities of
continuous leaves, indexed by node; the exported table reads them through `order`. -/
theorem pruneNetWith_eval (b : Bool) (net : Net α) (root : Nat) (hw : WellOrdered net) (hs : NetSumOK net)
    (hr : root < net.length) (out : Net α) (order : List Nat)
    (h : pruneNetWith b net root = some (out, order)) (e : Ev) (dens : List α) :
    out.length = order.length ∧ out ≠ [] ∧
    nval e (order.map (fun i => dens.getD i 0)) out (out.length - 1) = nval e dens net root := by
  have I := pinv_final b net hw hs e dens
  unfold pruneNetWith at h
  generalize hst : prunePass b net = st at h I
  simp only at h
  have ht : ChLt st.1 := I.ch_lt
  have hrr : st.2.getD root root < st.1.length := by
    have := I.rep_le root hr; rw [I.lt]; omega
  generalize hrdef : st.2.getD root root = r at h hrr
  unfold exportFrom at h
  cases hk : kahn st.1 r with
  | none => rw [hk] at h; simp at h
  | some ko =>
    rw [hk] at h
    simp only [Option.some.injEq, Prod.mk.injEq] at h
    obtain ⟨hout, hord⟩ := h
    obtain ⟨hcl, hmem, _, hlast⟩ := dfsPost_spec st.1 ht (st.1.length + 1) [] r (by omega)
      (by intro p hp; simp at hp)
    obtain ⟨s, hs'⟩ := hlast (by simp)
    rw [hord] at hcl hmem hs'
    have hlt : ∀ i ∈ order, i < st.1.length := by
      intro i hi
      rw [← hord] at hi
      rcases dfsPost_le st.1 ht _ _ _ i hi with h1 | h1
      · simp at h1
      · omega
    have hexp : out = exportTable st.1 order (posIn ko) := by rw [← hout, hord]; rfl
    have hlen : out.length = order.length := by rw [hexp]; simp [exportTable]
    have hpos : order.length - 1 < order.length := by rw [hs']; simp
    have hroot : order[order.length - 1] = r := by
      simp only [hs']; simp
    refine ⟨hlen, ?_, ?_⟩
    · intro h0; rw [h0] at hlen; rw [hs'] at hlen; simp at hlen
    · rw [hlen, hexp, export_eval st.1 ht order (posIn ko) hcl hlt e dens _ hpos, hroot, ← hrdef]
      have := I.val root hr
      rwa [List.take_length] at this


/-- the repaired `prune` (name used in DESIGN.md) -/
theorem pruneNet_eval (net : Net α) (root : Nat) (hw : WellOrdered net) (hs : NetSumOK net)
    (hr : root < net.length) (out : Net α) (order : List Nat)
    (h : pruneNet net root = some (out, order)) (e : Ev) (dens : List α) :
    nval e (order.map (fun i => dens.getD i 0)) out (out.length - 1) = nval e dens net root :=
  (pruneNetWith_eval true net root hw hs hr out order h e dens).2.2

/-- the pinned `prune` preserves the value as well (its defect concerns the shape of the result) -/
theorem pruneNetOld_eval (net : Net α) (root : Nat) (hw : WellOrdered net) (hs : NetSumOK net)
    (hr : root < net.length) (out : Net α) (order : List Nat)
    (h : pruneNetOld net root = some (out, order)) (e : Ev) (dens : List α) :
    nval e (order.map (fun i => dens.getD i 0)) out (out.length - 1) = nval e dens net root :=
  (pruneNetWith_eval false net root hw hs hr out order h e dens).2.2

example : ∃ out order, pruneNet C09w.net 3 = some (out, order) ∧
    ∀ (e : Ev) (dens : List Rat), nval e (order.map (fun i => dens.getD i 0)) out (out.length - 1) = nval e dens C09w.net 3 := by
  cases h : pruneNet C09w.net 3 with
  | none => exact absurd h (by decide +kernel)
  | some r =>
    exact ⟨r.1, r.2, rfl, fun e dens =>
      (pruneNetWith_eval true C09w.net 3 C09w.wellOrdered C09w.sumOK (by decide) r.1 r.2 h e dens).2.2⟩

/-- the pinned behaviour preserves the value as well (the defect is about the shape, not the value) -/
example : ∃ out order, pruneNetOld C09w.net 3 = some (out, order) ∧
    ∀ (e : Ev) (dens : List Rat), nval e (order.map (fun i => dens.getD i 0)) out (out.length - 1) = nval e dens C09w.net 3 := by
  cases h : pruneNetOld C09w.net 3 with
  | none => exact absurd h (by decide +kernel)
  | some r =>
    exact ⟨r.1, r.2, rfl, fun e dens =>
      (pruneNetWith_eval false C09w.net 3 C09w.wellOrdered C09w.sumOK (by decide) r.1 r.2 h e dens).2.2⟩

end Deeprob
