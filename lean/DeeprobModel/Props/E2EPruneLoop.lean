import DeeprobModel.Props.C09Net
import DeeprobModel.Oblig.Struct5Prune
set_option linter.unusedVariables false
set_option linter.unusedSectionVars false
/-
END-TO-END corollary for `structure.prune` (C09), stated about the PASS skeleton extracted by tools/listprog.py (block K),
`Gen.S5prunePassLoop` (fragment `structure.prune.loop`).  `pgLoopPrune` is `check_spn(root, labeled, smooth, decomposable)`
(`Net.checkSpn`, the model of the guard; its order of tests is tied to the source by `StructValidity.checkSpn_order`), then the generated
skeleton (walked over the table in storage order, update = `Struct5Prune.genStep`, i.e. the model's per-node rule with the GENERATED
collapse tests `Gen.pruneSingleChild` / `Gen.pruneMergedSingle`), then `assign_ids(nodes_map[root.id])` with the canonical export
(`Net.exportFrom`).  `pgPrune` is the same around the model's `pruneNet`; `pgLoopPrune_eq` says the two agree.

PARTIAL (see `Oblig/Struct5Prune.lean`): the instance of the skeleton covers the traversal, the initial dictionary, one update per
visited node and the `None` answer of `topological_order`; the read / write locality and the link between the generated
`topological_order` and the storage order are not composed in.  The per-node rewrite of `prune` (rebuilt children / weights:
`prodItems`, `sumAcc`) is the MODEL's: of the loop body only the two collapse tests are extracted (third-wave fragments), and there is
no simulation theorem for the rest of the body.  The other DAG-level theorems about `pruneNet` (`pruneNet_checkSpn`,
`pruneNet_normal_form`, `pruneNet_idem`, …) transfer by the same rewriting (`pgLoopPrune_eq`).
-/
namespace Deeprob.E2EPruneLoop
open Deeprob Deeprob.Net

/-- the pass of `prune` as the GENERATED skeleton renders it (`none`: `topological_order` returned `None`) -/
def loopPrunePass {α : Type} [Zero α] [Add α] [Mul α] (net : Net α) (rootNode : NNode α) : Option (Net α × List Nat) :=
  Gen.S5prunePassLoop (N := NNode α) (V := Net α × List Nat) (MAP := Net α × List Nat) (O := NNode α)
    (R := Net α × List Nat)
    (fun x => x.id) (fun st _ => st) (fun st _ x => Oblig.Struct5Prune.genStep st x) (fun _ => some net.reverse)
    (fun _ => ([], [])) id (fun _ x => x) rootNode

theorem loopPrunePass_eq {α : Type} [Zero α] [Add α] [Mul α] (net : Net α) (rootNode : NNode α) :
    loopPrunePass net rootNode = some (prunePass true net) :=
  Oblig.Struct5Prune.prunePassLoop_shape_partial net rootNode

/-- `prune(root)` around the generated pieces, with the generated PASS skeleton -/
def pgLoopPrune {α : Type} [Zero α] [Add α] [Mul α] (net : Net α) (root : Nat) (rootNode : NNode α) :
    Except String (Net α × List Nat) :=
  match Net.checkSpn net root true true true with
  | .accept =>
    match loopPrunePass net rootNode with
    | none => .error "cycle"
    | some st =>
      match exportFrom st.1 (st.2.getD root root) with
      | none => .error "cycle"
      | some res => .ok res
  | v => .error v.toString

/-- `prune(root)` with the model's DAG-level pass (`pruneNet` = `prunePass true` + `assign_ids` + export) behind the same guard -/
def pgPrune {α : Type} [Zero α] [Add α] [Mul α] (net : Net α) (root : Nat) : Except String (Net α × List Nat) :=
  match Net.checkSpn net root true true true with
  | .accept =>
    match pruneNet net root with
    | none => .error "cycle"
    | some res => .ok res
  | v => .error v.toString

theorem pgLoopPrune_eq {α : Type} [Zero α] [Add α] [Mul α] (net : Net α) (root : Nat) (rootNode : NNode α) :
    pgLoopPrune net root rootNode = pgPrune net root := by
  unfold pgLoopPrune pgPrune
  rw [loopPrunePass_eq]
  rfl

/-- what `.ok` of the wrapper means in terms of the model -/
theorem pgPrune_ok {α : Type} [Zero α] [Add α] [Mul α] (net : Net α) (root : Nat) (res : Net α × List Nat)
    (h : pgPrune net root = .ok res) :
    Net.checkSpn net root true true true = .accept ∧ pruneNet net root = some res := by
  unfold pgPrune at h
  split at h
  · rename_i hacc
    refine ⟨hacc, ?_⟩
    cases hp : pruneNet net root with
    | none => rw [hp] at h; simp at h
    | some r => rw [hp] at h; simp only [Except.ok.injEq] at h; rw [h]
  · simp at h

variable {α : Type} [CommSemiring α]

/-- **e2e_prune_loop_partial** (C09 at DAG level, value — about the extracted PASS skeleton): whenever the guard `check_spn` accepts
and the generated pass skeleton followed by `assign_ids` / the canonical export returns a table, that table is not empty and its root
(last entry) has, under EVERY evidence, the value the original table has at `root` (shared sub-circuits and merged coinciding children
included).  PARTIAL: see the header — the per-node rewrite handed to the skeleton is the model's rule with the generated collapse tests
(third-wave fragments `Gen.pruneSingleChild`, `Gen.pruneMergedSingle`); the rest of the loop body is not extracted and there is no
simulation theorem for it; the storage order stands for `reversed(topological_order(root))` (`prunePass_order_indep` is not composed in).
Ingredients: `Struct5Prune.prunePassLoop_shape_partial` (O) + `pruneNetWith_eval`. -/
theorem e2e_prune_loop_partial (net : Net α) (root : Nat) (rootNode : NNode α)
    (hw : WellOrdered net) (hs : NetSumOK net) (hr : root < net.length) (out : Net α) (order : List Nat)
    (h : pgLoopPrune net root rootNode = .ok (out, order)) (e : Ev) (dens : List α) :
    Net.checkSpn net root true true true = .accept ∧ out.length = order.length ∧ out ≠ [] ∧
    nval e (order.map (fun i => dens.getD i 0)) out (out.length - 1) = nval e dens net root := by
  rw [pgLoopPrune_eq] at h
  obtain ⟨hacc, hp⟩ := pgPrune_ok net root (out, order) h
  exact ⟨hacc, pruneNetWith_eval true net root hw hs hr out order hp e dens⟩

/-! ### non-vacuity: a sum over a sum with a shared leaf, `S{½,½}( S{½,½}(A, B), B )` — the inner sum is merged into the root -/
namespace W
def net : Net Rat :=
  [ { id := 3, kind := .leaf, scope := [0], ch := [], ws := [], leaf := .cat 0 [1/3, 2/3] },
    { id := 2, kind := .leaf, scope := [0], ch := [], ws := [], leaf := .cat 0 [1/2, 1/2] },
    { id := 1, kind := .sum, scope := [0], ch := [0, 1], ws := [1/2, 1/2], leaf := .absent },
    { id := 0, kind := .sum, scope := [0], ch := [2, 1], ws := [1/2, 1/2], leaf := .absent } ]

theorem wellOrdered : WellOrdered net := (wellOrderedB_iff net).1 (by decide)
theorem accept : Net.checkSpn net 3 true true true = .accept := by decide

theorem sumOK : NetSumOK net := by
  intro i x hx hk
  match i, hx with
  | 0, hx => simp [net] at hx; subst hx; simp at hk
  | 1, hx => simp [net] at hx; subst hx; simp at hk
  | 2, hx => simp [net] at hx; subst hx; norm_num [tsum]
  | 3, hx => simp [net] at hx; subst hx; norm_num [tsum]
  | n+4, hx => simp [net] at hx

def okB {β : Type} : Except String β → Bool
  | .ok _ => true
  | .error _ => false

theorem ok_of_okB {β : Type} (r : Except String β) (h : okB r = true) : ∃ v, r = .ok v := by
  cases r with
  | ok v => exact ⟨v, rfl⟩
  | error s => simp [okB] at h

/-- kind, children, weights of every exported node, and the origin of every exported node -/
def view (r : Except String (Net Rat × List Nat)) : List (Kind × List Nat × List Rat) × List Nat :=
  match r with
  | .ok p => (p.1.map (fun x => (x.kind, x.ch, x.ws)), p.2)
  | .error _ => ([], [])
end W

/-- the pass skeleton returns a table on `W.net`, and the value statement applies to it (whatever object is passed as `root`: only its
`id` is read by the skeleton, after the pass) -/
example (rootNode : NNode Rat) : ∃ out order, pgLoopPrune W.net 3 rootNode = .ok (out, order) ∧ out ≠ [] ∧
    ∀ (e : Ev) (dens : List Rat),
      nval e (order.map (fun i => dens.getD i 0)) out (out.length - 1) = nval e dens W.net 3 := by
  obtain ⟨res, hres⟩ := W.ok_of_okB (pgPrune W.net 3) (by decide +kernel)
  have h : pgLoopPrune W.net 3 rootNode = .ok (res.1, res.2) := by rw [pgLoopPrune_eq]; exact hres
  refine ⟨res.1, res.2, h, ?_, fun e dens => ?_⟩
  · exact (e2e_prune_loop_partial W.net 3 rootNode W.wellOrdered W.sumOK (by decide) res.1 res.2 h (fun _ => none) []).2.2.1
  · exact (e2e_prune_loop_partial W.net 3 rootNode W.wellOrdered W.sumOK (by decide) res.1 res.2 h e dens).2.2.2

/-- … and what it returns: the inner sum is gone, the root is `S{¼,¾}(A, B)` (the shared leaf `B` collects `½·½ + ½`) -/
example : W.view (pgLoopPrune W.net 3 (default : NNode Rat)) =
    ([(.leaf, [], []), (.leaf, [], []), (.sum, [0, 1], [1/4, 3/4])], [0, 1, 3]) := by decide +kernel

example : (loopPrunePass W.net (default : NNode Rat)).map (fun st => st.2) = some [0, 1, 2, 3] := by decide +kernel

end Deeprob.E2EPruneLoop
