import DeeprobModel.Model.Learn
import DeeprobModel.Model.LearnTerm
import DeeprobModel.Lemmas.LearnTermLemmas
import DeeprobModel.Props.C04
import DeeprobModel.Props.C05
/-
C04/C05, TOTAL CORRECTNESS — the `while tasks:` loop of `learn_spn`
(/repo/deeprob/spn/learning/learnspn.py) halts under every splitter behaviour, after at most
`B nRows nCols cfg = 5·max(nRows,1)·max(nCols,1) − 3` iterations, and what it returns satisfies the C04/C05
conclusions. No hypothesis of the form "if `run` returned": the only assumption is that the oracle answers
have the shape the code itself insists on (`ProperAns`: zero-variance positions inside the slice, one label per
row / per column) — and `proper_of_step_ok` shows this is exactly the condition under which an iteration does
not raise.

No guard on the hyper-parameters is needed: the loop halts for EVERY `Cfg` (including `min_rows_slice`,
`min_cols_slice` ∈ {0, 1}, which `learn_spn` partly rejects with `ValueError`) and for both re-queue
disciplines (`appendleft` / `append`). The reason is the flag protocol: a failed `SPLIT_COLS` sets
`no_cols_split`, which forces `SPLIT_ROWS`; a failed `SPLIT_ROWS` sets `no_rows_split`, which forces
`CREATE_LEAF` (or `REM_FEATURES`/`SPLIT_NAIVE`, which shrink the slice); so a slice is retried at most twice.
-/
namespace Deeprob.LearnTerm
open Deeprob.Learn List

/-- **`step_proper_decreases`** (`step_ok_of_proper` + `step_decreases`). From a state with a non-empty deque,
on every proper answer to the questions the iteration asks, the iteration succeeds and the measure
`Σ_{pending tasks} (5·area − 4 + phase)` strictly decreases. (`step_decreases` itself needs no properness:
EVERY successful iteration decreases the measure.) -/
theorem step_proper_decreases (cfg : Cfg) (s : St) (t : Task) (q : List Task) (hq : s.queue = t :: q)
    (hp : ProperHead cfg t s.script) : ∃ s', step cfg s = .ok s' ∧ measure s' < measure s := by
  obtain ⟨s', h, _⟩ := step_ok_of_proper cfg s t q hq hp
  exact ⟨s', h, step_decreases cfg s s' (by rw [hq]; simp) h⟩

/-- non-vacuity: the root task of a 6 × 3 data set (`is_first`, phase 1, weight 5·18 − 3 = 87); a successful
row split into 4 + 2 rows leaves two fresh tasks of weight 5·12 − 2 and 5·6 − 2 -/
example : ∃ s', step ⟨2, 2, true⟩ (init 6 3 [.zeroVar [], .rows [0, 0, 1, 0, 1, 0]]) = .ok s' ∧
    (measure (init 6 3 [.zeroVar [], .rows [0, 0, 1, 0, 1, 0]]) = 87 ∧ measure s' = 86) :=
  exists_ok_of_check _ _ (by decide +kernel)

/-- a failed split decreases the measure by exactly one (the phase) -/
example : ∃ s', step ⟨2, 2, true⟩ (init 6 3 [.zeroVar [], .rows [4, 4, 4, 4, 4, 4]]) = .ok s' ∧
    (measure s' = 86 ∧ s'.queue.map phase = [0]) :=
  exists_ok_of_check _ _ (by decide +kernel)

/-- **`learn_terminates`.** If the first `B` iterations find their questions answered properly in the script,
then with any fuel `≥ B` the run returns `.ok s` with an EMPTY deque after `k ≤ B` iterations: it neither
exhausts the script, nor raises, nor is cut off by the fuel. Holds for every `Cfg` and both re-queue
disciplines. -/
theorem learn_terminates (cfg : Cfg) (nRows nCols : Nat) (script : List Ans) (fuel : Nat)
    (hp : ProperRun cfg (B nRows nCols cfg) (init nRows nCols script)) (hfuel : B nRows nCols cfg ≤ fuel) :
    ∃ s k, runCount cfg fuel (init nRows nCols script) = .ok (s, k) ∧
      run cfg fuel (init nRows nCols script) = .ok s ∧ s.queue = [] ∧ k ≤ B nRows nCols cfg := by
  have hm := measure_init nRows nCols script cfg
  obtain ⟨s, k, h1, h2, h3⟩ := run_terminates cfg (B nRows nCols cfg) _ hp (by omega)
  have h1' := runCount_mono cfg _ _ s k h1 h2 fuel hfuel
  exact ⟨s, k, h1', runCount_run cfg _ _ s k h1', h2, by omega⟩

/-- non-vacuity, and the bound is attained: on a 4 × 1 data set the adversarial oracle `tightScript 4` (peel
one row per row split; every other split fails) makes the loop run exactly `B 4 1 = 17` iterations -/
example : ProperRun ⟨1, 1, true⟩ (B 4 1 ⟨1, 1, true⟩) (init 4 1 (tightScript 4)) ∧
    B 4 1 ⟨1, 1, true⟩ = 17 ∧
    ∃ p, runCount ⟨1, 1, true⟩ 17 (init 4 1 (tightScript 4)) = .ok p ∧ (p.2 = 17 ∧ p.1.queue = []) :=
  ⟨by decide +kernel, by decide +kernel, exists_ok_of_check _ _ (by decide +kernel)⟩

/-- **`learn_terminates_script`** — the same in terms of the script alone: every entry that gets consulted
has the kind asked for and is proper for the task at hand (`ProperRunE`, which does not blame a script for
being short), and the script has at least `2·B` entries (an iteration consults at most two). -/
theorem learn_terminates_script (cfg : Cfg) (nRows nCols : Nat) (script : List Ans) (fuel : Nat)
    (hp : ProperRunE cfg (B nRows nCols cfg) (init nRows nCols script))
    (hlen : 2 * B nRows nCols cfg ≤ script.length) (hfuel : B nRows nCols cfg ≤ fuel) :
    ∃ s k, runCount cfg fuel (init nRows nCols script) = .ok (s, k) ∧
      run cfg fuel (init nRows nCols script) = .ok s ∧ s.queue = [] ∧ k ≤ B nRows nCols cfg :=
  learn_terminates cfg nRows nCols script fuel
    (properRun_of_E cfg _ _ hp (by simpa [init, initOn] using hlen)) hfuel

/-- non-vacuity: 2 × 1, `B = 7`, a 14-entry script (the last 7 entries are never read) -/
example : ProperRunE ⟨1, 1, true⟩ (B 2 1 ⟨1, 1, true⟩) (init 2 1 (tightScript 2 ++ List.replicate 7 (Ans.zeroVar []))) ∧
    2 * B 2 1 ⟨1, 1, true⟩ ≤ (tightScript 2 ++ List.replicate 7 (Ans.zeroVar [])).length := by
  refine ⟨?_, by decide +kernel⟩
  have h : ProperRun ⟨1, 1, true⟩ (B 2 1 ⟨1, 1, true⟩)
      (init 2 1 (tightScript 2 ++ List.replicate 7 (Ans.zeroVar []))) := by decide +kernel
  -- `ProperRun` is the stronger notion
  have key : ∀ (n : Nat) (s : St), ProperRun ⟨1, 1, true⟩ n s → ProperRunE ⟨1, 1, true⟩ n s := by
    intro n
    induction n with
    | zero => intro s _; trivial
    | succ n ih =>
      intro s hs
      unfold ProperRun at hs
      unfold ProperRunE
      split
      · trivial
      · rename_i t q hq
        rw [hq] at hs
        refine ⟨?_, fun s' h' => ih s' (hs.2 s' h')⟩
        have h1 := hs.1
        cases hsc : s.script with
        | nil => rw [hsc] at h1; simp [ProperHead] at h1
        | cons a sc =>
          rw [hsc] at h1
          cases a with
          | rows l => simp [ProperHead] at h1
          | cols l => simp [ProperHead] at h1
          | zeroVar pos => exact ⟨h1.1, Or.inr h1.2⟩
  exact key _ _ h

/-! ### total correctness -/

/-- the C04 + C05 conclusions about a final state (`learn_final_valid`, `learn_final_proportions`,
`learn_leaf_rows`) -/
def FinalSpec (nRows nCols : Nat) (s : St) : Prop :=
  s.queue = [] ∧
  ∃ t, result s = some t ∧ t.Valid ∧ t.scope = List.range nCols ∧ t.rows = List.range nRows ∧
    t.Proportions ∧ t.Routed ∧
    ∀ r sc ws ch, Tree.sum r sc ws ch ∈ t.subtrees →
      ws = ch.map (fun c => (c.rows.length, r.length)) ∧
      (∀ w ∈ ws, (0 : ℚ) < (w.1 : ℚ) / (w.2 : ℚ)) ∧
      (ws.map (fun w => (w.1 : ℚ) / (w.2 : ℚ))).sum = 1

theorem finalSpec_of_run (cfg : Cfg) (hf : cfg.front = true) (nRows nCols : Nat) (hr : 0 < nRows)
    (hc : 0 < nCols) (script : List Ans) (fuel : Nat) (s : St)
    (h : run cfg fuel (init nRows nCols script) = .ok s) (hq : s.queue = []) :
    learn cfg nRows nCols script = .ok s ∧ FinalSpec nRows nCols s := by
  have hl : learn cfg nRows nCols script = .ok s := by
    have := run_script_fuel cfg fuel _ s h hq
    simpa [learn, init, initOn] using this
  obtain ⟨t, h1, h2, h3, h4, h5, h6⟩ := learn_final_valid cfg hf nRows nCols hr hc script s hl hq
  obtain ⟨t', h1', h7⟩ := learn_final_proportions cfg hf nRows nCols hr hc script s hl hq
  rw [h1] at h1'
  cases h1'
  exact ⟨hl, hq, t, h1, h2, h3, h4, h5, h6, h7⟩

/-- **`learn_total`** — total correctness of LearnSPN against EVERY splitter behaviour. Let `O` be any
splitter-level oracle (what `np.var`, `split_rows_func`, `split_cols_func` return in iteration `k` on the slice
of task `t`) whose answers merely have the right shape (`O.Proper`). Then the repaired machine, fed by `O`,
halts: with fuel `B` (or any larger fuel, or the fuel of `learn`) it returns a state with an empty deque, having
consumed the oracle's transcript exactly, after `k ≤ B` iterations, and the returned structure is a valid
circuit over all columns, learned on all rows, whose sum weights are the row proportions of the children
they are attached to, positive and summing to one, with all rows routed. -/
theorem learn_total (cfg : Cfg) (hf : cfg.front = true) (nRows nCols : Nat) (hr : 0 < nRows) (hc : 0 < nCols)
    (O : Oracle) (hO : O.Proper) :
    ∃ script s k, script = O.transcript cfg (B nRows nCols cfg) 0 (init nRows nCols []) ∧
      runCount cfg (B nRows nCols cfg) (init nRows nCols script) = .ok (s, k) ∧ k ≤ B nRows nCols cfg ∧
      (∀ fuel, B nRows nCols cfg ≤ fuel → run cfg fuel (init nRows nCols script) = .ok s) ∧
      learn cfg nRows nCols script = .ok s ∧ s.script = [] ∧ FinalSpec nRows nCols s := by
  have hm := measure_init nRows nCols [] cfg
  obtain ⟨s, k, h1, h2, h3, h4⟩ :=
    O.transcript_run cfg hO (B nRows nCols cfg) 0 (init nRows nCols []) (by omega)
  have hr1 := runCount_run cfg _ _ s k h1
  obtain ⟨hl, hspec⟩ := finalSpec_of_run cfg hf nRows nCols hr hc _ _ s hr1 h2
  exact ⟨_, s, k, rfl, h1, by omega, fun fuel hfu => run_mono cfg _ _ s hr1 h2 fuel hfu, hl, h3, hspec⟩

/-- a splitter behaviour on a 6 × 3 data set: the first row split separates rows {0,1,2} from {3,4,5}; on
the slice {0,1,2} the row splitter FAILS (single cluster) while on its sibling {3,4,5} it SUCCEEDS (by
parity); the column splitter fails on slices of ≥ 3 rows and separates column 0 from the others on smaller
ones; no constant columns. -/
def exOracle : Oracle where
  zv := fun _ _ => []
  rows := fun _ t =>
    if t.rows.length = 6 then t.rows.map (fun r => if r < 3 then 0 else 1)
    else if t.rows = [0, 1, 2] then t.rows.map (fun _ => 7)
    else t.rows.map (fun r => ((r % 2 : Nat) : Int))
  cols := fun _ t =>
    if 3 ≤ t.rows.length then t.scope.map (fun _ => 0) else t.scope.map (fun c => if c = 0 then 0 else 1)

theorem exOracle_proper : exOracle.Proper := by
  intro k t
  refine ⟨?_, ?_, ?_⟩
  · intro i hi; simp [exOracle] at hi
  · simp only [ProperAns, exOracle]; split
    · simp
    · split <;> simp
  · simp only [ProperAns, exOracle]; split <;> simp

/-- non-vacuity of `learn_total`: the oracle is proper; its transcript has 20 entries, the loop runs 12 ≤ B =
87 iterations, and the result is
`S[3/6:L(rows=0 1 2), 3/6:S[1/3:L(rows=4), 2/3:P(L(rows=3 5;scope=0), L(rows=3 5;scope=1 2))]]`: the slice on
which the row split failed is a leaf, its sibling is split further -/
example : exOracle.Proper ∧ 0 < 6 ∧ 0 < 3 ∧
    ∃ p, runCount ⟨2, 2, true⟩ (B 6 3 ⟨2, 2, true⟩)
          (init 6 3 (exOracle.transcript ⟨2, 2, true⟩ (B 6 3 ⟨2, 2, true⟩) 0 (init 6 3 []))) = .ok p ∧
      (p.1.queue = [] ∧ p.1.script = [] ∧ p.2 = 12 ∧
       p.1.nodes.map (·.kind) = [.prod, .sum, .leaf, .sum, .leaf, .prod, .leaf, .leaf] ∧
       sumView p.1 1 = [((3, 6), [0, 1, 2]), ((3, 6), [3, 4, 5])] ∧
       sumView p.1 3 = [((1, 3), [4]), ((2, 3), [3, 5])] ∧ (p.1.node 5).children = [6, 7]) :=
  ⟨exOracle_proper, by decide, by decide, exists_ok_of_check _ _ (by decide +kernel)⟩

/-- **`learn_total_stream`** — the same for a flat infinite oracle `o : ℕ → Ans` (the `j`-th consultation,
whatever it is, is answered by `o j`) that is proper at every step it is consulted: `learn` on the first
`2·B` answers, and `run` with any fuel `≥ B`, end with an empty deque and the C04/C05 conclusions hold. -/
theorem learn_total_stream (cfg : Cfg) (hf : cfg.front = true) (nRows nCols : Nat) (hr : 0 < nRows)
    (hc : 0 < nCols) (o : Nat → Ans) (ho : ProperOracle cfg nRows nCols o) :
    ∃ s k, k ≤ B nRows nCols cfg ∧
      (∀ fuel, B nRows nCols cfg ≤ fuel →
        runCount cfg fuel (init nRows nCols (pre o (2 * B nRows nCols cfg))) = .ok (s, k) ∧
        run cfg fuel (init nRows nCols (pre o (2 * B nRows nCols cfg))) = .ok s) ∧
      learn cfg nRows nCols (pre o (2 * B nRows nCols cfg)) = .ok s ∧ FinalSpec nRows nCols s := by
  obtain ⟨s, k, h1, h2, h3, h4⟩ := learn_terminates cfg nRows nCols _ _ (ho (B nRows nCols cfg)) (le_refl _)
  obtain ⟨hl, hspec⟩ := finalSpec_of_run cfg hf nRows nCols hr hc _ _ s h2 h3
  refine ⟨s, k, h4, ?_, hl, hspec⟩
  intro fuel hfu
  obtain ⟨s', k', g1, g2, g3, g4⟩ := learn_terminates cfg nRows nCols _ fuel (ho (B nRows nCols cfg)) hfu
  have e := run_mono cfg _ _ s h2 h3 fuel hfu
  rw [g2] at e
  cases e
  -- same count: both count the iterations of the same finished run
  have hk : k' = k := by
    have a := runCount_mono cfg _ _ s k h1 h3 fuel hfu
    rw [g1] at a
    cases a
    rfl
  exact ⟨hk ▸ g1, g2⟩

/-- the flat script of the 6 × 3 scenario above (consultation order of the repaired machine) -/
def exStream : List Ans :=
  [.zeroVar [], .rows [0, 0, 0, 1, 1, 1],      -- root: rows {0,1,2} | {3,4,5}
   .zeroVar [], .cols [0, 0, 0],               -- {0,1,2}: column split fails
   .zeroVar [], .rows [7, 7, 7],               --          row split FAILS
   .zeroVar [],                                --          leaf
   .zeroVar [], .cols [0, 0, 0],               -- {3,4,5}: column split fails
   .zeroVar [], .rows [1, 0, 1],               --          row split SUCCEEDS: {4} | {3,5}
   .zeroVar [],                                -- {4}: 1 row < min_rows_slice ⇒ leaf
   .zeroVar [], .cols [0, 1, 1],               -- {3,5}: columns 0 | 1 2
   .zeroVar [],                                -- {3,5} × {0}: 1 column < min_cols_slice ⇒ leaf
   .zeroVar [], .cols [1, 1],                  -- {3,5} × {1,2}: column split fails
   .zeroVar [], .rows [1, 1],                  --                row split fails
   .zeroVar []]                                --                leaf

example : exStream = exOracle.transcript ⟨2, 2, true⟩ (B 6 3 ⟨2, 2, true⟩) 0 (init 6 3 []) := by
  decide +kernel

/-- non-vacuity of `learn_total_stream`: a proper infinite oracle for the 6 × 3 data set (the finite script
above, padded with `zeroVar []` forever) -/
example : ProperOracle ⟨2, 2, true⟩ 6 3 (fun j => exStream.getD j (.zeroVar [])) ∧ 0 < 6 ∧ 0 < 3 :=
  ⟨properOracle_of_script ⟨2, 2, true⟩ 6 3 exStream (.zeroVar []) 12
      (exists_ok_of_check _ _ (by decide +kernel)) (by decide +kernel) (by decide +kernel),
   by decide, by decide⟩

end Deeprob.LearnTerm
