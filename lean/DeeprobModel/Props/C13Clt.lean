import DeeprobModel.Lemmas.CltIoDecode
import DeeprobModel.Props.CltOrder
import DeeprobModel.Props.C13Gen
set_option linter.unusedSimpArgs false
set_option linter.unusedVariables false
/-
C13 ("… and all Chow-Liu trees × repeated save/load generations") for `save_binary_clt_json` /
`load_binary_clt_json` of deeprob/spn/structure/io.py, on the model of Model/CltIo.lean
(`binary_clt_to_digraph`, `node_link_data`, `node_link_graph`, `is_arborescence`, `in_degree`,
`bfs_predecessors`, `digraph_to_binary_clt`, the `BinaryCLT` constructor).

An object is *admissible* when it is what a constructed / fitted `BinaryCLT` holds: a well-formed predecessor
vector (`WellFormedPred`), a duplicate-free scope of the same length, parameters of shape `(n, 2, 2)`.
Non-vacuity: the regression tree `[3, 4, 1, -1, 0]` of Props/CltOrder.lean with variable ids `[7, 3, 9, 2, 5]`.
-/
namespace Deeprob.GraphIo
open Deeprob Deeprob.Clt Deeprob.CltFit

/-- what a `BinaryCLT` that went through its constructor (or `fit`) satisfies -/
structure Admissible (o : CltObj) : Prop where
  wf : WellFormedPred o.tree
  scope_len : o.scope.length = o.tree.length
  scope_nodup : o.scope.Nodup
  shape : shapeOK o.tree.length o.params = true

/-- the example object: log-domain parameters that are not on the 10⁻⁸ grid -/
def exObj : CltObj :=
  { scope := exScope, tree := exTree,
    params := [[[-12039728043/10000000000, -1/3], [-1/2, -9162907319/10000000000]],
               [[-16094379124/10000000000, -2231435513/10000000000], [-1/2, -1/2]],
               [[-23025850930/10000000000, -1053605157/10000000000], [-2/3, -7/10]],
               [[-13862943611/10000000000, -2876820724/10000000000], [-13862943611/10000000000, -2876820724/10000000000]],
               [[-1/7, -2/7], [-3/7, -4/7]]] }

theorem exObj_admissible : Admissible exObj := ⟨exTree_wf, rfl, by decide, by decide⟩

/-! ## the document -/

/-- **the document form**: for an admissible object `save_binary_clt_json` writes the nodes `0, …, n-1` in this order,
node `i` carrying `scope[i]` and the table `params[i]` with every entry rounded to 8 decimals (`round8`), and
the edges `(tree[i], i)` for `tree[i] ≠ -1` — listed grouped by source, sources and targets increasing. -/
theorem cltEncode_form (o : CltObj) (ha : Admissible o) :
    ∃ d, cltEncode o = some d ∧
      d.nodes = (List.range o.tree.length).map (fun i =>
        (i, some { scope := o.scope.getD i 0, weight := (o.params.getD i []).map (fun row => row.map round8) })) ∧
      d.edges = (List.range o.tree.length).flatMap (fun p => (Clt.childrenOf o.tree p).map (fun c => (p, c))) ∧
      (∀ p c, (p, c) ∈ d.edges ↔ c < o.tree.length ∧ o.tree.getD c (-1) = (p : Int)) ∧ d.edges.Nodup := by
  obtain ⟨r, h⟩ := WF.of_wf ha.wf
  have hpl : o.params.length = o.tree.length := by
    have := ha.shape
    unfold shapeOK at this
    rw [Bool.and_eq_true] at this
    simpa using this.1
  refine ⟨docOfGraph (canon o), ?_, ?_, ?_, ?_, ?_⟩
  · unfold cltEncode; rw [cltToDigraph_eq h ha.scope_len hpl]; rfl
  · unfold docOfGraph canon Gn; simp only [List.map_map]; rfl
  · show edgesOf (canon o) = _
    rw [edgesOf_canon]; rfl
  · intro p c
    show (p, c) ∈ edgesOf (canon o) ↔ _
    rw [edgesOf_canon]
    unfold docEdges
    rw [List.mem_flatMap]
    constructor
    · rintro ⟨p', _, hm⟩
      rw [List.mem_map] at hm
      obtain ⟨c', hc', heq⟩ := hm
      cases heq
      exact mem_childrenOf_iff.1 hc'
    · rintro ⟨hc, he⟩
      have hpl' : p < o.tree.length := by
        have hcr : c ≠ r := by
          rintro rfl; rw [h.root_entry] at he; omega
        obtain ⟨p', _, _, hp'l, hp'e⟩ := h.parent_ne hc hcr
        have : p = p' := by rw [hp'e] at he; omega
        omega
      exact ⟨p, List.mem_range.2 hpl', by
        rw [List.mem_map]; exact ⟨c, mem_childrenOf_iff.2 ⟨hc, he⟩, rfl⟩⟩
  · show (edgesOf (canon o)).Nodup
    rw [edgesOf_canon]; exact docEdges_nodup _

example : ∃ d, cltEncode exObj = some d ∧ d.edges = [(0, 4), (1, 2), (3, 0), (4, 1)] ∧
    d.nodes.map (·.1) = [0, 1, 2, 3, 4] ∧
    d.nodes.head? = some (0, some { scope := 7, weight := [[-120397280/100000000, -33333333/100000000],
                                                         [-1/2, -91629073/100000000]] }) := by
  refine ⟨_, rfl, ?_, ?_, ?_⟩ <;> decide +kernel

/-! ## decode ∘ encode -/

/-- **cltDecode_encode**: loading the document of an admissible object does not raise and returns the same scope
list, the same predecessor vector (hence the same root), the parameters rounded to 8 decimals — and the `bfs` the
loaded object holds is `compute_bfs_ordering` of that vector, i.e. the breadth-first order of
`bfsOrder_levels`. -/
theorem cltDecode_encode (o : CltObj) (ha : Admissible o) :
    ∃ d o', cltEncode o = some d ∧ cltDecode d = some o' ∧
      o'.scope = o.scope ∧ o'.tree = o.tree ∧ o'.root = o.root ∧
      o'.params = o.params.map (fun t => t.map (fun row => row.map round8)) ∧
      o'.bfs = computeBfsOrdering o.tree ∧
      (∃ r, o'.root = some r ∧ o'.bfs = some ((List.range o.tree.length).flatMap (level o.tree r))) := by
  obtain ⟨r, h⟩ := WF.of_wf ha.wf
  have hpl : o.params.length = o.tree.length := by
    have := ha.shape
    unfold shapeOK at this
    rw [Bool.and_eq_true] at this
    simpa using this.1
  refine ⟨docOfGraph (canon o), reloadWith id o, ?_, ?_, rfl, rfl, rfl, ?_, rfl, r, h.root, h.bfs_eq⟩
  · unfold cltEncode; rw [cltToDigraph_eq h ha.scope_len hpl]; rfl
  · unfold cltDecode
    rw [graphOfDoc_canon, digraphToClt_canon id h ha.scope_len ha.scope_nodup ha.shape]
  · rfl

example : ∃ d o', cltEncode exObj = some d ∧ cltDecode d = some o' ∧ o'.scope = [7, 3, 9, 2, 5] ∧
    o'.tree = [3, 4, 1, -1, 0] ∧ o'.root = some 3 ∧ o'.bfs = some [3, 0, 4, 1, 2] := by
  obtain ⟨d, o', h1, h2, h3, h4, h5, _, h7, _⟩ := cltDecode_encode exObj exObj_admissible
  refine ⟨d, o', h1, h2, h3, h4, ?_, ?_⟩
  · rw [h5]; decide
  · rw [h7]; decide

/-! ## rejection -/

/-- **cltDecode_rejects_non_tree**: `is_arborescence` is modelled by the decidable `isArborescence` — non-empty,
`n - 1` edges, weakly connected (component of the first node), maximum in-degree ≤ 1 — which is sound for
`IsArborescence` (the undirected graph of the edges connects every node to the first one, `n - 1` edges, no two
edges into one node).  A document whose graph is NOT such an arborescence is rejected by `load_binary_clt_json`
(`ValueError("The graph is not a tree")`), whatever its attributes are, with or without float32 storage. -/
theorem cltDecode_rejects_non_tree (d : CDoc) (h : ¬ IsArborescence (graphOfDoc d)) :
    cltDecode d = none ∧ cltLoad32 d = none := by
  have hb : isArborescence (graphOfDoc d) = false := by
    cases hh : isArborescence (graphOfDoc d) with
    | false => rfl
    | true => exact absurd (isArborescence_sound hh) h
  constructor
  · unfold cltDecode digraphToClt; rw [hb]; rfl
  · unfold cltLoad32 digraphToClt; rw [hb]; rfl

/-- a directed 3-cycle with a pendant node (4 nodes, 4 edges), two roots into one node (in-degree 2), two
components, and the empty document: none is an arborescence, all are rejected -/
example :
    let a : Option CAttr := some { scope := 0, weight := [[0, 0], [0, 0]] }
    cltDecode { nodes := [(0, a), (1, a), (2, a), (3, a)], edges := [(0, 1), (1, 2), (2, 0), (0, 3)] } = none ∧
    cltDecode { nodes := [(0, a), (1, a), (2, a)], edges := [(0, 1), (2, 1)] } = none ∧
    cltDecode { nodes := [(0, a), (1, a), (2, a), (3, a)], edges := [(0, 1), (2, 3)] } = none ∧
    cltDecode { nodes := [], edges := [] } = none ∧
    ¬ IsArborescence (graphOfDoc { nodes := [(0, a), (1, a), (2, a)], edges := [(0, 1), (2, 1)] }) := by
  intro a
  refine ⟨by decide +kernel, by decide +kernel, by decide +kernel, by decide +kernel, ?_⟩
  intro h
  have := h.indeg 1 (by decide)
  revert this
  decide

/-- conversely every accepted document is an arborescence, and the object it yields went through the constructor:
duplicate-free scope, as many predecessors as variables, exactly one root, and its `bfs` is
`compute_bfs_ordering(tree)` (the loaded object computes it) -/
theorem cltDecode_accepts_only_trees (d : CDoc) (o' : CltObj) (h : cltDecode d = some o') :
    IsArborescence (graphOfDoc d) ∧ o'.scope.Nodup ∧ o'.tree.length = o'.scope.length ∧
    ∃ r bfs, o'.root = some r ∧ o'.bfs = some bfs ∧ computeBfsOrdering o'.tree = some bfs := by
  obtain ⟨harb, scope, tree, params, hmk⟩ := digraphToClt_some h
  obtain ⟨h1, h2, h3, h4, r, bfs, h5, h6⟩ := mkClt_some hmk
  refine ⟨isArborescence_sound harb, by rw [h1]; exact h3, by rw [h1, h2]; exact h4, r, bfs, ?_, ?_, ?_⟩
  · unfold CltObj.root; rw [h2]; exact h5
  · unfold CltObj.bfs; rw [h2]; exact h6
  · rw [h2]; exact h6

example : ∃ o', cltDecode { nodes := [(2, some ⟨5, [[0, 0], [0, 0]]⟩), (0, some ⟨6, [[0, 0], [0, 0]]⟩),
    (1, some ⟨4, [[0, 0], [0, 0]]⟩)], edges := [(2, 1), (2, 0)] } = some o' ∧ o'.tree = [2, 2, -1] ∧
    o'.scope = [6, 4, 5] ∧ o'.bfs = some [2, 0, 1] :=
  ⟨{ scope := [6, 4, 5], tree := [2, 2, -1], params := [[[0, 0], [0, 0]], [[0, 0], [0, 0]], [[0, 0], [0, 0]]] },
    by decide +kernel, rfl, rfl, by decide⟩

/-! ## generations with float32 storage -/

/-- what the object reloaded with float32 storage holds -/
def reload32 (o : CltObj) : CltObj := reloadWith Io32.load32 o

theorem reload32_admissible {o : CltObj} (ha : Admissible o) : Admissible (reload32 o) :=
  ⟨ha.wf, ha.scope_len, ha.scope_nodup, by
    show shapeOK o.tree.length (o.params.map _) = true
    rw [shapeOK_map o.tree.length (fun x => Io32.load32 (round8 x)) o.params]; exact ha.shape⟩

theorem cltLoad32_encode (o : CltObj) (ha : Admissible o) :
    ∃ d, cltEncode o = some d ∧ cltLoad32 d = some (reload32 o) := by
  obtain ⟨r, h⟩ := WF.of_wf ha.wf
  have hpl : o.params.length = o.tree.length := by
    have := ha.shape
    unfold shapeOK at this
    rw [Bool.and_eq_true] at this
    simpa using this.1
  refine ⟨docOfGraph (canon o), ?_, ?_⟩
  · unfold cltEncode; rw [cltToDigraph_eq h ha.scope_len hpl]; rfl
  · unfold cltLoad32
    rw [graphOfDoc_canon, digraphToClt_canon Io32.load32 h ha.scope_len ha.scope_nodup ha.shape]; rfl

example : ∃ d, cltEncode exObj = some d ∧ cltLoad32 d = some (reload32 exObj) ∧
    ((reload32 exObj).params.head?.map (fun t => t.head?)) = some (some [-1262457/1048576, -11184811/33554432]) := by
  obtain ⟨d, h1, h2⟩ := cltLoad32_encode exObj exObj_admissible
  exact ⟨d, h1, h2, by decide +kernel⟩

theorem reload32_idem (o : CltObj) : reload32 (reload32 o) = reload32 o := by
  unfold reload32 reloadWith
  simp only [List.map_map]
  congr 1
  apply List.map_congr_left; intro t _
  simp only [Function.comp, List.map_map]
  apply List.map_congr_left; intro row _
  simp only [Function.comp, List.map_map]
  apply List.map_congr_left; intro x _
  exact Io32.load32_save_load32 x

/-- **cltDocs_stable_from_gen2**: for every admissible object — whatever rationals its parameters are (float32,
float64, anything) — three save/load generations through the float32 storage of the constructor succeed; scope,
tree, root and bfs never change; the in-memory object is stable from the FIRST reload on (`o₂ = o₁`) and the
document from the SECOND generation on (`d₃ = d₂`). -/
theorem cltDocs_stable_from_gen2 (o : CltObj) (ha : Admissible o) :
    ∃ d1 o1 d2 o2 d3, cltEncode o = some d1 ∧ cltLoad32 d1 = some o1 ∧ cltEncode o1 = some d2 ∧
      cltLoad32 d2 = some o2 ∧ cltEncode o2 = some d3 ∧
      d3 = d2 ∧ o2 = o1 ∧ o1.scope = o.scope ∧ o1.tree = o.tree ∧ o1.root = o.root ∧ o1.bfs = o.bfs ∧
      o1.params = o.params.map (fun t => t.map (fun row => row.map (fun x => Io32.load32 (round8 x)))) := by
  obtain ⟨d1, h1, h1'⟩ := cltLoad32_encode o ha
  obtain ⟨d2, h2, h2'⟩ := cltLoad32_encode (reload32 o) (reload32_admissible ha)
  rw [reload32_idem] at h2'
  refine ⟨d1, reload32 o, d2, reload32 o, d2, h1, h1', h2, h2', h2, rfl, rfl, rfl, rfl, rfl, rfl, rfl⟩

example : ∃ d1 o1 d2 o2 d3, cltEncode exObj = some d1 ∧ cltLoad32 d1 = some o1 ∧ cltEncode o1 = some d2 ∧
    cltLoad32 d2 = some o2 ∧ cltEncode o2 = some d3 ∧ d3 = d2 ∧ o2 = o1 ∧ d2 ≠ d1 := by
  obtain ⟨d1, o1, d2, o2, d3, h1, h2, h3, h4, h5, h6, h7, _⟩ := cltDocs_stable_from_gen2 exObj exObj_admissible
  refine ⟨d1, o1, d2, o2, d3, h1, h2, h3, h4, h5, h6, h7, ?_⟩
  -- the first document differs from the second: -1/3 ↦ -0.33333333 ↦ float32 ↦ -0.33333334
  intro hEq
  subst hEq
  have hdocs : cltGenDocs 2 exObj = [some d2, some d2] := by
    unfold cltGenDocs
    simp only [h1, Option.bind_some, h2]
    unfold cltGenDocs
    simp only [h3, Option.bind_some, h4]
    rfl
  have : cltGenDocs 2 exObj ≠ [some d2, some d2] := by
    intro hh
    have h0 : (cltGenDocs 2 exObj)[0]? = (cltGenDocs 2 exObj)[1]? := by rw [hh]; rfl
    revert h0
    decide +kernel
  exact this hdocs

/-- **cltDocs_stable_from_gen1_of_f32**: when every stored parameter already is a float32 (constructor from a list,
`fit`, `em_step`, any reloaded object) the DOCUMENT is stable from the first generation on -/
theorem cltDocs_stable_from_gen1_of_f32 (o : CltObj) (ha : Admissible o)
    (hf : ∀ t ∈ o.params, ∀ row ∈ t, ∀ x ∈ row, Io32.f32 x = x) :
    ∃ d1 o1, cltEncode o = some d1 ∧ cltLoad32 d1 = some o1 ∧ cltEncode o1 = some d1 := by
  obtain ⟨d1, h1, h1'⟩ := cltLoad32_encode o ha
  obtain ⟨d2, h2, _⟩ := cltLoad32_encode (reload32 o) (reload32_admissible ha)
  refine ⟨d1, reload32 o, h1, h1', ?_⟩
  rw [h2]
  -- both documents are the canonical ones; they agree because round8 ∘ load32 ∘ round8 = round8 on float32 values
  obtain ⟨r, h⟩ := WF.of_wf ha.wf
  have hpl : o.params.length = o.tree.length := by
    have := ha.shape
    unfold shapeOK at this
    rw [Bool.and_eq_true] at this
    simpa using this.1
  have e1 : cltEncode o = some (docOfGraph (canon o)) := by
    unfold cltEncode; rw [cltToDigraph_eq h ha.scope_len hpl]; rfl
  have e2 : cltEncode (reload32 o) = some (docOfGraph (canon (reload32 o))) := by
    unfold cltEncode
    rw [cltToDigraph_eq (o := reload32 o) h ha.scope_len (by
      show (o.params.map _).length = _
      rw [List.length_map]; exact hpl)]; rfl
  rw [e1] at h1; rw [e2] at h2
  cases h1; cases h2
  congr 2
  unfold canon
  apply Gn_congr _ (fun _ _ => rfl)
  intro i hi
  congr 1
  unfold nodeAttr reload32 reloadWith
  simp only
  congr 1
  unfold roundTable
  have hi' : i < o.params.length := by rw [hpl]; exact hi
  simp only [List.getD_eq_getElem?_getD, List.getElem?_map, List.getElem?_eq_getElem hi', Option.map_some,
    Option.getD_some, List.map_map]
  apply List.map_congr_left; intro row hrow
  simp only [Function.comp, List.map_map]
  apply List.map_congr_left; intro x hx
  exact Io32.gen1_doc_stable32 x (hf _ (List.getElem_mem hi') row hrow x hx)

example : ∃ d1 o1, cltEncode (reload32 exObj) = some d1 ∧ cltLoad32 d1 = some o1 ∧ cltEncode o1 = some d1 := by
  apply cltDocs_stable_from_gen1_of_f32 _ (reload32_admissible exObj_admissible)
  intro t ht row hrow x hx
  unfold reload32 reloadWith at ht
  simp only [List.mem_map] at ht
  obtain ⟨t0, _, rfl⟩ := ht
  simp only [List.mem_map] at hrow
  obtain ⟨row0, _, rfl⟩ := hrow
  simp only [List.mem_map] at hx
  obtain ⟨x0, _, rfl⟩ := hx
  exact Io32.f32_idem _

end Deeprob.GraphIo
