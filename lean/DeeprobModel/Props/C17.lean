import DeeprobModel.Lemmas.TensorCirc
import Mathlib.Algebra.Ring.Rat
import Mathlib.Tactic.NormNum
/-
C17 — DGC-SPNs are smooth, decomposable and normalised.

Accepted configurations: `DgcSpn.accepted h w n_pooling` = the shape guards of `DgcSpn.__init__`
(square input `D × D`, `0 ≤ n_pooling ≤ depth` with `depth = ⌈log₂ D⌉ = clog2 D`).  `D ≤ 2^depth` holds
by the definition of `depth` (`dgc_size`, last conjunct) and is what makes the one-sided `final`
padding non-negative and the last product layer cover everything.  "Pooling stages divide the image
side evenly" is the hypothesis `2^p ∣ D`.

1-D scopes: `stage D p dw i` is the list of the 1-D pixel-coordinate scopes of the cells after the
first `i` product layers (the same list for rows and columns; the 2-D scope of cell `(r, c)` is the
rectangle `stage[r] × stage[c]` over all input channels, see `GInv`).
-/
namespace Deeprob
namespace DgcSpn

/-- **dgc_size**: spatial sizes.  After `i ≤ p` pooling layers: `⌊D/2^i⌋`; after `p` pooling layers
and `k` dilated (`full`) layers: `⌊D/2^p⌋ + 2^k - 1`; after the last (`final`) layer: `2^(depth-p)`;
and `D ≤ 2^depth`. -/
theorem dgc_size (D p : Nat) (dw : Nat → Bool) (hp : p ≤ clog2 D) :
    (∀ i, (stage D p dw i).length = sizeAfter D p dw i) ∧
    (∀ i, i ≤ p → sizeAfter D p dw i = D / 2 ^ i) ∧
    (∀ k, p + k ≤ clog2 D → sizeAfter D p dw (p + k) = D / 2 ^ p + 2 ^ k - 1) ∧
    sizeAfter D p dw (clog2 D + 1) = 2 ^ (clog2 D - p) ∧ D ≤ 2 ^ clog2 D := by
  refine ⟨stage_length D p dw, ?_, ?_, ?_, (clog2_spec D).1⟩
  · intro i hi; rw [← stage_length]; exact (stage_pool D p dw i hi).1
  · intro k hk; rw [← stage_length]; exact (stage_full D p dw hp k hk).1
  · rw [← stage_length]; exact (stage_final D p dw hp).1

/-- non-vacuity: a 6×6 image, one pooling stage: sizes 6 → 3 → 4 → 6 → 4 -/
example : accepted 6 6 1 = true ∧ clog2 6 = 3 ∧
    (List.range 5).map (sizeAfter 6 1 (fun _ => true)) = [6, 3, 4, 6, 4] := by decide

/-- **dgc_scope_1d**: after `p` pooling layers and `k` dilated layers (dilations `1, 2, …, 2^(k-1)`)
cell `j` covers exactly the pixel coordinates `x` whose pooled coordinate `c = ⌊x/2^p⌋` satisfies
`0 ≤ c < ⌊D/2^p⌋` and `j - 2^k + 1 ≤ c ≤ j`; each of them once.  (Holds for every `j`, also beyond the
grid, where the scope is empty.) -/
theorem dgc_scope_1d (D p : Nat) (dw : Nat → Bool) (hp : p ≤ clog2 D) (k : Nat) (hk : p + k ≤ clog2 D) (j : Nat) :
    (∀ x, x ∈ (stage D p dw (p + k)).getD j [] ↔
      (x / 2 ^ p < D / 2 ^ p ∧ x / 2 ^ p ≤ j ∧ j < x / 2 ^ p + 2 ^ k)) ∧
    ((stage D p dw (p + k)).getD j []).Nodup := by
  obtain ⟨_, hm, hn⟩ := stage_full D p dw hp k hk
  exact ⟨hm j, hn j⟩

/-- without pooling: cell `j` after `k` layers covers `[j - 2^k + 1, j] ∩ [0, D)` -/
theorem dgc_scope_1d_nopool (D : Nat) (dw : Nat → Bool) (k : Nat) (hk : k ≤ clog2 D) (j x : Nat) :
    x ∈ (stage D 0 dw k).getD j [] ↔ (x < D ∧ x ≤ j ∧ j < x + 2 ^ k) := by
  have := (dgc_scope_1d D 0 dw (Nat.zero_le _) k (by omega) j).1 x
  simpa using this

example : stage 6 1 (fun _ => true) 3 = [[0, 1], [0, 1, 2, 3], [0, 1, 2, 3, 4, 5], [0, 1, 2, 3, 4, 5], [2, 3, 4, 5], [4, 5]] ∧
    stage 5 0 (fun _ => true) 2 = [[0], [0, 1], [0, 1, 2], [0, 1, 2, 3], [1, 2, 3, 4], [2, 3, 4], [3, 4], [4]] := by
  decide

/-- **dgc_pool_scope**: after `i ≤ p` pooling layers cell `j < ⌊D/2^i⌋` covers exactly the block
`{x | ⌊x/2^i⌋ = j}`, each pixel once; and if `2^i ∣ D` every pixel `x < D` lies in exactly one cell
(without divisibility the last `D mod 2^i` pixels are in no cell, see the example). -/
theorem dgc_pool_scope (D p : Nat) (dw : Nat → Bool) (i : Nat) (hi : i ≤ p) :
    (∀ j x, x ∈ (stage D p dw i).getD j [] ↔ (j < D / 2 ^ i ∧ x / 2 ^ i = j)) ∧
    (∀ j, ((stage D p dw i).getD j []).Nodup) ∧
    (2 ^ i ∣ D → ∀ x, x < D → x ∈ (stage D p dw i).getD (x / 2 ^ i) [] ∧
      ∀ j, x ∈ (stage D p dw i).getD j [] → j = x / 2 ^ i) := by
  obtain ⟨_, hm, hn⟩ := stage_pool D p dw i hi
  refine ⟨hm, hn, ?_⟩
  intro hdiv x hx
  refine ⟨?_, ?_⟩
  · rw [hm]; exact ⟨(div_lt_div_iff_of_dvd (RatSpn.two_pow_pos i) hdiv).2 hx, rfl⟩
  · intro j hj; rw [hm] at hj; exact hj.2.symm

/-- 6 = 2·3: the pooled cells partition the pixels; 5 is odd: pixel 4 is dropped by the pooling layer -/
example : stage 6 1 (fun _ => true) 1 = [[0, 1], [2, 3], [4, 5]] ∧
    stage 5 1 (fun _ => true) 1 = [[0, 1], [2, 3]] := by decide

/-- **dgc_product_disjoint**: in every product layer `i ≤ depth` the two 1-D kernel taps of an output
cell have disjoint scopes, hence the four cells multiplied by one product cell `(r, c)` have pairwise
disjoint pixel rectangles (decomposability), and (inside the grid) their union is the rectangle of the
output cell. -/
theorem dgc_product_disjoint (C D p : Nat) (dw : Nat → Bool) (hp : p ≤ clog2 D) (i : Nat) (hi : i ≤ clog2 D)
    (r c : Nat) :
    let T0 := tap0 (cfgAt D p dw i) (stage D p dw i)
    let T1 := tap1 (cfgAt D p dw i) (stage D p dw i)
    (∀ x, x ∈ T0 r → x ∉ T1 r) ∧
    (∀ v, v ∈ pixels C D (T0 r) (T0 c) → v ∉ pixels C D (T0 r) (T1 c)) ∧
    (∀ v, v ∈ pixels C D (T0 r) (T0 c) → v ∉ pixels C D (T1 r) (T0 c)) ∧
    (∀ v, v ∈ pixels C D (T0 r) (T0 c) → v ∉ pixels C D (T1 r) (T1 c)) ∧
    (∀ v, v ∈ pixels C D (T0 r) (T1 c) → v ∉ pixels C D (T1 r) (T0 c)) ∧
    (∀ v, v ∈ pixels C D (T0 r) (T1 c) → v ∉ pixels C D (T1 r) (T1 c)) ∧
    (∀ v, v ∈ pixels C D (T1 r) (T0 c) → v ∉ pixels C D (T1 r) (T1 c)) ∧
    (r < sizeAfter D p dw (i + 1) → c < sizeAfter D p dw (i + 1) → ∀ v,
      v ∈ pixels C D ((stage D p dw (i + 1)).getD r []) ((stage D p dw (i + 1)).getD c []) ↔
        (v ∈ pixels C D (T0 r) (T0 c) ∨ v ∈ pixels C D (T0 r) (T1 c) ∨
         v ∈ pixels C D (T1 r) (T0 c) ∨ v ∈ pixels C D (T1 r) (T1 c))) := by
  obtain ⟨_, hlt, hdis⟩ := layer_ok D p dw hp i hi
  have l0 : ∀ j x, x ∈ tap0 (cfgAt D p dw i) (stage D p dw i) j → x < D := fun j x h => hlt j x (Or.inl h)
  have l1 : ∀ j x, x ∈ tap1 (cfgAt D p dw i) (stage D p dw i) j → x < D := fun j x h => hlt j x (Or.inr h)
  refine ⟨hdis r, ?_, ?_, ?_, ?_, ?_, ?_, ?_⟩
  · intro v h; exact pixels_disjoint (l0 r) (l0 r) (l0 c) (l1 c) (Or.inr (hdis c)) h
  · intro v h; exact pixels_disjoint (l0 r) (l1 r) (l0 c) (l0 c) (Or.inl (hdis r)) h
  · intro v h; exact pixels_disjoint (l0 r) (l1 r) (l0 c) (l1 c) (Or.inl (hdis r)) h
  · intro v h; exact pixels_disjoint (l0 r) (l1 r) (l1 c) (l0 c) (Or.inl (hdis r)) h
  · intro v h; exact pixels_disjoint (l0 r) (l1 r) (l1 c) (l1 c) (Or.inl (hdis r)) h
  · intro v h; exact pixels_disjoint (l1 r) (l1 r) (l0 c) (l1 c) (Or.inr (hdis c)) h
  · intro hr hc v
    rw [← stage_length] at hr hc
    rw [stage, prodScopes_length] at hr hc
    rw [stage, prodScopes_getD, if_pos hr, prodScopes_getD, if_pos hc, mem_pixels_append]

/-- the taps of cell 1 of the second layer of the 6×6 / one-pooling network: pooled cells 0 and 1 -/
example : tap0 (cfgAt 6 1 (fun _ => true) 1) (stage 6 1 (fun _ => true) 1) 1 = [0, 1] ∧
    tap1 (cfgAt 6 1 (fun _ => true) 1) (stage 6 1 (fun _ => true) 1) 1 = [2, 3] := by decide

/-- **dgc_final_full**: every cell entering the root layer (there are `2^(depth-p)` per axis) covers
all pooled coordinates; if `2^p ∣ D` it covers exactly all pixel coordinates `0..D-1`, each once.
The relation the constructor guarantees and the proof uses is `⌊D/2^p⌋ ≤ 2^(depth-p)`, from
`D ≤ 2^depth`, `depth = ⌈log₂ D⌉`. -/
theorem dgc_final_full (D p : Nat) (dw : Nat → Bool) (hp : p ≤ clog2 D) :
    (stage D p dw (clog2 D + 1)).length = 2 ^ (clog2 D - p) ∧
    (∀ j x, j < 2 ^ (clog2 D - p) → (x ∈ (stage D p dw (clog2 D + 1)).getD j [] ↔ x / 2 ^ p < D / 2 ^ p)) ∧
    (2 ^ p ∣ D → ∀ j x, j < 2 ^ (clog2 D - p) → (x ∈ (stage D p dw (clog2 D + 1)).getD j [] ↔ x < D)) ∧
    (∀ j, ((stage D p dw (clog2 D + 1)).getD j []).Nodup) ∧
    finalScopes D p = stage D p (fun _ => true) (clog2 D + 1) := by
  obtain ⟨hl, hm, hn⟩ := stage_final D p dw hp
  refine ⟨hl, hm, ?_, hn, finalScopes_eq D p⟩
  intro hdiv j x hj
  rw [hm j x hj, div_lt_div_iff_of_dvd (RatSpn.two_pow_pos p) hdiv]

example : finalScopes 6 1 = [[0, 1, 2, 3, 4, 5], [0, 1, 2, 3, 4, 5], [0, 1, 2, 3, 4, 5], [0, 1, 2, 3, 4, 5]] ∧
    finalScopes 5 1 = [[0, 1, 2, 3], [0, 1, 2, 3], [0, 1, 2, 3], [0, 1, 2, 3]] := by decide

section circuit
variable {α : Type} [CommSemiring α]

/-- **dgc_sum_same_scope**: a spatial sum layer mixes, per cell, the channels of the *same* cell: if
every cell `(ch, r, c)` of the input grid is a valid circuit over the rectangle `S[r] × S[c]`, so is
every cell of the output grid (smoothness), with unchanged scopes. -/
theorem dgc_sum_same_scope (dom : Nat → Nat) (C D : Nat) (S : List (List Nat)) (G : Grid α)
    (hG : GInv dom C D S G) (w : Nat → Nat → Nat → List α) (hw : ∀ o r c, (w o r c).length = G.ch)
    (outCh : Nat) (ho : 0 < outCh) :
    GInv dom C D S (sumGrid w outCh G) ∧
    ∀ o r c, ((sumGrid w outCh G).at_ o r c).scope = (G.at_ 0 r c).scope :=
  ⟨sumGrid_inv dom C D S G hG w hw outCh ho, fun _ _ _ => rfl⟩

/-- **dgc_valid**: for every accepted configuration (`p ≤ depth`) whose pooling stages divide the side
evenly (`2^p ∣ D`), any channel counts, depth-wise flags, univariate leaf distributions and weights of
the shapes the constructor allocates, the unrolled DGC-SPN is a smooth and decomposable circuit over all
`C·D·D` pixel variables: every product multiplies four cells with pairwise disjoint rectangles, every
sum mixes channels of one cell, every cell entering the root covers all pixels. -/
theorem dgc_valid (dom : Nat → Nat) (C D p : Nat) (dw : Nat → Bool) (batch sumCh : Nat)
    (hacc : accepted D D p = true) (hb : 0 < batch) (hs : 0 < sumCh) (hdiv : 2 ^ p ∣ D)
    (lf : Nat → Nat → Nat → Nat → Ev → α)
    (hleaf : ∀ b ch r c, r < D → c < D → LeafOK dom [pix D ch r c] (lf b ch r c))
    (w : Nat → Nat → Nat → Nat → List α)
    (hw : ∀ i o r c, (w i o r c).length = outChannels (cfgAt D p dw i) (if i = 0 then batch else sumCh))
    (wroot : List α)
    (hroot : wroot.length = lastCh D p dw batch sumCh * (2 ^ (clog2 D - p) * 2 ^ (clog2 D - p))) :
    Circ.Valid dom (unroll C D p batch sumCh dw lf w wroot) ∧
    (unroll C D p batch sumCh dw lf w wroot).scope = pixels C D (List.range D) (List.range D) := by
  have hp : p ≤ clog2 D := by simpa [accepted] using hacc
  exact ⟨dgc_valid_aux dom C D p dw batch sumCh hb hs hp hdiv lf hleaf w hw wroot hroot, rfl⟩

/-- exact NaN-marginalisation for DGC-SPNs -/
theorem dgc_marg (dom : Nat → Nat) (C D p : Nat) (dw : Nat → Bool) (batch sumCh : Nat)
    (hacc : accepted D D p = true) (hb : 0 < batch) (hs : 0 < sumCh) (hdiv : 2 ^ p ∣ D)
    (lf : Nat → Nat → Nat → Nat → Ev → α)
    (hleaf : ∀ b ch r c, r < D → c < D → LeafOK dom [pix D ch r c] (lf b ch r c))
    (w : Nat → Nat → Nat → Nat → List α)
    (hw : ∀ i o r c, (w i o r c).length = outChannels (cfgAt D p dw i) (if i = 0 then batch else sumCh))
    (wroot : List α)
    (hroot : wroot.length = lastCh D p dw batch sumCh * (2 ^ (clog2 D - p) * 2 ^ (clog2 D - p))) (e : Ev) :
    Circ.eval e (unroll C D p batch sumCh dw lf w wroot) =
      sumOver dom (pixels C D (List.range D) (List.range D)) e
        (fun e' => Circ.eval e' (unroll C D p batch sumCh dw lf w wroot)) := by
  obtain ⟨hv, hsc⟩ := dgc_valid dom C D p dw batch sumCh hacc hb hs hdiv lf hleaf w hw wroot hroot
  have := Circ.marg dom _ hv e
  rwa [hsc] at this

/-- **normalised / all_missing_zero**: with normalised mixture weights and leaves of total mass one, a
fully missing input has probability one (log-probability zero) and the values sum to one over all
completions: each class output is a normalised density. -/
theorem dgc_normalised (dom : Nat → Nat) (C D p : Nat) (dw : Nat → Bool) (batch sumCh : Nat)
    (hacc : accepted D D p = true) (hb : 0 < batch) (hs : 0 < sumCh) (hdiv : 2 ^ p ∣ D)
    (lf : Nat → Nat → Nat → Nat → Ev → α)
    (hleaf : ∀ b ch r c, r < D → c < D → LeafOK dom [pix D ch r c] (lf b ch r c))
    (hl1 : ∀ b ch r c, lf b ch r c (fun _ => none) = 1)
    (w : Nat → Nat → Nat → Nat → List α)
    (hw : ∀ i o r c, (w i o r c).length = outChannels (cfgAt D p dw i) (if i = 0 then batch else sumCh))
    (hw1 : ∀ i o r c, tsum (w i o r c) = 1)
    (wroot : List α)
    (hroot : wroot.length = lastCh D p dw batch sumCh * (2 ^ (clog2 D - p) * 2 ^ (clog2 D - p)))
    (hroot1 : tsum wroot = 1) :
    Circ.eval (fun _ => none) (unroll C D p batch sumCh dw lf w wroot) = 1 ∧
    sumOver dom (pixels C D (List.range D) (List.range D)) (fun _ => none)
      (fun x => Circ.eval x (unroll C D p batch sumCh dw lf w wroot)) = 1 := by
  obtain ⟨hv, hsc⟩ := dgc_valid dom C D p dw batch sumCh hacc hb hs hdiv lf hleaf w hw wroot hroot
  have hn := dgc_normW C D p batch sumCh dw lf w wroot hw1 hroot1
  have hl := dgc_leafNorm dom C D p batch sumCh dw lf w wroot hl1
  refine ⟨Circ.all_missing_one dom _ hv hn hl, ?_⟩
  have := Circ.normalised dom _ hv hn hl
  rwa [hsc] at this

end circuit

/-- **mpe_keeps_observed**: `torch.where(torch.isnan(x), estimates, x)` keeps every observed pixel -/
theorem dgc_mpe_keeps_observed {β : Type} (x : List (Option β)) (estimates : List β)
    (h : estimates.length = x.length) :
    (RatSpn.completeRow x estimates).length = x.length ∧
    ∀ (i : Nat) (v : β), x[i]? = some (some v) → (RatSpn.completeRow x estimates)[i]? = some v := by
  refine ⟨by simp [RatSpn.completeRow, h], ?_⟩
  intro i v hi
  have hlt : i < x.length := by
    by_contra hc
    rw [List.getElem?_eq_none (by omega)] at hi; cases hi
  have hlt' : i < estimates.length := by omega
  have hz : (x.zip estimates)[i]? = some (some v, estimates[i]) :=
    List.getElem?_zip_eq_some.2 ⟨hi, List.getElem?_eq_getElem hlt'⟩
  simp [RatSpn.completeRow, List.getElem?_map, hz]

/-! non-vacuity: a 6×6 single-channel DGC-SPN with one pooling stage, 2 base channels, 2 sum channels,
depth-wise products, fair Bernoulli pixels -/

def exLeaf : Nat → Nat → Nat → Nat → Ev → Rat := fun _ ch r c => Circ.catLeafFn (pix 6 ch r c) [1/2, 1/2]
def exW : Nat → Nat → Nat → Nat → List Rat := fun _ _ _ _ => [1/2, 1/2]
def exRoot : List Rat := List.replicate 32 (1/32)

theorem exLeaf_ok : ∀ b ch r c, r < 6 → c < 6 → LeafOK (fun _ => 2) [pix 6 ch r c] (exLeaf b ch r c) := by
  intro b ch r c _ _
  exact Circ.catLeaf_ok _ _ _ rfl (by norm_num [tsum])

theorem exRoot_sum : tsum exRoot = 1 := by
  simp only [exRoot, List.replicate, tsum]; norm_num

example : Circ.Valid (fun _ => 2) (unroll 1 6 1 2 2 (fun _ => true) exLeaf exW exRoot) :=
  (dgc_valid (fun _ => 2) 1 6 1 (fun _ => true) 2 2 (by decide) (by omega) (by omega) (by decide)
    exLeaf exLeaf_ok exW (by intro i o r c; simp [outChannels, cfgAt, exW]; split <;> rfl) exRoot (by decide)).1

example : Circ.eval (fun _ => none) (unroll 1 6 1 2 2 (fun _ => true) exLeaf exW exRoot) = 1 :=
  (dgc_normalised (fun _ => 2) 1 6 1 (fun _ => true) 2 2 (by decide) (by omega) (by omega) (by decide)
    exLeaf exLeaf_ok (by intro b ch r c; rfl) exW
    (by intro i o r c; simp [outChannels, cfgAt, exW]; split <;> rfl)
    (by intro i o r c; norm_num [exW, tsum]) exRoot (by decide) exRoot_sum).1

end DgcSpn
end Deeprob
