import DeeprobModel.Lemmas.E2ELemmas
import DeeprobModel.Oblig.Struct3Learn
import DeeprobModel.Oblig.Struct4Learn
import DeeprobModel.Props.C05Term
import DeeprobModel.Oblig.Struct3Cnet
import DeeprobModel.Oblig.Struct4Cnet
import DeeprobModel.Props.C18
import DeeprobModel.Props.C18Learn
import DeeprobModel.Oblig.Struct4CltFit
import DeeprobModel.Oblig.StructCltFit
import DeeprobModel.Props.C11
/-
END-TO-END corollaries, learners: the property theorems of `Props/*.lean` stated DIRECTLY about machines whose
iteration is assembled from the definitions the translator extracts from the current source, by composing the "as coded"
obligations (`Oblig/*.lean`) with the property theorems about the hand-written model.  One section per item.

Contents: item 3 (C04/C05 LearnSPN `e2e_step_as_coded`, `e2e_learn_step`, `e2e_learn_terminates`, `e2e_learn_total`),
item 7 (C18 cutset networks `e2e_cnet_eval`, `e2e_cnet_normalised`, `e2e_cnet_learn_as_coded`, `e2e_cnet_learn`,
`e2e_cnet_learn_eval`), item 5 (C11 Chow-Liu parameters `e2e_cpt…`).

### item 3 — C04 / C05
END-TO-END corollaries, learners (C04 / C05 …): the property theorems stated DIRECTLY about machines whose
iteration is assembled from the definitions the translator extracts from the current source.

### LearnSPN (`learn_spn`, /repo/deeprob/spn/learning/learnspn.py)

`genStep` is one iteration of `while tasks:` in which
  * the operation is chosen by the GENERATED cascade `Gen.S4selectOp` on the record `toS3 t` with
    `task.data.shape = (len rows, len scope)`,
  * SPLIT_ROWS / SPLIT_COLS slice with the GENERATED `Gen.S3splitRowsSlices` / `Gen.S3splitColsScopes`, test
    `Gen.S3learnRowsSingle` / `Gen.S3learnColsSingle`, re-queue the GENERATED records `Gen.S3learnRowsRequeue` /
    `Gen.S3learnColsRequeue` with the deque method named by `Gen.S3learn…RequeueAt`, create the node with the GENERATED
    weights `Gen.S3splitRowsWeights` and push the GENERATED sub-tasks `Gen.S3learnRowsSubtasks` / `Gen.S3learnColsSubtasks`,
  * REM_FEATURES pushes the GENERATED record `Gen.S3learnRemSubtask`,
  * the initial deque holds the GENERATED record `Gen.S3learnInitial`.
What is NOT generated (and is therefore taken from the model verbatim): the bookkeeping `attach` (new node gets the next
index, `task.parent.children.append(node)`, sub-tasks pushed at the back), the CREATE_LEAF / SPLIT_NAIVE branches (the
fragments `Gen.S3learnLeaf` / `Gen.S3learnNaive` only name the functions called), the three "the script does not answer
the question" errors, and the oracle reading of `np.var` / the splitters.

### item 7 — C18, evaluation
END-TO-END corollaries, cutset networks (C18).

### `BinaryCNet.log_likelihood` (/repo/deeprob/spn/structure/cnet.py)

Generated: the OR-node part of one iteration of the routing loop (`Gen.S3cnetOrStep`: which children are pushed, with
which row / column indices, and which `log_likes[rows] += log w` updates are made), the position of the cut variable
(`Gen.S3cnetNodeIdx`: `node.scope.index(node.or_id)`) and the start (`Gen.S3cnetInit`).  Not generated: the loop around
it (`while node_stack: node = node_stack.pop(0)`; only the string `Gen.S3cnetPop`) and the leaf branch (only the strings
`Gen.S3cnetLeafAdds`).  `genCnetRun` is that loop written out: it carries the COLUMN indices next to the row indices, as
the code does, and reads the cut value BY COLUMN POSITION (`partition[:, node_idx]` = column `col_indices[node_idx]` of
the batch) — the model `cnetRun` reads the cut variable by name and carries no columns.  The linking lemma
`genCnetRun_eq` shows that the two agree on networks whose children's scopes are the parent's scope with the cut
variable erased (`CNet.Aligned`; `cols_aligned` is the one-iteration fact), started with `col_indices = scope`.

### item 7 — C18, learners
END-TO-END corollaries, cutset-network LEARNERS (C18): `BinaryCNet.fit` (/repo/deeprob/spn/structure/cnet.py),
`learn_cnet_bd`, `learn_cnet_bic` (/repo/deeprob/spn/learning/cnet_bayesian.py).

Generated: the body of one iteration of `while node_stack:` of each learner, executed symbolically
(`Gen.S4cnetFitStep`, `Gen.S4cnetBdStep`, `Gen.S4cnetBicStep`: stop rules, the two row sides, `np.delete` of the cut
column, `del new_scope[idx]`, the weight formulas, the order of the two `append`s), the initial stack of `fit`
(`Gen.S4cnetFitInit`), the list of attributes copied from the temporary root (`Gen.S4cnetFitCopies`), the number of
candidates (`Gen.S4cnetBdK`) and the test under which `select_cand_cuts` returns a scalar (`Gen.S4selectCandScalar`).
SCORES are parameters of the generated iterations (entropies, gains, BDeu / BIC scores): the machine below reads them
from a script of RAW ANSWERS (`ScoreAns`: the variable the search selected and the three numbers the iteration
compares), whereas the model (`Model/CnetLearn.lean`) reads a script of DECISIONS (`Dec.stop` / `Dec.cut v`).

`genCStep` is one iteration in which the decision is taken by the GENERATED body from the raw answer, and the new table
cells, the weights, the cut variable and the queue entries are read off the GENERATED body's result.  Not generated, and
therefore taken over from the model verbatim: the bookkeeping of the node table (`set` the split at the node's cell,
append the two cells), the test whether the iteration consults the oracle at all (`consults`; the generated bodies contain
that test — `fitStep_as_coded`, `candidates_as_coded` — but return the same tuple whether or not the oracle was read), and the
three "the script is not the record of a run" errors.
The OBLIGATIONS cover one iteration at a cut (`step_fit_cut_as_coded`, `step_bd_cut_as_coded`, `step_bic_cut_as_coded`) under
hypotheses about the scores; the PROPERTY theorems are about whole runs of the decision-script machine (`learn … = .ok t`).
The linking lemmas `genCStep_sim` / `genCRun_sim` / `e2e_cnet_learn_as_coded` close the gap: every run of the raw-answer
machine is a run of the model on the script of the decisions it took.

### (5) C11 `e2e_cpt…` — Chow-Liu parameters (prefix `cp`)
GENERATED: the entry formulas of `estimate_priors_joints` (`Gen.priorOne`, `priorZero`, `jointCell00…11`, `jointSmooth`,
`jointDiag00…11`), the entry of `compute_clt_parameters` (`Gen.S4cltParam` over `Gen.S4cltParamRaw`) and of
`compute_mutual_information` (`Gen.S4mutualInfo`).  NOT generated: the counts `np.dot(data.T, data)` (`CltFit.ones`,
`CltFit.dot`: model), `maximum_spanning_tree` (SciPy; its result is checked), `message_passing` (`Clt.value`: model, tied
to the source elsewhere).  `cpGenPrior`, `cpGenJoint` assemble the arrays from the generated entry formulas (diagonal /
off-diagonal, value index 0 / non-zero); `cpGenParam` is `Gen.S4cltParam` on those arrays.
Composed: `StructCltFit.prior_as_coded`, `cell_as_coded`, `joint_offdiag_as_coded`, `joint_diag_as_coded`,
`Struct4.cpt_as_coded`, `mutualInfo_as_coded` with `C11.cpt_is_smoothed_conditional`, `cpt_root_is_smoothed_prior`,
`cpt_rows_sum_one`, `cpt_pos`, `fit_normalised`, `fit_tree_maximal`.
-/
set_option linter.unusedSectionVars false
set_option linter.unusedSimpArgs false
set_option linter.unusedVariables false
set_option linter.unnecessarySeqFocus false
namespace Deeprob.E2E

section item3
open Deeprob Deeprob.Learn Deeprob.LearnTerm Deeprob.Struct3 Deeprob.Struct4

/-! ### the generated iteration -/

/-- the weights returned by the GENERATED `split_rows_clusters`, as the exact pairs the model stores -/
def genWeights (rows : List Nat) (labels : List Int) : List (Nat × Nat) :=
  (Gen.S3splitRowsWeights rows labels).map (fun p => (p.1.toNat, p.2.toNat))

/-- the GENERATED selection cascade on the popped task -/
def genSelect (cfg : Cfg) (t : Task) (zv : List Bool) : Gen.S4OperationKind :=
  Gen.S4selectOp (toS3 t) ((t.rows.length : Int), (t.scope.length : Int)) zv (cfg.minRows : Int) (cfg.minCols : Int)

/-- one iteration of `while tasks:` assembled from the GENERATED pieces (see the header) -/
def genStep (cfg : Cfg) (s : St) : Except String St :=
  match s.queue with
  | [] => .ok s
  | t :: q =>
    match s.script with
    | .zeroVar pos :: sc =>
      if pos.any (fun i => decide (t.scope.length ≤ i)) then .error "zero_var position out of range" else
      let zv := zvMask pos t.scope.length
      match genSelect cfg t zv with
      | .SPLIT_NAIVE => .ok (attach s t q sc { kind := .naive, scope := t.scope, rows := t.rows } none [])
      | .CREATE_LEAF => .ok (attach s t q sc { kind := .leaf, scope := t.scope, rows := t.rows } none [])
      | .REM_FEATURES =>
          .ok (attach s t q sc
            { kind := .prod, scope := t.scope, rows := t.rows, children := [s.size + 1],
              parts := [selectBy zv t.scope true, selectBy zv t.scope false] }
            (some { kind := .naive, scope := selectBy zv t.scope true, rows := t.rows })
            [ofS3 (Gen.S3learnRemSubtask (toS3 t) (q.map toS3) s.size t.rows (selectBy zv t.scope false))])
      | .SPLIT_ROWS =>
          match sc with
          | .rows labels :: sc' =>
            if labels.length ≠ t.rows.length then .error "rows answer: wrong number of labels" else
            let slices := Gen.S3splitRowsSlices t.rows labels
            if Gen.S3learnRowsSingle slices then
              .ok { s with queue := requeue (Gen.S3learnRowsRequeueAt == "appendleft") q
                                      (ofS3 (Gen.S3learnRowsRequeue (toS3 t))),
                           script := sc' }
            else
              .ok (attach s t q sc'
                { kind := .sum, scope := t.scope, rows := t.rows, weights := genWeights t.rows labels, parts := slices } none
                ((Gen.S3learnRowsSubtasks (toS3 t) s.size slices).map ofS3))
          | _ => .error "expected a rows answer"
      | .SPLIT_COLS =>
          match sc with
          | .cols labels :: sc' =>
            if labels.length ≠ t.scope.length then .error "cols answer: wrong number of labels" else
            let scopes := Gen.S3splitColsScopes t.scope labels t.scope
            if Gen.S3learnColsSingle scopes then
              .ok { s with queue := requeue (Gen.S3learnColsRequeueAt == "appendleft") q
                                      (ofS3 (Gen.S3learnColsRequeue (toS3 t))),
                           script := sc' }
            else
              .ok (attach s t q sc' { kind := .prod, scope := t.scope, rows := t.rows, parts := scopes } none
                ((Gen.S3learnColsSubtasks (toS3 t) s.size (scopes.map (fun _ => t.rows)) scopes).map ofS3))
          | _ => .error "expected a cols answer"
    | _ => .error "expected a zero_var answer"

/-- `while tasks:` with fuel, counting the iterations — `LearnTerm.runCount` with the generated iteration -/
def genRunCount (cfg : Cfg) : Nat → St → Except String (St × Nat)
  | 0, s => .ok (s, 0)
  | f+1, s =>
    match s.queue with
    | [] => .ok (s, 0)
    | _ :: _ => match genStep cfg s with
      | .ok s' => match genRunCount cfg f s' with
        | .ok (s'', n) => .ok (s'', n + 1)
        | .error e => .error e
      | .error e => .error e

/-- `Learn.run` with the generated iteration -/
def genRun (cfg : Cfg) : Nat → St → Except String St
  | 0, s => .ok s
  | f+1, s =>
    match s.queue with
    | [] => .ok s
    | _ :: _ => match genStep cfg s with
      | .ok s' => genRun cfg f s'
      | .error e => .error e

/-- `tmp_node = Product(initial_scope)`; the deque holds the GENERATED initial record -/
def genInit (nRows nCols : Nat) (script : List Ans) : St :=
  { nodes := [{ kind := .prod, scope := List.range nCols, rows := List.range nRows, parts := [List.range nCols] }],
    queue := [ofS3 (Gen.S3learnInitial 0 (List.range nRows) (List.range nCols))],
    script := script }

/-- the consultations of iteration `k` on task `t` when the operation is chosen by the GENERATED cascade -/
def genAnswers (cfg : Cfg) (O : Oracle) (k : Nat) (t : Task) : List Ans :=
  match genSelect cfg t (zvMask (O.zv k t) t.scope.length) with
  | .SPLIT_ROWS => [.zeroVar (O.zv k t), .rows (O.rows k t)]
  | .SPLIT_COLS => [.zeroVar (O.zv k t), .cols (O.cols k t)]
  | _ => [.zeroVar (O.zv k t)]

/-- the script a splitter-level oracle produces while it feeds the GENERATED machine -/
def genTranscript (cfg : Cfg) (O : Oracle) : Nat → Nat → St → List Ans
  | 0, _, _ => []
  | n+1, k, s =>
    match s.queue with
    | [] => []
    | t :: _ =>
      match genStep cfg { s with script := genAnswers cfg O k t } with
      | .ok s' => genAnswers cfg O k t ++ genTranscript cfg O n (k+1) s'
      | .error _ => genAnswers cfg O k t

/-! ### linking lemmas -/

/-- the generated weights are the model's `weightsOf` (`weightsOf_as_coded` read backwards: the obligation compares
after a cast to `Int × Int`) -/
theorem genWeights_eq (rows : List Nat) (labels : List Int) :
    genWeights rows labels = weightsOf (slicesOf labels rows) rows.length := by
  unfold genWeights
  rw [← weightsOf_as_coded, List.map_map]
  conv_rhs => rw [← List.map_id (weightsOf (slicesOf labels rows) rows.length)]
  apply List.map_congr_left
  intro p _
  simp

theorem opOf_genSelect (cfg : Cfg) (t : Task) (zv : List Bool) : opOf (genSelect cfg t zv) = selectOp cfg t zv :=
  (selectOp_as_coded cfg t zv).symm

/-- **`e2e_step_as_coded`** — the iteration assembled from the generated pieces IS the model's `step` (for the
re-queue discipline the source uses, `appendleft` = `front`).  This is the case analysis over the selected operation
that composes `selectOp_as_coded`, `step_splitRows_as_coded`, `step_splitCols_as_coded`, `step_remFeatures_as_coded`,
`weightsOf_as_coded` and `requeue_side_as_coded`; the branches no obligation covers (CREATE_LEAF, SPLIT_NAIVE, the
error exits) are identical text in both machines. -/
theorem e2e_step_as_coded (cfg : Cfg) (hf : cfg.front = true) (s : St) : genStep cfg s = step cfg s := by
  unfold genStep
  cases hq : s.queue with
  | nil => unfold step; rw [hq]
  | cons t q =>
    cases hs : s.script with
    | nil => unfold step; rw [hq, hs]
    | cons a sc =>
      cases a with
      | rows l => unfold step; rw [hq, hs]
      | cols l => unfold step; rw [hq, hs]
      | zeroVar pos =>
        simp only
        by_cases hpos : (pos.any (fun i => decide (t.scope.length ≤ i))) = true
        · unfold step; rw [hq, hs]; simp only [hpos, if_true]
        · have hpos' : (pos.any (fun i => decide (t.scope.length ≤ i))) = false := by
            cases h : (pos.any (fun i => decide (t.scope.length ≤ i))) <;> simp_all
          simp only [hpos', Bool.false_eq_true, if_false]
          have hsel := opOf_genSelect cfg t (zvMask pos t.scope.length)
          cases hg : genSelect cfg t (zvMask pos t.scope.length) with
          | SPLIT_NAIVE =>
            rw [hg] at hsel
            unfold step; rw [hq, hs]
            simp only [hpos', Bool.false_eq_true, if_false, ← hsel, opOf]
          | CREATE_LEAF =>
            rw [hg] at hsel
            unfold step; rw [hq, hs]
            simp only [hpos', Bool.false_eq_true, if_false, ← hsel, opOf]
          | REM_FEATURES =>
            rw [hg] at hsel
            exact ((step_remFeatures_as_coded cfg s t q pos sc hq hs hpos' hsel.symm).1).symm
          | SPLIT_ROWS =>
            rw [hg] at hsel
            simp only
            cases sc with
            | nil => unfold step; rw [hq, hs]; simp only [hpos', Bool.false_eq_true, if_false, ← hsel, opOf]
            | cons b sc' =>
              cases b with
              | zeroVar p => unfold step; rw [hq, hs]; simp only [hpos', Bool.false_eq_true, if_false, ← hsel, opOf]
              | cols l => unfold step; rw [hq, hs]; simp only [hpos', Bool.false_eq_true, if_false, ← hsel, opOf]
              | rows labels =>
                simp only
                by_cases hl : labels.length = t.rows.length
                · rw [(step_splitRows_as_coded cfg s t q pos labels sc' hq hs hpos' hsel.symm hl).1]
                  have h1 : (Gen.S3learnRowsRequeueAt == "appendleft") = true := by decide
                  simp only [hl, ne_eq, not_true_eq_false, if_false, genWeights_eq, hf, h1,
                    requeue, if_true, ← slicesOf_as_coded]
                · unfold step; rw [hq, hs]
                  simp only [hpos', Bool.false_eq_true, if_false, ← hsel, opOf, hl, ne_eq, not_false_eq_true, if_true]
          | SPLIT_COLS =>
            rw [hg] at hsel
            simp only
            cases sc with
            | nil => unfold step; rw [hq, hs]; simp only [hpos', Bool.false_eq_true, if_false, ← hsel, opOf]
            | cons b sc' =>
              cases b with
              | zeroVar p => unfold step; rw [hq, hs]; simp only [hpos', Bool.false_eq_true, if_false, ← hsel, opOf]
              | rows l => unfold step; rw [hq, hs]; simp only [hpos', Bool.false_eq_true, if_false, ← hsel, opOf]
              | cols labels =>
                simp only
                by_cases hl : labels.length = t.scope.length
                · rw [(step_splitCols_as_coded cfg s t q pos labels sc' hq hs hpos' hsel.symm hl).1]
                  have h1 : (Gen.S3learnColsRequeueAt == "appendleft") = true := by decide
                  simp only [hl, ne_eq, not_true_eq_false, if_false, hf, h1, requeue, if_true]
                · unfold step; rw [hq, hs]
                  simp only [hpos', Bool.false_eq_true, if_false, ← hsel, opOf, hl, ne_eq, not_false_eq_true, if_true]

/-- non-vacuity of `e2e_step_as_coded`: on the root task of a 6 × 3 data set both machines perform the row split 4 + 2 -/
example : genStep ⟨2, 2, true⟩ (genInit 6 3 [.zeroVar [], .rows [0, 0, 1, 0, 1, 0]])
    = step ⟨2, 2, true⟩ (init 6 3 [.zeroVar [], .rows [0, 0, 1, 0, 1, 0]]) :=
  e2e_step_as_coded ⟨2, 2, true⟩ rfl _

theorem genRunCount_eq (cfg : Cfg) (hf : cfg.front = true) : ∀ (n : Nat) (s : St),
    genRunCount cfg n s = runCount cfg n s
  | 0, s => rfl
  | n+1, s => by
    unfold genRunCount runCount
    rw [e2e_step_as_coded cfg hf s]
    cases hq : s.queue with
    | nil => rfl
    | cons t q =>
      simp only
      cases hs : step cfg s with
      | error e => rfl
      | ok s' => simp only [genRunCount_eq cfg hf n s']; rfl

theorem genRun_eq (cfg : Cfg) (hf : cfg.front = true) : ∀ (n : Nat) (s : St), genRun cfg n s = run cfg n s
  | 0, s => rfl
  | n+1, s => by
    unfold genRun run
    rw [e2e_step_as_coded cfg hf s]
    cases hq : s.queue with
    | nil => rfl
    | cons t q =>
      simp only
      cases hs : step cfg s with
      | error e => rfl
      | ok s' => simp only [genRun_eq cfg hf n s']

/-- the initial state (`learn_loop_as_coded`) -/
theorem genInit_eq (nRows nCols : Nat) (script : List Ans) : genInit nRows nCols script = init nRows nCols script := rfl

theorem genAnswers_eq (cfg : Cfg) (O : Oracle) (k : Nat) (t : Task) : genAnswers cfg O k t = O.answers cfg k t := by
  unfold genAnswers Oracle.answers
  rw [← opOf_genSelect]
  cases genSelect cfg t (zvMask (O.zv k t) t.scope.length) <;> rfl

theorem genTranscript_eq (cfg : Cfg) (hf : cfg.front = true) (O : Oracle) : ∀ (n k : Nat) (s : St),
    genTranscript cfg O n k s = O.transcript cfg n k s
  | 0, _, _ => rfl
  | n+1, k, ⟨nodes, [], sc⟩ => rfl
  | n+1, k, ⟨nodes, t :: q, sc⟩ => by
    unfold genTranscript Oracle.transcript
    simp only
    rw [e2e_step_as_coded cfg hf, genAnswers_eq]
    cases step cfg ⟨nodes, t :: q, O.answers cfg k t⟩ with
    | error e => rfl
    | ok s' => simp only [genTranscript_eq cfg hf O n (k+1) s']

/-! ### the end-to-end corollaries -/

/-- **`e2e_learn_step`** (C04/C05, one iteration): from a state with a non-empty deque, on every proper answer to the
questions the iteration asks, the GENERATED iteration succeeds and the termination measure
`Σ_{pending tasks} (5·area − 4 + phase)` strictly decreases.  `cfg.front = true` says that the machine re-queues at the
front, which is what the source does (`Gen.S3learn…RequeueAt = "appendleft"`, `requeue_side_as_coded`).
Ingredients: `e2e_step_as_coded` + `step_proper_decreases`. -/
theorem e2e_learn_step (cfg : Cfg) (hf : cfg.front = true) (s : St) (t : Task) (q : List Task)
    (hq : s.queue = t :: q) (hp : ProperHead cfg t s.script) :
    ∃ s', genStep cfg s = .ok s' ∧ measure s' < measure s := by
  rw [e2e_step_as_coded cfg hf s]
  exact step_proper_decreases cfg s t q hq hp

/-- `ProperHead` itself only depends on the model through the selected operation, which is the generated one -/
theorem properHead_gen (cfg : Cfg) (t : Task) (pos : List Nat) (sc : List Ans) :
    ProperHead cfg t (.zeroVar pos :: sc) ↔
      (ProperAns t (.zeroVar pos) ∧ ProperNext t (opOf (genSelect cfg t (zvMask pos t.scope.length))) sc) := by
  rw [opOf_genSelect]; rfl

/-- non-vacuity: the root task of a 6 × 3 data set; the generated iteration performs the row split 4 + 2 -/
example : ∃ s', genStep ⟨2, 2, true⟩ (genInit 6 3 [.zeroVar [], .rows [0, 0, 1, 0, 1, 0]]) = .ok s' ∧
    (measure (genInit 6 3 [.zeroVar [], .rows [0, 0, 1, 0, 1, 0]]) = 87 ∧ measure s' = 86 ∧
     sumView s' 1 = [] ∧ (s'.node 1).weights = [(4, 6), (2, 6)] ∧ s'.queue.map (·.rows) = [[0, 1, 3, 5], [2, 4]]) :=
  exists_ok_of_check _ _ (by decide +kernel)

/-- **`e2e_learn_terminates`** (C04/C05, termination on a script): if the first `B` iterations find their questions
answered properly in the script (`ProperRun`: a hypothesis about the SCRIPT — kinds and lengths of the answers — along the
run; it mentions the machine only to know which task is popped next, and the two machines coincide), then with any fuel
`≥ B` the GENERATED machine returns with an empty deque after `k ≤ B` iterations: it neither exhausts the script, nor
raises, nor is cut off by the fuel.  Ingredients: `e2e_step_as_coded` + `learn_terminates`. -/
theorem e2e_learn_terminates (cfg : Cfg) (hf : cfg.front = true) (nRows nCols : Nat) (script : List Ans) (fuel : Nat)
    (hp : ProperRun cfg (B nRows nCols cfg) (genInit nRows nCols script)) (hfuel : B nRows nCols cfg ≤ fuel) :
    ∃ s k, genRunCount cfg fuel (genInit nRows nCols script) = .ok (s, k) ∧
      genRun cfg fuel (genInit nRows nCols script) = .ok s ∧ s.queue = [] ∧ k ≤ B nRows nCols cfg := by
  rw [genRunCount_eq cfg hf, genRun_eq cfg hf, genInit_eq]
  exact learn_terminates cfg nRows nCols script fuel hp hfuel

/-- non-vacuity, and the bound is attained: on a 4 × 1 data set the adversarial oracle `tightScript 4` makes the GENERATED
loop run exactly `B 4 1 = 17` iterations -/
example : ProperRun ⟨1, 1, true⟩ (B 4 1 ⟨1, 1, true⟩) (genInit 4 1 (tightScript 4)) ∧
    ∃ p, genRunCount ⟨1, 1, true⟩ 17 (genInit 4 1 (tightScript 4)) = .ok p ∧ (p.2 = 17 ∧ p.1.queue = []) :=
  ⟨by decide +kernel, exists_ok_of_check _ _ (by decide +kernel)⟩

/-- **`e2e_learn_total`** (C04 + C05, total correctness): a machine whose iteration is the GENERATED one, started on
the GENERATED initial record and fed by ANY splitter-level oracle whose answers have the right shape, halts: with fuel
`B = 5·max(nRows,1)·max(nCols,1) − 3` (or any larger fuel) it returns a state with an empty deque after `k ≤ B`
iterations, having consumed the oracle's transcript exactly, and the returned structure is a valid circuit over all
columns, learned on all rows, in which the weights of EVERY sum node are the row proportions of the children they are
attached to, positive and summing to one, with all rows routed (`FinalSpec`).
Ingredients: `e2e_step_as_coded` (hence `genRunCount = runCount`, `genTranscript = transcript`) + `learn_total`
(= `learn_terminates` + `learn_final_valid` + `learn_final_proportions`). -/
theorem e2e_learn_total (cfg : Cfg) (hf : cfg.front = true) (nRows nCols : Nat) (hr : 0 < nRows) (hc : 0 < nCols)
    (O : Oracle) (hO : O.Proper) :
    ∃ script s k, script = genTranscript cfg O (B nRows nCols cfg) 0 (genInit nRows nCols []) ∧
      genRunCount cfg (B nRows nCols cfg) (genInit nRows nCols script) = .ok (s, k) ∧ k ≤ B nRows nCols cfg ∧
      (∀ fuel, B nRows nCols cfg ≤ fuel → genRun cfg fuel (genInit nRows nCols script) = .ok s) ∧
      s.script = [] ∧ FinalSpec nRows nCols s := by
  obtain ⟨script, s, k, h1, h2, h3, h4, _, h6, h7⟩ := learn_total cfg hf nRows nCols hr hc O hO
  refine ⟨script, s, k, ?_, ?_, h3, ?_, h6, h7⟩
  · rw [genTranscript_eq cfg hf, genInit_eq]; exact h1
  · rw [genRunCount_eq cfg hf, genInit_eq]; exact h2
  · intro fuel hfu; rw [genRun_eq cfg hf, genInit_eq]; exact h4 fuel hfu

/-- the C05 conclusion spelled out: in the tree the GENERATED machine returns, for every sum node, weight `i` is the
exact pair `(|rows routed to child i|, |rows of the sum|)`; as rationals the weights are positive and add up to one -/
theorem e2e_learn_final_proportions (cfg : Cfg) (hf : cfg.front = true) (nRows nCols : Nat) (hr : 0 < nRows)
    (hc : 0 < nCols) (O : Oracle) (hO : O.Proper) :
    ∃ s k t, genRunCount cfg (B nRows nCols cfg)
        (genInit nRows nCols (genTranscript cfg O (B nRows nCols cfg) 0 (genInit nRows nCols []))) = .ok (s, k) ∧
      k ≤ B nRows nCols cfg ∧ s.queue = [] ∧ result s = some t ∧
      ∀ r sc ws ch, Tree.sum r sc ws ch ∈ t.subtrees →
        ws = ch.map (fun c => (c.rows.length, r.length)) ∧
        (∀ w ∈ ws, (0 : ℚ) < (w.1 : ℚ) / (w.2 : ℚ)) ∧
        (ws.map (fun w => (w.1 : ℚ) / (w.2 : ℚ))).sum = 1 := by
  obtain ⟨script, s, k, h1, h2, h3, _, _, hq, t, ht, _, _, _, _, _, hw⟩ :=
    e2e_learn_total cfg hf nRows nCols hr hc O hO
  subst h1
  exact ⟨s, k, t, h2, h3, hq, ht, hw⟩

/-- non-vacuity of `e2e_learn_final_proportions`: the proper splitter behaviour `exOracle` on a 6 × 3 data set -/
example : ∃ s k t, genRunCount ⟨2, 2, true⟩ (B 6 3 ⟨2, 2, true⟩)
        (genInit 6 3 (genTranscript ⟨2, 2, true⟩ exOracle (B 6 3 ⟨2, 2, true⟩) 0 (genInit 6 3 []))) = .ok (s, k) ∧
      k ≤ B 6 3 ⟨2, 2, true⟩ ∧ s.queue = [] ∧ result s = some t ∧
      ∀ r sc ws ch, Tree.sum r sc ws ch ∈ t.subtrees →
        ws = ch.map (fun c => (c.rows.length, r.length)) ∧
        (∀ w ∈ ws, (0 : ℚ) < (w.1 : ℚ) / (w.2 : ℚ)) ∧
        (ws.map (fun w => (w.1 : ℚ) / (w.2 : ℚ))).sum = 1 :=
  e2e_learn_final_proportions ⟨2, 2, true⟩ rfl 6 3 (by decide) (by decide) exOracle exOracle_proper

/-- non-vacuity of `e2e_learn_total`: the splitter behaviour `exOracle` of `Props/C05Term.lean` on a 6 × 3 data set is
proper; the GENERATED machine runs 12 ≤ B = 87 iterations and returns
`S[3/6:L(rows=0 1 2), 3/6:S[1/3:L(rows=4), 2/3:P(L(rows=3 5;scope=0), L(rows=3 5;scope=1 2))]]` -/
example : exOracle.Proper ∧ 0 < 6 ∧ 0 < 3 ∧
    ∃ p, genRunCount ⟨2, 2, true⟩ (B 6 3 ⟨2, 2, true⟩)
          (genInit 6 3 (genTranscript ⟨2, 2, true⟩ exOracle (B 6 3 ⟨2, 2, true⟩) 0 (genInit 6 3 []))) = .ok p ∧
      (p.1.queue = [] ∧ p.1.script = [] ∧ p.2 = 12 ∧
       p.1.nodes.map (·.kind) = [.prod, .sum, .leaf, .sum, .leaf, .prod, .leaf, .leaf] ∧
       sumView p.1 1 = [((3, 6), [0, 1, 2]), ((3, 6), [3, 4, 5])] ∧
       sumView p.1 3 = [((1, 3), [4]), ((2, 3), [3, 5])] ∧ (p.1.node 5).children = [6, 7]) :=
  ⟨exOracle_proper, by decide, by decide, exists_ok_of_check _ _ (by decide +kernel)⟩

end item3

section item7eval
open Deeprob Deeprob.Struct3

section eval
variable {α : Type} [Zero α] [One α] [Add α] [Mul α]

/-- the routing loop of `BinaryCNet.log_likelihood` (linear domain) with the GENERATED OR-node iteration: the work list
holds (node, `row_indices`, `col_indices`); the cut column is read by position -/
def genCnetRun (rows : Nat → Ev) : Nat → List (CNet α × List Nat × List Nat) → List α → List α
  | 0, _, acc => acc
  | _, [], acc => acc
  | fuel+1, (node, idxs, cols) :: q, acc => match node with
    | .leaf _ f => genCnetRun rows fuel q (mulAt acc idxs (fun r => f (rows r)))
    | .or s v w0 w1 c0 c1 =>
      let nodeIdx := Gen.S3cnetNodeIdx s v
      let st := Gen.S3cnetOrStep idxs cols nodeIdx (idxs.map (fun r => cutVal (rows r (cols.getD nodeIdx 0))))
      genCnetRun rows fuel (q ++ st.1.map (fun p => (if p.1 = 0 then c0 else c1, p.2.1, p.2.2)))
        (st.2.foldl (fun a p => mulAt a p.1 (fun _ => if p.2 = 0 then w0 else w1)) acc)

/-- `BinaryCNet.likelihood(x)` for a batch of `n` rows with `m` columns, started as the code starts it
(`Gen.S3cnetInit`: rows `arange(n)`, columns `arange(m)`, `log_likes = zeros`) -/
def genCnetBatch (rows : Nat → Ev) (n m : Nat) (c : CNet α) : List α :=
  genCnetRun rows c.size [(c, (Gen.S3cnetInit n m).1, (Gen.S3cnetInit n m).2)] (List.replicate n 1)

/-- the structural fact that makes reading by position and reading by name agree: at every OR node the cut variable is
in the scope and both children are over the scope with the cut variable erased (as lists) — what `cnetWellFormedB`
checks and what the learners produce (`del new_scope[best_or_idx]`) -/
def CNetAligned : CNet α → Prop
  | .leaf _ _ => True
  | .or s v _ _ c0 c1 => v ∈ s ∧ c0.scope = s.erase v ∧ c1.scope = s.erase v ∧ CNetAligned c0 ∧ CNetAligned c1

/-- **linking lemma**: the loop with the generated iteration and column bookkeeping is the model's loop, as long as
every queued node is aligned and queued with `col_indices = scope` (`cnetRun_or_as_coded` + `cols_aligned`, carried
through the whole run) -/
theorem genCnetRun_eq (rows : Nat → Ev) : ∀ (fuel : Nat) (q : List (CNet α × List Nat × List Nat)) (acc : List α),
    (∀ p ∈ q, p.2.2 = p.1.scope ∧ CNetAligned p.1) →
    genCnetRun rows fuel q acc = cnetRun rows fuel (q.map (fun p => (p.1, p.2.1))) acc := by
  intro fuel
  induction fuel with
  | zero => intro q acc _; rfl
  | succ fuel ih =>
    intro q acc hq
    cases q with
    | nil => rfl
    | cons hd q =>
      obtain ⟨node, idxs, cols⟩ := hd
      have hhd := hq (node, idxs, cols) List.mem_cons_self
      have hrest : ∀ p ∈ q, p.2.2 = p.1.scope ∧ CNetAligned p.1 := fun p hp => hq p (List.mem_cons_of_mem _ hp)
      cases node with
      | leaf s f =>
        simp only [genCnetRun, List.map_cons, cnetRun]
        exact ih q _ hrest
      | or s v w0 w1 c0 c1 =>
        obtain ⟨hcols, hv, h0, h1, ha0, ha1⟩ := hhd
        simp only [CNet.scope] at hcols
        subst hcols
        have hal := cols_aligned cols v hv
        simp only [List.map_cons]
        rw [cnetRun_or_as_coded rows fuel cols v w0 w1 c0 c1 idxs _ acc cols (Gen.S3cnetNodeIdx cols v)]
        simp only [genCnetRun, hal.1]
        rw [ih]
        · simp only [List.map_append, List.map_map, Function.comp_def]
        · intro p hp
          rcases List.mem_append.1 hp with hp | hp
          · exact hrest p hp
          · obtain ⟨x, hx, rfl⟩ := List.mem_map.1 hp
            have hx2 := hal.2 idxs _ x hx
            by_cases hx0 : x.1 = 0
            · simp only [hx0, if_true]; exact ⟨by rw [hx2, h0], ha0⟩
            · simp only [hx0, if_false]; exact ⟨by rw [hx2, h1], ha1⟩

theorem genCnetBatch_eq (rows : Nat → Ev) (n m : Nat) (c : CNet α) (hs : c.scope = List.range m) (ha : CNetAligned c) :
    genCnetBatch rows n m c = cnetBatch rows n c := by
  unfold genCnetBatch
  rw [genCnetRun_eq rows c.size _ _ (by
    intro p hp
    simp only [List.mem_singleton] at hp
    subst hp
    exact ⟨by simp only [Gen.S3cnetInit, hs], ha⟩)]
  rfl

end eval

/-- what the Boolean validator accepts is aligned -/
theorem cnetAligned_of_wellFormedB {α : Type} [Zero α] [One α] [Add α] [Mul α] [DecidableEq α] [LT α] [DecidableLT α]
    (dom : Nat → Nat) : (c : CNet α) → cnetWellFormedB dom c = true → CNetAligned c
  | .leaf _ _, _ => trivial
  | .or s v w0 w1 c0 c1, h => by
      simp only [cnetWellFormedB, Bool.and_eq_true, decide_eq_true_eq, beq_iff_eq, List.contains_eq_mem] at h
      obtain ⟨⟨⟨⟨⟨⟨⟨⟨⟨_, hv⟩, _⟩, e0⟩, e1⟩, _⟩, _⟩, _⟩, r0⟩, r1⟩ := h
      exact ⟨hv, e0, e1, cnetAligned_of_wellFormedB dom c0 r0, cnetAligned_of_wellFormedB dom c1 r1⟩

section semiring
variable {α : Type} [CommSemiring α]

/-- **`e2e_cnet_eval`** (C18): for every aligned OR tree over the columns `0 .. m-1`, every batch and every row index
`r < n`, entry `r` of what the routing loop with the GENERATED OR iteration accumulates is the recursive semantics —
the product of the branch weights selected by the row at the cut variables times the value of the leaf reached.
Ingredients: `cnetRun_or_as_coded`, `cnetRun_leaf_as_coded`, `cnetBatch_init_as_coded`, `cols_aligned` (through
`genCnetRun_eq`) + `C18.cnet_eval`. -/
theorem e2e_cnet_eval (rows : Nat → Ev) (n m : Nat) (c : CNet α) (hs : c.scope = List.range m) (ha : CNetAligned c)
    (r : Nat) (hr : r < n) :
    (genCnetBatch rows n m c)[r]? = some (cnetEval (rows r) c) := by
  rw [genCnetBatch_eq rows n m c hs ha]
  exact C18.cnet_eval rows n c r hr

/-- **`e2e_cnet_normalised`** (C18): the values the loop with the GENERATED iteration returns on the complete rows of
the scope of a well-formed, aligned network sum to one (each row evaluated as a batch of one).
Ingredients: the above + `C18.cnet_normalised`. -/
theorem e2e_cnet_normalised (dom : Nat → Nat) (m : Nat) (c : CNet α) (hs : c.scope = List.range m) (ha : CNetAligned c)
    (hwf : C18.CNet.WF dom c) (e : Ev) (hm : Missing c.scope e) :
    sumOver dom c.scope e (fun x => (genCnetBatch (fun _ => x) 1 m c).getD 0 0) = 1 := by
  rw [← C18.cnet_normalised dom c hwf e hm]
  apply sumOver_congr; intro x _
  have := e2e_cnet_eval (fun _ => x) 1 m c hs ha 0 (by omega)
  rw [List.getD_eq_getElem?_getD, this]; rfl

end semiring

/-! non-vacuity: the network of `Props/C18.lean` (cut on X0, then on X2 in the left branch) -/

theorem exNet_aligned : CNetAligned C18.exNet := cnetAligned_of_wellFormedB C18.exDom C18.exNet C18.exNet_wellFormedB

example : C18.exNet.scope = List.range 3 ∧ CNetAligned C18.exNet ∧
    genCnetBatch C18.exRows 3 3 C18.exNet = [1/4 * (2/5) * (1/3), 3/4 * (4/5 * (7/10)), 1/4 * (3/5) * (1/2)] :=
  ⟨rfl, exNet_aligned, by decide +kernel⟩

example : (genCnetBatch C18.exRows 3 3 C18.exNet)[1]? = some (cnetEval (C18.exRows 1) C18.exNet) :=
  e2e_cnet_eval C18.exRows 3 3 C18.exNet rfl exNet_aligned 1 (by norm_num)

example : sumOver C18.exDom [0, 1, 2] (fun _ => none) (fun x => (genCnetBatch (fun _ => x) 1 3 C18.exNet).getD 0 0) = 1 :=
  e2e_cnet_normalised C18.exDom 3 C18.exNet rfl exNet_aligned
    (C18.cnetWellFormed_sound C18.exDom C18.exNet C18.exNet_wellFormedB C18.exNet_leavesOK) (fun _ => none) (fun _ _ => rfl)

end item7eval

section item7learn
open Deeprob Deeprob.CnetLearn Deeprob.Struct4

section machine
variable {α : Type} [Field α] [LinearOrder α]

/-- one raw answer of the score computations of an iteration: `v` = `node.scope[best_or_idx]`;
`fit`: `a` = `mean_entropy`, `b` = `max_info_gain` (`c` unused);
`learn_cnet_bd` / `learn_cnet_bic`: `a` = `best_cnet_score`, `b` = `best_left_clt_score`, `c` = `best_right_clt_score` -/
structure ScoreAns (α : Type) where
  v : Nat
  a : α
  b : α
  c : α

/-- state of the raw-answer machine: the node table, the FIFO `node_stack` of (table index, `node_clt_score`) — the score
is carried by the two score-based learners only —, the rest of the script -/
structure GSt (α : Type) where
  nodes : List (Node α)
  queue : List (Nat × α)
  script : List (ScoreAns α)

/-- column `k` of the partition of node `nd`: `col_indices[k]` is the `k`-th entry of the scope -/
def partCol (data : List (List Nat)) (nd : Node α) (k : Int) : List Int :=
  cutcolOf data nd (nd.scope.getD k.toNat 0)

/-- what the GENERATED iteration does with node `nd` (popped with `score`) on the raw answer `ans`: `none` = the node is
left as it is; `some (v, w0, w1, cells)` = `node.or_id`, `node.weights`, and the two new objects as table cells, each
with the score it is queued with -/
def genOutcome (cfg : Cfg) (data : List (List Nat)) (mme : α) (nd : Node α) (score : α) (ans : ScoreAns α) :
    Option (Nat × α × α × List (Node α × α)) :=
  let idx : Int := ((nd.scope.idxOf ans.v : Nat) : Int)
  match cfg.kind with
  | .fit =>
    let G := Gen.S4cnetFitStep (toS4 nd) ([] : List (Gen.S4CNode Unit)) (partCol data nd) nd.par mme
      (cfg.minSamples : Int) (cfg.minFeatures : Int) idx ans.a ans.b
    if G.2.1.isEmpty then none
    else some ((G.2.2.2.1).getD 0, G.2.2.1.getD 0 0, G.2.2.1.getD 1 0,
               G.2.1.map (fun c => (ofS4 (childPar cfg.kind nd.par) c, score)))
  | .bd =>
    let G := Gen.S4cnetBdStep (toS4 nd) nd.par score nd.par ([] : List (Gen.S4CNode Unit × α × α)) (partCol data nd)
      (cfg.nCand : Int) ans.a idx () () ans.b ans.c
    if G.2.1.isEmpty then none
    else some ((G.2.2.2.1).getD 0, G.2.2.1.getD 0 0, G.2.2.1.getD 1 0,
               G.1.map (fun c => (ofS4 c.2.1 { c.1 with clt := none }, c.2.2)))
  | .bic =>
    let G := Gen.S4cnetBicStep (toS4 nd) score nd.par ([] : List (Gen.S4CNode Unit × α)) (partCol data nd)
      (cfg.nCand : Int) ans.a idx () () ans.b ans.c
    if G.2.1.isEmpty then none
    else some ((G.2.2.2.1).getD 0, G.2.2.1.getD 0 0, G.2.2.1.getD 1 0,
               G.1.map (fun c => (ofS4 nd.par { c.1 with clt := none }, c.2)))

/-- one iteration of `while node_stack:` of the learner `cfg.kind`, driven by raw answers -/
def genCStep (cfg : Cfg) (data : List (List Nat)) (mme : α) (s : GSt α) : Except String (GSt α) :=
  match s.queue with
  | [] => .ok s
  | (i, score) :: q =>
    let nd := getN s.nodes i
    if !consults cfg nd.rows.length nd.scope.length then .ok { s with queue := q }
    else if cfg.kind != .fit && Gen.S4selectCandScalar (Gen.S4cnetBdK (toS4 nd) (cfg.nCand : Int)) then
      .error "raises: TypeError ('numpy.int64' object is not iterable): n_cand_cuts == 1"
    else
      match s.script with
      | [] => .error "script exhausted"
      | ans :: sc =>
        if !nd.scope.contains ans.v then .error "the selected variable is not in the scope of the node" else
        match genOutcome cfg data mme nd score ans with
        | none => .ok { s with queue := q, script := sc }
        | some (v, w0, w1, cells) =>
          if cfg.kind != .fit && cells.any (fun c => c.1.rows.isEmpty) then
            .error "the selected variable has an empty side: the score-based learners skip such candidates"
          else
            let id := s.nodes.length
            .ok { nodes := s.nodes.set i { nd with split := some { v := v, w0 := w0, w1 := w1, l := id, r := id + 1 } }
                             ++ cells.map (·.1),
                  queue := q ++ (cells.zipIdx.map (fun c => (id + c.2, c.1.2))),
                  script := sc }

def genCRun (cfg : Cfg) (data : List (List Nat)) (mme : α) : Nat → GSt α → Except String (GSt α)
  | 0, s => .ok s
  | f+1, s =>
    match s.queue with
    | [] => .ok s
    | _ :: _ => match genCStep cfg data mme s with
      | .ok s' => genCRun cfg data mme f s'
      | .error e => .error e

/-- the stack before the loop: the GENERATED `Gen.S4cnetFitInit` (one root over all rows and all columns), queued with
the root's own score `score0` -/
def genCInit (nRows nCols : Nat) (p score0 : α) (script : List (ScoreAns α)) : GSt α :=
  { nodes := (Gen.S4cnetFitInit (nRows : Int) (nCols : Int)).map (ofS4 p), queue := [(0, score0)], script := script }

/-- what the learner returns: the unfolding of cell 0 once the stack is empty; `fit` copies the attributes named by the
GENERATED `Gen.S4cnetFitCopies` from the temporary root — without `"clt"` in that list an unsplit root would lose its
tree (F11) -/
def genCLearn (cfg : Cfg) (data : List (List Nat)) (nCols : Nat) (p score0 mme : α) (script : List (ScoreAns α)) :
    Except String (LTree α) :=
  match genCRun cfg data mme (2 * script.length + 1) (genCInit data.length nCols p score0 script) with
  | .error e => .error e
  | .ok s =>
    if !s.queue.isEmpty then .error "fuel exhausted" else
    if cfg.kind == .fit && !(Gen.S4cnetFitCopies.contains "clt") && (getN s.nodes 0).split.isNone then
      .error "raises: the root was never split and its Chow-Liu tree is not copied (F11)"
    else .ok (CnetLearn.toTree s.nodes s.nodes.length 0)

/-! ### linking lemmas -/

/-- the generated iterations read the partition only at the selected column, so the obligations' constant column
function (`fun _ => cutcolOf data nd v`) is the column-by-position reading when `v` is in the scope -/
theorem partCol_idxOf (data : List (List Nat)) (nd : Node α) (v : Nat) (hv : v ∈ nd.scope) :
    partCol data nd ((nd.scope.idxOf v : Nat) : Int) = cutcolOf data nd v := by
  unfold partCol
  have h := List.idxOf_lt_length_iff.2 hv
  simp [List.getD_eq_getElem?_getD, List.getElem?_eq_getElem h]

theorem fitStep_col (node : Gen.S4CNode Unit) (stack : List (Gen.S4CNode Unit)) (f g : Int → List Int) (al mme : α)
    (ms mf idx : Int) (me mg : α) (h : f idx = g idx) :
    Gen.S4cnetFitStep node stack f al mme ms mf idx me mg = Gen.S4cnetFitStep node stack g al mme ms mf idx me mg := by
  unfold Gen.S4cnetFitStep; simp only [h]

theorem bdStep_col (node : Gen.S4CNode Unit) (par score ess : α) (stack : List (Gen.S4CNode Unit × α × α))
    (f g : Int → List Int) (nc : Int) (best : α) (idx : Int) (sl sr : α) (h : f idx = g idx) :
    Gen.S4cnetBdStep node par score ess stack f nc best idx () () sl sr
      = Gen.S4cnetBdStep node par score ess stack g nc best idx () () sl sr := by
  unfold Gen.S4cnetBdStep; simp only [h]

theorem bicStep_col (node : Gen.S4CNode Unit) (score al : α) (stack : List (Gen.S4CNode Unit × α))
    (f g : Int → List Int) (nc : Int) (best : α) (idx : Int) (sl sr : α) (h : f idx = g idx) :
    Gen.S4cnetBicStep node score al stack f nc best idx () () sl sr
      = Gen.S4cnetBicStep node score al stack g nc best idx () () sl sr := by
  unfold Gen.S4cnetBicStep; simp only [h]

/-- the decision the generated iteration takes, as the model's script entry -/
def decOf (cfg : Cfg) (data : List (List Nat)) (mme : α) (nd : Node α) (score : α) (ans : ScoreAns α) : Dec :=
  match genOutcome cfg data mme nd score ans with
  | none => .stop
  | some _ => .cut ans.v

/-- does the generated iteration leave the node as it is? (`fit`: `mean_entropy < min_mean_entropy or max_info_gain <= 0`;
score-based: `not (best_cnet_score > node_clt_score)`) -/
def genStops (cfg : Cfg) (mme score : α) (ans : ScoreAns α) : Bool :=
  match cfg.kind with
  | .fit => decide (ans.a < mme) || decide (ans.b ≤ 0)
  | _ => !decide (score < ans.a)

/-- **closed form of the generated iteration** on a node at which the oracle is consulted (`fitStep_as_coded`,
`bdStep_as_coded`, `bicStep_as_coded` + `partCol_idxOf`): the cut variable, the model's `leftWeight` and its complement, and
the two cells the model's `step` creates, queued with the scores the code queues them with -/
theorem genOutcome_closed (cfg : Cfg) (data : List (List Nat)) (mme : α) (nd : Node α) (score : α) (ans : ScoreAns α)
    (hv : ans.v ∈ nd.scope) (hc : consults cfg nd.rows.length nd.scope.length = true) :
    genOutcome cfg data mme nd score ans =
      if genStops cfg mme score ans then none
      else
        let w0 := leftWeight cfg.kind nd.par (side data ans.v 0 nd.rows).length nd.rows.length
        some (ans.v, w0, 1 - w0,
          [({ rows := side data ans.v 0 nd.rows, scope := nd.scope.erase ans.v, par := childPar cfg.kind nd.par },
             match cfg.kind with | .fit => score | _ => ans.b),
           ({ rows := side data ans.v 1 nd.rows, scope := nd.scope.erase ans.v, par := childPar cfg.kind nd.par },
             match cfg.kind with | .fit => score | _ => ans.c)]) := by
  unfold genOutcome genStops
  cases hk : cfg.kind with
  | fit =>
    simp only
    rw [fitStep_col _ _ (partCol data nd) (fun _ => cutcolOf data nd ans.v) _ _ _ _ _ _ _ (partCol_idxOf data nd ans.v hv),
      fitStep_as_coded cfg hk data nd [] ans.v hv mme ans.a ans.b]
    simp only [hc, Bool.not_true, Bool.false_or]
    by_cases hst : (decide (ans.a < mme) || decide (ans.b ≤ 0)) = true
    · simp [hst]
    · simp [hst, cutOf, ofS4, hk]
  | bd =>
    simp only
    rw [bdStep_col _ _ _ _ _ (partCol data nd) (fun _ => cutcolOf data nd ans.v) _ _ _ _ _ (partCol_idxOf data nd ans.v hv),
      bdStep_as_coded data nd score nd.par [] ans.v hv (cfg.nCand : Int) ans.a ans.b ans.c]
    have hsc : nd.scope.length ≠ 1 := by
      unfold consults at hc; simpa [hk] using hc
    by_cases hst : score < ans.a
    · simp [scoreOutcome, hsc, hst, cutOf, ofS4, childPar]
    · simp [scoreOutcome, hsc, hst]
  | bic =>
    simp only
    rw [bicStep_col _ _ _ _ (partCol data nd) (fun _ => cutcolOf data nd ans.v) _ _ _ _ _ (partCol_idxOf data nd ans.v hv),
      bicStep_as_coded data nd score [] ans.v hv (cfg.nCand : Int) ans.a ans.b ans.c]
    have hsc : nd.scope.length ≠ 1 := by
      unfold consults at hc; simpa [hk] using hc
    by_cases hst : score < ans.a
    · simp [scoreOutcome, hsc, hst, cutOf, ofS4, childPar]
    · simp [scoreOutcome, hsc, hst]

/-- the crash test through the GENERATED `select_cand_cuts` predicate is the model's `candCrash` (`candidates_as_coded`) -/
theorem genCrash_eq (cfg : Cfg) (nd : Node α) :
    (cfg.kind != .fit && Gen.S4selectCandScalar (Gen.S4cnetBdK (toS4 nd) (cfg.nCand : Int)))
      = candCrash cfg nd.scope.length := by
  by_cases hk : cfg.kind = .fit
  · simp [hk, candCrash]
  · rw [(candidates_as_coded cfg hk nd).2.1]
    have : (cfg.kind != Kind.fit) = true := by simpa using hk
    simp [this, candCrash]

/-- **one iteration**: whenever the raw-answer iteration succeeds, the model's `step` on the decision it took (no entry
when the oracle is not consulted) reaches the same table and the same stack -/
theorem genCStep_sim (cfg : Cfg) (data : List (List Nat)) (mme : α) (s s' : GSt α)
    (h : genCStep cfg data mme s = .ok s') :
    ∃ d : List Dec, ∀ sc : List Dec,
      step cfg data ⟨s.nodes, s.queue.map (·.1), d ++ sc⟩ = .ok ⟨s'.nodes, s'.queue.map (·.1), sc⟩ := by
  unfold genCStep at h
  cases hq : s.queue with
  | nil =>
    rw [hq] at h
    cases h
    exact ⟨[], fun sc => by simp [step, hq]⟩
  | cons hd q =>
    obtain ⟨i, score⟩ := hd
    rw [hq] at h
    simp only at h
    by_cases hcons : consults cfg (getN s.nodes i).rows.length (getN s.nodes i).scope.length = true
    · simp only [hcons, Bool.not_true, Bool.false_eq_true, if_false, genCrash_eq] at h
      by_cases hcr : candCrash cfg (getN s.nodes i).scope.length = true
      · simp only [hcr, if_true] at h; cases h
      · simp only [hcr, Bool.false_eq_true, if_false] at h
        cases hsc : s.script with
        | nil => rw [hsc] at h; cases h
        | cons ans sc0 =>
          rw [hsc] at h
          simp only at h
          by_cases hv : (getN s.nodes i).scope.contains ans.v = true
          · simp only [hv, Bool.not_true, Bool.false_eq_true, if_false] at h
            have hv' : ans.v ∈ (getN s.nodes i).scope := by simpa using hv
            rw [genOutcome_closed cfg data mme _ score ans hv' hcons] at h
            by_cases hst : genStops cfg mme score ans = true
            · simp only [hst, if_true] at h
              cases h
              refine ⟨[.stop], fun sc => ?_⟩
              simp [step, hcons, hcr]
            · simp only [hst, Bool.false_eq_true, if_false] at h
              by_cases hem : (cfg.kind != Kind.fit && ((side data ans.v 0 (getN s.nodes i).rows).isEmpty ||
                  (side data ans.v 1 (getN s.nodes i).rows).isEmpty)) = true
              · simp [List.any_cons, hem] at h
              · simp only [List.any_cons, List.any_nil, Bool.or_false, hem, Bool.false_eq_true, if_false] at h
                cases h
                refine ⟨[.cut ans.v], fun sc => ?_⟩
                simp [step, hcons, hcr, hv, hem, List.zipIdx, hv']
          · simp only [hv, Bool.not_false, if_true] at h; cases h
    · have hcons' : consults cfg (getN s.nodes i).rows.length (getN s.nodes i).scope.length = false := by
        cases hh : consults cfg (getN s.nodes i).rows.length (getN s.nodes i).scope.length <;> simp_all
      simp only [hcons', Bool.not_false, if_true] at h
      cases h
      exact ⟨[], fun sc => by simp [step, hcons']⟩

/-- **whole runs**: every successful run of the raw-answer machine is a run of the model on the script of the decisions
taken along it -/
theorem genCRun_sim (cfg : Cfg) (data : List (List Nat)) (mme : α) : ∀ (f : Nat) (s s' : GSt α),
    genCRun cfg data mme f s = .ok s' →
    ∃ ds : List Dec, ∀ sc : List Dec,
      run cfg data f ⟨s.nodes, s.queue.map (·.1), ds ++ sc⟩ = .ok ⟨s'.nodes, s'.queue.map (·.1), sc⟩ := by
  intro f
  induction f with
  | zero => intro s s' h; cases h; exact ⟨[], fun sc => rfl⟩
  | succ f ih =>
    intro s s' h
    unfold genCRun at h
    cases hq : s.queue with
    | nil => rw [hq] at h; cases h; exact ⟨[], fun sc => by simp [run, hq]⟩
    | cons hd q =>
      rw [hq] at h
      simp only at h
      cases hs : genCStep cfg data mme s with
      | error e => rw [hs] at h; cases h
      | ok s1 =>
        rw [hs] at h
        simp only at h
        obtain ⟨d, hd1⟩ := genCStep_sim cfg data mme s s1 hs
        obtain ⟨ds, hds⟩ := ih s1 s' h
        refine ⟨d ++ ds, fun sc => ?_⟩
        have h1 := hd1 (ds ++ sc)
        rw [hq] at h1
        unfold run
        simp only [List.map_cons, List.append_assoc] at h1 ⊢
        rw [h1]
        exact hds sc

/-- a finished run of the model does not depend on the fuel, as long as the fuel covers the measure
`|stack| + 2·|script|` (`step_measure`) -/
theorem run_fuel_enough (cfg : Cfg) (data : List (List Nat)) : ∀ (f : Nat) (s s' : St α),
    run cfg data f s = .ok s' → s'.queue = [] → ∀ F, s.queue.length + 2 * s.script.length ≤ F →
    run cfg data F s = .ok s' := by
  intro f
  induction f with
  | zero =>
    intro s s' h hq F _
    cases h
    cases F with
    | zero => rfl
    | succ F => simp [run, hq]
  | succ f ih =>
    intro s s' h hq' F hF
    unfold run at h
    cases hq : s.queue with
    | nil =>
      rw [hq] at h; cases h
      cases F with
      | zero => rfl
      | succ F => simp [run, hq]
    | cons i q =>
      rw [hq] at h
      simp only at h
      cases hs : step cfg data s with
      | error e => rw [hs] at h; cases h
      | ok s1 =>
        rw [hs] at h
        simp only at h
        have hm := step_measure cfg data s s1 i q hq hs
        cases F with
        | zero => rw [hq] at hF; simp at hF
        | succ F =>
          unfold run
          rw [hq]
          simp only [hs]
          exact ih s1 s' h hq' F (by omega)

/-- **`e2e_cnet_learn_as_coded`** — whatever the raw-answer machine with the GENERATED iterations returns, the model's
`learn` returns on the script of the decisions taken (`keepRootClt = true` is the model's name for `"clt"` being among
the copied attributes, `fit_frame_as_coded`) -/
theorem e2e_cnet_learn_as_coded (cfg : Cfg) (hkeep : cfg.keepRootClt = true) (data : List (List Nat)) (nCols : Nat)
    (p score0 mme : α) (script : List (ScoreAns α)) (t : LTree α)
    (h : genCLearn cfg data nCols p score0 mme script = .ok t) :
    ∃ ds : List Dec, learn cfg data nCols p ds = .ok t := by
  unfold genCLearn at h
  cases hr : genCRun cfg data mme (2 * script.length + 1) (genCInit data.length nCols p score0 script) with
  | error e => rw [hr] at h; cases h
  | ok s =>
    rw [hr] at h
    simp only at h
    by_cases hq : s.queue.isEmpty = true
    · simp only [hq, Bool.not_true, Bool.false_eq_true, if_false] at h
      have hcop : (Gen.S4cnetFitCopies.contains "clt") = true := by decide
      simp only [hcop, Bool.not_true, Bool.and_false, Bool.false_and, Bool.false_eq_true, if_false] at h
      cases h
      obtain ⟨ds, hds⟩ := genCRun_sim cfg data mme _ _ s hr
      have h0 := hds []
      have hq0 : s.queue = [] := List.isEmpty_iff.1 hq
      simp only [List.append_nil, hq0, List.map_nil] at h0
      have hinit : (⟨(genCInit data.length nCols p score0 script).nodes,
          (genCInit data.length nCols p score0 script).queue.map (·.1), ds⟩ : St α) = init data.length nCols p ds := by
        simp [genCInit, init, Gen.S4cnetFitInit, ofS4]
      rw [hinit] at h0
      have h1 := run_fuel_enough cfg data _ _ _ h0 rfl (2 * ds.length + 1) (by simp [init]; omega)
      refine ⟨ds, ?_⟩
      unfold learn learnSt
      rw [h1]
      simp [hkeep]
    · simp only [hq, Bool.not_false, if_true] at h; cases h

end machine

section props
variable {α : Type} [Field α] [LinearOrder α] [IsStrictOrderedRing α]

/-- **`e2e_cnet_learn`** (C18, learners): for every data set, every script of raw score answers and every leaf oracle
that is a distribution at the leaves, what the machine with the GENERATED iterations of `BinaryCNet.fit` /
`learn_cnet_bd` / `learn_cnet_bic` returns is over all rows and all columns, is a well-formed cutset network, and
 * its values over all `2^nCols` complete binary rows sum to one (`learned_cnet_normalised`);
 * at every OR node, at depth `d`, the weights are the smoothed counts the code computes — `leftWeight` of the number of
   the node's rows with cut value 0 — and its complement, they sum to one and lie in `[0, 1]`, strictly inside when the
   smoothing parameter is positive or the learner is score-based (`learned_weights`).
Ingredients: `e2e_cnet_learn_as_coded` (built on `fitStep_as_coded`, `bdStep_as_coded`, `bicStep_as_coded` — of which
`step_fit_cut_as_coded`, `step_bd_cut_as_coded`, `step_bic_cut_as_coded` are the instances at a cut —, `candidates_as_coded`,
`fit_frame_as_coded`) + `learned_tree_good`, `learned_cnet_wellFormed`, `learned_cnet_normalised`, `learned_weights`. -/
theorem e2e_cnet_learn (cfg : Cfg) (hkeep : cfg.keepRootClt = true) (data : List (List Nat)) (nCols : Nat)
    (p score0 mme : α) (hp : 0 ≤ p) (script : List (ScoreAns α)) (t : LTree α)
    (h : genCLearn cfg data nCols p score0 mme script = .ok t)
    (dom : Nat → Nat) (hdom : ∀ v, v < nCols → dom v = 2)
    (lf : List Nat → List Nat → Ev → α) (hlf : LeavesDist dom lf t) :
    t.rows = List.range data.length ∧ t.scope = List.range nCols ∧
    C18.CNet.WF dom (toCNet lf t) ∧
    sumOver dom (List.range nCols) (fun _ => none) (fun x => cnetEval x (toCNet lf t)) = 1 ∧
    t.AllOr (fun d r _ v w0 w1 _ _ =>
      w0 = leftWeight cfg.kind (parAt cfg.kind p d) (side data v 0 r).length r.length ∧
      w1 = 1 - w0 ∧ w0 + w1 = 1 ∧ 0 ≤ w0 ∧ w0 ≤ 1 ∧ 0 ≤ w1 ∧ w1 ≤ 1 ∧
      ((0 < p ∨ cfg.kind ≠ .fit) → 0 < w0 ∧ w0 < 1 ∧ 0 < w1 ∧ w1 < 1)) 0 := by
  obtain ⟨ds, hds⟩ := e2e_cnet_learn_as_coded cfg hkeep data nCols p score0 mme script t h
  obtain ⟨_, h1, h2⟩ := learned_tree_good cfg data nCols p ds t hds
  exact ⟨h1, h2, (learned_cnet_wellFormed cfg data nCols p ds t hds dom hdom lf hlf).1,
    learned_cnet_normalised cfg data nCols p ds t hds dom hdom lf hlf,
    learned_weights cfg data nCols p hp ds t hds⟩

/-- the learned network is aligned (`Good`: children over the scope with the cut variable erased) -/
theorem good_aligned (cfg : Cfg) (data : List (List Nat)) (lf : List Nat → List Nat → Ev → α) :
    ∀ (t : LTree α) (p : α), Good cfg data p t → CNetAligned (toCNet lf t)
  | .leaf _ _, _, _ => trivial
  | .or r s v w0 w1 c0 c1, p, hg => by
      simp only [Good] at hg
      obtain ⟨hv, _, _, _, e0, e1, _, _, _, g0, g1⟩ := hg
      exact ⟨hv, by rw [toCNet_scope, e0], by rw [toCNet_scope, e1], good_aligned cfg data lf c0 _ g0,
        good_aligned cfg data lf c1 _ g1⟩

/-- **`e2e_cnet_learn_eval`** (C18, learner + evaluator): the routing loop with the GENERATED OR iteration, run on the
network the machine with the GENERATED learner iterations returns, gives every row of every batch its recursive value,
and these values sum to one over all complete binary rows.  Ingredients: `e2e_cnet_learn`, `e2e_cnet_eval`. -/
theorem e2e_cnet_learn_eval (cfg : Cfg) (hkeep : cfg.keepRootClt = true) (data : List (List Nat)) (nCols : Nat)
    (p score0 mme : α) (script : List (ScoreAns α)) (t : LTree α)
    (h : genCLearn cfg data nCols p score0 mme script = .ok t)
    (dom : Nat → Nat) (hdom : ∀ v, v < nCols → dom v = 2)
    (lf : List Nat → List Nat → Ev → α) (hlf : LeavesDist dom lf t) :
    (∀ (rows : Nat → Ev) (n r : Nat), r < n →
      (genCnetBatch rows n nCols (toCNet lf t))[r]? = some (cnetEval (rows r) (toCNet lf t))) ∧
    sumOver dom (List.range nCols) (fun _ => none)
      (fun x => (genCnetBatch (fun _ => x) 1 nCols (toCNet lf t)).getD 0 0) = 1 := by
  obtain ⟨ds, hds⟩ := e2e_cnet_learn_as_coded cfg hkeep data nCols p score0 mme script t h
  obtain ⟨hg, _, hs⟩ := learned_tree_good cfg data nCols p ds t hds
  have hal := good_aligned cfg data lf t p hg
  have hsc : (toCNet lf t).scope = List.range nCols := by rw [toCNet_scope, hs]
  obtain ⟨hwf, _⟩ := learned_cnet_wellFormed cfg data nCols p ds t hds dom hdom lf hlf
  refine ⟨fun rows n r hr => e2e_cnet_eval rows n nCols _ hsc hal r hr, ?_⟩
  have := e2e_cnet_normalised dom nCols (toCNet lf t) hsc hal hwf (fun _ => none) (fun _ _ => rfl)
  rwa [hsc] at this

/-! ### non-vacuity: the data set and the trees of `Props/C18Learn.lean`, reached from RAW answers -/

/-- `fit`, `min_mean_entropy = 1/100`: mean entropy 1/2 and gain 1/5 at the root (cut on 0) and at the left child (cut on
2); at the right child the mean entropy 0 is below the threshold (stop) -/
def exRawFit : List (ScoreAns ℚ) := [⟨0, 1/2, 1/5, 0⟩, ⟨2, 1/2, 1/5, 0⟩, ⟨1, 0, 1/5, 0⟩]

/-- `learn_cnet_bd`: the root (own score 0) is beaten by the best candidate (1), children queued with scores 5 and 6; the
left child (5) is beaten by 7, the right child (6) is not beaten by 3 -/
def exRawBd : List (ScoreAns ℚ) := [⟨0, 1, 5, 6⟩, ⟨2, 7, 1, 1⟩, ⟨1, 3, 0, 0⟩]

theorem exGenLearnFit : genCLearn exCfg exData 3 (1/100 : ℚ) 0 (1/100) exRawFit = .ok exTree :=
  ok_of_toOption (by decide +kernel)

theorem exGenLearnBd : genCLearn exCfgBd exData 3 (1 : ℚ) 0 0 exRawBd = .ok exTreeBd :=
  ok_of_toOption (by decide +kernel)

example : genCLearn { kind := .bic } exData 3 (1/100 : ℚ) 0 0 exRawBd = .ok exTree :=
  ok_of_toOption (by decide +kernel)

example : ∃ ds, learn exCfg exData 3 (1/100 : ℚ) ds = .ok exTree :=
  e2e_cnet_learn_as_coded exCfg rfl exData 3 (1/100) 0 (1/100) exRawFit exTree exGenLearnFit

example : sumOver exDom (List.range 3) (fun _ => none) (fun x => cnetEval x (toCNet exLf exTree)) = 1 :=
  (e2e_cnet_learn exCfg rfl exData 3 (1/100 : ℚ) 0 (1/100) (by norm_num) exRawFit exTree exGenLearnFit exDom
    (fun _ _ => rfl) exLf exLf_dist).2.2.2.1

example : sumOver exDom (List.range 3) (fun _ => none)
    (fun x => (genCnetBatch (fun _ => x) 1 3 (toCNet exLf exTreeBd)).getD 0 0) = 1 :=
  (e2e_cnet_learn_eval exCfgBd rfl exData 3 (1 : ℚ) 0 0 exRawBd exTreeBd exGenLearnBd exDom (fun _ _ => rfl) exLf
    exLf_distBd).2

end props

end item7learn

section item5
open Deeprob

/-! ## (5) C11 — the generated Chow-Liu tables -/
section cp
open Deeprob.CltFit Deeprob.Struct4 Deeprob.Oblig.StructCltFit

variable {F : Type} [Field F] [LinearOrder F]

/-- `priors[i, k]` as `estimate_priors_joints` fills it: the GENERATED `Gen.priorZero` / `Gen.priorOne` on the counts
`counts_features[i] = ones X i`, `n_samples = len X` (the value index is read as 0 / non-zero) -/
def cpGenPrior (X : List (List Nat)) (al : F) (i k : Nat) : F :=
  match k with
  | 0 => Gen.priorZero (ones X i : F) (X.length : F) al
  | _+1 => Gen.priorOne (ones X i : F) (X.length : F) al

/-- `joints[i, j, a, b]` as `estimate_priors_joints` fills it: off the diagonal the GENERATED smoothing `Gen.jointSmooth`
of the GENERATED inclusion–exclusion cell `Gen.jointCell00 … 11` (`counts_cols[i,j] = ones X j`,
`counts_rows[i,j] = ones X i`, `counts_ones[i,j] = CltFit.dot X i j`), on the diagonal the GENERATED overwrite
`Gen.jointDiag00 … 11` of the generated priors -/
def cpGenJoint (X : List (List Nat)) (al : F) (i j a b : Nat) : F :=
  if i = j then
    match a, b with
    | 0, 0 => Gen.jointDiag00 (cpGenPrior X al i 0) (cpGenPrior X al i 1)
    | 0, _+1 => Gen.jointDiag01 (cpGenPrior X al i 0) (cpGenPrior X al i 1)
    | _+1, 0 => Gen.jointDiag10 (cpGenPrior X al i 0) (cpGenPrior X al i 1)
    | _+1, _+1 => Gen.jointDiag11 (cpGenPrior X al i 0) (cpGenPrior X al i 1)
  else
    match a, b with
    | 0, 0 => Gen.jointSmooth (Gen.jointCell00 (X.length : F) (ones X j) (ones X i) (CltFit.dot X i j)) (X.length : F) al
    | 0, _+1 => Gen.jointSmooth (Gen.jointCell01 (X.length : F) (ones X j) (ones X i) (CltFit.dot X i j)) (X.length : F) al
    | _+1, 0 => Gen.jointSmooth (Gen.jointCell10 (X.length : F) (ones X j) (ones X i) (CltFit.dot X i j)) (X.length : F) al
    | _+1, _+1 => Gen.jointSmooth (Gen.jointCell11 (X.length : F) (ones X j) (ones X i) (CltFit.dot X i j)) (X.length : F) al

/-- `params[i, l, k]` of `compute_clt_parameters(bfs, tree, priors, joints)`: the GENERATED `Gen.S4cltParam` applied to
the generated arrays `cpGenPrior`, `cpGenJoint`; the arrays have `len pred` rows and a row index that may be `-1`
(`tree[root]`) is read as NumPy reads it (`Struct4.wrap`: the last row) -/
def cpGenParam (X : List (List Nat)) (al : F) (pred : List Int) (root i l k : Nat) : F :=
  Gen.S4cltParam (fun p k => cpGenPrior X al (wrap pred.length p) k)
    (fun a b k l => cpGenJoint X al a.toNat (wrap pred.length b) k l)
    (fun a => pred.getD a.toNat (-1)) (root : Int) (i : Int) l k

/-- the `(N, 2, 2)` tensor of generated entries (linear domain; the source stores its `np.log`) -/
def cpGenTable (X : List (List Nat)) (al : F) (pred : List Int) (root : Nat) : List (List (List F)) :=
  (List.range pred.length).map (fun i => [0, 1].map (fun l => [0, 1].map (fun k => cpGenParam X al pred root i l k)))

/-- `compute_mutual_information(priors, joints)[i, j]`: the GENERATED `Gen.S4mutualInfo` on the generated arrays -/
def cpGenMI (E : ExpLog F) (X : List (List Nat)) (al : F) (i j : Nat) : F :=
  Gen.S4mutualInfo E 2 (cpGenPrior X al) (cpGenJoint X al) i j

/-! ### linking lemmas -/

/-- the generated priors are the model's (`prior_as_coded`; the obligation states the two cells `k = 0, 1`) -/
theorem cpGenPrior_eq (X : List (List Nat)) (al : F) (i k : Nat) : cpGenPrior X al i k = prior X al i k := by
  cases k with
  | zero => exact (prior_as_coded X al i).2.symm
  | succ k =>
    have h : prior X al i (k+1) = prior X al i 1 := rfl
    rw [h]; exact (prior_as_coded X al i).1.symm

/-- the generated joints are the model's (`cell_as_coded` inside `joint_offdiag_as_coded`, `joint_diag_as_coded`) -/
theorem cpGenJoint_eq (X : List (List Nat)) (al : F) (i j a b : Nat) : cpGenJoint X al i j a b = joint X al i j a b := by
  unfold cpGenJoint
  by_cases h : i = j
  · subst h
    simp only [if_true, cpGenPrior_eq]
    obtain ⟨h00, h01, h10, h11⟩ := joint_diag_as_coded X al i
    cases a with
    | zero => cases b with
      | zero => exact h00.symm
      | succ b => have e : joint X al i i 0 (b+1) = joint X al i i 0 1 := by simp [joint]
                  rw [e]; exact h01.symm
    | succ a => cases b with
      | zero => have e : joint X al i i (a+1) 0 = joint X al i i 1 0 := by simp [joint]
                rw [e]; exact h10.symm
      | succ b => have e : joint X al i i (a+1) (b+1) = joint X al i i 1 1 := by simp [joint]
                  rw [e]; exact h11.symm
  · simp only [h, if_false]
    obtain ⟨h00, h01, h10, h11⟩ := cell_as_coded (F := F) X i j
    rw [joint_offdiag_as_coded X al i j a b h]
    cases a with
    | zero => cases b with
      | zero => rw [h00]
      | succ b => have e : (cell X i j 0 (b+1) : F) = cell X i j 0 1 := rfl
                  rw [e, h01]
    | succ a => cases b with
      | zero => have e : (cell X i j (a+1) 0 : F) = cell X i j 1 0 := rfl
                rw [e, h10]
      | succ b => have e : (cell X i j (a+1) (b+1) : F) = cell X i j 1 1 := rfl
                  rw [e, h11]

/-- **the generated table entry is the model's `cpt`** (`cpt_as_coded` on the generated arrays) -/
theorem cpGenParam_eq (X : List (List Nat)) (al : F) (pred : List Int) (root i l k : Nat) :
    cpGenParam X al pred root i l k = cpt X al pred root i l k := by
  unfold cpGenParam
  rw [cpt_as_coded]
  simp only [cpGenPrior_eq, cpGenJoint_eq]

theorem cpGenTable_eq (X : List (List Nat)) (al : F) (pred : List Int) (root : Nat) :
    cpGenTable X al pred root = cptTable X al pred root := by
  unfold cpGenTable cptTable
  simp only [cpGenParam_eq]

/-- the generated mutual-information matrix is the specification's (`mutualInfo_as_coded` on the generated arrays) -/
theorem cpGenMI_eq (E : ExpLog F) (X : List (List Nat)) (al : F) : cpGenMI E X al = mutualInfo E X al := by
  funext i j
  unfold cpGenMI
  rw [mutualInfo_as_coded]
  have h1 : cpGenPrior X al = fun i k => prior X al i k := by funext i k; exact cpGenPrior_eq X al i k
  have h2 : cpGenJoint X al = fun i j k l => joint X al i j k l := by
    funext i j k l; exact cpGenJoint_eq X al i j k l
  rw [h1, h2]

variable [IsStrictOrderedRing F]

/-! ### the end-to-end corollaries -/

/-- **`e2e_cpt`** (C11): for 0/1 data and `α > 0`, the GENERATED table entry `params[i, l, k]`
(`Gen.S4cltParam` on the arrays filled by the GENERATED `Gen.priorOne/priorZero/jointCell…/jointSmooth/jointDiag…`) of a
non-root variable `i` with parent `pa = tree[i] ≠ i` is the smoothed conditional
`(#{x_i = k ∧ x_pa = l} + α) / (#{x_pa = l} + 2α)`.
Ingredients: `Struct4.cpt_as_coded`, `StructCltFit.prior_as_coded / cell_as_coded / joint_offdiag_as_coded /
joint_diag_as_coded`, `C11.cpt_is_smoothed_conditional`. -/
theorem e2e_cpt {X : List (List Nat)} (hX : Binary X) {al : F} (hal : 0 < al)
    (pred : List Int) (root : Nat) {i : Nat} (hi : i ≠ root) (hpa : paIdx pred i ≠ i)
    (l k : Nat) (hl : l < 2) (hk : k < 2) :
    cpGenParam X al pred root i l k =
      ((cnt2 X i (paIdx pred i) k l : F) + al) / ((cnt1 X (paIdx pred i) l : F) + 2 * al) := by
  rw [cpGenParam_eq]
  exact C11.cpt_is_smoothed_conditional hX hal pred root hi hpa l k hl hk

/-- the root rows of the GENERATED table are the smoothed prior `(#{x_root = k} + 2α) / (n + 4α)`
(`C11.cpt_root_is_smoothed_prior`) -/
theorem e2e_cpt_root {X : List (List Nat)} (hX : Binary X) {al : F} (hal : 0 < al)
    (pred : List Int) (root : Nat) (l k : Nat) (hl : l < 2) (hk : k < 2) :
    cpGenParam X al pred root root l k = ((cnt1 X root k : F) + 2 * al) / ((X.length : F) + 4 * al) := by
  rw [cpGenParam_eq]
  exact C11.cpt_root_is_smoothed_prior hX hal pred root l k hl hk

/-- **`e2e_cpt_rows_sum_one`** (C11): every row of the GENERATED table sums to one, for any predecessor vector and root,
any 0/1 data and any `α > 0`.  Ingredients: as above + `C11.cpt_rows_sum_one`. -/
theorem e2e_cpt_rows_sum_one {X : List (List Nat)} (hX : Binary X) {al : F} (hal : 0 < al)
    (pred : List Int) (root i l : Nat) (hl : l < 2) :
    cpGenParam X al pred root i l 0 + cpGenParam X al pred root i l 1 = 1 := by
  rw [cpGenParam_eq, cpGenParam_eq]
  exact C11.cpt_rows_sum_one hX hal pred root i l hl

/-- every entry of the GENERATED table is positive (so the stored `np.log(params)` is finite) — `C11.cpt_pos` -/
theorem e2e_cpt_pos {X : List (List Nat)} (hX : Binary X) {al : F} (hal : 0 < al)
    (pred : List Int) (root : Nat) (i : Nat) (hpa : i = root ∨ paIdx pred i ≠ i)
    (l k : Nat) (hl : l < 2) (hk : k < 2) : 0 < cpGenParam X al pred root i l k := by
  rw [cpGenParam_eq]
  exact C11.cpt_pos hX hal pred root i hpa l k hl hk

/-- **`e2e_cpt_fit_normalised`** (C11): a CLT over a rooted spanning tree whose tables are the GENERATED ones evaluates
the all-missing row to one (`message_passing` of `Model/Clt.lean`, which is hand-written: its tie to the source is
`Oblig/Struct4CltMsg.lean`, not composed here).  Ingredients: as above + `C11.fit_normalised`. -/
theorem e2e_cpt_fit_normalised {X : List (List Nat)} (hX : Binary X) {al : F} (hal : 0 < al) (scope : List Nat)
    {pred : List Int} {root : Nat} (hT : isRootedSpanningTree pred root = true) :
    Clt.value scope pred (cpGenTable X al pred root) (fun _ => none) = 1 := by
  rw [cpGenTable_eq]
  exact C11.fit_normalised hX hal scope hT

/-- **`e2e_cpt_tree_maximal`** (C11, structure): with the GENERATED mutual-information matrix
(`Gen.S4mutualInfo` on the generated arrays) as weights, a returned rooted spanning tree that passes the cycle
certificate has maximal total weight among all rooted spanning trees.  (`maximum_spanning_tree` itself calls SciPy and
is not generated: its result is CHECKED, as in `C11.fit_tree_maximal`.)
Ingredients: `Struct4.mutualInfo_as_coded` + `C11.fit_tree_maximal`. -/
theorem e2e_cpt_tree_maximal (E : ExpLog F) (X : List (List Nat)) (al : F) {pred : List Int} {root : Nat}
    (hT : isRootedSpanningTree pred root = true) (hc : cycleOK (cpGenMI E X al) pred = true) :
    ∀ (pred' : List Int) (root' : Nat), pred'.length = pred.length →
      isRootedSpanningTree pred' root' = true →
      treeWeight (cpGenMI E X al) pred' ≤ treeWeight (cpGenMI E X al) pred := by
  rw [cpGenMI_eq] at hc ⊢
  exact C11.fit_tree_maximal E X al hT hc

/-! ### non-vacuity: the 4 × 3 data set `C11.X0`, `α = 1/10`, the star rooted at variable 2 -/

/-- all hypotheses hold, and the generated definitions compute: `params[0, 1, 0] = (1 + α)/(3 + 2α)` with
`pa(0) = 2`, `#{x_0 = 0 ∧ x_2 = 1} = 1`, `#{x_2 = 1} = 3` -/
example : Binary C11.X0 ∧ (0 : ℚ) < 1/10 ∧ isRootedSpanningTree [2, 2, -1] 2 = true ∧ (0 : Nat) ≠ 2 ∧
    paIdx [2, 2, -1] 0 ≠ 0 ∧
    cpGenParam C11.X0 (1/10 : ℚ) [2, 2, -1] 2 0 1 0 = (1 + 1/10) / (3 + 2 * (1/10)) ∧
    cpGenParam C11.X0 (1/10 : ℚ) [2, 2, -1] 2 0 1 0 + cpGenParam C11.X0 (1/10 : ℚ) [2, 2, -1] 2 0 1 1 = 1 ∧
    cpGenParam C11.X0 (1/10 : ℚ) [2, 2, -1] 2 2 0 1 = (3 + 2 * (1/10)) / (4 + 4 * (1/10)) :=
  ⟨C11.X0_binary, by norm_num, by decide, by decide, by decide, by decide +kernel, by decide +kernel, by decide +kernel⟩

example : Clt.value [5, 3, 8] [2, 2, -1] (cpGenTable C11.X0 (1/10 : ℚ) [2, 2, -1] 2) (fun _ => none) = 1 :=
  e2e_cpt_fit_normalised C11.X0_binary (by norm_num) _ (by decide)

example : cpGenParam C11.X0 (1/10 : ℚ) [2, 2, -1] 2 0 1 0
    = ((cnt2 C11.X0 0 (paIdx [2, 2, -1] 0) 0 1 : ℚ) + 1/10) / ((cnt1 C11.X0 (paIdx [2, 2, -1] 0) 1 : ℚ) + 2 * (1/10)) :=
  e2e_cpt C11.X0_binary (by norm_num) _ _ (by decide) (by decide) 1 0 (by omega) (by omega)

/-- on two variables every spanning tree passes the certificate (there is no non-tree pair), for any `log` -/
example (E : ExpLog F) (X : List (List Nat)) (al : F) :
    isRootedSpanningTree [-1, 0] 0 = true ∧ cycleOK (cpGenMI E X al) [-1, 0] = true :=
  ⟨by decide, by
    have : cyclePairs [-1, 0] = [] := by decide
    simp [cycleOK, this]⟩

end cp

end item5

end Deeprob.E2E
