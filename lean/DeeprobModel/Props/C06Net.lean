import DeeprobModel.Lemmas.NetTDOK
import DeeprobModel.Props.C06
set_option linter.unusedSimpArgs false
set_option linter.unusedVariables false
set_option linter.unusedSectionVars false
set_option linter.unnecessarySeqFocus false
/-
C06 at the level of the stored node table (what `eval_top_down` really runs on: shared sub-circuits,
one mask per node).  `mpeNet` (Model/TopDownNet.lean) propagates reach flags over the table in reverse
storage order; the theorems say it computes the tree-level descent of the unfolding, hence inherits
every C06 theorem.  Witness: `exNet` (9 nodes, 3 variables, root = 3-child sum, node 4 shared by two
products, leaves 0,1,2 shared as well).
-/
namespace Deeprob
namespace C06
open TCirc

section general
variable {α : Type} [CommSemiring α] [LinearOrder α]

/-- **observed entries are never overwritten** — for every table (valid or not), every visiting
order, every root -/
theorem mpeNetOrd_keeps_observed (ord : List Nat) (e : Ev) (dens : List α) (net : Net α) (root : Nat)
    (isBern : Nat → Bool) : ∀ v, e v ≠ none → (mpeNetOrd ord e dens net root isBern).row v = e v :=
  fun v h => foldl_tdStep_keeps net _ isBern ord ⟨fun j => j == root, e⟩ v h

theorem mpeNet_keeps_observed (e : Ev) (dens : List α) (net : Net α) (root : Nat) (isBern : Nat → Bool) :
    ∀ v, e v ≠ none → mpeNet e dens net root isBern v = e v :=
  mpeNetOrd_keeps_observed _ e dens net root isBern

/-- **DAG ⇒ tree refinement of the top-down pass, for every topological visiting order.** On a
children-first table whose nodes satisfy the local validity conditions, for ANY order `ord` that lists
the root, lists no node twice and lists every node before its children (`TopoOrd` — what
`topological_order(root)` returns), the completed row computed by mask propagation over the table
(shared nodes visited once) is the tree-level descent `mpeDescent` of the unfolding of the root. In
particular the result does not depend on which topological order is used. -/
theorem mpeNetOrd_refines (dom : Nat → Nat) (net : Net α) (dens : List α) (isBern : Nat → Bool) (hw : WellOrdered net)
    (hok : ∀ i (x : NNode α), net[i]? = some x → NodeOK dom net dens i x)
    (ord : List Nat) (hord : TopoOrd net ord) (root : Nat) (hroot : root ∈ ord) (e : Ev) :
    (mpeNetOrd ord e dens net root isBern).row = mpeDescent e (toTTree net dens isBern (root+1) root) := by
  have hr : root < net.length := hord.lt_length root hroot
  unfold mpeNetOrd
  apply inv_run dom net dens isBern e hw hok _ ord hord
  refine ⟨?_, ?_, ?_⟩
  · intro a b _ _ ha hb hab
    simp only [beq_iff_eq] at ha hb
    exact absurd (ha.trans hb.symm) hab
  · intro j _ hj v _
    simp only [beq_iff_eq] at hj
    subst hj; rfl
  · intro v hv
    have hvr : v ∉ scopeOf net root := hv root hroot (by simp)
    unfold mpeDescent
    exact pass_outside (mpeBr e) mpeFill dom v _ (TT_valid dom net dens isBern hw hok root hr) [] e
      (by rw [TT_scope net dens isBern root hr]; exact hvr)

/-- the instance used by the driver: reverse storage order -/
theorem mpeNet_refines (dom : Nat → Nat) (net : Net α) (dens : List α) (isBern : Nat → Bool) (hw : WellOrdered net)
    (hok : ∀ i (x : NNode α), net[i]? = some x → NodeOK dom net dens i x)
    (root : Nat) (hr : root < net.length) (e : Ev) :
    mpeNet e dens net root isBern = mpeDescent e (toTTree net dens isBern (root+1) root) :=
  mpeNetOrd_refines dom net dens isBern hw hok _ (topoOrd_range_reverse net hw net.length (le_refl _)) root
    (by simp [hr]) e

end general

section ordered
variable {α : Type} [CommSemiring α] [LinearOrder α] [IsStrictOrderedRing α]

/-- table-level MPE: the completed row is a completion of the evidence on the root scope, with
domain values only, and nothing outside the root scope is touched -/
theorem mpeNet_completes (dom : Nat → Nat) (net : Net α) (dens : List α) (isBern : Nat → Bool) (hw : WellOrdered net)
    (hok : ∀ i (x : NNode α), net[i]? = some x → NodeOK dom net dens i x)
    (hcat : CatLeaves dom net isBern) (hnw : NonNegW net) (root : Nat) (hr : root < net.length) (e : Ev) :
    Completes (scopeOf net root) e (mpeNet e dens net root isBern) ∧
    (∀ v, FillsVar dom e (mpeNet e dens net root isBern) v) ∧
    (∀ v, v ∉ scopeOf net root → mpeNet e dens net root isBern v = e v) := by
  have hT := tdok_toTTree dom net dens isBern hw hok hcat hnw root hr
  rw [mpeNet_refines dom net dens isBern hw hok root hr e, ← TT_scope net dens isBern root hr]
  exact ⟨mpe_completes dom _ hT.1 hT.2.1 e, mpe_entrywise dom _ hT.2.1 e,
    mpe_outside_scope_unchanged dom _ hT.1 e⟩

/-- table-level `mpe_positive`: the value table of the completed row is positive at the root whenever
that of the evidence is -/
theorem mpeNet_positive (dom : Nat → Nat) (net : Net α) (dens : List α) (isBern : Nat → Bool) (hw : WellOrdered net)
    (hok : ∀ i (x : NNode α), net[i]? = some x → NodeOK dom net dens i x)
    (hcat : CatLeaves dom net isBern) (hnw : NonNegW net) (root : Nat) (hr : root < net.length) (e : Ev)
    (h : 0 < (evalNet e dens net).getD root 0) :
    0 < (evalNet (mpeNet e dens net root isBern) dens net).getD root 0 := by
  have hT := tdok_toTTree dom net dens isBern hw hok hcat hnw root hr
  rw [evalNet_refines _ dens net hw root hr, ← toCirc_toTTree net dens isBern] at h ⊢
  rw [mpeNet_refines dom net dens isBern hw hok root hr e]
  exact mpe_positive dom _ hT.1 hT.2.2.1 hT.2.2.2.1 e h

end ordered

/-! ### the witness: a table with sharing -/
def cat (i v : Nat) (tbl : List Rat) : NNode Rat :=
  { id := i, kind := .leaf, scope := [v], ch := [], ws := [], leaf := .cat v tbl }
def prd (i : Nat) (sc ch : List Nat) : NNode Rat :=
  { id := i, kind := .prod, scope := sc, ch := ch, ws := [], leaf := .absent }

/-- nodes 0..3 leaves (0, 2, 3 Bernoulli), 4 = shared product over variables 1,2, 5..7 products over all
variables (5 and 6 share node 4; 5 and 7 share leaf 0; 4 and 7 share leaves 1, 2), 8 = root sum of 5,6,7 -/
def exNet : Net Rat :=
  [ cat 0 0 [1/2, 1/2], cat 1 1 [1/10, 6/10, 3/10], cat 2 2 [9/10, 1/10], cat 3 0 [1/5, 4/5],
    prd 4 [1, 2] [1, 2], prd 5 [0, 1, 2] [0, 4], prd 6 [2, 1, 0] [3, 4], prd 7 [0, 1, 2] [0, 1, 2],
    { id := 8, kind := .sum, scope := [0, 1, 2], ch := [5, 6, 7], ws := [1/5, 1/2, 3/10], leaf := .absent } ]

def exBern : Nat → Bool := fun i => i == 0 || i == 2 || i == 3

theorem exNet_wo : WellOrdered exNet := (wellOrderedB_iff exNet).1 (by decide)

theorem exNet_cases {P : Nat → NNode Rat → Prop} (h : ∀ i (hi : i < 9), P i (exNet[i]'(by simpa [exNet] using hi))) :
    ∀ i (x : NNode Rat), exNet[i]? = some x → P i x := by
  intro i x hx
  have hi : i < 9 := by
    rcases Nat.lt_or_ge i 9 with h1 | h1
    · exact h1
    · rw [List.getElem?_eq_none (by simpa [exNet] using h1)] at hx; cases hx
  have := h i hi
  rw [List.getElem?_eq_getElem (by simpa [exNet] using hi)] at hx
  cases hx; exact this

theorem exNet_ok : ∀ i (x : NNode Rat), exNet[i]? = some x → NodeOK exDom exNet [] i x := by
  apply exNet_cases
  intro i hi
  have hleaf : ∀ (v : Nat) (tbl : List Rat), tbl.length = exDom v → tsum tbl = 1 →
      LeafOK exDom [v] (LeafP.fn [v] 0 (.cat v tbl)) := fun v tbl hl hs => Circ.catLeaf_ok exDom v tbl hl hs
  match i, hi with
  | 0, _ => exact hleaf 0 _ (by simp [exDom]) (by norm_num [tsum])
  | 1, _ => exact hleaf 1 _ (by simp [exDom]) (by norm_num [tsum])
  | 2, _ => exact hleaf 2 _ (by simp [exDom]) (by norm_num [tsum])
  | 3, _ => exact hleaf 0 _ (by simp [exDom]) (by norm_num [tsum])
  | 4, _ => simp [exNet, NodeOK, prd, cat, scopeOf, scopeEq]
  | 5, _ => simp [exNet, NodeOK, prd, cat, scopeOf, scopeEq]
  | 6, _ => simp [exNet, NodeOK, prd, cat, scopeOf, scopeEq]; intro v; omega
  | 7, _ => simp [exNet, NodeOK, prd, cat, scopeOf, scopeEq]
  | 8, _ => simp [exNet, NodeOK, prd, cat, scopeOf, scopeEq]; intro v; omega

theorem exNet_cat : CatLeaves exDom exNet exBern := by
  apply exNet_cases
  intro i hi
  match i, hi with
  | 0, _ => intro _; exact ⟨0, _, rfl, rfl, by simp [exDom], by norm_num [tsum], by intro t ht; simp at ht; rcases ht with rfl | rfl <;> norm_num, fun _ => rfl⟩
  | 1, _ => intro _; exact ⟨1, _, rfl, rfl, by simp [exDom], by norm_num [tsum], by intro t ht; simp at ht; rcases ht with rfl | rfl | rfl <;> norm_num, fun h => by simp [exBern] at h⟩
  | 2, _ => intro _; exact ⟨2, _, rfl, rfl, by simp [exDom], by norm_num [tsum], by intro t ht; simp at ht; rcases ht with rfl | rfl <;> norm_num, fun _ => rfl⟩
  | 3, _ => intro _; exact ⟨0, _, rfl, rfl, by simp [exDom], by norm_num [tsum], by intro t ht; simp at ht; rcases ht with rfl | rfl <;> norm_num, fun _ => rfl⟩
  | 4, _ => intro h; simp [exNet, prd] at h
  | 5, _ => intro h; simp [exNet, prd] at h
  | 6, _ => intro h; simp [exNet, prd] at h
  | 7, _ => intro h; simp [exNet, prd] at h
  | 8, _ => intro h; simp [exNet] at h

theorem exNet_nw : NonNegW exNet := by
  apply exNet_cases
  intro i hi
  match i, hi with
  | 0, _ => intro h; simp [exNet, cat] at h
  | 1, _ => intro h; simp [exNet, cat] at h
  | 2, _ => intro h; simp [exNet, cat] at h
  | 3, _ => intro h; simp [exNet, cat] at h
  | 4, _ => intro h; simp [exNet, prd] at h
  | 5, _ => intro h; simp [exNet, prd] at h
  | 6, _ => intro h; simp [exNet, prd] at h
  | 7, _ => intro h; simp [exNet, prd] at h
  | 8, _ => intro _ w hw; simp [exNet] at hw; rcases hw with rfl | rfl | rfl <;> norm_num

example : ∀ v, exE v ≠ none → mpeNet exE [] exNet 8 exBern v = exE v :=
  mpeNet_keeps_observed exE [] exNet 8 exBern

example : mpeNet exE [] exNet 8 exBern = mpeDescent exE (toTTree exNet [] exBern 9 8) :=
  mpeNet_refines exDom exNet [] exBern exNet_wo exNet_ok 8 (by simp [exNet]) exE

/-- another topological order of the witness (the Kahn / BFS order the code would use: 8,5,6,7,3,4,0,1,2) -/
example : (mpeNetOrd [8, 5, 6, 7, 3, 4, 0, 1, 2] exE [] exNet 8 exBern).row = mpeDescent exE (toTTree exNet [] exBern 9 8) :=
  mpeNetOrd_refines exDom exNet [] exBern exNet_wo exNet_ok _ (by simp [TopoOrd, Net.chOf, exNet, prd, cat]) 8 (by simp) exE

example : Completes (scopeOf exNet 8) exE (mpeNet exE [] exNet 8 exBern) :=
  (mpeNet_completes exDom exNet [] exBern exNet_wo exNet_ok exNet_cat exNet_nw 8 (by simp [exNet]) exE).1


theorem exNet_val : (evalNet exE [] exNet).getD 8 0 = 1/10 := by
  simp [evalNet, exNet, evalNode, cat, prd, LeafP.fn, Circ.catLeafFn, exE, Ev.ofList, wsum, lprod]
  norm_num

example : 0 < (evalNet (mpeNet exE [] exNet 8 exBern) [] exNet).getD 8 0 :=
  mpeNet_positive exDom exNet [] exBern exNet_wo exNet_ok exNet_cat exNet_nw 8 (by simp [exNet]) exE
    (by rw [exNet_val]; norm_num)

end C06
end Deeprob
