import DeeprobModel.Lemmas.TensorLemmas
import DeeprobModel.Lemmas.TensorCirc
import Mathlib.Algebra.Ring.Rat
import Mathlib.Tactic.NormNum
/-
C16 — RAT-SPNs: region graphs are partitions, the padding buffers index every feature exactly once,
the repaired `unpad_samples` returns complete rows in the original feature order, and the unrolled
network is a valid (smooth, decomposable) circuit, hence normalised with exact NaN-marginalisation.

Accepted architectures: `RatSpn.accepted n depth` = the guards of `RegionGraph.__init__`
(`n > 0`, `depth > 0`, `depth ≤ int(log2 n)`, i.e. `2^depth ≤ n`, see `accepted_iff`); repetitions,
batch, sum and class counts are positive.  The random permutations are an oracle `ρ t r`
(repetition `t`, region `r`) about which only `(ρ t r).Perm r` is assumed.
-/
namespace Deeprob
namespace RatSpn

/-- the oracle used in the non-vacuity examples: every region is reversed -/
def revOracle : Nat → List Nat → List Nat := fun _ r => r.reverse

theorem revOracle_perm : ∀ t r, (revOracle t r).Perm r := fun _ r => List.reverse_perm r

/-- **regions_partition**: every partition `(p0, p1)` of the region graph splits its parent region
into two non-empty, disjoint, sorted parts covering it, of sizes `⌊|r|/2⌋` and `⌈|r|/2⌉` (the second
half gets the extra element).  Uses the guard `2^depth ≤ n`, which makes every region above the leaf
level have at least two elements. -/
theorem regions_partition (ρ : Nat → List Nat → List Nat) (hρ : ∀ t r, (ρ t r).Perm r)
    (n depth reps k : Nat) (hacc : accepted n depth = true) (hk : k < depth) :
    ∀ p ∈ partitionLayer ρ n reps k, ∃ r ∈ regionLayer ρ n reps k,
      p.1 ≠ [] ∧ p.2 ≠ [] ∧ (∀ v, v ∈ p.1 → v ∉ p.2) ∧ (∀ v, v ∈ r ↔ v ∈ p.1 ∨ v ∈ p.2) ∧
      (p.1 ++ p.2).Perm r ∧ p.1.length = r.length / 2 ∧ p.2.length = (r.length + 1) / 2 ∧
      p.1.Pairwise (· < ·) ∧ p.2.Pairwise (· < ·) := by
  intro p hp
  obtain ⟨_, _, h2⟩ := (accepted_iff n depth).1 hacc
  simp only [partitionLayer, partitionLevel, nextPartitions, List.mem_flatMap, List.mem_range, List.mem_map] at hp
  obtain ⟨t, ht, r, hr, rfl⟩ := hp
  refine ⟨r, ?_, ?_⟩
  · unfold regionLayer
    split
    · rename_i hk0; subst hk0; simpa [regionLevel] using hr
    · exact List.mem_flatMap.2 ⟨t, List.mem_range.2 ht, hr⟩
  · have hperm := split_perm (ρ t) r (hρ t r)
    have hl1 := split_len1 (ρ t) r (hρ t r)
    have hl2 := split_len2 (ρ t) r (hρ t r)
    have h2r := level_two_le (ρ t) (hρ t) n depth k h2 hk r hr
    have hnd := level_region_nodup (ρ t) (hρ t) n k r hr
    have hndp := split_nodup (ρ t) r (hρ t r) hnd
    have hnd' := List.nodup_append.1 hndp
    refine ⟨?_, ?_, ?_, ?_, hperm, hl1, by omega, ?_, ?_⟩
    · intro h; rw [h] at hl1; simp at hl1; omega
    · intro h; rw [h] at hl2; simp at hl2; omega
    · intro v h1 h2'; exact hnd'.2.2 v h1 v h2' rfl
    · intro v; rw [← hperm.mem_iff, List.mem_append]
    · exact ((split_sorted1 (ρ t) r).and hnd'.1).imp (fun ⟨a, b⟩ => Nat.lt_of_le_of_ne a b)
    · exact ((split_sorted2 (ρ t) r).and hnd'.2.1).imp (fun ⟨a, b⟩ => Nat.lt_of_le_of_ne a b)

/-- non-vacuity: 5 features, depth 2, two repetitions; layer 1 has the partitions `(3,4 | 0,1,2)` twice -/
example : accepted 5 2 = true ∧ partitionLayer revOracle 5 2 0 = [([3, 4], [0, 1, 2]), ([3, 4], [0, 1, 2])] ∧
    partitionLayer revOracle 5 2 1 = [([4], [3]), ([2], [0, 1]), ([4], [3]), ([2], [0, 1])] := by decide

/-- **leaf_regions_partition**: for each repetition `t`, the `2^depth` leaf regions handed to the base
layer (block `t` of `rg_layers[0]`) are non-empty and partition the feature set `0..n-1`. -/
theorem leaf_regions_partition (ρ : Nat → List Nat → List Nat) (hρ : ∀ t r, (ρ t r).Perm r)
    (n depth reps t : Nat) (hacc : accepted n depth = true) (ht : t < reps) :
    let leaves := ((leafRegions ρ n depth reps).drop (t * 2 ^ depth)).take (2 ^ depth)
    leaves.length = 2 ^ depth ∧ leaves.flatten.Perm (List.range n) ∧ (∀ r ∈ leaves, r ≠ []) ∧
      (leafRegions ρ n depth reps).length = reps * 2 ^ depth := by
  obtain ⟨_, hd, h2⟩ := (accepted_iff n depth).1 hacc
  simp only
  rw [leaf_block ρ n depth reps t hd ht]
  refine ⟨level_length _ _ _, level_flatten_perm (ρ t) (hρ t) n depth, ?_, leafRegions_length ρ n depth reps hd⟩
  intro r hr h
  have := level_nonempty (ρ t) (hρ t) n depth depth h2 (Nat.le_refl _) r hr
  rw [h] at this; simp at this

example : leafRegions revOracle 5 2 2 = [[4], [3], [2], [0, 1], [4], [3], [2], [0, 1]] := by decide

/-- **leaf_sizes**: every leaf region has `⌊n/2^depth⌋` or `⌈n/2^depth⌉` elements (so sizes differ by
at most one), at least one and at most `dimension`. -/
theorem leaf_sizes (ρ : Nat → List Nat → List Nat) (hρ : ∀ t r, (ρ t r).Perm r)
    (n depth reps : Nat) (hacc : accepted n depth = true) :
    ∀ r ∈ leafRegions ρ n depth reps,
      n / 2 ^ depth ≤ r.length ∧ r.length ≤ (n + 2 ^ depth - 1) / 2 ^ depth ∧
      (n + 2 ^ depth - 1) / 2 ^ depth ≤ n / 2 ^ depth + 1 ∧
      1 ≤ r.length ∧ r.length ≤ dimOf n depth ∧ dimOf n depth = (n + 2 ^ depth - 1) / 2 ^ depth := by
  intro r hr
  obtain ⟨_, hd, h2⟩ := (accepted_iff n depth).1 hacc
  obtain ⟨t, _, hr'⟩ := (mem_leafRegions ρ hd).1 hr
  have hs := level_sizes (ρ t) (hρ t) n depth r hr'
  refine ⟨hs.1, hs.2, ?_, level_nonempty (ρ t) (hρ t) n depth depth h2 (Nat.le_refl _) r hr',
    leaf_le_dim (ρ t) (hρ t) n depth r hr', dimOf_eq_ceil n depth⟩
  have hm := two_pow_pos depth
  have : n + 2 ^ depth - 1 ≤ n + 2 ^ depth := by omega
  calc (n + 2 ^ depth - 1) / 2 ^ depth ≤ (n + 2 ^ depth) / 2 ^ depth := Nat.div_le_div_right this
    _ = n / 2 ^ depth + 1 := Nat.add_div_right n hm

example : accepted 5 2 = true ∧ dimOf 5 2 = 2 ∧ padOf 5 2 = 3 := by decide

/-- **pad_count**: row `t` of the reshaped `pad_mask` has width `n + pad` and marks exactly
`pad = -n mod 2^depth` dummy positions; `n + pad = 2^depth * dimension`. -/
theorem pad_count (ρ : Nat → List Nat → List Nat) (hρ : ∀ t r, (ρ t r).Perm r)
    (n depth reps t : Nat) (hacc : accepted n depth = true) (ht : t < reps) :
    (padFlat n depth (leafRegions ρ n depth reps) t).length = n + padOf n depth ∧
    (padFlat n depth (leafRegions ρ n depth reps) t).count true = padOf n depth ∧
    (padFlat n depth (leafRegions ρ n depth reps) t).count false = n ∧
    2 ^ depth * dimOf n depth = n + padOf n depth ∧ padOf n depth < 2 ^ depth := by
  obtain ⟨_, hd, h2⟩ := (accepted_iff n depth).1 hacc
  have hlen := padFlat_len ρ hρ n depth reps t hd ht
  have hmlen := maskFlat_len ρ hρ n depth reps t hd ht
  have hperm := nonpad_perm ρ hρ n depth reps t hd ht
  have hfalse : (padFlat n depth (leafRegions ρ n depth reps) t).count false = n := by
    have h1 := hperm.length_eq
    rw [List.length_map, List.length_range] at h1
    rw [count_false_zip (maskFlat n depth (leafRegions ρ n depth reps) t) _ (by omega)]
    exact h1
  have := count_true_false (padFlat n depth (leafRegions ρ n depth reps) t)
  exact ⟨hlen, by omega, hfalse, pad_total n depth, pad_lt n depth⟩

example : padFlat 5 2 (leafRegions revOracle 5 2 2) 1 = [false, true, false, true, false, true, false, false] := by
  decide

/-- **unpad_each_var_once** (index form): for every accepted architecture, every permutation oracle and
every repetition `t`, the positions gathered by the REPAIRED `unpad_samples` carry the variables
`0, 1, …, n-1` in this order — each feature exactly once, in the original order — none of them is a dummy
position, and no position is read twice.  (The proof uses only that `inv_mask[t]` is a permutation of the
positions listing the mask values in non-decreasing order, so it holds for any tie-breaking of `argsort`.) -/
theorem unpad_each_var_once_idx (ρ : Nat → List Nat → List Nat) (hρ : ∀ t r, (ρ t r).Perm r)
    (n depth reps t : Nat) (hacc : accepted n depth = true) (ht : t < reps) :
    (unpadIdx n depth (leafRegions ρ n depth reps) t).map
        (fun p => (maskFlat n depth (leafRegions ρ n depth reps) t).getD p 0) = List.range n ∧
    (unpadIdx n depth (leafRegions ρ n depth reps) t).length = n ∧
    (unpadIdx n depth (leafRegions ρ n depth reps) t).Nodup ∧
    ∀ p ∈ unpadIdx n depth (leafRegions ρ n depth reps) t,
      p < n + padOf n depth ∧ (padFlat n depth (leafRegions ρ n depth reps) t).getD p false = false := by
  obtain ⟨_, hd, h2⟩ := (accepted_iff n depth).1 hacc
  have hk := unpadIdx_keys ρ hρ n depth reps t hd ht
  refine ⟨hk, ?_, ?_, ?_⟩
  · have := congrArg List.length hk
    simpa using this
  · rw [unpadIdx_eq_filter ρ hρ n depth reps t hd ht]
    exact List.Nodup.sublist List.filter_sublist ((argsort_perm _).nodup_iff.2 List.nodup_range)
  · intro p hp
    rw [unpadIdx_eq_filter ρ hρ n depth reps t hd ht, List.mem_filter] at hp
    refine ⟨mem_invMask_lt ρ hρ n depth reps t hd ht p hp.1, ?_⟩
    simpa using hp.2

example : unpadIdx 5 2 (leafRegions revOracle 5 2 2) 0 = [6, 7, 4, 2, 0] ∧
    maskFlat 5 2 (leafRegions revOracle 5 2 2) 0 = [4, 4, 3, 3, 2, 2, 0, 1] := by decide

/-- **unpad_each_var_once** (row form): let `x` be a row of width `in_features` and `s` a padded row
(width `n + pad`) holding at every non-dummy position `p` the value of the variable `mask[p]` (dummy
positions hold anything, e.g. the samples drawn for the dummy variables).  Then the repaired
`unpad_samples` returns exactly `x`: complete, of the input width, in the original order. -/
theorem unpad_each_var_once {β : Type} (ρ : Nat → List Nat → List Nat) (hρ : ∀ t r, (ρ t r).Perm r)
    (n depth reps t : Nat) (hacc : accepted n depth = true) (ht : t < reps)
    (x s : List β) (hx : x.length = n) (hs : s.length = n + padOf n depth)
    (hcompat : ∀ p, p < n + padOf n depth →
      (padFlat n depth (leafRegions ρ n depth reps) t).getD p false = false →
      s[p]? = x[(maskFlat n depth (leafRegions ρ n depth reps) t).getD p 0]?) :
    unpad n depth (leafRegions ρ n depth reps) t s = x := by
  obtain ⟨_, hd, h2⟩ := (accepted_iff n depth).1 hacc
  obtain ⟨hk, _, _, hmem⟩ := unpad_each_var_once_idx ρ hρ n depth reps t hacc ht
  rw [unpad_eq_gather ρ hρ n depth reps t hd ht s hs]
  have h1 : gatherRow s (unpadIdx n depth (leafRegions ρ n depth reps) t)
      = gatherRow x ((unpadIdx n depth (leafRegions ρ n depth reps) t).map
          (fun p => (maskFlat n depth (leafRegions ρ n depth reps) t).getD p 0)) := by
    unfold gatherRow
    rw [List.filterMap_map]
    apply List.filterMap_congr
    intro p hp
    obtain ⟨hlt, hnp⟩ := hmem p hp
    exact hcompat p hlt hnp
  rw [h1, hk, ← hx, gather_range]

/-- non-vacuity: 5 features, depth 2 (pad 3); the padded row carries junk (99) at the dummy positions -/
example : unpad 5 2 (leafRegions revOracle 5 2 2) 0 [14, 99, 13, 99, 12, 99, 10, 11] = [10, 11, 12, 13, 14] := by
  decide

/-- **old_unpad_keeps_pads** (witness of the defect on the pinned tree): for 5 features and depth 2
(pad 3) the pinned selection `samples[inv_pad_mask]` keeps exactly the 3 dummy positions and drops all
5 features, so the subsequent `.view(n_samples, in_features)` cannot succeed (3 ≠ 5). -/
theorem old_unpad_keeps_pads :
    accepted 5 2 = true ∧
    unpadOldIdx 5 2 (leafRegions revOracle 5 2 1) 0 = [5, 3, 1] ∧
    (∀ p ∈ unpadOldIdx 5 2 (leafRegions revOracle 5 2 1) 0,
        (padFlat 5 2 (leafRegions revOracle 5 2 1) 0).getD p false = true) ∧
    (unpadOld 5 2 (leafRegions revOracle 5 2 1) 0 [14, 99, 13, 98, 12, 97, 10, 11]) = [97, 98, 99] ∧
    (unpadOld 5 2 (leafRegions revOracle 5 2 1) 0 [14, 99, 13, 98, 12, 97, 10, 11]).length ≠ 5 := by
  decide

/-- **mpe_keeps_observed** (base layer): `torch.where(isnan(x), samples, x)` returns a complete row of
the input width that agrees with `x` on every observed entry. -/
theorem mpe_keeps_observed {β : Type} (x : List (Option β)) (samples : List β) (h : samples.length = x.length) :
    (completeRow x samples).length = x.length ∧
    ∀ (i : Nat) (v : β), x[i]? = some (some v) → (completeRow x samples)[i]? = some v := by
  refine ⟨by simp [completeRow, h], ?_⟩
  intro i v hi
  have hlt : i < x.length := by
    by_contra hc
    rw [List.getElem?_eq_none (by omega)] at hi; cases hi
  have hlt' : i < samples.length := by omega
  have hz : (x.zip samples)[i]? = some (some v, samples[i]) :=
    List.getElem?_zip_eq_some.2 ⟨hi, List.getElem?_eq_getElem hlt'⟩
  simp [completeRow, List.getElem?_map, hz]

example : completeRow [some 1, none, some 0] [7, 8, 9] = [1, 8, 0] := by decide


/-- composing the pad-scatter (`x[:, self.mask]`, flattened per repetition) with the repaired un-pad
gather is the identity on rows of width `in_features` -/
theorem unpad_scatter {β : Type} (ρ : Nat → List Nat → List Nat) (hρ : ∀ t r, (ρ t r).Perm r)
    (n depth reps t : Nat) (hacc : accepted n depth = true) (ht : t < reps) (x : List β) (hx : x.length = n) :
    unpad n depth (leafRegions ρ n depth reps) t (scatter n depth (leafRegions ρ n depth reps) t x) = x := by
  obtain ⟨_, hd, h2⟩ := (accepted_iff n depth).1 hacc
  have hlt : ∀ p ∈ maskFlat n depth (leafRegions ρ n depth reps) t, p < x.length := by
    rw [hx]; exact mem_maskFlat_lt ρ hρ n depth reps t hd h2 ht
  have hlen := maskFlat_len ρ hρ n depth reps t hd ht
  apply unpad_each_var_once ρ hρ n depth reps t hacc ht x _ hx
  · unfold scatter; rw [gatherRow_length x _ hlt, hlen]
  · intro p hp _
    unfold scatter
    rw [gatherRow_getElem? x _ hlt p, List.getElem?_eq_getElem (by omega : p < _)]
    simp [List.getD_eq_getElem?_getD, List.getElem?_eq_getElem (by omega : p < (maskFlat n depth (leafRegions ρ n depth reps) t).length)]

example : scatter 5 2 (leafRegions revOracle 5 2 2) 0 [10, 11, 12, 13, 14] = [14, 14, 13, 13, 12, 12, 10, 11] ∧
    unpad 5 2 (leafRegions revOracle 5 2 2) 0 (scatter 5 2 (leafRegions revOracle 5 2 2) 0 [10, 11, 12, 13, 14])
      = [10, 11, 12, 13, 14] := by decide

/-- **complete in-domain rows**: if every non-dummy position `p` of the padded row holds a value that is
in the domain of the variable `mask[p]` (the mode / a sample of the leaf that owns it), the repaired
`unpad_samples` returns a row of the input width whose entry `i` is in the domain of variable `i`. -/
theorem unpad_in_domain {β : Type} (ρ : Nat → List Nat → List Nat) (hρ : ∀ t r, (ρ t r).Perm r)
    (n depth reps t : Nat) (hacc : accepted n depth = true) (ht : t < reps)
    (s : List β) (hs : s.length = n + padOf n depth) (InDom : Nat → β → Prop)
    (hdom : ∀ p v, p < n + padOf n depth →
      (padFlat n depth (leafRegions ρ n depth reps) t).getD p false = false → s[p]? = some v →
      InDom ((maskFlat n depth (leafRegions ρ n depth reps) t).getD p 0) v) :
    (unpad n depth (leafRegions ρ n depth reps) t s).length = n ∧
    ∀ (i : Nat) (v : β), (unpad n depth (leafRegions ρ n depth reps) t s)[i]? = some v → InDom i v := by
  obtain ⟨_, hd, h2⟩ := (accepted_iff n depth).1 hacc
  obtain ⟨hk, hl, _, hmem⟩ := unpad_each_var_once_idx ρ hρ n depth reps t hacc ht
  have hlt : ∀ p ∈ unpadIdx n depth (leafRegions ρ n depth reps) t, p < s.length := by
    intro p hp; rw [hs]; exact (hmem p hp).1
  rw [unpad_eq_gather ρ hρ n depth reps t hd ht s hs]
  refine ⟨by rw [gatherRow_length s _ hlt, hl], ?_⟩
  intro i v hv
  rw [gatherRow_getElem? s _ hlt i] at hv
  cases hi : (unpadIdx n depth (leafRegions ρ n depth reps) t)[i]? with
  | none => rw [hi] at hv; simp at hv
  | some p =>
    rw [hi] at hv
    simp only [Option.bind_some] at hv
    have hp : p ∈ unpadIdx n depth (leafRegions ρ n depth reps) t := List.mem_of_getElem? hi
    obtain ⟨h1, h2'⟩ := hmem p hp
    have hkey : (maskFlat n depth (leafRegions ρ n depth reps) t).getD p 0 = i := by
      have := congrArg (fun l => l[i]?) hk
      simp only [List.getElem?_map, hi, Option.map_some] at this
      have hil : i < n := by
        have := (List.getElem?_eq_some_iff.1 hi).1
        omega
      rw [List.getElem?_range hil] at this
      exact Option.some.inj this
    rw [← hkey]
    exact hdom p v h1 h2' hv

/-- **top-down propagation reaches one repetition**: `ProductLayer.sample / .mpe` map group `g` to
`[2g, 2g+1]`; starting from the top-level partition `g` chosen by the root layer, after `depth` product
layers the reached leaf regions are `g·2^depth + 0, …, g·2^depth + 2^depth - 1` in this order, i.e. exactly
block `g` of the leaf regions — the row `idx_group[:, 0] // 2^depth = g` of `mask` / `inv_mask` /
`inv_pad_mask` that `unpad_samples` uses. -/
theorem topdown_reaches_one_repetition (g depth : Nat) :
    leafGroups g depth = (List.range (2 ^ depth)).map (fun i => g * 2 ^ depth + i) ∧
    (∀ m groups offsets, (prodDown m groups offsets).1 = groups.flatMap (fun g => [2 * g, 2 * g + 1])) ∧
    (leafGroups g depth).head? = some (g * 2 ^ depth) ∧ (g * 2 ^ depth) / 2 ^ depth = g := by
  refine ⟨leafGroups_eq g depth, fun _ _ _ => rfl, ?_, Nat.mul_div_cancel _ (two_pow_pos depth)⟩
  rw [leafGroups_eq]
  have := two_pow_pos depth
  cases h : 2 ^ depth with
  | zero => omega
  | succ m => simp [List.range_succ_eq_map]

example : leafGroups 1 2 = [4, 5, 6, 7] ∧ prodDown 2 [1] [3] = ([2, 3], [1, 1]) := by decide

/-! ### the network as a circuit -/

section circuit
variable {α : Type} [CommSemiring α]

/-- **unroll_valid**: for every accepted architecture (any feature count — padded or not —, depth,
repetitions, batch and sum sizes), every permutation oracle, every family of univariate leaf
distributions (`LeafOK`: each looks only at its variable and marginalises itself when it is missing) and
weights of the shapes the constructor allocates, the unrolled RAT-SPN is a smooth and decomposable
circuit over the variables `0..n-1`: product nodes combine the two (disjoint) halves of one parent
region, sum nodes mix nodes over the same region, the root mixes over all repetitions. -/
theorem unroll_valid (dom : Nat → Nat) (ρ : Nat → List Nat → List Nat) (hρ : ∀ t r, (ρ t r).Perm r)
    (n depth reps batch rgSum : Nat) (hacc : accepted n depth = true)
    (hreps : 0 < reps) (hb : 0 < batch) (hs : 0 < rgSum)
    (lf : Nat → Nat → Nat → Ev → α)
    (hleaf : ∀ i c k, k < ((leafRegions ρ n depth reps).getD i []).length →
      LeafOK dom [((leafRegions ρ n depth reps).getD i []).getD k 0] (lf i c k))
    (w : Nat → Nat → Nat → List α)
    (hw : ∀ l j o, (w l j o).length = if l = 0 then batch * batch else rgSum * rgSum)
    (wroot : List α)
    (hroot : wroot.length = reps * (if depth = 1 then batch * batch else rgSum * rgSum)) :
    Circ.Valid dom (unroll ρ n depth reps batch rgSum lf w wroot) ∧
    (unroll ρ n depth reps batch rgSum lf w wroot).scope = List.range n := by
  obtain ⟨_, hd, _⟩ := (accepted_iff n depth).1 hacc
  exact ⟨unroll_valid_aux dom ρ hρ n depth reps batch rgSum hd hreps hb hs lf hleaf w hw wroot hroot, rfl⟩

/-- **exact NaN-marginalisation**: the value computed with missing inputs treated as neutral at the
leaves equals the explicit sum of the complete-evidence values over all completions of the missing
features. -/
theorem ratspn_marg (dom : Nat → Nat) (ρ : Nat → List Nat → List Nat) (hρ : ∀ t r, (ρ t r).Perm r)
    (n depth reps batch rgSum : Nat) (hacc : accepted n depth = true)
    (hreps : 0 < reps) (hb : 0 < batch) (hs : 0 < rgSum)
    (lf : Nat → Nat → Nat → Ev → α)
    (hleaf : ∀ i c k, k < ((leafRegions ρ n depth reps).getD i []).length →
      LeafOK dom [((leafRegions ρ n depth reps).getD i []).getD k 0] (lf i c k))
    (w : Nat → Nat → Nat → List α)
    (hw : ∀ l j o, (w l j o).length = if l = 0 then batch * batch else rgSum * rgSum)
    (wroot : List α)
    (hroot : wroot.length = reps * (if depth = 1 then batch * batch else rgSum * rgSum)) (e : Ev) :
    Circ.eval e (unroll ρ n depth reps batch rgSum lf w wroot) =
      sumOver dom (List.range n) e (fun e' => Circ.eval e' (unroll ρ n depth reps batch rgSum lf w wroot)) := by
  obtain ⟨hv, hsc⟩ := unroll_valid dom ρ hρ n depth reps batch rgSum hacc hreps hb hs lf hleaf w hw wroot hroot
  have := Circ.marg dom _ hv e
  rwa [hsc] at this

/-- **normalisation**: with normalised mixture weights (`softmax` rows sum to one) and leaf
distributions of total mass one, each class output is a normalised distribution: a fully missing input
has probability one (log-probability zero) and the complete-evidence values sum to one. -/
theorem ratspn_normalised (dom : Nat → Nat) (ρ : Nat → List Nat → List Nat) (hρ : ∀ t r, (ρ t r).Perm r)
    (n depth reps batch rgSum : Nat) (hacc : accepted n depth = true)
    (hreps : 0 < reps) (hb : 0 < batch) (hs : 0 < rgSum)
    (lf : Nat → Nat → Nat → Ev → α)
    (hleaf : ∀ i c k, k < ((leafRegions ρ n depth reps).getD i []).length →
      LeafOK dom [((leafRegions ρ n depth reps).getD i []).getD k 0] (lf i c k))
    (hl1 : ∀ i c k, lf i c k (fun _ => none) = 1)
    (w : Nat → Nat → Nat → List α)
    (hw : ∀ l j o, (w l j o).length = if l = 0 then batch * batch else rgSum * rgSum)
    (hw1 : ∀ l j o, tsum (w l j o) = 1)
    (wroot : List α)
    (hroot : wroot.length = reps * (if depth = 1 then batch * batch else rgSum * rgSum))
    (hroot1 : tsum wroot = 1) :
    Circ.eval (fun _ => none) (unroll ρ n depth reps batch rgSum lf w wroot) = 1 ∧
    sumOver dom (List.range n) (fun _ => none)
      (fun x => Circ.eval x (unroll ρ n depth reps batch rgSum lf w wroot)) = 1 := by
  obtain ⟨hv, hsc⟩ := unroll_valid dom ρ hρ n depth reps batch rgSum hacc hreps hb hs lf hleaf w hw wroot hroot
  have hn := unroll_normW ρ n depth reps batch rgSum lf w wroot hw1 hroot1
  have hl := unroll_leafNorm dom ρ n depth reps batch rgSum lf w wroot hl1
  refine ⟨Circ.all_missing_one dom _ hv hn hl, ?_⟩
  have := Circ.normalised dom _ hv hn hl
  rwa [hsc] at this

/-- **padding dummies are neutral**: the value of the base distribution of leaf region `i`, channel `c`
(`RegionGraphLayer.forward`, which zeroes the log-densities at `pad_mask`) is the product of the leaf
values over the real positions of the region only. -/
theorem pad_dummies_neutral (ρ : Nat → List Nat → List Nat) (hρ : ∀ t r, (ρ t r).Perm r)
    (n depth reps batch : Nat) (hacc : accepted n depth = true) (lf : Nat → Nat → Nat → Ev → α)
    (i c : Nat) (hi : i < (leafRegions ρ n depth reps).length) (e : Ev) :
    Circ.eval e ((baseTable lf n depth (leafRegions ρ n depth reps) batch).at_ i c) =
      lprod ((List.range ((leafRegions ρ n depth reps).getD i []).length).map (fun k => lf i c k e)) := by
  obtain ⟨_, hd, _⟩ := (accepted_iff n depth).1 hacc
  have hr : (leafRegions ρ n depth reps).getD i [] ∈ leafRegions ρ n depth reps := by
    rw [List.getD_eq_getElem?_getD, List.getElem?_eq_getElem hi]; exact List.getElem_mem hi
  have hle := all_leaf_le_dim ρ hρ n depth reps hd _ hr
  simp only [baseTable]
  rw [maskBuf_eq ρ hρ n depth reps hd, padMaskBuf_eq ρ hρ n depth reps hd,
    getD_map_of_lt _ _ i hi [] [], getD_map_of_lt _ _ i hi [] []]
  exact baseNode_eval lf _ _ hle i c e

end circuit

/-! non-vacuity: a Bernoulli RAT-SPN with 5 features (pad 3), depth 2, 2 repetitions, batch 2, 2 sums -/

/-- fair Bernoulli leaves on the variable sitting at position `k` of leaf region `i` -/
def exLeaf : Nat → Nat → Nat → Ev → Rat := fun i _ k =>
  Circ.catLeafFn (((leafRegions revOracle 5 2 2).getD i []).getD k 0) [1/2, 1/2]

def exW : Nat → Nat → Nat → List Rat := fun _ _ _ => [1/4, 1/4, 1/4, 1/4]
def exRoot : List Rat := [1/8, 1/8, 1/8, 1/8, 1/8, 1/8, 1/8, 1/8]

theorem exLeaf_ok : ∀ i c k, k < ((leafRegions revOracle 5 2 2).getD i []).length →
    LeafOK (fun _ => 2) [((leafRegions revOracle 5 2 2).getD i []).getD k 0] (exLeaf i c k) := by
  intro i c k _
  exact Circ.catLeaf_ok _ _ _ rfl (by norm_num [tsum])

example : Circ.Valid (fun _ => 2) (unroll revOracle 5 2 2 2 2 exLeaf exW exRoot) :=
  (unroll_valid (fun _ => 2) revOracle revOracle_perm 5 2 2 2 2 (by decide) (by omega) (by omega) (by omega)
    exLeaf exLeaf_ok exW (by intro l j o; split <;> rfl) exRoot (by decide)).1

example : Circ.eval (fun _ => none) (unroll revOracle 5 2 2 2 2 exLeaf exW exRoot) = 1 :=
  (ratspn_normalised (fun _ => 2) revOracle revOracle_perm 5 2 2 2 2 (by decide) (by omega) (by omega) (by omega)
    exLeaf exLeaf_ok (by intro i c k; rfl) exW (by intro l j o; split <;> rfl)
    (by intro l j o; norm_num [exW, tsum]) exRoot (by decide) (by norm_num [exRoot, tsum])).1

end RatSpn
end Deeprob
