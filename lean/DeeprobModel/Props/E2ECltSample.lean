import DeeprobModel.Props.E2ECltLoop
import DeeprobModel.Oblig.Struct5CltSample
set_option linter.unusedSimpArgs false
set_option linter.unusedVariables false
set_option linter.unusedSectionVars false
/-
END-TO-END law of `BinaryCLT.sample` (C07 for Chow-Liu trees), stated about the LOOP extracted whole by tools/listprog.py
(block K): `Gen.S5cltSampleLoop` (fragment `cltree.sample.loop`) with the GENERATED loop of `message_passing` composed in
(`E2ECltLoop.loopMp`, `reduce='mar'`), `self.bfs` = the generated breadth-first order, linear-domain reading
(`+ ↦ *`, `- ↦ /`, `np.exp ↦ id`, `logsumexp ↦ Σ`).

    loopSampleLaw  cpt tree r mx x target = (row returned when every draw comes out as in `target`, probability of these draws)
    loopSampleProb cpt tree r mx x target = probability that the extracted loop returns `target`

chain:  source --(listprog K)--> S5 loop skeleton --(Struct5CltSample.sample_loop_as_coded)--> explicit product along `bfs`
        --(fold_steps, draw_is_localCond, samplePmf_as_product)--> `Clt.samplePmfTree` --(Clt.samplePmf_exact_value)--> value X / value e.
-/
namespace Deeprob.E2ECltSample
open Deeprob Deeprob.Clt Deeprob.E2EClt Deeprob.E2ECltLoop Deeprob.Gen
open Deeprob.GraphIo (exTree exCpt exScope exEv exTree_wf exCpt_nonneg)
open Deeprob.Oblig.Struct5CltSample

section field
variable {α : Type} [Field α]

/-- **the law of `BinaryCLT.sample` on ONE row**: the GENERATED sampling loop on weighted rows with the GENERATED loop of
`message_passing` composed in (the call `self.message_passing(x, obs_mask, return_lls=False, reduce='mar')` is part of the skeleton) -/
def loopSampleLaw (cpt : List (List (List α))) (tree : List Int) (r : Nat) (mx : List α → α)
    (x target : List (Option Nat)) : WRow α :=
  sampleLawWith (α := α) (· * ·) (· / ·) id Struct4.sumL (params cpt) (r : Int) (genBfsI tree r) tree
    (fun x obs rl rd => CltLoop.msgsOf (loopMp cpt tree r Struct4.sumL mx x obs rl rd)) x target

/-- the probability that the extracted loop returns `target` -/
def loopSampleProb (cpt : List (List (List α))) (tree : List Int) (r : Nat) (mx : List α → α)
    (x target : List (Option Nat)) : α :=
  sampleProbWith (α := α) (· * ·) (· / ·) id Struct4.sumL (params cpt) (r : Int) (genBfsI tree r) tree
    (fun x obs rl rd => CltLoop.msgsOf (loopMp cpt tree r Struct4.sumL mx x obs rl rd)) x target

theorem loopSampleProb_eq (cpt : List (List (List α))) (tree : List Int) (r : Nat) (mx : List α → α)
    (x target : List (Option Nat)) :
    loopSampleProb cpt tree r mx x target =
      if (loopSampleLaw cpt tree r mx x target).1 = target then (loopSampleLaw cpt tree r mx x target).2 else 0 := rfl

/-- **one draw of the loop is the model's local conditional**: with `messages[j] = [msgAt cs 0, msgAt cs 1]` (the products of
the children's upward messages), the probability `bernoulli.pmf(v, exp(log_probs[1] - logsumexp(log_probs)))`,
`log_probs = params[j, p] + messages[j]`, is `cpt[j][p][v] * msgBelow(j, v) / Σ_v' cpt[j][p][v'] * msgBelow(j, v')`. -/
theorem draw_is_localCond (scope : List Nat) (cpt : List (List (List α))) (j : Nat) (cs : List RTree) (p v : Nat) (e : Ev)
    (hv : v < 2)
    (hden : cptAt cpt j p 0 * msgAt scope cpt cs 0 e + cptAt cpt j p 1 * msgAt scope cpt cs 1 e ≠ 0) :
    Py3.bernoulliPmf v (sampleParam (α := α) (· * ·) (· / ·) id Struct4.sumL (Py4.vec2 (params cpt (j : Int) (p : Int)))
        [msgAt scope cpt cs 0 e, msgAt scope cpt cs 1 e]) = localCond scope cpt j cs p v e := by
  have h0 : ((0 : Int)).toNat = 0 := rfl
  have h1 : ((1 : Int)).toNat = 1 := rfl
  have hs : sampleParam (α := α) (· * ·) (· / ·) id Struct4.sumL (Py4.vec2 (params cpt (j : Int) (p : Int)))
        [msgAt scope cpt cs 0 e, msgAt scope cpt cs 1 e] =
      cptAt cpt j p 1 * msgAt scope cpt cs 1 e /
        (cptAt cpt j p 0 * msgAt scope cpt cs 0 e + cptAt cpt j p 1 * msgAt scope cpt cs 1 e) := by
    simp [sampleParam, Py4.vec2, params, Struct4.sumL, Py4.getI, h0, h1]
  rw [hs]
  have hsum : sumVar 2 (fun k' => cptAt cpt j p k' * msgAt scope cpt cs k' e) =
      cptAt cpt j p 0 * msgAt scope cpt cs 0 e + cptAt cpt j p 1 * msgAt scope cpt cs 1 e := by
    simp [sumVar, List.range, List.range.loop]
  unfold localCond
  rw [hsum]
  interval_cases v
  · simp only [Py3.bernoulliPmf, if_true]
    field_simp
    ring
  · simp [Py3.bernoulliPmf]

/-! ### the fold along `bfs`: rows and weights -/

/-- the factor the loop multiplies at position `j` when the parent's value is `pv` (1 on an observed entry) -/
def drawFactor (cpt : List (List (List α))) (x0 tg : List (Option Nat)) (msgs : Int → List α) (pv : Int) (j : Nat) : α :=
  if Py4.getI (x0.map Py3.isnan) (j : Int) false then
    Py3.bernoulliPmf (Py3.val (Py4.getI tg (j : Int) none))
      (sampleParam (α := α) (· * ·) (· / ·) id Struct4.sumL (Py4.vec2 (params cpt (j : Int) pv)) (msgs (j : Int)))
  else 1

/-- the parent's value the loop reads at `j`, when the row already holds the target there -/
def pvOf (tree : List Int) (tg : List (Option Nat)) (j : Nat) : Int :=
  ((Py3.val (Py4.getI tg (Py4.getI tree (j : Int) 0) none) : Nat) : Int)

theorem flag_false (x0 : List (Option Nat)) (j : Nat) (hj : j < x0.length)
    (h : Py4.getI (x0.map Py3.isnan) (j : Int) false = false) : x0.getD j none ≠ none := by
  rw [Struct4.getI_natCast, List.getD_eq_getElem?_getD, List.getElem?_map, List.getElem?_eq_getElem hj] at h
  rw [List.getD_eq_getElem?_getD, List.getElem?_eq_getElem hj]
  simp only [Option.map_some, Option.getD_some] at h ⊢
  intro hn
  rw [hn] at h
  exact absurd h (by decide)

theorem fold_steps (cpt : List (List (List α))) (tree : List Int) (x0 tg : List (Option Nat)) (msgs : Int → List α)
    (n r : Nat) (hx0 : x0.length = n) (htg : ∀ j, j < n → ∃ v, tg.getD j none = some v) :
    ∀ (B A : List Nat) (s : WRow α),
      (∀ j ∈ B, j < n) →
      (∀ (A' : List Nat) (j : Nat) (B' : List Nat), B = A' ++ j :: B' → ∃ p : Nat, Py4.getI tree (j : Int) 0 = (p : Int) ∧ p < n ∧ (p = r ∨ p ∈ A ∨ p ∈ A')) →
      s.1.length = n →
      (∀ j, j < n → (j = r ∨ j ∈ A ∨ x0.getD j none ≠ none) → s.1.getD j none = tg.getD j none) →
      ∃ row, (B.map (fun (a : Nat) => (a : Int))).foldl
            (sampleStep (α := α) (· * ·) (· / ·) id Struct4.sumL (params cpt) tree x0 tg msgs) s
          = (row, s.2 * lprod (B.map (fun j => drawFactor cpt x0 tg msgs (pvOf tree tg j) j))) ∧ row.length = n ∧
        (∀ j, j < n → (j = r ∨ j ∈ A ∨ j ∈ B ∨ x0.getD j none ≠ none) → row.getD j none = tg.getD j none) := by
  intro B
  induction B with
  | nil =>
    intro A s _ _ hl hinv
    refine ⟨s.1, by simp [lprod], hl, ?_⟩
    intro j hj h
    rcases h with h | h | h | h
    · exact hinv j hj (Or.inl h)
    · exact hinv j hj (Or.inr (Or.inl h))
    · simp at h
    · exact hinv j hj (Or.inr (Or.inr h))
  | cons j B ih =>
    intro A s hB hpar hl hinv
    have hjn : j < n := hB j (by simp)
    obtain ⟨p, hp, hpn, hpA⟩ := hpar [] j B rfl
    have hpA' : p = r ∨ p ∈ A := by
      rcases hpA with h | h | h
      · exact Or.inl h
      · exact Or.inr h
      · simp at h
    have hsp : Py4.getI s.1 (Py4.getI tree (j : Int) 0) none = Py4.getI tg (Py4.getI tree (j : Int) 0) none := by
      rw [hp, Struct4.getI_natCast, Struct4.getI_natCast]
      exact hinv p hpn (by rcases hpA' with h | h; exact Or.inl h; exact Or.inr (Or.inl h))
    have hpar' : ∀ (A' : List Nat) (j' : Nat) (B' : List Nat), B = A' ++ j' :: B' →
        ∃ p : Nat, Py4.getI tree (j' : Int) 0 = (p : Int) ∧ p < n ∧ (p = r ∨ p ∈ j :: A ∨ p ∈ A') := by
      intro A' j' B' hBB
      obtain ⟨q, hq, hqn, hqA⟩ := hpar (j :: A') j' B' (by rw [hBB]; rfl)
      refine ⟨q, hq, hqn, ?_⟩
      rcases hqA with h | h | h
      · exact Or.inl h
      · exact Or.inr (Or.inl (List.mem_cons_of_mem _ h))
      · rcases List.mem_cons.1 h with h | h
        · exact Or.inr (Or.inl (by rw [h]; exact List.mem_cons_self))
        · exact Or.inr (Or.inr h)
    simp only [List.map_cons, List.foldl_cons, lprod]
    cases hflag : Py4.getI (x0.map Py3.isnan) (j : Int) false with
    | false =>
      have hstep : sampleStep (α := α) (· * ·) (· / ·) id Struct4.sumL (params cpt) tree x0 tg msgs s (j : Int) = s := by
        unfold sampleStep; rw [hflag]; rfl
      have hf : drawFactor cpt x0 tg msgs (pvOf tree tg j) j = 1 := by
        unfold drawFactor; rw [hflag]; rfl
      rw [hstep, hf, one_mul]
      have hobs := flag_false x0 j (by omega) hflag
      obtain ⟨row, h1, h2, h3⟩ := ih (j :: A) s (fun k hk => hB k (List.mem_cons_of_mem _ hk)) hpar' hl (by
        intro k hk h
        rcases h with h | h | h
        · exact hinv k hk (Or.inl h)
        · rcases List.mem_cons.1 h with h | h
          · rw [h]; exact hinv j hjn (Or.inr (Or.inr hobs))
          · exact hinv k hk (Or.inr (Or.inl h))
        · exact hinv k hk (Or.inr (Or.inr h)))
      refine ⟨row, h1, h2, ?_⟩
      intro k hk h
      apply h3 k hk
      rcases h with h | h | h | h
      · exact Or.inl h
      · exact Or.inr (Or.inl (List.mem_cons_of_mem _ h))
      · rcases List.mem_cons.1 h with h | h
        · exact Or.inr (Or.inl (by rw [h]; exact List.mem_cons_self))
        · exact Or.inr (Or.inr (Or.inl h))
      · exact Or.inr (Or.inr (Or.inr h))
    | true =>
      obtain ⟨v, hv⟩ := htg j hjn
      have hstep : sampleStep (α := α) (· * ·) (· / ·) id Struct4.sumL (params cpt) tree x0 tg msgs s (j : Int) =
          (s.1.set j (tg.getD j none), s.2 * drawFactor cpt x0 tg msgs (pvOf tree tg j) j) := by
        unfold sampleStep drawFactor pvOf
        rw [hflag, hsp]
        simp only [if_true, Py4.setI, Int.toNat_natCast]
        rw [Struct4.getI_natCast, hv]
        rfl
      rw [hstep]
      have hjs : j < s.1.length := by omega
      obtain ⟨row, h1, h2, h3⟩ := ih (j :: A) (s.1.set j (tg.getD j none), s.2 * drawFactor cpt x0 tg msgs (pvOf tree tg j) j)
        (fun k hk => hB k (List.mem_cons_of_mem _ hk)) hpar' (by simp [hl]) (by
        intro k hk h
        show (s.1.set j (tg.getD j none)).getD k none = tg.getD k none
        rw [Struct4.getD_set _ _ _ _ _ hjs]
        by_cases hkj : k = j
        · rw [if_pos hkj, hkj]
        · rw [if_neg hkj]
          rcases h with h | h | h
          · exact hinv k hk (Or.inl h)
          · rcases List.mem_cons.1 h with h | h
            · exact absurd h hkj
            · exact hinv k hk (Or.inr (Or.inl h))
          · exact hinv k hk (Or.inr (Or.inr h)))
      refine ⟨row, ?_, h2, ?_⟩
      · rw [h1]; simp only [mul_assoc]
      · intro k hk h
        apply h3 k hk
        rcases h with h | h | h | h
        · exact Or.inl h
        · exact Or.inr (Or.inl (List.mem_cons_of_mem _ h))
        · rcases List.mem_cons.1 h with h | h
          · exact Or.inr (Or.inl (by rw [h]; exact List.mem_cons_self))
          · exact Or.inr (Or.inr (Or.inl h))
        · exact Or.inr (Or.inr (Or.inr h))

/-! ### the recursive model sampler as a product over the variables of the tree -/

section model
variable {tree : List Int} {r : Nat}

/-- the model's factor at `j` when its parent has value `l`: the local conditional on a missing entry, 1 on an observed one -/
def nodeFactor (scope : List Nat) (cpt : List (List (List α))) (tree : List Int) (e : Ev) (x : Nat → Nat) (l j : Nat) : α :=
  match e (scope.getD j 0) with
  | some _ => 1
  | none => localCond scope cpt j ((Clt.childrenOf tree j).map (build tree tree.length)) l (x (scope.getD j 0)) e

/-- the parent of `d` read off the predecessor vector -/
def parentNat (tree : List Int) (d : Nat) : Nat := (tree.getD d (-1)).toNat

theorem samplePmf_unfold (scope : List Nat) (cpt : List (List (List α))) (i : Nat) (cs : List RTree) (l : Nat) (e : Ev)
    (x : Nat → Nat) :
    samplePmf scope cpt (.node i cs) l e x =
      (match e (scope.getD i 0) with
       | some o => lprod (cs.map (fun c => samplePmf scope cpt c o e x))
       | none => localCond scope cpt i cs l (x (scope.getD i 0)) e *
          lprod (cs.map (fun c => samplePmf scope cpt c (x (scope.getD i 0)) e x))) := by
  rw [samplePmf]
  cases e (scope.getD i 0) <;> rfl

/-- **`Clt.samplePmf` is the product of the per-node factors** over the variables of the (unfolded) sub-tree, each node reading the
value `x` gives to its parent (`x` agrees with the evidence) -/
theorem samplePmf_as_product (h : GraphIo.WF tree r) (scope : List Nat) (cpt : List (List (List α))) (e : Ev) (x : Nat → Nat)
    (hag : ∀ j o, e (scope.getD j 0) = some o → x (scope.getD j 0) = o) :
    ∀ k c, c < tree.length → tree.length - GraphIo.depthOf tree c ≤ k → ∀ l,
      samplePmf scope cpt (build tree tree.length c) l e x =
        nodeFactor scope cpt tree e x l c *
          lprod ((((Clt.childrenOf tree c).map (fun d => (build tree tree.length d).vars)).flatten).map
            (fun d => nodeFactor scope cpt tree e x (x (scope.getD (parentNat tree d) 0)) d)) := by
  intro k
  induction k with
  | zero =>
    intro c hc hk l
    have h1 := h.depth_le hc
    have h2 := h.pos
    omega
  | succ k ih =>
    intro c hc hk l
    have key : ∀ d ∈ Clt.childrenOf tree c, ∀ v, v = x (scope.getD c 0) →
        samplePmf scope cpt (build tree tree.length d) v e x =
          lprod ((build tree tree.length d).vars.map
            (fun d => nodeFactor scope cpt tree e x (x (scope.getD (parentNat tree d) 0)) d)) := by
      intro d hd v hv
      obtain ⟨hdl, hdp⟩ := h.mem_children.1 hd
      have h1 := h.depth_child hdl hdp
      rw [ih d hdl (by omega) v]
      have hvars : (build tree tree.length d).vars =
          d :: ((Clt.childrenOf tree d).map (fun d' => (build tree tree.length d').vars)).flatten := by
        rw [h.build_unfold d]
        simp only [RTree.vars, List.map_map]
        rfl
      rw [hvars, List.map_cons, lprod]
      have hpd : parentNat tree d = c := by
        unfold parentNat; rw [Clt.mem_childrenOf hd]; simp
      rw [hpd, hv]
    have hprod : ∀ v, v = x (scope.getD c 0) →
        lprod (((Clt.childrenOf tree c).map (build tree tree.length)).map (fun ch => samplePmf scope cpt ch v e x)) =
          lprod ((((Clt.childrenOf tree c).map (fun d => (build tree tree.length d).vars)).flatten).map
            (fun d => nodeFactor scope cpt tree e x (x (scope.getD (parentNat tree d) 0)) d)) := by
      intro v hv
      rw [List.map_map, List.map_flatten, lprod_flatten, List.map_map, List.map_map]
      congr 1
      apply List.map_congr_left
      intro d hd
      exact key d hd v hv
    rw [h.build_unfold c, samplePmf_unfold]
    have hG : nodeFactor scope cpt tree e x l c =
        (match e (scope.getD c 0) with
         | some _ => 1
         | none => localCond scope cpt c ((Clt.childrenOf tree c).map (build tree tree.length)) l (x (scope.getD c 0)) e) := rfl
    rw [hG]
    cases he : e (scope.getD c 0) with
    | none =>
      simp only []
      rw [hprod _ rfl]
    | some o =>
      simp only []
      rw [one_mul]
      exact hprod o (hag c o he).symm

end model

/-! ### assembling: messages, factors, the law -/

theorem obs_mask_eq (x : List (Option Nat)) :
    (x.map Py3.isnan).map (fun b => !b) = x.map (fun o => !o.isNone) := by
  rw [List.map_map]; rfl

theorem ext_of_getD (a b : List (Option Nat)) (hl : a.length = b.length)
    (hg : ∀ j, j < a.length → a.getD j none = b.getD j none) : a = b := by
  apply List.ext_getElem hl
  intro i h1 h2
  have := hg i h1
  rw [List.getD_eq_getElem?_getD, List.getD_eq_getElem?_getD, List.getElem?_eq_getElem h1,
    List.getElem?_eq_getElem h2] at this
  simpa using this

theorem flag_eq (scope : List Nat) (n : Nat) (e : Ev) (j : Nat) (hj : j < n) :
    Py4.getI ((rowList scope n e).map Py3.isnan) (j : Int) false = (e (scope.getD j 0)).isNone := by
  have hl : j < (rowList scope n e).length := by rw [rowList_length]; exact hj
  have hg := rowList_getD scope n e j hj
  rw [List.getD_eq_getElem?_getD, List.getElem?_eq_getElem hl] at hg
  simp only [Option.getD_some] at hg
  rw [Struct4.getI_natCast, List.getD_eq_getElem?_getD, List.getElem?_map, List.getElem?_eq_getElem hl]
  simp only [Option.map_some, Option.getD_some]
  rw [hg]
  rfl

section model2
variable {tree : List Int} {r : Nat}

/-- **the `reduce='mar'` messages of the generated loop**: entry `j` holds, for both values of `j`, the product of the upward
messages of the children of `j` (`Clt.msgAt`) -/
theorem mar_slots (hwf : GraphIo.WellFormedPred tree) (h : GraphIo.WF tree r) (scope : List Nat) (cpt : List (List (List α)))
    (e : Ev) (mx : List α → α) (hbin : ∀ j, j < tree.length → ∀ o, e (scope.getD j 0) = some o → o < 2)
    (j : Nat) (hj : j < tree.length) :
    CltLoop.msgsOf (loopMp cpt tree r Struct4.sumL mx (rowList scope tree.length e)
        (((rowList scope tree.length e).map Py3.isnan).map (fun b => !b)) false "mar") (j : Int) =
      [msgAt scope cpt ((Clt.childrenOf tree j).map (build tree tree.length)) 0 e,
       msgAt scope cpt ((Clt.childrenOf tree j).map (build tree tree.length)) 1 e] := by
  obtain ⟨r0, hr0, _, _, _, hperm2, hcf, _, _⟩ := e2e_bfs tree hwf
  have hrr : r0 = r := Option.some.inj (hr0.symm.trans h.root)
  subst hrr
  rw [obs_mask_eq, loopMp_messages _ _ _ _ _ _ _ _ (Or.inl rfl)]
  show Py4.getI (genMessages cpt tree r0 Struct4.sumL mx (rowList scope tree.length e)
    ((rowList scope tree.length e).map (fun o => !o.isNone)) "mar") (j : Int) [] = _
  rw [Struct4.getI_natCast, genMessages_eq_arrayPass cpt tree r0 Struct4.sumL mx _ _ (GraphIo.rowOf scope e) "mar"
    (Or.inl ⟨rfl, sumL_eq_redL⟩) (rowList_length _ _ _) (fun j hj => rowList_getD scope _ e j hj) (fun j _ => obs_getD _ j)
    hbin (orderOK_of_perm h _ hperm2)]
  obtain ⟨r2, hr2, hall, _⟩ := GraphIo.arrayPass_order_indep tree hwf scope cpt e
  have hrr : r2 = r0 := Option.some.inj (hr2.symm.trans hr0)
  subst hrr
  rw [ofPairs_getD _ j (by rw [arrayPass_length]; exact hj), (hall _ hperm2 hcf).2 j hj]
  simp only [msgAt, List.map_map]
  rfl

/-- the factor of the loop at `j` is the model's factor -/
theorem factor_link (h : GraphIo.WF tree r) (scope : List Nat) (cpt : List (List (List α))) (e X : Ev)
    (msgs : Int → List α) (j p : Nat) (hj : j < tree.length)
    (hmsg : msgs (j : Int) = [msgAt scope cpt ((Clt.childrenOf tree j).map (build tree tree.length)) 0 e,
       msgAt scope cpt ((Clt.childrenOf tree j).map (build tree tree.length)) 1 e])
    (hX : (X (scope.getD j 0)).getD 0 < 2)
    (hden : e (scope.getD j 0) = none → up scope cpt (build tree tree.length j) p e ≠ 0) :
    drawFactor cpt (rowList scope tree.length e) (rowList scope tree.length X) msgs (p : Int) j =
      nodeFactor scope cpt tree e (fun v => (X v).getD 0) p j := by
  unfold drawFactor nodeFactor
  rw [flag_eq scope _ e j hj]
  cases he : e (scope.getD j 0) with
  | some o => simp
  | none =>
    simp only [Option.isNone_none, if_true]
    rw [hmsg]
    have htg : Py3.val (Py4.getI (rowList scope tree.length X) (j : Int) none) = (X (scope.getD j 0)).getD 0 := by
      rw [Struct4.getI_natCast, rowList_getD _ _ _ _ hj]; rfl
    rw [htg]
    apply draw_is_localCond scope cpt j _ p _ e hX
    have hd := hden he
    rw [h.build_unfold j, Struct4.up_unfold, he] at hd
    simpa [sumVar, List.range, List.range.loop, msgAt] using hd

end model2

/-! ### the law of the extracted loop (C07) -/

theorem root_step (cpt : List (List (List α))) (x0 tg : List (Option Nat)) (msgs : Int → List α) (n r : Nat) (hr : r < n)
    (hx0 : x0.length = n) (htg : ∀ j, j < n → ∃ v, tg.getD j none = some v)
    (hag : ∀ j, j < n → x0.getD j none ≠ none → x0.getD j none = tg.getD j none) :
    ∃ row, sampleRoot (α := α) (· * ·) (· / ·) id Struct4.sumL (params cpt) (r : Int) x0 tg msgs
        = (row, drawFactor cpt x0 tg msgs (0 : Int) r) ∧ row.length = n ∧
      (∀ j, j < n → (j = r ∨ j ∈ ([] : List Nat) ∨ x0.getD j none ≠ none) → row.getD j none = tg.getD j none) := by
  cases hflag : Py4.getI (x0.map Py3.isnan) (r : Int) false with
  | false =>
    refine ⟨x0, ?_, hx0, ?_⟩
    · unfold sampleRoot drawFactor; rw [hflag]; rfl
    · intro j hj hh
      rcases hh with hh | hh | hh
      · rw [hh]; exact hag r hr (flag_false x0 r (by omega) hflag)
      · simp at hh
      · exact hag j hj hh
  | true =>
    obtain ⟨v, hv⟩ := htg r hr
    refine ⟨x0.set r (tg.getD r none), ?_, by simp [hx0], ?_⟩
    · unfold sampleRoot drawFactor
      rw [hflag]
      simp only [if_true, Py4.setI, Int.toNat_natCast, one_mul]
      rw [Struct4.getI_natCast, hv]
      rfl
    · intro j hj hh
      rw [Struct4.getD_set _ _ _ _ _ (by omega)]
      by_cases hjr : j = r
      · rw [if_pos hjr, hjr]
      · rw [if_neg hjr]
        rcases hh with hh | hh | hh
        · exact absurd hh hjr
        · simp at hh
        · exact hag j hj hh

/-- the `reduce='mar'` messages `sample` reads on the row `x0` -/
def marMsgs (cpt : List (List (List α))) (tree : List Int) (r : Nat) (mx : List α → α) (x0 : List (Option Nat)) : Int → List α :=
  CltLoop.msgsOf (loopMp cpt tree r Struct4.sumL mx x0 ((x0.map Py3.isnan).map (fun b => !b)) false "mar")

/-- **sample_loop_as_coded, composed**: the law of the extracted loops is the explicit product along the generated order -/
theorem loopSampleLaw_as_coded (cpt : List (List (List α))) (tree : List Int) (r : Nat) (mx : List α → α)
    (x0 tg : List (Option Nat)) :
    loopSampleLaw cpt tree r mx x0 tg =
      ((genBfs tree r).tail.map (fun (a : Nat) => (a : Int))).foldl
        (sampleStep (α := α) (· * ·) (· / ·) id Struct4.sumL (params cpt) tree x0 tg (marMsgs cpt tree r mx x0))
        (sampleRoot (α := α) (· * ·) (· / ·) id Struct4.sumL (params cpt) (r : Int) x0 tg (marMsgs cpt tree r mx x0)) := by
  unfold loopSampleLaw
  rw [sample_loop_as_coded]
  have hdrop : Py.drop (genBfsI tree r) (1 : Int) = (genBfs tree r).tail.map (fun (a : Nat) => (a : Int)) := by
    unfold genBfsI Py.drop
    simp [List.map_tail]
  rw [hdrop]
  rfl

/-- **e2e_sample_loop_law_of_defined (C07 for Chow-Liu trees, about the extracted LOOPS)**: for every well-formed predecessor
vector, evidence `e` with binary observed entries and every full binary assignment `X` that agrees with `e` on its observed
entries: the law of the generated `sample` — copy, messages of the generated `message_passing(…, return_lls=False, reduce='mar')`,
masked draw at the root, generated loop over `self.bfs[1:]` drawing `x[j]` from `x[self.tree[j]]` — puts on `X` the product
`Clt.samplePmfTree` of the model's local conditionals, and that probability is `value X / value e`.
Definedness hypotheses (no division by zero in the normalisations): `hden` (the normalisers `Σ_v cpt[j][p][v]·msgBelow(j, v)` of the
missing entries are non-zero), `hd` (`Clt.SampleDefined`, the same along the path of `X` for the recursive model), `he`.
All three follow from strictly positive tables: `e2e_sample_loop_law`.
Ingredients: `Struct5CltSample.sample_loop_as_coded` (O), `Struct5Clt.msg_loop_as_coded` (O, through `loopMp_messages`),
`arrayPass_order_indep` (slots of the 'mar' pass), `e2e_bfs` (parent-first order), `fold_steps`, `draw_is_localCond`,
`samplePmf_as_product`, `Clt.samplePmf_exact_value` (P). -/
theorem e2e_sample_loop_law_of_defined (tree : List Int) (hwf : GraphIo.WellFormedPred tree) (scope : List Nat)
    (cpt : List (List (List α))) (hlen : scope.length = tree.length) (e X : Ev) (mx : List α → α)
    (hbin : ∀ v ∈ scope, ∀ o, e v = some o → o < 2)
    (hagree : ∀ v, e v ≠ none → X v = e v)
    (hfull : ∀ v ∈ scope, ∃ k, k < 2 ∧ X v = some k)
    (hden : ∀ j, j < tree.length → e (scope.getD j 0) = none → ∀ p, p < 2 →
      up scope cpt (build tree tree.length j) p e ≠ 0)
    (hd : ∀ r, rootOf tree = some r → SampleDefined scope cpt (build tree tree.length r) 0 e (fun v => (X v).getD 0))
    (he : value scope tree cpt e ≠ 0) :
    ∃ r, GraphIo.rootIdx tree = some r ∧
      loopSampleLaw cpt tree r mx (rowList scope tree.length e) (rowList scope tree.length X) =
        (rowList scope tree.length X, samplePmfTree scope tree cpt e (fun v => (X v).getD 0)) ∧
      loopSampleProb cpt tree r mx (rowList scope tree.length e) (rowList scope tree.length X) =
        value scope tree cpt X / value scope tree cpt e := by
  obtain ⟨r, hr, hperm, hhead, hpf, _⟩ := e2e_bfs tree hwf
  obtain ⟨r', h⟩ := GraphIo.WF.of_wf hwf
  have hrr : r' = r := Option.some.inj (h.root.symm.trans hr)
  subst hrr
  obtain ⟨L, hL⟩ : ∃ L, genBfs tree r' = r' :: L := by
    cases hg : genBfs tree r' with
    | nil => rw [hg] at hhead; simp at hhead
    | cons a L => rw [hg] at hhead; simp at hhead; subst hhead; exact ⟨L, rfl⟩
  rw [hL] at hperm hpf
  have hroot : rootOf tree = some r' := by rw [← GraphIo.rootIdx_eq_rootOf]; exact hr
  have hscope : ∀ j, j < tree.length → scope.getD j 0 ∈ scope := fun j hj => getD_mem_scope scope j (by omega)
  have hbin' : ∀ j, j < tree.length → ∀ o, e (scope.getD j 0) = some o → o < 2 :=
    fun j hj o ho => hbin _ (hscope j hj) o ho
  have hXlt : ∀ j, j < tree.length → (X (scope.getD j 0)).getD 0 < 2 := by
    intro j hj
    obtain ⟨k, hk, hXk⟩ := hfull _ (hscope j hj)
    rw [hXk]; exact hk
  have hx0 : (rowList scope tree.length e).length = tree.length := rowList_length _ _ _
  have htg : ∀ j, j < tree.length → ∃ v, (rowList scope tree.length X).getD j none = some v := by
    intro j hj
    obtain ⟨k, _, hXk⟩ := hfull _ (hscope j hj)
    exact ⟨k, by rw [rowList_getD _ _ _ _ hj]; exact hXk⟩
  have hag : ∀ j, j < tree.length → (rowList scope tree.length e).getD j none ≠ none →
      (rowList scope tree.length e).getD j none = (rowList scope tree.length X).getD j none := by
    intro j hj hne
    rw [rowList_getD _ _ _ _ hj] at hne ⊢
    rw [rowList_getD _ _ _ _ hj]
    simp only [GraphIo.rowOf] at hne ⊢
    exact (hagree _ hne).symm
  have hagx : ∀ j o, e (scope.getD j 0) = some o → (fun v => (X v).getD 0) (scope.getD j 0) = o := by
    intro j o ho
    have := hagree (scope.getD j 0) (by rw [ho]; simp)
    simp only [this, ho, Option.getD_some]
  have hslots : ∀ j, j < tree.length → marMsgs cpt tree r' mx (rowList scope tree.length e) (j : Int) =
      [msgAt scope cpt ((Clt.childrenOf tree j).map (build tree tree.length)) 0 e,
       msgAt scope cpt ((Clt.childrenOf tree j).map (build tree tree.length)) 1 e] :=
    fun j hj => mar_slots hwf h scope cpt e mx hbin' j hj
  have hnd := hperm.nodup_iff.2 List.nodup_range
  have hLn : ∀ j ∈ L, j < tree.length :=
    fun j hj => List.mem_range.1 (hperm.mem_iff.1 (List.mem_cons_of_mem _ hj))
  have hparent : ∀ j ∈ L, ∃ p, CltFit.parent tree j = some p ∧ p < tree.length ∧ tree.getD j (-1) = (p : Int) := by
    intro j hjL
    have hjr : j ≠ r' := fun hh => (List.nodup_cons.1 hnd).1 (hh ▸ hjL)
    obtain ⟨p, hpp, _, hpn, hpe⟩ := h.parent_ne (hLn j hjL) hjr
    exact ⟨p, hpp, hpn, hpe⟩
  have hparents : ∀ (A' : List Nat) (j : Nat) (B' : List Nat), L = A' ++ j :: B' →
      ∃ p : Nat, Py4.getI tree (j : Int) 0 = (p : Int) ∧ p < tree.length ∧ (p = r' ∨ p ∈ ([] : List Nat) ∨ p ∈ A') := by
    intro A' j B' hLL
    have hjL : j ∈ L := by rw [hLL]; simp
    have hjn := hLn j hjL
    obtain ⟨p, hpp, hpn, hpe⟩ := hparent j hjL
    refine ⟨p, by rw [Struct4.getI_natCast, CltFit.getD_irrel tree hjn 0 (-1)]; exact hpe, hpn, ?_⟩
    have hlt := hpf j p hjn hpp
    by_contra hcon
    have hnot : p ∉ r' :: A' := by
      intro hmem
      rcases List.mem_cons.1 hmem with hh | hh
      · exact hcon (Or.inl hh)
      · exact hcon (Or.inr (Or.inr hh))
    have e1 : r' :: L = (r' :: A') ++ j :: B' := by rw [hLL]; rfl
    rw [e1] at hlt
    have h1 := idxOf_append_self_le j B' (r' :: A')
    have h2 := le_idxOf_append_of_notMem p (j :: B') (r' :: A') hnot
    omega
  obtain ⟨row0, hroot0, hl0, hinv0⟩ := root_step cpt (rowList scope tree.length e) (rowList scope tree.length X)
    (marMsgs cpt tree r' mx (rowList scope tree.length e)) tree.length r' h.r_lt hx0 htg hag
  obtain ⟨row, hfold, hlrow, hinv⟩ := fold_steps cpt tree (rowList scope tree.length e) (rowList scope tree.length X)
    (marMsgs cpt tree r' mx (rowList scope tree.length e)) tree.length r' hx0 htg L []
    (row0, drawFactor cpt (rowList scope tree.length e) (rowList scope tree.length X)
      (marMsgs cpt tree r' mx (rowList scope tree.length e)) (0 : Int) r') hLn hparents hl0 hinv0
  have hrow : row = rowList scope tree.length X :=
    ext_of_getD row _ (by rw [hlrow, rowList_length]) (fun j hj => hinv j (by omega) (by
      have : j ∈ r' :: L := hperm.mem_iff.2 (List.mem_range.2 (by omega))
      rcases List.mem_cons.1 this with hh | hh
      · exact Or.inl hh
      · exact Or.inr (Or.inr (Or.inl hh))))
  have hweight : drawFactor cpt (rowList scope tree.length e) (rowList scope tree.length X)
        (marMsgs cpt tree r' mx (rowList scope tree.length e)) (0 : Int) r' *
      lprod (L.map (fun j => drawFactor cpt (rowList scope tree.length e) (rowList scope tree.length X)
        (marMsgs cpt tree r' mx (rowList scope tree.length e)) (pvOf tree (rowList scope tree.length X) j) j)) =
      samplePmfTree scope tree cpt e (fun v => (X v).getD 0) := by
    simp only [samplePmfTree, hroot]
    rw [samplePmf_as_product h scope cpt e (fun v => (X v).getD 0) hagx tree.length r' h.r_lt (by omega) 0]
    have h0 : drawFactor cpt (rowList scope tree.length e) (rowList scope tree.length X)
        (marMsgs cpt tree r' mx (rowList scope tree.length e)) (0 : Int) r' =
        nodeFactor scope cpt tree e (fun v => (X v).getD 0) 0 r' :=
      factor_link h scope cpt e X _ r' 0 h.r_lt (hslots r' h.r_lt) (hXlt r' h.r_lt)
        (fun hn => hden r' h.r_lt hn 0 (by omega))
    have hvars : (build tree tree.length r').vars =
        r' :: ((Clt.childrenOf tree r').map (fun d => (build tree tree.length d).vars)).flatten := by
      rw [h.build_unfold r']
      simp only [RTree.vars, List.map_map]
      rfl
    have hp1 := vars_build_perm_range h
    rw [hvars] at hp1
    have hrest := (hp1.trans hperm.symm).cons_inv
    rw [h0, lprod_perm (hrest.map _)]
    congr 1
    congr 1
    apply List.map_congr_left
    intro j hjL
    have hjn := hLn j hjL
    obtain ⟨p, hpp, hpn, hpe⟩ := hparent j hjL
    have hpar : parentNat tree j = p := by unfold parentNat; rw [hpe]; simp
    have hpv : pvOf tree (rowList scope tree.length X) j = (((X (scope.getD p 0)).getD 0 : Nat) : Int) := by
      unfold pvOf
      rw [Struct4.getI_natCast, CltFit.getD_irrel tree hjn 0 (-1), hpe, Struct4.getI_natCast, rowList_getD _ _ _ _ hpn]
      rfl
    rw [hpv]
    simp only [hpar]
    exact factor_link h scope cpt e X _ j _ hjn (hslots j hjn) (hXlt j hjn) (fun hn => hden j hjn hn _ (hXlt p hpn))
  have hlawfinal : loopSampleLaw cpt tree r' mx (rowList scope tree.length e) (rowList scope tree.length X) =
      (rowList scope tree.length X, samplePmfTree scope tree cpt e (fun v => (X v).getD 0)) := by
    rw [loopSampleLaw_as_coded, hL, List.tail_cons, hroot0, hfold, hrow]
    simp only []
    rw [hweight]
  refine ⟨r', hr, hlawfinal, ?_⟩
  rw [loopSampleProb_eq, hlawfinal]
  simp only [if_true]
  have hfill : ∀ v ∈ lab scope (build tree tree.length r'), X v ≠ none := by
    intro v hv
    obtain ⟨k, _, hXk⟩ := hfull v ((lab_perm_scope h scope hlen).mem_iff.1 hv)
    rw [hXk]; simp
  have hex := samplePmf_exact_value scope tree cpt r' hroot e X hagree hfill (hd r' hroot)
  rw [eq_div_iff he]
  exact hex

end field

section ordfield
variable {α : Type} [Field α] [LinearOrder α] [IsStrictOrderedRing α]
variable {tree : List Int} {r : Nat}

/-- the variables of an unfolded sub-tree are positions of the vector -/
theorem vars_build_lt (h : GraphIo.WF tree r) :
    ∀ k c, c < tree.length → tree.length - GraphIo.depthOf tree c ≤ k →
      ∀ i ∈ (build tree tree.length c).vars, i < tree.length := by
  intro k
  induction k with
  | zero =>
    intro c hc hk
    have h1 := h.depth_le hc
    have h2 := h.pos
    omega
  | succ k ih =>
    intro c hc hk i hi
    rw [h.build_unfold c, RTree.vars] at hi
    rcases List.mem_cons.1 hi with rfl | hi
    · exact hc
    · obtain ⟨l, hl, hil⟩ := List.mem_flatten.1 hi
      obtain ⟨u, hu, rfl⟩ := List.mem_map.1 hl
      obtain ⟨d, hd, rfl⟩ := List.mem_map.1 hu
      obtain ⟨hdl, hdp⟩ := h.mem_children.1 hd
      have h1 := h.depth_child hdl hdp
      exact ih d hdl (by omega) i hil

/-- **e2e_sample_loop_law (C07 for Chow-Liu trees, about the extracted LOOPS)**: strictly positive tables (at the positions of the
vector), well-formed predecessor vector, scope of the right length, evidence `e` with binary observed entries, full binary
assignment `X` agreeing with `e` where `e` is observed: the evidence has positive value, and the probability that the extracted
`sample` (generated sampling loop ∘ generated `message_passing`) returns the row of `X` is `value X / value e`. -/
theorem e2e_sample_loop_law (tree : List Int) (hwf : GraphIo.WellFormedPred tree) (scope : List Nat)
    (cpt : List (List (List α))) (hpos : ∀ i, i < tree.length → ∀ l < 2, ∀ k < 2, 0 < cptAt cpt i l k)
    (hlen : scope.length = tree.length) (e X : Ev) (mx : List α → α)
    (hbin : ∀ v ∈ scope, ∀ o, e v = some o → o < 2)
    (hagree : ∀ v, e v ≠ none → X v = e v)
    (hfull : ∀ v ∈ scope, ∃ k, k < 2 ∧ X v = some k) :
    0 < value scope tree cpt e ∧
    ∃ r, GraphIo.rootIdx tree = some r ∧
      loopSampleLaw cpt tree r mx (rowList scope tree.length e) (rowList scope tree.length X) =
        (rowList scope tree.length X, samplePmfTree scope tree cpt e (fun v => (X v).getD 0)) ∧
      loopSampleProb cpt tree r mx (rowList scope tree.length e) (rowList scope tree.length X) =
        value scope tree cpt X / value scope tree cpt e := by
  obtain ⟨r', h⟩ := GraphIo.WF.of_wf hwf
  have hroot : rootOf tree = some r' := by rw [← GraphIo.rootIdx_eq_rootOf]; exact h.root
  have hvl : ∀ j, j < tree.length → ∀ i ∈ (build tree tree.length j).vars, i < tree.length :=
    fun j hj => vars_build_lt h tree.length j hj (by omega)
  have hlabs : ∀ j, j < tree.length → ∀ v ∈ lab scope (build tree tree.length j), v ∈ scope := by
    intro j hj v hv
    obtain ⟨i, hi, rfl⟩ := List.mem_map.1 hv
    exact getD_mem_scope scope i (by rw [hlen]; exact hvl j hj i hi)
  have hup : ∀ j, j < tree.length → ∀ p, p < 2 → 0 < up scope cpt (build tree tree.length j) p e :=
    fun j hj p hp => up_pos scope cpt e _ p hp (fun i hi => hpos i (hvl j hj i hi))
      (fun v hv o ho => hbin v (hlabs j hj v hv) o ho)
  have hval : 0 < value scope tree cpt e := by
    rw [value_eq_up scope tree cpt hroot]; exact hup r' h.r_lt 0 (by omega)
  refine ⟨hval, ?_⟩
  apply e2e_sample_loop_law_of_defined tree hwf scope cpt hlen e X mx hbin hagree hfull
    (fun j hj _ p hp => ne_of_gt (hup j hj p hp)) ?_ (ne_of_gt hval)
  intro r0 hr0
  have hrr : r0 = r' := Option.some.inj (hr0.symm.trans hroot)
  subst hrr
  apply sampleDefined_of_pos scope cpt e _ _ 0 (by omega) (fun i hi => hpos i (hvl r0 h.r_lt i hi))
    (fun v hv o ho => hbin v (hlabs r0 h.r_lt v hv) o ho)
  intro v hv
  obtain ⟨k, hk, hXk⟩ := hfull v (hlabs r0 h.r_lt v hv)
  simp only [hXk, Option.getD_some]
  exact hk

end ordfield

/-! ### non-vacuity: the regression tree `[3, 4, 1, -1, 0]`, one missing entry (column 0 = variable 7, an inner node) -/

/-- everything observed except variable 7 -/
def exE1 : Ev := fun v => if v = 7 then none else if v = 9 ∨ v = 2 then some 1 else some 0
/-- the completion that gives 1 to variable 7 -/
def exX1 : Ev := fun v => if v = 7 ∨ v = 9 ∨ v = 2 then some 1 else some 0

theorem exCpt_pos : ∀ i, i < exTree.length → ∀ l < 2, ∀ k < 2, (0 : ℚ) < cptAt exCpt i l k := by
  decide +kernel

example : 0 < value exScope exTree exCpt exE1 ∧
    ∃ r, GraphIo.rootIdx exTree = some r ∧
      loopSampleProb exCpt exTree r Struct4.maxL (rowList exScope exTree.length exE1) (rowList exScope exTree.length exX1) =
        value exScope exTree exCpt exX1 / value exScope exTree exCpt exE1 := by
  obtain ⟨h0, r, hr, _, hp⟩ := e2e_sample_loop_law exTree exTree_wf exScope exCpt exCpt_pos rfl exE1 exX1 Struct4.maxL
    (by intro v _ o h; unfold exE1 at h; split at h; · simp at h
        · split at h <;> simp at h <;> omega)
    (by intro v hv; unfold exE1 at hv; unfold exE1 exX1
        by_cases h7 : v = 7
        · simp [h7] at hv
        · by_cases h2 : v = 9 ∨ v = 2 <;> simp [h7, h2])
    (by intro v hv; unfold exX1
        by_cases h : v = 7 ∨ v = 9 ∨ v = 2
        · exact ⟨1, by omega, by rw [if_pos h]⟩
        · exact ⟨0, by omega, by rw [if_neg h]⟩)
  exact ⟨h0, r, hr, hp⟩

/-- the rows, and the number the extracted loops compute (evaluated by the kernel): `P(X₇ = 1 | rest) = 3/8`, and `5/8` for `X₇ = 0` -/
example : rowList exScope exTree.length exE1 = [none, some 0, some 1, some 1, some 0] ∧
    rowList exScope exTree.length exX1 = [some 1, some 0, some 1, some 1, some 0] := by decide

example : loopSampleProb exCpt exTree 3 Struct4.maxL [none, some 0, some 1, some 1, some 0]
      [some 1, some 0, some 1, some 1, some 0] = 3 / 8 ∧
    loopSampleProb exCpt exTree 3 Struct4.maxL [none, some 0, some 1, some 1, some 0]
      [some 0, some 0, some 1, some 1, some 0] = 5 / 8 ∧
    loopSampleProb exCpt exTree 3 Struct4.maxL [none, some 0, some 1, some 1, some 0]
      [some 1, some 1, some 1, some 1, some 0] = 0 := by decide +kernel

end Deeprob.E2ECltSample
