import DeeprobModel.Props.C15
import DeeprobModel.Spec.FlowRealInst
import DeeprobModel.Lemmas.FlowsExamples
import Mathlib.Analysis.SpecialFunctions.Log.Deriv
import Mathlib.Analysis.SpecialFunctions.ExpDeriv
import Mathlib.Analysis.SpecialFunctions.Sqrt
import Mathlib.Analysis.SpecialFunctions.Trigonometric.DerivHyp
import Mathlib.Analysis.Calculus.Deriv.Inv
import Mathlib.Analysis.Calculus.Deriv.Pi
import Mathlib.Analysis.Calculus.Deriv.Prod
import Mathlib.Analysis.Calculus.FDeriv.Prod
import Mathlib.Analysis.Calculus.FDeriv.Pi
import Mathlib.Topology.Algebra.Module.Determinant
import Mathlib.Topology.Algebra.Module.FiniteDimension
import Mathlib.LinearAlgebra.Matrix.ToLin
import Mathlib.LinearAlgebra.Determinant
import Mathlib.LinearAlgebra.Matrix.Permutation
/-
Property C15 — the calculus facts behind the log-determinants of the flow layers, over ℝ.

`Props/C15.lean` proves the flow properties over an abstract `ExpLog F`; its `*_ldj_is_logdet` theorems are
statements about *any* matrix with a stated diagonal (the "slopes") and vanishing pattern. This file proves that
those slopes ARE the derivatives and that the matrices ARE the Jacobians:

* §1 `realExpLog` (defined in `Spec/FlowRealInst.lean`) is ℝ with `Real.exp / Real.log / Real.sqrt / Real.tanh`.
* §2 one `HasDerivAt` theorem (+ positivity of the slope) for every element-wise map of
  /repo/deeprob/flows/utils.py (`LogitLayer`, `BatchNormLayer1d/2d` in evaluation mode, `DequantizeLayer`) and of
  /repo/deeprob/flows/layers/{coupling,autoregressive}.py (`u·exp(s) + t`, `(x − t)·exp(−s)`); `ScaledTanh`
  (/repo/deeprob/torch/utils.py) for completeness — its slope enters no log-det (it is applied to the conditioner's
  output `s`, not to the transformed coordinate).
* §3 change of variables: the Fréchet derivative of `x ↦ (f₁ x₁, …, f_n x_n)` is the diagonal matrix of the slopes,
  its determinant their product, `log|det| = Σ log|slope|`; for a map whose coordinate `i` reads, besides `xᵢ`, only
  coordinates of strictly smaller degree, the determinant of the Fréchet derivative is the product of the diagonal
  partial derivatives (through `det_triangular_by_degree`).
* §4 the layers of `Model/Flows.lean` at `realExpLog`, as maps of `ℝⁿ`: each is differentiable, its Fréchet derivative is
  invertible and the log-det the layer REPORTS is `log|det (fderiv layer x)|` (`HasLogAbsDet`): `LogitLayer` and
  `BatchNormLayer1d/2d` (both directions), affine and additive couplings with any mask and any differentiable
  conditioner (both directions), the autoregressive layer in the density direction and in the sampling direction
  (the `D`-step loop), index permutations, and composition (chain rule).
  Not instantiated at model level: the channel-wise branch of `CouplingLayer2d` (`chanBackward / chanForward`); it is
  an instance of `triangular_logabsdet` + `affine_*_hasDerivAt` in the same way as §4.3.
Naming follows the code: `backward` = `apply_backward` (data → latent; for `LogitLayer` this is the logit map),
`forward` = `apply_forward` (latent → data; for `LogitLayer` the sigmoid followed by the affine map).
-/
open Matrix BigOperators

namespace Deeprob.Flows.Calc

/-! ## 1. The real instance -/

/-- `realExpLog` is ℝ with the usual functions (the laws of `ExpLog` are proved where it is defined,
`Spec/FlowRealInst.lean`, from `Real.exp_add`, `Real.exp_log`, `Real.mul_self_sqrt`, …). -/
theorem realExpLog_fields :
    realExpLog.exp = Real.exp ∧ realExpLog.log = Real.log ∧ realExpLog.sqrt = Real.sqrt ∧
    realExpLog.tanh = Real.tanh ∧ (∀ a, realExpLog.sigmoid a = 1 / (1 + Real.exp (-a))) ∧
    realExpLogSig.toExpLog = realExpLog :=
  ⟨rfl, rfl, rfl, rfl, fun _ => rfl, rfl⟩

/-- Non-vacuity: the instance computes with real numbers: `log (exp 2 · exp 3) = 5`, `√4 · √4 = 4`. -/
example : realExpLog.log (realExpLog.exp 2 * realExpLog.exp 3) = 5 ∧ realExpLog.sqrt 4 * realExpLog.sqrt 4 = 4 := by
  refine ⟨?_, realExpLog.sqrt_sq 4 (by norm_num)⟩
  rw [← realExpLog.exp_add, realExpLog.log_exp]; norm_num

/-! ## 2. Element-wise maps and their slopes -/

/-! ### 2.1 `LogitLayer` -/

/-- Coordinate map of `LogitLayer.apply_backward`: `x' = α + (1 − 2α)·x`, `u = log x' − log (1 − x')`. -/
noncomputable def logitMap (α x : ℝ) : ℝ :=
  Real.log (α + (1 - 2 * α) * x) - Real.log (1 - (α + (1 - 2 * α) * x))

/-- The slope whose logarithm `LogitLayer.apply_backward` reports per coordinate:
`(1 − 2α) / (x'·(1 − x'))` — `−(log x' + log(1 − x')) + log(1 − 2α)`. -/
noncomputable def logitSlope (α x : ℝ) : ℝ :=
  (1 - 2 * α) / ((α + (1 - 2 * α) * x) * (1 - (α + (1 - 2 * α) * x)))

/-- The model's coordinate function is `logitMap`. -/
theorem logitBackward_coord (α d : ℝ) (n : Nat) (x : Nat → ℝ) (k : Nat) :
    (logitBackward Real.log α d n x).1 k = logitMap α (x k) := by
  show Real.log (α + (1 - (1 + 1) * α) * x k) - Real.log (1 - (α + (1 - (1 + 1) * α) * x k)) = _
  rw [one_add_one_eq_two]; rfl

/-- `LogitLayer.apply_backward`, one coordinate: `d/dx logit(α + (1 − 2α)x) = (1 − 2α)/(x'(1 − x'))` wherever both
logarithms are taken at non-zero arguments (in particular for `x' ∈ (0, 1)`). Uses `d/dx log x = 1/x`. -/
theorem logit_backward_hasDerivAt (α x : ℝ) (h0 : α + (1 - 2 * α) * x ≠ 0)
    (h1 : 1 - (α + (1 - 2 * α) * x) ≠ 0) :
    HasDerivAt (logitMap α) (logitSlope α x) x := by
  have hlin : HasDerivAt (fun y : ℝ => α + (1 - 2 * α) * y) (1 - 2 * α) x := by
    simpa using ((hasDerivAt_id x).const_mul (1 - 2 * α)).const_add α
  have hlin' : HasDerivAt (fun y : ℝ => 1 - (α + (1 - 2 * α) * y)) (-(1 - 2 * α)) x := by
    simpa using hlin.const_sub 1
  have h : HasDerivAt (fun y : ℝ => Real.log (α + (1 - 2 * α) * y) - Real.log (1 - (α + (1 - 2 * α) * y)))
      ((1 - 2 * α) / (α + (1 - 2 * α) * x) - -(1 - 2 * α) / (1 - (α + (1 - 2 * α) * x))) x :=
    (hlin.log h0).sub (hlin'.log h1)
  refine h.congr_deriv ?_
  unfold logitSlope
  field_simp
  ring

/-- On the domain of the layer (`x' ∈ (0,1)`, `α < 1/2`) the slope is positive, so `log|f'| = log slope`. -/
theorem logit_backward_slope_pos (α x : ℝ) (hα : 0 < 1 - 2 * α) (h0 : 0 < α + (1 - 2 * α) * x)
    (h1 : α + (1 - 2 * α) * x < 1) : 0 < logitSlope α x :=
  div_pos hα (mul_pos h0 (sub_pos.2 h1))

/-- The logarithm of the slope is the summand of the reported `inv_log_det_jacobian`:
`−(log x' + log (1 − x')) + log (1 − 2α)`. -/
theorem logit_backward_log_slope (α x : ℝ) (hα : 0 < 1 - 2 * α) (h0 : 0 < α + (1 - 2 * α) * x)
    (h1 : α + (1 - 2 * α) * x < 1) :
    Real.log |logitSlope α x|
      = -(Real.log (α + (1 - 2 * α) * x) + Real.log (1 - (α + (1 - 2 * α) * x))) + Real.log (1 - 2 * α) := by
  rw [abs_of_pos (logit_backward_slope_pos α x hα h0 h1), logitSlope,
    Real.log_div hα.ne' (mul_pos h0 (sub_pos.2 h1)).ne', Real.log_mul h0.ne' (sub_pos.2 h1).ne']
  ring

/-- Non-vacuity at `α = 0.05`, `x = 0.3` (`x' = 0.32`): the slope is `0.9 / (0.32 · 0.68)`. -/
example : HasDerivAt (logitMap (1 / 20)) ((9 / 10) / ((8 / 25) * (17 / 25))) (3 / 10) ∧
    0 < logitSlope (1 / 20) (3 / 10) := by
  constructor
  · have := logit_backward_hasDerivAt (1 / 20) (3 / 10) (by norm_num) (by norm_num)
    convert this using 1
    unfold logitSlope; norm_num
  · exact logit_backward_slope_pos _ _ (by norm_num) (by norm_num) (by norm_num)

/-- `torch.sigmoid` as `realExpLog.sigmoid` states it. -/
noncomputable def sigmoid (a : ℝ) : ℝ := 1 / (1 + Real.exp (-a))

theorem sigmoid_pos (a : ℝ) : 0 < sigmoid a := by unfold sigmoid; positivity

theorem sigmoid_lt_one (a : ℝ) : sigmoid a < 1 := by
  unfold sigmoid
  rw [div_lt_one (by positivity)]
  linarith [Real.exp_pos (-a)]

/-- `σ' = σ(1 − σ)`. -/
theorem sigmoid_hasDerivAt (a : ℝ) : HasDerivAt sigmoid (sigmoid a * (1 - sigmoid a)) a := by
  have hneg : HasDerivAt (fun y : ℝ => Real.exp (-y)) (Real.exp (-a) * -1) a := (hasDerivAt_neg a).exp
  have hden : HasDerivAt (fun y : ℝ => 1 + Real.exp (-y)) (Real.exp (-a) * -1) a := hneg.const_add 1
  have hpos : (1 + Real.exp (-a)) ≠ 0 := by positivity
  have h : HasDerivAt (fun y : ℝ => (1 + Real.exp (-y))⁻¹) (-(Real.exp (-a) * -1) / (1 + Real.exp (-a)) ^ 2) a :=
    hden.inv hpos
  have e : sigmoid = fun y : ℝ => (1 + Real.exp (-y))⁻¹ := by
    funext y; simp [sigmoid]
  rw [e]
  refine h.congr_deriv ?_
  field_simp
  ring

/-- Coordinate map of `LogitLayer.apply_forward`: `x = (σ(u) − α) / (1 − 2α)`. -/
noncomputable def logitInvMap (α u : ℝ) : ℝ := (sigmoid u - α) / (1 - 2 * α)

/-- The slope whose logarithm `LogitLayer.apply_forward` reports: `σ(u)(1 − σ(u)) / (1 − 2α)`. -/
noncomputable def logitInvSlope (α u : ℝ) : ℝ := sigmoid u * (1 - sigmoid u) / (1 - 2 * α)

theorem logitForward_coord (α d : ℝ) (n : Nat) (u : Nat → ℝ) (k : Nat) :
    (logitForward Real.log realExpLog.sigmoid α d n u).1 k = logitInvMap α (u k) := by
  show (1 / (1 + Real.exp (-(u k))) - α) / (1 - (1 + 1) * α) = _
  rw [one_add_one_eq_two]; rfl

/-- `LogitLayer.apply_forward`, one coordinate (no hypothesis: for `α = 1/2` both sides are `0` by Lean's `x/0 = 0`;
the layer is used with `α < 1/2`). -/
theorem logit_forward_hasDerivAt (α u : ℝ) : HasDerivAt (logitInvMap α) (logitInvSlope α u) u := by
  have h : HasDerivAt (fun y : ℝ => (sigmoid y - α) / (1 - 2 * α))
      (sigmoid u * (1 - sigmoid u) / (1 - 2 * α)) u :=
    ((sigmoid_hasDerivAt u).sub_const α).div_const (1 - 2 * α)
  exact h

theorem logit_forward_slope_pos (α u : ℝ) (hα : 0 < 1 - 2 * α) : 0 < logitInvSlope α u :=
  div_pos (mul_pos (sigmoid_pos u) (sub_pos.2 (sigmoid_lt_one u))) hα

/-- The logarithm of the slope is the summand of the reported `log_det_jacobian`:
`log σ(u) + log (1 − σ(u)) − log (1 − 2α)`. -/
theorem logit_forward_log_slope (α u : ℝ) (hα : 0 < 1 - 2 * α) :
    Real.log |logitInvSlope α u|
      = Real.log (sigmoid u) + Real.log (1 - sigmoid u) - Real.log (1 - 2 * α) := by
  rw [abs_of_pos (logit_forward_slope_pos α u hα), logitInvSlope,
    Real.log_div (mul_pos (sigmoid_pos u) (sub_pos.2 (sigmoid_lt_one u))).ne' hα.ne',
    Real.log_mul (sigmoid_pos u).ne' (sub_pos.2 (sigmoid_lt_one u)).ne']

/-- The two slopes are reciprocal along the bijection (`x' = σ(u)`): inverse-function rule, checked directly. -/
theorem logit_slopes_reciprocal (α x : ℝ) (hα : 1 - 2 * α ≠ 0) (h0 : 0 < α + (1 - 2 * α) * x)
    (h1 : α + (1 - 2 * α) * x < 1) : logitInvSlope α (logitMap α x) * logitSlope α x = 1 := by
  have hs : sigmoid (logitMap α x) = α + (1 - 2 * α) * x := by
    unfold sigmoid logitMap
    rw [neg_sub, Real.exp_sub, Real.exp_log (sub_pos.2 h1), Real.exp_log h0]
    have h1' : (1 - (α + (1 - 2 * α) * x)) ≠ 0 := (sub_pos.2 h1).ne'
    rw [one_add_div h0.ne', one_div_div]
    rw [show α + (1 - 2 * α) * x + (1 - (α + (1 - 2 * α) * x)) = 1 by ring, div_one]
  unfold logitInvSlope logitSlope
  rw [hs]
  have h1' : (1 - (α + (1 - 2 * α) * x)) ≠ 0 := (sub_pos.2 h1).ne'
  have h0' := h0.ne'
  rw [div_mul_div_comm, div_eq_one_iff_eq (by positivity)]
  ring

example : HasDerivAt (logitInvMap (1 / 20)) (logitInvSlope (1 / 20) 0) 0 ∧ logitInvSlope (1 / 20) 0 = 5 / 18 := by
  refine ⟨logit_forward_hasDerivAt _ _, ?_⟩
  unfold logitInvSlope sigmoid; norm_num

/-! ### 2.2 Affine coordinate map of coupling / autoregressive layers -/

/-- `x = u·exp(s) + t` (coupling `apply_forward`, MAF `apply_forward`): slope `exp s`, reported summand `s`. -/
theorem affine_forward_hasDerivAt (s t u : ℝ) : HasDerivAt (fun y : ℝ => y * Real.exp s + t) (Real.exp s) u := by
  have h : HasDerivAt (fun y : ℝ => y * Real.exp s + t) (1 * Real.exp s) u :=
    ((hasDerivAt_id u).mul_const (Real.exp s)).add_const t
  exact h.congr_deriv (one_mul _)

/-- `u = (x − t)·exp(−s)` (coupling / MAF `apply_backward`): slope `exp(−s)`, reported summand `−s`. -/
theorem affine_backward_hasDerivAt (s t x : ℝ) :
    HasDerivAt (fun y : ℝ => (y - t) * Real.exp (-s)) (Real.exp (-s)) x := by
  have h : HasDerivAt (fun y : ℝ => (y - t) * Real.exp (-s)) (1 * Real.exp (-s)) x :=
    ((hasDerivAt_id x).sub_const t).mul_const (Real.exp (-s))
  exact h.congr_deriv (one_mul _)

/-- Additive couplings: `x = u + t`, `u = x − t`, slope `1`, reported `0`. -/
theorem additive_hasDerivAt (t x : ℝ) :
    HasDerivAt (fun y : ℝ => y + t) 1 x ∧ HasDerivAt (fun y : ℝ => y - t) 1 x :=
  ⟨(hasDerivAt_id x).add_const t, (hasDerivAt_id x).sub_const t⟩

theorem affine_slope_pos_log (s : ℝ) :
    0 < Real.exp s ∧ Real.log |Real.exp s| = s ∧ 0 < Real.exp (-s) ∧ Real.log |Real.exp (-s)| = -s := by
  refine ⟨Real.exp_pos s, ?_, Real.exp_pos _, ?_⟩ <;> rw [abs_of_pos (Real.exp_pos _), Real.log_exp]

example : HasDerivAt (fun y : ℝ => y * Real.exp 2 + 7) (Real.exp 2) (3 / 10) ∧
    HasDerivAt (fun y : ℝ => (y - 7) * Real.exp (-2)) (Real.exp (-2)) (3 / 10) :=
  ⟨affine_forward_hasDerivAt 2 7 _, affine_backward_hasDerivAt 2 7 _⟩

/-! ### 2.3 Batch normalisation, evaluation mode -/

/-- `BatchNormLayer1d/2d.apply_backward` (running statistics), one coordinate:
`u = (x − μ)/√(v + ε) · exp(w) + b`; slope `exp(w)/√(v + ε)` (no hypothesis needed for the derivative itself). -/
theorem bn_backward_hasDerivAt (w b μ v ε x : ℝ) :
    HasDerivAt (fun y : ℝ => (y - μ) / Real.sqrt (v + ε) * Real.exp w + b)
      (Real.exp w / Real.sqrt (v + ε)) x := by
  have h : HasDerivAt (fun y : ℝ => (y - μ) / Real.sqrt (v + ε) * Real.exp w + b)
      (1 / Real.sqrt (v + ε) * Real.exp w) x :=
    ((((hasDerivAt_id x).sub_const μ).div_const (Real.sqrt (v + ε))).mul_const (Real.exp w)).add_const b
  refine h.congr_deriv ?_
  rw [one_div, div_eq_mul_inv, mul_comm]

/-- With `running_var + eps > 0` the slope is positive and its logarithm is the reported summand
`w − 0.5·log(v + ε)`. -/
theorem bn_backward_slope (w v ε : ℝ) (hv : 0 < v + ε) :
    0 < Real.exp w / Real.sqrt (v + ε) ∧
    Real.log |Real.exp w / Real.sqrt (v + ε)| = w - (1 / 2) * Real.log (v + ε) := by
  have hs : 0 < Real.sqrt (v + ε) := Real.sqrt_pos.2 hv
  refine ⟨div_pos (Real.exp_pos w) hs, ?_⟩
  rw [abs_of_pos (div_pos (Real.exp_pos w) hs), Real.log_div (Real.exp_pos w).ne' hs.ne', Real.log_exp,
    Real.log_sqrt hv.le]
  ring

/-- `apply_forward`: `x = (u − b)·exp(−w)·√(v + ε) + μ`; slope `exp(−w)·√(v + ε)`. -/
theorem bn_forward_hasDerivAt (w b μ v ε u : ℝ) :
    HasDerivAt (fun y : ℝ => (y - b) * Real.exp (-w) * Real.sqrt (v + ε) + μ)
      (Real.exp (-w) * Real.sqrt (v + ε)) u := by
  have h : HasDerivAt (fun y : ℝ => (y - b) * Real.exp (-w) * Real.sqrt (v + ε) + μ)
      (1 * Real.exp (-w) * Real.sqrt (v + ε)) u :=
    ((((hasDerivAt_id u).sub_const b).mul_const (Real.exp (-w))).mul_const (Real.sqrt (v + ε))).add_const μ
  refine h.congr_deriv ?_
  rw [one_mul]

theorem bn_forward_slope (w v ε : ℝ) (hv : 0 < v + ε) :
    0 < Real.exp (-w) * Real.sqrt (v + ε) ∧
    Real.log |Real.exp (-w) * Real.sqrt (v + ε)| = -w + (1 / 2) * Real.log (v + ε) := by
  have hs : 0 < Real.sqrt (v + ε) := Real.sqrt_pos.2 hv
  refine ⟨mul_pos (Real.exp_pos _) hs, ?_⟩
  rw [abs_of_pos (mul_pos (Real.exp_pos _) hs), Real.log_mul (Real.exp_pos _).ne' hs.ne', Real.log_exp,
    Real.log_sqrt hv.le]
  ring

/-- Non-vacuity: the library defaults `running_var = 1`, `eps = 1e-5`, and `w = 2`. -/
example : HasDerivAt (fun y : ℝ => (y - 3) / Real.sqrt (1 + 1 / 100000) * Real.exp 2 + 4)
      (Real.exp 2 / Real.sqrt (1 + 1 / 100000)) (3 / 10) ∧
    Real.log |Real.exp 2 / Real.sqrt (1 + 1 / 100000)| = 2 - (1 / 2) * Real.log (1 + 1 / 100000) :=
  ⟨bn_backward_hasDerivAt 2 4 3 1 _ _, (bn_backward_slope 2 1 _ (by norm_num)).2⟩

/-! ### 2.4 `ScaledTanh` (enters no log-det; recorded for completeness) -/

/-- `tanh' = 1 − tanh²`. -/
theorem tanh_hasDerivAt (x : ℝ) : HasDerivAt Real.tanh (1 - Real.tanh x ^ 2) x := by
  have hc : Real.cosh x ≠ 0 := (Real.cosh_pos x).ne'
  have h : HasDerivAt (fun y => Real.sinh y / Real.cosh y)
      ((Real.cosh x * Real.cosh x - Real.sinh x * Real.sinh x) / Real.cosh x ^ 2) x :=
    (Real.hasDerivAt_sinh x).div (Real.hasDerivAt_cosh x) hc
  have e : Real.tanh = fun y => Real.sinh y / Real.cosh y := by
    funext y; exact Real.tanh_eq_sinh_div_cosh y
  rw [e]
  refine h.congr_deriv ?_
  show _ = 1 - (Real.sinh x / Real.cosh x) ^ 2
  field_simp

/-- `ScaledTanh.forward`: `w·tanh(x)`, slope `w·(1 − tanh² x)`. The layers apply it to the conditioner's output
`s` (`s = self.scale_act(s)`), never to the transformed coordinate, so this slope is part of no reported log-det. -/
theorem scaledTanh_hasDerivAt (w x : ℝ) :
    HasDerivAt (fun y : ℝ => w * Real.tanh y) (w * (1 - Real.tanh x ^ 2)) x :=
  (tanh_hasDerivAt x).const_mul w

example : HasDerivAt (fun y : ℝ => 3 * Real.tanh y) 3 0 := by
  simpa using scaledTanh_hasDerivAt 3 0

/-! ### 2.5 `DequantizeLayer` (not claimed as a bijection; its reported constant is NOT the log-slope) -/

/-- `DequantizeLayer.apply_backward` for a fixed noise value `r`: `u = (x·(bins − 1) + r)/bins` has slope
`(bins − 1)/bins` in `x`. -/
theorem dequantize_backward_hasDerivAt (bins r x : ℝ) :
    HasDerivAt (fun y : ℝ => (y * (bins - 1) + r) / bins) ((bins - 1) / bins) x := by
  have h : HasDerivAt (fun y : ℝ => (y * (bins - 1) + r) / bins) (1 * (bins - 1) / bins) x :=
    (((hasDerivAt_id x).mul_const (bins - 1)).add_const r).div_const bins
  exact h.congr_deriv (by rw [one_mul])

/-- The layer reports `−log(bins)` per coordinate, i.e. the log-slope of `p ↦ (p + r)/bins` in the *integer pixel
value* `p = x·(bins − 1)`, not in its input `x`: for `n_bits = 8` the two differ by `log 255` per coordinate. -/
theorem dequantize_reported_is_not_log_slope :
    Real.log |((256 : ℝ) - 1) / 256| ≠ -Real.log 256 ∧
    Real.log |((256 : ℝ) - 1) / 256| - -Real.log 256 = Real.log 255 := by
  have h : Real.log |((256 : ℝ) - 1) / 256| = Real.log 255 - Real.log 256 := by
    rw [abs_of_pos (by norm_num), Real.log_div (by norm_num) (by norm_num)]; norm_num
  have hpos : 0 < Real.log 255 := Real.log_pos (by norm_num)
  constructor
  · rw [h]; linarith
  · rw [h]; ring

/-! ## 3. Change of variables: Jacobians of element-wise and of triangular maps -/

/-- The continuous linear map of a square real matrix on `Fin n → ℝ`. -/
noncomputable def matCLM {n : Nat} (M : Matrix (Fin n) (Fin n) ℝ) : (Fin n → ℝ) →L[ℝ] (Fin n → ℝ) :=
  LinearMap.toContinuousLinearMap (Matrix.toLin' M)

theorem matCLM_apply {n : Nat} (M : Matrix (Fin n) (Fin n) ℝ) (v : Fin n → ℝ) : matCLM M v = M.mulVec v := rfl

/-- `ContinuousLinearMap.det` of the map of a matrix is the determinant of the matrix (this `det` is the one in
Mathlib's change-of-variables formula `integral_image_eq_integral_abs_det_fderiv_smul`). -/
theorem matCLM_det {n : Nat} (M : Matrix (Fin n) (Fin n) ℝ) : (matCLM M).det = M.det := by
  show LinearMap.det ((matCLM M : (Fin n → ℝ) →L[ℝ] (Fin n → ℝ)) : (Fin n → ℝ) →ₗ[ℝ] (Fin n → ℝ)) = _
  have : ((matCLM M : (Fin n → ℝ) →L[ℝ] (Fin n → ℝ)) : (Fin n → ℝ) →ₗ[ℝ] (Fin n → ℝ)) = Matrix.toLin' M := by
    ext v i; rfl
  rw [this, LinearMap.det_toLin']

/-- **Element-wise maps have a diagonal Jacobian.** If every `fᵢ` has derivative `sᵢ` at `xᵢ`, the map
`x ↦ (f₁ x₁, …, f_n x_n)` has Fréchet derivative the diagonal matrix of the slopes at `x`. -/
theorem elementwise_hasFDerivAt {n : Nat} (f : Fin n → ℝ → ℝ) (s x : Fin n → ℝ)
    (hf : ∀ i, HasDerivAt (f i) (s i) (x i)) :
    HasFDerivAt (fun y : Fin n → ℝ => fun i => f i (y i)) (matCLM (Matrix.diagonal s)) x := by
  rw [hasFDerivAt_pi']
  intro i
  have h := (hf i).hasFDerivAt.comp x (hasFDerivAt_apply (𝕜 := ℝ) i x)
  refine h.congr_fderiv ?_
  ext v
  simp [matCLM_apply, Matrix.mulVec_diagonal, mul_comm]

/-- … hence `det J = ∏ slopes` (`Matrix.det_diagonal`) and `log|det J| = Σ log|slopeᵢ|` (non-zero slopes). -/
theorem elementwise_det {n : Nat} (s : Fin n → ℝ) :
    (matCLM (Matrix.diagonal s)).det = ∏ i, s i ∧ (Matrix.diagonal s).det = ∏ i, s i :=
  ⟨by rw [matCLM_det, Matrix.det_diagonal], Matrix.det_diagonal⟩

theorem log_abs_prod {n : Nat} (s : Fin n → ℝ) (hs : ∀ i, s i ≠ 0) :
    Real.log |∏ i, s i| = ∑ i, Real.log |s i| := by
  rw [Finset.abs_prod, Real.log_prod (fun i _ => abs_ne_zero.2 (hs i))]

/-- "`F` is differentiable at `x`, its Fréchet derivative is invertible, and `a = log|det F'(x)|`": what a layer that
reports the log-det `a` at `x` has to satisfy for the change-of-variables formula. -/
def HasLogAbsDet {n : Nat} (F : (Fin n → ℝ) → (Fin n → ℝ)) (x : Fin n → ℝ) (a : ℝ) : Prop :=
  DifferentiableAt ℝ F x ∧ (fderiv ℝ F x).det ≠ 0 ∧ Real.log |(fderiv ℝ F x).det| = a

/-- The change-of-variables fact for element-wise maps in one statement: the map is differentiable at `x`, and the
log-absolute-determinant of its derivative is the sum of the logs of the absolute slopes. -/
theorem elementwise_logabsdet {n : Nat} (f : Fin n → ℝ → ℝ) (s x : Fin n → ℝ)
    (hf : ∀ i, HasDerivAt (f i) (s i) (x i)) (hs : ∀ i, s i ≠ 0) :
    HasLogAbsDet (fun y : Fin n → ℝ => fun i => f i (y i)) x (∑ i, Real.log |s i|) := by
  have h := elementwise_hasFDerivAt f s x hf
  refine ⟨h.differentiableAt, ?_, ?_⟩
  · rw [h.fderiv, (elementwise_det s).1]; exact Finset.prod_ne_zero_iff.2 (fun i _ => hs i)
  · rw [h.fderiv, (elementwise_det s).1, log_abs_prod s hs]

/-- Non-vacuity: the logit pre-processing on three coordinates at `α = 0.05`, `x = (0.3, 0.5, 0.9)`. -/
example : Real.log |(fderiv ℝ (fun y : Fin 3 → ℝ => fun i => logitMap (1 / 20) (y i)) ![3 / 10, 1 / 2, 9 / 10]).det|
    = ∑ i, Real.log |logitSlope (1 / 20) (![3 / 10, 1 / 2, 9 / 10] i)| := by
  refine (elementwise_logabsdet (fun _ => logitMap (1 / 20)) _ _ (fun i => ?_) (fun i => ?_)).2.2
  · fin_cases i <;> exact logit_backward_hasDerivAt _ _ (by norm_num) (by norm_num)
  · fin_cases i <;>
      exact (logit_backward_slope_pos _ _ (by norm_num) (by norm_num) (by norm_num)).ne'

/-- The Jacobian matrix of a Fréchet derivative: entry `(i, j)` is `A eⱼ` at coordinate `i`. -/
noncomputable def jac {n : Nat} (A : (Fin n → ℝ) →L[ℝ] (Fin n → ℝ)) : Matrix (Fin n) (Fin n) ℝ :=
  LinearMap.toMatrix' (A : (Fin n → ℝ) →ₗ[ℝ] (Fin n → ℝ))

theorem jac_apply {n : Nat} (A : (Fin n → ℝ) →L[ℝ] (Fin n → ℝ)) (i j : Fin n) :
    jac A i j = A (Pi.single j 1) i := by
  simp [jac, LinearMap.toMatrix'_apply]

theorem jac_det {n : Nat} (A : (Fin n → ℝ) →L[ℝ] (Fin n → ℝ)) : (jac A).det = A.det :=
  LinearMap.det_toMatrix' _

/-- Entry `(i, j)` of the Jacobian matrix is the partial derivative of coordinate `i` in the variable `xⱼ`. -/
theorem jac_entry_is_partial {n : Nat} (F : (Fin n → ℝ) → (Fin n → ℝ)) (A : (Fin n → ℝ) →L[ℝ] (Fin n → ℝ))
    (x : Fin n → ℝ) (hF : HasFDerivAt F A x) (i j : Fin n) :
    HasDerivAt (fun v : ℝ => F (Function.update x j v) i) (jac A i j) (x j) := by
  have hx : Function.update x j (x j) = x := Function.update_eq_self j x
  have hF' : HasFDerivAt F A (Function.update x j (x j)) := by rw [hx]; exact hF
  have h := hF'.comp_hasDerivAt (x j) (hasDerivAt_update x j (x j))
  have h2 := (hasDerivAt_pi.1 h) i
  rw [jac_apply]
  exact h2

/-- **Triangular maps.** Let `F` be differentiable at `x` with derivative `A`. If coordinate `i` of `F` does not read
`xⱼ` whenever `j ≠ i` and `deg i ≤ deg j` (autoregressive / coupling dependency structure), and the partial
derivative of coordinate `i` in its own variable is `sᵢ`, then the Jacobian matrix has the vanishing pattern of
`det_triangular_by_degree` and diagonal `s`; `det A = ∏ sᵢ`. -/
theorem triangular_fderiv_det {n : Nat} (F : (Fin n → ℝ) → (Fin n → ℝ)) (A : (Fin n → ℝ) →L[ℝ] (Fin n → ℝ))
    (x : Fin n → ℝ) (hF : HasFDerivAt F A x) (deg : Fin n → ℕ) (s : Fin n → ℝ)
    (hdep : ∀ i j, i ≠ j → deg i ≤ deg j → ∀ v, F (Function.update x j v) i = F x i)
    (hdiag : ∀ i, HasDerivAt (fun v : ℝ => F (Function.update x i v) i) (s i) (x i)) :
    (∀ i j, i ≠ j → deg i ≤ deg j → jac A i j = 0) ∧ (∀ i, jac A i i = s i) ∧
    (jac A).det = ∏ i, s i ∧ A.det = ∏ i, s i := by
  have hpat : ∀ i j, i ≠ j → deg i ≤ deg j → jac A i j = 0 := by
    intro i j hij hd
    have h1 := jac_entry_is_partial F A x hF i j
    have h2 : HasDerivAt (fun v : ℝ => F (Function.update x j v) i) 0 (x j) := by
      have : (fun v : ℝ => F (Function.update x j v) i) = fun _ => F x i := funext (hdep i j hij hd)
      rw [this]; exact hasDerivAt_const _ _
    exact h1.unique h2
  have hd : ∀ i, jac A i i = s i := fun i => (jac_entry_is_partial F A x hF i i).unique (hdiag i)
  have hdet : (jac A).det = ∏ i, s i := by
    rw [det_triangular_by_degree' (jac A) deg hpat]
    exact Finset.prod_congr rfl (fun i _ => hd i)
  exact ⟨hpat, hd, hdet, by rw [← jac_det, hdet]⟩

/-- Upper / lower triangular Jacobians as the special cases `deg = id` reversed / `deg = id`
(`Matrix.det_of_upperTriangular`, `Matrix.det_of_lowerTriangular` give the same product). -/
theorem lowerTriangular_fderiv_det {n : Nat} (F : (Fin n → ℝ) → (Fin n → ℝ)) (A : (Fin n → ℝ) →L[ℝ] (Fin n → ℝ))
    (x : Fin n → ℝ) (hF : HasFDerivAt F A x) (s : Fin n → ℝ)
    (hdep : ∀ i j : Fin n, i < j → ∀ v, F (Function.update x j v) i = F x i)
    (hdiag : ∀ i, HasDerivAt (fun v : ℝ => F (Function.update x i v) i) (s i) (x i)) :
    (jac A).BlockTriangular OrderDual.toDual ∧ A.det = ∏ i, s i := by
  have h := triangular_fderiv_det F A x hF (fun i => (i : ℕ)) s
    (fun i j hij hd => hdep i j (lt_of_le_of_ne hd hij)) hdiag
  refine ⟨?_, h.2.2.2⟩
  intro i j hij
  have hij' : i < j := hij
  exact h.1 i j (ne_of_lt hij') (le_of_lt hij')

/-- Non-vacuity: a two-coordinate autoregressive affine map `(x₀, x₁) ↦ (x₀·e² + 1, x₁·exp(x₀) + x₀²)`:
its derivative at `(0.3, 0.5)` has determinant `e² · exp(0.3)`. -/
example : ∀ A : (Fin 2 → ℝ) →L[ℝ] (Fin 2 → ℝ),
    HasFDerivAt (fun y : Fin 2 → ℝ => ![y 0 * Real.exp 2 + 1, y 1 * Real.exp (y 0) + y 0 ^ 2]) A ![3 / 10, 1 / 2] →
    A.det = ∏ i, ![Real.exp 2, Real.exp (3 / 10)] i := by
  intro A hA
  refine (lowerTriangular_fderiv_det _ A _ hA _ ?_ ?_).2
  · intro i j hij v
    fin_cases i <;> fin_cases j <;> simp_all
  · intro i
    fin_cases i
    · simpa using affine_forward_hasDerivAt 2 1 (3 / 10)
    · simpa using affine_forward_hasDerivAt (3 / 10) ((3 / 10 : ℝ) ^ 2) (1 / 2)


/-- Triangular change of variables in one statement (non-zero diagonal slopes). -/
theorem triangular_logabsdet {n : Nat} (F : (Fin n → ℝ) → (Fin n → ℝ)) (x : Fin n → ℝ)
    (hF : DifferentiableAt ℝ F x) (deg : Fin n → ℕ) (s : Fin n → ℝ)
    (hdep : ∀ i j, i ≠ j → deg i ≤ deg j → ∀ v, F (Function.update x j v) i = F x i)
    (hdiag : ∀ i, HasDerivAt (fun v : ℝ => F (Function.update x i v) i) (s i) (x i))
    (hs : ∀ i, s i ≠ 0) :
    HasLogAbsDet F x (∑ i, Real.log |s i|) := by
  refine ⟨hF, ?_, ?_⟩
  · rw [(triangular_fderiv_det F _ x hF.hasFDerivAt deg s hdep hdiag).2.2.2]
    exact Finset.prod_ne_zero_iff.2 (fun i _ => hs i)
  · rw [(triangular_fderiv_det F _ x hF.hasFDerivAt deg s hdep hdiag).2.2.2, log_abs_prod s hs]

/-! ## 4. The layers of `Model/Flows.lean` over ℝ: reported log-det = `log|det (fderiv layer)|`

The model's vectors are functions `Nat → ℝ` on the flat index; a point of `ℝⁿ` is embedded by `ext` (zero beyond
`n`) and the first `n` coordinates of the image are read back. -/

/-- Embedding of `ℝⁿ` into the model's flat-index vectors. -/
def ext {n : Nat} (x : Fin n → ℝ) : Nat → ℝ := fun k => if h : k < n then x ⟨k, h⟩ else 0

@[simp] theorem ext_fin {n : Nat} (x : Fin n → ℝ) (i : Fin n) : ext x (i : ℕ) = x i := by
  simp [ext, i.2]

theorem ext_update_ne {n : Nat} (x : Fin n → ℝ) (j : Fin n) (v : ℝ) (k : Nat) (hk : k ≠ (j : ℕ)) :
    ext (Function.update x j v) k = ext x k := by
  unfold ext
  split_ifs with h
  · exact Function.update_of_ne (fun e => hk (by rw [← e])) _ _
  · rfl

/-- A layer of the model (`Nat → ℝ` vectors, returns value and reported log-det) as a map of `ℝⁿ`. -/
def onFin (n : Nat) (L : (Nat → ℝ) → (Nat → ℝ) × ℝ) : (Fin n → ℝ) → (Fin n → ℝ) :=
  fun y i => (L (ext y)).1 (i : ℕ)

/-! ### 4.1 `LogitLayer` -/

/-- `LogitLayer.apply_backward` (data → latent) at `realExpLog`, `dims = n`, `α < 1/2`, on the layer's domain
`α + (1 − 2α)x ∈ (0,1)ⁿ`: the layer is differentiable and the `inv_log_det_jacobian` it reports is
`log|det|` of its Fréchet derivative. -/
theorem logit_backward_ldj_is_logabsdet (α : ℝ) (n : Nat) (hα : 0 < 1 - 2 * α) (x : Fin n → ℝ)
    (hx : ∀ i, 0 < α + (1 - 2 * α) * x i ∧ α + (1 - 2 * α) * x i < 1) :
    HasLogAbsDet (onFin n (logitBackward realExpLog.log α (n : ℝ) n)) x
      (logitBackward realExpLog.log α (n : ℝ) n (ext x)).2 := by
  have e : onFin n (logitBackward realExpLog.log α (n : ℝ) n) = fun y i => logitMap α (y i) := by
    funext y i
    show (logitBackward Real.log α (n : ℝ) n (ext y)).1 (i : ℕ) = _
    rw [logitBackward_coord, ext_fin]
  rw [e]
  have h := elementwise_logabsdet (fun _ => logitMap α) (fun i => logitSlope α (x i)) x
    (fun i => logit_backward_hasDerivAt α (x i) (hx i).1.ne' (sub_pos.2 (hx i).2).ne')
    (fun i => (logit_backward_slope_pos α (x i) hα (hx i).1 (hx i).2).ne')
  refine ⟨h.1, h.2.1, h.2.2.trans ?_⟩
  show _ = -(sumVar n (fun k => Real.log (α + (1 - (1 + 1) * α) * ext x k)
      + Real.log (1 - (α + (1 - (1 + 1) * α) * ext x k))) + -((n : ℝ) * Real.log (1 - (1 + 1) * α)))
  rw [sumVar_eq_sum, one_add_one_eq_two]
  simp only [ext_fin]
  rw [Finset.sum_congr rfl (fun i _ => logit_backward_log_slope α (x i) hα (hx i).1 (hx i).2)]
  simp only [Finset.sum_add_distrib, Finset.sum_neg_distrib, Finset.sum_const, Finset.card_univ,
    Fintype.card_fin, nsmul_eq_mul]
  ring

/-- Non-vacuity at `α = 0.05`, `x = (0.3, 0.5, 0.9)`. -/
example : Real.log |(fderiv ℝ (onFin 3 (logitBackward realExpLog.log (1 / 20) ((3 : ℕ) : ℝ) 3))
      ![3 / 10, 1 / 2, 9 / 10]).det|
    = (logitBackward realExpLog.log (1 / 20) ((3 : ℕ) : ℝ) 3 (ext ![3 / 10, 1 / 2, 9 / 10])).2 :=
  (logit_backward_ldj_is_logabsdet (1 / 20) 3 (by norm_num) _
    (fun i => by fin_cases i <;> constructor <;> norm_num)).2.2

/-- `LogitLayer.apply_forward` (latent → data), every `u ∈ ℝⁿ`. -/
theorem logit_forward_ldj_is_logabsdet (α : ℝ) (n : Nat) (hα : 0 < 1 - 2 * α) (u : Fin n → ℝ) :
    HasLogAbsDet (onFin n (logitForward realExpLog.log realExpLog.sigmoid α (n : ℝ) n)) u
      (logitForward realExpLog.log realExpLog.sigmoid α (n : ℝ) n (ext u)).2 := by
  have e : onFin n (logitForward realExpLog.log realExpLog.sigmoid α (n : ℝ) n)
      = fun y i => logitInvMap α (y i) := by
    funext y i
    show (logitForward Real.log realExpLog.sigmoid α (n : ℝ) n (ext y)).1 (i : ℕ) = _
    rw [logitForward_coord, ext_fin]
  rw [e]
  have h := elementwise_logabsdet (fun _ => logitInvMap α) (fun i => logitInvSlope α (u i)) u
    (fun i => logit_forward_hasDerivAt α (u i)) (fun i => (logit_forward_slope_pos α (u i) hα).ne')
  refine ⟨h.1, h.2.1, h.2.2.trans ?_⟩
  show _ = sumVar n (fun k => Real.log (sigmoid (ext u k)) + Real.log (1 - sigmoid (ext u k)))
      + -((n : ℝ) * Real.log (1 - (1 + 1) * α))
  rw [sumVar_eq_sum, one_add_one_eq_two]
  simp only [ext_fin]
  rw [Finset.sum_congr rfl (fun i _ => logit_forward_log_slope α (u i) hα)]
  simp only [Finset.sum_sub_distrib, Finset.sum_const, Finset.card_univ, Fintype.card_fin, nsmul_eq_mul]
  ring

example := logit_forward_ldj_is_logabsdet (1 / 20) 3 (by norm_num) ![-2, 0, 5]

/-! ### 4.2 Batch normalisation (evaluation mode) -/

/-- `BatchNormLayer1d.apply_backward` with running statistics, `running_var + eps > 0`. -/
theorem bn1d_backward_ldj_is_logabsdet (ε : ℝ) (n : Nat) (w b mean var : Nat → ℝ) (hv : ∀ k, 0 < var k + ε)
    (x : Fin n → ℝ) :
    HasLogAbsDet (onFin n (bn1dBackward realExpLog.exp realExpLog.log realExpLog.sqrt (1 / 2) ε n w b mean var)) x
      (bn1dBackward realExpLog.exp realExpLog.log realExpLog.sqrt (1 / 2) ε n w b mean var (ext x)).2 := by
  have e : onFin n (bn1dBackward realExpLog.exp realExpLog.log realExpLog.sqrt (1 / 2) ε n w b mean var)
      = fun y (i : Fin n) => (fun z : ℝ => (z - mean i) / Real.sqrt (var i + ε) * Real.exp (w i) + b i) (y i) := by
    funext y i
    show (ext y (i : ℕ) - mean i) / Real.sqrt (var i + ε) * Real.exp (w i) + b i = _
    rw [ext_fin]
  rw [e]
  have h := elementwise_logabsdet
    (fun (i : Fin n) (z : ℝ) => (z - mean i) / Real.sqrt (var i + ε) * Real.exp (w i) + b i)
    (fun i => Real.exp (w i) / Real.sqrt (var i + ε)) x
    (fun i => bn_backward_hasDerivAt _ _ _ _ _ _) (fun i => (bn_backward_slope (w i) (var i) ε (hv i)).1.ne')
  refine ⟨h.1, h.2.1, h.2.2.trans ?_⟩
  show _ = sumVar n (fun k => w k - 1 / 2 * Real.log (var k + ε))
  rw [sumVar_eq_sum]
  exact Finset.sum_congr rfl (fun i _ => (bn_backward_slope (w i) (var i) ε (hv i)).2)

/-- `BatchNormLayer1d.apply_forward`. -/
theorem bn1d_forward_ldj_is_logabsdet (ε : ℝ) (n : Nat) (w b mean var : Nat → ℝ) (hv : ∀ k, 0 < var k + ε)
    (u : Fin n → ℝ) :
    HasLogAbsDet (onFin n (bn1dForward realExpLog.exp realExpLog.log realExpLog.sqrt (1 / 2) ε n w b mean var)) u
      (bn1dForward realExpLog.exp realExpLog.log realExpLog.sqrt (1 / 2) ε n w b mean var (ext u)).2 := by
  have e : onFin n (bn1dForward realExpLog.exp realExpLog.log realExpLog.sqrt (1 / 2) ε n w b mean var)
      = fun y (i : Fin n) => (fun z : ℝ => (z - b i) * Real.exp (-(w i)) * Real.sqrt (var i + ε) + mean i) (y i) := by
    funext y i
    show (ext y (i : ℕ) - b i) * Real.exp (-(w i)) * Real.sqrt (var i + ε) + mean i = _
    rw [ext_fin]
  rw [e]
  have h := elementwise_logabsdet
    (fun (i : Fin n) (z : ℝ) => (z - b i) * Real.exp (-(w i)) * Real.sqrt (var i + ε) + mean i)
    (fun i => Real.exp (-(w i)) * Real.sqrt (var i + ε)) u
    (fun i => bn_forward_hasDerivAt _ _ _ _ _ _) (fun i => (bn_forward_slope (w i) (var i) ε (hv i)).1.ne')
  refine ⟨h.1, h.2.1, h.2.2.trans ?_⟩
  show _ = sumVar n (fun k => -(w k) + 1 / 2 * Real.log (var k + ε))
  rw [sumVar_eq_sum]
  exact Finset.sum_congr rfl (fun i _ => (bn_forward_slope (w i) (var i) ε (hv i)).2)

/-- `BatchNormLayer2d.apply_backward` on a `(C, H, W)` tensor, `grid = H·W`: per-channel parameters broadcast over
the grid; the reported value is `(Σ_c …)·grid_size`. -/
theorem bn2d_backward_ldj_is_logabsdet (ε : ℝ) (C grid : Nat) (w b mean var : Nat → ℝ) (hv : ∀ c, 0 < var c + ε)
    (x : Fin (C * grid) → ℝ) :
    HasLogAbsDet (onFin (C * grid)
      (bn2dBackward realExpLog.exp realExpLog.log realExpLog.sqrt (1 / 2) ε C grid (grid : ℝ) w b mean var)) x
      (bn2dBackward realExpLog.exp realExpLog.log realExpLog.sqrt (1 / 2) ε C grid (grid : ℝ) w b mean var
          (ext x)).2 := by
  have e : onFin (C * grid)
        (bn2dBackward realExpLog.exp realExpLog.log realExpLog.sqrt (1 / 2) ε C grid (grid : ℝ) w b mean var)
      = fun y (i : Fin (C * grid)) => (fun z : ℝ => (z - mean (i / grid)) / Real.sqrt (var (i / grid) + ε)
          * Real.exp (w (i / grid)) + b (i / grid)) (y i) := by
    funext y i
    show (ext y (i : ℕ) - mean (i / grid)) / Real.sqrt (var (i / grid) + ε) * Real.exp (w (i / grid))
      + b (i / grid) = _
    rw [ext_fin]
  rw [e]
  have h := elementwise_logabsdet
    (fun (i : Fin (C * grid)) (z : ℝ) => (z - mean (i / grid)) / Real.sqrt (var (i / grid) + ε)
          * Real.exp (w (i / grid)) + b (i / grid))
    (fun i => Real.exp (w (i / grid)) / Real.sqrt (var (i / grid) + ε)) x
    (fun i => bn_backward_hasDerivAt _ _ _ _ _ _) (fun i => (bn_backward_slope _ _ ε (hv _)).1.ne')
  refine ⟨h.1, h.2.1, h.2.2.trans ?_⟩
  show _ = sumVar C (fun c => w c - 1 / 2 * Real.log (var c + ε)) * (grid : ℝ)
  rw [← sumVar_div_grid, sumVar_eq_sum]
  exact Finset.sum_congr rfl (fun i _ => (bn_backward_slope _ _ ε (hv _)).2)

/-- `BatchNormLayer2d.apply_forward`. -/
theorem bn2d_forward_ldj_is_logabsdet (ε : ℝ) (C grid : Nat) (w b mean var : Nat → ℝ) (hv : ∀ c, 0 < var c + ε)
    (u : Fin (C * grid) → ℝ) :
    HasLogAbsDet (onFin (C * grid)
      (bn2dForward realExpLog.exp realExpLog.log realExpLog.sqrt (1 / 2) ε C grid (grid : ℝ) w b mean var)) u
      (bn2dForward realExpLog.exp realExpLog.log realExpLog.sqrt (1 / 2) ε C grid (grid : ℝ) w b mean var
          (ext u)).2 := by
  have e : onFin (C * grid)
        (bn2dForward realExpLog.exp realExpLog.log realExpLog.sqrt (1 / 2) ε C grid (grid : ℝ) w b mean var)
      = fun y (i : Fin (C * grid)) => (fun z : ℝ => (z - b (i / grid)) * Real.exp (-(w (i / grid)))
          * Real.sqrt (var (i / grid) + ε) + mean (i / grid)) (y i) := by
    funext y i
    show (ext y (i : ℕ) - b (i / grid)) * Real.exp (-(w (i / grid))) * Real.sqrt (var (i / grid) + ε)
      + mean (i / grid) = _
    rw [ext_fin]
  rw [e]
  have h := elementwise_logabsdet
    (fun (i : Fin (C * grid)) (z : ℝ) => (z - b (i / grid)) * Real.exp (-(w (i / grid)))
          * Real.sqrt (var (i / grid) + ε) + mean (i / grid))
    (fun i => Real.exp (-(w (i / grid))) * Real.sqrt (var (i / grid) + ε)) u
    (fun i => bn_forward_hasDerivAt _ _ _ _ _ _) (fun i => (bn_forward_slope _ _ ε (hv _)).1.ne')
  refine ⟨h.1, h.2.1, h.2.2.trans ?_⟩
  show _ = sumVar C (fun c => 1 / 2 * Real.log (var c + ε) - w c) * (grid : ℝ)
  rw [← sumVar_div_grid, sumVar_eq_sum]
  refine Finset.sum_congr rfl (fun i _ => ?_)
  rw [(bn_forward_slope _ _ ε (hv _)).2]; ring

/-- Non-vacuity: 2 channels × a 3-position grid, `eps = 1e-5`, running variance `c` for channel `c` (so channel 0
has variance 0 and only `eps` keeps the square root positive). -/
example (x : Fin (2 * 3) → ℝ) := bn2d_backward_ldj_is_logabsdet (1 / 100000) 2 3 (fun k => (k : ℝ)) (fun _ => 1)
  (fun k => 2 * k) (fun k => (k : ℝ)) (fun k => by positivity) x
example (x : Fin 3 → ℝ) := bn1d_backward_ldj_is_logabsdet (1 / 100000) 3 (fun k => (k : ℝ)) (fun _ => 1)
  (fun k => 2 * k) (fun k => (k : ℝ)) (fun k => by positivity) x
example (x : Fin 3 → ℝ) := bn1d_forward_ldj_is_logabsdet (1 / 100000) 3 (fun k => (k : ℝ)) (fun _ => 1)
  (fun k => 2 * k) (fun k => (k : ℝ)) (fun k => by positivity) x
example (x : Fin (2 * 3) → ℝ) := bn2d_forward_ldj_is_logabsdet (1 / 100000) 2 3 (fun k => (k : ℝ)) (fun _ => 1)
  (fun k => 2 * k) (fun k => (k : ℝ)) (fun k => by positivity) x

/-! ### 4.3 Affine coupling layers (`CouplingLayer1d`, non-channelwise `CouplingLayer2d`) -/

/-- The masked input `mask ⊙ x` handed to the conditioner. -/
def masked {n : Nat} (m : Nat → Bool) (y : Fin n → ℝ) : Nat → ℝ := fun k => maskVal m k * ext y k

theorem masked_update {n : Nat} (m : Nat → Bool) (x : Fin n → ℝ) (j : Fin n) (v : ℝ) (hj : m j = false) :
    masked m (Function.update x j v) = masked m x := by
  funext k
  unfold masked
  by_cases hk : k = (j : ℕ)
  · subst hk; simp [maskVal, hj]
  · rw [ext_update_ne x j v k hk]

theorem couplingBackward_coord {n : Nat} (m : Nat → Bool) (T S : (Nat → ℝ) → Nat → ℝ) (y : Fin n → ℝ) (i : Fin n) :
    onFin n (couplingBackward realExpLog.exp true n m T S) y i
      = (y i - invMaskVal m i * T (masked m y) i) * Real.exp (-(invMaskVal m i * S (masked m y) i)) := by
  show (ext y (i : ℕ) - invMaskVal m i * T (masked m y) i) * Real.exp (-(invMaskVal m i * S (masked m y) i)) = _
  rw [ext_fin]

theorem couplingForward_coord {n : Nat} (m : Nat → Bool) (T S : (Nat → ℝ) → Nat → ℝ) (y : Fin n → ℝ) (i : Fin n) :
    onFin n (couplingForward realExpLog.exp true n m T S) y i
      = y i * Real.exp (invMaskVal m i * S (masked m y) i) + invMaskVal m i * T (masked m y) i := by
  show ext y (i : ℕ) * Real.exp (invMaskVal m i * S (masked m y) i) + invMaskVal m i * T (masked m y) i = _
  rw [ext_fin]

/-- **Affine coupling, `apply_backward`.** For ANY mask and ANY conditioner heads `T`, `S` that are differentiable
(as functions of the masked input) at `x`: the layer is differentiable at `x` and the reported
`inv_log_det_jacobian = −Σ inv_maskₖ·S(mask ⊙ x)ₖ` is `log|det|` of its Fréchet derivative. The Jacobian is
triangular for the degrees `mask ↦ 0`, `inv_mask ↦ 1`; its diagonal is `exp(−sₖ)` by `affine_backward_hasDerivAt`. -/
theorem coupling_backward_ldj_is_logabsdet (n : Nat) (m : Nat → Bool) (T S : (Nat → ℝ) → Nat → ℝ)
    (x : Fin n → ℝ)
    (hT : ∀ i : Fin n, DifferentiableAt ℝ (fun y : Fin n → ℝ => T (masked m y) i) x)
    (hS : ∀ i : Fin n, DifferentiableAt ℝ (fun y : Fin n → ℝ => S (masked m y) i) x) :
    HasLogAbsDet (onFin n (couplingBackward realExpLog.exp true n m T S)) x
      (couplingBackward realExpLog.exp true n m T S (ext x)).2 := by
  have hdiff : DifferentiableAt ℝ (onFin n (couplingBackward realExpLog.exp true n m T S)) x := by
    rw [differentiableAt_pi]
    intro i
    have e : (fun y => onFin n (couplingBackward realExpLog.exp true n m T S) y i)
        = fun y : Fin n → ℝ => (y i - invMaskVal m i * T (masked m y) i)
            * Real.exp (-(invMaskVal m i * S (masked m y) i)) :=
      funext (fun y => couplingBackward_coord m T S y i)
    rw [e]
    exact ((differentiableAt_apply i x).sub ((hT i).const_mul _)).mul ((hS i).const_mul _).neg.exp
  have hval : (couplingBackward realExpLog.exp true n m T S (ext x)).2
      = ∑ i : Fin n, Real.log |Real.exp (-(invMaskVal m i * S (masked m x) i))| := by
    show -(sumVar n (fun k => invMaskVal m k * S (masked m x) k)) = _
    rw [sumVar_eq_sum, ← Finset.sum_neg_distrib]
    exact Finset.sum_congr rfl (fun i _ => by rw [abs_of_pos (Real.exp_pos _), Real.log_exp])
  rw [hval]
  refine triangular_logabsdet _ x hdiff (fun i => if m i then 0 else 1)
    (fun i => Real.exp (-(invMaskVal m i * S (masked m x) i))) ?_ ?_ (fun i => (Real.exp_pos _).ne')
  · intro i j hij hd v
    rw [couplingBackward_coord, couplingBackward_coord, Function.update_of_ne hij]
    cases hi : m i
    · have hj : m j = false := by
        cases hj : m j
        · rfl
        · simp [hi, hj] at hd
      rw [masked_update m x j v hj]
    · simp [invMaskVal, maskVal, hi]
  · intro i
    have e : (fun v : ℝ => onFin n (couplingBackward realExpLog.exp true n m T S) (Function.update x i v) i)
        = fun v : ℝ => (v - invMaskVal m i * T (masked m x) i)
            * Real.exp (-(invMaskVal m i * S (masked m x) i)) := by
      funext v
      rw [couplingBackward_coord, Function.update_self]
      cases hi : m i
      · rw [masked_update m x i v hi]
      · simp [invMaskVal, maskVal, hi]
    rw [e]
    exact affine_backward_hasDerivAt _ _ _

/-- **Affine coupling, `apply_forward`**: reported `log_det_jacobian = Σ inv_maskₖ·S(mask ⊙ u)ₖ`. -/
theorem coupling_forward_ldj_is_logabsdet (n : Nat) (m : Nat → Bool) (T S : (Nat → ℝ) → Nat → ℝ)
    (u : Fin n → ℝ)
    (hT : ∀ i : Fin n, DifferentiableAt ℝ (fun y : Fin n → ℝ => T (masked m y) i) u)
    (hS : ∀ i : Fin n, DifferentiableAt ℝ (fun y : Fin n → ℝ => S (masked m y) i) u) :
    HasLogAbsDet (onFin n (couplingForward realExpLog.exp true n m T S)) u
      (couplingForward realExpLog.exp true n m T S (ext u)).2 := by
  have hdiff : DifferentiableAt ℝ (onFin n (couplingForward realExpLog.exp true n m T S)) u := by
    rw [differentiableAt_pi]
    intro i
    have e : (fun y => onFin n (couplingForward realExpLog.exp true n m T S) y i)
        = fun y : Fin n → ℝ => y i * Real.exp (invMaskVal m i * S (masked m y) i)
            + invMaskVal m i * T (masked m y) i :=
      funext (fun y => couplingForward_coord m T S y i)
    rw [e]
    exact ((differentiableAt_apply i u).mul ((hS i).const_mul _).exp).add ((hT i).const_mul _)
  have hval : (couplingForward realExpLog.exp true n m T S (ext u)).2
      = ∑ i : Fin n, Real.log |Real.exp (invMaskVal m i * S (masked m u) i)| := by
    show sumVar n (fun k => invMaskVal m k * S (masked m u) k) = _
    rw [sumVar_eq_sum]
    exact Finset.sum_congr rfl (fun i _ => by rw [abs_of_pos (Real.exp_pos _), Real.log_exp])
  rw [hval]
  refine triangular_logabsdet _ u hdiff (fun i => if m i then 0 else 1)
    (fun i => Real.exp (invMaskVal m i * S (masked m u) i)) ?_ ?_ (fun i => (Real.exp_pos _).ne')
  · intro i j hij hd v
    rw [couplingForward_coord, couplingForward_coord, Function.update_of_ne hij]
    cases hi : m i
    · have hj : m j = false := by
        cases hj : m j
        · rfl
        · simp [hi, hj] at hd
      rw [masked_update m u j v hj]
    · simp [invMaskVal, maskVal, hi]
  · intro i
    have e : (fun v : ℝ => onFin n (couplingForward realExpLog.exp true n m T S) (Function.update u i v) i)
        = fun v : ℝ => v * Real.exp (invMaskVal m i * S (masked m u) i)
            + invMaskVal m i * T (masked m u) i := by
      funext v
      rw [couplingForward_coord, Function.update_self]
      cases hi : m i
      · rw [masked_update m u i v hi]
      · simp [invMaskVal, maskVal, hi]
    rw [e]
    exact affine_forward_hasDerivAt _ _ _

/-- Non-vacuity: alternating mask on 4 coordinates, conditioner heads `T(z)ₖ = z₀·z₂ + k`, `S(z)ₖ = z₀ − z₂²`
(smooth, genuinely non-linear, reading only what the mask lets through). -/
example (x : Fin 4 → ℝ) :
    Real.log |(fderiv ℝ (onFin 4 (couplingBackward realExpLog.exp true 4 (alternatingMask true)
        (fun z k => z 0 * z 2 + k) (fun z _ => z 0 - z 2 ^ 2))) x).det|
      = (couplingBackward realExpLog.exp true 4 (alternatingMask true)
        (fun z k => z 0 * z 2 + k) (fun z _ => z 0 - z 2 ^ 2) (ext x)).2 := by
  refine (coupling_backward_ldj_is_logabsdet 4 _ _ _ x (fun i => ?_) (fun i => ?_)).2.2
  · have e : (fun y : Fin 4 → ℝ => masked (alternatingMask true) y 0 * masked (alternatingMask true) y 2 + ((i : ℕ) : ℝ))
        = fun y : Fin 4 → ℝ => y 0 * y 2 + ((i : ℕ) : ℝ) := by
      funext y; simp [masked, maskVal, alternatingMask, ext]
    rw [e]; fun_prop
  · have e : (fun y : Fin 4 → ℝ => masked (alternatingMask true) y 0 - masked (alternatingMask true) y 2 ^ 2)
        = fun y : Fin 4 → ℝ => y 0 - y 2 ^ 2 := by
      funext y; simp [masked, maskVal, alternatingMask, ext]
    rw [e]; fun_prop

/-! ### 4.4 Autoregressive layer (MAF), density direction -/

/-- **`AutoregressiveLayer.apply_backward`.** For conditioner heads `t`, `s` that are autoregressive for the degree
assignment `deg` (what `masks_strictly_autoregressive` + `made_output_depends_only_on_smaller_degree` give for the
MADE network) and differentiable at `x`: the layer is differentiable at `x`, its Jacobian matrix has the
degree-triangular vanishing pattern with diagonal `exp(−sᵢ(x))`, and the reported `inv_log_det_jacobian = −Σ sᵢ(x)`
is `log|det|` of its Fréchet derivative. -/
theorem maf_backward_ldj_is_logabsdet (n : Nat) (deg : Nat → Nat) (t s : (Nat → ℝ) → Nat → ℝ)
    (ht : Autoregressive n deg t) (hs : Autoregressive n deg s) (x : Fin n → ℝ)
    (hdt : ∀ i : Fin n, DifferentiableAt ℝ (fun y : Fin n → ℝ => t (ext y) i) x)
    (hds : ∀ i : Fin n, DifferentiableAt ℝ (fun y : Fin n → ℝ => s (ext y) i) x) :
    HasLogAbsDet (onFin n (mafBackward realExpLog.exp n t s)) x (mafBackward realExpLog.exp n t s (ext x)).2 ∧
    (∀ i j : Fin n, i ≠ j → deg i ≤ deg j →
      jac (fderiv ℝ (onFin n (mafBackward realExpLog.exp n t s)) x) i j = 0) ∧
    (∀ i : Fin n, jac (fderiv ℝ (onFin n (mafBackward realExpLog.exp n t s)) x) i i = Real.exp (-(s (ext x) i))) := by
  have hcoord : ∀ (y : Fin n → ℝ) (i : Fin n), onFin n (mafBackward realExpLog.exp n t s) y i
      = (y i - t (ext y) i) * Real.exp (-(s (ext y) i)) := by
    intro y i
    show (ext y (i : ℕ) - t (ext y) i) * Real.exp (-(s (ext y) i)) = _
    rw [ext_fin]
  have hdiff : DifferentiableAt ℝ (onFin n (mafBackward realExpLog.exp n t s)) x := by
    rw [differentiableAt_pi]
    intro i
    have e : (fun y => onFin n (mafBackward realExpLog.exp n t s) y i)
        = fun y : Fin n → ℝ => (y i - t (ext y) i) * Real.exp (-(s (ext y) i)) := funext (fun y => hcoord y i)
    rw [e]
    exact ((differentiableAt_apply i x).sub (hdt i)).mul (hds i).neg.exp
  -- a head that is autoregressive does not see a change of coordinate `j` when `deg i ≤ deg j`
  have hind : ∀ (h : (Nat → ℝ) → Nat → ℝ), Autoregressive n deg h → ∀ (i j : Fin n), deg i ≤ deg j → ∀ v,
      h (ext (Function.update x j v)) i = h (ext x) i := by
    intro h hh i j hd v
    refine hh i i.2 _ _ (fun k _ hk => ext_update_ne x j v k ?_)
    rintro rfl
    omega
  have hdep : ∀ i j : Fin n, i ≠ j → deg i ≤ deg j → ∀ v,
      onFin n (mafBackward realExpLog.exp n t s) (Function.update x j v) i
        = onFin n (mafBackward realExpLog.exp n t s) x i := by
    intro i j hij hd v
    rw [hcoord, hcoord, Function.update_of_ne hij, hind t ht i j hd v, hind s hs i j hd v]
  have hdiag : ∀ i : Fin n, HasDerivAt
      (fun v : ℝ => onFin n (mafBackward realExpLog.exp n t s) (Function.update x i v) i)
      (Real.exp (-(s (ext x) i))) (x i) := by
    intro i
    have e : (fun v : ℝ => onFin n (mafBackward realExpLog.exp n t s) (Function.update x i v) i)
        = fun v : ℝ => (v - t (ext x) i) * Real.exp (-(s (ext x) i)) := by
      funext v
      rw [hcoord, Function.update_self, hind t ht i i le_rfl v, hind s hs i i le_rfl v]
    rw [e]
    exact affine_backward_hasDerivAt _ _ _
  have htri := triangular_fderiv_det _ _ x hdiff.hasFDerivAt (fun i : Fin n => deg i)
    (fun i => Real.exp (-(s (ext x) i))) hdep hdiag
  refine ⟨⟨hdiff, ?_, ?_⟩, htri.1, htri.2.1⟩
  · rw [htri.2.2.2]; exact Finset.prod_ne_zero_iff.2 (fun i _ => (Real.exp_pos _).ne')
  rw [htri.2.2.2, log_abs_prod _ (fun i => (Real.exp_pos _).ne')]
  show _ = -(sumVar n (s (ext x)))
  rw [sumVar_eq_sum, ← Finset.sum_neg_distrib]
  exact Finset.sum_congr rfl (fun i _ => by rw [abs_of_pos (Real.exp_pos _), Real.log_exp])

/-- Non-vacuity: the two-feature conditioner of `Lemmas/FlowsExamples.lean` (ordering `[1, 0]`: head 0 reads `x₁`,
`t₀ = 3x₁ + 1`, `s₀ = x₁²`), at every point of `ℝ²`. -/
example (x : Fin 2 → ℝ) :
    Real.log |(fderiv ℝ (onFin 2 (mafBackward realExpLog.exp 2 exT exS)) x).det|
      = (mafBackward realExpLog.exp 2 exT exS (ext x)).2 := by
  refine (maf_backward_ldj_is_logabsdet 2 _ exT exS exT_ar exS_ar x (fun i => ?_) (fun i => ?_)).1.2.2
  · fin_cases i
    · have e : (fun y : Fin 2 → ℝ => exT (ext y) ((0 : Fin 2) : ℕ)) = fun y => 3 * y 1 + 1 := by
        funext y; simp [exT, ext]
      exact (show DifferentiableAt ℝ (fun y : Fin 2 → ℝ => exT (ext y) ((0 : Fin 2) : ℕ)) x by rw [e]; fun_prop)
    · have e : (fun y : Fin 2 → ℝ => exT (ext y) ((1 : Fin 2) : ℕ)) = fun _ => 2 := by
        funext y; simp [exT]
      exact (show DifferentiableAt ℝ (fun y : Fin 2 → ℝ => exT (ext y) ((1 : Fin 2) : ℕ)) x by rw [e]; fun_prop)
  · fin_cases i
    · have e : (fun y : Fin 2 → ℝ => exS (ext y) ((0 : Fin 2) : ℕ)) = fun y => y 1 * y 1 := by
        funext y; simp [exS, ext]
      exact (show DifferentiableAt ℝ (fun y : Fin 2 → ℝ => exS (ext y) ((0 : Fin 2) : ℕ)) x by rw [e]; fun_prop)
    · have e : (fun y : Fin 2 → ℝ => exS (ext y) ((1 : Fin 2) : ℕ)) = fun _ => -1 := by
        funext y; simp [exS]
      exact (show DifferentiableAt ℝ (fun y : Fin 2 → ℝ => exS (ext y) ((1 : Fin 2) : ℕ)) x by rw [e]; fun_prop)

/-! ### 4.5 Autoregressive layer (MAF), sampling direction: the sequential loop of `apply_forward` -/

/-- Read the first `n` coordinates of a model vector back. -/
def res (n : Nat) (z : Nat → ℝ) : Fin n → ℝ := fun j => z j

/-- An autoregressive head only reads the first `n` coordinates. -/
theorem head_reads_first_n {n : Nat} {deg : Nat → Nat} {h : (Nat → ℝ) → Nat → ℝ} (hh : Autoregressive n deg h)
    (z : Nat → ℝ) (i : Nat) (hi : i < n) : h (ext (res n z)) i = h z i :=
  hh i hi _ _ (fun j hj _ => by simp [ext, res, hj])

/-- Every iterate of the loop `for i in self.inv_ordering:` is a differentiable function of `u` (coordinate by
coordinate), for conditioner heads that are differentiable everywhere. -/
theorem mafLoop_differentiable (n : Nat) (deg : Nat → Nat) (t s : (Nat → ℝ) → Nat → ℝ)
    (ht : Autoregressive n deg t) (hs : Autoregressive n deg s)
    (hdt : ∀ i : Fin n, Differentiable ℝ (fun y : Fin n → ℝ => t (ext y) i))
    (hds : ∀ i : Fin n, Differentiable ℝ (fun y : Fin n → ℝ => s (ext y) i)) :
    ∀ (order : List Nat), (∀ i ∈ order, i < n) → ∀ (X L : (Fin n → ℝ) → Nat → ℝ),
      (∀ j, Differentiable ℝ (fun u => X u j)) → (∀ j, Differentiable ℝ (fun u => L u j)) →
      (∀ j, Differentiable ℝ (fun u => (mafLoop Real.exp t s (ext u) order (X u, L u)).1 j)) ∧
      (∀ j, Differentiable ℝ (fun u => (mafLoop Real.exp t s (ext u) order (X u, L u)).2 j)) := by
  intro order
  induction order with
  | nil => intro _ X L hX hL; exact ⟨hX, hL⟩
  | cons i rest ih =>
    intro hmem X L hX hL
    have hi : i < n := hmem i List.mem_cons_self
    have hres : Differentiable ℝ (fun u => res n (X u)) := differentiable_pi.2 (fun j => hX j)
    have hsd : Differentiable ℝ (fun u => s (X u) i) := by
      have e : (fun u => s (X u) i) = (fun y : Fin n → ℝ => s (ext y) (⟨i, hi⟩ : Fin n)) ∘ fun u => res n (X u) :=
        funext (fun u => (head_reads_first_n hs (X u) i hi).symm)
      rw [e]; exact (hds ⟨i, hi⟩).comp hres
    have htd : Differentiable ℝ (fun u => t (X u) i) := by
      have e : (fun u => t (X u) i) = (fun y : Fin n → ℝ => t (ext y) (⟨i, hi⟩ : Fin n)) ∘ fun u => res n (X u) :=
        funext (fun u => (head_reads_first_n ht (X u) i hi).symm)
      rw [e]; exact (hdt ⟨i, hi⟩).comp hres
    have hu : Differentiable ℝ (fun u : Fin n → ℝ => ext u i) := by
      have e : (fun u : Fin n → ℝ => ext u i) = fun u => u ⟨i, hi⟩ := funext (fun u => ext_fin u ⟨i, hi⟩)
      rw [e]; exact differentiable_apply _
    refine ih (fun k hk => hmem k (List.mem_cons_of_mem _ hk))
      (fun u => upd (X u) i (ext u i * Real.exp (s (X u) i) + t (X u) i)) (fun u => upd (L u) i (s (X u) i)) ?_ ?_
    · intro j
      by_cases hj : j = i
      · simp only [upd, hj, if_true]
        exact (hu.mul hsd.exp).add htd
      · simp only [upd, hj, if_false]
        exact hX j
    · intro j
      by_cases hj : j = i
      · simp only [upd, hj, if_true]; exact hsd
      · simp only [upd, hj, if_false]; exact hL j

/-- **`AutoregressiveLayer.apply_forward`** (the `D`-step loop, network re-evaluated at every step). For heads that
are autoregressive for `ordering` and differentiable everywhere, the map computed by the loop is differentiable, and
the reported `log_det_jacobian` (the `s` values collected along the iterates and summed) is `log|det|` of its
Fréchet derivative — by the chain rule through `apply_backward ∘ apply_forward = id` and
`maf_backward_ldj_is_logabsdet`. -/
theorem maf_forward_ldj_is_logabsdet (ordering : List Nat) (n : Nat) (hp : ordering.Perm (List.range n))
    (t s : (Nat → ℝ) → Nat → ℝ)
    (ht : Autoregressive n (fun j => ordering.getD j 0) t)
    (hs : Autoregressive n (fun j => ordering.getD j 0) s)
    (hdt : ∀ i : Fin n, Differentiable ℝ (fun y : Fin n → ℝ => t (ext y) i))
    (hds : ∀ i : Fin n, Differentiable ℝ (fun y : Fin n → ℝ => s (ext y) i)) (u : Fin n → ℝ) :
    HasLogAbsDet (onFin n (mafForward realExpLog.exp n (invOrdering ordering) t s)) u
      (mafForward realExpLog.exp n (invOrdering ordering) t s (ext u)).2 := by
  set Fw := onFin n (mafForward realExpLog.exp n (invOrdering ordering) t s) with hFw
  set Bw := onFin n (mafBackward realExpLog.exp n t s) with hBw
  have hmem : ∀ i ∈ invOrdering ordering, i < n := fun i hi => ((invOrdering_props ordering n hp).2.1 i).1 hi
  -- (a) the loop is differentiable
  have hFd : Differentiable ℝ Fw := by
    rw [differentiable_pi]
    intro i
    exact (mafLoop_differentiable n _ t s ht hs hdt hds (invOrdering ordering) hmem
      (fun _ _ => 0) (fun _ _ => 0) (fun _ => differentiable_const _) (fun _ => differentiable_const _)).1 i
  -- (b) backward after forward is the identity of ℝⁿ
  have hBF : ∀ u', Bw (Fw u') = u' := by
    intro u'
    funext i
    have hz : ext (Fw u') = ext (res n (mafForward realExpLog.exp n (invOrdering ordering) t s (ext u')).1) := rfl
    show (ext (Fw u') (i : ℕ) - t (ext (Fw u')) i) * Real.exp (-(s (ext (Fw u')) i)) = _
    rw [hz, head_reads_first_n ht _ i i.2, head_reads_first_n hs _ i i.2, ext_fin]
    have := maf_backward_forward realExpLog ordering n hp t s ht hs (ext u') i i.2
    rw [ext_fin] at this
    exact this
  -- (c) chain rule
  obtain ⟨⟨hBd, -, hBlog⟩, -, -⟩ :=
    maf_backward_ldj_is_logabsdet n _ t s ht hs (Fw u) (fun i => hdt i _) (fun i => hds i _)
  have hcomp : HasFDerivAt (fun u' => Bw (Fw u')) ((fderiv ℝ Bw (Fw u)).comp (fderiv ℝ Fw u)) u :=
    hBd.hasFDerivAt.comp u (hFd u).hasFDerivAt
  have hid : (fderiv ℝ Bw (Fw u)).comp (fderiv ℝ Fw u) = ContinuousLinearMap.id ℝ (Fin n → ℝ) := by
    have e : (fun u' => Bw (Fw u')) = id := funext hBF
    rw [e] at hcomp
    exact hcomp.unique (hasFDerivAt_id u)
  have hdet : (fderiv ℝ Bw (Fw u)).det * (fderiv ℝ Fw u).det = 1 := by
    have := congrArg ContinuousLinearMap.det hid
    rw [ContinuousLinearMap.det, ContinuousLinearMap.toLinearMap_comp, LinearMap.det_comp] at this
    rw [this]
    show LinearMap.det (LinearMap.id : (Fin n → ℝ) →ₗ[ℝ] (Fin n → ℝ)) = 1
    exact LinearMap.det_id
  have hB0 : (fderiv ℝ Bw (Fw u)).det ≠ 0 := left_ne_zero_of_mul_eq_one hdet
  have hF0 : (fderiv ℝ Fw u).det ≠ 0 := right_ne_zero_of_mul_eq_one hdet
  have hlog : Real.log |(fderiv ℝ Bw (Fw u)).det| + Real.log |(fderiv ℝ Fw u).det| = 0 := by
    rw [← Real.log_mul (abs_ne_zero.2 hB0) (abs_ne_zero.2 hF0), ← abs_mul, hdet, abs_one, Real.log_one]
  refine ⟨hFd u, hF0, ?_⟩
  have h1 : Real.log |(fderiv ℝ Fw u).det| = sumVar n (s (ext (Fw u))) := by
    have : (mafBackward realExpLog.exp n t s (ext (Fw u))).2 = -(sumVar n (s (ext (Fw u)))) := rfl
    rw [this] at hBlog
    linarith
  rw [h1, (maf_forward_fixpoint realExpLog ordering n hp t s ht hs (ext u)).2]
  apply sumVar_congr'
  intro k hk
  exact head_reads_first_n hs _ k hk

/-- Non-vacuity: the loop of the two-feature example, at every latent point. -/
example (u : Fin 2 → ℝ) :
    Real.log |(fderiv ℝ (onFin 2 (mafForward realExpLog.exp 2 (invOrdering [1, 0]) exT exS)) u).det|
      = (mafForward realExpLog.exp 2 (invOrdering [1, 0]) exT exS (ext u)).2 := by
  refine (maf_forward_ldj_is_logabsdet [1, 0] 2 (by decide) exT exS exT_ar exS_ar (fun i => ?_) (fun i => ?_) u).2.2
  · fin_cases i
    · have e : (fun y : Fin 2 → ℝ => exT (ext y) ((0 : Fin 2) : ℕ)) = fun y => 3 * y 1 + 1 := by
        funext y; simp [exT, ext]
      exact (show Differentiable ℝ (fun y : Fin 2 → ℝ => exT (ext y) ((0 : Fin 2) : ℕ)) by rw [e]; fun_prop)
    · have e : (fun y : Fin 2 → ℝ => exT (ext y) ((1 : Fin 2) : ℕ)) = fun _ => 2 := by
        funext y; simp [exT]
      exact (show Differentiable ℝ (fun y : Fin 2 → ℝ => exT (ext y) ((1 : Fin 2) : ℕ)) by rw [e]; fun_prop)
  · fin_cases i
    · have e : (fun y : Fin 2 → ℝ => exS (ext y) ((0 : Fin 2) : ℕ)) = fun y => y 1 * y 1 := by
        funext y; simp [exS, ext]
      exact (show Differentiable ℝ (fun y : Fin 2 → ℝ => exS (ext y) ((0 : Fin 2) : ℕ)) by rw [e]; fun_prop)
    · have e : (fun y : Fin 2 → ℝ => exS (ext y) ((1 : Fin 2) : ℕ)) = fun _ => -1 := by
        funext y; simp [exS]
      exact (show Differentiable ℝ (fun y : Fin 2 → ℝ => exS (ext y) ((1 : Fin 2) : ℕ)) by rw [e]; fun_prop)

/-! ### 4.6 Additive couplings, index permutations, composition -/

/-- **Additive coupling** (`affine = False`), both directions: slope `1` on every coordinate, reported log-det `0`. -/
theorem coupling_additive_ldj_is_logabsdet (n : Nat) (m : Nat → Bool) (T S : (Nat → ℝ) → Nat → ℝ)
    (x : Fin n → ℝ)
    (hT : ∀ i : Fin n, DifferentiableAt ℝ (fun y : Fin n → ℝ => T (masked m y) i) x) :
    HasLogAbsDet (onFin n (couplingBackward realExpLog.exp false n m T S)) x
      (couplingBackward realExpLog.exp false n m T S (ext x)).2 ∧
    HasLogAbsDet (onFin n (couplingForward realExpLog.exp false n m T S)) x
      (couplingForward realExpLog.exp false n m T S (ext x)).2 := by
  have hB : ∀ (y : Fin n → ℝ) (i : Fin n), onFin n (couplingBackward realExpLog.exp false n m T S) y i
      = y i - invMaskVal m i * T (masked m y) i := by
    intro y i
    show ext y (i : ℕ) - invMaskVal m i * T (masked m y) i = _
    rw [ext_fin]
  have hF : ∀ (y : Fin n → ℝ) (i : Fin n), onFin n (couplingForward realExpLog.exp false n m T S) y i
      = y i + invMaskVal m i * T (masked m y) i := by
    intro y i
    show ext y (i : ℕ) + invMaskVal m i * T (masked m y) i = _
    rw [ext_fin]
  have hz : (0 : ℝ) = ∑ _i : Fin n, Real.log |(1 : ℝ)| := by simp
  have hmj : ∀ i j : Fin n, (if m i then 0 else 1) ≤ (if m j then 0 else 1) → m i = false → m j = false := by
    intro i j hd hi
    cases hj : m j
    · rfl
    · simp [hi, hj] at hd
  constructor
  · have hdiff : DifferentiableAt ℝ (onFin n (couplingBackward realExpLog.exp false n m T S)) x := by
      rw [differentiableAt_pi]
      intro i
      rw [show (fun y => onFin n (couplingBackward realExpLog.exp false n m T S) y i)
        = fun y : Fin n → ℝ => y i - invMaskVal m i * T (masked m y) i from funext (fun y => hB y i)]
      exact (differentiableAt_apply i x).sub ((hT i).const_mul _)
    show HasLogAbsDet _ x (0 : ℝ)
    rw [hz]
    refine triangular_logabsdet _ x hdiff (fun i => if m i then 0 else 1) (fun _ => 1) ?_ ?_ (fun _ => one_ne_zero)
    · intro i j hij hd v
      rw [hB, hB, Function.update_of_ne hij]
      cases hi : m i
      · rw [masked_update m x j v (hmj i j hd hi)]
      · simp [invMaskVal, maskVal, hi]
    · intro i
      have e : (fun v : ℝ => onFin n (couplingBackward realExpLog.exp false n m T S) (Function.update x i v) i)
          = fun v : ℝ => v - invMaskVal m i * T (masked m x) i := by
        funext v
        rw [hB, Function.update_self]
        cases hi : m i
        · rw [masked_update m x i v hi]
        · simp [invMaskVal, maskVal, hi]
      rw [e]
      exact (additive_hasDerivAt _ _).2
  · have hdiff : DifferentiableAt ℝ (onFin n (couplingForward realExpLog.exp false n m T S)) x := by
      rw [differentiableAt_pi]
      intro i
      rw [show (fun y => onFin n (couplingForward realExpLog.exp false n m T S) y i)
        = fun y : Fin n → ℝ => y i + invMaskVal m i * T (masked m y) i from funext (fun y => hF y i)]
      exact (differentiableAt_apply i x).add ((hT i).const_mul _)
    show HasLogAbsDet _ x (0 : ℝ)
    rw [hz]
    refine triangular_logabsdet _ x hdiff (fun i => if m i then 0 else 1) (fun _ => 1) ?_ ?_ (fun _ => one_ne_zero)
    · intro i j hij hd v
      rw [hF, hF, Function.update_of_ne hij]
      cases hi : m i
      · rw [masked_update m x j v (hmj i j hd hi)]
      · simp [invMaskVal, maskVal, hi]
    · intro i
      have e : (fun v : ℝ => onFin n (couplingForward realExpLog.exp false n m T S) (Function.update x i v) i)
          = fun v : ℝ => v + invMaskVal m i * T (masked m x) i := by
        funext v
        rw [hF, Function.update_self]
        cases hi : m i
        · rw [masked_update m x i v hi]
        · simp [invMaskVal, maskVal, hi]
      rw [e]
      exact (additive_hasDerivAt _ _).1

example (x : Fin 4 → ℝ) := coupling_additive_ldj_is_logabsdet 4 (fun _ => true) (fun _ _ => 0) (fun _ _ => 0) x
  (fun _ => differentiableAt_const _)

/-- **Index permutations** (squeeze / un-squeeze, the down/up-scaling convolutions with a permutation matrix, the
`chunk`/`cat` bookkeeping — every layer that only moves entries around and reports `0`): the gather `y ↦ y ∘ σ` for a
permutation `σ` of the flat indices is linear, its Jacobian is the permutation matrix, `|det| = 1`, `log|det| = 0`. -/
theorem permutation_ldj_is_logabsdet {n : Nat} (σ : Equiv.Perm (Fin n)) (x : Fin n → ℝ) :
    HasLogAbsDet (fun y : Fin n → ℝ => y ∘ σ) x 0 := by
  have hfun : (fun y : Fin n → ℝ => y ∘ σ) = matCLM (σ.permMatrix ℝ) := by
    funext y
    rw [matCLM_apply, Matrix.permMatrix_mulVec]
  have hd : HasFDerivAt (fun y : Fin n → ℝ => y ∘ σ) (matCLM (σ.permMatrix ℝ)) x := by
    rw [hfun]; exact (matCLM (σ.permMatrix ℝ)).hasFDerivAt
  have hdet : |(matCLM (σ.permMatrix ℝ)).det| = 1 := by
    rw [matCLM_det, Matrix.det_permutation]
    rcases Int.units_eq_one_or (Equiv.Perm.sign σ) with h | h <;> simp [h]
  refine ⟨hd.differentiableAt, ?_, ?_⟩
  · rw [hd.fderiv]; intro h0; rw [h0, abs_zero] at hdet; exact zero_ne_one hdet
  · rw [hd.fderiv, hdet, Real.log_one]

/-- Non-vacuity: the transposition of the first two of three entries. -/
example (x : Fin 3 → ℝ) := permutation_ldj_is_logabsdet (Equiv.swap (0 : Fin 3) 1) x

/-- **Composition** (`NormalizingFlow.apply_backward / apply_forward` accumulate the layers' log-dets): the chain
rule. If `F` reports `a` at `x` and `G` reports `b` at `F x`, then `G ∘ F` is differentiable at `x` with invertible
derivative and `log|det (G ∘ F)'(x)| = a + b`. -/
theorem compose_ldj_is_logabsdet {n : Nat} (F G : (Fin n → ℝ) → (Fin n → ℝ)) (x : Fin n → ℝ) (a b : ℝ)
    (hF : HasLogAbsDet F x a) (hG : HasLogAbsDet G (F x) b) : HasLogAbsDet (G ∘ F) x (a + b) := by
  obtain ⟨hFd, hF0, hFa⟩ := hF
  obtain ⟨hGd, hG0, hGb⟩ := hG
  have hdet : (fderiv ℝ (G ∘ F) x).det = (fderiv ℝ G (F x)).det * (fderiv ℝ F x).det := by
    rw [fderiv_comp x hGd hFd, ContinuousLinearMap.det, ContinuousLinearMap.toLinearMap_comp, LinearMap.det_comp]
  refine ⟨hGd.comp x hFd, ?_, ?_⟩
  · rw [hdet]; exact mul_ne_zero hG0 hF0
  · rw [hdet, abs_mul, Real.log_mul (abs_ne_zero.2 hG0) (abs_ne_zero.2 hF0), hFa, hGb, add_comm]

/-- Non-vacuity: logit pre-processing followed by an evaluation-mode batch normalisation on three coordinates; the
accumulated log-det is the sum of the two reported values. -/
example : HasLogAbsDet
    (onFin 3 (bn1dBackward realExpLog.exp realExpLog.log realExpLog.sqrt (1 / 2) (1 / 100000) 3
        (fun k => (k : ℝ)) (fun _ => 1) (fun k => 2 * k) (fun k => (k : ℝ)))
      ∘ onFin 3 (logitBackward realExpLog.log (1 / 20) ((3 : ℕ) : ℝ) 3))
    ![3 / 10, 1 / 2, 9 / 10]
    ((logitBackward realExpLog.log (1 / 20) ((3 : ℕ) : ℝ) 3 (ext ![3 / 10, 1 / 2, 9 / 10])).2
      + (bn1dBackward realExpLog.exp realExpLog.log realExpLog.sqrt (1 / 2) (1 / 100000) 3
          (fun k => (k : ℝ)) (fun _ => 1) (fun k => 2 * k) (fun k => (k : ℝ))
          (ext (onFin 3 (logitBackward realExpLog.log (1 / 20) ((3 : ℕ) : ℝ) 3) ![3 / 10, 1 / 2, 9 / 10]))).2) :=
  compose_ldj_is_logabsdet _ _ _ _ _
    (logit_backward_ldj_is_logabsdet (1 / 20) 3 (by norm_num) _
      (fun i => by fin_cases i <;> constructor <;> norm_num))
    (bn1d_backward_ldj_is_logabsdet (1 / 100000) 3 _ _ _ _ (fun k => by positivity) _)

end Deeprob.Flows.Calc
