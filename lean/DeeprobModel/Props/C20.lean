import DeeprobModel.Lemmas.PosteriorLemmas
import DeeprobModel.Spec.RealExpLog
import Mathlib.Algebra.Order.Field.Basic
import Mathlib.Algebra.Order.Field.Rat
import Mathlib.Tactic.Ring
import Mathlib.Tactic.Linarith
import Mathlib.Tactic.FieldSimp
import Mathlib.Tactic.NormNum
set_option linter.unusedSimpArgs false
set_option linter.unusedVariables false
set_option linter.unusedSectionVars false
/-
C20 — the scikit-learn facade (`SPNClassifier`) agrees with the wrapped circuit.
-/
namespace Deeprob.C20
open Deeprob

section field
variable {F : Type} [Field F]

/-- **posterior_rows_normalised**: every row of `predict_proba` sums to one (whenever the row has positive —
indeed non-zero — evidence `Σ_j w_j L_j(x_r)`), any number of classes. -/
theorem posterior_rows_normalised (w : List F) (L : List (List F)) (r : Nat) (h : evidenceOf w L r ≠ 0) :
    tsum (posteriorRow w L r) = 1 := by
  unfold posteriorRow
  rw [tsum_map_div]
  unfold classScores
  rw [tsum_zipWith_mul]
  exact div_self h

/-- **posterior_def**: entry `[r, k]` is `w_k · L_k(x_r) / Σ_j w_j · L_j(x_r)` -/
theorem posterior_def (w : List F) (L : List (List F)) (r k : Nat) (hw : k < w.length) (hL : k < L.length) :
    posterior w L r k = w[k] * (L[k]).getD r 0 / evidenceOf w L r := by
  unfold posterior posteriorRow classScores colOf
  rw [List.getD_eq_getElem?_getD, List.getElem?_map, List.getElem?_zipWith]
  simp [hw, hL]

end field

section ordered
variable {F : Type} [Field F] [LinearOrder F] [IsStrictOrderedRing F]

/-- **softmax_is_posterior**: with positive priors and positive class likelihoods, `exp` of the
log-soft-max over classes of `log w_k + log L_k(x_r)` — what the repaired `predict_log_proba` /
`predict_proba` compute — is the posterior row of the model. For every field with `exp`/`log` obeying the
`ExpLog` laws. -/
theorem softmax_is_posterior (E : ExpLog F) (w : List F) (L : List (List F)) (r : Nat)
    (hw : ∀ x ∈ w, 0 < x) (hl : ∀ x ∈ colOf L r, 0 < x) :
    (logSoftmax E (classLL E w ((colOf L r).map E.log))).map E.exp = posteriorRow w L r := by
  rw [exp_logSoftmax, classLL_exp E w _ hw hl]
  unfold posteriorRow classScores evidenceOf
  rw [tsum_zipWith_mul]

/-! #### arg-max -/

/-- **predict_is_argmax** (linear domain): the arg-max of row `r` of `predict_proba` is the arg-max of
`w_k·L_k(x_r)`, i.e. the root branch `sum_mpe` selects in `predict` (`mpe` with the label missing) —
same tie-breaking (first maximal index). -/
theorem predict_is_argmax (w : List F) (L : List (List F)) (r : Nat) (h : 0 < evidenceOf w L r) :
    predictFromProba w L r = predictBranch w L r := by
  unfold predictFromProba predictBranch posteriorRow
  apply argmaxL_map
  intro a b
  exact (div_lt_div_iff_of_pos_right h).symm

/-- **predict_is_argmax** (log domain, as coded): `np.argmax(lls + log w)` at the root equals the arg-max of
the posterior row; needs `exp` strictly increasing (`ExpLogMono`). -/
theorem predict_is_argmax_log (E : ExpLogMono F) (w : List F) (L : List (List F)) (r : Nat)
    (hw : ∀ x ∈ w, 0 < x) (hl : ∀ x ∈ colOf L r, 0 < x) (h : 0 < evidenceOf w L r) :
    argmaxL (classLL E.toExpLog w ((colOf L r).map E.log)) = predictFromProba w L r := by
  rw [predict_is_argmax w L r h]
  unfold predictBranch classScores
  rw [← classLL_exp E.toExpLog w _ hw hl]
  exact (argmaxL_map E.exp (exp_lt_iff E) _).symm

end ordered

/-! ### non-vacuity and the F13 witness: 2 classes, 2 rows, w = (1/4, 3/4), L_0 = (1/2, 1/2), L_1 = (1/8, 7/8) -/

def exW : List ℚ := [1/4, 3/4]
def exL : List (List ℚ) := [[1/2, 1/2], [1/8, 7/8]]

example : evidenceOf exW exL 0 ≠ 0 ∧ tsum (posteriorRow exW exL 0) = 1 := by
  have h : evidenceOf exW exL 0 ≠ 0 := by norm_num [evidenceOf, exW, exL, colOf, wsum]
  exact ⟨h, posterior_rows_normalised exW exL 0 h⟩

example : posteriorTable exW exL 2 = [[4/7, 3/7], [4/25, 21/25]] := by
  norm_num [posteriorTable, posteriorRow, classScores, evidenceOf, exW, exL, colOf, wsum, List.range_succ]

example : posterior exW exL 1 1 = (3/4) * (7/8) / evidenceOf exW exL 1 :=
  posterior_def exW exL 1 1 (by simp [exW]) (by simp [exL])

example : predictFromProba exW exL 0 = predictBranch exW exL 0 ∧ predictBranch exW exL 0 = 0
    ∧ predictBranch exW exL 1 = 1 := by
  refine ⟨predict_is_argmax exW exL 0 (by norm_num [evidenceOf, exW, exL, colOf, wsum]), ?_, ?_⟩ <;>
    · simp only [predictBranch, classScores, exW, exL, colOf, List.map, List.getD, List.zipWith]
      norm_num [argmaxL, postArgmaxAux]

/-! the log-domain statements instantiated at ℝ with the usual `exp` / `log` (all `ExpLog` laws hold there) -/

noncomputable def exWR : List ℝ := [1/4, 3/4]
noncomputable def exLR : List (List ℝ) := [[1/2, 1/2], [1/8, 7/8]]

theorem exWR_pos : ∀ x ∈ exWR, 0 < x := by
  intro x hx; simp [exWR] at hx; rcases hx with rfl | rfl <;> norm_num

theorem exLR_pos (r : Nat) (hr : r < 2) : ∀ x ∈ colOf exLR r, 0 < x := by
  intro x hx
  rcases r with _ | _ | r
  · simp [exLR, colOf] at hx; rcases hx with rfl | rfl <;> norm_num
  · simp [exLR, colOf] at hx; rcases hx with rfl | rfl <;> norm_num
  · omega

example : (logSoftmax realExpLog (classLL realExpLog exWR ((colOf exLR 0).map realExpLog.log))).map realExpLog.exp
    = posteriorRow exWR exLR 0 :=
  softmax_is_posterior realExpLog exWR exLR 0 exWR_pos (exLR_pos 0 (by norm_num))

example : argmaxL (classLL realExpLog exWR ((colOf exLR 1).map realExpLogMono.log)) = predictFromProba exWR exLR 1 :=
  predict_is_argmax_log realExpLogMono exWR exLR 1 exWR_pos (exLR_pos 1 (by norm_num))
    (by norm_num [evidenceOf, exWR, exLR, colOf, wsum])

/-- **old_predict_proba_wrong** (F13): on the pinned tree the 2×2 table is normalised along the data rows
of the class-major table. What comes back is `[[1/4, 3/4], [1/22, 21/22]]`: the class probabilities it holds
for data row 0 (`[k][0]`, k = 0, 1) sum to 13/44, not to one, and the table is not the posterior table
`[[4/7, 3/7], [4/25, 21/25]]` under either reading of its axes. -/
theorem old_predict_proba_wrong :
    pinnedTable exW exL = [[1/4, 3/4], [1/22, 21/22]] ∧
    (1/4 : ℚ) + 1/22 ≠ 1 ∧
    pinnedTable exW exL ≠ posteriorTable exW exL 2 ∧
    pinnedTable exW exL ≠ [[4/7, 4/25], [3/7, 21/25]] := by
  have h1 : pinnedTable exW exL = [[1/4, 3/4], [1/22, 21/22]] := by
    norm_num [pinnedTable, exW, exL, wsum]
  have h2 : posteriorTable exW exL 2 = [[4/7, 3/7], [4/25, 21/25]] := by
    norm_num [posteriorTable, posteriorRow, classScores, evidenceOf, exW, exL, colOf, wsum, List.range_succ]
  refine ⟨h1, by norm_num, ?_, ?_⟩
  · rw [h1, h2]; norm_num
  · rw [h1]; norm_num

end Deeprob.C20
