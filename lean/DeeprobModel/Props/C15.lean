import DeeprobModel.Lemmas.FlowsLemmas
import DeeprobModel.Lemmas.FlowsDet
import DeeprobModel.Spec.FlowRealInst
import DeeprobModel.Lemmas.FlowsExamples
/-
Property C15 — normalizing flows are bijections with exact log-determinants.

Model: `Model/Flows.lean` (mirrors /repo/deeprob/flows/**, cited there). Conditioner networks are
uninterpreted functions; `exp/log/sqrt/sigmoid` enter through `ExpLog F` / `ExpLogSig F` only.
Vectors / tensors are functions `Nat → F` on the flat index.

Scope notes (also in the doc comments of the theorems concerned):
* Derivatives are not formalised. The `*_is_logdet` theorems are statements about *any* matrix with
  the stated diagonal and vanishing pattern; that the Jacobian of the layer has this pattern is the
  dependency structure proved here plus the scalar derivative `∂(x·eˢ + t)/∂x = eˢ` (DESIGN §4 item 6).
* `DequantizeLayer` is not a bijection (it adds `torch.rand_like` noise / floors): only the logit part
  of the preprocessing is covered.
-/
open Matrix

namespace Deeprob.Flows

/-! ## 1. MADE masks are strictly autoregressive -/

/-- `masks_strictly_autoregressive`: for **any** degree lists (sequential, random or otherwise), a
path `input j → … → output i` through `build_masks(degrees)` forces `deg j < deg i` (and both indices
in range). -/
theorem masks_strictly_autoregressive (d0 : List Nat) (hidden : List (List Nat)) (j i : Nat)
    (h : Reach (buildMasks (d0 :: hidden)) j i) :
    j < d0.length ∧ i < d0.length ∧ d0.getD j 0 < d0.getD i 0 :=
  reach_buildMasks d0 hidden j i h

/-- Non-vacuity: in the sequential MADE with 3 inputs and one hidden layer of 4 units there is a path
from input 0 to output 2. -/
example : Reach (buildMasks (buildDegreesSequential 3 1 4 false)) 0 2 :=
  (reachB_iff _ _ _).1 (by decide)

/-- Sequential degrees (`build_degrees_sequential`): paths only go from earlier to later inputs
(later to earlier if `reverse`). -/
theorem masks_strictly_autoregressive_sequential (n depth units : Nat) (reverse : Bool) (j i : Nat)
    (h : Reach (buildMasks (buildDegreesSequential n depth units reverse)) j i) :
    j < n ∧ i < n ∧ (if reverse then i < j else j < i) := by
  obtain ⟨h1, h2, h3⟩ := masks_strictly_autoregressive _ _ j i h
  cases reverse
  · simp only [inputDegreesSeq, Bool.false_eq_true, if_false, List.length_range] at h1 h2 h3
    simp only [List.getD_eq_getElem?_getD, List.getElem?_range h1, List.getElem?_range h2,
      Option.getD_some] at h3
    exact ⟨h1, h2, by simpa using h3⟩
  · simp only [inputDegreesSeq, if_true, List.length_map, List.length_range] at h1 h2 h3
    simp only [List.getD_eq_getElem?_getD, List.getElem?_map, List.getElem?_range h1,
      List.getElem?_range h2, Option.map_some, Option.getD_some] at h3
    exact ⟨h1, h2, by simp only [if_true]; omega⟩

example : Reach (buildMasks (buildDegreesSequential 4 2 5 true)) 3 0 :=
  (reachB_iff _ _ _).1 (by decide)

/-- Random degrees (`build_degrees_random`, the draw being any assignment in the sampled ranges). -/
theorem masks_strictly_autoregressive_random (n depth units : Nat) (degs : List (List Nat))
    (hadm : DegreesRandomAdmissible n depth units degs) (j i : Nat)
    (h : Reach (buildMasks degs) j i) :
    j < n ∧ i < n ∧ (degs.headD []).getD j 0 < (degs.headD []).getD i 0 := by
  unfold DegreesRandomAdmissible degreesRandomOK at hadm
  cases degs with
  | nil => simp at hadm
  | cons d0 hs =>
    simp only [Bool.and_eq_true, List.isPerm_iff] at hadm
    have hl : d0.length = n := by simpa using hadm.1.1.length_eq
    have := masks_strictly_autoregressive d0 hs j i h
    rw [hl] at this
    exact this

/-- Non-vacuity: an admissible random assignment (3 features, 1 hidden layer of 3 units) with a path. -/
example : DegreesRandomAdmissible 3 1 3 [[2, 0, 1], [0, 1, 1]] ∧
    Reach (buildMasks [[2, 0, 1], [0, 1, 1]]) 1 0 :=
  ⟨by unfold DegreesRandomAdmissible; decide, (reachB_iff _ _ _).1 (by decide)⟩

/-- Hence both output heads `t` (rows `0..n-1`) and `s` (rows `n..2n-1`, tiled mask) of **any**
network whose layers respect the registered masks (`MaskedLinear` with arbitrary weights followed by
arbitrary pointwise activations) read only inputs of strictly smaller degree. -/
theorem made_output_depends_only_on_smaller_degree {α : Type} (d0 : List Nat) (hidden : List (List Nat))
    (fs : List ((Nat → α) → (Nat → α)))
    (hfs : List.Forall₂ RespectsMask fs (conditionerMasks (d0 :: hidden))) :
    Autoregressive d0.length (fun j => d0.getD j 0) (fun x i => chainLayers fs x i) ∧
    Autoregressive d0.length (fun j => d0.getD j 0) (fun x i => chainLayers fs x (d0.length + i)) :=
  conditioner_heads_autoregressive d0 hidden fs hfs

/-- `MaskedLinear` respects its mask for arbitrary weights and biases; so does its composition with
any pointwise activation. -/
theorem maskedLinear_respects_mask {α : Type} [MulZeroClass α] [Add α] (M : List (List Bool)) (nin : Nat)
    (W : Nat → Nat → α) (b : Nat → α) (act : α → α) :
    RespectsMask (maskedLinear M nin W b) M ∧
    RespectsMask (fun x o => act (maskedLinear M nin W b x o)) M :=
  ⟨maskedLinear_respects M nin W b, respects_activation act _ M (maskedLinear_respects M nin W b)⟩

/-- Non-vacuity: a concrete masked two-layer conditioner over ℤ (all weights 1, activation `· * ·`). -/
example : List.Forall₂ RespectsMask
    [fun x o => (maskedLinear (maskLE [0, 1, 2] [0, 1, 0, 1]) 3 (fun _ _ => (1 : ℤ)) (fun _ => 0) x o)
        * (maskedLinear (maskLE [0, 1, 2] [0, 1, 0, 1]) 3 (fun _ _ => (1 : ℤ)) (fun _ => 0) x o),
     maskedLinear (tileMask (maskLT [0, 1, 0, 1] [0, 1, 2])) 4 (fun _ _ => (1 : ℤ)) (fun _ => 5)]
    (conditionerMasks [[0, 1, 2], [0, 1, 0, 1]]) :=
  .cons (maskedLinear_respects_mask _ 3 _ _ (fun a => a * a)).2
    (.cons (maskedLinear_respects_mask _ 4 _ _ id).1 .nil)

/-- Jacobian corollary: listing inputs/outputs in `argsort(ordering)` order, the dependency matrix
is strictly lower triangular (output at position `a` never reads the input at a position `b ≥ a`). -/
theorem dependency_strictly_lower_triangular (d0 : List Nat) (hidden : List (List Nat)) (n : Nat)
    (hp : d0.Perm (List.range n)) (a b : Nat) (hab : a ≤ b) (hb : b < n) :
    ¬ Reach (buildMasks (d0 :: hidden)) ((invOrdering d0).getD b 0) ((invOrdering d0).getD a 0) := by
  intro h
  have := (masks_strictly_autoregressive d0 hidden _ _ h).2.2
  rw [invOrdering_getD d0 n hp b hb, invOrdering_getD d0 n hp a (by omega)] at this
  omega

example : [2, 0, 1].Perm (List.range 3) := by decide

/-! ## 2. The autoregressive (MAF) layer -/

section Maf
variable {F : Type} [Field F] [LinearOrder F] (E : ExpLog F)
variable (ordering : List Nat) (n : Nat) (hp : ordering.Perm (List.range n))
variable (t s : (Nat → F) → Nat → F)
variable (ht : Autoregressive n (fun j => ordering.getD j 0) t)
variable (hs : Autoregressive n (fun j => ordering.getD j 0) s)
include hp ht hs

/-- `apply_forward (apply_backward x) = x`: the sequential loop over `inv_ordering = argsort(ordering)`
(network re-evaluated at every step, as in the code) recovers `x` from the one-pass image. -/
theorem maf_forward_backward (x : Nat → F) (i : Nat) (hi : i < n) :
    (mafForward E.exp n (invOrdering ordering) t s (mafBackward E.exp n t s x).1).1 i = x i := by
  obtain ⟨h1, h2, h3⟩ := invOrdering_props ordering n hp
  exact maf_forward_backward' E _ n t s ht hs _ h1 h3 h2 x i hi

/-- `apply_backward (apply_forward u) = u`. -/
theorem maf_backward_forward (u : Nat → F) (i : Nat) (hi : i < n) :
    (mafBackward E.exp n t s (mafForward E.exp n (invOrdering ordering) t s u).1).1 i = u i := by
  obtain ⟨h1, h2, h3⟩ := invOrdering_props ordering n hp
  exact maf_backward_forward' E _ n t s ht hs _ h1 h3 h2 u i hi

/-- The loop ends in the fixed point `x = u ⊙ exp(s(x)) + t(x)` and reports `Σ s(x)` at that fixed
point (not at the intermediate iterates). -/
theorem maf_forward_fixpoint (u : Nat → F) :
    (∀ i, i < n → (mafForward E.exp n (invOrdering ordering) t s u).1 i
        = u i * E.exp (s (mafForward E.exp n (invOrdering ordering) t s u).1 i)
          + t (mafForward E.exp n (invOrdering ordering) t s u).1 i) ∧
    (mafForward E.exp n (invOrdering ordering) t s u).2
      = sumVar n (s (mafForward E.exp n (invOrdering ordering) t s u).1) := by
  obtain ⟨h1, h2, h3⟩ := invOrdering_props ordering n hp
  exact ⟨fun i hi => mafForward_fixpoint E _ n t s ht hs _ h1 h3 h2 u i hi,
    mafForward_ldj E _ n t s ht hs _ h1 h3 h2 u⟩

/-- Reported log-dets are antisymmetric in both directions. -/
theorem maf_ldj_antisymm (x u : Nat → F) :
    (mafForward E.exp n (invOrdering ordering) t s (mafBackward E.exp n t s x).1).2
      = -(mafBackward E.exp n t s x).2 ∧
    (mafBackward E.exp n t s (mafForward E.exp n (invOrdering ordering) t s u).1).2
      = -(mafForward E.exp n (invOrdering ordering) t s u).2 := by
  obtain ⟨h1, h2, h3⟩ := invOrdering_props ordering n hp
  exact ⟨maf_ldj_antisymm_bwd E _ n t s ht hs _ h1 h3 h2 x,
    maf_ldj_antisymm_fwd E _ n t s ht hs _ h1 h3 h2 u⟩

end Maf

example (x : Nat → ℝ) (i : Nat) (hi : i < 2) :
    (mafForward realExpLog.exp 2 (invOrdering [1, 0]) exT exS (mafBackward realExpLog.exp 2 exT exS x).1).1 i
      = x i :=
  maf_forward_backward realExpLog [1, 0] 2 (by decide) exT exS exT_ar exS_ar x i hi

example (u : Nat → ℝ) (i : Nat) (hi : i < 2) :
    (mafBackward realExpLog.exp 2 exT exS (mafForward realExpLog.exp 2 (invOrdering [1, 0]) exT exS u).1).1 i
      = u i :=
  maf_backward_forward realExpLog [1, 0] 2 (by decide) exT exS exT_ar exS_ar u i hi

example (u : Nat → ℝ) := maf_forward_fixpoint realExpLog [1, 0] 2 (by decide) exT exS exT_ar exS_ar u
example (x u : Nat → ℝ) := maf_ldj_antisymm realExpLog [1, 0] 2 (by decide) exT exS exT_ar exS_ar x u

/-! ## 3. Coupling layers -/

/-- `masks_complementary`: the buffers `mask` and `inv_mask = 1 - mask` are complementary 0/1 vectors;
and for each of the three mask families `reverse=True` is the complement of `reverse=False`
(so two consecutive couplings transform every coordinate once). -/
theorem masks_complementary {F : Type} [Field F] (m : Nat → Bool) (k : Nat) :
    ((maskVal m k : F) * invMaskVal m k = 0 ∧ (maskVal m k : F) + invMaskVal m k = 1 ∧
      ((maskVal m k : F) = 0 ∨ (maskVal m k : F) = 1)) ∧
    (∀ k, alternatingMask true k = !alternatingMask false k) ∧
    (∀ H W k, checkerboardMask H W true k = !checkerboardMask H W false k) ∧
    (∀ C H W k, channelwiseMask C H W true k = !channelwiseMask C H W false k) := by
  refine ⟨maskVal_complementary m k, ?_, ?_, ?_⟩
  · intro k; simp [alternatingMask]
  · intro H W k; simp [checkerboardMask]
  · intro C H W k
    by_cases h : k < C / 2 * H * W <;> simp [channelwiseMask, h, Nat.not_le.2, Nat.le_of_not_lt]

example : (maskVal (alternatingMask false) 3 : ℚ) = 1 ∧ (invMaskVal (alternatingMask false) 3 : ℚ) = 0 := by
  constructor <;> simp [maskVal, invMaskVal, alternatingMask]

/-- `coupling_inverse` (1-d alternating and 2-d checkerboard masks — any mask —, affine and additive,
arbitrary conditioner): forward and backward are mutual inverses. -/
theorem coupling_inverse {F : Type} [Field F] [LinearOrder F] (E : ExpLog F) (affine : Bool) (n : Nat)
    (m : Nat → Bool) (T S : (Nat → F) → Nat → F) (x : Nat → F) :
    (couplingForward E.exp affine n m T S (couplingBackward E.exp affine n m T S x).1).1 = x ∧
    (couplingBackward E.exp affine n m T S (couplingForward E.exp affine n m T S x).1).1 = x :=
  ⟨coupling_forward_backward' E affine n m T S x, coupling_backward_forward' E affine n m T S x⟩

example (x : Nat → ℝ) := coupling_inverse realExpLog true 4 (alternatingMask true) exT exS x
example (x : Nat → ℝ) := coupling_inverse realExpLog false 12 (checkerboardMask 2 3 false) exT exS x

/-- `coupling_inverse` for the channel-wise branch of `CouplingLayer2d` (both `reverse` settings). -/
theorem coupling_inverse_channelwise {F : Type} [Field F] [LinearOrder F] (E : ExpLog F)
    (affine reverse : Bool) (half : Nat) (T S : (Nat → F) → Nat → F) (x : Nat → F) :
    (chanForward E.exp affine reverse half T S (chanBackward E.exp affine reverse half T S x).1).1 = x ∧
    (chanBackward E.exp affine reverse half T S (chanForward E.exp affine reverse half T S x).1).1 = x :=
  ⟨chan_forward_backward' E affine reverse half T S x, chan_backward_forward' E affine reverse half T S x⟩

example (x : Nat → ℝ) := coupling_inverse_channelwise realExpLog true false 8 exT exS x

/-- `coupling_ldj`: the reported log-det is `± Σ` of `s` over the *transformed* coordinates
(`mask = 0`), `s` being evaluated on the untouched (masked) part only; `0` for additive couplings. -/
theorem coupling_ldj {F : Type} [Field F] [LinearOrder F] (E : ExpLog F) (n : Nat)
    (m : Nat → Bool) (T S : (Nat → F) → Nat → F) (x : Nat → F) :
    (couplingForward E.exp true n m T S x).2
      = sumVar n (fun k => if m k then 0 else S (fun j => maskVal m j * x j) k) ∧
    (couplingBackward E.exp true n m T S x).2
      = -(sumVar n (fun k => if m k then 0 else S (fun j => maskVal m j * x j) k)) ∧
    (couplingForward E.exp false n m T S x).2 = 0 ∧ (couplingBackward E.exp false n m T S x).2 = 0 := by
  refine ⟨?_, ?_, rfl, rfl⟩
  · exact sumVar_invMask n m _
  · show -(sumVar n _) = _
    rw [sumVar_invMask n m]

/-- Same for the channel-wise branch: `± Σ_{k < half} s(mx)_k`. -/
theorem coupling_ldj_channelwise {F : Type} [Field F] [LinearOrder F] (E : ExpLog F) (reverse : Bool)
    (half : Nat) (T S : (Nat → F) → Nat → F) (x : Nat → F) :
    (chanForward E.exp true reverse half T S x).2
      = sumVar half (S (if reverse then chunkFst half x else chunkSnd half x)) ∧
    (chanBackward E.exp true reverse half T S x).2
      = -(sumVar half (S (if reverse then chunkFst half x else chunkSnd half x))) ∧
    (chanForward E.exp false reverse half T S x).2 = 0 ∧
    (chanBackward E.exp false reverse half T S x).2 = 0 := by
  cases reverse <;> exact ⟨rfl, rfl, rfl, rfl⟩

example : (couplingForward realExpLog.exp true 2 (alternatingMask false) exT exS (fun _ => 2)).2 = 4 := by
  rw [(coupling_ldj realExpLog 2 (alternatingMask false) exT exS _).1]
  simp [sumVar, alternatingMask, exS, maskVal, List.range, List.range.loop]
  norm_num

/-- Antisymmetry of the reported log-dets of coupling layers (all variants, both directions). -/
theorem coupling_ldj_antisymm {F : Type} [Field F] [LinearOrder F] (E : ExpLog F) (affine reverse : Bool)
    (n half : Nat) (m : Nat → Bool) (T S : (Nat → F) → Nat → F) (x : Nat → F) :
    (couplingBackward E.exp affine n m T S (couplingForward E.exp affine n m T S x).1).2
      = -(couplingForward E.exp affine n m T S x).2 ∧
    (couplingForward E.exp affine n m T S (couplingBackward E.exp affine n m T S x).1).2
      = -(couplingBackward E.exp affine n m T S x).2 ∧
    (chanBackward E.exp affine reverse half T S (chanForward E.exp affine reverse half T S x).1).2
      = -(chanForward E.exp affine reverse half T S x).2 ∧
    (chanForward E.exp affine reverse half T S (chanBackward E.exp affine reverse half T S x).1).2
      = -(chanBackward E.exp affine reverse half T S x).2 :=
  ⟨coupling_ldj_antisymm_fwd E affine n m T S x, coupling_ldj_antisymm_bwd E affine n m T S x,
   chan_ldj_antisymm_fwd E affine reverse half T S x, chan_ldj_antisymm_bwd E affine reverse half T S x⟩

example (x : Nat → ℝ) := coupling_ldj_antisymm realExpLog true true 6 3 (alternatingMask false) exT exS x

/-! ## 4. Reported log-dets are log|det J| -/

/-- `det_triangular_by_degree`: a square matrix over a commutative ring whose off-diagonal entry
`(i, j)` vanishes whenever `deg i ≤ deg j` has determinant `∏ᵢ Jᵢᵢ` (proved by sorting the indices by
degree, which makes the matrix lower triangular). -/
theorem det_triangular_by_degree {n : Nat} {R : Type} [CommRing R] (J : Matrix (Fin n) (Fin n) R)
    (deg : Fin n → ℕ) (h : ∀ i j, i ≠ j → deg i ≤ deg j → J i j = 0) : J.det = ∏ i, J i i :=
  det_triangular_by_degree' J deg h

/-- Non-vacuity: degrees `(1, 0)`, the only possibly non-zero off-diagonal entry is `(0, 1)`. -/
example : (!![2, 7; 0, 3] : Matrix (Fin 2) (Fin 2) ℤ).det = ∏ i, (!![2, 7; 0, 3] : Matrix (Fin 2) (Fin 2) ℤ) i i :=
  det_triangular_by_degree _ ![1, 0]
    (by intro i j hij hd; fin_cases i <;> fin_cases j <;> simp_all)

section LogDet
variable {F : Type} [Field F] [LinearOrder F] [IsStrictOrderedRing F] (E : ExpLog F)

/-- `maf_ldj_is_logdet` (backward / density direction). For **any** matrix `J` — intended: the
Jacobian of `apply_backward` at `x` — with diagonal `exp(-sᵢ(x))` and `J i j = 0` for `i ≠ j`,
`deg i ≤ deg j` (the pattern guaranteed by `masks_strictly_autoregressive`):
`det J = exp(ildj)` and `log|det J| = ildj`, `ildj` being the value reported by `apply_backward`. -/
theorem maf_ldj_is_logdet (n : Nat) (deg : Nat → Nat) (t s : (Nat → F) → Nat → F) (x : Nat → F)
    (J : Matrix (Fin n) (Fin n) F) (hdiag : ∀ i : Fin n, J i i = E.exp (-(s x i)))
    (hpat : ∀ i j : Fin n, i ≠ j → deg i ≤ deg j → J i j = 0) :
    J.det = E.exp (mafBackward E.exp n t s x).2 ∧ E.log |J.det| = (mafBackward E.exp n t s x).2 := by
  have e : (mafBackward E.exp n t s x).2 = ∑ i : Fin n, -(s x i) := by
    show -(sumVar n (s x)) = _
    rw [sumVar_eq_sum, Finset.sum_neg_distrib]
  rw [e]
  exact ⟨det_eq_exp_sum E J (fun i => deg i) _ hdiag hpat, logabsdet_eq_sum E J (fun i => deg i) _ hdiag hpat⟩

/-- Forward (sampling) direction: at the fixed point `y = apply_forward(u)` any matrix with diagonal
`exp(sᵢ(y))` and the degree-triangular pattern has `log|det J|` = the reported forward log-det. -/
theorem maf_forward_ldj_is_logdet (ordering : List Nat) (n : Nat) (hp : ordering.Perm (List.range n))
    (t s : (Nat → F) → Nat → F)
    (ht : Autoregressive n (fun j => ordering.getD j 0) t)
    (hs : Autoregressive n (fun j => ordering.getD j 0) s) (u : Nat → F)
    (J : Matrix (Fin n) (Fin n) F)
    (hdiag : ∀ i : Fin n, J i i = E.exp (s (mafForward E.exp n (invOrdering ordering) t s u).1 i))
    (hpat : ∀ i j : Fin n, i ≠ j → ordering.getD i 0 ≤ ordering.getD j 0 → J i j = 0) :
    E.log |J.det| = (mafForward E.exp n (invOrdering ordering) t s u).2 := by
  rw [(maf_forward_fixpoint E ordering n hp t s ht hs u).2, sumVar_eq_sum]
  exact logabsdet_eq_sum E J (fun i => ordering.getD i 0) _ hdiag hpat

/-- `coupling_ldj_is_logdet`. For **any** matrix `J` with diagonal `exp(-sₖ)` (`sₖ = inv_maskₖ·S(mask⊙x)ₖ`,
so `1` on untouched coordinates) and `J i j = 0` for `i ≠ j` unless row `i` is a transformed and
column `j` an untouched coordinate: `log|det J|` is the log-det reported by `apply_backward`; with
diagonal `1` (additive coupling) it is the reported `0`. -/
theorem coupling_ldj_is_logdet (n : Nat) (m : Nat → Bool) (T S : (Nat → F) → Nat → F) (x : Nat → F)
    (J : Matrix (Fin n) (Fin n) F)
    (hpat : ∀ i j : Fin n, i ≠ j → (m i = true ∨ m j = false) → J i j = 0) :
    ((∀ k : Fin n, J k k = E.exp (-(invMaskVal m k * S (fun j => maskVal m j * x j) k))) →
      E.log |J.det| = (couplingBackward E.exp true n m T S x).2) ∧
    ((∀ k : Fin n, J k k = 1) → E.log |J.det| = (couplingBackward E.exp false n m T S x).2) := by
  have hpat' : ∀ i j : Fin n, i ≠ j →
      (if m i then 0 else 1) ≤ (if m j then 0 else 1) → J i j = 0 := by
    intro i j hij hd
    apply hpat i j hij
    cases hi : m i <;> cases hj : m j <;> simp [hi, hj] at hd ⊢
  constructor
  · intro hdiag
    have e : (couplingBackward E.exp true n m T S x).2
        = ∑ k : Fin n, -(invMaskVal m k * S (fun j => maskVal m j * x j) k) := by
      show -(sumVar n _) = _
      rw [sumVar_eq_sum, Finset.sum_neg_distrib]
    rw [e]
    exact logabsdet_eq_sum E J (fun i => if m i then 0 else 1) _ hdiag hpat'
  · intro hdiag
    have := logabsdet_eq_sum E J (fun i => if m i then 0 else 1) (fun _ => 0)
      (fun i => by rw [hdiag i, E.exp_zero]) hpat'
    rw [this, Finset.sum_const_zero]
    rfl

/-- `compose_logdet` (chain rule): if two layers report `log|det J₁|` and `log|det J₂|`, the sum they
accumulate is `log|det (J₂ J₁)|` — the log-det of the Jacobian of the composite. -/
theorem compose_logdet {n : Nat} (J1 J2 : Matrix (Fin n) (Fin n) F) (h1 : J1.det ≠ 0) (h2 : J2.det ≠ 0) :
    E.log |(J2 * J1).det| = E.log |J1.det| + E.log |J2.det| :=
  logabsdet_mul E J1 J2 h1 h2

end LogDet

/-- Non-vacuity for `maf_ldj_is_logdet`: ordering `[1, 0]`, a Jacobian-shaped matrix with an arbitrary
entry at the one admissible off-diagonal position `(0, 1)`. -/
example (x : Nat → ℝ) (a : ℝ) :
    Real.log |(!![Real.exp (-(exS x 0)), a; 0, Real.exp (-(exS x 1))] : Matrix (Fin 2) (Fin 2) ℝ).det|
      = (mafBackward realExpLog.exp 2 exT exS x).2 :=
  (maf_ldj_is_logdet realExpLog 2 (fun j => [1, 0].getD j 0) exT exS x _
    (by intro i; fin_cases i <;> rfl)
    (by intro i j hij hd; fin_cases i <;> fin_cases j <;> simp_all)).2

example (x : Nat → ℝ) (a : ℝ) :
    Real.log |(!![Real.exp (-(invMaskVal (alternatingMask false) 0 * exS (fun j => maskVal (alternatingMask false) j * x j) 0)), a;
                  0, Real.exp (-(invMaskVal (alternatingMask false) 1 * exS (fun j => maskVal (alternatingMask false) j * x j) 1))] :
        Matrix (Fin 2) (Fin 2) ℝ).det|
      = (couplingBackward realExpLog.exp true 2 (alternatingMask false) exT exS x).2 :=
  (coupling_ldj_is_logdet realExpLog 2 (alternatingMask false) exT exS x _
    (by intro i j hij hd; fin_cases i <;> fin_cases j <;> simp_all [alternatingMask])).1
    (by intro k; fin_cases k <;> rfl)

example : realExpLog.log |((!![2, 0; 0, 3] : Matrix (Fin 2) (Fin 2) ℝ) * !![1, 1; 0, 5]).det|
    = realExpLog.log |(!![1, 1; 0, 5] : Matrix (Fin 2) (Fin 2) ℝ).det|
      + realExpLog.log |(!![2, 0; 0, 3] : Matrix (Fin 2) (Fin 2) ℝ).det| :=
  compose_logdet realExpLog _ _ (by simp [Matrix.det_fin_two]) (by simp [Matrix.det_fin_two])

/-! ## 5. Squeeze / unsqueeze -/

/-- `squeeze_unsqueeze`: `squeeze_depth2d(unsqueeze_depth2d(y)) = y` (as whole tensors, any batch and
channel count; spatial size `h × w` of the un-squeezed tensor with `h//2, w//2 > 0`). -/
theorem squeeze_unsqueeze {α : Type} (h w : Nat) (hh : 0 < h / 2) (hw : 0 < w / 2) (y : Nat → α) :
    squeeze h w (unsqueeze (h / 2) (w / 2) y) = y := squeeze_unsqueeze' h w hh hw y

/-- `unsqueeze_squeeze`: `unsqueeze_depth2d(squeeze_depth2d(x)) = x`. -/
theorem unsqueeze_squeeze {α : Type} (h w : Nat) (hh : 0 < h / 2) (hw : 0 < w / 2) (x : Nat → α) :
    unsqueeze (h / 2) (w / 2) (squeeze h w x) = x := unsqueeze_squeeze' h w hh hw x

example (x : Nat → ℚ) : unsqueeze (6 / 2) (4 / 2) (squeeze 6 4 x) = x := unsqueeze_squeeze 6 4 (by decide) (by decide) x

/-- `squeeze_bijective`: for every channel count `c` (batch folded into `c`) and even `h`, `w`, the
flat-index map of `squeeze_depth2d` is a bijection from `[0, 4c·(h/2)·(w/2))` onto `[0, c·h·w)`, with
inverse the flat-index map of `unsqueeze_depth2d`. -/
theorem squeeze_bijective (c h w : Nat) (hh : h % 2 = 0) (hw : w % 2 = 0) :
    (∀ d, d < 4 * c * (h / 2) * (w / 2) → squeezeSrc h w d < c * h * w) ∧
    (∀ d d', d < 4 * c * (h / 2) * (w / 2) → d' < 4 * c * (h / 2) * (w / 2) →
        squeezeSrc h w d = squeezeSrc h w d' → d = d') ∧
    (∀ e, e < c * h * w → ∃ d, d < 4 * c * (h / 2) * (w / 2) ∧ squeezeSrc h w d = e) := by
  refine ⟨fun d hd => squeezeSrc_lt c h w d hh hw hd, ?_, ?_⟩
  · intro d d' hd _ he
    have hh2 : 0 < h / 2 := Nat.pos_of_ne_zero (by rintro e; simp [e] at hd)
    have hw2 : 0 < w / 2 := Nat.pos_of_ne_zero (by rintro e; simp [e] at hd)
    rw [← unsqueezeSrc_squeezeSrc h w d hh2 hw2, he, unsqueezeSrc_squeezeSrc h w d' hh2 hw2]
  · intro e he
    have hh2 : 0 < h / 2 := by
      have : 0 < h := Nat.pos_of_ne_zero (by rintro rfl; simp at he)
      omega
    have hw2 : 0 < w / 2 := by
      have : 0 < w := Nat.pos_of_ne_zero (by rintro rfl; simp at he)
      omega
    exact ⟨unsqueezeSrc (h / 2) (w / 2) e, unsqueezeSrc_lt c h w e hh hw he,
      squeezeSrc_unsqueezeSrc h w e hh2 hw2⟩

example : squeezeSrc 2 4 1 = 2 ∧ squeezeSrc 2 4 2 = 1 := by decide

/-! ## 6. Down/up-scaling permutation and multi-scale bookkeeping of RealNVP2d -/

/-- `permMatrix_is_permutation`: for every channel count `c`, `build_permutation_matrix(c)` viewed as
a `4c × (c·2·2)` 0/1 matrix has exactly one 1 in every row and exactly one 1 in every column. -/
theorem permMatrix_is_permutation (c : Nat) :
    (∀ o, o < 4 * c → ∃! p : Nat × Nat × Nat,
        p.1 < c ∧ p.2.1 < 2 ∧ p.2.2 < 2 ∧ permWeight c o p.1 p.2.1 p.2.2 = true) ∧
    (∀ ci a b, ci < c → a < 2 → b < 2 → ∃! o, o < 4 * c ∧ permWeight c o ci a b = true) := by
  constructor
  · intro o ho
    have hc : 0 < c := by omega
    obtain ⟨b1, b2, b3⟩ := permSrc_lt c o hc
    refine ⟨permSrc c o, ⟨b1, b2, b3, (permWeight_iff c o _ _ _ ho).2 rfl⟩, ?_⟩
    rintro ⟨ci, a, b⟩ ⟨_, _, _, hp⟩
    exact (permWeight_iff c o ci a b ho).1 hp
  · intro ci a b hci ha hb
    have hq := posQuarter_lt a b
    have ho : posQuarter a b * c + ci < 4 * c := by nlinarith
    refine ⟨posQuarter a b * c + ci, ⟨ho, (permWeight_col c _ ci a b ho hci ha hb).2 rfl⟩, ?_⟩
    rintro o ⟨ho', hp⟩
    exact (permWeight_col c o ci a b ho' hci ha hb).1 hp

example : permWeight 3 7 1 0 1 = true := by decide

/-- `convT_inverts_conv`: `F.conv_transpose2d(F.conv2d(x, P, stride=2), P, stride=2) = x` and
`F.conv2d(F.conv_transpose2d(y, P, stride=2), P, stride=2) = y` on tensors of size `(c, h, w)` resp.
`(4c, h/2, w/2)`, `h`, `w` even, over any commutative semiring (convolutions as explicit sums). -/
theorem convT_inverts_conv {α : Type} [CommSemiring α] (c h w : Nat) (hh : h % 2 = 0) (hw : w % 2 = 0) :
    (∀ (x : Nat → α) e, e < c * h * w → convTPerm c h w (convPerm c h w x) e = x e) ∧
    (∀ (y : Nat → α) d, d < 4 * c * (h / 2) * (w / 2) → convPerm c h w (convTPerm c h w y) d = y d) := by
  constructor
  · intro x e he
    rw [convTPerm_eq_gather c h w _ e he, convPerm_eq_gather c h w x _ (convTPermSrc_lt c h w e hh hw he),
      convPermSrc_convTPermSrc c h w e hh hw he]
  · intro y d hd
    rw [convPerm_eq_gather c h w _ d hd, convTPerm_eq_gather c h w y _ (convPermSrc_lt c h w d hh hw hd),
      convTPermSrc_convPermSrc c h w d hh hw hd]

example (x : Nat → ℚ) : convTPerm 2 4 6 (convPerm 2 4 6 x) 17 = x 17 :=
  (convT_inverts_conv 2 4 6 (by decide) (by decide)).1 x 17 (by decide)

/-- `torch.chunk(·, 2, dim=1)` / `torch.cat` bookkeeping is a bijection. -/
theorem chunk_cat_bijection {α : Type} [Zero α] (half : Nat) (x a z : Nat → α) :
    cat2 half (chunkFst half x) (chunkSnd half x) = x ∧
    chunkFst half (cat2 half a z) = chunkFst half a ∧ chunkSnd half (cat2 half a z) = z :=
  ⟨cat2_chunk half x, chunkFst_cat2 half a z, chunkSnd_cat2 half a z⟩

/-- `multiscale_inverse`: the two-loop implementations of `RealNVP2d.apply_backward` /
`apply_forward` (slices pushed in the first loop, popped in the second) are mutual inverses with
antisymmetric log-dets, for any number of scales, given bijective blocks and the bookkeeping laws
(`conv_transpose2d ∘ conv2d = id`, `cat ∘ chunk = id`, and conversely) at every scale. -/
theorem multiscale_inverse {X Z F : Type} [AddCommGroup F] (ps : List (Bij X F × ScaleOps X Z))
    (last : Bij X F) (x : X) :
    (msForward (ps.map toFns) last.fwd (msBackward (ps.map toFns) last.bwd x).1).1 = x ∧
    (msBackward (ps.map toFns) last.bwd (msForward (ps.map toFns) last.fwd x).1).1 = x ∧
    (msBackward (ps.map toFns) last.bwd (msForward (ps.map toFns) last.fwd x).1).2
      = -(msForward (ps.map toFns) last.fwd x).2 := by
  simp only [msBackward_eq, msForward_eq]
  exact ⟨(Bij.multiScale ps last).fwd_bwd x, (Bij.multiScale ps last).bwd_fwd x,
    (Bij.multiScale ps last).ldj_antisymm x⟩

/-! ## 7. Batch normalisation (eval mode) and logit preprocessing -/

/-- `bn_inverse` (1-d and 2-d, running statistics; needs `running_var + eps > 0`, otherwise the code
takes the square root of a non-positive number). -/
theorem bn_inverse {F : Type} [Field F] [LinearOrder F] (E : ExpLog F) (half eps : F) (n C grid : Nat)
    (gridA : F) (w b mean var : Nat → F) (hv : ∀ k, 0 < var k + eps) (x : Nat → F) :
    (bn1dForward E.exp E.log E.sqrt half eps n w b mean var
        (bn1dBackward E.exp E.log E.sqrt half eps n w b mean var x).1).1 = x ∧
    (bn1dBackward E.exp E.log E.sqrt half eps n w b mean var
        (bn1dForward E.exp E.log E.sqrt half eps n w b mean var x).1).1 = x ∧
    (bn2dForward E.exp E.log E.sqrt half eps C grid gridA w b mean var
        (bn2dBackward E.exp E.log E.sqrt half eps C grid gridA w b mean var x).1).1 = x ∧
    (bn2dBackward E.exp E.log E.sqrt half eps C grid gridA w b mean var
        (bn2dForward E.exp E.log E.sqrt half eps C grid gridA w b mean var x).1).1 = x :=
  ⟨bn1d_forward_backward' E half eps n w b mean var hv x, bn1d_backward_forward' E half eps n w b mean var hv x,
   bn2d_forward_backward' E half eps w b mean var C grid gridA hv x,
   bn2d_backward_forward' E half eps w b mean var C grid gridA hv x⟩

/-- `bn_ldj_antisymm`: the two reported constants are negatives of each other (at any inputs). -/
theorem bn_ldj_antisymm {F : Type} [Field F] [LinearOrder F] (E : ExpLog F) (half eps : F) (n C grid : Nat)
    (gridA : F) (w b mean var : Nat → F) (x u : Nat → F) :
    (bn1dBackward E.exp E.log E.sqrt half eps n w b mean var x).2
      = -(bn1dForward E.exp E.log E.sqrt half eps n w b mean var u).2 ∧
    (bn2dBackward E.exp E.log E.sqrt half eps C grid gridA w b mean var x).2
      = -(bn2dForward E.exp E.log E.sqrt half eps C grid gridA w b mean var u).2 :=
  ⟨bn1d_ldj_antisymm' E half eps n w b mean var x u, bn2d_ldj_antisymm' E half eps w b mean var C grid gridA x u⟩

example (x : Nat → ℝ) := bn_inverse realExpLog (1 / 2) (1 / 100000) 3 2 4 4 (fun k => k) (fun _ => 1)
  (fun k => 2 * k) (fun k => k) (fun k => by positivity) x
example (x u : Nat → ℝ) := bn_ldj_antisymm realExpLog (1 / 2) (1 / 100000) 3 2 4 4 (fun k => k) (fun _ => 1)
  (fun k => 2 * k) (fun k => k) x u

/-- `logit_inverse`: `LogitLayer` forward/backward are mutual inverses (`α ≠ 1/2`; the
`forward ∘ backward` direction on inputs whose affine image `α + (1-2α)x` lies in `(0, 1)`, the
domain of the two logarithms). Only `sigmoid a = 1 / (1 + exp(-a))` is assumed about `sigmoid`. -/
theorem logit_inverse {F : Type} [Field F] [LinearOrder F] [IsStrictOrderedRing F] (E : ExpLogSig F)
    (alpha dimsA : F) (n : Nat) (hα : 1 - (1 + 1) * alpha ≠ 0) :
    (∀ x : Nat → F, (∀ k, 0 < alpha + (1 - (1 + 1) * alpha) * x k ∧ alpha + (1 - (1 + 1) * alpha) * x k < 1) →
      (logitForward E.log E.sigmoid alpha dimsA n (logitBackward E.log alpha dimsA n x).1).1 = x) ∧
    (∀ u : Nat → F,
      (logitBackward E.log alpha dimsA n (logitForward E.log E.sigmoid alpha dimsA n u).1).1 = u) :=
  ⟨fun x hx => logit_forward_backward' E alpha dimsA n hα x hx,
   fun u => logit_backward_forward' E alpha dimsA n hα u⟩

/-- `logit_ldj_antisymm`. -/
theorem logit_ldj_antisymm {F : Type} [Field F] [LinearOrder F] [IsStrictOrderedRing F] (E : ExpLogSig F)
    (alpha dimsA : F) (n : Nat) (hα : 1 - (1 + 1) * alpha ≠ 0) :
    (∀ u : Nat → F,
      (logitBackward E.log alpha dimsA n (logitForward E.log E.sigmoid alpha dimsA n u).1).2
        = -(logitForward E.log E.sigmoid alpha dimsA n u).2) ∧
    (∀ x : Nat → F, (∀ k, 0 < alpha + (1 - (1 + 1) * alpha) * x k ∧ alpha + (1 - (1 + 1) * alpha) * x k < 1) →
      (logitForward E.log E.sigmoid alpha dimsA n (logitBackward E.log alpha dimsA n x).1).2
        = -(logitBackward E.log alpha dimsA n x).2) :=
  ⟨fun u => logit_ldj_antisymm_fwd E alpha dimsA n hα u,
   fun x hx => logit_ldj_antisymm_bwd E alpha dimsA n x hx⟩

/-- Non-vacuity: `α = 0.05` and the constant image `x ≡ 1/2`. -/
example : (logitForward realExpLogSig.log realExpLogSig.sigmoid (1 / 20) 3 3
    (logitBackward realExpLogSig.log (1 / 20) 3 3 (fun _ => 1 / 2)).1).1 = fun _ => (1 / 2 : ℝ) :=
  (logit_inverse realExpLogSig (1 / 20) 3 3 (by norm_num)).1 _ (fun _ => by norm_num)

example (u : Nat → ℝ) := (logit_ldj_antisymm realExpLogSig (1 / 20) 3 3 (by norm_num)).1 u

/-! ### 7b. Reported log-dets of the diagonal layers are log|det J| -/

section DiagLayers
variable {F : Type} [Field F] [LinearOrder F] [IsStrictOrderedRing F]

/-- `bn_ldj_is_logdet` (1-d). For **any** diagonal matrix `J` with `J k k = exp(wₖ) / √(varₖ + ε)`
(the slope of `apply_backward` in coordinate `k`), `log|det J|` is the reported
`Σ (wₖ − ½·log(varₖ + ε))` (`half` is the literal `0.5`). -/
theorem bn1d_ldj_is_logdet (E : ExpLog F) (half eps : F) (hhalf : half + half = 1) (n : Nat)
    (w b mean var : Nat → F) (hv : ∀ k, 0 < var k + eps) (x : Nat → F) (J : Matrix (Fin n) (Fin n) F)
    (hoff : ∀ i j, i ≠ j → J i j = 0)
    (hdiag : ∀ k : Fin n, J k k = E.exp (w k) / E.sqrt (var k + eps)) :
    E.log |J.det| = (bn1dBackward E.exp E.log E.sqrt half eps n w b mean var x).2 := by
  rw [logabsdet_diag E J _ hoff hdiag (fun k => div_pos (E.exp_pos _) (sqrt_pos E (hv k)))]
  show _ = sumVar n _
  rw [sumVar_eq_sum]
  apply Finset.sum_congr rfl
  intro k _
  rw [log_div E (E.exp_pos _) (sqrt_pos E (hv k)), E.log_exp, log_sqrt E half hhalf (hv k)]

/-- `bn_ldj_is_logdet` (2-d): `C` channels broadcast over a grid of `grid` positions
(`gridA = grid` as a field element): the reported `(Σ_c (w_c − ½ log(var_c + ε))) · grid`. -/
theorem bn2d_ldj_is_logdet (E : ExpLog F) (half eps : F) (hhalf : half + half = 1) (C grid : Nat)
    (w b mean var : Nat → F) (hv : ∀ c, 0 < var c + eps) (x : Nat → F)
    (J : Matrix (Fin (C * grid)) (Fin (C * grid)) F)
    (hoff : ∀ i j, i ≠ j → J i j = 0)
    (hdiag : ∀ k : Fin (C * grid), J k k = E.exp (w (k / grid)) / E.sqrt (var (k / grid) + eps)) :
    E.log |J.det| = (bn2dBackward E.exp E.log E.sqrt half eps C grid (grid : F) w b mean var x).2 := by
  rw [logabsdet_diag E J _ hoff hdiag (fun k => div_pos (E.exp_pos _) (sqrt_pos E (hv _)))]
  show _ = sumVar C _ * (grid : F)
  rw [← sumVar_div_grid, sumVar_eq_sum]
  apply Finset.sum_congr rfl
  intro k _
  rw [log_div E (E.exp_pos _) (sqrt_pos E (hv _)), E.log_exp, log_sqrt E half hhalf (hv _)]

/-- `logit_ldj_is_logdet`. For **any** diagonal matrix with `J k k = c / (x'ₖ (1 − x'ₖ))`,
`c = 1 − 2α > 0`, `x' = α + c·x ∈ (0,1)` (the derivative of `log x' − log(1 − x')` w.r.t. `x`),
`log|det J|` is the log-det reported by `LogitLayer.apply_backward` (`dims = n`). -/
theorem logit_ldj_is_logdet (E : ExpLog F) (alpha : F) (n : Nat) (hα : 0 < 1 - (1 + 1) * alpha)
    (x : Nat → F)
    (hx : ∀ k, 0 < alpha + (1 - (1 + 1) * alpha) * x k ∧ alpha + (1 - (1 + 1) * alpha) * x k < 1)
    (J : Matrix (Fin n) (Fin n) F) (hoff : ∀ i j, i ≠ j → J i j = 0)
    (hdiag : ∀ k : Fin n, J k k = (1 - (1 + 1) * alpha)
      / ((alpha + (1 - (1 + 1) * alpha) * x k) * (1 - (alpha + (1 - (1 + 1) * alpha) * x k)))) :
    E.log |J.det| = (logitBackward E.log alpha (n : F) n x).2 := by
  have h1 : ∀ k, 0 < 1 - (alpha + (1 - (1 + 1) * alpha) * x k) := fun k => sub_pos.2 (hx k).2
  rw [logabsdet_diag E J _ hoff hdiag (fun k => div_pos hα (mul_pos (hx k).1 (h1 k)))]
  show _ = -(sumVar n _ + logitConst E.log alpha (n : F))
  rw [sumVar_eq_sum, logitConst]
  have : ∀ k : Fin n, E.log ((1 - (1 + 1) * alpha)
      / ((alpha + (1 - (1 + 1) * alpha) * x k) * (1 - (alpha + (1 - (1 + 1) * alpha) * x k))))
      = E.log (1 - (1 + 1) * alpha) - (E.log (alpha + (1 - (1 + 1) * alpha) * x k)
          + E.log (1 - (alpha + (1 - (1 + 1) * alpha) * x k))) := by
    intro k
    rw [log_div E hα (mul_pos (hx k).1 (h1 k)), log_mul E (hx k).1 (h1 k)]
  simp only [this, Finset.sum_sub_distrib, Finset.sum_const, Finset.card_univ, Fintype.card_fin,
    nsmul_eq_mul]
  ring

end DiagLayers

example (x : Nat → ℝ) :
    realExpLog.log |(Matrix.diagonal (fun k : Fin 2 =>
        realExpLog.exp ((k : ℕ) : ℝ) / realExpLog.sqrt (((k : ℕ) : ℝ) + 1 / 100000))).det|
      = (bn1dBackward realExpLog.exp realExpLog.log realExpLog.sqrt (1 / 2) (1 / 100000) 2
          (fun k => (k : ℝ)) (fun _ => 1) (fun k => 2 * k) (fun k => (k : ℝ)) x).2 :=
  bn1d_ldj_is_logdet realExpLog (1 / 2) (1 / 100000) (by norm_num) 2 _ _ _ _ (fun k => by positivity) x _
    (fun _ _ h => Matrix.diagonal_apply_ne _ h) (fun k => Matrix.diagonal_apply_eq _ k)

example (x : Nat → ℝ) :
    realExpLog.log |(Matrix.diagonal (fun k : Fin (2 * 3) =>
        realExpLog.exp (((k / 3 : ℕ) : ℕ) : ℝ) / realExpLog.sqrt ((((k / 3 : ℕ) : ℕ) : ℝ) + 1 / 100000))).det|
      = (bn2dBackward realExpLog.exp realExpLog.log realExpLog.sqrt (1 / 2) (1 / 100000) 2 3 ((3 : ℕ) : ℝ)
          (fun k => (k : ℝ)) (fun _ => 1) (fun k => 2 * k) (fun k => (k : ℝ)) x).2 :=
  bn2d_ldj_is_logdet realExpLog (1 / 2) (1 / 100000) (by norm_num) 2 3 _ _ _ _ (fun k => by positivity) x _
    (fun _ _ h => Matrix.diagonal_apply_ne _ h) (fun k => Matrix.diagonal_apply_eq _ k)

example :
    realExpLog.log |(Matrix.diagonal (fun _ : Fin 3 =>
        ((1 : ℝ) - (1 + 1) * (1 / 20)) / (((1 / 20) + (1 - (1 + 1) * (1 / 20)) * (1 / 2))
          * (1 - ((1 / 20) + (1 - (1 + 1) * (1 / 20)) * (1 / 2)))))).det|
      = (logitBackward realExpLog.log (1 / 20) ((3 : ℕ) : ℝ) 3 (fun _ => 1 / 2)).2 :=
  logit_ldj_is_logdet realExpLog (1 / 20) 3 (by norm_num) _ (fun _ => by norm_num) _
    (fun _ _ h => Matrix.diagonal_apply_ne _ h) (fun k => Matrix.diagonal_apply_eq _ k)

/-! ## 8. Composition and the flow log-likelihood -/

section Compose
variable {X F : Type} [AddCommGroup F]

/-- `compose_inverse`: `NormalizingFlow.apply_forward` (layers reversed) inverts `apply_backward`
(layers in order) and conversely, for any list of bijectors. -/
theorem compose_inverse (ls : List (Bij X F)) (x : X) :
    (chainRun ((ls.map Bij.fwd).reverse) (chainRun (ls.map Bij.bwd) x).1).1 = x ∧
    (chainRun (ls.map Bij.bwd) (chainRun ((ls.map Bij.fwd).reverse) x).1).1 = x := by
  simp only [chain_bwd_eq, chain_fwd_eq]
  exact ⟨(Bij.chain ls).fwd_bwd x, (Bij.chain ls).bwd_fwd x⟩

/-- `compose_ldj`: the accumulated log-det is the sum of the layers' reported log-dets along the
trajectory, and the composite's log-dets are antisymmetric. -/
theorem compose_ldj (ls : List (Bij X F)) (x : X) :
    (chainRun (ls.map Bij.bwd) x).2 = tsum (ldjTrace (ls.map Bij.bwd) x) ∧
    (chainRun ((ls.map Bij.fwd).reverse) x).2 = tsum (ldjTrace ((ls.map Bij.fwd).reverse) x) ∧
    (chainRun (ls.map Bij.bwd) (chainRun ((ls.map Bij.fwd).reverse) x).1).2
      = -(chainRun ((ls.map Bij.fwd).reverse) x).2 ∧
    (chainRun ((ls.map Bij.fwd).reverse) (chainRun (ls.map Bij.bwd) x).1).2
      = -(chainRun (ls.map Bij.bwd) x).2 := by
  refine ⟨chainRun_ldj_sum _ x, chainRun_ldj_sum _ x, ?_, ?_⟩
  · simp only [chain_bwd_eq, chain_fwd_eq]; exact (Bij.chain ls).ldj_antisymm x
  · simp only [chain_bwd_eq, chain_fwd_eq]; exact (Bij.chain ls).ldj_antisymm' x

/-- `flow_log_prob`: the model log-likelihood is the base log-density of the backward image plus the
sum of the inverse log-dets; evaluated at a sample `x = forward(u)` it is the change-of-variables
formula `log p_base(u) − ldj_forward(u)`. -/
theorem flow_log_prob (ls : List (Bij X F)) (base : X → F) (x u : X) :
    flowLogProb (chainRun (ls.map Bij.bwd)) base x
      = base (chainRun (ls.map Bij.bwd) x).1 + tsum (ldjTrace (ls.map Bij.bwd) x) ∧
    flowLogProb (chainRun (ls.map Bij.bwd)) base (chainRun ((ls.map Bij.fwd).reverse) u).1
      = base u - (chainRun ((ls.map Bij.fwd).reverse) u).2 := by
  constructor
  · unfold flowLogProb; rw [chainRun_ldj_sum]
  · unfold flowLogProb
    rw [(compose_inverse ls u).2, (compose_ldj ls u).2.2.1, sub_eq_add_neg]

end Compose

/-- Non-vacuity: a RealNVP1d-like stack (coupling, batch-norm, reversed coupling) over ℝ
(`exStack`, `Lemmas/FlowsExamples.lean`), a MAF-like stack on `Fin 2 → ℝ` (`exMafStack`) and a
`CouplingBlock2d`-like block with squeeze / channel-wise coupling / un-squeeze (`exBlock`). -/
example (x : Nat → ℝ) := compose_inverse exStack x
example (x : Nat → ℝ) := compose_ldj exStack x
example (x u : Nat → ℝ) := flow_log_prob exStack (fun z => -(z 0 * z 0)) x u

example (x : Fin 2 → ℝ) := compose_inverse exMafStack x

example (x : Nat → ℝ) := multiscale_inverse [(exBlock, exScale), (exBlock, exScale)] exBlock x

end Deeprob.Flows
