import DeeprobModel.Lemmas.EmLemmas
import Mathlib.Algebra.Order.Field.Rat
set_option linter.unusedSimpArgs false
set_option linter.unusedVariables false
set_option linter.unusedSectionVars false
/-
C14 — EM keeps the model valid and applies the exact expected-statistics update.
The per-entry facts about the generated update formulas (`sum_em_simplex`, `bernoulli_em_range`,
`categorical_em_simplex`, `gaussian_em_sigma_pos`, `clt_em_cell_in_unit_*`, `clt_em_rows_normalised`,
`*_is_convex_update`) are in `Oblig/C14.lean`; here: the invariant along every prefix of the iteration sequence and
the backward pass.
-/
namespace Deeprob.C14
open Deeprob Deeprob.Oblig.C14

section inv
variable {F : Type} [Field F] [LinearOrder F] [IsStrictOrderedRing F]

/-- **em_prefix_inv**: after every prefix of the iteration sequence — any number of iterations, any batches that fit
the model (responsibilities ≥ 0, data in the leaves' domains), any `0 ≤ η ≤ 1`, whatever `sqrt` returns —
sum weights and categorical probabilities are on the simplex, Bernoulli parameters in [0,1], Gaussian standard
deviations ≥ 10⁻⁵, every CLT row has two entries in (0,1) summing to one, and the shape (`em_structure_unchanged`)
is that of the initial model. -/
theorem em_prefix_inv (sqrt : F → F) (eta : F) (h0 : 0 ≤ eta) (h1 : eta ≤ 1) (cltPreds : List (List Int))
    (batches : Nat → EmBatch F) (p0 : EmParams F) (hp : EmInv p0)
    (n : Nat) (hb : ∀ t < n, BatchOK cltPreds (emIterate genEmFns sqrt eta cltPreds batches t p0) (batches t)) :
    EmInv (emIterate genEmFns sqrt eta cltPreds batches n p0) ∧
    EmShape (emIterate genEmFns sqrt eta cltPreds batches n p0) = EmShape p0 := by
  induction n with
  | zero => exact ⟨hp, rfl⟩
  | succ n ih =>
    have ih' := ih (fun t ht => hb t (by omega))
    have := em_step_inv sqrt eta h0 h1 cltPreds _ (batches n) ih'.1 (hb n (by omega))
    exact ⟨this.1, this.2.trans ih'.2⟩

/-! non-vacuity: one node of every kind, a three-row batch, η = 1/2 -/

def exP : EmParams ℚ :=
  { sums := [[1/2, 1/2]], berns := [1/2], cats := [[1/3, 2/3]], gauss := [(0, 1)],
    clts := [[[[1/2, 1/2], [1/2, 1/2]], [[1/4, 3/4], [2/3, 1/3]]]] }

def exB : EmBatch ℚ :=
  { sumStats := [[3/2, 1/2]], bern := [([1/2, 1/4, 1], [1, 0, 1])], cat := [([1/2, 1/4, 1], [0, 1, 1])],
    gauss := [([1/2, 1/4, 1], [3, -1, 2])], clt := [([1/2, 1/4, 1], [[1, 0], [0, 0], [1, 1]])] }

def exPreds : List (List Int) := [[-1, 0]]

theorem exP_inv : EmInv exP := by
  refine ⟨?_, ?_, ?_, ?_, ?_⟩ <;> simp only [exP]
  · intro ws hws; simp at hws; subst hws; refine ⟨by simp, ?_, by norm_num [tsum]⟩; intro w hw; simp at hw; subst hw; norm_num
  · intro q hq; simp at hq; subst hq; norm_num
  · intro ws hws; simp at hws; subst hws; refine ⟨by simp, ?_, by norm_num [tsum]⟩; intro w hw; simp at hw; rcases hw with rfl | rfl <;> norm_num
  · intro ms hms; simp at hms; subst hms; norm_num
  · intro tbl htbl; simp at htbl; subst htbl
    intro blk hblk; simp at hblk
    rcases hblk with rfl | rfl <;> refine ⟨rfl, ?_⟩ <;> intro row hrow <;> simp at hrow <;>
      rcases hrow with rfl | rfl <;> exact ⟨_, _, rfl, by norm_num, by norm_num, by norm_num⟩

theorem exB_ok : BatchOK exPreds exP exB := by
  refine ⟨?_, ?_, ?_, ?_, rfl, ?_⟩ <;> simp only [exP, exB, exPreds]
  · refine List.Forall₂.cons ⟨rfl, ?_⟩ List.Forall₂.nil
    intro s hs; simp at hs; rcases hs with rfl | rfl <;> norm_num
  · refine List.Forall₂.cons ⟨?_, ?_⟩ List.Forall₂.nil
    · intro s hs; simp at hs; rcases hs with rfl | rfl | rfl <;> norm_num
    · intro s hs; simp at hs; rcases hs with rfl | rfl | rfl <;> simp
  · refine List.Forall₂.cons ⟨rfl, ?_, ?_⟩ List.Forall₂.nil
    · intro s hs; simp at hs; rcases hs with rfl | rfl | rfl <;> norm_num
    · intro s hs; simp at hs; rcases hs with rfl | rfl <;> simp
  · exact List.Forall₂.cons trivial List.Forall₂.nil
  · refine List.Forall₂.cons ⟨rfl, ?_, ?_⟩ List.Forall₂.nil
    · intro s hs; simp at hs; rcases hs with rfl | rfl | rfl <;> norm_num
    · intro row hrow i; simp at hrow
      rcases hrow with rfl | rfl | rfl <;> rcases i with _ | _ | i <;> simp

example : EmInv (emIterate genEmFns (fun x => x) (1/2) exPreds (fun _ => exB) 1 exP) ∧
    EmShape (emIterate genEmFns (fun x => x) (1/2) exPreds (fun _ => exB) 1 exP) = EmShape exP :=
  em_prefix_inv (fun x => x) (1/2) (by norm_num) (by norm_num) exPreds (fun _ => exB) exP exP_inv 1
    (fun t ht => by have : t = 0 := by omega
                    subst this; exact exB_ok)

end inv

/-! ### the backward pass -/

section backward
variable {α : Type} [CommSemiring α]
open Circ

/-- **backward_is_derivative_partial** — tree-shaped circuits. For every circuit, every node of it (given by its
path from the root) and every evidence: the root value as a function of that node's value `x` is affine with slope
`grads[node]`, the number `eval_backward` computes (product of the factors sent down the path: `w_j` through a
sum, the product of the siblings' values through a product — the division-free form of `lls[node] − lls[c]`).
Gap (hence `_partial`): in a tree every node has one parent, so `cached_grads[node]` has one entry; for DAGs the
table version `backward` (Model/Em.lean) adds the contributions of all parents, and the corresponding statement —
which also needs decomposability, otherwise the root is not affine in a shared node — is not proved here. -/
theorem backward_is_derivative_partial (e : Ev) : ∀ (path : List Nat) (c : Circ α), validPath path c → ∀ x : α,
    eval e (plug x path c) = eval e (plug 0 path c) + gradAlong e path c * x := by
  intro path
  induction path with
  | nil => intro c _ x; simp [plug, eval, gradAlong]
  | cons j p ih =>
    intro c hv x
    cases c with
    | leaf s f => simp [validPath] at hv
    | sum s ws cs =>
      simp only [validPath] at hv
      obtain ⟨hj, c', hc', hv'⟩ := hv
      simp only [plug, eval, gradAlong, hc']
      rw [wsum_modify₂ (eval e) (plug x p) (plug 0 p) (gradAlong e p c' * x) cs ws j c' hc' hj (ih c' hv' x)]
      ring
    | prod s cs =>
      simp only [validPath] at hv
      obtain ⟨c', hc', hv'⟩ := hv
      simp only [plug, eval, gradAlong, hc']
      rw [lprod_modify₂ (eval e) (plug x p) (plug 0 p) (gradAlong e p c' * x) cs j c' hc' (ih c' hv' x)]
      ring

/-- plugging a node's own value back does not change the circuit's value … -/
theorem plug_own_value (e : Ev) : ∀ (path : List Nat) (c sub : Circ α), subAt path c = some sub →
    eval e (plug (eval e sub) path c) = eval e c := by
  intro path
  induction path with
  | nil => intro c sub h; simp only [subAt, Option.some.injEq] at h; subst h; simp [plug, eval]
  | cons j p ih =>
    intro c sub h
    cases c with
    | leaf s f => simp [subAt] at h
    | sum s ws cs =>
      simp only [subAt] at h
      cases hc : cs[j]? with
      | none => simp [hc] at h
      | some c' =>
        simp only [hc] at h
        simp only [plug, eval]
        rw [map_modify_same (eval e) _ cs j c' hc (ih c' sub h)]
    | prod s cs =>
      simp only [subAt] at h
      cases hc : cs[j]? with
      | none => simp [hc] at h
      | some c' =>
        simp only [hc] at h
        simp only [plug, eval]
        rw [map_modify_same (eval e) _ cs j c' hc (ih c' sub h)]

/-- … hence `root = (root with the node zeroed) + grads[node]·value[node]`: what makes
`value[node]·grads[node]/value[root]` the posterior responsibility of the node -/
theorem root_affine_in_node_partial (e : Ev) (path : List Nat) (c sub : Circ α) (hv : validPath path c)
    (hs : subAt path c = some sub) :
    eval e c = eval e (plug 0 path c) + gradAlong e path c * eval e sub := by
  rw [← backward_is_derivative_partial e path c hv, plug_own_value e path c sub hs]

end backward

section resp
variable {F : Type} [Field F]

/-- **resp_sum_one**: at the root sum node the responsibilities of the children, weighted by the current weights,
add up to one on every row with non-zero likelihood (`grads[root] = 1`, `value[root] = Σ_c w_c·value[c]`): the
E-step really distributes one unit of mass per row. For an inner sum node the same sum is
`grads[i]·value[i]/value[root]`, the posterior probability of reaching that node. -/
theorem resp_sum_one (vals grads : List F) (root i : Nat) (x : NNode F)
    (hval : vals.getD i 0 = wsum x.ws (x.ch.map (fun c => vals.getD c 0))) :
    wsum x.ws (respSum vals grads root i x) = vals.getD i 0 * grads.getD i 0 / vals.getD root 0 := by
  unfold respSum
  have : x.ch.map (fun c => vals.getD c 0 * grads.getD i 0 / vals.getD root 0)
      = (x.ch.map (fun c => vals.getD c 0)).map (fun v => v * grads.getD i 0 / vals.getD root 0) := by
    rw [List.map_map]; rfl
  rw [this, wsum_map_mul_div, ← hval]

theorem resp_root_sum_one (vals grads : List F) (root : Nat) (x : NNode F)
    (hval : vals.getD root 0 = wsum x.ws (x.ch.map (fun c => vals.getD c 0)))
    (hg : grads.getD root 0 = 1) (hne : vals.getD root 0 ≠ 0) :
    wsum x.ws (respSum vals grads root root x) = 1 := by
  rw [resp_sum_one vals grads root root x hval, hg, mul_one, div_self hne]

end resp

/-! non-vacuity of the backward statements: a mixture of two products, the node reached by path [1, 0] -/

def exCirc : Circ ℚ :=
  .sum [0, 1] [1/4, 3/4]
    [.prod [0, 1] [Circ.catLeaf 0 [1/2, 1/2], Circ.catLeaf 1 [1/3, 2/3]],
     .prod [0, 1] [Circ.catLeaf 0 [1/5, 4/5], Circ.catLeaf 1 [1/10, 9/10]]]

example : Circ.validPath [1, 0] exCirc := by
  simp [exCirc, Circ.validPath]

/-- on the row (1, 0): `grads` of the first leaf of the second product is `w₁ · value(sibling) = 3/4 · 1/10` -/
example : Circ.gradAlong (Ev.ofList [some 1, some 0]) [1, 0] exCirc = 3/40 := by
  norm_num [exCirc, Circ.gradAlong, Circ.eval, Circ.catLeaf, Circ.catLeafFn, Ev.ofList, lprod]

example (x : ℚ) : Circ.eval (Ev.ofList [some 1, some 0]) (Circ.plug x [1, 0] exCirc)
    = Circ.eval (Ev.ofList [some 1, some 0]) (Circ.plug 0 [1, 0] exCirc) + 3/40 * x := by
  have h := backward_is_derivative_partial (Ev.ofList [some 1, some 0]) [1, 0] exCirc (by simp [exCirc, Circ.validPath]) x
  rw [h]; congr 1
  norm_num [exCirc, Circ.gradAlong, Circ.eval, Circ.catLeaf, Circ.catLeafFn, Ev.ofList, lprod]

/-- the table version agrees on this circuit stored as a node table (children first) -/
def exNet : Net ℚ :=
  [⟨5, .leaf, [0], [], [], .cat 0 [1/2, 1/2]⟩, ⟨4, .leaf, [1], [], [], .cat 1 [1/3, 2/3]⟩,
   ⟨3, .leaf, [0], [], [], .cat 0 [1/5, 4/5]⟩, ⟨2, .leaf, [1], [], [], .cat 1 [1/10, 9/10]⟩,
   ⟨1, .prod, [0, 1], [0, 1], [], .absent⟩, ⟨6, .prod, [0, 1], [2, 3], [], .absent⟩,
   ⟨0, .sum, [0, 1], [4, 5], [1/4, 3/4], .absent⟩]

example : backward exNet (evalNet (Ev.ofList [some 1, some 0]) [] exNet) 6
    = [1/4 * (1/3), 1/4 * (1/2), 3/4 * (1/10), 3/4 * (4/5), 1/4, 3/4, 1] := by
  decide +kernel

end Deeprob.C14
