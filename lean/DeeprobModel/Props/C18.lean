import DeeprobModel.Lemmas.CnetLemmas
import Mathlib.Algebra.Order.Field.Rat
import Mathlib.Data.List.Nodup
import Mathlib.Tactic.Ring
import Mathlib.Tactic.Linarith
import Mathlib.Tactic.NormNum
set_option linter.unusedSimpArgs false
set_option linter.unusedVariables false
set_option linter.unusedSectionVars false
/-
C18 — cutset networks: OR-tree semantics and normalisation (`deeprob/spn/structure/cnet.py`).
-/
namespace Deeprob.C18
open Deeprob

section semiring
variable {α : Type} [CommSemiring α]

/-! ### the queue loop computes the recursive semantics -/

/-- **cnet_eval**: for every OR tree, batch and row index `r < n`, entry `r` of what the breadth-first queue loop of
`BinaryCNet.log_likelihood` accumulates is the recursive semantics — the product of the branch weights selected
by the row at the cut variables times the value of the leaf reached. -/
theorem cnet_eval (rows : Nat → Ev) (n : Nat) (c : CNet α) (r : Nat) (hr : r < n) :
    (cnetBatch rows n c)[r]? = some (cnetEval (rows r) c) := by
  unfold cnetBatch
  rw [cnetRun_spec rows c.size [(c, List.range n)] _ (by simp [qsize]) r]
  have : (List.replicate n (1:α))[r]? = some 1 := by simp [hr]
  rw [this]
  simp [contrib, lprod, List.contains_iff_mem, hr]

/-! ### normalisation -/

/-- **cnet_normalised**: the values of a well-formed cutset network over all complete rows of its scope sum to
one (`w0 + w1 = 1` at every OR node, every leaf normalised over its own scope = parent scope minus the cut
variable). Stated for any evidence that is missing on the scope; `fun _ => none` is the instance of interest. -/
theorem cnet_normalised (dom : Nat → Nat) : (c : CNet α) → CNet.WF dom c → ∀ e : Ev, Missing c.scope e →
    sumOver dom c.scope e (fun x => cnetEval x c) = 1
  | .leaf s f, h, e, hm => by
      unfold CNet.WF at h
      simp only [CNet.scope, cnetEval] at hm ⊢
      rw [sumOver_ev_congr dom s e (fun _ => none) f s h.1 (fun _ hu => hu) (fun u hu => hm u hu)]
      exact h.2
  | .or s v w0 w1 c0 c1, h, e, hm => by
      unfold CNet.WF at h
      obtain ⟨hv, hd, hw, hs0, hs1, h0, h1⟩ := h
      simp only [CNet.scope] at hm ⊢
      have hse : scopeEq s (v :: c0.scope) := by
        intro u; rw [List.mem_cons, hs0 u]
        constructor
        · intro hu; by_cases huv : u = v
          · exact Or.inl huv
          · exact Or.inr ⟨hu, huv⟩
        · rintro (rfl | ⟨hu, _⟩)
          · exact hv
          · exact hu
      have hvn : v ∉ c0.scope := fun hc => ((hs0 v).1 hc).2 rfl
      have hs01 : scopeEq c0.scope c1.scope := fun u => by rw [hs0 u, hs1 u]
      rw [sumOver_set_eq dom hse]
      simp only [sumOver, hm v hv, hd]
      rw [sumVar_two]
      have side : ∀ (k : Nat), Missing c0.scope (e.set v k) := by
        intro k u hu
        have hne : u ≠ v := ((hs0 u).1 hu).2
        rw [Ev.set_ne _ _ hne]; exact hm u ((hs0 u).1 hu).1
      have t0 : sumOver dom c0.scope (e.set v 0) (fun x => cnetEval x (.or s v w0 w1 c0 c1)) = w0 := by
        have : sumOver dom c0.scope (e.set v 0) (fun x => cnetEval x (.or s v w0 w1 c0 c1))
            = sumOver dom c0.scope (e.set v 0) (fun x => w0 * cnetEval x c0) := by
          apply sumOver_congr; intro x hx
          have : x v = some 0 := by rw [hx v hvn]; simp
          simp only [cnetEval, this]
        rw [this, sumOver_mul, cnet_normalised dom c0 h0 _ (side 0), mul_one]
      have t1 : sumOver dom c0.scope (e.set v 1) (fun x => cnetEval x (.or s v w0 w1 c0 c1)) = w1 := by
        have : sumOver dom c0.scope (e.set v 1) (fun x => cnetEval x (.or s v w0 w1 c0 c1))
            = sumOver dom c0.scope (e.set v 1) (fun x => w1 * cnetEval x c1) := by
          apply sumOver_congr; intro x hx
          have : x v = some 1 := by rw [hx v hvn]; simp
          simp only [cnetEval, this]
        rw [this, sumOver_mul, sumOver_set_eq dom hs01,
          cnet_normalised dom c1 h1 _ (fun u hu => side 1 u ((hs01 u).2 hu)), mul_one]
      rw [t0, t1, hw]

end semiring

/-! ### the validator -/

section validator
variable {α : Type} [Field α] [LinearOrder α] [IsStrictOrderedRing α] [DecidableEq α]

/-- **cnetWellFormed_sound**: what the Boolean validator accepts (run on whatever a learner returns), together with
normalised leaves, is a well-formed cutset network: hence `cnet_normalised` applies, and the weights are in (0,1). -/
theorem cnetWellFormed_sound (dom : Nat → Nat) : (c : CNet α) → cnetWellFormedB dom c = true → CNet.LeavesOK dom c →
    CNet.WF dom c
  | .leaf s f, _, hl => by unfold CNet.LeavesOK at hl; unfold CNet.WF; exact hl
  | .or s v w0 w1 c0 c1, h, hl => by
      unfold CNet.LeavesOK at hl
      simp only [cnetWellFormedB, Bool.and_eq_true, decide_eq_true_eq, beq_iff_eq, List.contains_eq_mem] at h
      obtain ⟨⟨⟨⟨⟨⟨⟨⟨⟨hnd, hv⟩, hd⟩, e0⟩, e1⟩, hw⟩, _⟩, _⟩, r0⟩, r1⟩ := h
      have hnd' := nodupB_sound s hnd
      unfold CNet.WF
      refine ⟨hv, hd, hw, ?_, ?_, cnetWellFormed_sound dom c0 r0 hl.1, cnetWellFormed_sound dom c1 r1 hl.2⟩
      · intro u; rw [e0, hnd'.mem_erase_iff]; tauto
      · intro u; rw [e1, hnd'.mem_erase_iff]; tauto

/-- accepted weights are proper probabilities -/
theorem cnetWellFormed_weights (dom : Nat → Nat) (s : List Nat) (v : Nat) (w0 w1 : α) (c0 c1 : CNet α)
    (h : cnetWellFormedB dom (.or s v w0 w1 c0 c1) = true) : 0 < w0 ∧ w0 < 1 ∧ w1 = 1 - w0 := by
  simp only [cnetWellFormedB, Bool.and_eq_true, decide_eq_true_eq] at h
  obtain ⟨⟨⟨⟨⟨_, hw⟩, p0⟩, p1⟩, _⟩, _⟩ := h
  exact ⟨p0, by linarith, by linarith⟩

end validator

/-! ### non-vacuity: cut on X0, then on X2 in the left branch; leaves are product tables over the remaining
binary variables -/

def tbl2 (v : Nat) (p : ℚ) : Ev → ℚ := Circ.catLeafFn v [1 - p, p]

def exNet : CNet ℚ :=
  .or [0, 1, 2] 0 (1/4) (3/4)
    (.or [1, 2] 2 (2/5) (3/5) (.leaf [1] (tbl2 1 (1/3))) (.leaf [1] (tbl2 1 (1/2))))
    (.leaf [1, 2] (fun x => tbl2 1 (1/5) x * tbl2 2 (7/10) x))

def exRows : Nat → Ev
  | 0 => Ev.ofList [some 0, some 1, some 0]
  | 1 => Ev.ofList [some 1, some 0, some 1]
  | _ => Ev.ofList [some 0, some 0, some 1]

example : cnetBatch exRows 3 exNet = [1/4 * (2/5) * (1/3), 3/4 * (4/5 * (7/10)), 1/4 * (3/5) * (1/2)] := by
  decide +kernel

example : (cnetBatch exRows 3 exNet)[1]? = some (cnetEval (exRows 1) exNet) := cnet_eval exRows 3 exNet 1 (by norm_num)

def exDom : Nat → Nat := fun _ => 2

theorem exNet_wellFormedB : cnetWellFormedB exDom exNet = true := by decide +kernel

theorem tbl2_sum (v : Nat) (p : ℚ) (e : Ev) (h : e v = none) : sumOver exDom [v] e (tbl2 v p) = 1 := by
  simp only [sumOver, h, exDom]
  rw [sumVar_two]
  simp [tbl2, Circ.catLeafFn]

theorem exNet_leavesOK : CNet.LeavesOK exDom exNet := by
  unfold exNet
  simp only [CNet.LeavesOK]
  refine ⟨⟨⟨?_, tbl2_sum 1 _ _ rfl⟩, ⟨?_, tbl2_sum 1 _ _ rfl⟩⟩, ?_, ?_⟩
  · intro a b h; simp [tbl2, Circ.catLeafFn, h 1 (by simp)]
  · intro a b h; simp [tbl2, Circ.catLeafFn, h 1 (by simp)]
  · intro a b h; simp [tbl2, Circ.catLeafFn, h 1 (by simp), h 2 (by simp)]
  · simp only [sumOver, exDom]
    rw [sumVar_two, sumVar_two, sumVar_two]
    norm_num [tbl2, Circ.catLeafFn, Ev.set]

example : sumOver exDom [0, 1, 2] (fun _ => none) (fun x => cnetEval x exNet) = 1 :=
  cnet_normalised exDom exNet (cnetWellFormed_sound exDom exNet exNet_wellFormedB exNet_leavesOK)
    (fun _ => none) (fun _ _ => rfl)

end Deeprob.C18
