import DeeprobModel.Model.Learn
import DeeprobModel.Spec.LearnSpec
import DeeprobModel.Lemmas.LearnInv
import DeeprobModel.Lemmas.LearnFinal
import DeeprobModel.Props.C04
import Mathlib.Data.Rat.Defs
import Mathlib.Algebra.Order.Field.Rat
import Mathlib.Data.Rat.Cast.Order
import Mathlib.Tactic.FieldSimp
/-
C05 — learned mixture weights are the training-row proportions of their children; every leaf was fitted on
exactly its routed rows; the pinned back-of-the-deque re-queue breaks this (F3); classifier root weights.
-/
namespace Deeprob.Learn
open List

/-- **`learn_weights_follow_children`** (the C05 part of `learn_inv`): at every moment of a run of the repaired
machine, for every sum node `i` of the table, *children so far ++ pending tasks of that parent, in deque
order,* are the slices in label order — position by position — and the weights are `|slice| / |rows|` in
that same order. -/
theorem learn_weights_follow_children (cfg : Cfg) (hf : cfg.front = true) (nRows nCols : Nat) (hr : 0 < nRows)
    (hc : 0 < nCols) (script : List Ans) (fuel : Nat) (s : St)
    (h : run cfg fuel (init nRows nCols script) = .ok s) (i : Nat) (hi : i < s.size)
    (hk : (s.node i).kind = .sum) :
    ∃ labels : List Int, labels.length = (s.node i).rows.length ∧
      (s.node i).children.map (fun c => (s.node c).rows) ++ (pend s.queue i).map (·.rows)
        = slicesOf labels (s.node i).rows ∧
      (s.node i).weights = weightsOf (slicesOf labels (s.node i).rows) (s.node i).rows.length := by
  have hI := learn_inv cfg hf nRows nCols hr hc script fuel s h
  obtain ⟨h1, _, labels, h3, h4, h5⟩ := (hI.nodes i hi).sum hk
  exact ⟨labels, h3, by rw [← h4]; exact h1, by rw [← h4]; exact h5⟩

theorem Tree.Proportions.sub : (t : Tree) → t.Proportions → ∀ u ∈ t.subtrees, u.Proportions
  | .leaf r sc, h => by
    intro u hu; rw [Tree.subtrees_leaf, mem_singleton] at hu; subst hu; exact h
  | .prod r sc ch, h => by
    intro u hu
    rw [Tree.subtrees_prod, mem_cons] at hu
    rcases hu with rfl | hu
    · exact h
    · obtain ⟨l, hl, hul⟩ := mem_flatten.1 hu
      obtain ⟨c, hc, rfl⟩ := mem_map.1 hl
      exact Tree.Proportions.sub c ((Tree.proportions_prod r sc ch).1 h c hc) u hul
  | .sum r sc ws ch, h => by
    intro u hu
    rw [Tree.subtrees_sum, mem_cons] at hu
    rcases hu with rfl | hu
    · exact h
    · obtain ⟨l, hl, hul⟩ := mem_flatten.1 hu
      obtain ⟨c, hc, rfl⟩ := mem_map.1 hl
      exact Tree.Proportions.sub c (((Tree.proportions_sum r sc ws ch).1 h).2.2.2.2 c hc) u hul

theorem sum_map_div (l : List Nat) (n : ℚ) :
    (l.map (fun (k : Nat) => (k : ℚ) / n)).sum = ((l.sum : Nat) : ℚ) / n := by
  induction l with
  | nil => simp
  | cons a l ih => simp [ih, add_div]

/-- **`learn_final_proportions`** (the C05 statement). In the structure returned by the repaired machine,
for EVERY sum node: weight `i` is the exact pair `(|rows routed to child i|, |rows of the sum|)`; as
rationals the weights are positive and add up to 1. -/
theorem learn_final_proportions (cfg : Cfg) (hf : cfg.front = true) (nRows nCols : Nat) (hr : 0 < nRows)
    (hc : 0 < nCols) (script : List Ans) (s : St) (h : learn cfg nRows nCols script = .ok s)
    (hq : s.queue = []) :
    ∃ t, result s = some t ∧ ∀ r sc ws ch, Tree.sum r sc ws ch ∈ t.subtrees →
      ws = ch.map (fun c => (c.rows.length, r.length)) ∧
      (∀ w ∈ ws, (0 : ℚ) < (w.1 : ℚ) / (w.2 : ℚ)) ∧
      (ws.map (fun w => (w.1 : ℚ) / (w.2 : ℚ))).sum = 1 := by
  obtain ⟨t, h1, _, _, _, hp, _⟩ := learn_final_valid cfg hf nRows nCols hr hc script s h hq
  refine ⟨t, h1, ?_⟩
  intro r sc ws ch hu
  obtain ⟨e1, e2, e3, e4, _⟩ := (Tree.proportions_sum r sc ws ch).1 (Tree.Proportions.sub t hp _ hu)
  have hn : (0 : ℚ) < (r.length : ℚ) := by exact_mod_cast e4
  refine ⟨e1, ?_, ?_⟩
  · intro w hw
    rw [e1] at hw
    obtain ⟨c, hc, rfl⟩ := mem_map.1 hw
    have : (0 : ℚ) < (c.rows.length : ℚ) := by exact_mod_cast e2 c hc
    exact div_pos this hn
  · rw [e1, map_map]
    have : ((fun w : Nat × Nat => (w.1 : ℚ) / (w.2 : ℚ)) ∘ fun c : Tree => (c.rows.length, r.length))
        = (fun k : Nat => (k : ℚ) / (r.length : ℚ)) ∘ (fun c : Tree => c.rows.length) := rfl
    rw [this, ← map_map, sum_map_div, e3]
    exact div_self (ne_of_gt hn)

/-- **`learn_leaf_rows`.** Rows are routed: the root receives all rows, a product hands its rows to every
child, a sum hands child `i` the `i`-th label class of one labelling of its rows — and every node (in
particular every leaf `L(rows; scope)`) records exactly the rows × columns that reach it. -/
theorem learn_leaf_rows (cfg : Cfg) (hf : cfg.front = true) (nRows nCols : Nat) (hr : 0 < nRows)
    (hc : 0 < nCols) (script : List Ans) (s : St) (h : learn cfg nRows nCols script = .ok s)
    (hq : s.queue = []) :
    ∃ t, result s = some t ∧ t.rows = List.range nRows ∧ t.scope = List.range nCols ∧ t.Routed := by
  obtain ⟨t, h1, _, h3, h4, _, h6⟩ := learn_final_valid cfg hf nRows nCols hr hc script s h hq
  exact ⟨t, h1, h4, h3, h6⟩

/-! ### F3: the pinned re-queue attaches children in completion order -/

/-- weights of node `i` next to the row sets of its children, in child order -/
def sumView (s : St) (i : Nat) : List ((Nat × Nat) × List Nat) :=
  (s.node i).weights.zip ((s.node i).children.map (fun c => (s.node c).rows))

/-- 7 rows, 2 columns, `min_rows_slice = 3`, `min_cols_slice = 2`. The first row split yields three slices
A = {0,1,2}, B = {3,4}, C = {5,6}. A's column split returns a single cluster (fails once), then its row
split fails too and A becomes a leaf; B and C are leaves at once (2 < 3 rows). Consultation order on the
pinned tree (`tasks.append`): A is deferred behind B and C. -/
def wScriptBack : List Ans :=
  [.zeroVar [], .rows [0, 0, 0, 1, 1, 2, 2],
   .zeroVar [], .cols [0, 0],          -- A: column split fails → re-queued at the BACK
   .zeroVar [],                        -- B: leaf
   .zeroVar [],                        -- C: leaf
   .zeroVar [], .rows [0, 0, 0],       -- A again: row split fails → re-queued
   .zeroVar []]                        -- A: leaf

/-- the same oracle (same answer for the same slice) in the consultation order of the repaired machine -/
def wScriptFront : List Ans :=
  [.zeroVar [], .rows [0, 0, 0, 1, 1, 2, 2],
   .zeroVar [], .cols [0, 0],          -- A: column split fails → re-queued at the FRONT
   .zeroVar [], .rows [0, 0, 0],       -- A again: row split fails → re-queued at the front
   .zeroVar [],                        -- A: leaf
   .zeroVar [],                        -- B: leaf
   .zeroVar []]                        -- C: leaf

/-- **`fifo_requeue_breaks`.** On this 3-slice history the machine with the pinned discipline
(`front := false`) finishes with the sum (node 1) whose weights `3/7, 2/7, 2/7` (label order A, B, C) sit
on the children B, C, A (completion order): weight `3/7` is attached to a child fitted on 2 of the 7 rows.
The repaired machine (`front := true`) attaches A, B, C in label order. -/
theorem fifo_requeue_breaks :
    (∃ s, learn ⟨3, 2, false⟩ 7 2 wScriptBack = .ok s ∧
      (s.queue = [] ∧ s.script = [] ∧ (s.node 1).kind = .sum ∧
       sumView s 1 = [((3, 7), [3, 4]), ((2, 7), [5, 6]), ((2, 7), [0, 1, 2])] ∧
       (s.node 1).weights ≠ (s.node 1).children.map (fun c => ((s.node c).rows.length, (s.node 1).rows.length)))) ∧
    (∃ s, learn ⟨3, 2, true⟩ 7 2 wScriptFront = .ok s ∧
      (s.queue = [] ∧ s.script = [] ∧ (s.node 1).kind = .sum ∧
       sumView s 1 = [((3, 7), [0, 1, 2]), ((2, 7), [3, 4]), ((2, 7), [5, 6])] ∧
       (s.node 1).weights = (s.node 1).children.map (fun c => ((s.node c).rows.length, (s.node 1).rows.length)))) :=
  ⟨exists_ok_of_check _ _ (by decide +kernel), exists_ok_of_check _ _ (by decide +kernel)⟩

/-- the invariant clause really fails on the pinned machine: after A's re-queue at the back, children ++
pending of the sum are B, C, A — not the slices in label order -/
example : ∃ s, run ⟨3, 2, false⟩ 2 (init 7 2 wScriptBack) = .ok s ∧
    ((s.node 1).children.map (fun c => (s.node c).rows) ++ (pend s.queue 1).map (·.rows)
      = [[3, 4], [5, 6], [0, 1, 2]] ∧ (s.node 1).parts = [[0, 1, 2], [3, 4], [5, 6]]) :=
  exists_ok_of_check _ _ (by decide +kernel)

/-! ### the classifier wrapper -/

theorem learnBranches_spec (cfg : Cfg) (nCols : Nat) :
    ∀ (slices : List (List Nat)) (scripts : List (List Ans)) (ts : List Tree),
      learnBranches cfg nCols slices scripts = .ok ts →
        List.Forall₂ (fun t r => ∃ sc, learnOn cfg r nCols sc = .ok t) ts slices
  | [], _, ts, h => by
    simp [learnBranches] at h; subst h; exact List.Forall₂.nil
  | r :: rs, scs, ts, h => by
    unfold learnBranches at h
    split at h
    · cases h
    · rename_i t ht
      split at h
      · cases h
      · rename_i ts' hts
        cases h
        exact List.Forall₂.cons ⟨_, ht⟩ (learnBranches_spec cfg nCols rs scs.tail ts' hts)

theorem learnOn_rows (cfg : Cfg) (hf : cfg.front = true) (r : List Nat) (nCols : Nat) (hr : r ≠ [])
    (hc : 0 < nCols) (sc : List Ans) (t : Tree) (h : learnOn cfg r nCols sc = .ok t) :
    t.rows = r ∧ t.scope = List.range nCols ∧ t.Proportions ∧ t.Routed := by
  unfold learnOn at h
  split at h
  · cases h
  · rename_i s hs
    split at h
    · cases h
    · rename_i hq
      have hq' : s.queue = [] := by simpa using hq
      obtain ⟨t', h1, h2, h3, h4⟩ := run_final cfg hf r (List.range nCols) sc _ s hr
        (by simpa using Nat.ne_of_gt hc) hs hq'
      rw [h1] at h
      cases h
      exact ⟨h3, h4, Tree.Good.proportions _ h2, Tree.Good.routed _ h2⟩

theorem branches_rows (cfg : Cfg) (hf : cfg.front = true) (nCols : Nat) (hc : 0 < nCols)
    (ts : List Tree) (sl : List (List Nat))
    (hF : List.Forall₂ (fun c r => ∃ sc, learnOn cfg r nCols sc = .ok c) ts sl) (hne : ∀ r ∈ sl, r ≠ []) :
    ts.map Tree.rows = sl := by
  induction hF with
  | nil => rfl
  | cons hab _ ih =>
    obtain ⟨sc, hsc⟩ := hab
    rw [map_cons, (learnOn_rows cfg hf _ nCols (hne _ (mem_cons_self ..)) hc sc _ hsc).1,
      ih (fun r hr => hne r (mem_cons_of_mem _ hr))]

/-- **`classifier_root_weights`.** `learn_classifier` (without the final `prune`) returns a sum whose
children are, in `np.unique(classes)` order, the `learn_spn` results on the class slices
`data[classes == c]`, and whose weights are the class frequencies `|class slice| / n` in the same order;
with the repaired machine child `i` was learned on exactly the rows of class `i`, so the root weights are
the row proportions of the attached children. -/
theorem classifier_root_weights (cfg : Cfg) (classes : List Int) (nCols : Nat) (scripts : List (List Ans))
    (t : Tree) (h : learnClassifier cfg classes nCols scripts = .ok t) :
    ∃ ch, t = .sum (List.range classes.length) (List.range nCols)
              (weightsOf (slicesOf classes (List.range classes.length)) classes.length) ch ∧
      List.Forall₂ (fun c r => ∃ sc, learnOn cfg r nCols sc = .ok c) ch
        (slicesOf classes (List.range classes.length)) ∧
      (cfg.front = true → 0 < nCols →
        ch.map Tree.rows = slicesOf classes (List.range classes.length) ∧
        weightsOf (slicesOf classes (List.range classes.length)) classes.length
          = ch.map (fun c => (c.rows.length, classes.length))) := by
  unfold learnClassifier at h
  simp only at h
  split at h
  · cases h
  · rename_i ts hts
    cases h
    have hF := learnBranches_spec cfg nCols _ scripts ts hts
    refine ⟨ts, rfl, hF, ?_⟩
    intro hf hc
    have hlen : classes.length = (List.range classes.length).length := by simp
    have hrows : ts.map Tree.rows = slicesOf classes (List.range classes.length) :=
      branches_rows cfg hf nCols hc ts _ hF (slicesOf_ne_nil classes (List.range classes.length) hlen)
    refine ⟨hrows, ?_⟩
    rw [← hrows]; unfold weightsOf; rw [map_map]; rfl

/-- non-vacuity: three classes (labels 2, 0, 1 → `np.unique` order 0, 1, 2) on 5 rows, 1 column -/
example : ∃ t, learnClassifier ⟨5, 2, true⟩ [2, 0, 1, 0, 2] 1 [[.zeroVar []], [.zeroVar [0]], [.zeroVar []]] = .ok t :=
  ⟨_, rfl⟩

end Deeprob.Learn
