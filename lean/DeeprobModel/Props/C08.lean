import DeeprobModel.Model.Sched
import DeeprobModel.Lemmas.SchedLemmas
import DeeprobModel.Lemmas.LayersLemmas
import Mathlib.Data.List.Perm.Basic
/-
C08 — parallel evaluation equals sequential evaluation under every schedule.

Model: `Model/Sched.lean`. A layer is a list of tasks, a task a list of atomic actions; joblib may run the
tasks of one layer concurrently, i.e. execute any `Interleaving` of their action lists.
-/
namespace Deeprob.Sched
open List

/-! ## top-down: atomic OR-accumulation is schedule independent -/

/-- **C08 (top-down, repaired tree).** For every interleaving `σ` of the tasks' action lists, the final
tables equal those of the sequential execution, provided every pair of actions of DIFFERENT tasks is
`compat`: they touch different arrays / rows / cells, or both are atomic OR-updates `masks[row] |= …`
(commutative, associative, idempotent) that do not read a row the other one writes. -/
theorem topdown_atomic_schedule_indep (ts : List (List Act)) (σ : List Act) (hi : Interleaving ts σ)
    (hc : ts.Pairwise (fun t u => ∀ a ∈ t, ∀ b ∈ u, compat a b = true)) (s : SState) :
    run s σ = run s ts.flatten :=
  run_interleaving ts σ hi (hc.imp (fun h a ha b hb => compat_comm a b (h a ha b hb))) s

/-- idempotence: a duplicated OR-update (a parent listing the same child twice) changes nothing -/
theorem orInto_idem (s : SState) (r : Nat) (v : Mask) :
    apply (apply s (.orInto r v)) (.orInto r v) = apply s (.orInto r v) := by
  simp only [apply, setF_same, setF_setF, orMask_idem]

/-- two parents (tasks 1, 2 = nodes 1, 2) of one shared child (row 3), each also writing an own cell -/
def exTasks : List (List Act) :=
  [[.orFrom 3 1 (some [true, false]), .setCell 0 0 5], [.orFrom 3 2 none, .orInto 4 [true, true]]]

/-- non-vacuity: a two-parent / one-child layer, and a genuinely interleaved schedule of it -/
example : ∃ σ, Interleaving exTasks σ ∧ σ ≠ exTasks.flatten ∧
    exTasks.Pairwise (fun t u => ∀ a ∈ t, ∀ b ∈ u, compat a b = true) := by
  refine ⟨[.orFrom 3 2 none, .orFrom 3 1 (some [true, false]), .orInto 4 [true, true], .setCell 0 0 5], ?_, ?_, ?_⟩
  · refine Interleaving.step [[.orFrom 3 1 (some [true, false]), .setCell 0 0 5]] _ [.orInto 4 [true, true]] []
      rfl rfl ?_
    refine Interleaving.step [] _ [.setCell 0 0 5] [[.orInto 4 [true, true]]] rfl rfl ?_
    refine Interleaving.step [[.setCell 0 0 5]] _ [] [] rfl rfl ?_
    refine Interleaving.step [] _ [] [[]] rfl rfl ?_
    exact Interleaving.nil _ (by simp)
  · simp [exTasks]
  · simp [exTasks, compat]

/-! ## the layering -/

/-- **`layers_partition`.** When the modelled `topological_order_layered` returns `some L`: the layers are
duplicate-free and pairwise disjoint (`L.flatten.Nodup`) and contain exactly the nodes of
`collect n root` — every reachable node lies in exactly one layer, exactly once. -/
theorem layers_partition {α : Type} (n : Net α) (root : Nat) (L : List (List Nat))
    (h : layers n root = some L) (hR : ReachOK n root (Net.collect n root)) :
    L.flatten.Nodup ∧ ∀ v, v ∈ L.flatten ↔ v ∈ Net.collect n root :=
  ⟨(layers_spec n root L h hR).1, (layers_spec n root L h hR).2.1⟩

/-- **`layers_edge_lt`.** Every edge `p → c` of the reachable graph leads to a strictly later layer. -/
theorem layers_edge_lt {α : Type} (n : Net α) (root : Nat) (L : List (List Nat))
    (h : layers n root = some L) (hR : ReachOK n root (Net.collect n root))
    (p c : Nat) (hp : p ∈ Net.collect n root) (hc : c ∈ Net.chOf n p) :
    layerIndex L p < layerIndex L c := by
  obtain ⟨_, hmem, hpw, hself⟩ := layers_spec n root L h hR
  have hpL : p ∈ L.flatten := (hmem p).2 hp
  have hcL : c ∈ L.flatten := (hmem c).2 (hR.closed p hp c hc)
  have exP : ∃ A ∈ L, (fun l : List Nat => l.contains p) A = true := by
    obtain ⟨A, hA, hpA⟩ := mem_flatten.1 hpL; exact ⟨A, hA, by simpa using hpA⟩
  have exC : ∃ A ∈ L, (fun l : List Nat => l.contains c) A = true := by
    obtain ⟨A, hA, hcA⟩ := mem_flatten.1 hcL; exact ⟨A, hA, by simpa using hcA⟩
  have hi : layerIndex L p < L.length := findIdx_lt_length_of_exists exP
  have hj : layerIndex L c < L.length := findIdx_lt_length_of_exists exC
  have hpi : p ∈ L[layerIndex L p] := by
    have := findIdx_getElem (w := hi); simpa [layerIndex] using this
  have hcj : c ∈ L[layerIndex L c] := by
    have := findIdx_getElem (w := hj); simpa [layerIndex] using this
  by_contra hlt
  rcases Nat.lt_or_eq_of_le (Nat.le_of_not_lt hlt) with hlt | heq
  · exact (pairwise_iff_getElem.1 hpw _ _ hj hi hlt) p hpi c hc hcj
  · have hcj' : c ∈ L[layerIndex L p] := by
      have : L[layerIndex L c] = L[layerIndex L p] := by congr 1
      rw [← this]; exact hcj
    exact hself _ (getElem_mem hi) p hpi c hc hcj'

/-- a diamond with a shared leaf: node 3 (root) → 1, 2 → 0, children-first table -/
def exNet : Net Nat :=
  [{ id := 3, kind := .leaf, scope := [0], ch := [], ws := [], leaf := .absent },
   { id := 1, kind := .prod, scope := [0], ch := [0], ws := [], leaf := .absent },
   { id := 2, kind := .prod, scope := [0], ch := [0], ws := [], leaf := .absent },
   { id := 0, kind := .sum, scope := [0], ch := [1, 2], ws := [1, 1], leaf := .absent }]

example : layers exNet 3 = some [[3], [1, 2], [0]] := by decide +kernel
example : ReachOK exNet 3 (Net.collect exNet 3) := (reachOKB_iff exNet 3 _).1 (by decide +kernel)

/-! ## bottom-up: row writes of one layer are schedule independent -/

/-- the `eval_forward` task of node `i`: `ls[i] = f_i(ls[c] for c in children)` -/
def buTask {α : Type} (n : Net α) (f : Nat → List (List Int) → List Int) (i : Nat) : Act :=
  .evalRow i (Net.chOf n i) (f i)

/-- the tasks of one layer write pairwise distinct rows and read no row written in the layer -/
theorem bu_compat {α : Type} (n : Net α) (root : Nat) (L : List (List Nat))
    (h : layers n root = some L) (hR : ReachOK n root (Net.collect n root))
    (f : Nat → List (List Int) → List Int) (A : List Nat) (hA : A ∈ L) (i j : Nat) (hi : i ∈ A) (hj : j ∈ A)
    (hij : i ≠ j) : compat (buTask n f i) (buTask n f j) = true := by
  obtain ⟨_, _, _, hself⟩ := layers_spec n root L h hR
  simp only [buTask, compat, Bool.and_eq_true, bne_iff_ne, ne_eq, Bool.not_eq_true', contains_eq_mem,
    decide_eq_false_iff_not]
  exact ⟨⟨hij, fun hc => hself A hA i hi j hc hj⟩, fun hc => hself A hA j hj i hc hi⟩

/-- **C08 (bottom-up).** Writes go to pairwise distinct rows and no task of a layer reads a row written in
that layer (`layers_edge_lt`), hence every interleaving of the tasks of a layer of
`topological_order_layered` yields the tables of the sequential execution. -/
theorem bottomup_schedule_indep {α : Type} (n : Net α) (root : Nat) (L : List (List Nat))
    (h : layers n root = some L) (hR : ReachOK n root (Net.collect n root))
    (f : Nat → List (List Int) → List Int) (A : List Nat) (hA : A ∈ L)
    (σ : List Act) (hi : Interleaving (A.map (fun i => [buTask n f i])) σ) (s : SState) :
    run s σ = run s (A.map (buTask n f)) := by
  have hnd : A.Nodup := by
    have := (layers_spec n root L h hR).1
    exact (nodup_flatten.1 this).1 A hA
  have hpw : (A.map (fun i => [buTask n f i])).Pairwise (fun t u => ∀ a ∈ t, ∀ b ∈ u, compat a b = true) := by
    rw [pairwise_map]
    refine Pairwise.imp_of_mem ?_ hnd
    intro i j hi hj hij a ha b hb
    rw [mem_singleton] at ha hb; subst ha; subst hb
    exact bu_compat n root L h hR f A hA i j hi hj hij
  have hflat : ∀ B : List Nat, (B.map (fun i => [buTask n f i])).flatten = B.map (buTask n f) := by
    intro B
    induction B with
    | nil => rfl
    | cons a B ih => simp [ih]
  rw [topdown_atomic_schedule_indep _ σ hi hpw s, hflat]

/-- the same for schedules given as permutations (each task is a single action) -/
theorem bottomup_schedule_indep_perm {α : Type} (n : Net α) (root : Nat) (L : List (List Nat))
    (h : layers n root = some L) (hR : ReachOK n root (Net.collect n root))
    (f : Nat → List (List Int) → List Int) (A : List Nat) (hA : A ∈ L)
    (σ : List Act) (hσ : σ.Perm (A.map (buTask n f))) (s : SState) :
    run s σ = run s (A.map (buTask n f)) := by
  unfold run
  refine hσ.foldl_eq' ?_ s
  intro a ha b hb s
  rw [hσ.mem_iff] at ha hb
  obtain ⟨i, hi, rfl⟩ := mem_map.1 ha
  obtain ⟨j, hj, rfl⟩ := mem_map.1 hb
  by_cases hij : i = j
  · subst hij; rfl
  · exact compat_comm _ _ (bu_compat n root L h hR f A hA i j hi hj hij) s

/-- non-vacuity: the middle layer `[1, 2]` of the diamond, executed in the other order -/
example (s : SState) (f : Nat → List (List Int) → List Int) :
    run s [buTask exNet f 2, buTask exNet f 1] = run s ([1, 2].map (buTask exNet f)) :=
  bottomup_schedule_indep_perm exNet 3 [[3], [1, 2], [0]] (by decide +kernel)
    ((reachOKB_iff exNet 3 _).1 (by decide +kernel)) f [1, 2] (by simp) _ (Perm.swap _ _ _) s

/-! ## the pinned tree: an unsynchronised read-modify-write loses an update -/

/-- two parents (tasks 1 and 2), one shared child (row 3), batch of two samples; parent 1 routes sample 0,
parent 2 routes sample 1 -/
def lostInit : NState := { masks := fun _ => [false, false], reg := fun _ => [] }
def lostSchedule : List NAct := [.read 1 3, .read 2 3, .write 1 3 [true, false], .write 2 3 [false, true]]
def lostSeq : List NAct := splitOr 1 3 [true, false] ++ splitOr 2 3 [false, true]

/-- **`nonatomic_lost_update`.** With `masks[c.id] |= …` split into its read and its write, there is an
interleaving of the two parents' actions whose final table differs from the sequential one: the update of
parent 1 is lost (sample 0 never reaches the child). -/
theorem nonatomic_lost_update :
    Interleaving [splitOr 1 3 [true, false], splitOr 2 3 [false, true]] lostSchedule ∧
    (nrun lostInit lostSchedule).masks 3 = [false, true] ∧
    (nrun lostInit lostSeq).masks 3 = [true, true] ∧
    (nrun lostInit lostSchedule).masks ≠ (nrun lostInit lostSeq).masks := by
  refine ⟨?_, by decide, by decide, ?_⟩
  · refine Interleaving.step [] _ [.write 1 3 [true, false]] [[.read 2 3, .write 2 3 [false, true]]] rfl rfl ?_
    refine Interleaving.step [[.write 1 3 [true, false]]] _ [.write 2 3 [false, true]] [] rfl rfl ?_
    refine Interleaving.step [] _ [] [[.write 2 3 [false, true]]] rfl rfl ?_
    refine Interleaving.step [[]] _ [] [] rfl rfl ?_
    exact Interleaving.nil _ (by simp)
  · intro h
    have := congrFun h 3
    revert this; decide

/-- the atomic model on the same layer: both orders give `[true, true]` -/
example : (run ⟨fun _ => [false, false], fun _ _ => 0, fun _ => []⟩
    [.orInto 3 [false, true], .orInto 3 [true, false]]).masks 3 = [true, true] := by decide

/-! ## the lock discipline on recorded traces -/

/-- what `disciplinedB` decides (Appendix A `Disciplined`) -/
theorem disciplinedB_iff (layer : List TaskTrace) :
    disciplinedB layer = true ↔
      ∀ t ∈ layer, ∀ u ∈ layer, t.task ≠ u.task → ∀ a ∈ t.acts, ∀ b ∈ u.acts,
        conflict a b = true → a.kind = .or ∧ b.kind = .or ∧ a.locked = true ∧ b.locked = true := by
  unfold disciplinedB okPair
  simp only [all_eq_true, Bool.or_eq_true, beq_iff_eq, Bool.not_eq_true', Bool.and_eq_true]
  constructor
  · intro h t ht u hu hne a ha b hb hcf
    rcases h t ht u hu with h | h
    · exact absurd h hne
    · rcases h a ha b hb with h | h
      · rw [hcf] at h; exact absurd h (by simp)
      · exact ⟨h.1.1.1, h.1.1.2, h.1.2, h.2⟩
  · intro h t ht u hu
    by_cases he : t.task = u.task
    · exact Or.inl he
    · refine Or.inr (fun a ha b hb => ?_)
      by_cases hcf : conflict a b = true
      · obtain ⟨h1, h2, h3, h4⟩ := h t ht u hu he a ha b hb hcf
        exact Or.inr ⟨⟨⟨h1, h2⟩, h3⟩, h4⟩
      · exact Or.inl (by simpa using hcf)

/-- a disciplined pair of model actions is `compat` -/
theorem compat_of_ok (la lb : Bool) (a b : Act)
    (h : ∀ x ∈ a.accesses la, ∀ y ∈ b.accesses lb, okPair x y = true) : compat a b = true := by
  cases a with
  | orInto r v =>
    cases b with
    | orInto r' v' => rfl
    | orFrom d s sel =>
      have := h _ (mem_cons_self ..) _ (mem_cons_self ..)
      simp only [compat, bne_iff_ne]
      intro e; subst e
      revert this; simp [okPair, conflict, Access.isWrite]
    | setCell _ _ _ => rfl
    | evalRow _ _ _ => rfl
  | orFrom d s sel =>
    cases b with
    | orInto r' v' =>
      have := h _ (mem_cons_self ..) _ (mem_cons_self ..)
      simp only [compat, bne_iff_ne]
      intro e; subst e
      revert this; simp [okPair, conflict, Access.isWrite]
    | orFrom d' s' sel' =>
      have h1 := h _ (mem_cons_of_mem _ (mem_cons_self ..)) _ (mem_cons_self ..)
      have h2 := h _ (mem_cons_self ..) _ (mem_cons_of_mem _ (mem_cons_self ..))
      simp only [compat, Bool.and_eq_true, bne_iff_ne]
      constructor
      · intro e; subst e; revert h1; simp [okPair, conflict, Access.isWrite]
      · intro e; subst e; revert h2; simp [okPair, conflict, Access.isWrite]
    | setCell _ _ _ => rfl
    | evalRow _ _ _ => rfl
  | setCell r c v =>
    cases b with
    | orInto _ _ => rfl
    | orFrom _ _ _ => rfl
    | setCell r' c' v' =>
      have := h _ (mem_cons_self ..) _ (mem_cons_self ..)
      simp only [compat, Bool.not_eq_true', Bool.and_eq_false_iff, beq_eq_false_iff_ne]
      by_contra hne
      have hr : r = r' := by by_contra hr; exact hne (Or.inl hr)
      have hc : c = c' := by by_contra hc; exact hne (Or.inr hc)
      subst hr; subst hc
      revert this; simp [okPair, conflict, Access.isWrite]
    | evalRow _ _ _ => rfl
  | evalRow i rs f =>
    cases b with
    | orInto _ _ => rfl
    | orFrom _ _ _ => rfl
    | setCell _ _ _ => rfl
    | evalRow j rs' f' =>
      have hww := h _ (mem_cons_of_mem _ (mem_cons_self ..)) _ (mem_cons_of_mem _ (mem_cons_self ..))
      have hrw := h _ (mem_cons_self ..) _ (mem_cons_of_mem _ (mem_cons_self ..))
      have hwr := h _ (mem_cons_of_mem _ (mem_cons_self ..)) _ (mem_cons_self ..)
      simp only [compat, Bool.and_eq_true, bne_iff_ne, Bool.not_eq_true', contains_eq_mem,
        decide_eq_false_iff_not]
      refine ⟨⟨?_, ?_⟩, ?_⟩
      · intro e; subst e; revert hww; simp [okPair, conflict, Access.isWrite]
      · intro hm; revert hrw; simp [okPair, conflict, Access.isWrite]
        exact hm
      · intro hm; revert hwr; simp [okPair, conflict, Access.isWrite]
        exact hm

/-- **`disciplined_imp_indep`.** If the recorded traces of a layer (= the access lists of the model's
tasks, which the harness compares with the hook's records) pass the discipline check, the hypothesis of
`topdown_atomic_schedule_indep` holds, hence every interleaving equals the sequential execution. -/
theorem disciplined_imp_indep (tasks : List MTask) (hid : (tasks.map (·.task)).Nodup)
    (hd : disciplinedB (tasks.map MTask.trace) = true) :
    (tasks.map (·.acts)).Pairwise (fun t u => ∀ a ∈ t, ∀ b ∈ u, compat a b = true) ∧
    ∀ σ, Interleaving (tasks.map (·.acts)) σ → ∀ s, run s σ = run s (tasks.map (·.acts)).flatten := by
  have hpw : (tasks.map (·.acts)).Pairwise (fun t u => ∀ a ∈ t, ∀ b ∈ u, compat a b = true) := by
    rw [pairwise_map]
    have hne : tasks.Pairwise (fun t u => t.task ≠ u.task) := by
      have := hid; unfold Nodup at this; rwa [pairwise_map] at this
    refine Pairwise.imp_of_mem ?_ hne
    intro t u ht hu htu a ha b hb
    refine compat_of_ok t.locked u.locked a b ?_
    intro x hx y hy
    unfold disciplinedB at hd
    simp only [all_eq_true, Bool.or_eq_true, beq_iff_eq] at hd
    rcases hd _ (mem_map.2 ⟨t, ht, rfl⟩) _ (mem_map.2 ⟨u, hu, rfl⟩) with h | h
    · exact absurd h htu
    · exact h x (mem_flatMap.2 ⟨a, ha, hx⟩) y (mem_flatMap.2 ⟨b, hb, hy⟩)
  exact ⟨hpw, fun σ hi s => topdown_atomic_schedule_indep _ σ hi hpw s⟩

/-- non-vacuity: the two-parent layer with the lock held is disciplined; without the lock it is not -/
def exLayer (locked : Bool) : List MTask :=
  [{ task := 1, locked := locked, acts := [.orFrom 3 1 (some [true, false])] },
   { task := 2, locked := locked, acts := [.orFrom 3 2 none] }]
example : disciplinedB ((exLayer true).map MTask.trace) = true := by decide
example : disciplinedB ((exLayer false).map MTask.trace) = false := by decide
example : ((exLayer true).map (·.task)).Nodup := by decide

end Deeprob.Sched
