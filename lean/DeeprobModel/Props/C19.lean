import DeeprobModel.Lemmas.MomentNet
import DeeprobModel.Lemmas.NetValid
import Mathlib.Algebra.Order.Field.Rat
import Mathlib.Tactic.NormNum
set_option linter.unusedSimpArgs false
set_option linter.unusedVariables false
set_option linter.unusedSectionVars false
/-
C19 — moment queries return exact moments (`deeprob/spn/algorithms/moments.py`).
The derived statistics (variance / skewness / kurtosis) are obligations on generated formulas: `Oblig/C19.lean`.
-/
namespace Deeprob.C19
open Deeprob MCirc Circ
variable {α : Type} [CommSemiring α]

/-- **moment_exact** (discrete circuits). For every valid (smooth, decomposable) circuit with normalised
weights and leaves, whose leaves report their own exact raw moments, and every variable `v` of the root scope,
the recursion of `moment(root, k)` returns `E[X_v^k] = Σ_x x_v^k · c(x)`, the sum ranging over all complete
rows of the scope. Any arity, depth, commutative semiring. -/
theorem moment_exact (dom : Nat → Nat) (k v : Nat) (c : MCirc α)
    (hv : Valid dom c.toCirc) (hn : NormW c.toCirc) (hl : LeafNorm dom c.toCirc) (hm : MomOK dom k v c)
    (hin : v ∈ c.scope) :
    moment k v c = momentSpec dom k v c.toCirc := by
  unfold momentSpec
  rw [scope_toCirc]
  exact (moment_exact_aux dom k v c hv hn hl hm (fun _ => none) (fun _ _ => rfl) hin).symm

/-- closed-form raw moments of a table leaf (`rv_discrete.moment`): `Σ_j j^k·tbl[j]` is the exact raw moment -/
theorem cat_momOK (dom : Nat → Nat) (k v w : Nat) (tbl : List α) (hlen : tbl.length = dom w) :
    MomOK dom k v (MCirc.cat w tbl) := by
  unfold MCirc.cat MomOK
  intro hin
  have : v = w := by simpa using hin
  subst this
  simp only [sumOver, tblMoment, hlen]
  apply sumVar_congr; intro j
  simp [gPow, valC, catLeafFn, Ev.set_self]

/-- Bernoulli: every raw moment of order ≥ 1 is `p` (`scipy.stats.bernoulli.moment(k, p)`) -/
theorem bernoulli_moment (k : Nat) (q p : α) : tblMoment (k+1) [q, p] = p := by
  simp [tblMoment, sumVar, List.range_succ, natC, powN, MCirc.powN_one]

/-- **moment_exact on the stored table** (DAGs, sharing included): entry `root` of `momentNet` is the exact
moment of the circuit that `evalNet` evaluates (its tree unfolding `toTree`). -/
theorem momentNet_exact (dom : Nat → Nat) (k v : Nat) (dens : List α) (moms : Nat → List α) (net : Net α)
    (hw : WellOrdered net) (root : Nat) (hr : root < net.length)
    (hv : Valid dom (toTree net dens (root+1) root)) (hn : NormW (toTree net dens (root+1) root))
    (hl : LeafNorm dom (toTree net dens (root+1) root))
    (hm : MomOK dom k v (toMTree net dens moms (root+1) root))
    (hin : v ∈ (toTree net dens (root+1) root).scope) :
    (momentNet k v (moms k) net).getD root 0 = momentSpec dom k v (toTree net dens (root+1) root) := by
  rw [momentNet_refines k v dens moms net hw root hr]
  have ht := toCirc_toMTree net dens moms (root+1) root
  rw [← ht] at hv hn hl hin ⊢
  exact moment_exact dom k v _ hv hn hl hm (by simpa using hin)

/-- **general form** (continuous leaves): whatever "integration against `x_v^k`" means for the leaf
families at hand, if it is linear at sum nodes, factorises at (decomposable) product nodes, and at a leaf
returns that leaf's raw moment — or its total mass one when `v` is outside the leaf's scope — then it is what
`moment` computes. (For Gaussian / Uniform / histogram leaves the three hypotheses are linearity of the integral,
Fubini, and the textbook raw moments: DESIGN §4 item 6.) -/
theorem moment_exact_abstract (k v : Nat) (J : MCirc α → α)
    (hleaf : ∀ s f mom, J (.leaf s f mom) = if s.contains v then mom k v else 1)
    (hsum : ∀ s ws cs, J (.sum s ws cs) = wsum ws (cs.map J))
    (hprod : ∀ s cs, J (.prod s cs) = lprod (cs.map J)) :
    (c : MCirc α) → J c = moment k v c
  | .leaf s f mom => by rw [hleaf]; simp only [moment]
  | .sum s ws cs => by
      rw [hsum]; simp only [moment]; congr 1
      apply List.map_congr_left; intro c _; exact moment_exact_abstract k v J hleaf hsum hprod c
  | .prod s cs => by
      rw [hprod]; simp only [moment]; congr 1
      apply List.map_congr_left; intro c _; exact moment_exact_abstract k v J hleaf hsum hprod c

/-- **moment_zero**: order 0 is answered with ones without any computation … -/
theorem moment_zero_api (c : MCirc α) : momentApi c 0 = some ((List.range c.scope.length).map (fun _ => 1)) := by
  simp [momentApi]

/-- … and one is the exact 0-th moment (the total mass) of a valid normalised circuit -/
theorem moment_zero (dom : Nat → Nat) (v : Nat) (c : Circ α) (hv : Valid dom c) (hn : NormW c) (hl : LeafNorm dom c) :
    momentSpec dom 0 v c = 1 := by
  unfold momentSpec
  simp only [gPow, powN, one_mul]
  exact normalised dom c hv hn hl

/-- negative orders are rejected, non-negative ones answered -/
theorem moment_negative (c : MCirc α) (order : Int) : momentApi c order = none ↔ order < 0 := by
  unfold momentApi; split <;> rename_i h
  · simp [h]
  · split <;> simp [h]

/-! ### non-vacuity: a mixture of two products over a Bernoulli and a 3-valued Categorical variable -/

def exDom : Nat → Nat := fun v => if v = 0 then 2 else 3
def exCof (t4 : List ℚ) : MCirc ℚ :=
  .sum [0, 1] [2/5, 3/5]
    [.prod [0, 1] [MCirc.cat 0 [4/5, 1/5], MCirc.cat 1 [1/5, 3/10, 1/2]],
     .prod [1, 0] [MCirc.cat 1 [1/10, 1/10, 4/5], MCirc.cat 0 t4]]
def exC : MCirc ℚ := exCof [3/10, 7/10]

theorem exCof_valid (t4 : List ℚ) (h1 : t4.length = 2) (h2 : tsum t4 = 1) : Valid exDom (exCof t4).toCirc := by
  simp only [exCof, MCirc.toCirc, List.map, cat_toCirc]
  unfold Valid
  refine ⟨by simp, by simp, ?_, ?_⟩
  · intro c hc; simp at hc; rcases hc with rfl | rfl <;> (intro v; simp [Circ.scope]; try tauto)
  · intro c hc; simp at hc
    rcases hc with rfl | rfl
    · unfold Valid
      refine ⟨by simp [Circ.scope, Circ.catLeaf], by intro v; simp [Circ.scope, Circ.catLeaf], ?_⟩
      intro d hd; simp at hd
      rcases hd with rfl | rfl <;> (unfold Circ.catLeaf Valid; apply catLeaf_ok <;> norm_num [exDom, tsum])
    · unfold Valid
      refine ⟨by simp [Circ.scope, Circ.catLeaf], by intro v; simp [Circ.scope, Circ.catLeaf], ?_⟩
      intro d hd; simp at hd
      rcases hd with rfl | rfl
      · unfold Circ.catLeaf Valid; apply catLeaf_ok <;> norm_num [exDom, tsum]
      · unfold Circ.catLeaf Valid; apply catLeaf_ok
        · simpa [exDom] using h1
        · exact h2

theorem exCof_normW (t4 : List ℚ) : NormW (exCof t4).toCirc := by
  simp only [exCof, MCirc.toCirc, List.map, cat_toCirc]
  unfold NormW
  refine ⟨by norm_num [tsum], ?_⟩
  intro c hc; simp at hc
  rcases hc with rfl | rfl <;> (unfold NormW; intro d hd; simp at hd; rcases hd with rfl | rfl <;> simp [Circ.catLeaf, NormW])

theorem exCof_leafNorm (t4 : List ℚ) : LeafNorm exDom (exCof t4).toCirc := by
  simp only [exCof, MCirc.toCirc, List.map, cat_toCirc]
  unfold LeafNorm
  intro c hc; simp at hc
  rcases hc with rfl | rfl <;>
    (unfold LeafNorm; intro d hd; simp at hd; rcases hd with rfl | rfl <;> simp [Circ.catLeaf, LeafNorm, catLeafFn])

theorem exCof_momOK (t4 : List ℚ) (h1 : t4.length = 2) (k v : Nat) : MomOK exDom k v (exCof t4) := by
  unfold exCof MomOK
  intro c hc; simp at hc
  rcases hc with rfl | rfl <;>
    (unfold MomOK; intro d hd; simp at hd; rcases hd with rfl | rfl <;> (apply cat_momOK; simp [exDom, h1]))

theorem exC_valid : Valid exDom exC.toCirc := exCof_valid _ rfl (by norm_num [tsum])
theorem exC_normW : NormW exC.toCirc := exCof_normW _
theorem exC_leafNorm : LeafNorm exDom exC.toCirc := exCof_leafNorm _
theorem exC_momOK (k v : Nat) : MomOK exDom k v exC := exCof_momOK _ rfl k v

/-- all hypotheses of `moment_exact` hold for `exC`, for every order and both variables -/
example (k : Nat) : moment k 1 exC = momentSpec exDom k 1 exC.toCirc :=
  moment_exact exDom k 1 exC exC_valid exC_normW exC_leafNorm (exC_momOK k 1) (by simp [exC, exCof, MCirc.scope])

/-- the numbers of the differential run: E[X₁] = 77/50 (float32 1.5400001), E[X₁²] = 29/10, E[X₀] = 1/2 -/
example : moment 1 1 exC = 77/50 ∧ moment 2 1 exC = 29/10 ∧ moment 1 0 exC = 1/2 := by
  refine ⟨?_, ?_, ?_⟩ <;>
    norm_num [exC, exCof, moment, MCirc.cat, tblMoment, sumVar, List.range_succ, natC, powN, wsum, lprod]

example : momentApi exC 0 = some [1, 1] := by simp [moment_zero_api, exC, exCof, MCirc.scope]
example : momentSpec exDom 0 1 exC.toCirc = 1 := moment_zero exDom 1 _ exC_valid exC_normW exC_leafNorm

/-! non-vacuity of `momentNet_exact`: the same mixture stored as a node table in which the two products SHARE the
Bernoulli leaf of X₀ (node 0) — a DAG; its unfolding is `exCof [4/5, 1/5]` -/

def exNet : Net ℚ :=
  [⟨3, .leaf, [0], [], [], .cat 0 [4/5, 1/5]⟩, ⟨4, .leaf, [1], [], [], .cat 1 [1/5, 3/10, 1/2]⟩,
   ⟨5, .leaf, [1], [], [], .cat 1 [1/10, 1/10, 4/5]⟩,
   ⟨1, .prod, [0, 1], [0, 1], [], .absent⟩, ⟨2, .prod, [1, 0], [2, 0], [], .absent⟩,
   ⟨0, .sum, [0, 1], [3, 4], [2/5, 3/5], .absent⟩]

theorem exNet_unfold : toMTree exNet [] (fun _ => []) 6 5 = exCof [4/5, 1/5] := by
  simp [toMTree, exNet, exCof, MCirc.cat, LeafP.fn, LeafP.rawMoment]

theorem exNet_wellOrdered : WellOrdered exNet := by
  rw [← wellOrderedB_iff]; decide

example (k : Nat) : (momentNet k 1 [] exNet).getD 5 0 = momentSpec exDom k 1 (toTree exNet [] 6 5) := by
  have hu := exNet_unfold
  have ht := toCirc_toMTree exNet [] (fun _ => []) 6 5
  refine momentNet_exact exDom k 1 [] (fun _ => []) exNet exNet_wellOrdered 5 (by simp [exNet]) ?_ ?_ ?_ ?_ ?_
  · rw [← ht, hu]; exact exCof_valid _ rfl (by norm_num [tsum])
  · rw [← ht, hu]; exact exCof_normW _
  · rw [← ht, hu]; exact exCof_leafNorm _
  · rw [hu]; exact exCof_momOK _ rfl k 1
  · rw [← ht, hu]; simp [exCof, MCirc.toCirc, Circ.scope]

example : (momentNet 2 1 [] exNet).getD 5 0 = 29/10 := by decide +kernel

/-- F12 witness: on Bernoulli(1/5) (m1 = m2 = m3 = 1/5) the pinned numerator `m3 − m1·(3·m2 + 2·m1²)` is 8/125,
the third central moment is 12/125 (skewness 1.0 instead of 1.5). -/
theorem old_skewness_wrong :
    let m : ℚ := 1/5
    m - m * (3 * m + 2 * m ^ 2) = 8/125 ∧ m - 3 * m * m + 2 * m ^ 3 = 12/125 := by
  norm_num

end Deeprob.C19
