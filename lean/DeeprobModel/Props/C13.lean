import DeeprobModel.Spec.Io
set_option linter.unusedSimpArgs false
set_option linter.unusedVariables false
/-
C13 — the JSON round trip preserves structure and parameters (`deeprob/spn/structure/io.py`).
Guards vs. fit/EM clamps (`fit_loadable_*`, `weights_loadable`) are obligations on generated code: `Oblig/C13.lean`.
-/
namespace Deeprob.C13
open Deeprob

/-- **round8_err**: rounding to 8 decimals moves a number by at most ½·10⁻⁸ (ties included) -/
theorem round8_err (q : ℚ) : |round8 q - q| ≤ 1 / (2 * 10 ^ 8) := Deeprob.round8_err q

example : round8 (1/3) = 33333333 / 100000000 ∧ round8 (1/512) = 195312 / 100000000 ∧ round8 (3/512) = 585938 / 100000000 := by
  refine ⟨?_, ?_, ?_⟩ <;> decide +kernel

/-- **round8_idem**: a rounded number is a fixed point of the writer -/
theorem round8_idem (q : ℚ) : round8 (round8 q) = round8 q := Deeprob.round8_idem q

example : round8 (round8 (2/3)) = round8 (2/3) := round8_idem _

/-- **decode_encode**: for every model with distinct ids in which no node lists the same child twice, loading
what was saved — the links taken in *any* order, as `graph.edges` / the JSON file may list them — succeeds and
yields exactly the model with rounded float parameters: same ids, kinds, scopes, children in the same order,
every weight / parameter within ½·10⁻⁸. Any number of nodes, any arity, DAGs with sharing included. -/
theorem decode_encode (m : Model) (h : NoRepeat m) (es : List Edge) (hp : es.Perm (encode m).edges) :
    ∃ m', decode { nodes := (encode m).nodes, edges := es } = some m' ∧
      m'.map shape = m.map shape ∧ Close8 m m' := by
  refine ⟨m.map roundNode, decode_perm_encode m h es hp, ?_, ?_⟩
  · rw [List.map_map]; apply List.map_congr_left; intro n _; rfl
  · exact close8_round m

/-- the document as written, links in insertion order -/
theorem decode_encode_id (m : Model) (h : NoRepeat m) : decode (encode m) = some (m.map roundNode) :=
  decode_perm_encode m h _ (List.Perm.refl _)

/-- a DAG: sum over two products sharing the leaf with id 3 -/
def exM : Model :=
  [⟨0, "Sum", [0, 1], [1/3, 2/3], [], [1, 2]⟩,
   ⟨1, "Product", [0, 1], [], [], [3, 4]⟩,
   ⟨2, "Product", [0, 1], [], [], [5, 3]⟩,
   ⟨3, "Bernoulli", [0], [], [1/7], []⟩,
   ⟨4, "Gaussian", [1], [], [1/3, 1/100000], []⟩,
   ⟨5, "Bernoulli", [1], [], [5/8], []⟩]

theorem exM_noRepeat : NoRepeat exM := ⟨by decide, by decide⟩

example : ∃ m', decode (encode exM) = some m' ∧ m'.map shape = exM.map shape ∧ Close8 exM m' := by
  have := decode_encode exM exM_noRepeat (encode exM).edges (List.Perm.refl _)
  exact this

/-- links re-ordered as a digraph iterates them (grouped by child) still load to the same model -/
def exEdgesByChild : List Edge := [⟨1, 0, 0⟩, ⟨2, 0, 1⟩, ⟨3, 1, 0⟩, ⟨3, 2, 1⟩, ⟨4, 1, 1⟩, ⟨5, 2, 0⟩]

example : decode { nodes := (encode exM).nodes, edges := exEdgesByChild } = some (exM.map roundNode) := by
  apply decode_perm_encode exM exM_noRepeat
  decide +kernel

/-- **gen_idempotent_partial**: a reloaded model is a fixed point of save ∘ load, at the level of exact rationals.
Gap: the reload stores sum weights and array parameters as float32 and the next save rounds those floats again
(`f32 ∘ round8` on the float grid) — float storage is not modelled. -/
theorem gen_idempotent_partial (m : Model) (h : NoRepeat m) :
    decode (encode (m.map roundNode)) = some (m.map roundNode) := by
  have h' : NoRepeat (m.map roundNode) := by
    refine ⟨?_, ?_⟩
    · have : (m.map roundNode).map (·.id) = m.map (·.id) := by
        rw [List.map_map]; apply List.map_congr_left; intro n _; rfl
      rw [this]; exact h.ids
    · intro n hn
      simp only [List.mem_map] at hn
      obtain ⟨n0, hn0, rfl⟩ := hn
      exact h.children n0 hn0
  rw [decode_encode_id _ h', List.map_map]
  congr 1
  apply List.map_congr_left
  intro n _
  simp only [Function.comp, roundNode, List.map_map]
  have : (round8 ∘ round8) = round8 := by funext q; exact Deeprob.round8_idem q
  rw [this]

example : decode (encode (exM.map roundNode)) = some (exM.map roundNode) := gen_idempotent_partial exM exM_noRepeat

/-- **repeated_child_loses_edge** (known finding F15): a sum node that lists the same child object twice — accepted
by the constructors and by `check_spn` — is written to a simple digraph that keeps ONE link for the pair
(child 1, parent 0), carrying the last `idx`; loading leaves slot 0 empty (`None`). -/
def exRepeated : Model :=
  [⟨0, "Sum", [0], [1/2, 1/2], [], [1, 1]⟩, ⟨1, "Bernoulli", [0], [], [1/3], []⟩]

theorem repeated_child_loses_edge :
    (insertedEdges exRepeated).length = 2 ∧ (encode exRepeated).edges = [⟨1, 0, 1⟩] ∧
    childrenOf (encode exRepeated).edges 0 = [none, some 1] ∧ decode (encode exRepeated) = none := by
  refine ⟨by decide, by decide, by decide, ?_⟩
  decide +kernel

end Deeprob.C13
