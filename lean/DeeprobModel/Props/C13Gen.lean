import DeeprobModel.Lemmas.F32Lemmas
import DeeprobModel.Spec.Io
set_option linter.unusedSimpArgs false
set_option linter.unusedVariables false
/-
C13, "× repeated save/load generations" with single-precision storage modelled (`Model/F32.lean`):
`f32`/`f64` are IEEE-754 round-to-nearest-even on exact rationals (no overflow: faithful below 2¹²⁸ − 2¹⁰³ /
2¹⁰²⁴ − 2⁹⁷⁰); `save = round8`; `load32 = f32 ∘ f64` (float32 parameters: sum weights, Categorical / Isotonic /
CLT arrays), `load64 = f64` (Bernoulli / Gaussian / Uniform scalars).
Replaces `C13.gen_idempotent_partial`: nothing here is partial. The only modelling restriction is the absence of
overflow in `f32`/`f64`; `chain_bounded` shows every number of the chain stays below `2¹⁰¹` when `|y| ≤ 2¹⁰⁰`.
-/
namespace Deeprob.Io32
open Deeprob

/-! ## 1. the rounding functions -/

/-- **ilog2_is_floor_log2**: the exponent used by the model is `⌊log₂|q|⌋` -/
theorem ilog2_is_floor_log2 (q : ℚ) (h : q ≠ 0) : (2 : ℚ) ^ (ilog2 q) ≤ |q| ∧ |q| < (2 : ℚ) ^ (ilog2 q + 1) :=
  ilog2_spec q h

example : ilog2 (7 / 10) = -1 ∧ ilog2 (-5) = 2 ∧ ilog2 (1 / 1024) = -10 ∧ ilog2 (1023 / 1024) = -1 := by
  refine ⟨?_, ?_, ?_, ?_⟩ <;> decide +kernel

/-- **f32_idem** -/
theorem f32_idem (q : ℚ) : f32 (f32 q) = f32 q := fpr_idem 24 (by norm_num) (-149) q

example : f32 (7 / 10) = 11744051 / 16777216 ∧ f32 (f32 (7 / 10)) = f32 (7 / 10) :=
  ⟨by decide +kernel, f32_idem _⟩

/-- **f64_idem** -/
theorem f64_idem (q : ℚ) : f64 (f64 q) = f64 q := fpr_idem 53 (by norm_num) (-1074) q

example : f64 (1 / 10) = 3602879701896397 / 36028797018963968 ∧ f64 (f64 (1 / 10)) = f64 (1 / 10) :=
  ⟨by decide +kernel, f64_idem _⟩

/-- **f32_mono** (all rationals, across binades, zero and signs) -/
theorem f32_mono {a b : ℚ} (h : a ≤ b) : f32 a ≤ f32 b := fpr_mono 24 (by norm_num) (-149) h

example : f32 (16777215 / 16777216 + 1 / 2 ^ 30) ≤ f32 (1 + 1 / 2 ^ 30) := f32_mono (by norm_num)

/-- **f64_mono** -/
theorem f64_mono {a b : ℚ} (h : a ≤ b) : f64 a ≤ f64 b := fpr_mono 53 (by norm_num) (-1074) h

example : f64 (-1 / 3) ≤ f64 (1 / 3) := f64_mono (by norm_num)

/-- local spacing of binary32 at `q`: `2^max(⌊log₂|q|⌋ − 23, −149)` -/
def ulp32 (q : ℚ) : ℚ := (2 : ℚ) ^ (qexp 24 (-149) q)
/-- local spacing of binary64 at `q` -/
def ulp64 (q : ℚ) : ℚ := (2 : ℚ) ^ (qexp 53 (-1074) q)

/-- **f32_nearest**: the error is at most half the local spacing (normal and subnormal range) -/
theorem f32_nearest (q : ℚ) : |f32 q - q| ≤ ulp32 q / 2 := fpr_err 24 (-149) q

example : ulp32 (7 / 10) = 1 / 2 ^ 24 ∧ |f32 (7 / 10) - 7 / 10| ≤ ulp32 (7 / 10) / 2 ∧
    ulp32 (1 / 10 ^ 44) = 1 / 2 ^ 149 := by
  refine ⟨?_, f32_nearest _, ?_⟩
  · unfold ulp32; rw [show qexp 24 (-149) (7 / 10) = -24 by decide +kernel]; norm_num
  · unfold ulp32; rw [show qexp 24 (-149) (1 / 10 ^ 44) = -149 by decide +kernel]; norm_num

/-- **f64_nearest** -/
theorem f64_nearest (q : ℚ) : |f64 q - q| ≤ ulp64 q / 2 := fpr_err 53 (-1074) q

example : |f64 (1 / 3) - 1 / 3| ≤ ulp64 (1 / 3) / 2 := f64_nearest _

/-- **f32_nearest_repr**: no binary32 number (fixed point of `f32`) is closer to `q` than `f32 q` -/
theorem f32_nearest_repr (q g : ℚ) (hg : f32 g = g) : |f32 q - q| ≤ |g - q| :=
  fpr_nearest_repr 24 (by norm_num) (-149) q g hg

example : |f32 (7 / 10) - 7 / 10| ≤ |(11744052 / 16777216 : ℚ) - 7 / 10| :=
  f32_nearest_repr _ _ (by decide +kernel)

/-- **f64_nearest_repr** -/
theorem f64_nearest_repr (q g : ℚ) (hg : f64 g = g) : |f64 q - q| ≤ |g - q| :=
  fpr_nearest_repr 53 (by norm_num) (-1074) q g hg

example : |f64 (1 / 10) - 1 / 10| ≤ |(1 / 8 : ℚ) - 1 / 10| := f64_nearest_repr _ _ (by decide +kernel)

/-- **f32_repr**: the result is `m·2^k` with `|m| < 2²⁴`, `k ≥ −149`, and every such number is a fixed point -/
theorem f32_repr (q : ℚ) : ∃ m k : ℤ, f32 q = (m : ℚ) * (2 : ℚ) ^ k ∧ |m| < 2 ^ 24 ∧ -149 ≤ k :=
  fpr_repr 24 (by norm_num) (-149) q

example : ∃ m k : ℤ, f32 (7 / 10) = (m : ℚ) * (2 : ℚ) ^ k ∧ |m| < 2 ^ 24 ∧ -149 ≤ k := f32_repr _

/-- **f32_fixed** -/
theorem f32_fixed (m k : ℤ) (hm : |m| < 2 ^ 24) (hk : -149 ≤ k) :
    f32 ((m : ℚ) * (2 : ℚ) ^ k) = (m : ℚ) * (2 : ℚ) ^ k := fpr_fixed 24 (-149) m k hm hk

example : f32 ((11744051 : ℤ) * (2 : ℚ) ^ (-24 : ℤ)) = (11744051 : ℤ) * (2 : ℚ) ^ (-24 : ℤ) :=
  f32_fixed 11744051 (-24) (by norm_num) (by norm_num)

/-- **f32_rel_err**: relative error `≤ 2⁻²⁴` in the normal range `|q| ≥ 2⁻¹²⁶` -/
theorem f32_rel_err (q : ℚ) (hq : (2 : ℚ) ^ (-126 : ℤ) ≤ |q|) : |f32 q - q| ≤ (2 : ℚ) ^ (-24 : ℤ) * |q| := by
  have := fpr_rel_err 24 (by norm_num) (-149) q (by norm_num; norm_num at hq; exact hq)
  unfold f32
  simpa using this

example : |f32 (1 / 3) - 1 / 3| ≤ (2 : ℚ) ^ (-24 : ℤ) * |(1 / 3 : ℚ)| :=
  f32_rel_err _ (by rw [abs_of_pos (by norm_num)]; norm_num)

/-- the hypothesis is needed: in the subnormal range the relative error is unbounded -/
example : f32 (1 / 2 ^ 151) = 0 := by decide +kernel

/-- **f64_rel_err**: relative error `≤ 2⁻⁵³` in the normal range `|q| ≥ 2⁻¹⁰²²` -/
theorem f64_rel_err (q : ℚ) (hq : (2 : ℚ) ^ (-1022 : ℤ) ≤ |q|) : |f64 q - q| ≤ (2 : ℚ) ^ (-53 : ℤ) * |q| := by
  have := fpr_rel_err 53 (by norm_num) (-1074) q (by norm_num; norm_num at hq; exact hq)
  unfold f64
  simpa using this

example : |f64 (1 / 3) - 1 / 3| ≤ (2 : ℚ) ^ (-53 : ℤ) * |(1 / 3 : ℚ)| :=
  f64_rel_err _ (by
    rw [abs_of_pos (by norm_num)]
    calc (2 : ℚ) ^ (-1022 : ℤ) ≤ (2 : ℚ) ^ (-2 : ℤ) := two_zpow_le (by norm_num)
      _ ≤ 1 / 3 := by norm_num)

/-- **around64_is_save_on_f32**: NumPy's binary64 `np.around(x.astype(float64), 8)` (multiply, rint, divide) of a
float32 array entry is exactly the binary64 nearest to the correctly rounded decimal — the array writer and the
scalar writer `round(float(x), 8)` agree on float32 data -/
theorem around64_is_save_on_f32 (x : ℚ) (hx : f32 x = x) : around64 x = f64 (save x) :=
  around64_eq_save_of_f32 x hx

example : around64 (11744051 / 16777216) = f64 (69999999 / 100000000) := by
  rw [around64_is_save_on_f32 _ (by decide +kernel)]
  decide +kernel

/-! ## 2. one stored number over generations -/

/-- **docs_stable_from_gen2** (float32 parameters; EVERY rational start value `y`, in particular every float32 or
float64): with `d₁ = save y`, `y₁ = load d₁`, `d₂ = save y₁`, `y₂ = load d₂`, `d₃ = save y₂`:
`d₃ = d₂` and `y₂ = y₁` — documents and memory are stable from the second generation on. No guard is needed:
ties and powers of two included (the regime boundary is `d₁ = 1/8`, which lies on the decimal grid). -/
theorem docs_stable_from_gen2 (y : ℚ) :
    let d1 := save y; let y1 := load32 d1; let d2 := save y1; let y2 := load32 d2; let d3 := save y2
    d3 = d2 ∧ y2 = y1 := by
  intro d1 y1 d2 y2 d3
  have h : y2 = y1 := load32_save_load32 y
  exact ⟨by show save y2 = save y1; rw [h], h⟩

/-- the float64 start value 0.7 (e.g. `Sum(weights=np.array([0.7, 0.3]))`): the document changes ONCE
(0.7 → 0.69999999), then everything is stable -/
example :
    let y : ℚ := 3152519739159347 / 4503599627370496
    let d1 := save y; let y1 := load32 d1; let d2 := save y1; let y2 := load32 d2; let d3 := save y2
    d1 = 7 / 10 ∧ y1 = 11744051 / 16777216 ∧ d2 = 69999999 / 100000000 ∧ y2 = y1 ∧ d3 = d2 := by
  decide +kernel

/-- **docs_stable_from_gen2_f64** (float64 parameters: Bernoulli `p`, Gaussian `mean`/`stddev`, Uniform) -/
theorem docs_stable_from_gen2_f64 (y : ℚ) :
    let d1 := save y; let y1 := load64 d1; let d2 := save y1; let y2 := load64 d2; let d3 := save y2
    d3 = d2 ∧ y2 = y1 := by
  intro d1 y1 d2 y2 d3
  have h : y2 = y1 := load64_save_load64 y
  exact ⟨by show save y2 = save y1; rw [h], h⟩

/-- a start value above `2²⁶`, where binary64 is coarser than the decimal grid: 100000000.123456789 -/
example :
    let y : ℚ := 100000000123456789 / 1000000000
    let d1 := save y; let y1 := load64 d1; let d2 := save y1; let y2 := load64 d2; let d3 := save y2
    d1 = 10000000012345679 / 100000000 ∧ y1 ≠ d1 ∧ d2 = d1 ∧ y2 = y1 ∧ d3 = d2 := by
  decide +kernel

/-- **docs_stable_from_gen1_of_f32**: when the start value already IS a float32 (weights built from a list, EM,
any reloaded model), the DOCUMENT is stable from the first generation on (`d₂ = d₁`); only the memory value may
change once (`gen1_may_differ`). -/
theorem docs_stable_from_gen1_of_f32 (y : ℚ) (hy : f32 y = y) :
    let d1 := save y; let y1 := load32 d1; let d2 := save y1
    d2 = d1 := gen1_doc_stable32 y hy

example : f32 (2684355 / 67108864) = 2684355 / 67108864 ∧
    save (load32 (save (2684355 / 67108864))) = save (2684355 / 67108864) :=
  ⟨by decide +kernel, docs_stable_from_gen1_of_f32 _ (by decide +kernel)⟩

/-- **docs_stable_from_gen1_of_f64** (float64 parameters with a float64 start value) -/
theorem docs_stable_from_gen1_of_f64 (y : ℚ) (hy : f64 y = y) :
    let d1 := save y; let y1 := load64 d1; let d2 := save y1
    d2 = d1 := gen1_doc_stable64 y hy

example : save (load64 (save (f64 (1 / 3)))) = save (f64 (1 / 3)) :=
  docs_stable_from_gen1_of_f64 _ (f64_idem _)

/-- **gen1_may_differ**: the first generation is NOT a fixed point.
(a) the float32 `y = 2684355·2⁻²⁶ = 0.040000006556510925` (below 1/8 the float32 grid is finer than 10⁻⁸): the
    document says 0.04000001 and the reload stores the float32 nearest to THAT, `10737421·2⁻²⁸ ≠ y`;
(b) the float64 `0.7` stored into a float32 weight: also the document changes, `d₂ = 0.69999999 ≠ d₁ = 0.7`.
This is why the property says "up to rounding" and why the harness compares generation 2 with generation 3. -/
theorem gen1_may_differ :
    (let y : ℚ := 2684355 / 67108864
     f32 y = y ∧ save y = 4000001 / 100000000 ∧ load32 (save y) = 10737421 / 268435456 ∧ load32 (save y) ≠ y) ∧
    (let y : ℚ := 3152519739159347 / 4503599627370496
     f64 y = y ∧ save y = 7 / 10 ∧ save (load32 (save y)) = 69999999 / 100000000 ∧
       save (load32 (save y)) ≠ save y) := by
  decide +kernel

/-! ## 3. whole documents -/

/-- **reload_is_fixed_point**: for every model with distinct ids in which no node lists a child twice, whatever its
parameters are (float32, float64 or any rational), the first reload succeeds, keeps ids / kinds / scopes / child
order, and yields a model `m₁` that save + load reproduces EXACTLY (memory stable from generation 1 on). -/
theorem reload_is_fixed_point (m : Model) (h : NoRepeat m) :
    ∃ m1, loadDoc (encode m) = some m1 ∧ m1.map C13.shape = m.map C13.shape ∧ loadDoc (encode m1) = some m1 := by
  refine ⟨m.map reloadNode, loadDoc_encode m h, ?_, ?_⟩
  · rw [List.map_map]; apply List.map_congr_left; intro n _; rfl
  · rw [loadDoc_encode _ (noRepeat_reload m h), reload_reload]

/-- **gen_stable** (replaces `C13.gen_idempotent_partial`): the document of generation 3 equals the document of
generation 2 — nodes, rounded numbers and links — with float32 / float64 storage modelled. -/
theorem gen_stable (m : Model) (h : NoRepeat m) :
    encode (loadModel (encode (loadModel (encode m)))) = encode (loadModel (encode m)) := by
  rw [loadModel_encode m h, loadModel_encode _ (noRepeat_reload m h), reload_reload]

/-- and so for every later generation -/
theorem genDocs_stable (m : Model) (h : NoRepeat m) (g : Nat) :
    ∀ d ∈ (genDocs (g + 2) m).drop 1, d = encode (loadModel (encode m)) := by
  have hfix : ∀ g : Nat, ∀ d ∈ genDocs g (m.map reloadNode), d = encode (m.map reloadNode) := by
    intro g
    induction g with
    | zero => intro d hd; simp [genDocs] at hd
    | succ g ih =>
      intro d hd
      simp only [genDocs, List.mem_cons] at hd
      rcases hd with hd | hd
      · exact hd
      · rw [loadModel_encode _ (noRepeat_reload m h), reload_reload] at hd
        exact ih d hd
  intro d hd
  rw [loadModel_encode m h]
  simp only [genDocs, List.drop_one, List.tail_cons] at hd
  rw [loadModel_encode m h] at hd
  exact hfix (g + 1) d (by simpa [genDocs] using hd)

/-- the DAG of `C13.exM` with float64-looking parameters (1/3, 2/3, 1/7 are not even dyadic) -/
def exM : Model :=
  [⟨0, "Sum", [0, 1], [1/3, 2/3], [], [1, 2]⟩,
   ⟨1, "Product", [0, 1], [], [], [3, 4]⟩,
   ⟨2, "Product", [0, 1], [], [], [5, 3]⟩,
   ⟨3, "Bernoulli", [0], [], [1/7], []⟩,
   ⟨4, "Gaussian", [1], [], [1/3, 1/100000], []⟩,
   ⟨5, "Categorical", [1], [], [7/10, 1/5, 1/10], []⟩]

theorem exM_noRepeat : NoRepeat exM := ⟨by decide, by decide⟩

example : encode (loadModel (encode (loadModel (encode exM)))) = encode (loadModel (encode exM)) :=
  gen_stable exM exM_noRepeat

example : ∀ d ∈ (genDocs 5 exM).drop 1, d = encode (loadModel (encode exM)) := genDocs_stable exM exM_noRepeat 3

example : (genDocs 5 exM).length = 5 ∧ (genDocs 5 exM)[0]? ≠ (genDocs 5 exM)[1]? := by
  refine ⟨?_, ?_⟩ <;> decide +kernel

/-- non-vacuity of the "may differ" side on a document: generation 2 of `exM` differs from generation 1
(the Categorical entry 0.7 becomes 0.69999999, the weight 0.33333333 becomes 0.33333334), and the reload stored
float32 values in the Sum and the Categorical but the binary64 of 0.14285714 in the Bernoulli -/
example : encode (loadModel (encode exM)) ≠ encode exM ∧
    ((encode (loadModel (encode exM))).nodes.map (·.weights)).head? = some [33333334 / 100000000, 66666669 / 100000000] ∧
    ((loadModel (encode exM)).map (·.params))[3]? = some [f64 (14285714 / 100000000)] ∧
    ((loadModel (encode exM)).map (·.params))[5]? =
      some [11744051 / 16777216, 13421773 / 67108864, 13421773 / 134217728] := by
  refine ⟨?_, ?_, ?_, ?_⟩ <;> decide +kernel

example : ∃ m1, loadDoc (encode exM) = some m1 ∧ m1.map C13.shape = exM.map C13.shape ∧
    loadDoc (encode m1) = some m1 := reload_is_fixed_point exM exM_noRepeat

/-! ## 4. the model's "no overflow" restriction is harmless for the chain -/

/-- **chain_bounded**: `save` moves a number by at most ½·10⁻⁸ and the loaders are monotone with `2¹⁰¹` a fixed
point, so from `|y| ≤ 2¹⁰⁰` every document number and every stored value of every generation stays within
`[−2¹⁰¹, 2¹⁰¹]`, far below the binary32 overflow threshold `2¹²⁸ − 2¹⁰³`, where `f32` is faithful. -/
theorem chain_bounded (y : ℚ) (hy : |y| ≤ (2 : ℚ) ^ (100 : ℤ)) :
    |save y| ≤ (2 : ℚ) ^ (101 : ℤ) ∧ |load32 (save y)| ≤ (2 : ℚ) ^ (101 : ℤ) ∧
    |load64 (save y)| ≤ (2 : ℚ) ^ (101 : ℤ) ∧
    |save (load32 (save y))| ≤ (2 : ℚ) ^ (101 : ℤ) ∧ |save (load64 (save y))| ≤ (2 : ℚ) ^ (101 : ℤ) := by
  have hB : (0 : ℚ) < (2 : ℚ) ^ (101 : ℤ) := two_zpow_pos _
  have hB8 : save ((2 : ℚ) ^ (101 : ℤ)) = (2 : ℚ) ^ (101 : ℤ) := round8_pow_fixed 101 (by norm_num)
  have h64 : f64 ((2 : ℚ) ^ (101 : ℤ)) = (2 : ℚ) ^ (101 : ℤ) :=
    fpr_pow_fixed 53 (by norm_num) (-1074) 101 (by norm_num)
  have h32 : f32 ((2 : ℚ) ^ (101 : ℤ)) = (2 : ℚ) ^ (101 : ℤ) :=
    fpr_pow_fixed 24 (by norm_num) (-149) 101 (by norm_num)
  -- every map involved is monotone, odd and fixes the bound
  have bnd : ∀ f : ℚ → ℚ, (∀ a b, a ≤ b → f a ≤ f b) → (∀ a, f (-a) = -f a) →
      f ((2 : ℚ) ^ (101 : ℤ)) = (2 : ℚ) ^ (101 : ℤ) → ∀ z, |z| ≤ (2 : ℚ) ^ (101 : ℤ) → |f z| ≤ (2 : ℚ) ^ (101 : ℤ) := by
    intro f hm ho hf z hz
    rw [abs_le] at hz ⊢
    constructor
    · have := hm _ _ hz.1; rw [ho, hf] at this; exact this
    · have := hm _ _ hz.2; rw [hf] at this; exact this
  have bsave := bnd save (fun a b h => round8_mono h) round8_neg hB8
  have bl32 := bnd load32 (fun a b h => f32_mono (f64_mono h)) load32_neg (by unfold load32; rw [h64, h32])
  have bl64 := bnd load64 (fun a b h => f64_mono h) load64_neg h64
  have h0 : |y| ≤ (2 : ℚ) ^ (101 : ℤ) := le_trans hy (two_zpow_le (by norm_num))
  have h1 := bsave y h0
  exact ⟨h1, bl32 _ h1, bl64 _ h1, bsave _ (bl32 _ h1), bsave _ (bl64 _ h1)⟩

example : |save (load32 (save (2 ^ 100 - 1 / 3)))| ≤ (2 : ℚ) ^ (101 : ℤ) :=
  (chain_bounded (2 ^ 100 - 1 / 3) (by
    rw [abs_of_pos (by norm_num)]; norm_num)).2.2.2.1

end Deeprob.Io32
