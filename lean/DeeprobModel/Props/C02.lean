import DeeprobModel.Props.C01
/-
C02 — NaN marginals equal the sum over all completions. Property theorems only.
-/
namespace Deeprob
variable {α : Type} [CommSemiring α]

/-- the value the bottom-up pass returns for a row with missing entries equals the explicit sum,
over every completion of the missing entries of the root scope, of the complete-evidence values —
row by row, any missing pattern, trees and DAGs, any leaf that is a distribution (`LeafOK`:
Bernoulli, Categorical, Chow-Liu-tree leaves by `Clt.clt_leafOK`) -/
theorem C02_marginal (dom : Nat → Nat) (net : Net α) (dens : List α) (hw : WellOrdered net)
    (hok : ∀ i (x : NNode α), net[i]? = some x → NodeOK dom net dens i x)
    (root : Nat) (hr : root < net.length) (e : Ev) :
    (evalNet e dens net).getD root 0
      = sumOver dom (scopeOf net root) e (fun e' => (evalNet e' dens net).getD root 0) := by
  have hv := valid_toTree dom net dens hw hok root hr
  rw [evalNet_refines e dens net hw root hr, Circ.marg dom _ hv e, scope_toTree net dens root root hr]
  apply sumOver_congr; intro e' _
  exact (evalNet_refines e' dens net hw root hr).symm

/-- a row with every variable missing has likelihood one (log-likelihood zero) -/
theorem C02_all_missing (dom : Nat → Nat) (net : Net α) (dens : List α) (hw : WellOrdered net)
    (hok : ∀ i (x : NNode α), net[i]? = some x → NodeOK dom net dens i x)
    (hnw : NetNormW net) (hln : NetLeafNorm net dens) (root : Nat) (hr : root < net.length) :
    (evalNet (fun _ => none) dens net).getD root 0 = 1 := by
  rw [evalNet_refines _ dens net hw root hr]
  exact Circ.all_missing_one dom _ (valid_toTree dom net dens hw hok root hr)
    (normW_toTree net dens hw hnw root hr) (leafNorm_toTree dom net dens hw hln root hr)

/-- non-vacuity on the shared-leaf DAG of C01: the marginal over variable 2 with variable 0 observed -/
example : (evalNet (Ev.ofList [some 1, none, none]) [] exNet).getD 5 0
    = sumOver (fun v => if v = 1 then 0 else 2) [0, 2] (Ev.ofList [some 1, none, none])
        (fun e' => (evalNet e' [] exNet).getD 5 0) := by decide +kernel

end Deeprob
