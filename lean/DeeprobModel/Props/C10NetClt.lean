import DeeprobModel.Lemmas.ExpandClt
import DeeprobModel.Lemmas.CltExample
import DeeprobModel.Props.C10Net
set_option linter.unusedSectionVars false
set_option linter.unusedSimpArgs false
set_option linter.unusedVariables false
/-
C10 at DAG level with Chow-Liu-tree leaves (`marginalizeNetClt`, Model/RewriteNetClt.lean): the code's
`nodes_map[node.id] = marginalize(node.to_pc(), clt_scope, copy=False)` for `BinaryCLT` leaves, modelled by converting
every Chow-Liu leaf to the table of its `to_pc()` (`Clt.pcNet`, with the sharing the code creates) before the pass.
-/
namespace Deeprob
open Net Clt

/-! ### example: `P( CLT over {7,2,9,4}, Bernoulli(1) )`, the Chow-Liu tree of `Lemmas/CltExample.lean` -/
namespace C10c
def net : Net Rat :=
  [ { id := 1, kind := .leaf, scope := Ex.scope, ch := [], ws := [], leaf := .clt Ex.pred Ex.cpt },
    { id := 2, kind := .leaf, scope := [1], ch := [], ws := [], leaf := .cat 1 [1/3, 2/3] },
    { id := 0, kind := .prod, scope := [7, 2, 9, 4, 1], ch := [0, 1], ws := [], leaf := .absent } ]

def view (r : Except String (Net Rat × List Nat)) : List (Kind × List Nat × List Nat × List Rat) :=
  match r with
  | .ok p => p.1.map (fun x => (x.kind, x.scope, x.ch, x.ws))
  | .error _ => []

theorem cltOK : CltOK Ex.scope Ex.pred Ex.cpt :=
  { tree := Ex.isTree_eq, len := Ex.scope_len, rootRows := Ex.root_rows
    rows := by
      intro r hr j hj l hl
      rw [Ex.root_eq] at hr
      have : r = 0 := by simpa using hr.symm
      subst this
      rw [Ex.build_eq] at hj
      exact Ex.rows j hj l hl }

theorem wellOrdered : WellOrdered net := (wellOrderedB_iff net).1 (by decide)
theorem sumOK : NetSumOK net := by
  intro i x hx hk
  match i, hx with
  | 0, hx => simp [net] at hx; subst hx; simp at hk
  | 1, hx => simp [net] at hx; subst hx; simp at hk
  | 2, hx => simp [net] at hx; subst hx; simp at hk
  | n+3, hx => simp [net] at hx
theorem nodeOK : ∀ (i : Nat) (x : NNode Rat), net[i]? = some x → XNodeOK net x := by
  intro i x hx
  match i, hx with
  | 0, hx => simp [net] at hx; subst hx; exact Or.inr ⟨_, _, rfl, cltOK⟩
  | 1, hx => simp [net] at hx; subst hx; exact Or.inl ⟨1, rfl, Or.inl ⟨_, rfl⟩⟩
  | 2, hx =>
    simp [net] at hx; subst hx
    show scopeEq _ _
    simp [scopeOf, net, Ex.scope, scopeEq]
  | n+3, hx => simp [net] at hx

/-- the result for `keep = [2, 9, 1]`: what the code returns (kinds, scopes, child order, weights, sharing of the four
indicator leaves between the two rows) — `P( S{.3,.7}( P(S₉⁰, S₂⁰), P(S₉¹, S₂¹) ), Bernoulli(1) )`; and for
`keep = [4]`: `S{229/500, 271/500}` over the two indicator leaves of variable 4 -/
theorem results :
    view (marginalizeNetClt [2, 9, 1] net 2) =
      [(.leaf, [9], [], []), (.leaf, [9], [], []), (.sum, [9], [0, 1], [1/2, 1/2]),
       (.leaf, [2], [], []), (.leaf, [2], [], []), (.sum, [2], [3, 4], [1/5, 4/5]),
       (.prod, [9, 2], [2, 5], []),
       (.sum, [9], [0, 1], [9/10, 1/10]), (.sum, [2], [3, 4], [3/5, 2/5]), (.prod, [9, 2], [7, 8], []),
       (.sum, [9, 2], [6, 9], [3/10, 7/10]), (.leaf, [1], [], []), (.prod, [9, 2, 1], [10, 11], [])] ∧
    view (marginalizeNetClt [4] net 2) =
      [(.leaf, [4], [], []), (.leaf, [4], [], []), (.sum, [4], [0, 1], [229/500, 271/500])] := by
  -- `pcNet` is compiled by well-founded recursion: unfold it with its equation before the kernel evaluates
  constructor <;>
  · unfold marginalizeNetClt expandWith net
    simp only [List.foldl_cons, List.foldl_nil, expandStep, toPcNet, Ex.root_eq, Ex.build_eq]
    unfold Ex.tree
    simp only [pcNet_node, List.map_cons, List.map_nil, List.isEmpty_cons, List.isEmpty_nil, if_true, if_false,
      pcScope, Bool.false_eq_true]
    decide +kernel
end C10c

variable {α : Type} [CommSemiring α]

/-- **C10 at DAG level with Chow-Liu leaves, value**: whenever `marginalizeNetClt` returns a table, its root (last
entry) has, under every evidence in which all variables outside the kept set are missing, the value the original table
— Chow-Liu leaves evaluated by message passing (`Clt.value`) — has at `root`. The densities of continuous leaves are
read at the indices of the expanded table (`(expandWith dens net).2.2`).
Hypotheses: children-first storage; every sum has one weight per child and weights summing to one; sums non-empty and
smooth, product scopes = union of the child scopes; leaves are single-variable table / density leaves or well-formed
Chow-Liu leaves (`CltOK`: rooted spanning tree, equal root rows, normalised rows). -/
theorem marginalizeNetClt_eval (keep : List Nat) (net : Net α) (root : Nat)
    (hw : WellOrdered net) (hs : NetSumOK net)
    (hn : ∀ (i : Nat) (x : NNode α), net[i]? = some x → XNodeOK net x)
    (hr : root < net.length) (out : Net α) (order : List Nat)
    (h : marginalizeNetClt keep net root = .ok (out, order))
    (e : Ev) (he : ∀ v, v ∉ keep → e v = none) (dens : List α) :
    out ≠ [] ∧
    nval e (order.map (fun i => (expandWith dens net).2.2.getD i 0)) out (out.length - 1) = nval e dens net root := by
  have I := xinv_final net dens e hw hs hn
  obtain ⟨i1, i2⟩ := expandWith_indep [] dens net
  unfold marginalizeNetClt at h
  simp only [i1, i2] at h
  generalize expandWith dens net = X at h I
  have hroot : X.2.1.getD root 0 < X.1.length := I.map_lt root hr
  have key := marginalizeNetWith_eval true keep X.1 (X.2.1.getD root 0) I.ok.wo I.ok.sumOK I.ok.nodeOK hroot
    out order h e he X.2.2
  refine ⟨key.1, ?_⟩
  rw [key.2, I.val root hr, List.take_length]

example : ∃ out order, marginalizeNetClt [2, 9, 1] C10c.net 2 = .ok (out, order) ∧
    ∀ (e : Ev) (dens : List Rat), (∀ v, v ∉ [2, 9, 1] → e v = none) →
      nval e (order.map (fun i => (expandWith dens C10c.net).2.2.getD i 0)) out (out.length - 1)
        = nval e dens C10c.net 2 := by
  cases h : marginalizeNetClt [2, 9, 1] C10c.net 2 with
  | error s =>
    have := C10c.results.1
    rw [h] at this; simp [C10c.view] at this
  | ok r =>
    exact ⟨r.1, r.2, rfl, fun e dens he =>
      (marginalizeNetClt_eval [2, 9, 1] C10c.net 2 C10c.wellOrdered C10c.sumOK C10c.nodeOK (by decide) r.1 r.2 h e he
        dens).2⟩

/-- the expansion alone: every node of the expanded table has the value of the node it stands for, for EVERY
evidence (no restriction to the kept variables), and the expanded table satisfies the hypotheses of
`marginalizeNetWith_eval` / `pruneNetWith_eval` -/
theorem expandWith_eval (net : Net α) (hw : WellOrdered net) (hs : NetSumOK net)
    (hn : ∀ (i : Nat) (x : NNode α), net[i]? = some x → XNodeOK net x) (e : Ev) (dens : List α) (i : Nat)
    (hi : i < net.length) :
    nval e (expandWith dens net).2.2 (expandWith dens net).1 ((expandWith dens net).2.1.getD i 0) = nval e dens net i ∧
    TableOK (expandWith dens net).1 := by
  have I := xinv_final net dens e hw hs hn
  refine ⟨?_, I.ok⟩
  rw [I.val i hi, List.take_length]

example : ∀ (e : Ev) (dens : List Rat),
    nval e (expandWith dens C10c.net).2.2 (expandWith dens C10c.net).1 ((expandWith dens C10c.net).2.1.getD 2 0)
      = nval e dens C10c.net 2 :=
  fun e dens => (expandWith_eval C10c.net C10c.wellOrdered C10c.sumOK C10c.nodeOK e dens 2 (by decide)).1

end Deeprob
