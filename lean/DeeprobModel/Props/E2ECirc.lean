import DeeprobModel.Lemmas.E2ELemmas
import DeeprobModel.Oblig.Struct3Inference
import DeeprobModel.Oblig.C01
import DeeprobModel.Props.C01
import DeeprobModel.Props.C02
import DeeprobModel.Oblig.Struct3Moments
import DeeprobModel.Oblig.C19
import DeeprobModel.Props.C19
import DeeprobModel.Props.LeafTheory
import DeeprobModel.Oblig.Struct3Em
import DeeprobModel.Props.C14Net
import DeeprobModel.Oblig.Struct4Rewrite
import DeeprobModel.Oblig.StructRewrite
import DeeprobModel.Props.C10Net
import DeeprobModel.Props.C10NetMore
import DeeprobModel.Oblig.Struct4Sampling
import DeeprobModel.Oblig.C07
import DeeprobModel.Props.C07
/-
END-TO-END corollaries, circuits: the property theorems of `Props/*.lean` stated DIRECTLY about the definitions the
translator extracts from the current source (`Generated/Formulas.lean`, `Generated/Consts.lean`: `Gen.…`, `Gen.S3…`,
`Gen.S4…`), by composing the "as coded" obligations (`Oblig/*.lean`) with the property theorems about the hand-written
model.  One section per item; each says what is generated, what is not (loops around generated bodies are written out in
`Deeprob.E2E` as definitions that call the generated definitions), and which ingredients are composed.

Contents: item 1 (C01/C02 `e2e_eval_forward…`), item 2 (C01 log domain `e2e_log_likelihood…`), item 8 (C19 `e2e_moment…`),
item 12 (C14 `e2e_resp…`), item 4 (C10 `e2e_marginalize…`), item 11 (C07 `e2e_sum_sample_branch…`).

### item 1 — C01 / C02 `e2e_eval_forward…`
END-TO-END corollaries, circuits (C01 / C02): the property theorems of `Props/C01.lean`, `Props/C02.lean` stated
DIRECTLY about the definitions the translator extracts from the current source (`Generated/Formulas.lean`,
`Gen.S3…`), by composing the "as coded" obligations of `Oblig/Struct3Inference.lean` with the property theorems
about the hand-written model.

What is generated and what is not.  The translator extracts the BODY of `eval_forward` (`Gen.S3evalForwardInner`:
stack the stored values of the children in child order, hand them to `node_func`), `node_likelihood`
(`Gen.S3nodeLikelihood`), `Sum.likelihood` / `Product.likelihood` (`Gen.S3sumLikelihood`, `Gen.S3productLikelihood`)
and the `likelihood` methods of the Bernoulli and Categorical leaves.  The LOOP around `eval_forward`
(`for node in reversed(topological_order(root)): eval_forward(node)`) is not a fragment of its own; `genTable` below is
that loop written out — one call of the generated body per table index, in table order — and nothing else.  The order
in which the code visits the nodes is children-first (`Props/Topo.lean: kahn_topological`); the exported table is
stored in such an order (`WellOrdered`).

### (2) C01 log domain `e2e_log_likelihood…` (prefix `ll`)
GENERATED: `node_log_likelihood` (`Gen.S3nodeLogLikelihood`, with the floor), `Sum.log_likelihood`, `Product.log_likelihood`,
`Bernoulli.log_likelihood`, `Categorical.log_likelihood`, the body of `eval_forward` (`Gen.S3evalForwardInner`).  NOT
generated: the loop around `eval_forward` (`llTable` writes it out, mirror of `genTable` of `Props/E2ECirc.lean`).
Composed: `Struct3.node_log_likelihood_sum`, `node_log_likelihood_prod` (hence `sum_log_likelihood_as_coded`,
`product_log_likelihood_as_coded`), `bernoulli_log_likelihood_as_coded`, `categorical_log_likelihood_as_coded`,
`Oblig.floor_inactive` with `e2e_eval_forward` (= `evalNode_inner_as_coded` + `C01_semantics`).

### item 8 — C19 `moments.moment` (prefix `mo`)
GENERATED: `Gen.S3leafMoment` (`leaf_moment`: the leaf's moment inside its scope, 1 outside), `Gen.S3nodeLikelihood` ∘
`Gen.S3sumLikelihood` / `Gen.S3productLikelihood` (the `node_func` of the pass, named by `Gen.S3momentNodeFunc`),
`Gen.S3evalForwardInner` (body of `eval_forward`), `Gen.S3momentCase` / `Gen.S3momentExits` (the exits of `moment`),
`Gen.variance` / `Gen.skewness` / `Gen.kurtosis`.  NOT generated: the loop of the bottom-up pass (`moGenTree` = the
recursion on a tree, `moGenTable` = the loop over a children-first table, both written out here around the generated
pieces), the list comprehension over the variables in `moGenApi`, and the leaves' own closed forms `node.moment(k)`
(opaque: `mom` in `MCirc.leaf`, `LeafP.rawMoment` on tables — for table leaves the hand-written `tblMoment`, tied to the
specification by `C19.cat_momOK` / `LeafTheory.categorical_leaf_moment_exact` but to no generated definition).
Composed: `Struct3.leaf_moment_as_coded`, `moment_inner_as_coded`, `momNode_as_coded`, `momentApi_as_coded`,
`Oblig.C19.variance_is_central2`, `skewness_is_central3`, `kurtosis_is_excess` with `C19.moment_exact`,
`C19.momentNet_exact`, `C19.moment_exact_abstract`, `C19.moment_negative`, `C19.moment_zero_api`, `C19.moment_zero`,
`LeafTheory.categorical_leaf_moment_exact`.

### item 12 — C14 the responsibilities of `expectation_maximization` (prefix `rs`)
GENERATED: `Gen.S3emRespSum` (`np.exp(children_ll - root_ll + grads[node.id])`, one entry).  NOT generated: the forward
pass (the model's `evalNet`; `e2e_resp_gen` uses the generated linear-domain pass `genTable` of `Props/E2ECirc.lean`
instead), the backward pass `eval_backward` (the model's `backward`, linear domain), and the loop over the children
(`rsGenResp`, written out here).  The code works in the log domain; the generated expression is evaluated on the logarithms
of the model's linear-domain numbers, which is why every statement carries the positivity hypotheses `RsPos`.
Composed: `Struct3.resp_entry_as_coded`, `respSum_as_coded` with `C14.backward_is_derivative`, `C14.resp_is_posterior`,
`C14.resp_is_mass_through_node`, `C14.resp_root_sums_to_one`, `C14.backward_root_one`.

### item 4 — C10, `deeprob/spn/algorithms/structure.py: marginalize` (prefix `mg`)

GENERATED: the three argument guards (`Gen.margGuardChain`) and the BODY of the first pass (`Gen.S4margStep`).  The loop
around the body is already written out in `Oblig/Struct4Rewrite.lean` (`Struct4.genStep`, `Struct4.margPassGen`: one call
of the generated body per table entry, in storage order) and `Struct4.margPass_as_coded` covers the whole loop, so it is
used as it stands.  `mgGenMarginalize` below is the function around it: generated guards, the model's test for leaves the
net-level model does not treat (`margUnsupported`, NOT generated), the generated pass, then the MODELLED `prune`
(`pruneNet`; `pruneNet_is_repaired` says it is the repaired variant) and the canonical export.
Composed: `StructRewrite.margGuard_as_coded`, `Struct4.margPass_as_coded`, `StructRewrite.pruneNet_is_repaired` with
`marginalizeNetWith_eval`, `marginalizeNet_eval`, `marginalizeNet_shape`, `marginalizeNet_total`, `marginalize_guards`,
`marginalize_guard_reasons`.

### (11) C07 `e2e_sum_sample_branch…` — branch law of `sum_sample` (prefix `ss`)
GENERATED: the score entry `Gen.S4sumSampleEntry` (`lls + np.log(weights) + gumbel`), the noise law / location / scale and
the selector as constants.  NOT generated, NOT proved: the Gumbel-max identity — it is the NAMED HYPOTHESIS
`hGumbelMax_trusted : ssGumbelMaxIdentity E argmaxLaw` of every theorem of this section.
Composed: `Struct4.sumSampleEntry_as_coded`, `branchPmf_as_coded`, `sumSample_frame_as_coded`,
`Oblig.sum_sample_noise_is_standard_gumbel_r` with `C07.topDownPmf_exact`.
-/
set_option linter.unusedSectionVars false
set_option linter.unusedSimpArgs false
set_option linter.unusedVariables false
set_option linter.unnecessarySeqFocus false
namespace Deeprob.E2E

section item1
open Deeprob

variable {F : Type} [Field F] [LinearOrder F] [IsStrictOrderedRing F]

/-! ### the generated bottom-up pass -/

/-- a leaf object of the source with a table density: `Bernoulli(scope=[v], p)` or
`Categorical(scope=[v], probabilities=probs)` with categories `0 .. len(probs)-1` -/
inductive SrcLeaf (F : Type) where
  | bernoulli (v : Nat) (p : F)
  | categorical (v : Nat) (probs : List F)
deriving Inhabited

/-- the model's table leaf for a source leaf (`Bernoulli(p)` is the table `[1 - p, p]`) -/
def SrcLeaf.toModel : SrcLeaf F → LeafP F
  | .bernoulli v p => .cat v [1 - p, p]
  | .categorical v probs => .cat v probs

/-- `leaf_func(n, x[:, n.scope])` with `leaf_func = node.likelihood`: the GENERATED `Bernoulli.likelihood` /
`Categorical.likelihood` on the row's entry of the leaf's variable -/
def SrcLeaf.genValue (e : Ev) : SrcLeaf F → F
  | .bernoulli v p => Gen.S3bernoulliLikelihood p (e v)
  | .categorical v probs => Gen.S3categoricalLikelihood (List.range probs.length) probs (e v)

/-- `node_func(n, ·)` with `node_func = node_likelihood`: the GENERATED `node_likelihood` around the GENERATED
`likelihood` method of the node stored at index `j` -/
def genNodeFunc (net : Net F) (j : Nat) : List F → F :=
  match net[j]? with
  | some y => (match y.kind with
      | .sum => Gen.S3nodeLikelihood (Gen.S3sumLikelihood y.ws)
      | .prod => Gen.S3nodeLikelihood Gen.S3productLikelihood
      | .leaf => fun _ => 0)
  | none => fun _ => 0

/-- one call `eval_forward(n)` for the node at table index `i`: a leaf stores the generated leaf likelihood, an inner node
the GENERATED `Gen.S3evalForwardInner` (nodes are their table indices: `nid = id`, `children = Net.chOf net`);
`vals` = the values stored so far -/
def genEntry (e : Ev) (net : Net F) (leaves : Nat → SrcLeaf F) (vals : List F) (i : Nat) : F :=
  match net[i]? with
  | none => 0
  | some x =>
    if x.kind = .leaf then (leaves i).genValue e
    else Gen.S3evalForwardInner (N := Nat) id (Net.chOf net) (genNodeFunc net) (fun c => vals.getD c 0) i

/-- the loop `for node in reversed(ordering): eval_forward(node)` over a table stored children-first -/
def genTable (e : Ev) (net : Net F) (leaves : Nat → SrcLeaf F) : List F :=
  (List.range net.length).foldl (fun vals i => vals ++ [genEntry e net leaves vals i]) []

/-- every leaf of the table is the model's rendering of the source leaf at that index -/
def TableLeaves (net : Net F) (leaves : Nat → SrcLeaf F) : Prop :=
  ∀ i (x : NNode F), net[i]? = some x → x.kind = .leaf → x.leaf = (leaves i).toModel

/-! ### linking lemmas -/

/-- the generated leaf likelihood is the model's leaf function (`bernoulli_likelihood_as_coded`,
`categorical_likelihood_as_coded`) -/
theorem srcLeaf_genValue (e : Ev) (l : SrcLeaf F) (scope : List Nat) (d : F) :
    l.genValue e = l.toModel.fn scope d e := by
  cases l with
  | bernoulli v p => exact Struct3.bernoulli_likelihood_as_coded p v e
  | categorical v probs => exact Struct3.categorical_likelihood_as_coded probs v e

/-- **one call of the generated body = one `evalNode`** (`evalNode_inner_as_coded` + the leaf obligations) -/
theorem genEntry_eq_evalNode (e : Ev) (dens : List F) (net : Net F) (leaves : Nat → SrcLeaf F)
    (hl : TableLeaves net leaves) (i : Nat) (x : NNode F) (hx : net[i]? = some x) (vals : List F) :
    genEntry e net leaves vals i = evalNode e dens vals x := by
  rw [Struct3.evalNode_inner_as_coded]
  unfold genEntry
  simp only [hx]
  cases hk : x.kind with
  | leaf =>
    simp only [if_true]
    rw [hl i x hx hk]
    exact srcLeaf_genValue e (leaves i) x.scope _
  | sum =>
    simp only [reduceCtorEq, if_false]
    simp only [Gen.S3evalForwardInner, Net.chOf, genNodeFunc, hx, hk]
  | prod =>
    simp only [reduceCtorEq, if_false]
    simp only [Gen.S3evalForwardInner, Net.chOf, genNodeFunc, hx, hk]

/-- **the generated pass fills the model's table** -/
theorem genTable_eq_evalNet (e : Ev) (dens : List F) (net : Net F) (leaves : Nat → SrcLeaf F)
    (hl : TableLeaves net leaves) : genTable e net leaves = evalNet e dens net := by
  unfold genTable evalNet
  exact (foldl_index net (fun vals x => evalNode e dens vals x) (fun vals i => genEntry e net leaves vals i)
    (fun i x hx vals _ => (genEntry_eq_evalNode e dens net leaves hl i x hx vals).symm)).symm

/-! ### the end-to-end corollaries -/

/-- **`e2e_eval_forward`** (C01): the table the GENERATED bottom-up pass fills holds, at every node of a
children-first table with table leaves, the mixture / product semantics of that node's sub-circuit (sharing
included), for every evidence row.  Ingredients: `Struct3.evalNode_inner_as_coded`, `bernoulli_likelihood_as_coded`,
`categorical_likelihood_as_coded`, `evalNet_refines` (= `C01_semantics`). -/
theorem e2e_eval_forward (net : Net F) (leaves : Nat → SrcLeaf F) (dens : List F) (e : Ev)
    (hw : WellOrdered net) (hl : TableLeaves net leaves) (i : Nat) (hi : i < net.length) :
    (genTable e net leaves).getD i 0 = Circ.eval e (toTree net dens (i+1) i) := by
  rw [genTable_eq_evalNet e dens net leaves hl]
  exact C01_semantics net dens e hw i hi

/-- the tree semantics at an inner node is itself the generated recursion (`eval_sum_as_coded`, `eval_prod_as_coded`):
the value the generated pass stores for a sum node is the GENERATED `node_likelihood ∘ Sum.likelihood` of the
semantic values of the children's sub-circuits -/
theorem e2e_eval_forward_sum (net : Net F) (leaves : Nat → SrcLeaf F) (dens : List F) (e : Ev)
    (hw : WellOrdered net) (hl : TableLeaves net leaves) (i : Nat) (x : NNode F) (hx : net[i]? = some x)
    (hk : x.kind = .sum) :
    (genTable e net leaves).getD i 0
      = Gen.S3nodeLikelihood (Gen.S3sumLikelihood x.ws) ((x.ch.map (toTree net dens i)).map (Circ.eval e)) := by
  have hi : i < net.length := by
    rcases Nat.lt_or_ge i net.length with h | h
    · exact h
    · rw [List.getElem?_eq_none h] at hx; cases hx
  rw [e2e_eval_forward net leaves dens e hw hl i hi, ← Struct3.eval_sum_as_coded e x.scope]
  simp only [toTree, hx, hk]

theorem e2e_eval_forward_prod (net : Net F) (leaves : Nat → SrcLeaf F) (dens : List F) (e : Ev)
    (hw : WellOrdered net) (hl : TableLeaves net leaves) (i : Nat) (x : NNode F) (hx : net[i]? = some x)
    (hk : x.kind = .prod) :
    (genTable e net leaves).getD i 0
      = Gen.S3nodeLikelihood Gen.S3productLikelihood ((x.ch.map (toTree net dens i)).map (Circ.eval e)) := by
  have hi : i < net.length := by
    rcases Nat.lt_or_ge i net.length with h | h
    · exact h
    · rw [List.getElem?_eq_none h] at hx; cases hx
  rw [e2e_eval_forward net leaves dens e hw hl i hi, ← Struct3.eval_prod_as_coded e x.scope]
  simp only [toTree, hx, hk]

/-- **`e2e_eval_forward_marginal`** (C02): at the root of a valid table, on a row with missing entries, the value
the GENERATED pass returns is the sum, over every completion of the missing entries of the root scope, of the values the
GENERATED pass returns on the completed rows.  Ingredients: the above + `C02_marginal`. -/
theorem e2e_eval_forward_marginal (dom : Nat → Nat) (net : Net F) (leaves : Nat → SrcLeaf F) (dens : List F)
    (hw : WellOrdered net) (hl : TableLeaves net leaves)
    (hok : ∀ i (x : NNode F), net[i]? = some x → NodeOK dom net dens i x)
    (root : Nat) (hr : root < net.length) (e : Ev) :
    (genTable e net leaves).getD root 0
      = sumOver dom (scopeOf net root) e (fun e' => (genTable e' net leaves).getD root 0) := by
  rw [genTable_eq_evalNet e dens net leaves hl, C02_marginal dom net dens hw hok root hr e]
  apply sumOver_congr; intro e' _
  rw [genTable_eq_evalNet e' dens net leaves hl]

/-- **`e2e_eval_forward_all_missing`** (C02): with nothing observed the GENERATED pass returns 1 at the root of a
valid table with normalised weights and leaves.  Ingredients: the above + `C02_all_missing`. -/
theorem e2e_eval_forward_all_missing (dom : Nat → Nat) (net : Net F) (leaves : Nat → SrcLeaf F) (dens : List F)
    (hw : WellOrdered net) (hl : TableLeaves net leaves)
    (hok : ∀ i (x : NNode F), net[i]? = some x → NodeOK dom net dens i x)
    (hnw : NetNormW net) (hln : NetLeafNorm net dens) (root : Nat) (hr : root < net.length) :
    (genTable (fun _ => none) net leaves).getD root 0 = 1 := by
  rw [genTable_eq_evalNet _ dens net leaves hl]
  exact C02_all_missing dom net dens hw hok hnw hln root hr

/-- **`e2e_eval_forward_normalised`** (C01): the complete-evidence values the GENERATED pass returns at the root sum
to one over the whole domain of the root scope.  Ingredients: the above + `C01_normalised`. -/
theorem e2e_eval_forward_normalised (dom : Nat → Nat) (net : Net F) (leaves : Nat → SrcLeaf F) (dens : List F)
    (hw : WellOrdered net) (hl : TableLeaves net leaves)
    (hok : ∀ i (x : NNode F), net[i]? = some x → NodeOK dom net dens i x)
    (hnw : NetNormW net) (hln : NetLeafNorm net dens) (root : Nat) (hr : root < net.length) :
    sumOver dom (scopeOf net root) (fun _ => none) (fun x => (genTable x net leaves).getD root 0) = 1 := by
  rw [← C01_normalised dom net dens hw hok hnw hln root hr]
  apply sumOver_congr; intro e' _
  rw [genTable_eq_evalNet e' dens net leaves hl]

/-- the variable of a source leaf -/
def SrcLeaf.var : SrcLeaf F → Nat
  | .bernoulli v _ => v
  | .categorical v _ => v

/-- the table of a source leaf has one entry per value of its variable and sums to one: any Bernoulli leaf over a binary
variable, a Categorical leaf whose probabilities sum to one -/
def SrcLeaf.Normalised (dom : Nat → Nat) : SrcLeaf F → Prop
  | .bernoulli v _ => dom v = 2
  | .categorical v probs => dom v = probs.length ∧ tsum probs = 1

/-- the leaf hypotheses of the three theorems above (`NodeOK` at a leaf, `NetLeafNorm`) hold for normalised source leaves
(`Circ.catLeaf_ok`) -/
theorem srcLeaf_ok (dom : Nat → Nat) (l : SrcLeaf F) (d : F) (h : l.Normalised dom) :
    LeafOK dom [l.var] (l.toModel.fn [l.var] d) ∧ ∀ s, l.toModel.fn s d (fun _ => none) = 1 := by
  cases l with
  | bernoulli v p =>
    refine ⟨?_, fun s => by simp [SrcLeaf.toModel, LeafP.fn, Circ.catLeafFn]⟩
    simp only [SrcLeaf.toModel, LeafP.fn, SrcLeaf.var]
    exact Circ.catLeaf_ok dom v _ (by simpa [SrcLeaf.Normalised] using h.symm) (by simp [tsum])
  | categorical v probs =>
    refine ⟨?_, fun s => by simp [SrcLeaf.toModel, LeafP.fn, Circ.catLeafFn]⟩
    simp only [SrcLeaf.toModel, LeafP.fn, SrcLeaf.var]
    exact Circ.catLeaf_ok dom v _ h.1.symm h.2

/-! ### non-vacuity: a DAG over two binary variables — a sum over two products that SHARE the Bernoulli leaf -/

def exLeaves : Nat → SrcLeaf ℚ := fun i =>
  [SrcLeaf.bernoulli 0 (3/4), .categorical 1 [1/2, 1/2], .categorical 1 [1/10, 9/10]].getD i (.bernoulli 0 0)

def exNet : Net ℚ :=
  [ { id := 3, kind := .leaf, scope := [0], ch := [], ws := [], leaf := (exLeaves 0).toModel },
    { id := 4, kind := .leaf, scope := [1], ch := [], ws := [], leaf := (exLeaves 1).toModel },
    { id := 5, kind := .leaf, scope := [1], ch := [], ws := [], leaf := (exLeaves 2).toModel },
    { id := 1, kind := .prod, scope := [0, 1], ch := [0, 1], ws := [], leaf := .absent },
    { id := 2, kind := .prod, scope := [1, 0], ch := [2, 0], ws := [], leaf := .absent },
    { id := 0, kind := .sum, scope := [0, 1], ch := [3, 4], ws := [1/3, 2/3], leaf := .absent } ]

theorem exNet_cases (P : Nat → NNode ℚ → Prop)
    (h0 : P 0 exNet[0]) (h1 : P 1 exNet[1]) (h2 : P 2 exNet[2]) (h3 : P 3 exNet[3]) (h4 : P 4 exNet[4])
    (h5 : P 5 exNet[5]) : ∀ i (x : NNode ℚ), exNet[i]? = some x → P i x := by
  intro i x hx
  match i with
  | 0 => cases hx; exact h0
  | 1 => cases hx; exact h1
  | 2 => cases hx; exact h2
  | 3 => cases hx; exact h3
  | 4 => cases hx; exact h4
  | 5 => cases hx; exact h5
  | n+6 => simp [exNet] at hx

theorem exNet_wellOrdered : WellOrdered exNet := (wellOrderedB_iff exNet).1 (by decide)

theorem exNet_tableLeaves : TableLeaves exNet exLeaves := by
  apply exNet_cases (fun i x => x.kind = .leaf → x.leaf = (exLeaves i).toModel)
  all_goals first | (intro _; rfl) | (intro h; cases h)

theorem exNet_ok : ∀ i (x : NNode ℚ), exNet[i]? = some x → NodeOK (fun _ => 2) exNet [] i x := by
  apply exNet_cases (fun i x => NodeOK (fun _ => 2) exNet [] i x)
  · exact (srcLeaf_ok (fun _ => 2) (.bernoulli 0 (3/4)) 0 rfl).1
  · exact (srcLeaf_ok (fun _ => 2) (.categorical 1 [1/2, 1/2]) 0 ⟨rfl, by norm_num [tsum]⟩).1
  · exact (srcLeaf_ok (fun _ => 2) (.categorical 1 [1/10, 9/10]) 0 ⟨rfl, by norm_num [tsum]⟩).1
  · exact ⟨by decide, by intro v; simp [exNet, scopeOf]⟩
  · refine ⟨by decide, by intro v; simp [exNet, scopeOf]⟩
  · refine ⟨by simp [exNet], rfl, ?_⟩
    intro c hc
    simp [exNet] at hc
    rcases hc with rfl | rfl <;> (intro v; simp [exNet, scopeOf]; try tauto)

theorem exNet_normW : NetNormW exNet := by
  apply exNet_cases (fun i x => x.kind = .sum → tsum x.ws = 1)
  all_goals first | (intro h; cases h; done) | (intro _; norm_num [exNet, tsum])

theorem exNet_leafNorm : NetLeafNorm exNet [] := by
  apply exNet_cases (fun i x => x.kind = .leaf → x.leaf.fn x.scope (([] : List ℚ).getD i 0) (fun _ => none) = 1)
  all_goals first | (intro h; cases h; done) | (intro _; simp [exNet, exLeaves, SrcLeaf.toModel, LeafP.fn, Circ.catLeafFn])

/-- the hypotheses of all four theorems hold for the shared-leaf DAG, and the generated pass returns the expected
numbers: `1/3·(3/4·1/2) + 2/3·(9/10·3/4)` on the row `(1, 1)`, the marginal `3/4` on `(1, NaN)`, and `1` on `(NaN, NaN)` -/
example : WellOrdered exNet ∧ TableLeaves exNet exLeaves ∧
    (∀ i (x : NNode ℚ), exNet[i]? = some x → NodeOK (fun _ => 2) exNet [] i x) ∧ NetNormW exNet ∧ NetLeafNorm exNet [] ∧
    (genTable (Ev.ofList [some 1, some 1]) exNet exLeaves).getD 5 0 = 1/3 * (3/4 * (1/2)) + 2/3 * (9/10 * (3/4)) ∧
    (genTable (Ev.ofList [some 1, none]) exNet exLeaves).getD 5 0 = 3/4 ∧
    (genTable (fun _ => none) exNet exLeaves).getD 5 0 = 1 :=
  ⟨exNet_wellOrdered, exNet_tableLeaves, exNet_ok, exNet_normW, exNet_leafNorm,
   by decide +kernel, by decide +kernel, by decide +kernel⟩

example : (genTable (Ev.ofList [some 1, none]) exNet exLeaves).getD 5 0
    = sumOver (fun _ => 2) (scopeOf exNet 5) (Ev.ofList [some 1, none])
        (fun e' => (genTable e' exNet exLeaves).getD 5 0) :=
  e2e_eval_forward_marginal (fun _ => 2) exNet exLeaves [] exNet_wellOrdered exNet_tableLeaves exNet_ok 5 (by decide) _

/-- non-vacuity of `e2e_eval_forward_sum` / `e2e_eval_forward_prod`: the root (a sum, index 5) and the product at index 3
of the shared-leaf DAG -/
example (e : Ev) : (genTable e exNet exLeaves).getD 5 0
    = Gen.S3nodeLikelihood (Gen.S3sumLikelihood [1/3, 2/3]) (([3, 4].map (toTree exNet [] 5)).map (Circ.eval e)) :=
  e2e_eval_forward_sum exNet exLeaves [] e exNet_wellOrdered exNet_tableLeaves 5 _ rfl rfl

example (e : Ev) : (genTable e exNet exLeaves).getD 3 0
    = Gen.S3nodeLikelihood Gen.S3productLikelihood (([0, 1].map (toTree exNet [] 3)).map (Circ.eval e)) :=
  e2e_eval_forward_prod exNet exLeaves [] e exNet_wellOrdered exNet_tableLeaves 3 _ rfl rfl

end item1

section item2
open Deeprob

/-! ## (2) C01, log domain — the generated log-domain bottom-up pass -/
section ll
open Deeprob.Struct3

variable {F : Type} [Field F] [LinearOrder F] [IsStrictOrderedRing F]

/-- `leaf_func(n, x[:, n.scope])` with `leaf_func = node_log_likelihood`: the GENERATED `node_log_likelihood` (the floor
`np.maximum(·, -1e31)`) around the GENERATED `Bernoulli.log_likelihood` / `Categorical.log_likelihood` on the row's entry
of the leaf's variable.  (`Gen.S3nodeLogLikelihood` takes the node method as a function of the list of children values;
a leaf's method reads its data column instead, so the list argument is unused.) -/
def llLeafValue (E : ExpLog F) (e : Ev) : SrcLeaf F → F
  | .bernoulli v p => Gen.S3nodeLogLikelihood (fun _ => Gen.S3bernoulliLogLikelihood E p (e v)) []
  | .categorical v probs =>
      Gen.S3nodeLogLikelihood (fun _ => Gen.S3categoricalLogLikelihood E (List.range probs.length) probs (e v)) []

/-- `node_func(n, ·)` with `node_func = node_log_likelihood`: the GENERATED `node_log_likelihood` around the GENERATED
`log_likelihood` method of the node stored at index `j` -/
def llNodeFunc (E : ExpLog F) (net : Net F) (j : Nat) : List F → F :=
  match net[j]? with
  | some y => (match y.kind with
      | .sum => Gen.S3nodeLogLikelihood (Gen.S3sumLogLikelihood E y.ws)
      | .prod => Gen.S3nodeLogLikelihood Gen.S3productLogLikelihood
      | .leaf => fun _ => 0)
  | none => fun _ => 0

/-- one call `eval_forward(n)` of `log_likelihood(root, x)` for the node at table index `i` (mirror of `genEntry`): a leaf
stores the generated floored leaf log-likelihood, an inner node the GENERATED `Gen.S3evalForwardInner` -/
def llEntry (E : ExpLog F) (e : Ev) (net : Net F) (leaves : Nat → SrcLeaf F) (vals : List F) (i : Nat) : F :=
  match net[i]? with
  | none => 0
  | some x =>
    if x.kind = .leaf then llLeafValue E e (leaves i)
    else Gen.S3evalForwardInner (N := Nat) id (Net.chOf net) (llNodeFunc E net) (fun c => vals.getD c 0) i

/-- the loop `for node in reversed(ordering): eval_forward(node)` of `log_likelihood` over a table stored children-first
(mirror of `genTable`: one call of the generated body per table index and nothing else) -/
def llTable (E : ExpLog F) (e : Ev) (net : Net F) (leaves : Nat → SrcLeaf F) : List F :=
  (List.range net.length).foldl (fun vals i => vals ++ [llEntry E e net leaves vals i]) []

/-! ### linking lemmas -/

theorem llTable_fold (E : ExpLog F) (e : Ev) (net : Net F) (leaves : Nat → SrcLeaf F) :
    llTable E e net leaves = llFold (llEntry E e net leaves) net.length := rfl

theorem ll_genTable_fold (e : Ev) (net : Net F) (leaves : Nat → SrcLeaf F) :
    genTable e net leaves = llFold (genEntry e net leaves) net.length := rfl

/-- the floor of `node_log_likelihood` is below `-10⁶` (`Oblig.floor_inactive` is this fact about the constant
`Gen.llFloor`; the GENERATED `Gen.S3nodeLogLikelihood` inlines the same literal) -/
theorem ll_floor_le : (-10000000000000000000000000000000 : F) ≤ -1000000 := by
  have h : ((Gen.llFloor : ℚ) : F) ≤ ((-1000000 : ℚ) : F) := Rat.cast_le.2 Oblig.floor_inactive
  have e1 : ((Gen.llFloor : ℚ) : F) = (-10000000000000000000000000000000 : F) := by
    unfold Gen.llFloor; push_cast; rfl
  have e2 : ((-1000000 : ℚ) : F) = (-1000000 : F) := by push_cast; rfl
  rw [e1, e2] at h
  exact h

/-- a generated leaf log-value is the logarithm of the generated leaf value when that is positive and its logarithm is
above the floor (`bernoulli_log_likelihood_as_coded`, `categorical_log_likelihood_as_coded`, `…_likelihood_as_coded`) -/
theorem llLeafValue_eq_log (E : ExpLog F) (e : Ev) (l : SrcLeaf F) (hpos : 0 < l.genValue e)
    (hfl : (-10000000000000000000000000000000 : F) ≤ E.log (l.genValue e)) :
    llLeafValue E e l = E.log (l.genValue e) := by
  cases l with
  | bernoulli v p =>
    simp only [llLeafValue, SrcLeaf.genValue, node_log_likelihood_as_coded] at hpos hfl ⊢
    rw [bernoulli_likelihood_as_coded] at hpos hfl ⊢
    have h := bernoulli_log_likelihood_as_coded E p v e hpos
    rw [← h, E.log_exp] at hfl ⊢
    exact max_eq_left hfl
  | categorical v probs =>
    simp only [llLeafValue, SrcLeaf.genValue, node_log_likelihood_as_coded] at hpos hfl ⊢
    rw [categorical_likelihood_as_coded] at hpos hfl ⊢
    have h := categorical_log_likelihood_as_coded E probs v e hpos
    rw [← h, E.log_exp] at hfl ⊢
    exact max_eq_left hfl

theorem ll_getD_map_log (E : ExpLog F) (vals : List F) (c : Nat) (hc : c < vals.length) :
    (vals.map E.log).getD c 0 = E.log (vals.getD c 0) := by
  simp [List.getD_eq_getElem?_getD, List.getElem?_map, List.getElem?_eq_getElem hc]

/-- **the generated log-domain table is the entry-wise logarithm of the generated linear table** when every entry of the
linear table is positive and has its logarithm above the floor (`node_log_likelihood_sum`, `node_log_likelihood_prod` at
the inner nodes, `llLeafValue_eq_log` at the leaves; `WellOrdered`: the children values read are stored ones) -/
theorem llTable_eq_map_log (E : ExpLog F) (e : Ev) (net : Net F) (leaves : Nat → SrcLeaf F) (hw : WellOrdered net)
    (hpos : ∀ i, i < net.length → 0 < (genTable e net leaves).getD i 0)
    (hfl : ∀ i, i < net.length → (-10000000000000000000000000000000 : F) ≤ E.log ((genTable e net leaves).getD i 0)) :
    llTable E e net leaves = (genTable e net leaves).map E.log := by
  rw [llTable_fold, ll_genTable_fold]
  apply llFold_map
  intro i hi
  have hT : llFold (genEntry e net leaves) i = (genTable e net leaves).take i := by
    rw [ll_genTable_fold, llFold_take _ i _ (by omega)]
  have hlen : (llFold (genEntry e net leaves) i).length = i := llFold_length _ i
  have hval : (genTable e net leaves).getD i 0 = genEntry e net leaves (llFold (genEntry e net leaves) i) i := by
    rw [hT, ll_genTable_fold]; exact llFold_getD _ _ i hi 0
  have hposi := hpos i hi
  have hfli := hfl i hi
  rw [hval] at hposi hfli
  -- the children values read are positive stored values
  have hchild : ∀ c, c < i → (llFold (genEntry e net leaves) i).getD c 0 = (genTable e net leaves).getD c 0 := by
    intro c hc
    rw [hT]
    simp only [List.getD_eq_getElem?_getD, List.getElem?_take, hc, if_true]
  generalize hvals : llFold (genEntry e net leaves) i = vals at hlen hposi hfli hchild
  have hx : net[i]? = some net[i] := by simp [hi]
  generalize net[i] = x at hx
  have hch := hw i x hx
  have hmap : x.ch.map (fun c => (vals.map E.log).getD c 0) = (x.ch.map (fun c => vals.getD c 0)).map E.log := by
    rw [List.map_map]
    apply List.map_congr_left
    intro c hc
    exact ll_getD_map_log E vals c (by rw [hlen]; exact hch c hc)
  have hvs : ∀ v ∈ x.ch.map (fun c => vals.getD c 0), 0 < v := by
    intro v hv
    obtain ⟨c, hc, rfl⟩ := List.mem_map.1 hv
    rw [hchild c (hch c hc)]
    exact hpos c (by have := hch c hc; omega)
  unfold llEntry genEntry at *
  simp only [hx] at hposi hfli ⊢
  cases hk : x.kind with
  | leaf =>
    simp only [hk, if_true] at hposi hfli ⊢
    exact llLeafValue_eq_log E e (leaves i) hposi hfli
  | sum =>
    simp only [hk, reduceCtorEq, if_false, Gen.S3evalForwardInner, Net.chOf, genNodeFunc, llNodeFunc, hx, id_eq]
      at hposi hfli ⊢
    rw [hmap]
    rw [node_likelihood_as_coded, sum_likelihood_as_coded] at hfli
    exact node_log_likelihood_sum E x.ws _ hvs hfli
  | prod =>
    simp only [hk, reduceCtorEq, if_false, Gen.S3evalForwardInner, Net.chOf, genNodeFunc, llNodeFunc, hx, id_eq]
      at hposi hfli ⊢
    rw [hmap]
    rw [node_likelihood_as_coded, product_likelihood_as_coded] at hfli
    exact node_log_likelihood_prod E _ hvs hfli

/-! ### the end-to-end corollaries -/

/-- **`e2e_log_likelihood_log`** (C01, log domain): at every node of a children-first table with table leaves, the value
the GENERATED log-domain pass (`Gen.S3nodeLogLikelihood` around `Gen.S3sumLogLikelihood` / `Gen.S3productLogLikelihood` /
the generated leaf `log_likelihood`s, chained by `Gen.S3evalForwardInner`) stores is the logarithm of the mixture /
product semantics of that node's sub-circuit, PROVIDED every node value on the row is positive (`hpos`) and the floor
`-1e31` of `node_log_likelihood` is inactive — stated as: every log-value is at least `-10⁶` (`hfloor`; the logarithm of
the smallest positive double is about `-745`; `Oblig.floor_inactive` puts the floor below `-10⁶`).
Ingredients: `Struct3.node_log_likelihood_sum / _prod`, `sum_log_likelihood_as_coded`, `product_log_likelihood_as_coded`,
`bernoulli_log_likelihood_as_coded`, `categorical_log_likelihood_as_coded`, `Oblig.floor_inactive`, `e2e_eval_forward`. -/
theorem e2e_log_likelihood_log (E : ExpLog F) (net : Net F) (leaves : Nat → SrcLeaf F) (dens : List F) (e : Ev)
    (hw : WellOrdered net) (hl : TableLeaves net leaves)
    (hpos : ∀ i, i < net.length → 0 < Circ.eval e (toTree net dens (i+1) i))
    (hfloor : ∀ i, i < net.length → (-1000000 : F) ≤ E.log (Circ.eval e (toTree net dens (i+1) i)))
    (i : Nat) (hi : i < net.length) :
    (llTable E e net leaves).getD i 0 = E.log (Circ.eval e (toTree net dens (i+1) i)) := by
  have hlenT : (genTable e net leaves).length = net.length := by rw [ll_genTable_fold]; exact llFold_length _ _
  rw [llTable_eq_map_log E e net leaves hw
    (fun j hj => by rw [e2e_eval_forward net leaves dens e hw hl j hj]; exact hpos j hj)
    (fun j hj => by
      rw [e2e_eval_forward net leaves dens e hw hl j hj]; exact le_trans ll_floor_le (hfloor j hj)),
    ll_getD_map_log E _ i (by rw [hlenT]; exact hi), e2e_eval_forward net leaves dens e hw hl i hi]

/-- **`e2e_log_likelihood`** (C01, log domain): under the same hypotheses, `exp` of the value the GENERATED log-domain
pass stores at a node is the semantic value `Circ.eval e (toTree net dens (i+1) i)` of that node. -/
theorem e2e_log_likelihood (E : ExpLog F) (net : Net F) (leaves : Nat → SrcLeaf F) (dens : List F) (e : Ev)
    (hw : WellOrdered net) (hl : TableLeaves net leaves)
    (hpos : ∀ i, i < net.length → 0 < Circ.eval e (toTree net dens (i+1) i))
    (hfloor : ∀ i, i < net.length → (-1000000 : F) ≤ E.log (Circ.eval e (toTree net dens (i+1) i)))
    (i : Nat) (hi : i < net.length) :
    E.exp ((llTable E e net leaves).getD i 0) = Circ.eval e (toTree net dens (i+1) i) := by
  rw [e2e_log_likelihood_log E net leaves dens e hw hl hpos hfloor i hi, E.exp_log _ (hpos i hi)]

/-- the log-domain pass agrees with the linear one: `exp` of the generated log-table entry is the generated linear-table
entry (`genTable` of `Props/E2ECirc.lean`) -/
theorem e2e_log_likelihood_linear (E : ExpLog F) (net : Net F) (leaves : Nat → SrcLeaf F) (dens : List F) (e : Ev)
    (hw : WellOrdered net) (hl : TableLeaves net leaves)
    (hpos : ∀ i, i < net.length → 0 < Circ.eval e (toTree net dens (i+1) i))
    (hfloor : ∀ i, i < net.length → (-1000000 : F) ≤ E.log (Circ.eval e (toTree net dens (i+1) i)))
    (i : Nat) (hi : i < net.length) :
    E.exp ((llTable E e net leaves).getD i 0) = (genTable e net leaves).getD i 0 := by
  rw [e2e_log_likelihood E net leaves dens e hw hl hpos hfloor i hi, e2e_eval_forward net leaves dens e hw hl i hi]

/-! non-vacuity: the shared-leaf DAG `exNet` of `Props/E2ECirc.lean` on the row `(1, 1)` -/

/-- on the row `(1, 1)` every node of `exNet` has a value in `[3/8, 9/10]` -/
theorem ll_exNet_values : ∀ i, i < exNet.length →
    (3/8 : ℚ) ≤ Circ.eval (Ev.ofList [some 1, some 1]) (toTree exNet [] (i+1) i) := by
  intro i hi
  rw [← e2e_eval_forward exNet exLeaves [] _ exNet_wellOrdered exNet_tableLeaves i hi]
  have hi' : i < 6 := hi
  interval_cases i <;> decide +kernel

/-- for ANY `ExpLog ℚ` whose logarithm is at least `-10⁶` on `[3/8, ∞)` (the real logarithm is: `log (3/8) ≈ -0.98`) all
hypotheses hold on the row `(1, 1)`, and `exp` of the generated log-value at the root is
`1/3·(3/4·1/2) + 2/3·(9/10·3/4) = 23/40` -/
/- NOTE (round 5): no `ExpLog ℚ` exists (`SamplingFacts.expLog_rat_empty`), so this example is satisfied vacuously; the genuine witness
over the reals is in `Props/RealWitnesses.lean` / `Props/SamplingFacts.lean`. -/
example (E : ExpLog ℚ) (hE : ∀ a : ℚ, 3/8 ≤ a → (-1000000 : ℚ) ≤ E.log a) :
    E.exp ((llTable E (Ev.ofList [some 1, some 1]) exNet exLeaves).getD 5 0) = 23/40 := by
  rw [e2e_log_likelihood_linear E exNet exLeaves [] _ exNet_wellOrdered exNet_tableLeaves
    (fun i hi => lt_of_lt_of_le (by norm_num) (ll_exNet_values i hi))
    (fun i hi => hE _ (ll_exNet_values i hi)) 5 (by decide)]
  decide +kernel

end ll

end item2

section item8
open Deeprob

/-! ## item 8 — C19: `moments.moment` -/

section moment
variable {F : Type} [Field F] [LinearOrder F] [IsStrictOrderedRing F]
open MCirc Circ

/-! ### the generated recursion (tree form and stored-table form) -/

/-- `moment(root, order = k)[v]` on a tree-shaped circuit, written out: the bottom-up pass with
`leaf_func = leaf_moment` (GENERATED `Gen.S3leafMoment`; the leaf's own `node.moment(k)` — `mom k` — is opaque to the
translator) and `node_func = node_likelihood` (`Gen.S3momentNodeFunc`; GENERATED `Gen.S3nodeLikelihood` around the GENERATED
`Sum.likelihood` / `Product.likelihood`).  Nothing but the generated definitions and the recursion over the children. -/
def moGenTree (k v : Nat) : MCirc F → F
  | .leaf s _ mom => Gen.S3leafMoment s (mom k) v
  | .sum _ ws cs => Gen.S3nodeLikelihood (Gen.S3sumLikelihood ws) (cs.map (moGenTree k v))
  | .prod _ cs => Gen.S3nodeLikelihood Gen.S3productLikelihood (cs.map (moGenTree k v))

/-- one call `eval_forward(n)` of the moment pass for the node at table index `i`, row `v` of the `n × n` matrix: a leaf
stores the GENERATED `leaf_moment` entry (`x.leaf.rawMoment k ·` is the leaf's own `node.moment(k)`: closed form for table
leaves, `moms[i]` supplied for the others — not generated), an inner node the GENERATED `Gen.S3evalForwardInner` with the
GENERATED `node_likelihood` (`genNodeFunc` of `Props/E2ECirc.lean`) -/
def moGenEntry (k v : Nat) (net : Net F) (moms vals : List F) (i : Nat) : F :=
  match net[i]? with
  | none => 0
  | some x =>
    if x.kind = .leaf then Gen.S3leafMoment x.scope (fun _ => x.leaf.rawMoment k (moms.getD i 0)) v
    else Gen.S3evalForwardInner (N := Nat) id (Net.chOf net) (genNodeFunc net) (fun c => vals.getD c 0) i

/-- the loop `for node in reversed(ordering): eval_forward(node)` of the moment pass over a table stored children-first -/
def moGenTable (k v : Nat) (net : Net F) (moms : List F) : List F :=
  (List.range net.length).foldl (fun vals i => vals ++ [moGenEntry k v net moms vals i]) []

/-- `moments.moment(root, order)` as the API returns it, written out around the GENERATED exit selector
`Gen.S3momentCase` (index into `Gen.S3momentExits = ["raise", "ones", "bottom_up"]`): `none` = `ValueError`, exit 1
returns `np.ones(len(scope))`, exit 2 the bottom-up pass (`moGenTree`) for every variable id `0 .. len(scope)-1` -/
def moGenApi (c : MCirc F) (order : Int) : Option (List F) :=
  match Gen.S3momentCase order with
  | 0 => none
  | 1 => some ((List.range c.scope.length).map (fun _ => 1))
  | _ => some ((List.range c.scope.length).map (fun v => moGenTree order.toNat v c))

/-! ### linking lemmas -/

/-- **the generated tree recursion is the model's `MCirc.moment`** (`leaf_moment_as_coded`, `moment_inner_as_coded`) -/
theorem moGenTree_eq (k v : Nat) : (c : MCirc F) → moGenTree k v c = MCirc.moment k v c
  | .leaf s f mom => by
      simp only [moGenTree]; exact (Struct3.leaf_moment_as_coded s f mom k v).symm
  | .sum s ws cs => by
      simp only [moGenTree]
      rw [(Struct3.moment_inner_as_coded k v s ws cs).2.1]
      congr 1
      apply List.map_congr_left; intro c _; exact moGenTree_eq k v c
  | .prod s cs => by
      simp only [moGenTree]
      rw [(Struct3.moment_inner_as_coded k v s [] cs).2.2]
      congr 1
      apply List.map_congr_left; intro c _; exact moGenTree_eq k v c

/-- **one call of the generated body = one `momNode`** (`momNode_as_coded`) -/
theorem moGenEntry_eq_momNode (k v : Nat) (net : Net F) (moms : List F) (i : Nat) (x : NNode F)
    (hx : net[i]? = some x) (vals : List F) (hlen : vals.length = i) :
    moGenEntry k v net moms vals i = momNode k v moms vals x := by
  rw [Struct3.momNode_as_coded]
  unfold moGenEntry
  simp only [hx]
  cases hk : x.kind with
  | leaf => simp only [if_true, hlen]
  | sum =>
    simp only [reduceCtorEq, if_false]
    simp only [Gen.S3evalForwardInner, Net.chOf, genNodeFunc, hx, hk]
  | prod =>
    simp only [reduceCtorEq, if_false]
    simp only [Gen.S3evalForwardInner, Net.chOf, genNodeFunc, hx, hk]

/-- **the generated pass fills the model's table** -/
theorem moGenTable_eq_momentNet (k v : Nat) (net : Net F) (moms : List F) :
    moGenTable k v net moms = momentNet k v moms net := by
  unfold moGenTable momentNet
  exact (foldl_index net (fun vals x => momNode k v moms vals x) (fun vals i => moGenEntry k v net moms vals i)
    (fun i x hx vals hl => (moGenEntry_eq_momNode k v net moms i x hx vals hl).symm)).symm

/-- **the generated API is the model's `momentApi`** (`momentApi_as_coded` + `moGenTree_eq`) -/
theorem moGenApi_eq (c : MCirc F) (order : Int) : moGenApi c order = MCirc.momentApi c order := by
  rw [(Struct3.momentApi_as_coded c order).2]
  unfold moGenApi
  simp only [moGenTree_eq]
  generalize Gen.S3momentCase order = n
  match n with
  | 0 => rfl
  | 1 => rfl
  | _ + 2 => rfl

/-- the leaf hypothesis of `C19.momentNet_exact`, node by node: the stored leaf at index `i` reports, for the variable `v`
of its scope, its own exact raw moment of order `k` -/
def MoLeafExact (dom : Nat → Nat) (k v : Nat) (net : Net F) (dens : List F) (moms : Nat → List F) : Prop :=
  ∀ (i : Nat) (x : NNode F), net[i]? = some x → x.kind = .leaf → v ∈ x.scope →
    x.leaf.rawMoment k ((moms k).getD i 0)
      = sumOver dom x.scope (fun _ => none) (fun y => gPow k v y * x.leaf.fn x.scope (dens.getD i 0) y)

/-- the per-node leaf hypothesis gives `MomOK` of every unfolding -/
theorem mo_momOK_toMTree (dom : Nat → Nat) (k v : Nat) (net : Net F) (dens : List F) (moms : Nat → List F)
    (hm : MoLeafExact dom k v net dens moms) : ∀ fuel i, MomOK dom k v (toMTree net dens moms fuel i) := by
  intro fuel
  induction fuel with
  | zero => intro i; simp [toMTree, MomOK]
  | succ f ih =>
    intro i
    simp only [toMTree]
    cases hn : net[i]? with
    | none => simp [MomOK]
    | some x =>
      simp only
      cases hk : x.kind with
      | leaf => simp only [MomOK]; exact hm i x hn hk
      | sum =>
        simp only [MomOK]
        intro c hc
        obtain ⟨j, _, rfl⟩ := List.mem_map.1 hc
        exact ih j
      | prod =>
        simp only [MomOK]
        intro c hc
        obtain ⟨j, _, rfl⟩ := List.mem_map.1 hc
        exact ih j

/-- table leaves (Bernoulli / Categorical stored as a dense table over the values `0 .. dom w − 1`) satisfy the leaf
hypothesis, whatever is supplied in `moms` (`C19.cat_momOK`) -/
theorem mo_leafExact_of_cat (dom : Nat → Nat) (k v : Nat) (net : Net F) (dens : List F) (moms : Nat → List F)
    (hc : ∀ (i : Nat) (x : NNode F), net[i]? = some x → x.kind = .leaf →
      ∃ w tbl, x.leaf = .cat w tbl ∧ x.scope = [w] ∧ tbl.length = dom w) :
    MoLeafExact dom k v net dens moms := by
  intro i x hx hk hv
  obtain ⟨w, tbl, h1, h2, h3⟩ := hc i x hx hk
  rw [h2] at hv
  rw [h1, h2]
  have h := C19.cat_momOK (α := F) dom k v w tbl h3
  unfold MCirc.cat MomOK at h
  exact h hv

/-! ### the end-to-end corollaries -/

/-- **`e2e_moment`** (C19, tree-shaped circuits): for every valid (smooth, decomposable) circuit with normalised weights
and leaves whose leaves report their own exact raw moments, and every variable `v` of the root scope, the value the
GENERATED moment recursion returns is the exact raw moment `E[X_v^k] = Σ_x x_v^k · c(x)`.
Ingredients: `leaf_moment_as_coded`, `moment_inner_as_coded` (`moGenTree_eq`) + `C19.moment_exact`. -/
theorem e2e_moment (dom : Nat → Nat) (k v : Nat) (c : MCirc F)
    (hv : Valid dom c.toCirc) (hn : NormW c.toCirc) (hl : LeafNorm dom c.toCirc) (hm : MomOK dom k v c)
    (hin : v ∈ c.scope) :
    moGenTree k v c = momentSpec dom k v c.toCirc := by
  rw [moGenTree_eq]
  exact C19.moment_exact dom k v c hv hn hl hm hin

/-- **`e2e_moment_abstract`** (C19, general form — continuous leaves): whatever "integration against `x_v^k`" means for
the leaf families at hand, if it is linear at sum nodes, factorises at product nodes and returns the leaf's raw moment
(or its total mass one outside the leaf's scope) at a leaf, then it is the value the GENERATED recursion returns.
Ingredients: `moGenTree_eq` + `C19.moment_exact_abstract`. -/
theorem e2e_moment_abstract (k v : Nat) (J : MCirc F → F)
    (hleaf : ∀ s f mom, J (.leaf s f mom) = if s.contains v then mom k v else 1)
    (hsum : ∀ s ws cs, J (.sum s ws cs) = wsum ws (cs.map J))
    (hprod : ∀ s cs, J (.prod s cs) = lprod (cs.map J)) (c : MCirc F) :
    J c = moGenTree k v c := by
  rw [moGenTree_eq]
  exact C19.moment_exact_abstract k v J hleaf hsum hprod c

/-- **`e2e_moment_net`** (C19, stored tables — DAGs, sharing included): entry `root` of the table the GENERATED moment
pass fills is the exact raw moment of the circuit the table stores (its unfolding), under the hypotheses of
`C19.momentNet_exact` on that unfolding.  Ingredients: `momNode_as_coded` (`moGenTable_eq_momentNet`) +
`C19.momentNet_exact`. -/
theorem e2e_moment_net (dom : Nat → Nat) (k v : Nat) (dens : List F) (moms : Nat → List F) (net : Net F)
    (hw : WellOrdered net) (root : Nat) (hr : root < net.length)
    (hv : Valid dom (toTree net dens (root+1) root)) (hn : NormW (toTree net dens (root+1) root))
    (hl : LeafNorm dom (toTree net dens (root+1) root))
    (hm : MomOK dom k v (toMTree net dens moms (root+1) root))
    (hin : v ∈ (toTree net dens (root+1) root).scope) :
    (moGenTable k v net (moms k)).getD root 0 = momentSpec dom k v (toTree net dens (root+1) root) := by
  rw [moGenTable_eq_momentNet]
  exact C19.momentNet_exact dom k v dens moms net hw root hr hv hn hl hm hin

/-- **`e2e_moment_table`** (C19): the same with every hypothesis stated node by node on the stored table — the local
validity conditions `check_spn` enforces (`NodeOK`), normalised sum weights and leaves, and the leaf-moment hypothesis
`MoLeafExact`.  Ingredients: the above + `valid_toTree`, `normW_toTree`, `leafNorm_toTree`, `mo_momOK_toMTree`. -/
theorem e2e_moment_table (dom : Nat → Nat) (k v : Nat) (dens : List F) (moms : Nat → List F) (net : Net F)
    (hw : WellOrdered net) (hok : ∀ i (x : NNode F), net[i]? = some x → NodeOK dom net dens i x)
    (hnw : NetNormW net) (hln : NetLeafNorm net dens) (hm : MoLeafExact dom k v net dens moms)
    (root : Nat) (hr : root < net.length) (hin : v ∈ scopeOf net root) :
    (moGenTable k v net (moms k)).getD root 0 = momentSpec dom k v (toTree net dens (root+1) root) :=
  e2e_moment_net dom k v dens moms net hw root hr (valid_toTree dom net dens hw hok root hr)
    (normW_toTree net dens hw hnw root hr) (leafNorm_toTree dom net dens hw hln root hr)
    (mo_momOK_toMTree dom k v net dens moms hm _ _) (by rw [scope_toTree net dens root root hr]; exact hin)

/-- **`e2e_moment_api`** (C19, API level): which exit the GENERATED selector takes and what comes back —
a negative order is rejected (and only a negative order); order 0 returns ones without a pass; a positive order returns,
for every variable id `0 .. len(scope)-1`, the exact raw moment (under the hypotheses of `e2e_moment` for every such
variable; `hsc` says that the scope of the root is `{0, …, n-1}`, which `moment` assumes when it allocates the `n × n`
matrix).  Ingredients: `momentApi_as_coded` (`moGenApi_eq`) + `C19.moment_negative`, `C19.moment_zero_api`, `e2e_moment`. -/
theorem e2e_moment_api (dom : Nat → Nat) (c : MCirc F) (order : Int) :
    Gen.S3momentExits = ["raise", "ones", "bottom_up"] ∧
    (moGenApi c order = none ↔ order < 0) ∧
    (order = 0 → moGenApi c order = some ((List.range c.scope.length).map (fun _ => 1))) ∧
    (0 < order → Valid dom c.toCirc → NormW c.toCirc → LeafNorm dom c.toCirc →
      (∀ v, v < c.scope.length → v ∈ c.scope ∧ MomOK dom order.toNat v c) →
      moGenApi c order = some ((List.range c.scope.length).map (fun v => momentSpec dom order.toNat v c.toCirc))) := by
  refine ⟨by decide, ?_, ?_, ?_⟩
  · rw [moGenApi_eq]; exact C19.moment_negative c order
  · intro h; rw [moGenApi_eq, h]; exact C19.moment_zero_api c
  · intro hpos hv hn hl hsc
    have h1 : ¬ order < 0 := by omega
    have h2 : ¬ order = 0 := by omega
    rw [moGenApi_eq]
    unfold MCirc.momentApi
    rw [if_neg h1, if_neg h2]
    congr 1
    apply List.map_congr_left
    intro v hvm
    have hlt : v < c.scope.length := List.mem_range.1 hvm
    exact C19.moment_exact dom order.toNat v c hv hn hl (hsc v hlt).2 (hsc v hlt).1

/-- the ones of exit 1 are exact too: one is the 0-th raw moment of a valid normalised circuit (`C19.moment_zero`) -/
theorem e2e_moment_api_zero (dom : Nat → Nat) (c : MCirc F)
    (hv : Valid dom c.toCirc) (hn : NormW c.toCirc) (hl : LeafNorm dom c.toCirc) :
    moGenApi c 0 = some ((List.range c.scope.length).map (fun v => momentSpec dom 0 v c.toCirc)) := by
  rw [((e2e_moment_api dom c 0).2.2.1) rfl]
  congr 1
  apply List.map_congr_left
  intro v _
  exact (C19.moment_zero dom v c.toCirc hv hn hl).symm

/-- **`e2e_moment_variance`** (C19, derived statistics): the GENERATED `variance` evaluated on the values the GENERATED
recursion returns for the orders 1 … 4 is `E[X_v²] − E[X_v]²`.  Ingredients: `Oblig.C19.variance_is_central2` +
`e2e_moment`. -/
theorem e2e_moment_variance (dom : Nat → Nat) (v : Nat) (c : MCirc F)
    (hv : Valid dom c.toCirc) (hn : NormW c.toCirc) (hl : LeafNorm dom c.toCirc)
    (hm : ∀ k, MomOK dom k v c) (hin : v ∈ c.scope) :
    Gen.variance (moGenTree 1 v c) (moGenTree 2 v c) (moGenTree 3 v c) (moGenTree 4 v c)
      = momentSpec dom 2 v c.toCirc - (momentSpec dom 1 v c.toCirc) ^ 2 := by
  rw [Oblig.C19.variance_is_central2, e2e_moment dom 1 v c hv hn hl (hm 1) hin, e2e_moment dom 2 v c hv hn hl (hm 2) hin]

/-- **`e2e_moment_skewness`** (C19): the GENERATED `skewness` on the generated moments is the third central moment over
`σ²` to the power 3/2.  Ingredients: `Oblig.C19.skewness_is_central3` + `e2e_moment`. -/
theorem e2e_moment_skewness (E : ExpLog F) (dom : Nat → Nat) (v : Nat) (c : MCirc F)
    (hv : Valid dom c.toCirc) (hn : NormW c.toCirc) (hl : LeafNorm dom c.toCirc)
    (hm : ∀ k, MomOK dom k v c) (hin : v ∈ c.scope) :
    Gen.skewness E (moGenTree 1 v c) (moGenTree 2 v c) (moGenTree 3 v c) (moGenTree 4 v c)
      = (momentSpec dom 3 v c.toCirc - 3 * momentSpec dom 1 v c.toCirc * momentSpec dom 2 v c.toCirc
          + 2 * (momentSpec dom 1 v c.toCirc) ^ 3)
        / E.rpow (momentSpec dom 2 v c.toCirc - (momentSpec dom 1 v c.toCirc) ^ 2) 3 2 := by
  rw [Oblig.C19.skewness_is_central3, e2e_moment dom 1 v c hv hn hl (hm 1) hin, e2e_moment dom 2 v c hv hn hl (hm 2) hin,
    e2e_moment dom 3 v c hv hn hl (hm 3) hin]

/-- **`e2e_moment_kurtosis`** (C19): the GENERATED `kurtosis` on the generated moments is the excess kurtosis (fourth
central moment over `σ⁴`, minus 3) when the variance is not zero.  Ingredients: `Oblig.C19.kurtosis_is_excess` +
`e2e_moment`. -/
theorem e2e_moment_kurtosis (dom : Nat → Nat) (v : Nat) (c : MCirc F)
    (hv : Valid dom c.toCirc) (hn : NormW c.toCirc) (hl : LeafNorm dom c.toCirc)
    (hm : ∀ k, MomOK dom k v c) (hin : v ∈ c.scope)
    (hvar : momentSpec dom 2 v c.toCirc - (momentSpec dom 1 v c.toCirc) ^ 2 ≠ 0) :
    Gen.kurtosis (moGenTree 1 v c) (moGenTree 2 v c) (moGenTree 3 v c) (moGenTree 4 v c)
      = (momentSpec dom 4 v c.toCirc - 4 * momentSpec dom 1 v c.toCirc * momentSpec dom 3 v c.toCirc
          + 6 * (momentSpec dom 1 v c.toCirc) ^ 2 * momentSpec dom 2 v c.toCirc
          - 3 * (momentSpec dom 1 v c.toCirc) ^ 4)
        / (momentSpec dom 2 v c.toCirc - (momentSpec dom 1 v c.toCirc) ^ 2) ^ 2 - 3 := by
  rw [e2e_moment dom 1 v c hv hn hl (hm 1) hin, e2e_moment dom 2 v c hv hn hl (hm 2) hin,
    e2e_moment dom 3 v c hv hn hl (hm 3) hin, e2e_moment dom 4 v c hv hn hl (hm 4) hin]
  exact Oblig.C19.kurtosis_is_excess _ _ _ _ hvar

/-- discharging the leaf hypothesis from the leaf theory (`LeafTheory.categorical_leaf_moment_exact`): on a Categorical
leaf with arbitrary non-negative categories `cats` (stored as its dense table over `0 .. dom v − 1`) the GENERATED
recursion returns the leaf's own `Categorical.moment(k) = Σ_c cᵏ·p_c`, which is the exact raw moment, and `MomOK` holds -/
theorem e2e_moment_categorical_leaf (dom : Nat → Nat) (k v : Nat) (cats : List Int) (ps : List F)
    (hn : cats.Nodup) (hr : ∀ c ∈ cats, 0 ≤ c ∧ c < dom v) (hl : cats.length = ps.length) (hs : tsum ps = 1) :
    MomOK dom k v (MCirc.cat v (LeafTheory.denseTbl cats ps (dom v))) ∧
    moGenTree k v (MCirc.cat v (LeafTheory.denseTbl cats ps (dom v))) = LeafTheory.catMoment k cats ps ∧
    LeafTheory.catMoment k cats ps = momentSpec dom k v (Circ.catLeaf v (LeafTheory.denseTbl cats ps (dom v))) := by
  obtain ⟨h1, h2, h3⟩ := LeafTheory.categorical_leaf_moment_exact dom k v cats ps hn hr hl hs
  exact ⟨h1, by rw [moGenTree_eq]; exact h2, h3⟩

/-! ### non-vacuity: the mixture of two products of `Props/C19.lean` (a Bernoulli and a 3-valued Categorical variable), as
a tree (`C19.exC`) and as a stored DAG in which the two products share the Bernoulli leaf (`C19.exNet`) -/

/-- all hypotheses of `e2e_moment` hold for `C19.exC`, every order, both variables; the generated recursion returns
`E[X₁] = 77/50`, `E[X₁²] = 29/10` -/
example (k : Nat) : moGenTree k 1 C19.exC = momentSpec C19.exDom k 1 C19.exC.toCirc :=
  e2e_moment C19.exDom k 1 C19.exC C19.exC_valid C19.exC_normW C19.exC_leafNorm (C19.exC_momOK k 1)
    (by simp [C19.exC, C19.exCof, MCirc.scope])

example : moGenTree 1 1 C19.exC = 77/50 ∧ moGenTree 2 1 C19.exC = 29/10 := by
  refine ⟨?_, ?_⟩ <;>
    norm_num [C19.exC, C19.exCof, moGenTree, MCirc.cat, Gen.S3leafMoment, Gen.S3nodeLikelihood, Gen.S3sumLikelihood,
      Gen.S3productLikelihood, Gen.Py3.dot, Gen.Py3.prod, tblMoment, sumVar, List.range_succ, natC, powN]

/-- the generated variance of X₁: `29/10 − (77/50)²` -/
example : Gen.variance (moGenTree 1 1 C19.exC) (moGenTree 2 1 C19.exC) (moGenTree 3 1 C19.exC) (moGenTree 4 1 C19.exC)
    = momentSpec C19.exDom 2 1 C19.exC.toCirc - (momentSpec C19.exDom 1 1 C19.exC.toCirc) ^ 2 :=
  e2e_moment_variance C19.exDom 1 C19.exC C19.exC_valid C19.exC_normW C19.exC_leafNorm (fun k => C19.exC_momOK k 1)
    (by simp [C19.exC, C19.exCof, MCirc.scope])

theorem moExC_m1 : momentSpec C19.exDom 1 1 C19.exC.toCirc = 77/50 := by
  rw [← C19.moment_exact C19.exDom 1 1 C19.exC C19.exC_valid C19.exC_normW C19.exC_leafNorm (C19.exC_momOK 1 1)
    (by simp [C19.exC, C19.exCof, MCirc.scope])]
  norm_num [C19.exC, C19.exCof, moment, MCirc.cat, tblMoment, sumVar, List.range_succ, natC, powN, wsum, lprod]

theorem moExC_m2 : momentSpec C19.exDom 2 1 C19.exC.toCirc = 29/10 := by
  rw [← C19.moment_exact C19.exDom 2 1 C19.exC C19.exC_valid C19.exC_normW C19.exC_leafNorm (C19.exC_momOK 2 1)
    (by simp [C19.exC, C19.exCof, MCirc.scope])]
  norm_num [C19.exC, C19.exCof, moment, MCirc.cat, tblMoment, sumVar, List.range_succ, natC, powN, wsum, lprod]

/-- kurtosis of X₁ in `C19.exC`: the variance `29/10 − (77/50)² = 1321/2500` is not zero -/
example : Gen.kurtosis (moGenTree 1 1 C19.exC) (moGenTree 2 1 C19.exC) (moGenTree 3 1 C19.exC) (moGenTree 4 1 C19.exC)
    = (momentSpec C19.exDom 4 1 C19.exC.toCirc
        - 4 * momentSpec C19.exDom 1 1 C19.exC.toCirc * momentSpec C19.exDom 3 1 C19.exC.toCirc
        + 6 * (momentSpec C19.exDom 1 1 C19.exC.toCirc) ^ 2 * momentSpec C19.exDom 2 1 C19.exC.toCirc
        - 3 * (momentSpec C19.exDom 1 1 C19.exC.toCirc) ^ 4)
      / (momentSpec C19.exDom 2 1 C19.exC.toCirc - (momentSpec C19.exDom 1 1 C19.exC.toCirc) ^ 2) ^ 2 - 3 :=
  e2e_moment_kurtosis C19.exDom 1 C19.exC C19.exC_valid C19.exC_normW C19.exC_leafNorm (fun k => C19.exC_momOK k 1)
    (by simp [C19.exC, C19.exCof, MCirc.scope]) (by rw [moExC_m1, moExC_m2]; norm_num)

/-- the real-valued copy of a one-leaf circuit (a Bernoulli(1/5) leaf) for the skewness statement, which needs an `ExpLog` -/
noncomputable def moExBern : MCirc ℝ := MCirc.cat 0 [4/5, 1/5]

example : Gen.skewness realExpLog (moGenTree 1 0 moExBern) (moGenTree 2 0 moExBern) (moGenTree 3 0 moExBern)
      (moGenTree 4 0 moExBern)
    = (momentSpec (fun _ => 2) 3 0 moExBern.toCirc
        - 3 * momentSpec (fun _ => 2) 1 0 moExBern.toCirc * momentSpec (fun _ => 2) 2 0 moExBern.toCirc
        + 2 * (momentSpec (fun _ => 2) 1 0 moExBern.toCirc) ^ 3)
      / realExpLog.rpow (momentSpec (fun _ => 2) 2 0 moExBern.toCirc
          - (momentSpec (fun _ => 2) 1 0 moExBern.toCirc) ^ 2) 3 2 := by
  apply e2e_moment_skewness realExpLog (fun _ => 2) 0 moExBern
  · unfold moExBern; rw [MCirc.cat_toCirc]; unfold Circ.catLeaf Valid
    exact Circ.catLeaf_ok (fun _ => 2) 0 _ rfl (by norm_num [tsum])
  · unfold moExBern; rw [MCirc.cat_toCirc]; simp [Circ.catLeaf, NormW]
  · unfold moExBern; rw [MCirc.cat_toCirc]; simp [Circ.catLeaf, LeafNorm, Circ.catLeafFn]
  · intro k; exact C19.cat_momOK (fun _ => 2) k 0 0 _ rfl
  · simp [moExBern, MCirc.cat, MCirc.scope]

/-- `e2e_moment_abstract`: the model's own recursion is such a `J` -/
example : MCirc.moment 2 1 C19.exC = moGenTree 2 1 C19.exC :=
  e2e_moment_abstract 2 1 (MCirc.moment 2 1) (fun _ _ _ => by simp only [moment]) (fun _ _ _ => by simp only [moment])
    (fun _ _ => by simp only [moment]) C19.exC

example : moGenApi C19.exC 0
    = some ((List.range C19.exC.scope.length).map (fun v => momentSpec C19.exDom 0 v C19.exC.toCirc)) :=
  e2e_moment_api_zero C19.exDom C19.exC C19.exC_valid C19.exC_normW C19.exC_leafNorm

/-- the API: order −1 raises, order 0 returns ones, order 2 returns the exact second moments of both variables -/
example : moGenApi C19.exC (-1) = none ∧ moGenApi C19.exC 0 = some [1, 1] ∧
    moGenApi C19.exC 2 = some [momentSpec C19.exDom 2 0 C19.exC.toCirc, momentSpec C19.exDom 2 1 C19.exC.toCirc] := by
  refine ⟨((e2e_moment_api C19.exDom C19.exC (-1)).2.1).2 (by norm_num), ?_, ?_⟩
  · rw [((e2e_moment_api C19.exDom C19.exC 0).2.2.1) rfl]; rfl
  · rw [((e2e_moment_api C19.exDom C19.exC 2).2.2.2) (by norm_num) C19.exC_valid C19.exC_normW C19.exC_leafNorm ?_]
    · rfl
    · intro v hv
      have hv' : v < 2 := hv
      refine ⟨?_, C19.exC_momOK _ v⟩
      simp only [C19.exC, C19.exCof, MCirc.scope]
      rcases v with _ | _ | v
      · simp
      · simp
      · omega

theorem moExNet_cases (P : Nat → NNode ℚ → Prop)
    (h0 : P 0 C19.exNet[0]) (h1 : P 1 C19.exNet[1]) (h2 : P 2 C19.exNet[2]) (h3 : P 3 C19.exNet[3])
    (h4 : P 4 C19.exNet[4]) (h5 : P 5 C19.exNet[5]) : ∀ (i : Nat) (x : NNode ℚ), C19.exNet[i]? = some x → P i x := by
  intro i x hx
  match i with
  | 0 => cases hx; exact h0
  | 1 => cases hx; exact h1
  | 2 => cases hx; exact h2
  | 3 => cases hx; exact h3
  | 4 => cases hx; exact h4
  | 5 => cases hx; exact h5
  | n+6 => simp [C19.exNet] at hx

theorem moExNet_ok : ∀ (i : Nat) (x : NNode ℚ), C19.exNet[i]? = some x → NodeOK C19.exDom C19.exNet [] i x := by
  apply moExNet_cases (fun i x => NodeOK C19.exDom C19.exNet [] i x)
  · exact Circ.catLeaf_ok C19.exDom 0 _ (by simp [C19.exDom]) (by norm_num [tsum])
  · exact Circ.catLeaf_ok C19.exDom 1 _ (by simp [C19.exDom]) (by norm_num [tsum])
  · exact Circ.catLeaf_ok C19.exDom 1 _ (by simp [C19.exDom]) (by norm_num [tsum])
  · exact ⟨by decide, by intro v; simp [C19.exNet, scopeOf]⟩
  · exact ⟨by decide, by intro v; simp [C19.exNet, scopeOf]⟩
  · refine ⟨by simp [C19.exNet], rfl, ?_⟩
    intro c hc
    simp [C19.exNet] at hc
    rcases hc with rfl | rfl <;> (intro v; simp [C19.exNet, scopeOf]; try tauto)

theorem moExNet_normW : NetNormW C19.exNet := by
  apply moExNet_cases (fun i x => x.kind = .sum → tsum x.ws = 1)
  all_goals first | (intro h; cases h; done) | (intro _; norm_num [C19.exNet, tsum])

theorem moExNet_leafNorm : NetLeafNorm C19.exNet [] := by
  apply moExNet_cases (fun i x => x.kind = .leaf → x.leaf.fn x.scope (([] : List ℚ).getD i 0) (fun _ => none) = 1)
  all_goals first | (intro h; cases h; done) | (intro _; simp [C19.exNet, LeafP.fn, Circ.catLeafFn])

theorem moExNet_leafExact (k v : Nat) : MoLeafExact C19.exDom k v C19.exNet [] (fun _ => []) := by
  apply mo_leafExact_of_cat
  apply moExNet_cases (fun i x => x.kind = .leaf → ∃ w tbl, x.leaf = .cat w tbl ∧ x.scope = [w] ∧ tbl.length = C19.exDom w)
  · intro _; exact ⟨0, _, rfl, rfl, by simp [C19.exDom]⟩
  · intro _; exact ⟨1, _, rfl, rfl, by simp [C19.exDom]⟩
  · intro _; exact ⟨1, _, rfl, rfl, by simp [C19.exDom]⟩
  · intro h; cases h
  · intro h; cases h
  · intro h; cases h

/-- all hypotheses of `e2e_moment_table` hold for the shared-leaf DAG, every order; the generated pass returns
`E[X₁²] = 29/10` and `E[X₀] = 1/5` at the root -/
example (k : Nat) : (moGenTable k 1 C19.exNet []).getD 5 0 = momentSpec C19.exDom k 1 (toTree C19.exNet [] 6 5) :=
  e2e_moment_table C19.exDom k 1 [] (fun _ => []) C19.exNet C19.exNet_wellOrdered moExNet_ok moExNet_normW
    moExNet_leafNorm (moExNet_leafExact k 1) 5 (by decide) (by simp [scopeOf, C19.exNet])

/-- `e2e_moment_net` with the hypotheses on the unfolding (as `C19.momentNet_exact` states them) -/
example (k : Nat) : (moGenTable k 1 C19.exNet []).getD 5 0 = momentSpec C19.exDom k 1 (toTree C19.exNet [] 6 5) :=
  e2e_moment_net C19.exDom k 1 [] (fun _ => []) C19.exNet C19.exNet_wellOrdered 5 (by decide)
    (valid_toTree C19.exDom C19.exNet [] C19.exNet_wellOrdered moExNet_ok 5 (by decide))
    (normW_toTree C19.exNet [] C19.exNet_wellOrdered moExNet_normW 5 (by decide))
    (leafNorm_toTree C19.exDom C19.exNet [] C19.exNet_wellOrdered moExNet_leafNorm 5 (by decide))
    (mo_momOK_toMTree C19.exDom k 1 C19.exNet [] (fun _ => []) (moExNet_leafExact k 1) 6 5)
    (by rw [scope_toTree C19.exNet [] 5 5 (by decide)]; simp [scopeOf, C19.exNet])

example : (moGenTable 2 1 C19.exNet []).getD 5 0 = 29/10 ∧ (moGenTable 1 0 C19.exNet []).getD 5 0 = 1/5 :=
  ⟨by decide +kernel, by decide +kernel⟩

/-- the leaf theory: a Categorical leaf over the categories `{3, 1, 4}` of a variable with domain `0..4` -/
example (k : Nat) :
    moGenTree k 0 (MCirc.cat 0 (LeafTheory.denseTbl LeafTheory.exCatsA LeafTheory.exPsA (LeafTheory.exDom 0)))
      = LeafTheory.catMoment k LeafTheory.exCatsA LeafTheory.exPsA :=
  (e2e_moment_categorical_leaf (F := ℚ) LeafTheory.exDom k 0 LeafTheory.exCatsA LeafTheory.exPsA (by decide)
    (by intro c hc; simp [LeafTheory.exCatsA] at hc; rcases hc with rfl | rfl | rfl <;> simp [LeafTheory.exDom]) rfl
    (by norm_num [LeafTheory.exPsA, tsum])).2.1

end moment

end item8

section item12
open Deeprob

/-! ## item 12 — C14: the responsibilities `expectation_maximization` hands to `Sum.em_step` -/

section resp
variable {F : Type} [Field F] [LinearOrder F] [IsStrictOrderedRing F]
open Bwd

/-- the entries of `stats = np.exp(children_ll - root_ll + grads[node.id])` for sum node `n` on one row, one per child
in child order: the GENERATED `Gen.S3emRespSum` on the logarithms of the child's value, the root's value and the gradient
of the node.  Nothing but the generated expression and the loop over the children. -/
def rsGenResp (E : ExpLog F) (vals grads : List F) (root n : Nat) (x : NNode F) : List F :=
  x.ch.map (fun c => Gen.S3emRespSum E (E.log (vals.getD c 0)) (E.log (vals.getD root 0)) (E.log (grads.getD n 0)))

/-- the positivity hypotheses the log domain needs at sum node `x` (stored at index `n`): the values of its children, the
value of the root and the gradient of the node have logarithms -/
def RsPos (vals grads : List F) (root n : Nat) (x : NNode F) : Prop :=
  (∀ c ∈ x.ch, 0 < vals.getD c 0) ∧ 0 < vals.getD root 0 ∧ 0 < grads.getD n 0

/-- linking lemma (`respSum_as_coded` read from the generated side) -/
theorem rsGenResp_eq (E : ExpLog F) (vals grads : List F) (root n : Nat) (x : NNode F) (hp : RsPos vals grads root n x) :
    rsGenResp E vals grads root n x = respSum vals grads root n x :=
  (Struct3.respSum_as_coded E vals grads root n x hp.1 hp.2.1 hp.2.2).symm

/-! ### the end-to-end corollaries -/

/-- **`e2e_resp_entry`** (C14): the GENERATED responsibility expression, evaluated on the logarithms of the value of a
child `c`, of the value of the root and of the gradient the (modelled) backward pass leaves at node `n`, is
`value[c] · grads[n] / value[root]`, where `grads[n]` is the derivative of the root with respect to node `n`: the root
value, as a function of the value forced at `n`, is affine with that slope.
Ingredients: `Struct3.resp_entry_as_coded` + `C14.backward_is_derivative`. -/
theorem e2e_resp_entry (E : ExpLog F) (e : Ev) (dens : List F) (net : Net F) (hw : WellOrdered net) (root n c : Nat)
    (hr : root < net.length) (hn : n < net.length) (hd : DecompAt net root n)
    (hc : 0 < (evalNet e dens net).getD c 0) (hroot : 0 < (evalNet e dens net).getD root 0)
    (hg : 0 < (backward net (evalNet e dens net) root).getD n 0) :
    Gen.S3emRespSum E (E.log ((evalNet e dens net).getD c 0)) (E.log ((evalNet e dens net).getD root 0))
        (E.log ((backward net (evalNet e dens net) root).getD n 0))
      = (evalNet e dens net).getD c 0 * (backward net (evalNet e dens net) root).getD n 0
          / (evalNet e dens net).getD root 0 ∧
    ∀ x : F, (evalNetWith e dens net n x).getD root 0
      = (evalNetWith e dens net n 0).getD root 0 + (backward net (evalNet e dens net) root).getD n 0 * x :=
  ⟨(Struct3.resp_entry_as_coded E _ _ _ hc hroot hg).1,
   fun x => C14.backward_is_derivative e dens net hw root n hr hn hd x⟩

/-- **`e2e_resp_posterior`** (C14): for every sum node `n` of a children-first table, the GENERATED responsibilities of
its children, weighted by the current weights, add up to `value[n] · grads[n] / value[root]`.
Ingredients: `Struct3.respSum_as_coded` (`resp_entry_as_coded` for every child) + `C14.resp_is_posterior`. -/
theorem e2e_resp_posterior (E : ExpLog F) (e : Ev) (dens : List F) (net : Net F) (hw : WellOrdered net) (root n : Nat)
    (hn : n < net.length) (hk : (net[n]).kind = .sum)
    (hp : RsPos (evalNet e dens net) (backward net (evalNet e dens net) root) root n net[n]) :
    wsum (net[n]).ws (rsGenResp E (evalNet e dens net) (backward net (evalNet e dens net) root) root n net[n])
      = (evalNet e dens net).getD n 0 * (backward net (evalNet e dens net) root).getD n 0
          / (evalNet e dens net).getD root 0 := by
  rw [rsGenResp_eq E _ _ root n _ hp]
  exact C14.resp_is_posterior e dens net hw root n hn hk

/-- **`e2e_resp`** (C14): … which is the posterior probability that the sum node is reached — the share of the root's
mass that flows through `n`: one minus what is left of the root when `n` is zeroed, relative to the root.  The
positivity hypotheses (`RsPos`) are those the logarithms need; `hd` is decomposability below the root
(`decompAt_of_nodeOK`).  Ingredients: `Struct3.respSum_as_coded` + `C14.resp_is_mass_through_node`
(= `resp_is_posterior` + `backward_is_derivative`). -/
theorem e2e_resp (E : ExpLog F) (e : Ev) (dens : List F) (net : Net F) (hw : WellOrdered net) (root n : Nat)
    (hr : root < net.length) (hn : n < net.length) (hk : (net[n]).kind = .sum) (hd : DecompAt net root n)
    (hp : RsPos (evalNet e dens net) (backward net (evalNet e dens net) root) root n net[n]) :
    wsum (net[n]).ws (rsGenResp E (evalNet e dens net) (backward net (evalNet e dens net) root) root n net[n])
      = 1 - (evalNetWith e dens net n 0).getD root 0 / (evalNet e dens net).getD root 0 := by
  rw [rsGenResp_eq E _ _ root n _ hp]
  exact C14.resp_is_mass_through_node e dens net hw root n hr hn hk hd (ne_of_gt hp.2.1)

/-- **`e2e_resp_root`** (C14): at a root sum node the weighted GENERATED responsibilities add up to one — the E-step
distributes one unit of mass per row.  The gradient hypothesis is discharged (`grads[root] = 1`,
`C14.backward_root_one`).  Ingredients: `Struct3.respSum_as_coded` + `C14.resp_root_sums_to_one`. -/
theorem e2e_resp_root (E : ExpLog F) (e : Ev) (dens : List F) (net : Net F) (hw : WellOrdered net) (root : Nat)
    (hr : root < net.length) (hk : (net[root]).kind = .sum)
    (hc : ∀ c ∈ (net[root]).ch, 0 < (evalNet e dens net).getD c 0) (hroot : 0 < (evalNet e dens net).getD root 0) :
    wsum (net[root]).ws
      (rsGenResp E (evalNet e dens net) (backward net (evalNet e dens net) root) root root net[root]) = 1 := by
  have hg : 0 < (backward net (evalNet e dens net) root).getD root 0 := by
    rw [C14.backward_root_one net _ hw root hr]; exact one_pos
  rw [rsGenResp_eq E _ _ root root _ ⟨hc, hroot, hg⟩]
  exact C14.resp_root_sums_to_one e dens net hw root hr hk (ne_of_gt hroot)

/-- **`e2e_resp_gen`**: the same with the values taken from the GENERATED linear-domain forward pass `genTable` of
`Props/E2ECirc.lean` (tables whose leaves are Bernoulli / Categorical source leaves).
Ingredients: `e2e_resp` + `genTable_eq_evalNet`. -/
theorem e2e_resp_gen (E : ExpLog F) (e : Ev) (dens : List F) (net : Net F) (leaves : Nat → SrcLeaf F)
    (hw : WellOrdered net) (hl : TableLeaves net leaves) (root n : Nat)
    (hr : root < net.length) (hn : n < net.length) (hk : (net[n]).kind = .sum) (hd : DecompAt net root n)
    (hp : RsPos (genTable e net leaves) (backward net (genTable e net leaves) root) root n net[n]) :
    wsum (net[n]).ws (rsGenResp E (genTable e net leaves) (backward net (genTable e net leaves) root) root n net[n])
      = 1 - (evalNetWith e dens net n 0).getD root 0 / (genTable e net leaves).getD root 0 := by
  rw [genTable_eq_evalNet e dens net leaves hl] at hp ⊢
  exact e2e_resp E e dens net hw root n hr hn hk hd hp

/-! ### non-vacuity at ℝ (usual `exp` / `log`): a DAG over two binary variables — the root sum 7 over the products 4 and 6,
which SHARE the leaf 3; the inner sum 2 is a child of product 4.  Row `(X0, X1) = (1, 0)`. -/

noncomputable def rsNet : Net ℝ :=
  [⟨0, .leaf, [0], [], [], .cat 0 [1/2, 1/2]⟩,
   ⟨1, .leaf, [0], [], [], .cat 0 [1/4, 3/4]⟩,
   ⟨2, .sum, [0], [0, 1], [1/3, 2/3], .absent⟩,
   ⟨3, .leaf, [1], [], [], .cat 1 [1/5, 4/5]⟩,
   ⟨4, .prod, [0, 1], [2, 3], [], .absent⟩,
   ⟨5, .leaf, [0], [], [], .cat 0 [1/10, 9/10]⟩,
   ⟨6, .prod, [0, 1], [5, 3], [], .absent⟩,
   ⟨7, .sum, [0, 1], [4, 6], [1/2, 1/2], .absent⟩]

noncomputable def rsLeaves : Nat → SrcLeaf ℝ := fun i =>
  [SrcLeaf.categorical 0 [1/2, 1/2], .categorical 0 [1/4, 3/4], .bernoulli 0 0, .categorical 1 [1/5, 4/5],
   .bernoulli 0 0, .categorical 0 [1/10, 9/10]].getD i (.bernoulli 0 0)

def rsRow : Ev := Ev.ofList [some 1, some 0]

theorem rsNet_wo : WellOrdered rsNet := (wellOrderedB_iff rsNet).1 (by decide)

theorem rsNet_vals : evalNet rsRow [] rsNet = [1/2, 3/4, 2/3, 1/5, 2/15, 9/10, 9/50, 47/300] := by
  simp [evalNet, evalNode, rsNet, rsRow, LeafP.fn, Circ.catLeafFn, Ev.ofList, wsum, lprod]
  norm_num

theorem rsNet_grads : backward rsNet (evalNet rsRow [] rsNet) 7 = [1/30, 1/15, 1/10, 47/60, 1/2, 1/10, 1/2, 1] := by
  rw [rsNet_vals]
  simp [backward, sendDown, rsNet, List.range_succ, List.zipIdx, lprod]
  norm_num

/-- the inner sum 2 has the single path `[0, 0]` from the root, hence is not reached twice below a product -/
theorem rsNet_decomp : DecompAt rsNet 7 2 := by
  apply decompAt_of_unique_path
  intro q q' h h'
  have := unique_path_of_pathsTo rsNet rsNet_wo 7 2 [0, 0] (by decide)
  rw [this q h, this q' h']

theorem rsNet_pos : RsPos (evalNet rsRow [] rsNet) (backward rsNet (evalNet rsRow [] rsNet) 7) 7 2 rsNet[2] := by
  rw [rsNet_grads, rsNet_vals]
  refine ⟨?_, by norm_num, by norm_num⟩
  intro c hc
  simp [rsNet] at hc
  rcases hc with rfl | rfl <;> norm_num

theorem rsNet_tableLeaves : TableLeaves rsNet rsLeaves := by
  intro i x hx hk
  match i with
  | 0 => cases hx; rfl
  | 1 => cases hx; rfl
  | 2 => cases hx; cases hk
  | 3 => cases hx; rfl
  | 4 => cases hx; cases hk
  | 5 => cases hx; rfl
  | 6 => cases hx; cases hk
  | 7 => cases hx; cases hk
  | n+8 => simp [rsNet] at hx

/-- all hypotheses of `e2e_resp_posterior` / `e2e_resp` hold for the inner sum 2; the weighted generated
responsibilities add up to `(2/3)·(1/10)/(47/300) = 20/47`, the share of the root's mass that flows through node 2 -/
example : wsum (rsNet[2]).ws (rsGenResp realExpLog (evalNet rsRow [] rsNet) (backward rsNet (evalNet rsRow [] rsNet) 7) 7 2
      rsNet[2]) = 20/47 ∧
    wsum (rsNet[2]).ws (rsGenResp realExpLog (evalNet rsRow [] rsNet) (backward rsNet (evalNet rsRow [] rsNet) 7) 7 2
      rsNet[2]) = 1 - (evalNetWith rsRow [] rsNet 2 0).getD 7 0 / (evalNet rsRow [] rsNet).getD 7 0 := by
  refine ⟨?_, e2e_resp realExpLog rsRow [] rsNet rsNet_wo 7 2 (by decide) (by decide) rfl rsNet_decomp rsNet_pos⟩
  rw [e2e_resp_posterior realExpLog rsRow [] rsNet rsNet_wo 7 2 (by decide) rfl rsNet_pos, rsNet_grads, rsNet_vals]
  norm_num

/-- the entry of child 0 of the inner sum: `(1/2)·(1/10)/(47/300) = 15/47` -/
example : Gen.S3emRespSum realExpLog (realExpLog.log ((evalNet rsRow [] rsNet).getD 0 0))
    (realExpLog.log ((evalNet rsRow [] rsNet).getD 7 0))
    (realExpLog.log ((backward rsNet (evalNet rsRow [] rsNet) 7).getD 2 0)) = 15/47 := by
  rw [(e2e_resp_entry realExpLog rsRow [] rsNet rsNet_wo 7 2 0 (by decide) (by decide) rsNet_decomp
    (by rw [rsNet_vals]; norm_num) (by rw [rsNet_vals]; norm_num) (by rw [rsNet_grads]; norm_num)).1,
    rsNet_grads, rsNet_vals]
  norm_num

/-- the root sum 7: the weighted generated responsibilities add up to one -/
example : wsum (rsNet[7]).ws (rsGenResp realExpLog (evalNet rsRow [] rsNet) (backward rsNet (evalNet rsRow [] rsNet) 7) 7 7
    rsNet[7]) = 1 := by
  apply e2e_resp_root realExpLog rsRow [] rsNet rsNet_wo 7 (by decide) rfl
  · intro c hc
    simp [rsNet] at hc
    rcases hc with rfl | rfl <;> (rw [rsNet_vals]; norm_num)
  · rw [rsNet_vals]; norm_num

/-- the same with the values of the GENERATED forward pass -/
example : wsum (rsNet[2]).ws (rsGenResp realExpLog (genTable rsRow rsNet rsLeaves)
      (backward rsNet (genTable rsRow rsNet rsLeaves) 7) 7 2 rsNet[2])
    = 1 - (evalNetWith rsRow [] rsNet 2 0).getD 7 0 / (genTable rsRow rsNet rsLeaves).getD 7 0 :=
  e2e_resp_gen realExpLog rsRow [] rsNet rsLeaves rsNet_wo rsNet_tableLeaves 7 2 (by decide) (by decide) rfl rsNet_decomp
    (by rw [genTable_eq_evalNet rsRow [] rsNet rsLeaves rsNet_tableLeaves]; exact rsNet_pos)

end resp

end item12

section item4
open Deeprob

/-! ## item 4 — structural marginalisation (C10) -/

section marg
open Net

/-- `marginalize(root, keep_scope)` around the GENERATED pieces: the GENERATED argument guards `Gen.margGuardChain` (the
index of the first guard that raises, rendered with `StructRewrite.margTag`), the model's test for leaves outside the
net-level model (`margUnsupported`, not generated), the GENERATED first pass (`Struct4.margPassGen`: `Gen.S4margStep` once
per table entry), `nodes_map[root.id]`, then the MODELLED `prune` (`pruneNet`) with the canonical export -/
def mgGenMarginalize {α : Type} [Zero α] [Add α] [Mul α] (keep : List Nat) (net : Net α) (root : Nat) :
    Except String (Net α × List Nat) :=
  match Gen.margGuardChain keep (scopeAt net root) with
  | some k => .error ("reject:" ++ Oblig.StructRewrite.margTag k)
  | none =>
    match margUnsupported net (collect net root) with
    | some why => .error ("unsupported:" ++ why)
    | none =>
      let st := Struct4.margPassGen keep net
      match st.2.getD root none with
      | none => .error "none"
      | some r1 =>
        match pruneNet st.1 r1 with
        | none => .error "cycle"
        | some res => .ok res

/-- the domain of `Struct4.margPass_as_coded`: EVERY entry of the table (reachable from the root or not) has its children
stored before it and, if a leaf, a single variable -/
def mgTableOK {α : Type} (net : Net α) : Prop :=
  ∀ (i : Nat) (x : NNode α), net[i]? = some x → (∀ c ∈ x.ch, c < i) ∧ (x.kind = Kind.leaf → x.scope.length = 1)

/-! ### linking lemmas -/

/-- **the function around the generated pieces is the model's `marginalizeNet`** on the domain of the obligation
(`margGuard_as_coded`, `margPass_as_coded`, `pruneNet_is_repaired`) -/
theorem mgGenMarginalize_eq {α : Type} [Zero α] [Add α] [Mul α] (keep : List Nat) (net : Net α) (root : Nat)
    (ht : mgTableOK net) : mgGenMarginalize keep net root = marginalizeNet keep net root := by
  unfold mgGenMarginalize marginalizeNet marginalizeNetWith
  rw [Oblig.StructRewrite.margGuard_as_coded, Struct4.margPass_as_coded keep net ht]
  cases Gen.margGuardChain keep (scopeAt net root) with
  | some k => rfl
  | none =>
    simp only [Option.map_none]
    cases margUnsupported net (collect net root) with
    | some why => rfl
    | none =>
      simp only
      cases ((margPass keep net).2.getD root none) with
      | none => rfl
      | some r1 =>
        simp only [Oblig.StructRewrite.pruneNet_is_repaired]
        rfl

/-- the hypotheses of the value theorem put the table into the domain of the obligation: children-first storage is
`WellOrdered`, and `MargNodeOK` at a leaf says its scope is one variable -/
theorem mgTableOK_of_nodeOK {α : Type} (net : Net α) (hw : WellOrdered net)
    (hn : ∀ (i : Nat) (x : NNode α), net[i]? = some x → MargNodeOK net x) : mgTableOK net := by
  intro i x hx
  refine ⟨hw i x hx, ?_⟩
  intro hk
  have := hn i x hx
  unfold MargNodeOK at this
  rw [hk] at this
  obtain ⟨v, hv, _⟩ := this
  rw [hv]; rfl

/-- the generated guard chain only answers `none`, `some 0`, `some 1`, `some 2` -/
theorem mgGuardChain_range (keep scope : List Nat) :
    Gen.margGuardChain keep scope = none ∨ Gen.margGuardChain keep scope = some 0 ∨
    Gen.margGuardChain keep scope = some 1 ∨ Gen.margGuardChain keep scope = some 2 := by
  unfold Gen.margGuardChain
  simp only []
  split
  · simp
  · split
    · simp
    · split <;> simp

variable {α : Type} [CommSemiring α]

/-! ### the end-to-end corollaries -/

/-- **`e2e_marginalize`** (C10 at DAG level, value): whenever the GENERATED guards accept and the GENERATED first pass
followed by the modelled `prune` returns a table, its root (last entry) has, under every evidence in which all variables
outside the kept set are missing, the value the original table has at `root` — shared sub-circuits and merged coinciding
children included.  Hypotheses on the table exactly as in `marginalizeNetWith_eval` (they imply the domain of
`margPass_as_coded`, `mgTableOK_of_nodeOK`).
Ingredients: `margGuard_as_coded`, `margPass_as_coded`, `pruneNet_is_repaired` + `marginalizeNetWith_eval`. -/
theorem e2e_marginalize (keep : List Nat) (net : Net α) (root : Nat)
    (hw : WellOrdered net) (hs : NetSumOK net)
    (hn : ∀ (i : Nat) (x : NNode α), net[i]? = some x → MargNodeOK net x)
    (hr : root < net.length) (out : Net α) (order : List Nat)
    (h : mgGenMarginalize keep net root = .ok (out, order))
    (e : Ev) (he : ∀ v, v ∉ keep → e v = none) (dens : List α) :
    out ≠ [] ∧ nval e (order.map (fun i => dens.getD i 0)) out (out.length - 1) = nval e dens net root := by
  rw [mgGenMarginalize_eq keep net root (mgTableOK_of_nodeOK net hw hn)] at h
  exact marginalizeNetWith_eval true keep net root hw hs hn hr out order h e he dens

/-- **`e2e_marginalize_rows`** (C10, the statement on rows): the returned table evaluated on a row `x` over the kept
variables equals the original table evaluated on `x` with every other variable marked missing.
Ingredients: as above + `marginalizeNet_eval`. -/
theorem e2e_marginalize_rows (keep : List Nat) (net : Net α) (root : Nat)
    (hw : WellOrdered net) (hs : NetSumOK net)
    (hn : ∀ (i : Nat) (x : NNode α), net[i]? = some x → MargNodeOK net x)
    (hr : root < net.length) (out : Net α) (order : List Nat)
    (h : mgGenMarginalize keep net root = .ok (out, order)) (x : Ev) (dens : List α) :
    nval (x.restrict keep) (order.map (fun i => dens.getD i 0)) out (out.length - 1)
      = nval (x.restrict keep) dens net root := by
  rw [mgGenMarginalize_eq keep net root (mgTableOK_of_nodeOK net hw hn)] at h
  exact marginalizeNet_eval keep net root hw hs hn hr out order h x dens

/-- **`e2e_marginalize_total`** (C10, totality): for a children-first table accepted by
`check_spn(labeled, smooth, decomposable)` whose leaves have no children, when the GENERATED guard chain raises nothing and
there is no Chow-Liu / multivariate leaf, the GENERATED pass followed by the modelled `prune` returns a table.
`ht` (every table entry, reachable or not, is stored after its children and has a one-variable scope if a leaf) is the
domain of `margPass_as_coded`; the property theorem only needs this for the nodes reachable from the root (`hun`), the
obligation asks it of the whole table — both are listed.
Ingredients: `margGuard_as_coded`, `margPass_as_coded`, `pruneNet_is_repaired` + `marginalizeNet_total`. -/
theorem e2e_marginalize_total (keep : List Nat) (net : Net α) (root : Nat) (hw : WellOrdered net)
    (hr : root < net.length) (hacc : Net.checkSpn net root true true true = .accept)
    (hleaf : ∀ i ∈ collect net root, ∀ x, net[i]? = some x → x.kind = .leaf → x.ch = [])
    (hg : Gen.margGuardChain keep (scopeAt net root) = none)
    (hun : margUnsupported net (collect net root) = none)
    (ht : mgTableOK net) :
    ∃ res, mgGenMarginalize keep net root = .ok res := by
  rw [mgGenMarginalize_eq keep net root ht]
  exact marginalizeNet_total keep net root hw hr hacc hleaf
    (by rw [Oblig.StructRewrite.margGuard_as_coded, hg]; rfl) hun

/-- **`e2e_marginalize_shape`** (C10, shape of the result): under the same hypotheses, whatever table the GENERATED pass
followed by the modelled `prune` returns is accepted by `check_spn` with all three flags, is in normal form and
children-first, has root scope `root.scope ∩ keep` (as a set) with duplicate-free stored scopes, and is a fixed point of
`prune`.  Ingredients: as above + `marginalizeNet_shape`. -/
theorem e2e_marginalize_shape (keep : List Nat) (net : Net α) (root : Nat) (hw : WellOrdered net)
    (hr : root < net.length) (hacc : Net.checkSpn net root true true true = .accept)
    (hleaf : ∀ i ∈ collect net root, ∀ x, net[i]? = some x → x.kind = .leaf → x.ch = [])
    (ht : mgTableOK net)
    (out : Net α) (order : List Nat) (h : mgGenMarginalize keep net root = .ok (out, order)) :
    Net.checkSpn out (out.length - 1) true true true = .accept ∧
    (∀ p, p < out.length → p ∈ collect out (out.length - 1)) ∧
    normalFormB out (out.length - 1) = true ∧ NetNF out ∧ WellOrdered out ∧
    (∀ v, v ∈ scopeOf out (out.length - 1) ↔ (v ∈ scopeOf net root ∧ v ∈ keep)) ∧
    (∀ p, p < out.length → (scopeOf out p).Nodup) ∧
    pruneNet out (out.length - 1) = some (out, List.range out.length) := by
  rw [mgGenMarginalize_eq keep net root ht] at h
  exact marginalizeNet_shape keep net root hw hr hacc hleaf out order h

/-- **`e2e_marginalize_guard`** (C10, which calls are rejected): the GENERATED guard chain accepts exactly the non-empty,
duplicate-free kept sets inside the root scope; guard 0 raises iff `keep_scope` is empty, guard 1 iff it is non-empty with
a repeated entry, guard 2 iff it is non-empty, duplicate-free and not inside the scope; there is no other answer.
Ingredients: `margGuard_as_coded` + `marginalize_guards`, `marginalize_guard_reasons`. -/
theorem e2e_marginalize_guard (keep scope : List Nat) :
    (Gen.margGuardChain keep scope = none ↔ keep ≠ [] ∧ keep.Nodup ∧ ∀ v ∈ keep, v ∈ scope) ∧
    (Gen.margGuardChain keep scope = some 0 ↔ keep = []) ∧
    (Gen.margGuardChain keep scope = some 1 ↔ keep ≠ [] ∧ ¬ keep.Nodup) ∧
    (Gen.margGuardChain keep scope = some 2 ↔ keep ≠ [] ∧ keep.Nodup ∧ ¬ ∀ v ∈ keep, v ∈ scope) := by
  have hg := Oblig.StructRewrite.margGuard_as_coded keep scope
  have h0 := marginalize_guards keep scope
  obtain ⟨h1, h2, h3⟩ := marginalize_guard_reasons keep scope
  rw [hg] at h0 h1 h2 h3
  have r := mgGuardChain_range keep scope
  have e0 : Gen.margGuardChain keep scope = none ↔
      (Gen.margGuardChain keep scope).map Oblig.StructRewrite.margTag = none := by
    rcases r with h | h | h | h <;> rw [h] <;> decide
  have e1 : Gen.margGuardChain keep scope = some 0 ↔
      (Gen.margGuardChain keep scope).map Oblig.StructRewrite.margTag = some "empty" := by
    rcases r with h | h | h | h <;> rw [h] <;> decide
  have e2 : Gen.margGuardChain keep scope = some 1 ↔
      (Gen.margGuardChain keep scope).map Oblig.StructRewrite.margTag = some "duplicates" := by
    rcases r with h | h | h | h <;> rw [h] <;> decide
  have e3 : Gen.margGuardChain keep scope = some 2 ↔
      (Gen.margGuardChain keep scope).map Oblig.StructRewrite.margTag = some "subset" := by
    rcases r with h | h | h | h <;> rw [h] <;> decide
  exact ⟨e0.trans h0, e1.trans h1, e2.trans h2, e3.trans h3⟩

/-- a rejected call returns the error of the guard that raised, before anything is done to the circuit -/
theorem e2e_marginalize_rejects (keep : List Nat) (net : Net α) (root : Nat) :
    (keep = [] → mgGenMarginalize keep net root = .error "reject:empty") ∧
    (keep ≠ [] → ¬ keep.Nodup → mgGenMarginalize keep net root = .error "reject:duplicates") ∧
    (keep ≠ [] → keep.Nodup → (¬ ∀ v ∈ keep, v ∈ scopeAt net root) →
      mgGenMarginalize keep net root = .error "reject:subset") := by
  obtain ⟨_, g0, g1, g2⟩ := e2e_marginalize_guard keep (scopeAt net root)
  refine ⟨?_, ?_, ?_⟩
  · intro h
    unfold mgGenMarginalize; rw [g0.2 h]; rfl
  · intro h1 h2
    unfold mgGenMarginalize; rw [g1.2 ⟨h1, h2⟩]; rfl
  · intro h1 h2 h3
    unfold mgGenMarginalize; rw [g2.2 ⟨h1, h2, h3⟩]; rfl

end marg

/-! ### non-vacuity: `C10w.net`, a sum over two products that SHARE the leaf of variable 0 -/

theorem mgEx_tableOK : mgTableOK C10w.net := mgTableOK_of_nodeOK _ C10w.wellOrdered C10w.nodeOK

/-- the hypotheses of `e2e_marginalize` / `e2e_marginalize_total` / `e2e_marginalize_shape` hold for `C10w.net`; the
GENERATED pass keeps the two leaves of variable 1 and the root (`nodes_map = [None, 1, 1, 3, 3, 5]`), and the result is a
two-child sum over the two leaves of variable 1; keeping variable 0 the root is replaced by the shared leaf -/
example : WellOrdered C10w.net ∧ NetSumOK C10w.net ∧
    (∀ (i : Nat) (x : NNode Rat), C10w.net[i]? = some x → MargNodeOK C10w.net x) ∧ mgTableOK C10w.net ∧
    Gen.margGuardChain [1] (Net.scopeAt C10w.net 5) = none ∧
    (Struct4.margPassGen [1] C10w.net).2 = [none, some 1, some 1, some 3, some 3, some 5] ∧
    C10w.view (mgGenMarginalize [1] C10w.net 5)
      = [(.leaf, 1, [1], [], []), (.leaf, 2, [1], [], []), (.sum, 0, [1], [0, 1], [1/2, 1/2])] ∧
    C10w.origin (mgGenMarginalize [1] C10w.net 5) = [1, 3, 5] ∧
    C10w.view (mgGenMarginalize [0] C10w.net 5) = [(.leaf, 0, [0], [], [])] :=
  ⟨C10w.wellOrdered, C10w.sumOK, C10w.nodeOK, mgEx_tableOK, by decide, by decide +kernel, by decide +kernel,
   by decide +kernel, by decide +kernel⟩

example : ∃ res, mgGenMarginalize [1] C10w.net 5 = .ok res :=
  e2e_marginalize_total [1] C10w.net 5 C10w.wellOrdered (by decide) C10w.accept C10w.leafNoCh (by decide) (by decide)
    mgEx_tableOK

example : ∀ (x : Ev) (dens : List Rat), ∃ out order, mgGenMarginalize [1] C10w.net 5 = .ok (out, order) ∧
    out ≠ [] ∧
    nval (x.restrict [1]) (order.map (fun i => dens.getD i 0)) out (out.length - 1)
      = nval (x.restrict [1]) dens C10w.net 5 ∧
    Net.checkSpn out (out.length - 1) true true true = .accept := by
  intro x dens
  obtain ⟨res, hres⟩ := e2e_marginalize_total [1] C10w.net 5 C10w.wellOrdered (by decide) C10w.accept C10w.leafNoCh
    (by decide) (by decide) mgEx_tableOK
  refine ⟨res.1, res.2, hres, ?_, ?_, ?_⟩
  · exact (e2e_marginalize [1] C10w.net 5 C10w.wellOrdered C10w.sumOK C10w.nodeOK (by decide) res.1 res.2 hres
      (x.restrict [1]) (Ev.restrict_out x [1]) dens).1
  · exact e2e_marginalize_rows [1] C10w.net 5 C10w.wellOrdered C10w.sumOK C10w.nodeOK (by decide) res.1 res.2 hres x dens
  · exact (e2e_marginalize_shape [1] C10w.net 5 C10w.wellOrdered (by decide) C10w.accept C10w.leafNoCh mgEx_tableOK
      res.1 res.2 hres).1

/-- the four answers of the generated guard chain on concrete calls, and the errors returned -/
example : Gen.margGuardChain [1] [0, 1] = none ∧ Gen.margGuardChain [] [0, 1] = some 0 ∧
    Gen.margGuardChain [1, 1] [0, 1] = some 1 ∧ Gen.margGuardChain [1, 2] [0, 1] = some 2 ∧
    mgGenMarginalize [] C10w.net 5 = .error "reject:empty" ∧
    mgGenMarginalize [1, 1] C10w.net 5 = .error "reject:duplicates" ∧
    mgGenMarginalize [1, 2] C10w.net 5 = .error "reject:subset" :=
  ⟨by decide, by decide, by decide, by decide,
   (e2e_marginalize_rejects [] C10w.net 5).1 rfl,
   (e2e_marginalize_rejects [1, 1] C10w.net 5).2.1 (by decide) (by decide),
   (e2e_marginalize_rejects [1, 2] C10w.net 5).2.2 (by decide) (by decide) (by decide)⟩

end item4

section item11
open Deeprob

/-! ## (11) C07 — the branch law of `sum_sample` from the generated scores -/
section ss
open Deeprob.TCirc Deeprob.Struct4

variable {F : Type} [Field F] [LinearOrder F] [IsStrictOrderedRing F]

/-- the noise-free scores of `sum_sample` at one sum node on one row: entry `i` is the GENERATED
`Gen.S4sumSampleEntry` at `ll = log Lᵢ` (the stored log-value of child `i`), `w = wᵢ`, noise `0` -/
def ssGenScore0 (E : ExpLog F) (ws ls : List F) : List F :=
  List.zipWith (fun w l => Gen.S4sumSampleEntry E (E.log l) w 0) ws ls

/-- the scores as coded: the GENERATED entry with the noise `gᵢ` of that (row, child) -/
def ssGenScore (E : ExpLog F) (ws ls gs : List F) : List F :=
  List.zipWith (fun (wl : F × F) g => Gen.S4sumSampleEntry E (E.log wl.2) wl.1 g) (ws.zip ls) gs

/-- **THE TRUSTED STEP, AS A NAMED HYPOTHESIS (never proved in this development).**  `argmaxLaw s` stands for the law of
`np.argmax(s + G)` — entry `i` = probability that position `i` is the arg-max — when `G` has one independent STANDARD
RIGHT-SKEWED Gumbel entry per position.  The Gumbel-max identity says that this law is the soft-max of `s`:
`P(argmax = i) = exp sᵢ / Σⱼ exp sⱼ`.  It is a statement about continuous random variables (DESIGN §4.6) and is outside
the algebraic setting of `ExpLog F`; every theorem below that mentions sampling carries it as the explicit hypothesis
`hGumbelMax_trusted`. -/
def ssGumbelMaxIdentity (E : ExpLog F) (argmaxLaw : List F → List F) : Prop :=
  ∀ s : List F, argmaxLaw s = s.map (fun a => E.exp a / tsum (s.map E.exp))

/-- the noise enters additively, one entry per child (first conjunct of `sumSampleEntry_as_coded`, which states it under
positivity hypotheses it does not use): the scores as coded are `s + g` with `s` the noise-free scores — the shape the
Gumbel-max identity is about -/
theorem ssGenScore_additive (E : ExpLog F) (ws ls gs : List F) :
    ssGenScore E ws ls gs = List.zipWith (· + ·) (ssGenScore0 E ws ls) gs := by
  unfold ssGenScore ssGenScore0
  induction ws generalizing ls gs with
  | nil => simp
  | cons w ws ih =>
    cases ls with
    | nil => simp
    | cons l ls =>
      cases gs with
      | nil => simp
      | cons g gs =>
        simp only [List.zip_cons_cons, List.zipWith_cons_cons, ih ls gs]
        congr 1
        unfold Gen.S4sumSampleEntry; ring

/-- the exponentiated noise-free scores add up to the value of the sum node (second conjunct of
`sumSampleEntry_as_coded` at every child) -/
theorem ssGenScore0_total (E : ExpLog F) (ws ls : List F) (hw : ∀ w ∈ ws, 0 < w) (hl : ∀ l ∈ ls, 0 < l) :
    tsum ((ssGenScore0 E ws ls).map E.exp) = wsum ws ls := by
  unfold ssGenScore0
  induction ws generalizing ls with
  | nil => simp [tsum, wsum]
  | cons w ws ih =>
    cases ls with
    | nil => simp [tsum, wsum]
    | cons l ls =>
      simp only [List.zipWith_cons_cons, List.map_cons, tsum, wsum]
      rw [(sumSampleEntry_as_coded E w l 0 (hw w (by simp)) (hl l (by simp))).2,
        ih ls (fun a ha => hw a (by simp [ha])) (fun a ha => hl a (by simp [ha]))]

/-- **`e2e_sum_sample_branch`** (C07): at a sum node with positive weights `ws` whose children have positive values `ls`
on the input row, the law of the branch `np.argmax(scores, axis=1)` of `sum_sample` — scores = the GENERATED
`Gen.S4sumSampleEntry` of the stored log-values, the weights and the noise — is the exact conditional branch
probability `wᵢ·Lᵢ / Σⱼ wⱼ·Lⱼ` (`TCirc.branchPmf` at the node's value), the branch law `topDownPmf` uses.
**The Gumbel-max step is NOT proved**: it is the hypothesis `hGumbelMax_trusted` (see `ssGumbelMaxIdentity`).
Proved: the scores fed to that identity are `log(wᵢ·Lᵢ)` and their soft-max is `branchPmf`.
Ingredients: `Struct4.sumSampleEntry_as_coded`, `branchPmf_as_coded`. -/
theorem e2e_sum_sample_branch (E : ExpLog F) (argmaxLaw : List F → List F)
    (hGumbelMax_trusted : ssGumbelMaxIdentity E argmaxLaw)
    (ws ls : List F) (hw : ∀ w ∈ ws, 0 < w) (hl : ∀ l ∈ ls, 0 < l) :
    argmaxLaw (ssGenScore0 E ws ls) = branchPmf (wsum ws ls) ws ls := by
  rw [hGumbelMax_trusted, ssGenScore0_total E ws ls hw hl, branchPmf_as_coded E (wsum ws ls) ws ls hw hl]
  unfold ssGenScore0
  rw [List.map_zipWith]

/-- the frame of `sum_sample` / `sample` the statement above relies on, as extracted from the source: the noise is
`gumbel_r` with location 0 and scale 1, the selector is `argmax` along the children axis, leaves delegate to their own
`sample`, and the pass runs on the log-values of the INPUT rows (`Oblig.sum_sample_noise_is_standard_gumbel_r`,
`Struct4.sumSample_frame_as_coded`) -/
theorem e2e_sum_sample_branch_frame :
    Gen.sumSampleNoise = "gumbel_r" ∧ Gen.sumSampleNoiseLoc = 0 ∧ Gen.sumSampleNoiseScale = 1 ∧
    Gen.S4sumSampleSelector = "argmax" ∧ Gen.S4sumSampleAxis = some 1 ∧ Gen.S4leafSample = "node.sample(x)" :=
  ⟨Oblig.sum_sample_noise_is_standard_gumbel_r.1, Oblig.sum_sample_noise_is_standard_gumbel_r.2.1,
   Oblig.sum_sample_noise_is_standard_gumbel_r.2.2, sumSample_frame_as_coded.1, sumSample_frame_as_coded.2.1,
   sumSample_frame_as_coded.2.2.1⟩

/-- the pmf induced by `sample(root, x)` on a tree, one row, when every sum node draws its branch as coded: arg-max of
the GENERATED scores, whose law is `argmaxLaw` of the noise-free scores (`TCirc.topDownPmf` with the branch law
replaced; products and leaves as there) -/
def ssGenTopDownPmf (E : ExpLog F) (argmaxLaw : List F → List F) (e x : Ev) : TCirc F → F
  | .leaf _ _ _ cd => cd e x
  | .sum _ ws cs =>
      wsum (argmaxLaw (ssGenScore0 E ws (cs.map (fun c => Circ.eval e c.toCirc))))
           (cs.map (ssGenTopDownPmf E argmaxLaw e x))
  | .prod _ cs => lprod (cs.map (ssGenTopDownPmf E argmaxLaw e x))

/-- the positivity the log-domain scores need: at every sum node all weights are positive and every child has positive
value on the input row (`exp (log a) = a` is only available for `a > 0`; a child of value 0 has log-value `-inf`
in the source, which `ExpLog F` does not model) -/
def ssPos (e : Ev) : TCirc F → Prop
  | .leaf _ _ _ _ => True
  | .sum _ ws cs => (∀ w ∈ ws, 0 < w) ∧ (∀ c ∈ cs, 0 < Circ.eval e c.toCirc) ∧ ∀ c ∈ cs, ssPos e c
  | .prod _ cs => ∀ c ∈ cs, ssPos e c

/-- under the Gumbel-max hypothesis the pmf with the generated branch law is the model's `topDownPmf` -/
theorem ssGenTopDownPmf_eq (E : ExpLog F) (argmaxLaw : List F → List F)
    (hGumbelMax_trusted : ssGumbelMaxIdentity E argmaxLaw) (e x : Ev) :
    ∀ c : TCirc F, ssPos e c → ssGenTopDownPmf E argmaxLaw e x c = topDownPmf e x c := by
  intro c
  induction c using TCirc.ind with
  | hl s f m cd => intro _; simp only [ssGenTopDownPmf, topDownPmf]
  | hs s ws cs ih =>
    intro hp
    unfold ssPos at hp
    obtain ⟨hw, hl, hc⟩ := hp
    simp only [ssGenTopDownPmf, topDownPmf]
    rw [e2e_sum_sample_branch E argmaxLaw hGumbelMax_trusted ws _ hw
      (by intro l hl'; obtain ⟨c, hcm, rfl⟩ := List.mem_map.1 hl'; exact hl c hcm)]
    congr 1
    exact List.map_congr_left (fun c hcm => ih c hcm (hc c hcm))
  | hp s cs ih =>
    intro hp
    unfold ssPos at hp
    simp only [ssGenTopDownPmf, topDownPmf]
    congr 1
    exact List.map_congr_left (fun c hcm => ih c hcm (hp c hcm))

/-- **`e2e_sum_sample_branch_exact`** (C07): the sampler whose sum nodes draw the arg-max of the GENERATED scores draws from
the exact conditional distribution given the observed entries — `P_sampler(x | e) · value(e) = value(x)` for every
completion `x` of `e` on the root scope — **under the stated Gumbel-max hypothesis `hGumbelMax_trusted`** and the
positivity `ssPos e c` the log-domain scores need.
Ingredients: `e2e_sum_sample_branch` at every sum node + `C07.topDownPmf_exact`. -/
theorem e2e_sum_sample_branch_exact (E : ExpLog F) (argmaxLaw : List F → List F)
    (hGumbelMax_trusted : ssGumbelMaxIdentity E argmaxLaw)
    (dom : Nat → Nat) (c : TCirc F) (hv : Circ.Valid dom c.toCirc) (hn : NonNeg c) (hl : LeafExact c)
    (e x : Ev) (hpos : ssPos e c) (hx : Completes c.scope e x) :
    ssGenTopDownPmf E argmaxLaw e x c * eval e c = eval x c := by
  rw [ssGenTopDownPmf_eq E argmaxLaw hGumbelMax_trusted e x c hpos]
  exact C07.topDownPmf_exact dom c hv hn hl e x hx

/-! non-vacuity: a 2-child mixture of products of Bernoulli leaves over two binary variables, variable 1 observed -/

def ssExT : TCirc ℚ :=
  .sum [0, 1] [1/4, 3/4]
    [ .prod [0, 1] [bernT 0 [1/2, 1/2], bernT 1 [1/3, 2/3]],
      .prod [0, 1] [bernT 0 [1/5, 4/5], bernT 1 [9/10, 1/10]] ]
def ssExE : Ev := Ev.ofList [none, some 1]
def ssExX : Ev := Ev.ofList [some 0, some 1]

theorem ssExT_ok : TDOK (fun _ => 2) ssExT := by
  have hb : ∀ (v : Nat) (tbl : List ℚ), tbl.length = 2 → tsum tbl = 1 → (∀ x ∈ tbl, 0 ≤ x) →
      TDOK (fun _ => 2) (bernT v tbl) := fun v tbl hl hs h0 => bernT_ok (fun _ => 2) v tbl hl rfl hs h0
  unfold ssExT
  apply TDOK.sum
  · simp
  · simp
  · intro w hw; simp at hw; rcases hw with rfl | rfl <;> norm_num
  · intro c hc'; simp at hc'; rcases hc' with rfl | rfl <;> simp [scope, scopeEq]
  · intro c hc'; simp only [List.mem_cons, List.not_mem_nil, or_false] at hc'
    rcases hc' with rfl | rfl
    · apply TDOK.prod
      · simp [scope, bernT]
      · simp [scope, bernT, scopeEq]
      · intro d hd; simp only [List.mem_cons, List.not_mem_nil, or_false] at hd
        rcases hd with rfl | rfl
        · apply hb <;> simp [tsum] <;> norm_num
        · apply hb <;> simp [tsum] <;> norm_num
    · apply TDOK.prod
      · simp [scope, bernT]
      · simp [scope, bernT, scopeEq]
      · intro d hd; simp only [List.mem_cons, List.not_mem_nil, or_false] at hd
        rcases hd with rfl | rfl
        · apply hb <;> simp [tsum] <;> norm_num
        · apply hb <;> simp [tsum] <;> norm_num

theorem ssExT_eval_e : eval ssExE ssExT = 29/120 := by
  simp [ssExT, eval, toCirc, Circ.eval, wsum, lprod, bernT, Circ.catLeafFn, ssExE, Ev.ofList]
  norm_num

theorem ssExT_eval_x : eval ssExX ssExT = 59/600 := by
  simp [ssExT, eval, toCirc, Circ.eval, wsum, lprod, bernT, Circ.catLeafFn, ssExX, Ev.ofList]
  norm_num

theorem ssExT_pos : ssPos ssExE ssExT := by
  unfold ssExT
  simp only [ssPos, List.mem_cons, List.not_mem_nil, or_false, forall_eq_or_imp, forall_eq, bernT, and_true,
    true_and, implies_true]
  refine ⟨⟨by norm_num, by norm_num⟩, ?_, ?_⟩ <;>
    (simp [toCirc, Circ.eval, lprod, Circ.catLeafFn, ssExE, Ev.ofList])

theorem ssExX_completes : Completes ssExT.scope ssExE ssExX := by
  constructor
  · intro v hv
    match v with
    | 0 => simp [ssExE, Ev.ofList] at hv
    | 1 => simp [ssExE, ssExX, Ev.ofList]
    | n + 2 => simp [ssExE, Ev.ofList] at hv
  · intro v hv
    simp only [ssExT, scope, List.mem_cons, List.not_mem_nil, or_false] at hv
    rcases hv with rfl | rfl <;> simp [ssExX, Ev.ofList]

/-- all hypotheses about the circuit hold on the witness, for ANY `ExpLog ℚ` and any `argmaxLaw` satisfying the trusted
identity; the branch law at the root on the row `(·, 1)` is `(1/4·2/3, 3/4·1/10) / (29/120) = (20/29, 9/29)`, and the
exact conditional of the completion `(0, 1)` is `(1/4·1/2·2/3 + 3/4·1/5·1/10) / (29/120) = 59/145` -/
/- NOTE (round 5): no `ExpLog ℚ` exists (`SamplingFacts.expLog_rat_empty`), so this example is satisfied vacuously; the genuine witness
over the reals is in `Props/RealWitnesses.lean` / `Props/SamplingFacts.lean`. -/
example (E : ExpLog ℚ) (argmaxLaw : List ℚ → List ℚ) (hGumbelMax_trusted : ssGumbelMaxIdentity E argmaxLaw) :
    argmaxLaw (ssGenScore0 E [1/4, 3/4] [2/3, 1/10]) = [20/29, 9/29] ∧
    ssGenTopDownPmf E argmaxLaw ssExE ssExX ssExT * eval ssExE ssExT = eval ssExX ssExT ∧
    eval ssExE ssExT = 29/120 ∧ eval ssExX ssExT = 59/600 := by
  refine ⟨?_, ?_, ssExT_eval_e, ssExT_eval_x⟩
  · rw [e2e_sum_sample_branch E argmaxLaw hGumbelMax_trusted _ _
      (by intro w hw; simp at hw; rcases hw with rfl | rfl <;> norm_num)
      (by intro l hl; simp at hl; rcases hl with rfl | rfl <;> norm_num)]
    simp [branchPmf, wsum]; norm_num
  · exact e2e_sum_sample_branch_exact E argmaxLaw hGumbelMax_trusted (fun _ => 2) ssExT ssExT_ok.1 ssExT_ok.2.2.1
      ssExT_ok.2.2.2.2 ssExE ssExX ssExT_pos ssExX_completes

end ss

end item11

end Deeprob.E2E
