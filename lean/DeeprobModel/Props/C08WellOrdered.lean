import DeeprobModel.Props.C08
import DeeprobModel.Lemmas.CheckLemmas
/-
C08 corollaries for children-first tables: the hypothesis `ReachOK` of the layering theorems is discharged
from `WellOrdered` with lean-c03's BFS lemmas (`Lemmas/CheckLemmas.lean`: `root_mem_collect`,
`collect_closed`, `collect_parent`, `inRange_of_wellOrdered`).
Place this file at DeeprobModel/Props/C08WellOrdered.lean once CheckLemmas.lean is in the tree.
-/
namespace Deeprob.Sched
open List
variable {α : Type} [CommSemiring α]

theorem reachOK_of_wellOrdered (n : Net α) (root : Nat) (hw : WellOrdered n) :
    ReachOK n root (Net.collect n root) :=
  ⟨Net.root_mem_collect n root,
   fun p hp c hc => Net.collect_closed n root (Net.inRange_of_wellOrdered n hw) p c hp hc,
   fun v hv => by
     by_cases h : v = root
     · exact Or.inl h
     · exact Or.inr (Net.collect_parent n root (Net.inRange_of_wellOrdered n hw) v hv h)⟩

/-- `layers_partition` on well-ordered (children-first, hence acyclic) tables -/
theorem layers_partition_wo (n : Net α) (root : Nat) (hw : WellOrdered n) (L : List (List Nat))
    (h : layers n root = some L) : L.flatten.Nodup ∧ ∀ v, v ∈ L.flatten ↔ v ∈ Net.collect n root :=
  layers_partition n root L h (reachOK_of_wellOrdered n root hw)

/-- `layers_edge_lt` on well-ordered tables -/
theorem layers_edge_lt_wo (n : Net α) (root : Nat) (hw : WellOrdered n) (L : List (List Nat))
    (h : layers n root = some L) (p c : Nat) (hp : p ∈ Net.collect n root) (hc : c ∈ Net.chOf n p) :
    layerIndex L p < layerIndex L c :=
  layers_edge_lt n root L h (reachOK_of_wellOrdered n root hw) p c hp hc

/-- `bottomup_schedule_indep` on well-ordered tables -/
theorem bottomup_schedule_indep_wo (n : Net α) (root : Nat) (hw : WellOrdered n) (L : List (List Nat))
    (h : layers n root = some L) (f : Nat → List (List Int) → List Int) (A : List Nat) (hA : A ∈ L)
    (σ : List Act) (hi : Interleaving (A.map (fun i => [buTask n f i])) σ) (s : SState) :
    run s σ = run s (A.map (buTask n f)) :=
  bottomup_schedule_indep n root L h (reachOK_of_wellOrdered n root hw) f A hA σ hi s

end Deeprob.Sched
