import DeeprobModel.Props.C03
set_option linter.unusedVariables false
/-
C03, extension — `None` ids and missing sum weights (deeprob/spn/utils/validity.py as coded).

The table of `Model/Net.lean` has `Nat` ids and weight lists. The Python objects allow more:
`node.id` may be `None` (nothing in `Node.__init__` forbids assigning it; `is_labeled` has a branch
for it) and `Sum(children=..., weights=None)` is accepted by the constructor (`self.weights = None`).
This file models the node table with `Option` in both places (`ONode`, `ONet`), mirrors the three tests
and `check_spn` on it as they are coded, and relates the result to the existing `Net.checkSpn` on the
`Nat`-id table `ONet.toNet` (absent id ↦ 0, absent weights ↦ `[]`).

What the code does with the two `None`s (read off validity.py, confirmed by `harness/demos/demo_c03opt.py`):
* `is_labeled`: `ids = set(map(lambda n: n.id, nodes)); if None in ids: return "Some nodes have missing ids"`
  — the very first test, before uniqueness / min / max (so `min` is never applied to a set with `None`).
  With `labeled=False` ids are only formatted into messages (`#None`), never compared.
* `is_smooth`, per sum node in BFS order: `len(node.children) == 0` first (a childless sum is reported as
  "has no children" whatever its weights are), then `len(node.children) != len(node.weights)`: with
  `weights = None` this is `len(None)` — a **`TypeError`**, not the `ValueError` the docstring of `check_spn`
  promises. The circuit is still not accepted, but the exception class differs; modelled as `OVerdict.typeError`.
* `is_decomposable` reads neither ids (except for messages) nor weights.
-/
namespace Deeprob
open Net
variable {α : Type}

/-! ### the table with optional ids and optional weights -/

/-- a node as the Python object may be: `id : Optional[int]`, `weights : Optional[array]` -/
structure ONode (α : Type) where
  id : Option Nat
  kind : Kind
  scope : List Nat
  ch : List Nat
  ws : Option (List α)
  leaf : LeafP α
deriving Inhabited

abbrev ONet (α : Type) := List (ONode α)

/-- the `Nat`-id node: absent id ↦ 0, absent weights ↦ `[]` -/
def ONode.toNNode (x : ONode α) : NNode α := ⟨x.id.getD 0, x.kind, x.scope, x.ch, x.ws.getD [], x.leaf⟩

/-- the `Nat`-id table of `Model/Net.lean` -/
def ONet.toNet (n : ONet α) : Net α := n.map ONode.toNNode

/-- embedding of the tables of `Model/Net.lean` (every id and every weight list present) -/
def ONode.ofNNode (x : NNode α) : ONode α := ⟨some x.id, x.kind, x.scope, x.ch, some x.ws, x.leaf⟩
def ONet.ofNet (n : Net α) : ONet α := n.map ONode.ofNNode

theorem ONet.toNet_ofNet (n : Net α) : (ONet.ofNet n).toNet = n := by
  unfold ONet.ofNet ONet.toNet
  rw [List.map_map]
  conv_rhs => rw [← List.map_id n]
  apply List.map_congr_left
  intro x _
  rfl

/-- `node.id` of entry `i` (`some 0` outside the table, as `idOf`) -/
def oIdOf (n : ONet α) (i : Nat) : Option Nat := match n[i]? with | some x => x.id | none => some 0
def oScopeOf (n : ONet α) (c : Nat) : List Nat := match n[c]? with | some y => y.scope | none => []

/-- `collect_nodes(root)`: BFS reads only the child lists, which `toNet` keeps -/
def oCollect (n : ONet α) (root : Nat) : List Nat := Net.collect n.toNet root

/-- `is_labeled` as coded: `None in ids` is the first test; the other three are those of `Net.isLabeled`,
on the ids (all present at that point) -/
def isLabeledOpt (n : ONet α) (nodes : List Nat) : Option String :=
  let ids := nodes.map (oIdOf n)
  if ids.contains none then some "missing"
  else
    let ids' := ids.filterMap id
    if !nodupB ids' then some "repeated"
    else if minL ids' != 0 then some "min"
    else if maxL ids' != ids'.length - 1 then some "max"
    else none

/-- what one run of `is_smooth` can produce besides `None`: a reason string, or the `TypeError` of `len(None)` -/
inductive SmoothRes where
  | err (why : String)
  | typeError
deriving DecidableEq, Repr

/-- the reason `Net.isSmooth` gives on `toNet` where the code crashes: "weights" (length mismatch with `[]`) -/
def SmoothRes.forget : SmoothRes → String
  | .err w => w
  | .typeError => "weights"

/-- the per-node body of the loop of `is_smooth` as coded: children count first, then `len(node.weights)` -/
def smoothNodeOpt (n : ONet α) (i : Nat) : Option SmoothRes :=
  match n[i]? with
  | some x => if x.kind = .sum then
      (if x.ch.length == 0 then some (.err "nochildren")
       else match x.ws with
        | none => some .typeError
        | some ws =>
          if x.ch.length != ws.length then some (.err "weights")
          else if x.ch.any (fun c => !scopeEqB (oScopeOf n c) x.scope) then some (.err "scopes")
          else none) else none
  | none => none

/-- `is_smooth` as coded: first sum node in BFS order for which the body returns / raises -/
def isSmoothOpt (n : ONet α) (nodes : List Nat) : Option SmoothRes := nodes.findSome? (smoothNodeOpt n)

/-- `is_decomposable` as coded (repaired test, as `Net.isDecomposable`): reads no id and no weight -/
def isDecomposableOpt (n : ONet α) (nodes : List Nat) : Option String :=
  nodes.findSome? (fun i => match n[i]? with
    | some x => if x.kind = .prod then
        (if x.ch.length == 0 then some "nochildren"
         else if !nodupB (x.ch.map (oScopeOf n)).flatten || !scopeEqB x.scope (x.ch.map (oScopeOf n)).flatten
           then some "scopes"
         else none) else none
    | none => none)

/-- outcome of `check_spn` on the optional table: a verdict of the `Nat` model (returned, or `ValueError` of one
of the three classes) or the `TypeError` raised by `len(node.weights)` -/
inductive OVerdict where
  | ok (v : Verdict)
  | typeError
deriving DecidableEq, Repr

/-- `TypeError` seen through `toNet`: the smooth test's "weights" rejection -/
def OVerdict.forget : OVerdict → Verdict
  | .ok v => v
  | .typeError => .smooth "weights"

def OVerdict.toString : OVerdict → String
  | .ok v => v.toString
  | .typeError => "typeerror"

/-- `check_spn(root, labeled, smooth, decomposable)` on the optional table, as coded -/
def checkSpnOpt (n : ONet α) (root : Nat) (labeled smooth decomposable : Bool) : OVerdict :=
  let nodes := oCollect n root
  match (if labeled then isLabeledOpt n nodes else none) with
  | some w => .ok (.labeled w)
  | none => match (if smooth then isSmoothOpt n nodes else none) with
    | some (.err w) => .ok (.smooth w)
    | some .typeError => .typeError
    | none => match (if decomposable then isDecomposableOpt n nodes else none) with
      | some w => .ok (.decomposable w)
      | none => .ok .accept

/-- every listed node has an id -/
def IdsPresent (n : ONet α) (nodes : List Nat) : Prop := ∀ i ∈ nodes, ∀ x, n[i]? = some x → x.id ≠ none

/-- every listed sum node that has children has weights (childless sums are rejected before their weights are read) -/
def WeightsPresent (n : ONet α) (nodes : List Nat) : Prop :=
  ∀ i ∈ nodes, ∀ x, n[i]? = some x → x.kind = .sum → x.ch ≠ [] → x.ws ≠ none

/-! ### access lemmas -/

theorem toNet_getElem? (n : ONet α) (i : Nat) : n.toNet[i]? = (n[i]?).map ONode.toNNode := by
  unfold ONet.toNet; rw [List.getElem?_map]

theorem idOf_toNet (n : ONet α) (i : Nat) : idOf n.toNet i = (oIdOf n i).getD 0 := by
  unfold idOf oIdOf; rw [toNet_getElem?]
  cases n[i]? <;> rfl

theorem scopeOf_toNet (n : ONet α) : scopeOf n.toNet = oScopeOf n := by
  funext c
  unfold scopeOf oScopeOf; rw [toNet_getElem?]
  cases n[c]? <;> rfl

theorem idsPresent_iff (n : ONet α) (nodes : List Nat) :
    IdsPresent n nodes ↔ (nodes.map (oIdOf n)).contains none = false := by
  unfold IdsPresent
  rw [← Bool.not_eq_true, List.contains_iff_mem, List.mem_map]
  constructor
  · rintro h ⟨i, hi, he⟩
    unfold oIdOf at he
    cases hx : n[i]? with
    | none => rw [hx] at he; cases he
    | some x => rw [hx] at he; exact h i hi x hx he
  · intro h i hi x hx he
    exact h ⟨i, hi, by unfold oIdOf; rw [hx]; exact he⟩

theorem filterMap_ids (n : ONet α) : ∀ nodes : List Nat, IdsPresent n nodes →
    (nodes.map (oIdOf n)).filterMap id = nodes.map (idOf n.toNet)
  | [], _ => rfl
  | i :: t, h => by
    have ht : IdsPresent n t := fun j hj => h j (List.mem_cons_of_mem _ hj)
    have hi : ∃ k, oIdOf n i = some k := by
      unfold oIdOf
      cases hx : n[i]? with
      | none => exact ⟨0, rfl⟩
      | some x =>
        have := h i List.mem_cons_self x hx
        cases hid : x.id with
        | none => exact absurd hid this
        | some k => exact ⟨k, hid⟩
    obtain ⟨k, hk⟩ := hi
    rw [List.map_cons, List.map_cons, List.filterMap_cons, idOf_toNet, hk, filterMap_ids n t ht]
    rfl

/-! ### the three tests against the `Nat` model -/

/-- `is_labeled`: "missing" iff some listed id is `None`; otherwise exactly what `Net.isLabeled` says on `toNet` -/
theorem isLabeledOpt_eq (n : ONet α) (nodes : List Nat) [Decidable (IdsPresent n nodes)] :
    isLabeledOpt n nodes = if IdsPresent n nodes then Net.isLabeled n.toNet nodes else some "missing" := by
  unfold isLabeledOpt
  by_cases h : IdsPresent n nodes
  · have hc := (idsPresent_iff n nodes).1 h
    simp only [hc, Bool.false_eq_true, if_false, if_pos h, filterMap_ids n nodes h]
    rw [isLabeled_unfold]
  · have hc : (nodes.map (oIdOf n)).contains none = true := by
      rw [← Bool.not_eq_false]; exact fun hc => h ((idsPresent_iff n nodes).2 hc)
    simp only [hc, if_true, if_neg h]

theorem isLabeledOpt_none_iff (n : ONet α) (nodes : List Nat) :
    isLabeledOpt n nodes = none ↔ IdsPresent n nodes ∧ Net.isLabeled n.toNet nodes = none := by
  classical
  rw [isLabeledOpt_eq]
  by_cases h : IdsPresent n nodes <;> simp [h]

theorem isLabeledOpt_missing_iff (n : ONet α) (nodes : List Nat) :
    isLabeledOpt n nodes = some "missing" ↔ ¬ IdsPresent n nodes := by
  classical
  rw [isLabeledOpt_eq]
  by_cases h : IdsPresent n nodes
  · simp only [h, not_true, iff_false]
    rw [isLabeled_unfold]
    intro he
    split_ifs at he <;> simp at he
  · simp [h]

/-- one node of `is_smooth`: forgetting the exception class gives the body of `Net.isSmooth` on `toNet` -/
theorem smoothNodeOpt_forget (n : ONet α) (i : Nat) :
    (smoothNodeOpt n i).map SmoothRes.forget = (match n.toNet[i]? with
      | some x => if x.kind = .sum then
          (if x.ch.length == 0 then some "nochildren"
           else if x.ch.length != x.ws.length then some "weights"
           else if x.ch.any (fun c => !scopeEqB (scopeOf n.toNet c) x.scope) then some "scopes"
           else none) else none
      | none => none) := by
  unfold smoothNodeOpt
  rw [toNet_getElem?, scopeOf_toNet]
  cases hx : n[i]? with
  | none => rfl
  | some x =>
    obtain ⟨xid, xk, xs, xch, xws, xl⟩ := x
    simp only [Option.map_some, ONode.toNNode]
    by_cases hk : xk = .sum
    · simp only [hk, if_true]
      by_cases h0 : (xch.length == 0) = true
      · simp only [h0, if_true]; rfl
      · simp only [h0, if_false, Bool.false_eq_true]
        cases xws with
        | none =>
          have : (xch.length != ([] : List α).length) = true := by
            simp only [List.length_nil, bne_iff_ne, ne_eq]
            intro h; apply h0; simp [h]
          simp only [Option.getD_none, this, if_true]; rfl
        | some ws =>
          simp only [Option.getD_some]
          split_ifs <;> rfl
    · simp only [hk, if_false]; rfl

theorem findSome?_map_congr {A B C : Type} (f : A → Option B) (g : B → C) (h : A → Option C)
    (hfg : ∀ a, (f a).map g = h a) : ∀ l : List A, (l.findSome? f).map g = l.findSome? h
  | [] => rfl
  | a :: t => by
    rw [List.findSome?_cons, List.findSome?_cons, ← hfg a]
    cases f a with
    | none => exact findSome?_map_congr f g h hfg t
    | some r => rfl

/-- `is_smooth`: forgetting the exception class gives `Net.isSmooth` on `toNet`, node for node (same first
offending sum); in particular the two accept the same node lists -/
theorem isSmoothOpt_forget (n : ONet α) (nodes : List Nat) :
    (isSmoothOpt n nodes).map SmoothRes.forget = Net.isSmooth n.toNet nodes := by
  rw [isSmooth_unfold]
  unfold isSmoothOpt
  exact findSome?_map_congr _ _ _ (smoothNodeOpt_forget n) nodes

theorem isSmoothOpt_none_iff (n : ONet α) (nodes : List Nat) :
    isSmoothOpt n nodes = none ↔ Net.isSmooth n.toNet nodes = none := by
  rw [← isSmoothOpt_forget]; cases isSmoothOpt n nodes <;> simp

/-- `is_smooth` raises `TypeError` iff the **first** sum node (BFS order) that does not pass is one with
children and `weights = None` -/
theorem isSmoothOpt_typeError_iff (n : ONet α) (nodes : List Nat) :
    isSmoothOpt n nodes = some .typeError ↔
      ∃ pre i post x, nodes = pre ++ i :: post ∧ n[i]? = some x ∧ x.kind = .sum ∧ x.ch ≠ [] ∧ x.ws = none ∧
        Net.isSmooth n.toNet pre = none := by
  unfold isSmoothOpt
  rw [List.findSome?_eq_some_iff]
  constructor
  · rintro ⟨pre, i, post, hn, hi, hpre⟩
    have hp : isSmoothOpt n pre = none := List.findSome?_eq_none_iff.2 hpre
    unfold smoothNodeOpt at hi
    cases hx : n[i]? with
    | none => rw [hx] at hi; cases hi
    | some x =>
      rw [hx] at hi
      simp only at hi
      by_cases hk : x.kind = .sum
      · simp only [hk, if_true] at hi
        by_cases h0 : (x.ch.length == 0) = true
        · simp [h0] at hi
        · simp only [h0, if_false, Bool.false_eq_true] at hi
          cases hws : x.ws with
          | none => exact ⟨pre, i, post, x, hn, hx, hk, (length_beq_zero _).1 h0, hws, (isSmoothOpt_none_iff n pre).1 hp⟩
          | some ws =>
            rw [hws] at hi
            simp only at hi
            split_ifs at hi <;> simp at hi
      · simp [hk] at hi
  · rintro ⟨pre, i, post, x, hn, hx, hk, hch, hws, hpre⟩
    refine ⟨pre, i, post, hn, ?_, List.findSome?_eq_none_iff.1 ((isSmoothOpt_none_iff n pre).2 hpre)⟩
    unfold smoothNodeOpt
    rw [hx]
    have h0 : ¬ ((x.ch.length == 0) = true) := (length_beq_zero _).2 hch
    simp only [hk, if_true, h0, if_false, Bool.false_eq_true, hws]

/-- with every needed weight list present `is_smooth` cannot crash: it is `Net.isSmooth` on `toNet` -/
theorem isSmoothOpt_eq_of_weights (n : ONet α) (nodes : List Nat) (hw : WeightsPresent n nodes) :
    isSmoothOpt n nodes = (Net.isSmooth n.toNet nodes).map .err := by
  rw [← isSmoothOpt_forget]
  cases h : isSmoothOpt n nodes with
  | none => rfl
  | some r =>
    cases r with
    | err w => rfl
    | typeError =>
      obtain ⟨pre, i, post, x, hn, hx, hk, hch, hws, _⟩ := (isSmoothOpt_typeError_iff n nodes).1 h
      exact absurd hws (hw i (by rw [hn]; simp) x hx hk hch)

/-- `is_decomposable` is `Net.isDecomposable` on `toNet` -/
theorem isDecomposableOpt_eq (n : ONet α) (nodes : List Nat) :
    isDecomposableOpt n nodes = Net.isDecomposable n.toNet nodes := by
  rw [isDecomposable_unfold, scopeOf_toNet]
  unfold isDecomposableOpt
  congr 1
  funext i
  rw [toNet_getElem?]
  cases n[i]? <;> rfl

/-! ### `check_spn` on the optional table -/

/-- **complete description of the outcome**: if the labeled test is on and some collected id is `None` the
outcome is the labeled rejection "missing"; otherwise the outcome, with `TypeError` read as the smooth
rejection "weights", is exactly the verdict of `Net.checkSpn` on the `Nat`-id table -/
theorem checkSpnOpt_eq (n : ONet α) (root : Nat) (l s d : Bool) :
    (l = true ∧ ¬ IdsPresent n (oCollect n root) → checkSpnOpt n root l s d = .ok (.labeled "missing")) ∧
    (¬ (l = true ∧ ¬ IdsPresent n (oCollect n root)) →
      (checkSpnOpt n root l s d).forget = Net.checkSpn n.toNet root l s d) := by
  classical
  unfold checkSpnOpt Net.checkSpn
  simp only [oCollect]
  rw [isLabeledOpt_eq, isDecomposableOpt_eq, ← isSmoothOpt_forget]
  constructor
  · rintro ⟨hl, hm⟩
    simp only [hl, if_true]
    simp only [if_neg hm]
  · intro hn
    have hite : (if l = true then (if IdsPresent n (collect n.toNet root) then isLabeled n.toNet (collect n.toNet root)
          else some "missing") else none) = (if l = true then isLabeled n.toNet (collect n.toNet root) else none) := by
      by_cases hl : l = true
      · have : IdsPresent n (collect n.toNet root) := by
          by_contra hc; exact hn ⟨hl, hc⟩
        simp only [hl, if_true, if_pos this]
      · simp [hl]
    rw [hite]
    cases (if l = true then isLabeled n.toNet (collect n.toNet root) else none) with
    | some w => rfl
    | none =>
      simp only
      cases s
      · simp only [Bool.false_eq_true, if_false]
        cases (if d = true then isDecomposable n.toNet (collect n.toNet root) else none) <;> rfl
      · simp only [if_true]
        cases isSmoothOpt n (collect n.toNet root) with
        | none =>
          simp only [Option.map_none]
          cases (if d = true then isDecomposable n.toNet (collect n.toNet root) else none) <;> rfl
        | some r => cases r <;> rfl

/-- any combination of flags: accepted iff (with the labeled test on) every collected id is present, and the
`Nat`-id table is accepted by the existing `checkSpn` with the same flags -/
theorem checkSpnOpt_flags_accept_iff (n : ONet α) (root : Nat) (l s d : Bool) :
    checkSpnOpt n root l s d = .ok .accept ↔
      (l = true → IdsPresent n (oCollect n root)) ∧ Net.checkSpn n.toNet root l s d = .accept := by
  classical
  obtain ⟨h1, h2⟩ := checkSpnOpt_eq n root l s d
  by_cases hm : l = true ∧ ¬ IdsPresent n (oCollect n root)
  · rw [h1 hm]
    constructor
    · intro h; cases h
    · rintro ⟨h, _⟩; exact absurd (h hm.1) hm.2
  · have h3 := h2 hm
    have hI : l = true → IdsPresent n (oCollect n root) := fun hl => by
      by_contra hc; exact hm ⟨hl, hc⟩
    constructor
    · intro h
      rw [h] at h3
      exact ⟨hI, h3.symm⟩
    · rintro ⟨_, h⟩
      rw [h] at h3
      cases hc : checkSpnOpt n root l s d with
      | ok v => rw [hc] at h3; exact congrArg _ h3
      | typeError => rw [hc] at h3; cases h3

/-- **C03 on the optional table, main theorem**: `check_spn(root, labeled=True, smooth=True, decomposable=True)`
raises nothing iff every collected node has an id and the `Nat`-id table (absent id ↦ 0, absent weights ↦ `[]`)
is accepted by the existing `checkSpn`. No hypotheses. -/
theorem checkSpnOpt_accept_iff (n : ONet α) (root : Nat) :
    checkSpnOpt n root true true true = .ok .accept ↔
      IdsPresent n (oCollect n root) ∧ Net.checkSpn n.toNet root true true true = .accept := by
  rw [checkSpnOpt_flags_accept_iff]; simp

/-- … hence iff ids are present and the `Nat`-id table satisfies the S-layer predicate of C03 -/
theorem checkSpnOpt_accept_iff_valid (n : ONet α) (root : Nat) :
    checkSpnOpt n root true true true = .ok .accept ↔ IdsPresent n (oCollect n root) ∧ ValidSpec n.toNet root := by
  rw [checkSpnOpt_accept_iff, checkSpn_accept_iff]

/-- acceptance with the smooth test on implies that every collected sum node carries a weight list, one weight per
child: nothing that is accepted has `weights = None` -/
theorem checkSpnOpt_accept_weights (n : ONet α) (root : Nat) (l d : Bool)
    (h : checkSpnOpt n root l true d = .ok .accept) :
    ∀ i ∈ oCollect n root, ∀ x, n[i]? = some x → x.kind = .sum →
      x.ch ≠ [] ∧ ∃ ws, x.ws = some ws ∧ ws.length = x.ch.length := by
  have h2 := ((checkSpnOpt_flags_accept_iff n root l true d).1 h).2
  have h3 := ((checkSpn_flags_accept_iff n.toNet root l true d).1 h2).2.1 rfl
  intro i hi x hx hk
  have hx' : n.toNet[i]? = some x.toNNode := by rw [toNet_getElem?, hx]; rfl
  obtain ⟨hch, hlen, _⟩ := h3 i hi x.toNNode hx' hk
  refine ⟨hch, ?_⟩
  cases hws : x.ws with
  | none =>
    exfalso
    have : x.toNNode.ws = [] := by unfold ONode.toNNode; rw [hws]; rfl
    rw [this] at hlen
    exact hch (List.length_eq_zero_iff.1 hlen.symm)
  | some ws =>
    refine ⟨ws, rfl, ?_⟩
    have : x.toNNode.ws = ws := by unfold ONode.toNNode; rw [hws]; rfl
    rw [this] at hlen; exact hlen

/-- the `TypeError` outcome, exactly: the labeled test (if on) passes, the smooth test is on, and the first sum
node in BFS order that does not pass is one with children and `weights = None` -/
theorem checkSpnOpt_typeError_iff (n : ONet α) (root : Nat) (l s d : Bool) :
    checkSpnOpt n root l s d = .typeError ↔
      (l = true → IdsPresent n (oCollect n root) ∧ LabeledSpec n.toNet root) ∧ s = true ∧
      ∃ pre i post x, oCollect n root = pre ++ i :: post ∧ n[i]? = some x ∧ x.kind = .sum ∧ x.ch ≠ [] ∧
        x.ws = none ∧ ∀ j ∈ pre, ∀ y, n.toNet[j]? = some y → y.kind = .sum → SumOK n.toNet y := by
  have hL : (l = true → isLabeledOpt n (oCollect n root) = none) ↔
      (l = true → IdsPresent n (oCollect n root) ∧ LabeledSpec n.toNet root) := by
    apply imp_congr_right; intro _
    rw [isLabeledOpt_none_iff, isLabeled_iff_perm]; rfl
  have hT : isSmoothOpt n (oCollect n root) = some .typeError ↔
      ∃ pre i post x, oCollect n root = pre ++ i :: post ∧ n[i]? = some x ∧ x.kind = .sum ∧ x.ch ≠ [] ∧
        x.ws = none ∧ ∀ j ∈ pre, ∀ y, n.toNet[j]? = some y → y.kind = .sum → SumOK n.toNet y := by
    rw [isSmoothOpt_typeError_iff]
    simp only [isSmooth_eq_none_iff]
  rw [← hL, ← hT]
  unfold checkSpnOpt
  simp only
  generalize isLabeledOpt n (oCollect n root) = a
  generalize isSmoothOpt n (oCollect n root) = b
  generalize (if d = true then isDecomposableOpt n (oCollect n root) else none) = c
  cases l <;> cases s <;> simp only [if_true, if_false, Bool.false_eq_true] <;>
    rcases a with _ | a <;> rcases b with _ | _ | _ <;> rcases c with _ | c <;> simp

/-- with every id and every needed weight list present, `check_spn` on the optional table *is* `checkSpn` on
the `Nat`-id table (every verdict, every flag combination) -/
theorem checkSpnOpt_eq_of_present (n : ONet α) (root : Nat) (l s d : Bool)
    (hi : IdsPresent n (oCollect n root)) (hw : WeightsPresent n (oCollect n root)) :
    checkSpnOpt n root l s d = .ok (Net.checkSpn n.toNet root l s d) := by
  classical
  have h := (checkSpnOpt_eq n root l s d).2 (fun h => h.2 hi)
  cases hc : checkSpnOpt n root l s d with
  | ok v => rw [hc] at h; exact congrArg _ h
  | typeError =>
    obtain ⟨_, _, pre, i, post, x, hn, hx, hk, hch, hws, _⟩ := (checkSpnOpt_typeError_iff n root l s d).1 hc
    exact absurd hws (hw i (by rw [hn]; simp) x hx hk hch)

/-- on the tables of `Model/Net.lean` nothing changes -/
theorem checkSpnOpt_ofNet (n : Net α) (root : Nat) (l s d : Bool) :
    checkSpnOpt (ONet.ofNet n) root l s d = .ok (Net.checkSpn n root l s d) := by
  have h := checkSpnOpt_eq_of_present (ONet.ofNet n) root l s d
    (by
      intro i _ x hx
      unfold ONet.ofNet at hx
      rw [List.getElem?_map] at hx
      cases hn : n[i]? with
      | none => rw [hn] at hx; cases hx
      | some y => rw [hn] at hx; cases hx; exact fun h => by cases h)
    (by
      intro i _ x hx _ _
      unfold ONet.ofNet at hx
      rw [List.getElem?_map] at hx
      cases hn : n[i]? with
      | none => rw [hn] at hx; cases hx
      | some y => rw [hn] at hx; cases hx; exact fun h => by cases h)
  rw [ONet.toNet_ofNet] at h
  exact h

/-- **error class = first failing check** on the optional table (all three flags on): the five outcomes are
exclusive and determined by ids present / the three parts of the specification on `toNet` / which sum fails first -/
theorem checkSpnOpt_reject_first (n : ONet α) (root : Nat) :
    ((∃ w, checkSpnOpt n root true true true = .ok (.labeled w)) ↔
        ¬ (IdsPresent n (oCollect n root) ∧ LabeledSpec n.toNet root)) ∧
    (checkSpnOpt n root true true true = .ok (.labeled "missing") ↔ ¬ IdsPresent n (oCollect n root)) ∧
    ((∃ w, checkSpnOpt n root true true true = .ok (.smooth w)) ∨ checkSpnOpt n root true true true = .typeError ↔
        IdsPresent n (oCollect n root) ∧ LabeledSpec n.toNet root ∧ ¬ SmoothSpec n.toNet root) ∧
    ((∃ w, checkSpnOpt n root true true true = .ok (.decomposable w)) ↔
        IdsPresent n (oCollect n root) ∧ LabeledSpec n.toNet root ∧ SmoothSpec n.toNet root ∧
          ¬ DecompSpec n.toNet root) := by
  classical
  obtain ⟨hA, hB⟩ := checkSpnOpt_eq n root true true true
  obtain ⟨r1, r2, r3⟩ := checkSpn_reject_first n.toNet root
  have hmiss := isLabeledOpt_missing_iff n (oCollect n root)
  by_cases hi : IdsPresent n (oCollect n root)
  · have hf := hB (fun h => h.2 hi)
    simp only [hi, true_and, not_true, iff_false]
    rw [← r1, ← r2, ← r3, ← hf]
    cases hc : checkSpnOpt n root true true true with
    | ok v =>
      cases v <;> simp [OVerdict.forget]
      intro h
      have hlab : isLabeledOpt n (oCollect n root) = some "missing" := by
        unfold checkSpnOpt at hc
        simp only [if_true] at hc
        cases hl : isLabeledOpt n (oCollect n root) with
        | none =>
          rw [hl] at hc
          simp only at hc
          cases hs : isSmoothOpt n (oCollect n root) with
          | none =>
            rw [hs] at hc; simp only at hc
            cases hd : isDecomposableOpt n (oCollect n root) <;> rw [hd] at hc <;> simp at hc
          | some r => rw [hs] at hc; cases r <;> simp at hc
        | some w => rw [hl] at hc; simp only [OVerdict.ok.injEq, Verdict.labeled.injEq] at hc; rw [hc, h]
      exact absurd hi (hmiss.1 hlab)
    | typeError => simp [OVerdict.forget]
  · have hf := hA ⟨rfl, hi⟩
    rw [hf]
    simp [hi]

/-! ### examples -/
namespace C03Opt

/-- leaf with optional id -/
def lf (id : Option Nat) (v : Nat) (tbl : List Rat) : ONode Rat := ⟨id, .leaf, [v], [], none, .cat v tbl⟩

/-- `C03.exNet` (shared child, ids in BFS order) as an optional table: everything present -/
def exO : ONet Rat :=
  [ lf (some 3) 0 [1/2, 1/2], lf (some 4) 1 [1/3, 2/3], lf (some 5) 1 [1/2, 1/2],
    ⟨some 1, .prod, [0, 1], [0, 1], none, .absent⟩,
    ⟨some 2, .prod, [1, 0], [0, 2], none, .absent⟩,
    ⟨some 0, .sum, [0, 1], [3, 4], some [1/4, 3/4], .absent⟩ ]

/-- the shared leaf has `id = None` -/
def noIdO : ONet Rat :=
  [ lf none 0 [1/2, 1/2], lf (some 4) 1 [1/3, 2/3], lf (some 5) 1 [1/2, 1/2],
    ⟨some 1, .prod, [0, 1], [0, 1], none, .absent⟩,
    ⟨some 2, .prod, [1, 0], [0, 2], none, .absent⟩,
    ⟨some 0, .sum, [0, 1], [3, 4], some [1/4, 3/4], .absent⟩ ]

/-- the root sum was built with `weights=None` -/
def noWsO : ONet Rat :=
  [ lf (some 3) 0 [1/2, 1/2], lf (some 4) 1 [1/3, 2/3], lf (some 5) 1 [1/2, 1/2],
    ⟨some 1, .prod, [0, 1], [0, 1], none, .absent⟩,
    ⟨some 2, .prod, [1, 0], [0, 2], none, .absent⟩,
    ⟨some 0, .sum, [0, 1], [3, 4], none, .absent⟩ ]

/-- both: an id is `None` *and* the root has no weights — the labeled test comes first -/
def noIdNoWsO : ONet Rat :=
  [ lf none 0 [1/2, 1/2], lf (some 4) 1 [1/3, 2/3], lf (some 5) 1 [1/2, 1/2],
    ⟨some 1, .prod, [0, 1], [0, 1], none, .absent⟩,
    ⟨some 2, .prod, [1, 0], [0, 2], none, .absent⟩,
    ⟨some 0, .sum, [0, 1], [3, 4], none, .absent⟩ ]

/-- a childless sum without weights under a sum with weights: "no children" is reported, `len(None)` never runs;
an unreachable entry (index 0) without id does not matter -/
def childlessO : ONet Rat :=
  [ lf none 0 [1/2, 1/2],
    ⟨some 1, .sum, [0], [], none, .absent⟩,
    ⟨some 0, .sum, [0], [1], some [1], .absent⟩ ]

/-- two sums fail: the first in BFS order (index 2, a weight-count mismatch) decides, not the `None` below it -/
def firstWinsO : ONet Rat :=
  [ lf (some 2) 0 [1/2, 1/2],
    ⟨some 1, .sum, [0], [0], none, .absent⟩,
    ⟨some 0, .sum, [0], [1], some [1/2, 1/2], .absent⟩ ]

end C03Opt

example : C03Opt.exO.toNet = C03.exNet := rfl

/-- non-vacuity of `checkSpnOpt_accept_iff`, both directions, on the shared-child table -/
example : checkSpnOpt C03Opt.exO 5 true true true = .ok .accept ∧
    IdsPresent C03Opt.exO (oCollect C03Opt.exO 5) ∧ ValidSpec C03Opt.exO.toNet 5 := by
  have h : checkSpnOpt C03Opt.exO 5 true true true = .ok .accept := by decide +kernel
  exact ⟨h, (checkSpnOpt_accept_iff_valid _ _).1 h⟩

example : checkSpnOpt C03Opt.exO 5 true true true = .ok .accept :=
  (checkSpnOpt_accept_iff _ _).2 ⟨(idsPresent_iff _ _).2 (by decide +kernel), by decide +kernel⟩

/-- a `None` id: rejected as "missing", ids are not present; with the labeled test off the same table is accepted -/
example : checkSpnOpt C03Opt.noIdO 5 true true true = .ok (.labeled "missing") ∧
    ¬ IdsPresent C03Opt.noIdO (oCollect C03Opt.noIdO 5) ∧
    checkSpnOpt C03Opt.noIdO 5 false true true = .ok .accept ∧
    Net.checkSpn C03Opt.noIdO.toNet 5 true true true = .labeled "repeated" := by
  have h : checkSpnOpt C03Opt.noIdO 5 true true true = .ok (.labeled "missing") := by decide +kernel
  exact ⟨h, ((checkSpnOpt_reject_first _ _).2.1).1 h, by decide +kernel, by decide +kernel⟩

/-- `weights = None` on a sum with children: `TypeError`; seen through `toNet` it is the "weights" rejection;
the characterisation names the node (root, first in BFS order) -/
example : checkSpnOpt C03Opt.noWsO 5 true true true = .typeError ∧
    Net.checkSpn C03Opt.noWsO.toNet 5 true true true = .smooth "weights" ∧
    checkSpnOpt C03Opt.noWsO 5 true false true = .ok .accept ∧
    ¬ WeightsPresent C03Opt.noWsO (oCollect C03Opt.noWsO 5) := by
  have h : checkSpnOpt C03Opt.noWsO 5 true true true = .typeError := by decide +kernel
  refine ⟨h, by decide +kernel, by decide +kernel, fun hw => ?_⟩
  have := checkSpnOpt_eq_of_present C03Opt.noWsO 5 true true true ((idsPresent_iff _ _).2 (by decide +kernel)) hw
  rw [h] at this; cases this

example : ∃ pre i post x, oCollect C03Opt.noWsO 5 = pre ++ i :: post ∧ C03Opt.noWsO[i]? = some x ∧ x.kind = .sum ∧
    x.ch ≠ [] ∧ x.ws = none ∧
    ∀ j ∈ pre, ∀ y, C03Opt.noWsO.toNet[j]? = some y → y.kind = .sum → SumOK C03Opt.noWsO.toNet y :=
  ((checkSpnOpt_typeError_iff C03Opt.noWsO 5 true true true).1 (by decide +kernel)).2.2

/-- both defects: the labeled test runs first; with it off, the crash shows -/
example : checkSpnOpt C03Opt.noIdNoWsO 5 true true true = .ok (.labeled "missing") ∧
    checkSpnOpt C03Opt.noIdNoWsO 5 false true true = .typeError := by decide +kernel

/-- childless sum with `weights = None`: a `ValueError` ("no children"), not a crash; the id-less entry 0 is not
collected from root 2 and is ignored -/
example : checkSpnOpt C03Opt.childlessO 2 true true true = .ok (.smooth "nochildren") ∧
    oCollect C03Opt.childlessO 2 = [2, 1] ∧ IdsPresent C03Opt.childlessO (oCollect C03Opt.childlessO 2) ∧
    WeightsPresent C03Opt.childlessO (oCollect C03Opt.childlessO 2) := by
  refine ⟨by decide +kernel, by decide +kernel, (idsPresent_iff _ _).2 (by decide +kernel), ?_⟩
  intro i hi x hx hk hch
  have hc : oCollect C03Opt.childlessO 2 = [2, 1] := by decide +kernel
  rw [hc] at hi
  simp only [List.mem_cons, List.not_mem_nil, or_false] at hi
  rcases hi with rfl | rfl
  · simp [C03Opt.childlessO] at hx; subst hx; simp
  · simp [C03Opt.childlessO] at hx; subst hx; simp at hch

/-- the first failing sum decides: a length mismatch above a `None` is a `ValueError` -/
example : checkSpnOpt C03Opt.firstWinsO 2 true true true = .ok (.smooth "weights") ∧
    checkSpnOpt C03Opt.firstWinsO 1 false true true = .typeError := by decide +kernel

/-- on tables without `None` the optional validator is the old one (`checkSpnOpt_ofNet`), all example tables of C03 -/
example : checkSpnOpt (ONet.ofNet C03.exNet) 5 true true true = .ok .accept ∧
    checkSpnOpt (ONet.ofNet C03.badIdNet) 5 true true true = .ok (.labeled "repeated") ∧
    checkSpnOpt (ONet.ofNet C03.badSmoothNet) 5 true true true = .ok (.smooth "weights") ∧
    checkSpnOpt (ONet.ofNet C03.witnessNet) 3 true true true = .ok (.decomposable "scopes") := by
  simp only [checkSpnOpt_ofNet]
  refine ⟨?_, ?_, ?_, ?_⟩ <;> decide +kernel

end Deeprob
