import DeeprobModel.Props.E2ECirc
import DeeprobModel.Oblig.Struct5Rewrite
set_option linter.unusedVariables false
set_option linter.unusedSectionVars false
/-
END-TO-END corollary for `structure.marginalize` (C10), stated about the PASS skeleton extracted by tools/listprog.py (block K),
`Gen.S5margPassLoop` (fragment `structure.marginalize.loop`).  `mgLoopMarginalize` is `E2E.mgGenMarginalize` with the hand-written fold
`Struct4.margPassGen` replaced by the generated skeleton (walked over the table in storage order, update = `Struct4.genStep`).

PARTIAL (see `Oblig/Struct5Rewrite.lean`): the instance of the skeleton covers the traversal, the initial dictionary, one update per
visited node and the `None` answer of `topological_order`; the read / write locality and the link between the generated
`topological_order` and the storage order are not composed in, and `prune` is still the modelled `pruneNet` (its loop body is not
extracted).  The other theorems of the section (`e2e_marginalize_rows / _total / _shape`) transfer by the same rewriting
(`mgLoopMarginalize_eq`).
-/
namespace Deeprob.E2ERewriteLoop
open Deeprob Deeprob.Net Deeprob.E2E

/-- the first pass of `marginalize` as the GENERATED skeleton renders it (`none`: `topological_order` returned `None`) -/
def loopMargPass {α : Type} (keep : List Nat) (net : Net α) (rootNode : NNode α) : Option (Net α × List (Option Nat)) :=
  Gen.S5margPassLoop (N := NNode α) (V := Net α × List (Option Nat)) (MAP := Net α × List (Option Nat)) (O := NNode α)
    (R := Net α × List (Option Nat))
    (fun x => x.id) (fun st _ => st) (fun st _ x => Struct4.genStep keep st x) (fun _ => some net.reverse)
    (fun _ => ([], [])) id (fun _ x => x) rootNode

/-- `marginalize(root, keep_scope)` around the generated pieces, with the generated PASS skeleton -/
def mgLoopMarginalize {α : Type} [Zero α] [Add α] [Mul α] (keep : List Nat) (net : Net α) (root : Nat) (rootNode : NNode α) :
    Except String (Net α × List Nat) :=
  match Gen.margGuardChain keep (scopeAt net root) with
  | some k => .error ("reject:" ++ Oblig.StructRewrite.margTag k)
  | none =>
    match margUnsupported net (collect net root) with
    | some why => .error ("unsupported:" ++ why)
    | none =>
      match loopMargPass keep net rootNode with
      | none => .error "cycle"
      | some st =>
        match st.2.getD root none with
        | none => .error "none"
        | some r1 =>
          match pruneNet st.1 r1 with
          | none => .error "cycle"
          | some res => .ok res

theorem mgLoopMarginalize_eq {α : Type} [Zero α] [Add α] [Mul α] (keep : List Nat) (net : Net α) (root : Nat) (rootNode : NNode α) :
    mgLoopMarginalize keep net root rootNode = mgGenMarginalize keep net root := by
  unfold mgLoopMarginalize mgGenMarginalize loopMargPass
  rw [Oblig.Struct5Rewrite.margPassLoop_shape_partial]
  cases Gen.margGuardChain keep (scopeAt net root) with
  | some k => rfl
  | none =>
    cases margUnsupported net (collect net root) with
    | some why => rfl
    | none => rfl

variable {α : Type} [CommSemiring α]

/-- **e2e_marginalize_loop_partial** (C10 at DAG level, value — about the extracted PASS skeleton): whenever the generated guards accept
and the generated pass skeleton followed by the modelled `prune` returns a table, its root has, under every evidence in which all
variables outside the kept set are missing, the value the original table has at `root`.  PARTIAL: see the header.
Ingredients: `Struct5Rewrite.margPassLoop_shape_partial` (O) + `E2E.e2e_marginalize`. -/
theorem e2e_marginalize_loop_partial (keep : List Nat) (net : Net α) (root : Nat) (rootNode : NNode α)
    (hw : WellOrdered net) (hs : NetSumOK net)
    (hn : ∀ (i : Nat) (x : NNode α), net[i]? = some x → MargNodeOK net x)
    (hr : root < net.length) (out : Net α) (order : List Nat)
    (h : mgLoopMarginalize keep net root rootNode = .ok (out, order))
    (e : Ev) (he : ∀ v, v ∉ keep → e v = none) (dens : List α) :
    out ≠ [] ∧ nval e (order.map (fun i => dens.getD i 0)) out (out.length - 1) = nval e dens net root := by
  rw [mgLoopMarginalize_eq] at h
  exact e2e_marginalize keep net root hw hs hn hr out order h e he dens

/-- non-vacuity on `C10w.net` (a DAG with a shared leaf), kept variable 1: the pass skeleton returns a table, and the value statement
applies to it -/
example (rootNode : NNode Rat) : ∀ (x : Ev) (dens : List Rat), ∃ out order,
    mgLoopMarginalize [1] C10w.net 5 rootNode = .ok (out, order) ∧ out ≠ [] ∧
    nval (x.restrict [1]) (order.map (fun i => dens.getD i 0)) out (out.length - 1) = nval (x.restrict [1]) dens C10w.net 5 := by
  intro x dens
  obtain ⟨res, hres⟩ := e2e_marginalize_total [1] C10w.net 5 C10w.wellOrdered (by decide) C10w.accept C10w.leafNoCh
    (by decide) (by decide) mgEx_tableOK
  have h : mgLoopMarginalize [1] C10w.net 5 rootNode = .ok (res.1, res.2) := by rw [mgLoopMarginalize_eq]; exact hres
  obtain ⟨h1, h2⟩ := e2e_marginalize_loop_partial [1] C10w.net 5 rootNode C10w.wellOrdered C10w.sumOK C10w.nodeOK (by decide)
    res.1 res.2 h (x.restrict [1]) (Ev.restrict_out x [1]) dens
  exact ⟨res.1, res.2, h, h1, h2⟩

example : (loopMargPass [1] C10w.net (default : NNode Rat)).map (fun st => st.2) =
    some [none, some 1, some 1, some 3, some 3, some 5] := by decide +kernel

end Deeprob.E2ERewriteLoop
