import DeeprobModel.Props.C04Xpc
import DeeprobModel.Oblig.Struct5Xpc
set_option linter.unusedSimpArgs false
set_option linter.unusedVariables false
set_option linter.unusedSectionVars false
/-
End-to-end corollaries for `build_xpc` (C04): the property stated about the LOOP EXTRACTED from the source
(`Gen.S5buildXpcStep`, iterated from `([part_root], None, [])` on the `Partition` objects of the tree), closing the chain

    source --(tools/listprog.py, every run)--> Gen.S5buildXpcStep --(Struct5X.buildXpcStep_as_coded: simulation)--> PostOrder.stepR
      --(PostOrderRLemmas.runR_eq_foldR: the explicit-stack walk with reversed pushes computes the recursive fold in child order,
         distinct objects)--> foldR --(Struct5X.fold_buildXpc)--> buildXpc
      --(Props/C04Xpc.lean: buildXpc_valid, buildXpc_scope, buildXpc_normW, buildXpc_normalised, xpc_sd_laminar)--> specification.

What stays outside: `assign_ids` (relabels ids, semantics unchanged — `Model/AssignIds.lean`); `build_leaf` (opaque in the extracted
loop; instantiated by the model's `buildLeaf` on the exported leaf parameters — tied by the C04 correspondence, exact text);
`generate_random_partitioning` (an oracle: `PartInv`, `sdInvB` are decided on every exported tree); the objects of the tree are
pairwise distinct (`Part.number`: one object per node, which is how `Partition.__init__` builds the tree).
-/
namespace Deeprob.E2EXpc
open Deeprob Deeprob.PostOrder Deeprob.Oblig.Struct5X Deeprob.XC

section loop
variable {α : Type} [Zero α] [One α] [Div α] [NatCast α]

/-- **e2e_build_xpc_loop (C04)**: on every partition tree whose inner nodes have sub-partitions and carry the kind
`is_horizontally_partitioned()` answers for them, the loop of `build_xpc` AS EXTRACTED FROM THE SOURCE ends with an empty
`partitions_stack` and returns (`pc_nodes_stack[0]`) exactly the circuit `buildXpc` of the model. -/
theorem e2e_build_xpc_loop (useClt det : Bool) (p : Part α) (hw : Part.wellTaggedB p = true) :
    genBuildXpc useClt det p = some (buildXpc useClt det p) ∧
    (genXpcState useClt det p (2 * sizeR (Part.number p 0))).1 = [] := by
  obtain ⟨l, hl⟩ := buildXpcLoop_as_coded isHorizP rowIdsP XC.children XC.isProduct XC.isSum (fun a b => (a : α) / (b : α))
    XC.mkSum XC.mkProd (buildLeafP useClt det) (Part.number p 0) (ids_number_nodup p 0)
  have hf := fold_buildXpc useClt det p hw 0
  unfold xcComb at hf
  rw [hf] at hl
  simp only [genBuildXpc, genXpcState, hl, List.head?_cons, and_self]

end loop

section spec
variable {α : Type} [Field α] [LinearOrder α] [IsStrictOrderedRing α]

/-- **e2e_build_xpc (C04)**: everything the C04 theorems state about the hand-written model holds for the circuit computed by the
EXTRACTED loop.  For a well-tagged partition tree satisfying the partition invariant, with admissible leaf parameters: the loop
returns a circuit that is smooth and decomposable with every leaf a distribution over its scope, stores duplicate-free scopes, has
the root partition's columns as its scope, positive sum weights summing to one, total mass one — and, when the partitioning follows
the sd discipline of a block list with rooted spanning trees (`learn_xpc(sd=True)`), a laminar family of product / Chow-Liu scopes
(structured decomposability). -/
theorem e2e_build_xpc (dom : Nat → Nat) (hdom : ∀ v, dom v = 2) (useClt det : Bool) (p : Part α)
    (hw : Part.wellTaggedB p = true) (hi : PartInv useClt det p) (hp : ParOK useClt det p) :
    ∃ c, genBuildXpc useClt det p = some c ∧
      Circ.Valid dom c.toCirc ∧ ScopesNodup c ∧
      scopeEq c.scope p.cols ∧ c.scope.Nodup ∧
      Normalised c ∧
      sumOver dom c.scope (fun _ => none) (fun x => Circ.eval x c.toCirc) = 1 ∧
      (∀ (trees : List (List Int)) (scopes : List (List Nat)), Xpc.blocksOkB trees scopes = true →
        Xpc.sdInvB useClt trees scopes p = true → Laminar c.sdScopes) := by
  refine ⟨buildXpc useClt det p, (e2e_build_xpc_loop useClt det p hw).1, (buildXpc_valid dom hdom useClt det p hi hp).1,
    (buildXpc_valid dom hdom useClt det p hi hp).2, (buildXpc_scope useClt det p hi hp).1, (buildXpc_scope useClt det p hi hp).2,
    buildXpc_normW useClt det p hi hp, buildXpc_normalised dom hdom useClt det p hi hp, ?_⟩
  intro trees scopes hb hsd
  exact xpc_sd_laminar useClt det trees scopes p hb hi hp hsd

/-- every horizontal split of the tree has at least two sub-partitions -/
def HorizTwo : Part α → Prop
  | .leaf .. => True
  | .horiz _ _ subs => 2 ≤ subs.length ∧ ∀ s ∈ subs, HorizTwo s
  | .vert _ _ subs => ∀ s ∈ subs, HorizTwo s

/-- the kind recorded at a vertical split is the one `is_horizontally_partitioned()` answers, under the partition invariant;
at a horizontal split it is, as soon as the split has two sub-partitions (a "horizontal" split that found all rows in one
assignment has ONE sub-partition over the same rows: `build_xpc` treats it as vertical, and so does `Part.ofNode`) -/
theorem wellTagged_of_partInv (useClt det : Bool) : (p : Part α) → PartInv useClt det p → HorizTwo p → Part.wellTaggedB p = true
  | .leaf .., _, _ => by simp [Part.wellTaggedB]
  | .horiz rows cols subs, hi, h2 => by
    unfold HorizTwo at h2
    have hof := ofNode_horiz useClt det rows cols subs hi h2.1
    unfold PartInv at hi
    obtain ⟨_, _, _, _, hne, _, hsub⟩ := hi
    have hh : Part.isHorizB rows subs = true := by
      unfold Part.ofNode at hof
      by_contra hc
      simp [hc] at hof
    simp only [Part.wellTaggedB, hh, Bool.and_eq_true, Bool.not_eq_true', List.isEmpty_eq_false_iff, and_true]
    exact ⟨hne, (wellTaggedBL_iff subs).2 (fun s hs => wellTagged_of_partInv useClt det s (hsub s hs).2.2 (h2.2 s hs))⟩
  | .vert rows cols subs, hi, h2 => by
    unfold HorizTwo at h2
    have hof := ofNode_vert useClt det rows cols subs hi
    unfold PartInv at hi
    obtain ⟨_, _, hc, _, hperm, hsub⟩ := hi
    have hne : subs ≠ [] := by
      intro h; subst h
      exact hc (by simpa using hperm.symm)
    have hh : Part.isHorizB rows subs = false := by
      unfold Part.ofNode at hof
      by_contra hcn
      have : Part.isHorizB rows subs = true := by simpa using hcn
      simp [this] at hof
    simp only [Part.wellTaggedB, hh, Bool.and_eq_true, Bool.not_eq_true', List.isEmpty_eq_false_iff, and_true]
    exact ⟨hne, (wellTaggedBL_iff subs).2 (fun s hs => wellTagged_of_partInv useClt det s (hsub s hs).2 (h2 s hs))⟩

end spec

/-! non-vacuity on the two example trees of `Props/C04Xpc.lean` (every kind of node; the sd discipline) -/
example : genBuildXpc true true XpcEx.tree = some (buildXpc true true XpcEx.tree) :=
  (e2e_build_xpc_loop true true XpcEx.tree (by decide +kernel)).1

example : ∃ c, genBuildXpc true true XpcEx.tree = some c ∧ Circ.Valid (fun _ => 2) c.toCirc ∧
    sumOver (fun _ => 2) c.scope (fun _ => none) (fun x => Circ.eval x c.toCirc) = 1 ∧
    c.prodScopes = [[0, 2, 1], [0, 1, 2]] := by
  obtain ⟨c, h1, h2, _, _, _, _, h7, _⟩ := e2e_build_xpc (fun _ => 2) (fun _ => rfl) true true XpcEx.tree
    (wellTagged_of_partInv true true _ XpcEx.tree_inv (by simp [XpcEx.tree, HorizTwo])) XpcEx.tree_inv XpcEx.tree_par
  have hc : c = buildXpc true true XpcEx.tree := by
    have := (e2e_build_xpc_loop true true XpcEx.tree (by decide +kernel)).1
    rw [this] at h1; exact (Option.some.inj h1).symm
  exact ⟨c, h1, h2, h7, by rw [hc]; decide +kernel⟩

example : ∃ c, genBuildXpc true false XpcSdEx.tree = some c ∧ Laminar c.sdScopes := by
  obtain ⟨c, h1, _, _, _, _, _, _, h8⟩ := e2e_build_xpc (fun _ => 2) (fun _ => rfl) true false XpcSdEx.tree
    (by decide +kernel) XpcSdEx.tree_inv XpcSdEx.tree_par
  exact ⟨c, h1, h8 XpcSdEx.trees XpcSdEx.scopes XpcSdEx.blocks_ok XpcSdEx.tree_sd⟩

/-- the tag hypothesis is needed: a node recorded as a HORIZONTAL split with ONE sub-partition over the same rows is answered
`False` by `is_horizontally_partitioned()` (`len(row_ids) > len(sub_partitions[0].row_ids)` fails), so the code's loop builds a
product where `buildXpc` follows the recorded kind and builds a sum.  (The driver's parser classifies with `Part.ofNode`, so such a
tree never reaches the model from an exported partitioning.) -/
def untagged : Part Rat := .horiz [0, 1] [0] [.leaf [0, 1] [0] true true [] { row0 := [1] }]

theorem wellTagged_needed : Part.wellTaggedB untagged = false ∧
    genBuildXpc true false untagged = some (XC.mkProd [XC.bern 0 0 1]) ∧
    buildXpc true false untagged = XC.mkSum [(2 : Rat) / 2] [XC.mkProd [XC.bern 0 0 1]] := by
  refine ⟨by decide +kernel, ?_, ?_⟩
  · simp [genBuildXpc, genXpcState, genRunX, Gen.S5buildXpcStep, untagged, Part.number, Part.numberL, sizeR, isPartitioned, isInP,
      lastInKidsR, PTree.kids, PTree.id, PTree.pay, isHorizP, rowIdsP, buildLeafP, buildLeaf, conjProd, XC.ind, Part.rows,
      Gen.Py5.suffix, Gen.Py5.dropLastN, XC.isProduct, XC.isSum, XC.children, XC.mkProd, XC.scope]
  · simp [untagged, buildXpc, buildXpcL, buildLeaf, conjProd, XC.ind, Part.rows]

end Deeprob.E2EXpc
