import DeeprobModel.Oblig.Struct5Topo
import DeeprobModel.Props.Topo
import DeeprobModel.Props.C08
set_option linter.unusedSimpArgs false
set_option linter.unusedVariables false
set_option linter.unusedSectionVars false
/-
End-to-end corollaries for `topological_order` and `topological_order_layered` (structure/node.py; C08, C06, C09, C01): the
property stated about the functions AS EXTRACTED from the source (`genTopo`, `genLayers` of Model/TopoLoop.lean: the extracted
counting prologue, root test, loop iterated, cycle test — `Gen.S5topo…`, `Gen.S5layered…`), closing the chain

    source --(tools/listprog.py, every run)--> Gen.S5topoStep / Gen.S5layeredStep
      --(Struct5T.topoStep_as_coded / layeredStep_as_coded: simulation)--> the modelled Kahn machine (`Net.kahnLoop`, `Sched.layersGo`)
      --(Props/Topo.lean, Props/C08.lean: kahn_sound, kahn_topological, layers_partition, layers_edge_lt)--> specification.

* `e2e_topo_eq`     on every table with children in range (CYCLIC OR NOT) the extracted `topological_order` returns what the
                    model `Net.kahn` returns — the same ordering, or `None` in the same cases (the code tests the SUM of integer
                    counters that may in principle go negative, the model tests that all truncated counters are 0: they agree
                    because no counter ever goes negative, `topoRun_counts` + `capacity`);
* `e2e_topo`        on every children-first table: an ordering is returned, it lists every reachable node once, root first,
                    every child strictly after each of its parents; `e2e_topo_queue_empty`: the `while queue:` loop has ended;
* `e2e_topo_sound`  without acyclicity: whatever is returned is such an order of exactly the reachable nodes;
* `e2e_layers_eq`   the extracted `topological_order_layered` is `Sched.layers` on EVERY table;
* `e2e_layers`      on every children-first table: layers are returned, they partition the reachable nodes and every edge goes
                    to a strictly later layer.
* `e2e_bfs`         the generator `bfs` as extracted (`Gen.S5bfsStep` iterated) yields `Net.collect` — the node list the counting
                    prologue iterates over (`e2e_topo_init_bfs`) — and its loop has ended.
`dfs_post_order` is extracted too (`Gen.S5dfsStep` = the hand-written machine `dfsStepM`: `Struct5T.dfsStep_as_coded`); no order
property is claimed for it: on a DAG with sharing it yields a parent BEFORE a child that an ancestor pushed earlier (witness in
`Oblig/Struct5Topo.lean`); no function of the library calls it.
What stays outside: the identification of node objects with table rows (the exporter), Python's `dict` / `deque` / `set` (read as a
total table / a list / a list queried by membership).
-/
namespace Deeprob.E2ETopo
open Deeprob Deeprob.Net Deeprob.Sched List Deeprob.Oblig.Struct5T

section general
variable {α : Type}

theorem sum_map_zero (R : List Nat) (f : Nat → Int) (h : ∀ v ∈ R, f v = 0) : (R.map f).sum = 0 := by
  induction R with
  | nil => rfl
  | cons a R ih =>
    rw [map_cons, sum_cons, h a (mem_cons_self ..), ih (fun v hv => h v (mem_cons_of_mem _ hv))]; rfl

/-- the final state of the extracted loop against the final state of the model's loop: same ordering, and every integer counter
of the code equals the (natural) counter of the model — in particular it is not negative. -/
theorem final_state (t : Net α) (root : Nat) (h : InRange t) (h0 : count root (edgesOf t (collect t root)) = 0) :
    (genTopoState t root).1 = [] ∧
    (genTopoState t root).2.2 = (kahnLoop t (t.length + 1) [root] (kahnCounts t root) []).2 ∧
    ∀ v, (genTopoState t root).2.1 v = ((kahnLoop t (t.length + 1) [root] (kahnCounts t root) []).1.getD v 0 : Nat) := by
  obtain ⟨cI', e, r⟩ := topoRun_sim t (t.length + 1) [root] (genTopoCounts t root) (kahnCounts t root) [] (rel_init t root h)
  have hfin := kahn_final t root h h0
  have hloop := kahnLoop_eq_run t (t.length + 1) [root] (kahnCounts t root) []
  have hq := kahnRunM_queue_nil t root (collect t root) (reachOK_of_inRange t root h).closed (t.length + 1) [root]
    (kahnCounts t root) [] (kahn_init t root h h0) (by have := collect_length_le t root h; simp; omega)
  have hcnt := topoRun_counts t (t.length + 1) [root] (genTopoCounts t root) []
  unfold genTopoState
  rw [hloop] at hfin ⊢
  rw [e] at hcnt ⊢
  refine ⟨hq, rfl, fun v => ?_⟩
  have h1 := hcnt v
  simp only [] at h1 ⊢
  have hnd : (kahnRunM t (t.length + 1) ([root], kahnCounts t root, [])).2.2.Nodup := by simpa using hfin.nodup
  have hsub : (kahnRunM t (t.length + 1) ([root], kahnCounts t root, [])).2.2 ⊆ collect t root :=
    fun v hv => hfin.sub v (by simpa using hv)
  have hcap := capacity t _ _ hnd hsub v
  have hce := hfin.cnt_eq v
  simp only [] at hce
  rw [hce]
  have hi : genTopoCounts t root v = (count v (edgesOf t (collect t root)) : Nat) := by
    rw [topoInit_as_coded]; rfl
  rw [hi] at h1
  simp only [edgesOf, flatMap_nil, count_nil] at h1 hcap ⊢
  omega

/-- **e2e_topo_eq (C08, C06, C09)**: on every table whose children reference table rows — acyclic or not — `topological_order` AS
EXTRACTED from the source (counting prologue, root test, `while queue:` loop, cycle test on the sum of the counters) returns exactly
what the model `Net.kahn` returns: the same ordering, or `None` for the same tables. -/
theorem e2e_topo_eq (t : Net α) (root : Nat) (h : InRange t) : genTopo t root = kahn t root := by
  have hk := (kahnCounts_spec t root h).2 root
  have hi : genTopoCounts t root root = (count root (edgesOf t (collect t root)) : Nat) := by
    rw [topoInit_as_coded]; rfl
  unfold genTopo kahn Gen.S5topoRootGuard Gen.S5topoResult
  by_cases h0 : count root (edgesOf t (collect t root)) = 0
  · obtain ⟨_, hord, hc⟩ := final_state t root h h0
    have hg : (getC (genTopoCounts t root) root != 0) = false := by unfold getC; rw [hi, h0]; rfl
    have hm : ((kahnCounts t root).getD root 0 != 0) = false := by rw [hk, h0]; rfl
    simp only [hg, hm, Bool.false_eq_true, if_false]
    rw [hord]
    have hfin := kahn_final t root h h0
    have hR := reachOK_of_inRange t root h
    by_cases hall : (kahnLoop t (t.length + 1) [root] (kahnCounts t root) []).1.all (fun k => k == 0) = true
    · have hz := (all_zero_iff _).1 hall
      have hs : sumC (collect t root) (genTopoState t root).2.1 = 0 :=
        sum_map_zero _ _ (fun v _ => by rw [hc v, hz v]; rfl)
      rw [if_pos hall, hs]; rfl
    · rw [if_neg hall]
      have hs : sumC (collect t root) (genTopoState t root).2.1 ≠ 0 := by
        intro hs
        apply hall
        rw [all_zero_iff]
        intro v
        by_cases hv : v ∈ collect t root
        · have := sum_zero_of_nonneg _ (fun x hx => by
            obtain ⟨w, _, rfl⟩ := mem_map.1 hx
            rw [hc w]; exact Int.natCast_nonneg _) hs _ (mem_map.2 ⟨v, hv, rfl⟩)
          rw [hc v] at this
          exact_mod_cast this
        · have hz : count v (edgesOf t (collect t root)) = 0 := by
            rw [count_eq_zero]
            intro hm
            obtain ⟨p, hp, hcp⟩ := mem_flatMap.1 hm
            exact hv (hR.closed p hp v hcp)
          rw [hfin.cnt_eq v, hz]; simp
      simp [hs]
  · have hg : (getC (genTopoCounts t root) root != 0) = true := by
      unfold getC; rw [hi]; simp; exact h0
    have hm : ((kahnCounts t root).getD root 0 != 0) = true := by rw [hk]; simpa using h0
    simp only [hg, hm, if_true]

/-- **e2e_topo_sound (C08)**, no acyclicity assumption: whatever ordering the EXTRACTED `topological_order` returns is duplicate-free,
lists exactly the nodes of `bfs(root)`, starts with the root, and lists every child strictly after each of its parents. -/
theorem e2e_topo_sound (t : Net α) (root : Nat) (h : InRange t) (ord : List Nat) (hg : genTopo t root = some ord) :
    ord.Nodup ∧ (∀ v, v ∈ ord ↔ v ∈ collect t root) ∧ ord.head? = some root ∧
      ∀ p ∈ ord, ∀ c ∈ chOf t p, c ∈ ord ∧ ord.idxOf p < ord.idxOf c :=
  Topo.kahn_sound t root h ord (by rw [← e2e_topo_eq t root h]; exact hg)

/-- **e2e_layers_eq (C08)**: `topological_order_layered` AS EXTRACTED is the model `Sched.layers`, on every table and root. -/
theorem e2e_layers_eq (t : Net α) (root : Nat) : genLayers t root = layers t root := genLayers_eq t root

/-- **e2e_bfs (C01, C03: the node list every traversal starts from)**: on every table with children in range the generator `bfs` AS
EXTRACTED from the source yields exactly the model's node list `Net.collect` (discovery order, every reachable node once), and its
`while queue:` loop has ended within `length + 1` iterations. -/
theorem e2e_bfs (t : Net α) (root : Nat) (h : InRange t) (hr : root < t.length) :
    genBfs t root = collect t root ∧ (genBfsState t root).1 = [] := by
  obtain ⟨i1, i2, i3, i4⟩ := bfsRun_inv t h (t.length + 1) [root] [root] [] rfl (by simp) (by simpa using hr)
  have hs := bfsRun_seen t (t.length + 1) [root] [root] []
  have hlen := nodup_length_le _ _ i3 i4
  have hq : (genBfsRun t (t.length + 1) ([root], [root], [])).1 = [] := by
    rcases i2 with i2 | i2
    · exact i2
    · exfalso
      rw [i1, length_append] at hlen
      simp at i2
      omega
  unfold genBfs genBfsState
  refine ⟨?_, hq⟩
  rw [hq, append_nil] at i1
  rw [← i1, hs]; rfl

/-- the counting prologue of `topological_order` with the EXTRACTED `bfs` in the place of its parameter `bfs` computes the model's
in-degree table (composition of `e2e_bfs` with `topoInit_as_coded`) -/
theorem e2e_topo_init_bfs (t : Net α) (root : Nat) (h : InRange t) (hr : ∀ r, r < t.length) :
    Gen.S5topoInit (chOf t) getC setF emptyC (genBfs t) root = indeg t root := by
  have : genBfs t = collect t := funext (fun r => (e2e_bfs t r h (hr r)).1)
  rw [this]; exact topoInit_as_coded t root

end general

section wo
variable {α : Type} [CommSemiring α]

/-- **e2e_topo (C08, C06, C09, C01)**: on every well-formed children-first table the EXTRACTED `topological_order` returns an
ordering (never `None`), it is the model's ordering, a permutation of the reachable nodes starting with the root, and every child
of a listed node is listed at a strictly larger position (a topological order). -/
theorem e2e_topo (net : Net α) (root : Nat) (hw : WellOrdered net) (hr : root < net.length) :
    ∃ ord, genTopo net root = some ord ∧ kahn net root = some ord ∧
      ord.Perm (collect net root) ∧ ord.Nodup ∧ ord.head? = some root ∧
      ∀ p ∈ ord, ∀ c ∈ chOf net p, c ∈ ord ∧ ord.idxOf p < ord.idxOf c := by
  obtain ⟨ord, hk⟩ := Topo.kahn_some net root hw hr
  have hin := inRange_of_chLt net (chLt_of_wellOrdered net hw)
  obtain ⟨hp, hnd, hh⟩ := Topo.kahn_perm_collect net root hw hr ord hk
  exact ⟨ord, by rw [e2e_topo_eq net root hin]; exact hk, hk, hp, hnd, hh, Topo.kahn_topological net root hw hr ord hk⟩

/-- **e2e_topo_queue_empty**: on a children-first table the state reached by the iterated extracted step has an empty queue — the
`while queue:` loop of the code has ended there (the iteration count `length + 1` of `genTopoState` is not a truncation). -/
theorem e2e_topo_queue_empty (net : Net α) (root : Nat) (hw : WellOrdered net) : (genTopoState net root).1 = [] := by
  have hwo := chLt_of_wellOrdered net hw
  exact (final_state net root (inRange_of_chLt net hwo) (root_count_zero net root hwo)).1

/-- **e2e_topo_mpe (C06)**: the top-down MPE pass run in the order the EXTRACTED `topological_order` returns is the tree-level
descent of the unfolding (composition with `Topo.mpeNet_kahn_refines`). -/
theorem e2e_topo_mpe [LinearOrder α] (dom : Nat → Nat) (net : Net α) (dens : List α) (isBern : Nat → Bool)
    (hw : WellOrdered net) (hok : ∀ i (x : NNode α), net[i]? = some x → NodeOK dom net dens i x)
    (root : Nat) (hr : root < net.length) (e : Ev) :
    ∃ ord, genTopo net root = some ord ∧
      (mpeNetOrd ord e dens net root isBern).row = TCirc.mpeDescent e (toTTree net dens isBern (root+1) root) := by
  obtain ⟨ord, hk, hm⟩ := Topo.mpeNet_kahn_refines dom net dens isBern hw hok root hr e
  exact ⟨ord, by rw [e2e_topo_eq net root (inRange_of_chLt net (chLt_of_wellOrdered net hw))]; exact hk, hm⟩

/-- **e2e_layers (C08)**: on every well-formed children-first table the EXTRACTED `topological_order_layered` returns layers (never
`None`), they are the model's layers, together they list every reachable node exactly once, and every edge of the reachable graph
leads to a strictly later layer. -/
theorem e2e_layers (net : Net α) (root : Nat) (hw : WellOrdered net) :
    ∃ L, genLayers net root = some L ∧ layers net root = some L ∧
      L.flatten.Nodup ∧ (∀ v, v ∈ L.flatten ↔ v ∈ collect net root) ∧
      ∀ p ∈ collect net root, ∀ c ∈ chOf net p, layerIndex L p < layerIndex L c := by
  obtain ⟨L, hL⟩ := Topo.layers_some' net root hw
  have hR := reachOK_of_wellOrdered net root hw
  obtain ⟨h1, h2⟩ := layers_partition net root L hL hR
  exact ⟨L, by rw [e2e_layers_eq]; exact hL, hL, h1, h2, fun p hp c hc => layers_edge_lt net root L hL hR p c hp hc⟩

end wo

/-! ## non-vacuity: `C06.exNet` (9 nodes, root 8; the leaves 1 and 2 are children of node 7 at depth 1 AND of the shared node 4 at
depth 2, so a layering by depth would put them one layer too early; the Kahn order differs from the BFS order) -/

example : genTopo C06.exNet 8 = some [8, 5, 6, 7, 3, 4, 0, 1, 2] := by
  rw [e2e_topo_eq C06.exNet 8 (inRange_of_chLt _ (chLt_of_wellOrdered _ C06.exNet_wo))]; decide +kernel

example : ∃ ord, genTopo C06.exNet 8 = some ord ∧ ord.Perm (collect C06.exNet 8) ∧
    ∀ p ∈ ord, ∀ c ∈ chOf C06.exNet p, c ∈ ord ∧ ord.idxOf p < ord.idxOf c := by
  obtain ⟨ord, h1, _, h3, _, _, h6⟩ := e2e_topo C06.exNet 8 C06.exNet_wo (by simp [C06.exNet])
  exact ⟨ord, h1, h3, h6⟩

example : (genTopoState C06.exNet 8).1 = [] := e2e_topo_queue_empty C06.exNet 8 C06.exNet_wo

example : genBfs C06.exNet 8 = collect C06.exNet 8 ∧ genBfs C06.exNet 8 = [8, 5, 6, 7, 0, 4, 3, 1, 2] :=
  ⟨(e2e_bfs C06.exNet 8 (inRange_of_chLt _ (chLt_of_wellOrdered _ C06.exNet_wo)) (by simp [C06.exNet])).1, by decide +kernel⟩

/-- the extracted functions evaluated directly (no theorem in between) -/
example : genTopo C06.exNet 8 = some [8, 5, 6, 7, 3, 4, 0, 1, 2] ∧
    genLayers C06.exNet 8 = some [[8], [5, 6, 7], [3, 4, 0], [1, 2]] := ⟨by decide +kernel, by decide +kernel⟩

/-- the shared leaves 1, 2 come in the LAST layer, after their deeper parent 4 (depth layering would give `[3, 4, 0, 1, 2]`) -/
example : ∃ L, genLayers C06.exNet 8 = some L ∧ layerIndex L 4 < layerIndex L 1 ∧ layerIndex L 7 < layerIndex L 1 := by
  obtain ⟨L, h1, _, _, _, h5⟩ := e2e_layers C06.exNet 8 C06.exNet_wo
  have hc : ∀ v ∈ [4, 7], v ∈ collect C06.exNet 8 := by decide +kernel
  exact ⟨L, h1, h5 4 (hc 4 (by simp)) 1 (by simp [chOf, C06.exNet, C06.prd]),
    h5 7 (hc 7 (by simp)) 1 (by simp [chOf, C06.exNet, C06.prd])⟩

/-- the rejection branches of the extracted code are reached: a two-node cycle below the root (cycle test on the sum), and a
cycle through the root (root test) — in both cases the extracted function and the model return `None` -/
example : genTopo ([⟨0, .leaf, [0], [], [], .absent⟩, ⟨1, .prod, [0], [2], [], .absent⟩, ⟨2, .prod, [0], [1, 0], [], .absent⟩,
      ⟨3, .prod, [0], [2], [], .absent⟩] : Net Nat) 3 = none ∧
    genLayers ([⟨0, .leaf, [0], [], [], .absent⟩, ⟨1, .prod, [0], [2], [], .absent⟩, ⟨2, .prod, [0], [1, 0], [], .absent⟩,
      ⟨3, .prod, [0], [2], [], .absent⟩] : Net Nat) 3 = none ∧
    genTopo ([⟨0, .prod, [0], [1], [], .absent⟩, ⟨1, .prod, [0], [0], [], .absent⟩] : Net Nat) 1 = none :=
  ⟨by decide +kernel, by decide +kernel, by decide +kernel⟩

example : genTopo ([⟨0, .leaf, [0], [], [], .absent⟩, ⟨1, .prod, [0], [2], [], .absent⟩, ⟨2, .prod, [0], [1, 0], [], .absent⟩,
      ⟨3, .prod, [0], [2], [], .absent⟩] : Net Nat) 3 =
    kahn ([⟨0, .leaf, [0], [], [], .absent⟩, ⟨1, .prod, [0], [2], [], .absent⟩, ⟨2, .prod, [0], [1, 0], [], .absent⟩,
      ⟨3, .prod, [0], [2], [], .absent⟩] : Net Nat) 3 :=
  e2e_topo_eq _ 3 (by
    intro a c hc
    rcases a with _ | _ | _ | _ | a <;> simp [chOf] at hc <;> simp <;> omega)

end Deeprob.E2ETopo
