import DeeprobModel.Lemmas.RewriteNetMain
import DeeprobModel.Lemmas.RewriteNetOrder
import DeeprobModel.Props.C03
import DeeprobModel.Props.C09Net
import Mathlib.Algebra.Ring.Rat
import Mathlib.Tactic.NormNum
set_option linter.unusedSectionVars false
set_option linter.unusedSimpArgs false
set_option linter.unusedVariables false
/-
C09 at DAG level, beyond the value: shape of the result of the repaired `prune`
(/repo/deeprob/spn/algorithms/structure.py) on node tables with sharing (`Model/RewriteNet.lean`).
-/
namespace Deeprob
open Net

/-! ### the example table: sharing, a chain of single-child nodes, nested same-kind nodes, coinciding children -/
namespace C09x
def lf (id v : Nat) : NNode Rat := { id := id, kind := .leaf, scope := [v], ch := [], ws := [], leaf := .cat v [1/2, 1/2] }
/--
```
9 = S{½,½}(8, 7)          both children are replaced by 7: the merged dictionary has one key, the root collapses
8 = P(7)                   single-child product
7 = P(6, 2)
6 = S{½,½}(5, 0)          5 is replaced (through the chain 5 → 4 → 3) by the sum 3: nested sum; leaf 0 is shared with 3
5 = S{1}(4), 4 = S{1}(3)  chain of single-child sums
3 = S{½,½}(0, 1)
0, 1 leaves over variable 0; 2 leaf over variable 1
```
-/
def net : Net Rat :=
  [ lf 9 0, lf 8 0, lf 7 1,
    { id := 6, kind := .sum, scope := [0], ch := [0, 1], ws := [1/2, 1/2], leaf := .absent },
    { id := 5, kind := .sum, scope := [0], ch := [3], ws := [1], leaf := .absent },
    { id := 4, kind := .sum, scope := [0], ch := [4], ws := [1], leaf := .absent },
    { id := 3, kind := .sum, scope := [0], ch := [5, 0], ws := [1/2, 1/2], leaf := .absent },
    { id := 2, kind := .prod, scope := [0, 1], ch := [6, 2], ws := [], leaf := .absent },
    { id := 1, kind := .prod, scope := [0, 1], ch := [7], ws := [], leaf := .absent },
    { id := 0, kind := .sum, scope := [0, 1], ch := [8, 7], ws := [1/2, 1/2], leaf := .absent } ]

theorem wellOrdered : WellOrdered net := (wellOrderedB_iff net).1 (by decide)
theorem accept : Net.checkSpn net 9 true true true = .accept := by decide
theorem leafNoCh' : ∀ j : Fin net.length, (net[j]).kind = .leaf → (net[j]).ch = [] := by decide
theorem leafNoCh : ∀ i ∈ collect net 9, ∀ x, net[i]? = some x → x.kind = .leaf → x.ch = [] := by
  intro i hi x hx hk
  obtain ⟨hlt, rfl⟩ := List.getElem?_eq_some_iff.1 hx
  exact leafNoCh' ⟨i, hlt⟩ hk

/-- the table `prune` returns on `net`: `P( S{¾,¼}(leaf, leaf), leaf )` -/
def nfNet : Net Rat :=
  [ lf 3 0, lf 4 0,
    { id := 1, kind := .sum, scope := [0], ch := [0, 1], ws := [3/4, 1/4], leaf := .absent },
    lf 2 1,
    { id := 0, kind := .prod, scope := [0, 1], ch := [2, 3], ws := [], leaf := .absent } ]
theorem nfNet_sums : ∀ j : Fin nfNet.length, (nfNet[j]).kind = .sum →
    (nfNet[j]).ws.length = (nfNet[j]).ch.length ∧ (nfNet[j]).ch.Nodup := by decide

theorem sumOK' : ∀ j : Fin net.length, (net[j]).kind = .sum →
    (net[j]).ws.length = (net[j]).ch.length ∧ tsum (net[j]).ws = 1 := by decide +kernel
theorem sumOK : NetSumOK net := by
  intro i x hx hk
  obtain ⟨hlt, rfl⟩ := List.getElem?_eq_some_iff.1 hx
  exact sumOK' ⟨i, hlt⟩ hk

/-- `topological_order(root)` of the example (Kahn, FIFO queue) -/
theorem kahn_eq : kahn net 9 = some [9, 8, 7, 6, 2, 5, 4, 3, 0, 1] := by decide +kernel
theorem kahnOK : KahnOrdOK net 9 [9, 8, 7, 6, 2, 5, 4, 3, 0, 1] := by
  refine ⟨by decide, ?_, by decide⟩
  have hc : collect net 9 = [9, 8, 7, 6, 2, 5, 0, 4, 3, 1] := by decide
  intro v
  rw [hc]
  simp only [List.mem_cons, List.not_mem_nil, or_false]
  omega
end C09x

variable {α : Type} [CommSemiring α]

/-- **C09 at DAG level, the invariant of `nodes_map`** (repaired `prune`): for a children-first table accepted by
`check_spn(labeled, smooth, decomposable)` whose leaves have no children, the replacement `nodes_map[i]` of every node
`i` reachable from the root is, after the pass, a leaf, or an inner node with at least two children none of which has
the node's own kind; and each of these children is again the replacement of a reachable node. -/
theorem prunePass_rep_invariant (net : Net α) (root : Nat) (hw : WellOrdered net)
    (hacc : Net.checkSpn net root true true true = .accept)
    (hleaf : ∀ i ∈ collect net root, ∀ x, net[i]? = some x → x.kind = .leaf → x.ch = [])
    (i : Nat) (hi : i ∈ collect net root) (hlt : i < net.length) :
    ∃ y, (prunePass true net).1[(prunePass true net).2.getD i i]? = some y ∧
      ((y.kind = .leaf ∧ y.ch = []) ∨
       (2 ≤ y.ch.length ∧ (y.kind = .sum → y.ws.length = y.ch.length) ∧
        ∀ c ∈ y.ch, kindOf (prunePass true net).1 c ≠ y.kind ∧
          ∃ j, j < (prunePass true net).2.getD i i ∧ j ∈ collect net root ∧ (prunePass true net).2.getD j j = c)) :=
  sol_good net _ _ hw (prunePass_sol true net hw) (fun i => i ∈ collect net root)
    (fun i hi c hc => collect_closed net root (inRange_of_wellOrdered net hw) i c hi hc)
    (shapeOK_of_accept net root true hacc hleaf) i hlt hi

example : ∀ i ∈ collect C09x.net 9, i < C09x.net.length →
    ∃ y, (prunePass true C09x.net).1[(prunePass true C09x.net).2.getD i i]? = some y ∧
      ((y.kind = .leaf ∧ y.ch = []) ∨ (2 ≤ y.ch.length ∧ (y.kind = .sum → y.ws.length = y.ch.length) ∧
        ∀ c ∈ y.ch, kindOf (prunePass true C09x.net).1 c ≠ y.kind ∧
          ∃ j, j < (prunePass true C09x.net).2.getD i i ∧ j ∈ collect C09x.net 9 ∧
            (prunePass true C09x.net).2.getD j j = c)) :=
  fun i hi hlt => prunePass_rep_invariant C09x.net 9 C09x.wellOrdered C09x.accept C09x.leafNoCh i hi hlt

/-- the replacement map of the example: the chain `5 → 4 → 3` and the single-child product are bypassed, the root
collapses onto node 7 -/
example : (prunePass true C09x.net).2 = [0, 1, 2, 3, 3, 3, 6, 7, 7, 7] := by decide +kernel

/-- **C09 at DAG level, normal form** (repaired `prune`): for a children-first table accepted by
`check_spn(labeled, smooth, decomposable)` whose leaves have no children, every entry of the table returned by
`prune` + `assign_ids` + export is a leaf or an inner node with at least two children, none of its own kind; in
particular `normalFormB` holds at the new root (last entry). -/
theorem pruneNet_normal_form (net : Net α) (root : Nat) (hw : WellOrdered net) (hr : root < net.length)
    (hacc : Net.checkSpn net root true true true = .accept)
    (hleaf : ∀ i ∈ collect net root, ∀ x, net[i]? = some x → x.kind = .leaf → x.ch = [])
    (out : Net α) (order : List Nat) (h : pruneNet net root = some (out, order)) :
    normalFormB out (out.length - 1) = true ∧
    ∀ p, p < out.length → ∃ x, out[p]? = some x ∧
      (x.kind = .leaf ∨ (2 ≤ x.ch.length ∧ ∀ c ∈ x.ch, kindOf out c ≠ x.kind)) :=
  pruneNet_normal_form_of net root hw hr (fun i => i ∈ collect net root)
    (fun i hi c hc => collect_closed net root (inRange_of_wellOrdered net hw) i c hi hc)
    (root_mem_collect net root) (shapeOK_of_accept net root true hacc hleaf) out order h

example : ∃ out order, pruneNet C09x.net 9 = some (out, order) ∧ normalFormB out (out.length - 1) = true := by
  cases h : pruneNet C09x.net 9 with
  | none => exact absurd h (by decide +kernel)
  | some r =>
    exact ⟨r.1, r.2, rfl,
      (pruneNet_normal_form C09x.net 9 C09x.wellOrdered (by decide) C09x.accept C09x.leafNoCh r.1 r.2 h).1⟩

/-- the result on the example: `P( S{¾,¼}(leaf 0, leaf 1), leaf 2 )`, five nodes out of ten -/
example : C09w.view (pruneNet C09x.net 9) =
    [(.leaf, 3, [], []), (.leaf, 4, [], []), (.sum, 1, [0, 1], [3/4, 1/4]), (.leaf, 2, [], []), (.prod, 0, [2, 3], [])] ∧
    C09w.origin (pruneNet C09x.net 9) = [0, 1, 6, 2, 7] := by
  constructor <;> decide +kernel

/-! ### validity of the result -/

example : LocalOK C09x.net (fun i => i ∈ collect C09x.net 9) ∧ ShapeOK C09x.net (fun i => i ∈ collect C09x.net 9) :=
  ⟨localOK_of_accept _ _ true C09x.accept, shapeOK_of_accept _ _ true C09x.accept C09x.leafNoCh⟩

/-- **C09 at DAG level, validity** (repaired `prune`): for a children-first table accepted by
`check_spn(labeled, smooth, decomposable)` whose leaves have no children and whose stored scopes are duplicate-free
(enforced by `Node.__init__`, not looked at by `check_spn`), every entry of the returned table is smooth
(`SumOK`: one weight per child, every child has the sum's scope as a set) resp. decomposable (`ProdOK`: child scopes
duplicate-free, pairwise disjoint, union = the product's scope); hence `check_spn(smooth, decomposable)` accepts the
result, and the scope of the new root is the scope of the old root as a set. (Labels: `pruneNet_labeled`.) -/
theorem pruneNet_valid (net : Net α) (root : Nat) (hw : WellOrdered net) (hr : root < net.length)
    (hacc : Net.checkSpn net root true true true = .accept)
    (hleaf : ∀ i ∈ collect net root, ∀ x, net[i]? = some x → x.kind = .leaf → x.ch = [])
    (hnd : ∀ i ∈ collect net root, (scopeOf net i).Nodup)
    (out : Net α) (order : List Nat) (h : pruneNet net root = some (out, order)) :
    Net.checkSpn out (out.length - 1) false true true = .accept ∧
    scopeEq (scopeOf out (out.length - 1)) (scopeOf net root) ∧
    (∀ (p : Nat) (x : NNode α), out[p]? = some x → (x.kind = .sum → SumOK out x) ∧ (x.kind = .prod → ProdOK out x)) ∧
    (∀ p, p < out.length → (scopeOf out p).Nodup) :=
  pruneNet_valid_of net root hw hr (fun i => i ∈ collect net root)
    (fun i hi c hc => collect_closed net root (inRange_of_wellOrdered net hw) i c hi hc)
    (root_mem_collect net root) (shapeOK_of_accept net root true hacc hleaf) (localOK_of_accept net root true hacc) hnd
    out order h

theorem C09x.scopesNodup : ∀ i ∈ collect C09x.net 9, (scopeOf C09x.net i).Nodup := by decide

example : ∃ out order, pruneNet C09x.net 9 = some (out, order) ∧
    Net.checkSpn out (out.length - 1) false true true = .accept ∧
    scopeEq (scopeOf out (out.length - 1)) (scopeOf C09x.net 9) := by
  cases h : pruneNet C09x.net 9 with
  | none => exact absurd h (by decide +kernel)
  | some r =>
    have := pruneNet_valid C09x.net 9 C09x.wellOrdered (by decide) C09x.accept C09x.leafNoCh C09x.scopesNodup r.1 r.2 h
    exact ⟨r.1, r.2, rfl, this.1, this.2.1⟩

/-- the hypothesis "stored scopes are duplicate-free" of `pruneNet_valid` cannot be dropped: `check_spn` accepts
`P( S{1}(A), B )` with `A.scope = [0, 0]` (it compares scopes of sum children as sets), `prune` replaces the
single-child sum by `A`, and the result is rejected. `Node.__init__` rules such scopes out. -/
theorem pruneNet_valid_needs_nodup :
    ∃ (n : Net Rat) (root : Nat), WellOrdered n ∧ Net.checkSpn n root true true true = .accept ∧
      (∀ r ∈ pruneNet n root, Net.checkSpn r.1 (r.1.length - 1) true true true = .decomposable "scopes") ∧
      (pruneNet n root).isSome :=
  ⟨[ { id := 3, kind := .leaf, scope := [0, 0], ch := [], ws := [], leaf := .cat 0 [1/2, 1/2] },
     { id := 2, kind := .leaf, scope := [1], ch := [], ws := [], leaf := .cat 1 [1/2, 1/2] },
     { id := 1, kind := .sum, scope := [0], ch := [0], ws := [1], leaf := .absent },
     { id := 0, kind := .prod, scope := [0, 1], ch := [2, 1], ws := [], leaf := .absent } ], 3,
   (wellOrderedB_iff _).1 (by decide), by decide, by decide +kernel, by decide +kernel⟩

/-- **C09 at DAG level, the result passes `check_spn` with all three flags** — `_partial`: under the hypothesis
`KahnFacts` that `topological_order` of the rewritten table lists every node reachable from the new root exactly once
(this is `Net.kahn_spec` of `Lemmas/KahnLemmas.lean`, which holds for every table with in-range children; the
hypothesis-free corollary is `pruneNet_checkSpn` in `Props/C09NetKahn.lean`). With it, the ids written by
`assign_ids` are a permutation of `0..n-1` and every exported entry is reachable from the new root. -/
theorem pruneNet_checkSpn_partial (net : Net α) (root : Nat) (hw : WellOrdered net) (hr : root < net.length)
    (hacc : Net.checkSpn net root true true true = .accept)
    (hleaf : ∀ i ∈ collect net root, ∀ x, net[i]? = some x → x.kind = .leaf → x.ch = [])
    (hnd : ∀ i ∈ collect net root, (scopeOf net i).Nodup)
    (hK : KahnFacts (prunePass true net).1 ((prunePass true net).2.getD root root))
    (out : Net α) (order : List Nat) (h : pruneNet net root = some (out, order)) :
    Net.checkSpn out (out.length - 1) true true true = .accept ∧
    (∀ p, p < out.length → p ∈ collect out (out.length - 1)) := by
  have S := prunePass_sol true net hw
  have hlab := exportFrom_labeled _ (sol_chLt true net _ _ S) _
    (by have := (S.basic root hr).rep_le; rw [S.lt]; omega) hK out order h
  obtain ⟨hv, _⟩ := pruneNet_valid net root hw hr hacc hleaf hnd out order h
  rw [checkSpn_flags_accept_iff] at hv
  refine ⟨?_, hlab.2⟩
  rw [checkSpn_flags_accept_iff]
  exact ⟨fun _ => hlab.1, hv.2.1, hv.2.2⟩

example : ∃ out order, pruneNet C09x.net 9 = some (out, order) ∧
    Net.checkSpn out (out.length - 1) true true true = .accept := by
  cases h : pruneNet C09x.net 9 with
  | none => exact absurd h (by decide +kernel)
  | some r =>
    refine ⟨r.1, r.2, rfl, (pruneNet_checkSpn_partial C09x.net 9 C09x.wellOrdered (by decide) C09x.accept
      C09x.leafNoCh C09x.scopesNodup ?_ r.1 r.2 h).1⟩
    intro ko hk
    have hko : ko = [7, 6, 2, 0, 1] := by
      have : kahn (prunePass true C09x.net).1 ((prunePass true C09x.net).2.getD 9 9) = some [7, 6, 2, 0, 1] := by
        decide +kernel
      rw [this] at hk; exact (Option.some.inj hk).symm
    subst hko
    have hc : collect (prunePass true C09x.net).1 ((prunePass true C09x.net).2.getD 9 9) = [7, 6, 2, 0, 1] := by
      decide +kernel
    rw [hc]
    exact ⟨by decide, fun v => Iff.rfl⟩

/-! ### fixed points and idempotence -/

/-- **C09 at DAG level, fixed point**: on a children-first table every inner entry of which has at least two
children, none of its own kind, and whose sums have one weight per child and pairwise distinct children (`NetNF`),
the pass changes nothing (`prunePass_fix`: the table is returned as it is and `nodes_map` is the identity), so `prune`
amounts to `assign_ids` + export. -/
theorem pruneNet_fix (net : Net α) (root : Nat) (hw : WellOrdered net) (hnf : NetNF net) :
    prunePass true net = (net, List.range net.length) ∧ pruneNet net root = exportFrom net root := by
  have h := prunePass_fix true net hw hnf
  refine ⟨h, ?_⟩
  unfold pruneNet pruneNetWith
  simp only [h]
  congr 1
  rw [List.getD_eq_getElem?_getD]
  rcases Nat.lt_or_ge root net.length with h1 | h1
  · rw [List.getElem?_range h1]; rfl
  · rw [List.getElem?_eq_none (by simpa using h1)]; rfl

theorem C09x.nfNet_NF : NetNF C09x.nfNet :=
  netNF_of_normalFormB C09x.nfNet 4 (by decide) (by decide) (by
    intro i x hx hk
    obtain ⟨hlt, rfl⟩ := List.getElem?_eq_some_iff.1 hx
    exact C09x.nfNet_sums ⟨i, hlt⟩ hk)

example : prunePass true C09x.nfNet = (C09x.nfNet, List.range 5) ∧
    pruneNet C09x.nfNet 4 = exportFrom C09x.nfNet 4 ∧
    C09w.view (pruneNet C09x.nfNet 4) = C09x.nfNet.map (fun x => (x.kind, x.id, x.ch, x.ws)) ∧
    C09w.origin (pruneNet C09x.nfNet 4) = List.range 5 :=
  ⟨(pruneNet_fix C09x.nfNet 4 ((wellOrderedB_iff _).1 (by decide)) C09x.nfNet_NF).1,
   (pruneNet_fix C09x.nfNet 4 ((wellOrderedB_iff _).1 (by decide)) C09x.nfNet_NF).2, by decide +kernel,
   by decide +kernel⟩

/-- the result of the repaired `prune` satisfies `NetNF` (same hypotheses as `pruneNet_normal_form`) -/
theorem pruneNet_netNF (net : Net α) (root : Nat) (hw : WellOrdered net) (hr : root < net.length)
    (hacc : Net.checkSpn net root true true true = .accept)
    (hleaf : ∀ i ∈ collect net root, ∀ x, net[i]? = some x → x.kind = .leaf → x.ch = [])
    (out : Net α) (order : List Nat) (h : pruneNet net root = some (out, order)) :
    WellOrdered out ∧ NetNF out :=
  pruneNet_netNF_of net root hw hr (fun i => i ∈ collect net root)
    (fun i hi c hc => collect_closed net root (inRange_of_wellOrdered net hw) i c hi hc)
    (root_mem_collect net root) (shapeOK_of_accept net root true hacc hleaf) out order h

example : ∃ out order, pruneNet C09x.net 9 = some (out, order) ∧ WellOrdered out ∧ NetNF out := by
  cases h : pruneNet C09x.net 9 with
  | none => exact absurd h (by decide +kernel)
  | some r =>
    exact ⟨r.1, r.2, rfl, pruneNet_netNF C09x.net 9 C09x.wellOrdered (by decide) C09x.accept C09x.leafNoCh r.1 r.2 h⟩

/-- **C09 at DAG level, idempotence** (`_partial`: up to the ids). Pruning the result of the repaired `prune` again
returns the same table with the same storage order: kinds, scopes, children, weights and leaf parameters of every entry
coincide (`sameUpToIds`), and `nodes_map` of the second run is the identity. Gap: that the ids written by the second
`assign_ids` equal those of the first needs the invariance of Kahn's order under the relabelling of the export
(`kahn_export` in `Lemmas/KahnRename.lean`, which rests on `Lemmas/KahnLemmas.lean`); the full statement
`pruneNet (prune result) = prune result` is `pruneNet_idem` in `Props/C09NetKahn.lean`. -/
theorem pruneNet_idem_partial (net : Net α) (root : Nat) (hw : WellOrdered net) (hr : root < net.length)
    (hacc : Net.checkSpn net root true true true = .accept)
    (hleaf : ∀ i ∈ collect net root, ∀ x, net[i]? = some x → x.kind = .leaf → x.ch = [])
    (out : Net α) (order : List Nat) (h : pruneNet net root = some (out, order)) :
    prunePass true out = (out, List.range out.length) ∧
    ∀ res, pruneNet out (out.length - 1) = some res → res.2 = List.range out.length ∧ sameUpToIds res.1 out := by
  obtain ⟨hwo, hnf⟩ := pruneNet_netNF net root hw hr hacc hleaf out order h
  obtain ⟨hfix, hexp⟩ := pruneNet_fix out (out.length - 1) hwo hnf
  refine ⟨hfix, ?_⟩
  intro res hres
  rw [hexp] at hres
  have S := prunePass_sol true net hw
  unfold pruneNet pruneNetWith at h
  simp only at h
  obtain ⟨ko, hk, hord, he⟩ := exportFrom_unpack _ _ _ _ h
  have hrr : (prunePass true net).2.getD root root < (prunePass true net).1.length := by
    have := (S.basic root hr).rep_le; rw [S.lt]; omega
  have := exportFrom_export (prunePass true net).1 (sol_chLt true net _ _ S) _ hrr (posIn ko) res
  simp only at this
  rw [← hord, ← he] at this
  exact ⟨(this hres).1, (this hres).2.1⟩

example : ∃ out order, pruneNet C09x.net 9 = some (out, order) ∧
    prunePass true out = (out, List.range out.length) ∧
    ∃ res, pruneNet out (out.length - 1) = some res ∧ res.2 = List.range out.length ∧ sameUpToIds res.1 out := by
  cases h : pruneNet C09x.net 9 with
  | none => exact absurd h (by decide +kernel)
  | some r =>
    have key := pruneNet_idem_partial C09x.net 9 C09x.wellOrdered (by decide) C09x.accept C09x.leafNoCh r.1 r.2 h
    refine ⟨r.1, r.2, rfl, key.1, ?_⟩
    cases h2 : pruneNet r.1 (r.1.length - 1) with
    | none =>
      exfalso
      have : (pruneNet C09x.net 9).bind (fun r => pruneNet r.1 (r.1.length - 1)) ≠ none := by decide +kernel
      rw [h] at this; exact this h2
    | some res => exact ⟨res, rfl, key.2 res h2⟩

/-- on the example the ids coincide as well: the second run returns exactly the first result -/
example : C09w.view ((pruneNet C09x.net 9).bind (fun r => pruneNet r.1 (r.1.length - 1)))
      = C09w.view (pruneNet C09x.net 9) ∧
    C09w.origin ((pruneNet C09x.net 9).bind (fun r => pruneNet r.1 (r.1.length - 1))) = List.range 5 := by
  constructor <;> decide +kernel

/-! ### independence of the iteration order -/

/-- **C09 at DAG level, order independence**: on a children-first table the pass that walks ANY duplicate-free list
`ord` of table indices in which every node comes after all its children (`ChildrenFirst`; the code's
`reversed(topological_order(root))` is one, see `childrenFirst_of_kahn`) produces, on every node of `ord`, the node
object and the `nodes_map` entry of the pass in storage order, and does not touch the others. -/
theorem prunePass_order_indep (b : Bool) (net : Net α) (hw : WellOrdered net) (ord : List Nat)
    (hcf : ChildrenFirst net ord) :
    (∀ i ∈ ord, (prunePassOrd b net ord).1[i]? = (prunePass b net).1[i]? ∧
        (prunePassOrd b net ord).2.getD i i = (prunePass b net).2.getD i i) ∧
    (∀ i, i ∉ ord → (prunePassOrd b net ord).1[i]? = net[i]? ∧ (prunePassOrd b net ord).2.getD i i = i) :=
  (prunePassOrd_agree b net hw ord hcf).2.2

example : ChildrenFirst C09x.net [9, 8, 7, 6, 2, 5, 4, 3, 0, 1].reverse ∧
    (prunePassOrd true C09x.net [9, 8, 7, 6, 2, 5, 4, 3, 0, 1].reverse).2 = (prunePass true C09x.net).2 :=
  ⟨childrenFirst_of_kahn C09x.net C09x.wellOrdered 9 (by decide) _ C09x.kahnOK, by decide +kernel⟩

/-- **`prune` as coded (`reversed(topological_order(root))`) = `prune` in storage order** — `_partial`: under the
hypothesis `KahnOrdOK` that Kahn's order lists the nodes reachable from the root exactly once and no node before one
of its parents (this is `Net.kahn_spec` of `Lemmas/KahnLemmas.lean`; hypothesis-free corollary `pruneNetKahn_eq'` in
`Props/C09NetKahn.lean`). Pinned and repaired behaviour alike. -/
theorem pruneNetKahn_eq_partial (b : Bool) (net : Net α) (hw : WellOrdered net) (root : Nat) (hr : root < net.length)
    (ko : List Nat) (hk : kahn net root = some ko) (h : KahnOrdOK net root ko) :
    pruneNetKahn b net root = pruneNetWith b net root :=
  pruneNetKahn_eq b net hw root hr ko hk h

example : pruneNetKahn true C09x.net 9 = pruneNetWith true C09x.net 9 ∧
    pruneNetKahn false C09x.net 9 = pruneNetWith false C09x.net 9 :=
  ⟨pruneNetKahn_eq_partial true C09x.net C09x.wellOrdered 9 (by decide) _ C09x.kahn_eq C09x.kahnOK,
   pruneNetKahn_eq_partial false C09x.net C09x.wellOrdered 9 (by decide) _ C09x.kahn_eq C09x.kahnOK⟩

/-- **C09 at DAG level, value, for the pass as coded** (`_partial`: same hypothesis on Kahn's order): the table
returned by `pruneNetKahn` has at its root the value the input has at `root`, for every evidence. -/
theorem pruneNetKahn_eval_partial (b : Bool) (net : Net α) (root : Nat) (hw : WellOrdered net) (hs : NetSumOK net)
    (hr : root < net.length) (ko : List Nat) (hk : kahn net root = some ko) (hko : KahnOrdOK net root ko)
    (out : Net α) (order : List Nat) (h : pruneNetKahn b net root = some (out, order)) (e : Ev) (dens : List α) :
    out.length = order.length ∧ out ≠ [] ∧
    nval e (order.map (fun i => dens.getD i 0)) out (out.length - 1) = nval e dens net root := by
  rw [pruneNetKahn_eq b net hw root hr ko hk hko] at h
  exact pruneNetWith_eval b net root hw hs hr out order h e dens

example : ∃ out order, pruneNetKahn true C09x.net 9 = some (out, order) ∧
    ∀ (e : Ev) (dens : List Rat),
      nval e (order.map (fun i => dens.getD i 0)) out (out.length - 1) = nval e dens C09x.net 9 := by
  cases h : pruneNetKahn true C09x.net 9 with
  | none => exact absurd h (by decide +kernel)
  | some r =>
    exact ⟨r.1, r.2, rfl, fun e dens =>
      (pruneNetKahn_eval_partial true C09x.net 9 C09x.wellOrdered C09x.sumOK (by decide) _ C09x.kahn_eq C09x.kahnOK
        r.1 r.2 h e dens).2.2⟩

end Deeprob
