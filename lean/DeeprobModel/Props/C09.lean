import DeeprobModel.Lemmas.RewriteLemmas
import DeeprobModel.Props.CircMarg
import Mathlib.Algebra.Ring.Rat
import Mathlib.Tactic.NormNum
set_option linter.unusedSectionVars false
set_option linter.unusedSimpArgs false
/-
C09 — pruning preserves the distribution and yields a normal form (TREE level).
Model: `Circ.prune` (Model/Rewrite.lean) mirrors structure.py `prune` bottom-up on trees.
The DAG-faithful model with sharing, merging of coinciding children and `assign_ids` is
`pruneNet` (Model/RewriteNet.lean); its theorems are in Props/C09Net.lean.
-/
namespace Deeprob
namespace Circ

/-! ### a concrete circuit used by the non-vacuity examples
`P[0,1]( S[0]{½,½}( S[0]{1}(B₀), B₀' ), P[1]( P[1](B₁) ) )`: a single-child sum under a sum, a chain of
single-child products. -/
namespace C09ex
def dom : Nat → Nat := fun _ => 2
def l0 : Circ Rat := catLeaf 0 [1/2, 1/2]
def l0' : Circ Rat := catLeaf 0 [1/4, 3/4]
def l1 : Circ Rat := catLeaf 1 [1/3, 2/3]
def c : Circ Rat :=
  .prod [0, 1] [ .sum [0] [1/2, 1/2] [ .sum [0] [1] [l0], l0' ], .prod [1] [ .prod [1] [l1] ] ]
/-- what `prune` makes of it -/
def pruned : Circ Rat := .prod [0, 1] [ .sum [0] [1/2, 1/2] [l0, l0'], l1 ]

theorem valid_leaf (v : Nat) (tbl : List Rat) (hl : tbl.length = 2) (hs : tsum tbl = 1) :
    Valid dom (catLeaf v tbl) := by
  unfold catLeaf Valid; exact catLeaf_ok dom v tbl hl hs

@[simp] theorem scope_l0 : scope l0 = [0] := rfl
@[simp] theorem scope_l0' : scope l0' = [0] := rfl
@[simp] theorem scope_l1 : scope l1 = [1] := rfl
theorem valid_l0 : Valid dom l0 := valid_leaf 0 _ rfl (by norm_num [tsum])
theorem valid_l0' : Valid dom l0' := valid_leaf 0 _ rfl (by norm_num [tsum])
theorem valid_l1 : Valid dom l1 := valid_leaf 1 _ rfl (by norm_num [tsum])

theorem valid_c : Valid dom c := by
  simp [c, Valid, scopeEq, valid_l0, valid_l0', valid_l1]

theorem normW_c : NormW c := by
  have h0 : NormW l0 := by simp [l0, catLeaf, NormW]
  have h0' : NormW l0' := by simp [l0', catLeaf, NormW]
  have h1 : NormW l1 := by simp [l1, catLeaf, NormW]
  simp only [c, NormW, List.forall_mem_cons, List.not_mem_nil, false_imp_iff, implies_true, and_true, h0, h0', h1]
  norm_num [tsum]

theorem leafNorm_c : LeafNorm dom c := by
  simp [c, LeafNorm, l0, l0', l1, catLeaf, catLeafFn]

theorem scopesNodup_c : ScopesNodup c := by
  simp [c, ScopesNodup, l0, l0', l1, catLeaf]

theorem prodNE_c : ProdNE c := by
  simp [c, ProdNE, l0, l0', l1, catLeaf]

theorem prune_c : prune c = pruned := by
  simp [c, pruned, prune, rwSum, rwProd, absorbSum, absorbProd, sumKids, prodKids, l0, l0', l1, catLeaf]
end C09ex

variable {α : Type} [CommSemiring α]

/-! ### same likelihood for every (complete or partial) evidence -/

/-- **pruning preserves the value** under every evidence `e` (complete or with missing entries).
Only hypothesis: a sum node with a single child carries the weight list `[1]`. -/
theorem prune_preserves_eval : (c : Circ α) → UnitSingle c → ∀ e, eval e (prune c) = eval e c
  | leaf s f, _, e => by simp [prune]
  | sum s ws cs, h, e => by
      unfold UnitSingle at h
      rw [prune, eval_mkSum e s ws _ (by simpa using h.1), eval, List.map_map]
      congr 1
      apply List.map_congr_left; intro c hc
      exact prune_preserves_eval c (h.2 c hc) e
  | prod s cs, h, e => by
      unfold UnitSingle at h
      rw [prune, eval_mkProd, eval, List.map_map]
      congr 1
      apply List.map_congr_left; intro c hc
      exact prune_preserves_eval c (h c hc) e

/-- the same for valid circuits whose sum weights sum to one (what `Sum.__init__` enforces) -/
theorem prune_preserves_eval_valid (dom : Nat → Nat) (c : Circ α) (hv : Valid dom c) (hn : NormW c) (e : Ev) :
    eval e (prune c) = eval e c :=
  prune_preserves_eval c (unitSingle_of_normW c (lenOK_of_valid dom c hv) hn) e

example : ∀ e, eval e (prune C09ex.c) = eval e C09ex.c :=
  prune_preserves_eval_valid C09ex.dom _ C09ex.valid_c C09ex.normW_c

/-- the hypothesis cannot be dropped: a one-child sum with weight 2 changes value -/
example : eval (fun _ => none) (prune (.sum [0] [2] [C09ex.l0])) ≠ eval (fun _ => none) (.sum [0] [2] [C09ex.l0] : Circ Rat) := by
  simp [prune, rwSum, eval, wsum, C09ex.l0, catLeaf, catLeafFn]

/-! ### the result is a valid circuit over the same variables -/

theorem prune_valid (dom : Nat → Nat) (c : Circ α) (hv : Valid dom c) (hd : ScopesNodup c) :
    Valid dom (prune c) := (prune_ok dom c hv hd).1

theorem prune_scopesNodup (dom : Nat → Nat) (c : Circ α) (hv : Valid dom c) (hd : ScopesNodup c) :
    ScopesNodup (prune c) := (prune_ok dom c hv hd).2.1

theorem prune_scope (dom : Nat → Nat) (c : Circ α) (hv : Valid dom c) (hd : ScopesNodup c) :
    scopeEq (scope (prune c)) (scope c) := (prune_ok dom c hv hd).2.2

/-- weights still sum to one at every sum, leaves still have total mass one -/
theorem prune_normalised (dom : Nat → Nat) (c : Circ α) (hv : Valid dom c) (hn : NormW c) (hl : LeafNorm dom c) :
    NormW (prune c) ∧ LeafNorm dom (prune c) :=
  (prune_norm dom c (lenOK_of_valid dom c hv) hn hl).2

example : Valid C09ex.dom (prune C09ex.c) ∧ ScopesNodup (prune C09ex.c) ∧
    scopeEq (scope (prune C09ex.c)) [0, 1] ∧ NormW (prune C09ex.c) ∧ LeafNorm C09ex.dom (prune C09ex.c) :=
  ⟨prune_valid _ _ C09ex.valid_c C09ex.scopesNodup_c, prune_scopesNodup _ _ C09ex.valid_c C09ex.scopesNodup_c,
   prune_scope _ _ C09ex.valid_c C09ex.scopesNodup_c,
   prune_normalised _ _ C09ex.valid_c C09ex.normW_c C09ex.leafNorm_c⟩

/-- the duplicate-free-scope hypothesis (`Node.__init__` enforces it) cannot be dropped: `Valid`
compares scopes as sets, so a one-child sum may hide a child whose scope *list* repeats a variable -/
example : ∃ c : Circ Rat, (∀ dom, Valid dom c → ¬ Valid dom (prune c)) ∧ ¬ ScopesNodup c :=
  ⟨.prod [0, 1] [.sum [0] [1] [.leaf [0, 0] (fun _ => 1)], .leaf [1] (fun _ => 1)], by
    intro dom _ h
    simp [prune, rwSum, rwProd, absorbProd, prodKids, Valid, scope] at h, by
    simp [ScopesNodup]⟩

/-! ### normal form, fixed point, idempotence -/

/-- **normal form** of the result, from the structural part of `check_spn` alone -/
theorem prune_normal_form_of_shape (c : Circ α) (h : Shape c) : NormalForm (prune c) :=
  (prune_shape_nf c h).2

/-- **normal form**: after pruning no inner node has fewer than two children, no sum is a child of a
sum, no product a child of a product. (`ProdNE`: every product has a child — `Valid` alone accepts the
empty product over the empty scope, `is_decomposable` does not.) -/
theorem prune_normal_form (dom : Nat → Nat) (c : Circ α) (hv : Valid dom c) (hp : ProdNE c) :
    NormalForm (prune c) :=
  prune_normal_form_of_shape c (shape_of_valid dom c hv hp)

example : NormalForm (prune C09ex.c) ∧ ¬ NormalForm C09ex.c :=
  ⟨prune_normal_form _ _ C09ex.valid_c C09ex.prodNE_c, by simp [C09ex.c, NormalForm]⟩

/-- `ProdNE` cannot be dropped: an empty product child is absorbed and leaves a one-child product -/
example : ∃ c : Circ Rat, Valid C09ex.dom c ∧ ¬ NormalForm (prune c) :=
  ⟨.prod [0] [C09ex.l0, .prod [] []], by
    simp [Valid, scopeEq, C09ex.valid_l0], by
    simp [prune, rwProd, absorbProd, prodKids, C09ex.l0, catLeaf, NormalForm]⟩

/-- **a circuit in normal form is a fixed point** of `prune` (on trees: literally equal) -/
theorem prune_fix_tree (c : Circ α) (hn : NormalForm c) (hl : LenOK c) : prune c = c := prune_fix c hn hl

example : prune C09ex.pruned = C09ex.pruned :=
  prune_fix_tree _ (by simp [C09ex.pruned, NormalForm, isSum, isProd, C09ex.l0, C09ex.l0', C09ex.l1, catLeaf])
    (by simp [C09ex.pruned, LenOK, C09ex.l0, C09ex.l0', C09ex.l1, catLeaf])

/-- **pruning again changes nothing** -/
theorem prune_idem_of_shape (c : Circ α) (h : Shape c) : prune (prune c) = prune c :=
  prune_fix _ (prune_shape_nf c h).2 (lenOK_of_shape _ (prune_shape_nf c h).1)

theorem prune_idem (dom : Nat → Nat) (c : Circ α) (hv : Valid dom c) (hp : ProdNE c) :
    prune (prune c) = prune c :=
  prune_idem_of_shape c (shape_of_valid dom c hv hp)

example : prune (prune C09ex.c) = prune C09ex.c ∧ prune C09ex.c ≠ C09ex.c :=
  ⟨prune_idem _ _ C09ex.valid_c C09ex.prodNE_c, by rw [C09ex.prune_c]; simp [C09ex.c, C09ex.pruned, C09ex.l0, C09ex.l1, catLeaf]⟩

end Circ
end Deeprob
