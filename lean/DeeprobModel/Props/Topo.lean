import DeeprobModel.Lemmas.KahnLemmas
import DeeprobModel.Props.C03
import DeeprobModel.Props.C06Net
import DeeprobModel.Props.C08WellOrdered
set_option linter.unusedSimpArgs false
set_option linter.unusedVariables false
set_option linter.unusedSectionVars false
/-
Topological orders of /repo/deeprob/spn/structure/node.py as the code computes them:
`topological_order` (`Net.kahn`, Model/RewriteNet.lean), `topological_order_layered` (`Sched.layers`,
Model/Sched.lean) and `assign_ids` (`Net.assignIds`, Model/AssignIds.lean).

On a children-first table (`WellOrdered`: every child is stored before its parents — what the exporter
produces and the driver re-checks; it implies acyclicity):
  1. `kahn_some`            Kahn never reports a cycle;
  2. `kahn_perm_collect`    the ordering lists every reachable node exactly once, root first;
  3. `kahn_topological`, `kahn_topoOrd`, `mpeNet_kahn_refines`
                            parents strictly before children; hence the top-down MPE pass run in the code's own
                            order computes `mpeDescent` of the unfolding (closes the gap noted for C06);
  4. `layers_some`, `layers_flatten_topological`, `mpeNet_layers_refines`
                            the layered variant never fails and its concatenation is a topological order;
  5. `assignIds_labeled`    `assign_ids` produces a labelling accepted by `is_labeled`, root id 0,
                            structure untouched.
`kahn_sound` needs NO acyclicity assumption: whatever table (children in range) — if the code returns an
ordering, it is a topological order of exactly the reachable nodes.

Witnesses: `C06.exNet` (9 nodes, root 8, node 4 and the leaves 0, 1, 2 shared). Its Kahn order
`8,5,6,7,3,4,0,1,2` differs from reverse storage order `8,7,…,0` AND from BFS order `8,5,6,7,0,4,3,1,2`;
`Sched.exNet` is the plain diamond 3 → 1, 2 → 0.
-/
namespace Deeprob
namespace Topo
open Net Sched List TCirc C06

section general
variable {α : Type} [CommSemiring α]

/-! ## 1. Kahn never reports a cycle on an acyclic table -/

/-- **`kahn_some`.** On a children-first table `topological_order(root)` returns an ordering (never
`None`), for every root row. -/
theorem kahn_some (net : Net α) (root : Nat) (hw : WellOrdered net) (hr : root < net.length) :
    ∃ ord, kahn net root = some ord :=
  kahn_some_of net root (chLt_of_wellOrdered net hw)

example : ∃ ord, kahn C06.exNet 8 = some ord := kahn_some C06.exNet 8 C06.exNet_wo (by simp [C06.exNet])

/-- the order the code uses on the witness: neither reverse storage order nor BFS order -/
example : kahn C06.exNet 8 = some [8, 5, 6, 7, 3, 4, 0, 1, 2] ∧
    [8, 5, 6, 7, 3, 4, 0, 1, 2] ≠ (List.range C06.exNet.length).reverse ∧
    [8, 5, 6, 7, 3, 4, 0, 1, 2] ≠ collect C06.exNet 8 :=
  ⟨by decide +kernel, by decide, by decide +kernel⟩

/-- the rejection branches of the model are reachable: a two-node cycle and a self loop are reported -/
example : kahn ([⟨0, .prod, [0], [1], [], .absent⟩, ⟨1, .prod, [0], [0], [], .absent⟩] : Net Nat) 1 = none ∧
    kahn ([⟨0, .leaf, [0], [], [], .absent⟩, ⟨1, .prod, [0], [2], [], .absent⟩, ⟨2, .prod, [0], [1, 0], [], .absent⟩,
      ⟨3, .prod, [0], [2], [], .absent⟩] : Net Nat) 3 = none := ⟨by decide +kernel, by decide +kernel⟩

/-! ## 2. every reachable node exactly once, root first -/

/-- **`kahn_sound`** (no acyclicity assumption; children reference table rows): an ordering returned by
`topological_order(root)` is duplicate-free, lists exactly the nodes of `collect_nodes(root)`, starts with
the root, and every child of a listed node is listed strictly later. In particular a returned ordering
certifies that the reachable part is acyclic. -/
theorem kahn_sound {β : Type} (net : Net β) (root : Nat) (hin : ∀ a, ∀ c ∈ chOf net a, c < net.length)
    (ord : List Nat) (hk : kahn net root = some ord) :
    ord.Nodup ∧ (∀ v, v ∈ ord ↔ v ∈ collect net root) ∧ ord.head? = some root ∧
      ∀ p ∈ ord, ∀ c ∈ chOf net p, c ∈ ord ∧ ord.idxOf p < ord.idxOf c := by
  obtain ⟨hnd, hmem, hhead, hnb, hns⟩ := kahn_spec net root hin ord hk
  have hR := reachOK_of_inRange net root hin
  have hcl : ∀ p ∈ ord, ∀ c ∈ chOf net p, c ∈ ord :=
    fun p hp c hc => (hmem c).2 (hR.closed p ((hmem p).1 hp) c hc)
  exact ⟨hnd, hmem, hhead, fun p hp c hc => ⟨hcl p hp c hc, idx_lt_of_noBack net ord hcl hnb hns p c hp hc⟩⟩

/-- a table that is NOT stored children-first (root in row 0, shared leaf in row 3) -/
example : ∃ ord, kahn ([⟨0, .sum, [0], [2, 1], [1, 1], .absent⟩, ⟨1, .prod, [0], [3], [], .absent⟩,
      ⟨2, .prod, [0], [3], [], .absent⟩, ⟨3, .leaf, [0], [], [], .absent⟩] : Net Nat) 0 = some ord ∧ ord = [0, 2, 1, 3] :=
  ⟨_, by decide +kernel, rfl⟩

/-- **`kahn_perm_collect`.** The ordering is a permutation of `collect_nodes(root)` (every reachable node
exactly once) and its first element is the root. -/
theorem kahn_perm_collect (net : Net α) (root : Nat) (hw : WellOrdered net) (hr : root < net.length)
    (ord : List Nat) (hk : kahn net root = some ord) :
    ord.Perm (collect net root) ∧ ord.Nodup ∧ ord.head? = some root := by
  obtain ⟨hnd, hmem, hhead, _⟩ := kahn_spec net root (inRange_of_chLt net (chLt_of_wellOrdered net hw)) ord hk
  exact ⟨(perm_ext_iff_of_nodup hnd (collect_nodup net root)).2 hmem, hnd, hhead⟩

example : [8, 5, 6, 7, 3, 4, 0, 1, 2].Perm (collect C06.exNet 8) :=
  (kahn_perm_collect C06.exNet 8 C06.exNet_wo (by simp [C06.exNet]) _ (by decide +kernel)).1

/-! ## 3. parents before children; MPE in the code's own order -/

/-- **`kahn_topological`.** Every child of a listed node is listed, at a strictly larger position. -/
theorem kahn_topological (net : Net α) (root : Nat) (hw : WellOrdered net) (hr : root < net.length)
    (ord : List Nat) (hk : kahn net root = some ord) :
    ∀ p ∈ ord, ∀ c ∈ chOf net p, c ∈ ord ∧ ord.idxOf p < ord.idxOf c :=
  (kahn_sound net root (inRange_of_chLt net (chLt_of_wellOrdered net hw)) ord hk).2.2.2

/-- node 5 (position 1) → shared node 4 (position 5); node 6 (position 2) → the same node 4 -/
example : [8, 5, 6, 7, 3, 4, 0, 1, 2].idxOf 5 < [8, 5, 6, 7, 3, 4, 0, 1, 2].idxOf 4 ∧
    [8, 5, 6, 7, 3, 4, 0, 1, 2].idxOf 6 < [8, 5, 6, 7, 3, 4, 0, 1, 2].idxOf 4 :=
  have h := kahn_topological C06.exNet 8 C06.exNet_wo (by simp [C06.exNet]) _ (by decide +kernel)
  ⟨(h 5 (by simp) 4 (by simp [chOf, C06.exNet, prd])).2, (h 6 (by simp) 4 (by simp [chOf, C06.exNet, prd])).2⟩

end general

section mpe
variable {α : Type} [CommSemiring α] [LinearOrder α]

/-- **`kahn_topoOrd`.** The ordering satisfies `TopoOrd` — exactly the hypothesis of `C06.mpeNetOrd_refines`. -/
theorem kahn_topoOrd (net : Net α) (root : Nat) (hw : WellOrdered net) (hr : root < net.length)
    (ord : List Nat) (hk : kahn net root = some ord) : TopoOrd net ord ∧ root ∈ ord := by
  have hwo := chLt_of_wellOrdered net hw
  have hin := inRange_of_chLt net hwo
  obtain ⟨hnd, hmem, hhead, hnb, hns⟩ := kahn_spec net root hin ord hk
  have hR := reachOK_of_inRange net root hin
  refine ⟨topoOrd_of_noBack net ord hnd ?_ ?_ hnb hns, (hmem root).2 hR.root_mem⟩
  · intro v hv
    exact lt_of_le_of_lt (collect_le_root net root hwo v ((hmem v).1 hv)) hr
  · exact fun p hp c hc => (hmem c).2 (hR.closed p ((hmem p).1 hp) c hc)

example : TopoOrd C06.exNet [8, 5, 6, 7, 3, 4, 0, 1, 2] :=
  (kahn_topoOrd C06.exNet 8 C06.exNet_wo (by simp [C06.exNet]) _ (by decide +kernel)).1

/-- **`mpeNet_kahn_refines`.** The top-down MPE pass over the stored table, visiting the nodes in the order
the code itself computes (`topological_order(root)`), exists (no "not a DAG" failure) and returns the
tree-level descent `mpeDescent` of the unfolding of the root. -/
theorem mpeNet_kahn_refines (dom : Nat → Nat) (net : Net α) (dens : List α) (isBern : Nat → Bool)
    (hw : WellOrdered net) (hok : ∀ i (x : NNode α), net[i]? = some x → NodeOK dom net dens i x)
    (root : Nat) (hr : root < net.length) (e : Ev) :
    ∃ ord, kahn net root = some ord ∧
      (mpeNetOrd ord e dens net root isBern).row = mpeDescent e (toTTree net dens isBern (root+1) root) := by
  obtain ⟨ord, hk⟩ := kahn_some net root hw hr
  obtain ⟨hto, hroot⟩ := kahn_topoOrd net root hw hr ord hk
  exact ⟨ord, hk, mpeNetOrd_refines dom net dens isBern hw hok ord hto root hroot e⟩

/-- the same, as an equation with the pass in reverse storage order used by the driver (`mpeNet`) -/
theorem mpeNet_kahn_eq_mpeNet (dom : Nat → Nat) (net : Net α) (dens : List α) (isBern : Nat → Bool)
    (hw : WellOrdered net) (hok : ∀ i (x : NNode α), net[i]? = some x → NodeOK dom net dens i x)
    (root : Nat) (hr : root < net.length) (e : Ev) (ord : List Nat) (hk : kahn net root = some ord) :
    (mpeNetOrd ord e dens net root isBern).row = mpeNet e dens net root isBern := by
  obtain ⟨hto, hroot⟩ := kahn_topoOrd net root hw hr ord hk
  rw [mpeNetOrd_refines dom net dens isBern hw hok ord hto root hroot e,
    mpeNet_refines dom net dens isBern hw hok root hr e]

example : ∃ ord, kahn C06.exNet 8 = some ord ∧
    (mpeNetOrd ord exE [] C06.exNet 8 exBern).row = mpeDescent exE (toTTree C06.exNet [] exBern 9 8) :=
  mpeNet_kahn_refines exDom C06.exNet [] exBern exNet_wo exNet_ok 8 (by simp [C06.exNet]) exE

example : (mpeNetOrd [8, 5, 6, 7, 3, 4, 0, 1, 2] exE [] C06.exNet 8 exBern).row = mpeNet exE [] C06.exNet 8 exBern :=
  mpeNet_kahn_eq_mpeNet exDom C06.exNet [] exBern exNet_wo exNet_ok 8 (by simp [C06.exNet]) exE _ (by decide +kernel)

end mpe

/-! ## 4. the layered order -/

section layered
variable {α : Type} [CommSemiring α]

/-- **`layers_some`.** On a children-first table `topological_order_layered(root)` returns layers (never
`None`): the fuel of the model is never exhausted and the final counter test passes. -/
theorem layers_some (net : Net α) (root : Nat) (hw : WellOrdered net) : Sched.layers net root ≠ none := by
  obtain ⟨L, hL⟩ := layers_some_of net root (chLt_of_wellOrdered net hw)
  rw [hL]; exact Option.some_ne_none L

theorem layers_some' (net : Net α) (root : Nat) (hw : WellOrdered net) : ∃ L, Sched.layers net root = some L :=
  layers_some_of net root (chLt_of_wellOrdered net hw)

example : Sched.layers C06.exNet 8 ≠ none := layers_some C06.exNet 8 C06.exNet_wo
example : Sched.layers C06.exNet 8 = some [[8], [5, 6, 7], [3, 4, 0], [1, 2]] := by decide +kernel
example : Sched.layers Sched.exNet 3 ≠ none :=
  layers_some Sched.exNet 3 ((wellOrderedB_iff _).1 (by decide))

/-- **`layers_flatten_topological`** (positions). The concatenation of the layers lists every reachable
node exactly once and every child strictly after each of its parents. (That parents lie in strictly
EARLIER LAYERS is `Sched.layers_edge_lt_wo`.) -/
theorem layers_flatten_topological (net : Net α) (root : Nat) (hw : WellOrdered net)
    (L : List (List Nat)) (h : Sched.layers net root = some L) :
    L.flatten.Perm (collect net root) ∧
      ∀ p ∈ L.flatten, ∀ c ∈ chOf net p, c ∈ L.flatten ∧ L.flatten.idxOf p < L.flatten.idxOf c := by
  have hR := reachOK_of_wellOrdered net root hw
  obtain ⟨hnd, hmem, hnb⟩ := layers_spec net root L h hR
  obtain ⟨hpw, hns⟩ := noBack_flatten net L hnb
  have hcl : ∀ p ∈ L.flatten, ∀ c ∈ chOf net p, c ∈ L.flatten :=
    fun p hp c hc => (hmem c).2 (hR.closed p ((hmem p).1 hp) c hc)
  exact ⟨(perm_ext_iff_of_nodup hnd (collect_nodup net root)).2 hmem,
    fun p hp c hc => ⟨hcl p hp c hc, idx_lt_of_noBack net _ hcl hpw hns p c hp hc⟩⟩

example : [8, 5, 6, 7, 3, 4, 0, 1, 2].Perm (collect C06.exNet 8) :=
  (layers_flatten_topological C06.exNet 8 C06.exNet_wo [[8], [5, 6, 7], [3, 4, 0], [1, 2]] (by decide +kernel)).1

end layered

section layeredMpe
variable {α : Type} [CommSemiring α] [LinearOrder α]

/-- **`layers_flatten_topoOrd`.** The concatenation of the layers satisfies `TopoOrd`. -/
theorem layers_flatten_topoOrd (net : Net α) (root : Nat) (hw : WellOrdered net) (hr : root < net.length)
    (L : List (List Nat)) (h : Sched.layers net root = some L) : TopoOrd net L.flatten ∧ root ∈ L.flatten := by
  have hwo := chLt_of_wellOrdered net hw
  have hR := reachOK_of_wellOrdered net root hw
  obtain ⟨hnd, hmem, hnb⟩ := layers_spec net root L h hR
  obtain ⟨hpw, hns⟩ := noBack_flatten net L hnb
  refine ⟨topoOrd_of_noBack net _ hnd ?_ ?_ hpw hns, (hmem root).2 hR.root_mem⟩
  · intro v hv
    exact lt_of_le_of_lt (collect_le_root net root hwo v ((hmem v).1 hv)) hr
  · exact fun p hp c hc => (hmem c).2 (hR.closed p ((hmem p).1 hp) c hc)

/-- **`mpeNet_layers_refines`.** The top-down pass executed layer by layer (the sequential reading of the
layer-parallel `eval_top_down`; within a layer C08 gives schedule independence) computes `mpeDescent` of
the unfolding. -/
theorem mpeNet_layers_refines (dom : Nat → Nat) (net : Net α) (dens : List α) (isBern : Nat → Bool)
    (hw : WellOrdered net) (hok : ∀ i (x : NNode α), net[i]? = some x → NodeOK dom net dens i x)
    (root : Nat) (hr : root < net.length) (e : Ev) :
    ∃ L, Sched.layers net root = some L ∧
      (mpeNetOrd L.flatten e dens net root isBern).row = mpeDescent e (toTTree net dens isBern (root+1) root) := by
  obtain ⟨L, hL⟩ := layers_some' net root hw
  obtain ⟨hto, hroot⟩ := layers_flatten_topoOrd net root hw hr L hL
  exact ⟨L, hL, mpeNetOrd_refines dom net dens isBern hw hok _ hto root hroot e⟩

example : TopoOrd C06.exNet [[8], [5, 6, 7], [3, 4, 0], [1, 2]].flatten :=
  (layers_flatten_topoOrd C06.exNet 8 C06.exNet_wo (by simp [C06.exNet]) _ (by decide +kernel)).1

example : ∃ L, Sched.layers C06.exNet 8 = some L ∧
    (mpeNetOrd L.flatten exE [] C06.exNet 8 exBern).row = mpeDescent exE (toTTree C06.exNet [] exBern 9 8) :=
  mpeNet_layers_refines exDom C06.exNet [] exBern exNet_wo exNet_ok 8 (by simp [C06.exNet]) exE

end layeredMpe

/-! ## 5. `assign_ids` -/

section ids
variable {α : Type} [CommSemiring α]

/-- **`assignIds_labeled`.** On a children-first table `assign_ids(root)` does not raise; afterwards
`is_labeled` accepts the node list of the root (`Net.isLabeled … = none`: ids of the reachable nodes are
exactly `0 .. n-1`), the root has id 0, the id of every reachable node is its position in
`topological_order(root)`, and neither the table length nor any children list changed. -/
theorem assignIds_labeled (net : Net α) (root : Nat) (hw : WellOrdered net) (hr : root < net.length) :
    ∃ net' ord, assignIds net root = some net' ∧ kahn net root = some ord ∧
      Net.isLabeled net' (collect net' root) = none ∧
      idOf net' root = 0 ∧
      (∀ v ∈ collect net root, idOf net' v = ord.idxOf v) ∧
      net'.length = net.length ∧ (∀ i, chOf net' i = chOf net i) ∧ collect net' root = collect net root := by
  have hwo := chLt_of_wellOrdered net hw
  have hin := inRange_of_chLt net hwo
  obtain ⟨ord, hk⟩ := kahn_some net root hw hr
  obtain ⟨hnd, hmem, hhead, _, _⟩ := kahn_spec net root hin ord hk
  have hlt : ∀ v ∈ ord, v < net.length := fun v hv =>
    lt_of_le_of_lt (collect_le_root net root hwo v ((hmem v).1 hv)) hr
  have hid : ∀ v ∈ collect net root, idOf (relabel net ord) v = ord.idxOf v :=
    fun v hv => idOf_relabel net ord v (hlt v ((hmem v).2 hv)) ((hmem v).2 hv)
  refine ⟨relabel net ord, ord, by unfold assignIds; rw [hk]; rfl, hk, ?_, ?_, hid, relabel_length net ord,
    chOf_relabel net ord, collect_relabel net ord root⟩
  · exact (isLabeled_iff_perm _ _).2 (relabel_ids_perm net root ord hnd hmem hlt)
  · rw [hid root (root_mem_collect net root)]
    obtain ⟨rest, rfl⟩ : ∃ rest, ord = root :: rest := by
      cases ord with
      | nil => simp at hhead
      | cons a rest => simp at hhead; exact ⟨rest, by rw [hhead]⟩
    simp

/-- the witness carries storage indices as ids (`8` at the root); after `assign_ids` the ids are the
positions in the Kahn order `8,5,6,7,3,4,0,1,2` -/
example : C06.exNet.map (·.id) = [0, 1, 2, 3, 4, 5, 6, 7, 8] ∧
    ∃ net', assignIds C06.exNet 8 = some net' ∧ Net.isLabeled net' (collect net' 8) = none ∧
      net'.map (·.id) = [6, 7, 8, 4, 5, 1, 2, 3, 0] := by
  refine ⟨by decide +kernel, ?_⟩
  obtain ⟨net', ord, h1, h2, h3, _⟩ := assignIds_labeled C06.exNet 8 C06.exNet_wo (by simp [C06.exNet])
  refine ⟨net', h1, h3, ?_⟩
  have hk : kahn C06.exNet 8 = some [8, 5, 6, 7, 3, 4, 0, 1, 2] := by decide +kernel
  unfold assignIds at h1
  rw [hk] at h1
  simp only [Option.map_some, Option.some.injEq] at h1
  rw [← h1]
  decide +kernel

/-- a table whose ids are rejected by `is_labeled` (shared leaf and root both carry id 0) is repaired -/
example : Net.isLabeled C03.badIdNet (collect C03.badIdNet 5) = some "repeated" ∧
    ∃ net', assignIds C03.badIdNet 5 = some net' ∧ Net.isLabeled net' (collect net' 5) = none ∧ idOf net' 5 = 0 := by
  refine ⟨by decide +kernel, ?_⟩
  obtain ⟨net', ord, h1, _, h3, h4, _⟩ :=
    assignIds_labeled C03.badIdNet 5 ((wellOrderedB_iff _).1 (by decide)) (by simp [C03.badIdNet])
  exact ⟨net', h1, h3, h4⟩

end ids

end Topo
end Deeprob
