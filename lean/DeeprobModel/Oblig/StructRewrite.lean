import DeeprobModel.Oblig.StructPy
import DeeprobModel.Model.Rewrite
import DeeprobModel.Model.RewriteNet
import DeeprobModel.Props.C10
/-
Static tie of `Model/Rewrite.lean` (`margGuard`) and `Model/RewriteNet.lean` (`single?`, `singleKey?`, `pruneStep`) to
/repo/deeprob/spn/algorithms/structure.py (`prune`, `marginalize`) — C09, C10.
-/
set_option linter.unusedSimpArgs false
set_option linter.unusedTactic false
set_option linter.unreachableTactic false
namespace Deeprob.Oblig.StructRewrite
open Deeprob Deeprob.Net Deeprob.Oblig.StructPy

/-- `len(children_nodes) == 1 → nodes_map[node.id] = children_nodes[0]` is the model's `single?` -/
theorem single_as_coded (l : List Nat) : single? l = Gen.pruneSingleChild l := by
  unfold Gen.pruneSingleChild
  match l with
  | [] => rfl
  | [c] => rfl
  | a :: b :: r => simp [single?]; omega

/-- **the single-child collapse AFTER merging** (`children, weights = zip(*children_weights.items())`,
`if len(children) == 1: nodes_map[node.id] = children[0]; continue`, F7) is the model's `singleKey?` on the merged
dictionary, taken before the node is rewritten; `pruneNet` is the model with that collapse -/
theorem merged_single_as_coded {α : Type} (acc : List (Nat × α)) :
    singleKey? acc = Gen.pruneMergedSingle (acc.map Prod.fst) ∧ Gen.pruneMergedSingleSkipsRewrite = true := by
  refine ⟨?_, by decide⟩
  unfold Gen.pruneMergedSingle
  match acc with
  | [] => rfl
  | [p] => rfl
  | a :: b :: r => simp [singleKey?]; omega

theorem pruneNet_is_repaired {α : Type} [Zero α] [Add α] [Mul α] (net : Net α) (root : Nat) :
    pruneNet net root = pruneNetWith true net root := rfl

/-- the collapse is used by `pruneStep true` exactly where the code has it: a sum whose retrieved children are not a
single node but whose merged children are -/
theorem pruneStep_uses_collapse {α : Type} [Zero α] [Add α] [Mul α] (t : Net α) (rep : List Nat) (i : Nat) (x : NNode α)
    (hk : x.kind = .sum) (h1 : Gen.pruneSingleChild (x.ch.map (fun c => rep.getD c c)) = none) (g : Nat)
    (h2 : Gen.pruneMergedSingle ((sumAcc t rep x).map Prod.fst) = some g) :
    pruneStep true t rep i x = (x, g) := by
  rw [← single_as_coded] at h1
  rw [← (merged_single_as_coded _).1] at h2
  simp only [pruneStep, hk, h1, h2, if_true]

def margTag : Nat → String
  | 0 => "empty" | 1 => "duplicates" | _ => "subset"

/-- **the three argument guards of `marginalize`, in their order**: empty `keep_scope`, duplicates
(`len(keep_scope) != len(set(keep_scope))`), not a subset of the root scope -/
theorem margGuard_as_coded (keep scope : List Nat) :
    margGuard keep scope = (Gen.margGuardChain keep scope).map margTag := by
  unfold margGuard Gen.margGuardChain
  have hd := (dedup_length_eq_iff keep).trans (nodupNatB_iff keep).symm
  have hle := dedup_length_le keep
  simp only []
  generalize (Gen.Py.dedup keep).length = a at *
  generalize keep.all (fun v => scope.contains v) = q
  cases hN : nodupNatB keep <;> simp only [hN, Bool.false_eq_true, iff_false, iff_true] at hd <;>
    cases q <;> cases hE : keep.isEmpty <;> close_chain margTag

end Deeprob.Oblig.StructRewrite
