import DeeprobModel.Generated.Consts
import Mathlib.Tactic.NormNum
/-
Obligations about constants extracted from the current /repo source (C07).
-/
namespace Deeprob.Oblig

/-- `sum_sample` adds i.i.d. *standard right-skewed* Gumbel noise to `log wᵢ + log Lᵢ` before the
arg-max: with the Gumbel-max identity (trusted, DESIGN §4.6) the chosen branch is a draw from
Categorical(wᵢ·Lᵢ / Σⱼ wⱼ·Lⱼ), the branch law `branchPmf` of `topDownPmf`. A left-skewed law
(`gumbel_l`) does not have this property. -/
theorem sum_sample_noise_is_standard_gumbel_r :
    Gen.sumSampleNoise = "gumbel_r" ∧ Gen.sumSampleNoiseLoc = 0 ∧ Gen.sumSampleNoiseScale = 1 := by
  refine ⟨by decide, ?_, ?_⟩ <;> (first | rfl | (unfold Gen.sumSampleNoiseLoc; norm_num) | (unfold Gen.sumSampleNoiseScale; norm_num))

end Deeprob.Oblig
