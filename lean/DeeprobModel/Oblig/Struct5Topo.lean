import DeeprobModel.Generated.Consts
import DeeprobModel.Model.TopoLoop
import DeeprobModel.Lemmas.KahnLemmas
set_option linter.unusedSimpArgs false
set_option linter.unusedVariables false
set_option linter.unusedSectionVars false
/-
Obligations about the loops of `topological_order` and `topological_order_layered` (structure/node.py) as EXTRACTED from the
source (`Gen.S5topoInit / RootGuard / Step / Result`, `Gen.S5layeredInit / RootGuard / Step / Result`, written by
tools/listprog.py on every run):

* `topoInit_as_coded`, `layeredInit_as_coded` : the extracted counting prologue computes the in-degree table of the model
  (`Sched.indeg`; as a list of naturals: `Net.kahnCounts`, `rel_init`);
* `topoStep_as_coded` : one iteration of the extracted `while queue:` loop IS one step of the modelled Kahn machine `kahnStepM`
  (= the body of `Net.kahnLoop`: `kahnLoop_eq_run`) — same queue, same ordering, and the integer counters of the code and the
  truncated natural counters of the model stay related by `Rel` (`model = max(code, 0)`; no hypothesis on the table);
* `topoRun_counts` : the integer counters of the code are `initial − (edges of the nodes listed so far)`;
* `layeredStep_as_coded`, `genLayersGo_eq`, `genLayers_eq` : one iteration of the extracted `while True:` loop is the body of
  `Sched.layersGo` (`procLayer`, the `break` test, the appended layer), hence the whole extracted function — prologue, root
  test, loop, cycle test — is `Sched.layers`, on EVERY table.
-/
namespace Deeprob.Oblig.Struct5T
open Deeprob Deeprob.Net Deeprob.Sched List

variable {α : Type}

/-! ## the counting prologue -/

/-- `num_outgoings[c] += 1` -/
def incC (d : Cnt) (c : Nat) : Cnt := setF d c (getC d c + 1)

theorem foldl_incC (es : List Nat) (d : Cnt) (v : Nat) : (es.foldl incC d) v = d v + (count v es : Nat) := by
  induction es generalizing d with
  | nil => simp
  | cons c es ih =>
    rw [foldl_cons, ih, count_cons]
    unfold incC setF getC
    by_cases h : v = c
    · subst h; simp; omega
    · have h' : ¬ c = v := fun e => h e.symm
      simp [h, h']

theorem countsFold_eq (t : Net α) (root : Nat) (v : Nat) :
    ((collect t root).foldl (fun (st1 : Cnt) x1 => (chOf t x1).foldl (fun (st2 : Cnt) x2 => setF st2 x2 (getC st2 x2 + 1)) st1)
      (setF emptyC root 0)) v = (count v (edgesOf t (collect t root)) : Nat) := by
  have h := foldl_foldl_flatMap (chOf t) incC (collect t root) (setF emptyC root 0)
  unfold incC at h
  rw [h]
  have := foldl_incC (edgesOf t (collect t root)) (setF emptyC root 0) v
  unfold incC edgesOf at this
  unfold edgesOf
  rw [this]
  unfold setF emptyC
  by_cases hv : v = root <;> simp [hv]

/-- **topoInit_as_coded**: the counters computed by the EXTRACTED prologue of `topological_order` are the in-degrees the model uses
(`Sched.indeg`: number of edges, with multiplicity, from the nodes of `bfs(root)`). -/
theorem topoInit_as_coded (t : Net α) (root : Nat) : genTopoCounts t root = indeg t root := by
  funext v
  unfold genTopoCounts Gen.S5topoInit indeg
  exact countsFold_eq t root v

/-- **layeredInit_as_coded**: the same for the prologue of `topological_order_layered`. -/
theorem layeredInit_as_coded (t : Net α) (root : Nat) : genLayeredCounts t root = indeg t root := by
  funext v
  unfold genLayeredCounts Gen.S5layeredInit indeg
  exact countsFold_eq t root v

/-! ## `topological_order`: the `while queue:` loop -/

/-- the body of `for c in node.children:` in the extracted step: state = (queue, counters) -/
def genEdge (st : List Nat × Cnt) (c : Nat) : List Nat × Cnt :=
  (if getC (setF st.2 c (getC st.2 c - 1)) c == 0 then st.1 ++ [c] else st.1, setF st.2 c (getC st.2 c - 1))

theorem genTopoStep_nil (t : Net α) (cnt : Cnt) (ord : List Nat) : genTopoStep t ([], cnt, ord) = ([], cnt, ord) := rfl

theorem genTopoStep_cons (t : Net α) (q : Nat) (qs : List Nat) (cnt : Cnt) (ord : List Nat) :
    genTopoStep t (q :: qs, cnt, ord) =
      (((chOf t q).foldl genEdge (qs, cnt)).1, ((chOf t q).foldl genEdge (qs, cnt)).2, ord ++ [q]) := rfl

/-- the relation between the code's integer counters and the model's natural counters (`k - 1` truncated at 0, test `k == 1`
before the decrement instead of `== 0` after it): the model holds the positive part of the code's counter -/
def Rel (cI : Cnt) (cN : List Nat) : Prop := ∀ v, cN.getD v 0 = (cI v).toNat

theorem edge_sim (Q A : List Nat) (cI : Cnt) (cN : List Nat) (h : Rel cI cN) (c : Nat) :
    (genEdge (Q ++ A, cI) c).1 = Q ++ (kstep (cN, A) c).2 ∧ Rel (genEdge (Q ++ A, cI) c).2 (kstep (cN, A) c).1 := by
  have hc : cN[c]?.getD 0 = (cI c).toNat := by rw [← List.getD_eq_getElem?_getD]; exact h c
  constructor
  · rw [kstep_snd, List.getD_eq_getElem?_getD]
    unfold genEdge getC setF
    simp only [if_true]
    by_cases h1 : cI c = 1
    · have : cN[c]?.getD 0 = 1 := by rw [hc, h1]; rfl
      simp [h1, this]
    · have : ¬ cN[c]?.getD 0 = 1 := by rw [hc]; omega
      have h2 : ¬ cI c - 1 = 0 := by omega
      simp [h2, this]
  · intro v
    rw [kstep_fst]
    unfold genEdge getC setF
    simp only []
    by_cases hv : v = c
    · subst hv; simp [hc]
    · simp [hv]; rw [← List.getD_eq_getElem?_getD]; exact h v

theorem fold_sim (es : List Nat) : ∀ (Q A : List Nat) (cI : Cnt) (cN : List Nat), Rel cI cN →
    (es.foldl genEdge (Q ++ A, cI)).1 = Q ++ (es.foldl kstep (cN, A)).2 ∧
      Rel (es.foldl genEdge (Q ++ A, cI)).2 (es.foldl kstep (cN, A)).1 := by
  induction es with
  | nil => intro Q A cI cN h; exact ⟨rfl, h⟩
  | cons c es ih =>
    intro Q A cI cN h
    obtain ⟨h1, h2⟩ := edge_sim Q A cI cN h c
    have e1 : genEdge (Q ++ A, cI) c = (Q ++ (kstep (cN, A) c).2, (genEdge (Q ++ A, cI) c).2) := Prod.ext h1 rfl
    have e2 : kstep (cN, A) c = ((kstep (cN, A) c).1, (kstep (cN, A) c).2) := rfl
    rw [foldl_cons, foldl_cons, e1, e2]
    exact ih Q _ _ _ h2

/-- **topoStep_as_coded**: one iteration of the EXTRACTED loop of `topological_order` is one step of the modelled Kahn machine
(`kahnStepM`, the body of `Net.kahnLoop`): the same queue and the same ordering, counters still related. No hypothesis on the table. -/
theorem topoStep_as_coded (t : Net α) (q : List Nat) (cI : Cnt) (cN ord : List Nat) (h : Rel cI cN) :
    ∃ cI', genTopoStep t (q, cI, ord) = ((kahnStepM t (q, cN, ord)).1, cI', (kahnStepM t (q, cN, ord)).2.2) ∧
      Rel cI' (kahnStepM t (q, cN, ord)).2.1 := by
  cases q with
  | nil => exact ⟨cI, rfl, h⟩
  | cons a qs =>
    obtain ⟨h1, h2⟩ := fold_sim (chOf t a) qs [] cI cN h
    rw [append_nil] at h1 h2
    refine ⟨((chOf t a).foldl genEdge (qs, cI)).2, ?_, ?_⟩
    · rw [genTopoStep_cons]
      simp only [kahnStepM, kahnVisit_eq]
      rw [h1]
    · simp only [kahnStepM, kahnVisit_eq]
      exact h2

theorem topoRun_sim (t : Net α) (n : Nat) : ∀ (q : List Nat) (cI : Cnt) (cN ord : List Nat), Rel cI cN →
    ∃ cI', genTopoRun t n (q, cI, ord) = ((kahnRunM t n (q, cN, ord)).1, cI', (kahnRunM t n (q, cN, ord)).2.2) ∧
      Rel cI' (kahnRunM t n (q, cN, ord)).2.1 := by
  induction n with
  | zero => intro q cI cN ord h; exact ⟨cI, rfl, h⟩
  | succ n ih =>
    intro q cI cN ord h
    obtain ⟨c1, e1, r1⟩ := topoStep_as_coded t q cI cN ord h
    obtain ⟨c2, e2, r2⟩ := ih _ c1 _ _ r1
    refine ⟨c2, ?_, ?_⟩
    · simp only [genTopoRun, kahnRunM]
      rw [e1, e2]
    · simpa only [kahnRunM] using r2

theorem kahnRunM_nil (t : Net α) (n : Nat) (cnt ord : List Nat) : kahnRunM t n ([], cnt, ord) = ([], cnt, ord) := by
  induction n with
  | zero => rfl
  | succ n ih => simp only [kahnRunM, kahnStepM]; exact ih

/-- the modelled machine iterated is `Net.kahnLoop` -/
theorem kahnLoop_eq_run (t : Net α) (fuel : Nat) : ∀ (q cnt ord : List Nat),
    kahnLoop t fuel q cnt ord = ((kahnRunM t fuel (q, cnt, ord)).2.1, (kahnRunM t fuel (q, cnt, ord)).2.2) := by
  induction fuel with
  | zero => intro q cnt ord; simp [kahnLoop, kahnRunM]
  | succ f ih =>
    intro q cnt ord
    cases q with
    | nil => rw [kahnRunM_nil]; simp [kahnLoop]
    | cons a qs =>
      simp only [kahnLoop, kahnRunM, kahnStepM]
      exact ih _ _ _

/-- the queue of the modelled machine is empty once `|R|` nodes fit into the fuel (same argument as `kahnLoop_inv`) -/
theorem kahnRunM_queue_nil (t : Net α) (root : Nat) (R : List Nat) (hcl : ∀ p ∈ R, ∀ c ∈ chOf t p, c ∈ R) :
    ∀ (fuel : Nat) (q cnt ord : List Nat), KInv t root R q cnt ord → R.length ≤ ord.length + fuel →
      (kahnRunM t fuel (q, cnt, ord)).1 = [] := by
  intro fuel
  induction fuel with
  | zero =>
    intro q cnt ord h hf
    have hl := (subperm_of_subset h.nodup h.sub).length_le
    rw [length_append] at hl
    have hq : q = [] := length_eq_zero_iff.1 (by omega)
    subst hq
    rfl
  | succ f ih =>
    intro q cnt ord h hf
    cases q with
    | nil => rw [kahnRunM_nil]
    | cons a qs =>
      have hs := kinv_step t root R hcl a qs cnt ord h
      simp only [kahnRunM, kahnStepM]
      exact ih _ _ _ hs (by rw [length_append]; simp; omega)

/-- the initial counters are related: the model's list holds the same in-degrees (children in range) -/
theorem rel_init (t : Net α) (root : Nat) (h : InRange t) : Rel (genTopoCounts t root) (kahnCounts t root) := by
  intro v
  rw [(kahnCounts_spec t root h).2 v, topoInit_as_coded]
  unfold indeg edgesOf
  simp

/-! ### the integer counters of the code: initial value minus the edges of the nodes listed so far -/

theorem genEdge_fold_snd (es : List Nat) : ∀ (Q : List Nat) (cI : Cnt) (v : Nat),
    (es.foldl genEdge (Q, cI)).2 v = cI v - (count v es : Nat) := by
  induction es with
  | nil => intro Q cI v; simp
  | cons c es ih =>
    intro Q cI v
    have e : genEdge (Q, cI) c = ((genEdge (Q, cI) c).1, (genEdge (Q, cI) c).2) := rfl
    rw [foldl_cons, e, ih, count_cons]
    unfold genEdge setF getC
    simp only []
    by_cases h : v = c
    · subst h; simp; omega
    · have h' : ¬ c = v := fun e => h e.symm
      simp [h, h']

/-- **topoRun_counts**: after any number of iterations of the extracted loop, every counter is its value before minus the number
of edges into that node from the nodes appended to `ordering` in between. -/
theorem topoRun_counts (t : Net α) (n : Nat) : ∀ (q : List Nat) (cI : Cnt) (ord : List Nat) (v : Nat),
    (genTopoRun t n (q, cI, ord)).2.1 v + (count v (edgesOf t (genTopoRun t n (q, cI, ord)).2.2) : Nat) =
      cI v + (count v (edgesOf t ord) : Nat) := by
  induction n with
  | zero => intro q cI ord v; rfl
  | succ n ih =>
    intro q cI ord v
    cases q with
    | nil => simp only [genTopoRun, genTopoStep_nil]; exact ih _ _ _ _
    | cons a qs =>
      simp only [genTopoRun, genTopoStep_cons]
      rw [ih, genEdge_fold_snd]
      have : edgesOf t (ord ++ [a]) = edgesOf t ord ++ chOf t a := by simp [edgesOf]
      rw [this, count_append]
      push_cast
      omega

/-! ## `topological_order_layered`: the `while True:` loop -/

theorem procEdge_as_coded :
    (fun (st2 : Cnt × List Nat) x2 => ((setF st2.1 x2 ((getC st2.1 x2) - 1)),
      (if ((getC (setF st2.1 x2 ((getC st2.1 x2) - 1)) x2) == 0) then (st2.2 ++ [x2]) else st2.2))) = procEdge := by
  funext st c
  unfold procEdge getC
  simp only []
  by_cases h : setF st.1 c (st.1 c - 1) c = 0 <;> simp [h]

/-- **layeredStep_as_coded**: one iteration of the EXTRACTED `while True:` loop of `topological_order_layered`, on a state whose
`ordering` is `acc ++ [last]`, is the body of the model's `Sched.layersGo`: the new layer and counters are `procLayer`, the `break`
test is "the new layer is empty", and the layer is appended otherwise. -/
theorem layeredStep_as_coded (t : Net α) (cnt : Cnt) (acc : List (List Nat)) (last : List Nat) :
    genLayeredStep t (cnt, acc ++ [last]) =
      ((procLayer t cnt last).2.isEmpty, (procLayer t cnt last).1,
        if (procLayer t cnt last).2.isEmpty then acc ++ [last] else acc ++ [last] ++ [(procLayer t cnt last).2]) := by
  have hl : (acc ++ [last]).getLast? = some last := by simp
  have hp : last.foldl (fun (st1 : Cnt × List Nat) x1 => (chOf t x1).foldl procEdge st1) (cnt, []) = procLayer t cnt last := by
    unfold procLayer
    exact foldl_foldl_flatMap _ _ _ _
  unfold genLayeredStep Gen.S5layeredStep
  simp only [hl, procEdge_as_coded, hp]

/-- the extracted loop iterated is the model's loop -/
theorem genLayersGo_eq (t : Net α) (fuel : Nat) : ∀ (cnt : Cnt) (acc : List (List Nat)) (last : List Nat),
    genLayersGo t fuel (cnt, acc ++ [last]) = layersGo t fuel cnt acc last := by
  induction fuel with
  | zero => intro cnt acc last; rfl
  | succ f ih =>
    intro cnt acc last
    unfold genLayersGo layersGo
    rw [layeredStep_as_coded]
    simp only []
    by_cases he : (procLayer t cnt last).2.isEmpty = true
    · simp [he]
    · simp only [he, if_false, Bool.false_eq_true]
      exact ih _ _ _

/-- **genLayers_eq**: `topological_order_layered` AS EXTRACTED — counting prologue, root test, `while True:` loop, cycle test — is
the model `Sched.layers`, on every table and every root (cyclic tables included: the same verdict `none`). -/
theorem genLayers_eq (t : Net α) (root : Nat) : genLayers t root = layers t root := by
  unfold genLayers layers Gen.S5layeredRootGuard Gen.S5layeredResult
  rw [layeredInit_as_coded]
  have h0 : genLayersGo t ((collect t root).length + 1) (indeg t root, [[root]]) =
      layersGo t ((collect t root).length + 1) (indeg t root) [] [root] := genLayersGo_eq t _ _ [] [root]
  simp only [h0, getC, sumC]
  by_cases hr : indeg t root root = 0
  · simp only [hr, bne_self_eq_false, Bool.false_eq_true, if_false, ne_eq, not_true_eq_false]
    cases hgo : layersGo t ((collect t root).length + 1) (indeg t root) [] [root] with
    | none => rfl
    | some s =>
      obtain ⟨c, L⟩ := s
      simp only []
      by_cases hs : (map c (collect t root)).sum = 0 <;> simp [hs]
  · simp [hr]

/-! ## the generators `bfs` and `dfs_post_order` -/

/-- the body of `for c in node.children: if c not in seen: seen.add(c); <queue / stack>.append(c)`: state = (queue, seen) -/
def walkEdge (st : List Nat × List Nat) (c : Nat) : List Nat × List Nat :=
  ((if (!(isInL c st.2)) then (st.1 ++ [c]) else st.1), (if (!(isInL c st.2)) then (st.2 ++ [c]) else st.2))

theorem genBfsStep_nil (t : Net α) (seen out : List Nat) : genBfsStep t ([], seen, out) = ([], seen, out) := rfl

theorem genBfsStep_cons (t : Net α) (a : Nat) (qs seen out : List Nat) :
    genBfsStep t (a :: qs, seen, out) =
      (((chOf t a).foldl walkEdge (qs, seen)).1, ((chOf t a).foldl walkEdge (qs, seen)).2, out ++ [a]) := rfl

theorem walkFold_sim (S Q : List Nat) : ∀ (es A : List Nat),
    es.foldl walkEdge (Q ++ A, S ++ A) = (Q ++ bfsNew S es A, S ++ bfsNew S es A) := by
  intro es
  induction es with
  | nil => intro A; rfl
  | cons c es ih =>
    intro A
    have hstep : bfsNew S (c :: es) A = bfsNew S es (if (S ++ A).contains c then A else A ++ [c]) := rfl
    rw [foldl_cons, hstep]
    by_cases hc : (S ++ A).contains c = true
    · have : walkEdge (Q ++ A, S ++ A) c = (Q ++ A, S ++ A) := by
        simp only [walkEdge, isInL, hc, Bool.not_true, Bool.false_eq_true, if_false]
      rw [this, if_pos hc]; exact ih A
    · have : walkEdge (Q ++ A, S ++ A) c = (Q ++ (A ++ [c]), S ++ (A ++ [c])) := by
        have hc' : (S ++ A).contains c = false := by simpa using hc
        simp only [walkEdge, isInL, hc', Bool.not_false, if_true, append_assoc]
      rw [this, if_neg hc]; exact ih (A ++ [c])

/-- **bfsStep_as_coded**: one iteration of the EXTRACTED loop of `bfs` is the step of the model's `Net.bfsAux` (`bfsAux_step`): the
unseen children of the dequeued node, first occurrence only, go to the end of the queue and into the set; the node is yielded. -/
theorem bfsStep_as_coded (t : Net α) (a : Nat) (qs seen out : List Nat) :
    genBfsStep t (a :: qs, seen, out) =
      (qs ++ bfsNew seen (chOf t a) [], seen ++ bfsNew seen (chOf t a) [], out ++ [a]) := by
  have h := walkFold_sim seen qs (chOf t a) []
  rw [append_nil, append_nil] at h
  rw [genBfsStep_cons, h]

theorem genBfsRun_nil (t : Net α) (n : Nat) (seen out : List Nat) : genBfsRun t n ([], seen, out) = ([], seen, out) := by
  induction n with
  | zero => rfl
  | succ n ih => simp only [genBfsRun, genBfsStep_nil]; exact ih

/-- the set of seen nodes of the extracted loop, iterated, is the model's `bfsAux` -/
theorem bfsRun_seen (t : Net α) (fuel : Nat) : ∀ (q seen out : List Nat),
    (genBfsRun t fuel (q, seen, out)).2.1 = bfsAux t fuel q seen := by
  induction fuel with
  | zero => intro q seen out; simp [genBfsRun, bfsAux]
  | succ f ih =>
    intro q seen out
    cases q with
    | nil => rw [genBfsRun_nil]; simp [bfsAux]
    | cons a qs =>
      simp only [genBfsRun]
      rw [bfsStep_as_coded, bfsAux_step]
      exact ih _ _ _

/-- loop invariant of `bfs`: the seen nodes, in discovery order, are the yielded nodes followed by the queue; they are pairwise
distinct table rows; and as long as the queue is non-empty every iteration yields one more node -/
theorem bfsRun_inv (t : Net α) (h : InRange t) (fuel : Nat) : ∀ (q seen out : List Nat),
    seen = out ++ q → seen.Nodup → (∀ v ∈ seen, v < t.length) →
    (genBfsRun t fuel (q, seen, out)).2.1 = (genBfsRun t fuel (q, seen, out)).2.2 ++ (genBfsRun t fuel (q, seen, out)).1 ∧
    ((genBfsRun t fuel (q, seen, out)).1 = [] ∨ out.length + fuel ≤ (genBfsRun t fuel (q, seen, out)).2.2.length) ∧
    (genBfsRun t fuel (q, seen, out)).2.1.Nodup ∧ (∀ v ∈ (genBfsRun t fuel (q, seen, out)).2.1, v < t.length) := by
  induction fuel with
  | zero => intro q seen out h1 h2 h3; exact ⟨h1, Or.inr (by simp [genBfsRun]), h2, h3⟩
  | succ f ih =>
    intro q seen out h1 h2 h3
    cases q with
    | nil => rw [genBfsRun_nil]; exact ⟨h1, Or.inl rfl, h2, h3⟩
    | cons a qs =>
      simp only [genBfsRun]
      rw [bfsStep_as_coded]
      have hnd : (seen ++ bfsNew seen (chOf t a) []).Nodup := by
        rw [nodup_append]
        refine ⟨h2, nodup_bfsNew seen _ [] nodup_nil, ?_⟩
        intro x hx y hy hxy
        subst hxy
        rcases (mem_bfsNew seen (chOf t a) [] x).1 hy with hh | ⟨_, hh⟩
        · simp at hh
        · exact hh hx
      have hlt : ∀ v ∈ seen ++ bfsNew seen (chOf t a) [], v < t.length := by
        intro v hv
        rcases mem_append.1 hv with hv | hv
        · exact h3 v hv
        · rcases (mem_bfsNew seen (chOf t a) [] v).1 hv with hh | ⟨hh, _⟩
          · simp at hh
          · exact h a v hh
      obtain ⟨i1, i2, i3, i4⟩ := ih (qs ++ bfsNew seen (chOf t a) []) (seen ++ bfsNew seen (chOf t a) []) (out ++ [a])
        (by rw [h1]; simp) hnd hlt
      refine ⟨i1, ?_, i3, i4⟩
      rcases i2 with i2 | i2
      · exact Or.inl i2
      · refine Or.inr ?_
        rw [length_append] at i2
        simp at i2 ⊢
        omega

theorem dfsStep_walk (t : Net α) (v : Nat) (stack seen : List Nat) :
    (chOf t v).foldl walkEdge (stack, seen) =
      (stack ++ (chOf t v).foldl (fun acc c => if (seen ++ acc).contains c then acc else acc ++ [c]) [],
       seen ++ (chOf t v).foldl (fun acc c => if (seen ++ acc).contains c then acc else acc ++ [c]) []) := by
  have h := walkFold_sim seen stack (chOf t v) []
  rw [append_nil, append_nil] at h
  exact h

/-- **dfsStep_as_coded**: one iteration of the EXTRACTED loop of `dfs_post_order` is one step of the hand-written machine `dfsStepM`. -/
theorem dfsStep_as_coded (t : Net α) (s : List Nat × List Nat × List Nat) : genDfsStep t s = dfsStepM t s := by
  obtain ⟨stack, seen, out⟩ := s
  unfold genDfsStep Gen.S5dfsStep dfsStepM
  simp only []
  cases hs : stack.getLast? with
  | none => rfl
  | some v =>
    simp only []
    have hw := dfsStep_walk t v stack seen
    unfold walkEdge at hw
    rw [hw]
    by_cases hc : (chOf t v).all (fun c => seen.contains c) = true
    · have hc' : (chOf t v).all (fun x1 => isInL x1 seen) = true := hc
      simp only [hc', if_true]
      rw [if_pos hc]
    · have hc' : (chOf t v).all (fun x1 => isInL x1 seen) = false := by
        have : (chOf t v).all (fun c => seen.contains c) = false := by
          cases hb : (chOf t v).all (fun c => seen.contains c) with
          | true => exact absurd hb hc
          | false => rfl
        exact this
      have hc2 : (chOf t v).all (fun c => seen.contains c) = false := hc'
      simp only [hc', hc2, Bool.false_eq_true, if_false]

/-! ## non-vacuity: the table 3 → [0, 2], 2 → [0, 1] (leaf 0 is a child of the root at depth 1 AND of node 2 at depth 2): the Kahn
order `3, 2, 0, 1` differs from the BFS order `3, 0, 2, 1`, the layers `[[3], [2], [0, 1]]` from the depth layering `[[3], [0, 2], [1]]` -/

def exT : Net Nat :=
  [⟨0, .leaf, [0], [], [], .absent⟩, ⟨1, .leaf, [1], [], [], .absent⟩, ⟨2, .prod, [0, 1], [0, 1], [], .absent⟩,
    ⟨3, .prod, [0, 1], [0, 2], [], .absent⟩]

theorem exT_inRange : InRange exT := by
  intro a c hc
  rcases a with _ | _ | _ | _ | a <;> simp [chOf, exT] at hc <;> simp [exT] <;> omega

/-- the simulation on the first iteration of the witness (root 3 leaves the queue, node 2 enters it, leaf 0 does not yet) -/
example : ∃ cI', genTopoStep exT ([3], genTopoCounts exT 3, []) =
      ((kahnStepM exT ([3], kahnCounts exT 3, [])).1, cI', (kahnStepM exT ([3], kahnCounts exT 3, [])).2.2) ∧
    Rel cI' (kahnStepM exT ([3], kahnCounts exT 3, [])).2.1 :=
  topoStep_as_coded exT [3] _ _ [] (rel_init exT 3 exT_inRange)

example : (genTopoStep exT ([3], genTopoCounts exT 3, [])).1 = [2] ∧
    (genTopoRun exT 5 ([3], genTopoCounts exT 3, [])).2.2 = [3, 2, 0, 1] ∧ collect exT 3 = [3, 0, 2, 1] ∧
    (genTopoRun exT 5 ([3], genTopoCounts exT 3, [])).1 = [] := by decide +kernel

example : (List.range 4).map (genTopoCounts exT 3) = [2, 1, 1, 0] ∧ (List.range 4).map (indeg exT 3) = [2, 1, 1, 0] := by
  decide +kernel

example : genLayers exT 3 = some [[3], [2], [0, 1]] ∧ layers exT 3 = some [[3], [2], [0, 1]] :=
  ⟨by rw [genLayers_eq]; decide +kernel, by decide +kernel⟩

example : (genLayeredStep exT (genLayeredCounts exT 3, [[3]])).1 = false ∧
    (genLayeredStep exT (genLayeredCounts exT 3, [[3]])).2.2 = [[3], [2]] := by decide +kernel

/-- the generators on the witness: `bfs` yields the discovery order; `dfs_post_order` yields node 2 BEFORE its child 0 (the child was
pushed, hence marked seen, by the root): on a DAG with sharing the order it produces is not children-first -/
example : genBfs exT 3 = [3, 0, 2, 1] ∧ collect exT 3 = [3, 0, 2, 1] ∧ genDfs exT 3 = [1, 2, 0, 3] ∧
    (genDfsState exT 3).1 = [] ∧ 0 ∈ chOf exT 2 ∧ [1, 2, 0, 3].idxOf 2 < [1, 2, 0, 3].idxOf 0 := by decide +kernel

example : genDfsStep exT ([3], [3], []) = dfsStepM exT ([3], [3], []) := dfsStep_as_coded exT _

end Deeprob.Oblig.Struct5T
