import DeeprobModel.Generated.Consts
import DeeprobModel.Model.XpcLoop
import DeeprobModel.Lemmas.PostOrderRLemmas
import DeeprobModel.Lemmas.XpcLemmas
set_option linter.unusedSimpArgs false
set_option linter.unusedSectionVars false
set_option linter.unusedVariables false
/-
Obligations about the loop of `build_xpc` as EXTRACTED from the source (`Gen.S5buildXpcStep`, written by tools/listprog.py on every
run): one iteration of the extracted loop IS one step of the post-order machine `PostOrder.stepR` (children pushed reversed) with
the combine `xpcComb` (simulation `buildXpcStep_as_coded`), so that `PostOrder.runR_eq_foldR` applies to the code's loop
(`buildXpcLoop_as_coded`); and the fold of that combine over the objects of a partition tree is the hand-written model
`buildXpc` (`fold_buildXpc`).
Objects: `PTree π` (`Model/PostOrderR.lean`), `is_partitioned` = `len(sub_partitions) != 0`, identity membership
`last_part_visited in part.sub_partitions` = membership of the object's id among the children's ids.
-/
namespace Deeprob.Oblig.Struct5X
open Deeprob Deeprob.PostOrder

theorem suffix_pos {β : Type} (xs : List β) (k : Nat) (hk : k ≠ 0) : Gen.Py5.suffix xs k = xs.drop (xs.length - k) := by
  simp [Gen.Py5.suffix, hk]

/-! ## simulation -/
section sim
variable {π C W : Type} (isHoriz : PTree π → Bool) (rowIds : PTree π → List Nat) (children : C → List C) (isProduct isSum : C → Bool)
  (div : Nat → Nat → W) (mkSum : List W → List C → C) (mkProduct : List C → C) (buildLeaf : PTree π → C)

/-- what `build_xpc` appends to `pc_nodes_stack` when it finishes a partition, from the circuits taken off that stack -/
def xpcComb (t : PTree π) (taken : List C) : C :=
  if t.kids.isEmpty then buildLeaf t
  else if isHoriz t then mkSum (t.kids.map (fun x => div (rowIds x).length (rowIds t).length)) taken
  else mkProduct (taken.flatMap (fun c => if isProduct c || (isSum c && (children c).length == 1) then children c else [c]))

/-- the generated state that corresponds to a machine state -/
def genOfX (last : Option (PTree π)) (s : StR π C) : List (PTree π) × Option (PTree π) × List C := (s.stack, last, s.buf)

/-- **buildXpcStep_as_coded**: one iteration of the EXTRACTED loop of `build_xpc`, run on a machine state, gives `PostOrder.stepR`
of that state (and `last_part_visited` keeps naming the object whose id the machine holds). -/
theorem buildXpcStep_as_coded (s : StR π C) (last : Option (PTree π)) (hl : last.map PTree.id = s.last) :
    ∃ last', last'.map PTree.id = (stepR (xpcComb isHoriz rowIds children isProduct isSum div mkSum mkProduct buildLeaf) s).last ∧
      Gen.S5buildXpcStep isPartitioned isHoriz PTree.kids rowIds isInP children isProduct isSum div mkSum mkProduct buildLeaf
          s.stack last s.buf
        = genOfX last' (stepR (xpcComb isHoriz rowIds children isProduct isSum div mkSum mkProduct buildLeaf) s) := by
  unfold Gen.S5buildXpcStep stepR genOfX
  cases hs : s.stack.getLast? with
  | none => exact ⟨last, hl, by simp⟩
  | some node =>
    simp only []
    by_cases hleaf : node.kids.isEmpty = true
    · have hk : node.kids = [] := by simpa using hleaf
      refine ⟨some node, by simp [hleaf], ?_⟩
      simp [isPartitioned, hleaf, hk, xpcComb, hs]
    · have hne : node.kids.length ≠ 0 := by
        intro h; apply hleaf; simpa using h
      have hleaf' : node.kids.isEmpty = false := by simpa using hleaf
      have hk : ¬ node.kids = [] := by simpa using hleaf
      by_cases hin : lastInKidsR s.last node.kids = true
      · refine ⟨some node, by simp [hleaf', hin], ?_⟩
        by_cases hh : isHoriz node = true
        · simp [isPartitioned, isInP, hl, hleaf', hk, hin, hh, xpcComb, hs, suffix_pos _ _ hne, Gen.Py5.dropLastN]
        · have hh' : isHoriz node = false := by simpa using hh
          simp [isPartitioned, isInP, hl, hleaf', hk, hin, hh', xpcComb, hs, suffix_pos _ _ hne, Gen.Py5.dropLastN]
      · have hin' : lastInKidsR s.last node.kids = false := by simpa using hin
        refine ⟨last, by simp [hleaf', hin', hl], ?_⟩
        simp [isPartitioned, isInP, hl, hleaf', hk, hin']

theorem genRunX_sim (n : Nat) (s : StR π C) (last : Option (PTree π)) (hl : last.map PTree.id = s.last) :
    ∃ last', last'.map PTree.id = (runR (xpcComb isHoriz rowIds children isProduct isSum div mkSum mkProduct buildLeaf) n s).last ∧
      genRunX isHoriz rowIds children isProduct isSum div mkSum mkProduct buildLeaf n (genOfX last s) =
        genOfX last' (runR (xpcComb isHoriz rowIds children isProduct isSum div mkSum mkProduct buildLeaf) n s) := by
  induction n generalizing s last with
  | zero => exact ⟨last, hl, rfl⟩
  | succ n ih =>
    obtain ⟨l1, h1, e1⟩ := buildXpcStep_as_coded isHoriz rowIds children isProduct isSum div mkSum mkProduct buildLeaf s last hl
    obtain ⟨l2, h2, e2⟩ := ih (stepR (xpcComb isHoriz rowIds children isProduct isSum div mkSum mkProduct buildLeaf) s) l1 h1
    refine ⟨l2, h2, ?_⟩
    simp only [genRunX, runR]
    have : Gen.S5buildXpcStep isPartitioned isHoriz PTree.kids rowIds isInP children isProduct isSum div mkSum mkProduct buildLeaf
        (genOfX last s).1 (genOfX last s).2.1 (genOfX last s).2.2 =
        genOfX l1 (stepR (xpcComb isHoriz rowIds children isProduct isSum div mkSum mkProduct buildLeaf) s) := e1
    rw [this, e2]

/-- **buildXpcLoop_as_coded**: the EXTRACTED loop of `build_xpc`, run `2·size` times from `([part_root], None, [])` on a tree of
pairwise distinct objects, ends with an empty stack and ONE entry on `pc_nodes_stack`: the recursive fold of the combine (the
children's circuits in `sub_partitions` order). -/
theorem buildXpcLoop_as_coded (t : PTree π) (hnd : t.ids.Nodup) :
    ∃ last', genRunX isHoriz rowIds children isProduct isSum div mkSum mkProduct buildLeaf (2 * sizeR t) ([t], none, []) =
      ([], last', [foldR (xpcComb isHoriz rowIds children isProduct isSum div mkSum mkProduct buildLeaf) t]) := by
  obtain ⟨l, _, e⟩ := genRunX_sim isHoriz rowIds children isProduct isSum div mkSum mkProduct buildLeaf (2 * sizeR t)
    ⟨[t], none, []⟩ none rfl
  have hr := runR_eq_foldR (xpcComb isHoriz rowIds children isProduct isSum div mkSum mkProduct buildLeaf) t hnd
  unfold walkR at hr
  rw [hr] at e
  exact ⟨l, e⟩

end sim

/-! ## the objects of a partition tree -/
section number
variable {α : Type}

theorem pay_node {π : Type} (i : Nat) (q : π) (cs : List (PTree π)) : (PTree.node i q cs).pay = q := rfl

theorem number_pay (p : Part α) (n : Nat) : (Part.number p n).pay = p := by
  cases p <;> simp [Part.number, PTree.pay]

theorem number_id (p : Part α) (n : Nat) : (Part.number p n).id = n := by
  cases p <;> simp [Part.number, PTree.id]

theorem numberL_pay (l : List (Part α)) (n : Nat) : (Part.numberL l n).map PTree.pay = l := by
  induction l generalizing n with
  | nil => simp [Part.numberL]
  | cons s ss ih => simp [Part.numberL, number_pay, ih]

theorem numberL_ne_nil (l : List (Part α)) (n : Nat) (h : l ≠ []) : Part.numberL l n ≠ [] := by
  cases l with
  | nil => exact absurd rfl h
  | cons s ss => simp [Part.numberL]

theorem idsL_number (l : List (Part α)) (ih : ∀ s ∈ l, ∀ n, (Part.number s n).ids = List.range' n s.size) (n : Nat) :
    ((Part.numberL l n).map PTree.ids).flatten = List.range' n (Part.sizeL l) := by
  induction l generalizing n with
  | nil => simp [Part.numberL, Part.sizeL]
  | cons s ss ihl =>
    simp only [Part.numberL, Part.sizeL, List.map_cons, List.flatten_cons]
    rw [ih s (by simp) n, ihl (fun s' hs' => ih s' (by simp [hs'])) (n + s.size), List.range'_append_1]

/-- the objects of a partition tree are pairwise distinct: their ids are the pre-order numbers `n, n+1, …, n + size − 1` -/
theorem ids_number : (p : Part α) → (n : Nat) → (Part.number p n).ids = List.range' n p.size
  | .leaf r c a b d par, n => by simp [Part.number, PTree.ids, Part.size, List.range'_one]
  | .horiz r c subs, n => by
    simp only [Part.number, PTree.ids, Part.size]
    rw [idsL_number subs (fun s hs n => ids_number s n) (n + 1), Nat.add_comm 1, List.range'_succ]
  | .vert r c subs, n => by
    simp only [Part.number, PTree.ids, Part.size]
    rw [idsL_number subs (fun s hs n => ids_number s n) (n + 1), Nat.add_comm 1, List.range'_succ]

theorem ids_number_nodup (p : Part α) (n : Nat) : (Part.number p n).ids.Nodup := by
  rw [ids_number]; exact List.nodup_range'

theorem wellTaggedBL_iff (l : List (Part α)) : Part.wellTaggedBL l = true ↔ ∀ s ∈ l, Part.wellTaggedB s = true := by
  induction l with
  | nil => simp [Part.wellTaggedBL]
  | cons a l ih => simp [Part.wellTaggedBL, ih]

end number

/-! ## the fold of the `build_xpc` combine is `buildXpc` -/
section xfold
variable {α : Type} [Zero α] [One α] [Div α] [NatCast α]

/-- the instantiation of the uninterpreted parameters of `S5buildXpcStep` by the model's partitions and circuits -/
def xcComb (useClt det : Bool) : PTree (Part α) → List (XC α) → XC α :=
  xpcComb isHorizP rowIdsP XC.children XC.isProduct XC.isSum (fun a b => (a : α) / (b : α)) XC.mkSum XC.mkProd (buildLeafP useClt det)

/-- the `for` loop of the product branch, as extracted, is the model's one-level flattening -/
theorem flatten_as_coded (c : XC α) :
    (if XC.isProduct c || (XC.isSum c && (XC.children c).length == 1) then XC.children c else [c]) = flattenChild c := by
  cases c <;> simp [XC.isProduct, XC.isSum, XC.children, flattenChild]

theorem foldL_number (useClt det : Bool) (l : List (Part α))
    (ih : ∀ s ∈ l, Part.wellTaggedB s = true → ∀ n, foldR (xcComb useClt det) (Part.number s n) = buildXpc useClt det s)
    (hw : Part.wellTaggedBL l = true) (n : Nat) :
    (Part.numberL l n).map (foldR (xcComb useClt det)) = buildXpcL useClt det l := by
  induction l generalizing n with
  | nil => simp [Part.numberL, buildXpcL]
  | cons s ss ihl =>
    have hw' := (wellTaggedBL_iff (s :: ss)).1 hw
    simp only [Part.numberL, buildXpcL, List.map_cons]
    rw [ih s (by simp) (hw' s (by simp)) n,
      ihl (fun s' hs' => ih s' (by simp [hs'])) ((wellTaggedBL_iff ss).2 (fun s' hs' => hw' s' (by simp [hs']))) (n + s.size)]

theorem weights_number (rows : List Nat) (subs : List (Part α)) (n : Nat) :
    (Part.numberL subs n).map (fun x => ((rowIdsP x).length : α) / (rows.length : α)) =
      subs.map (fun s => (s.rows.length : α) / (rows.length : α)) := by
  have h := numberL_pay subs n
  have : (Part.numberL subs n).map (fun x => ((rowIdsP x).length : α) / (rows.length : α)) =
      ((Part.numberL subs n).map PTree.pay).map (fun s => (s.rows.length : α) / (rows.length : α)) := by
    rw [List.map_map]; rfl
  rw [this, h]

theorem isHorizP_number (rows cols : List Nat) (subs : List (Part α)) (p : Part α) (hp : p.rows = rows) (n m : Nat) :
    isHorizP (.node n p (Part.numberL subs m)) = Part.isHorizB rows subs := by
  cases subs with
  | nil => simp [isHorizP, PTree.kids, Part.numberL, Part.isHorizB]
  | cons s ss => simp [isHorizP, PTree.kids, pay_node, Part.numberL, Part.isHorizB, number_pay, hp]

/-- **fold_buildXpc**: the recursive fold of the `build_xpc` combine (what the extracted loop computes, `buildXpcLoop_as_coded`)
over the objects of a partition tree is the hand-written model `buildXpc` of that tree — for trees whose inner nodes have
sub-partitions and carry the kind `is_horizontally_partitioned()` answers (`wellTaggedB`). -/
theorem fold_buildXpc (useClt det : Bool) : (p : Part α) → Part.wellTaggedB p = true → ∀ n : Nat,
    foldR (xcComb useClt det) (Part.number p n) = buildXpc useClt det p
  | .leaf r c a b d par, _, n => by
    simp [Part.number, foldR, xcComb, xpcComb, PTree.kids, buildLeafP, PTree.pay, buildXpc]
  | .horiz r c subs, hw, n => by
    simp only [Part.wellTaggedB, Bool.and_eq_true, Bool.not_eq_true', List.isEmpty_eq_false_iff] at hw
    obtain ⟨⟨hne, hh⟩, hwl⟩ := hw
    have hk : Part.numberL subs (n + 1) ≠ [] := numberL_ne_nil subs _ hne
    have hke : (Part.numberL subs (n + 1)).isEmpty = false := by simpa using hk
    simp only [Part.number, foldR]
    rw [foldL_number useClt det subs (fun s hs hws n => fold_buildXpc useClt det s hws n) hwl (n + 1)]
    simp only [xcComb, xpcComb, PTree.kids, hke, isHorizP_number r c subs (.horiz r c subs) rfl, hh, rowIdsP, PTree.pay, Part.rows,
      if_true, Bool.false_eq_true, if_false, buildXpc]
    exact congrArg (fun w => XC.mkSum w _) (weights_number r subs (n + 1))
  | .vert r c subs, hw, n => by
    simp only [Part.wellTaggedB, Bool.and_eq_true, Bool.not_eq_true', List.isEmpty_eq_false_iff] at hw
    obtain ⟨⟨hne, hh⟩, hwl⟩ := hw
    have hk : Part.numberL subs (n + 1) ≠ [] := numberL_ne_nil subs _ hne
    have hke : (Part.numberL subs (n + 1)).isEmpty = false := by simpa using hk
    simp only [Part.number, foldR]
    rw [foldL_number useClt det subs (fun s hs hws n => fold_buildXpc useClt det s hws n) hwl (n + 1)]
    simp only [xcComb, xpcComb, PTree.kids, hke, isHorizP_number r c subs (.vert r c subs) rfl, hh, if_true, Bool.false_eq_true,
      if_false, buildXpc, flatten_as_coded]

end xfold

/-- a partition tree with a horizontal split, a vertical split over two product leaves (which the product takes over, flattened)
and a conjunction leaf -/
def exPart : Part Rat :=
  .horiz [0, 1, 2, 3] [0, 1]
    [ .vert [0, 1] [0, 1] [ .leaf [0, 1] [0] true true [] { row0 := [1] }, .leaf [0, 1] [1] true true [] { row0 := [0] } ],
      .leaf [2, 3] [0, 1] true true [] { row0 := [0, 1] } ]

/-- non-vacuity: the extracted loop of `build_xpc` on the five objects of `exPart` ends with an empty stack and one circuit on
`pc_nodes_stack`, the model's `buildXpc` -/
example : ∃ last', genRunX isHorizP rowIdsP XC.children XC.isProduct XC.isSum (fun a b => (a : Rat) / (b : Rat)) XC.mkSum XC.mkProd
      (buildLeafP true false) (2 * sizeR (Part.number exPart 0)) ([Part.number exPart 0], none, []) =
    ([], last', [buildXpc true false exPart]) := by
  obtain ⟨l, h⟩ := buildXpcLoop_as_coded isHorizP rowIdsP XC.children XC.isProduct XC.isSum (fun a b => (a : Rat) / (b : Rat))
    XC.mkSum XC.mkProd (buildLeafP true false) (Part.number exPart 0) (ids_number_nodup _ _)
  have hf := fold_buildXpc true false exPart (by decide +kernel) 0
  unfold xcComb at hf
  rw [hf] at h
  exact ⟨l, h⟩

/-- … and that circuit is the sum over the flattened product and the conjunction -/
example : buildXpc true false exPart =
    XC.mkSum [(2 : Rat) / 4, 2 / 4] [XC.mkProd [XC.bern 0 0 1, XC.bern 1 1 0], XC.mkProd [XC.bern 0 1 0, XC.bern 1 0 1]] := by
  simp [exPart, buildXpc, buildXpcL, buildLeaf, conjProd, XC.ind, XC.mkProd, flattenChild, Part.rows]

end Deeprob.Oblig.Struct5X
