import DeeprobModel.Oblig.StructPy
import DeeprobModel.Model.Flows
/-
Static tie of `Model/Flows.lean` to /repo/deeprob/flows/layers/autoregressive.py (`build_masks`,
`build_degrees_sequential`), /repo/deeprob/flows/utils.py (`squeeze_depth2d`, `unsqueeze_depth2d`) and
/repo/deeprob/flows/models/realnvp.py (`build_permutation_matrix`) — C15.
-/
set_option linter.unusedSimpArgs false
namespace Deeprob.Oblig.StructFlows
open Deeprob Deeprob.Flows Deeprob.Oblig.StructPy

/-! ### (a) MADE masks and sequential degrees -/

/-- **hidden masks compare with `≤`** (`np.less_equal(d1[None, :], d2[:, None])`): the model's `maskLE` has the
generated entry function, rows indexed by the second operand -/
theorem maskLE_as_coded (d1 d2 : List Nat) :
    maskLE d1 d2 = d2.map (fun (b : Nat) => d1.map (fun (a : Nat) => Gen.madeHiddenEntry (a : Int) (b : Int))) := by
  unfold maskLE Gen.madeHiddenEntry
  simp only [Int.ofNat_le, Int.ofNat_lt, ge_iff_le, gt_iff_lt]

/-- **the output mask compares with `<`** (`np.less`) -/
theorem maskLT_as_coded (d1 d2 : List Nat) :
    maskLT d1 d2 = d2.map (fun (b : Nat) => d1.map (fun (a : Nat) => Gen.madeOutputEntry (a : Int) (b : Int))) := by
  unfold maskLT Gen.madeOutputEntry
  simp only [Int.ofNat_le, Int.ofNat_lt, ge_iff_le, gt_iff_lt]

/-- the operands: consecutive degree vectors for the hidden masks (`zip(degrees[:-1], degrees[1:])` = the model's
`zipWith maskLE degs degs.tail`), last against first for the output mask (`maskLT degs.getLast degs.head`) -/
theorem buildMasks_operands :
    Gen.madeHiddenOperands = ("degrees[:-1]", "degrees[1:]") ∧ Gen.madeOutputOperands = ("degrees[-1]", "degrees[0]") := by
  decide

theorem buildMasks_as_coded (degs : List (List Nat)) :
    buildMasks degs =
      List.zipWith (fun d1 d2 => d2.map (fun (b : Nat) => d1.map (fun (a : Nat) => Gen.madeHiddenEntry (a : Int) (b : Int)))) degs degs.tail ++
      [(degs.headD []).map (fun (b : Nat) => (degs.getLastD []).map (fun (a : Nat) => Gen.madeOutputEntry (a : Int) (b : Int)))] := by
  unfold buildMasks
  rw [← maskLT_as_coded]
  congr 1
  congr 1
  funext d1 d2; exact maskLE_as_coded d1 d2

/-- **hidden degrees are `np.arange(units) % (in_features − 1)`** -/
theorem hiddenDegreesSeq_as_coded (n units : Nat) (hn : 1 ≤ n) :
    Gen.madeHiddenArange (units : Int) = (0, (units : Int), 1) ∧
    (hiddenDegreesSeq n units).map (fun (d : Nat) => (d : Int)) =
      (List.range units).map (fun (k : Nat) => Gen.madeHiddenDegree (k : Int) (n : Int)) := by
  refine ⟨rfl, ?_⟩
  unfold hiddenDegreesSeq Gen.madeHiddenDegree
  rw [List.map_map]
  apply List.map_congr_left
  intro k _
  have h : (n : Int) - 1 = ((n - 1 : Nat) : Int) := by omega
  simp only [Function.comp, h, fmod_natCast]

/-- `Py.arange 0 n 1` is `range n` -/
theorem arange_fwd (n : Nat) : Gen.Py.arange 0 (n : Int) 1 = (List.range n).map (fun (i : Nat) => (i : Int)) := by
  unfold Gen.Py.arange
  have h : Int.fdiv ((n : Int) - 0 + 1 - 1) 1 = (n : Int) := by
    rw [Int.fdiv_eq_ediv_of_nonneg _ (by decide)]; simp
  simp only [show (1 : Int) > 0 by decide, if_true, h, Int.toNat_natCast]
  apply List.map_congr_left; intro i _; omega

/-- **input degrees: `np.arange(n)`, or `np.arange(n − 1, −1, −1)` when `reverse`** -/
theorem inputDegreesSeq_as_coded (n : Nat) :
    ((inputDegreesSeq n false).map (fun (d : Nat) => (d : Int)) =
      Gen.Py.arange (Gen.madeInputArangeFwd n).1 (Gen.madeInputArangeFwd n).2.1 (Gen.madeInputArangeFwd n).2.2) ∧
    ((inputDegreesSeq n true).map (fun (d : Nat) => (d : Int)) =
      Gen.Py.arange (Gen.madeInputArangeRev n).1 (Gen.madeInputArangeRev n).2.1 (Gen.madeInputArangeRev n).2.2) := by
  constructor
  · simp only [Gen.madeInputArangeFwd, arange_fwd, inputDegreesSeq, Bool.false_eq_true, if_false]
  · simp only [Gen.madeInputArangeRev, inputDegreesSeq, if_true]
    unfold Gen.Py.arange
    have h : Int.fdiv ((n : Int) - 1 - -1 - -1 - 1) (- -1) = (n : Int) := by
      rw [Int.fdiv_eq_ediv_of_nonneg _ (by decide)]; simp
    simp only [show ¬ ((-1 : Int) > 0) by decide, if_false, show (-1 : Int) < 0 by decide, if_true, h,
      Int.toNat_natCast, List.map_map]
    apply List.map_congr_left; intro i hi
    have := List.mem_range.1 hi
    simp only [Function.comp]; omega

/-! ### (b) squeeze / unsqueeze -/

/-- shapes `(n, c, h, w)` on which the gather maps are compared entry by entry (even `h`, `w`; channel counts 1–3,
batch 1–2; for unsqueeze the channel count is `4·c`) -/
def shapes : List (Nat × Nat × Nat × Nat) := [(1, 1, 2, 2), (1, 2, 4, 4), (2, 1, 4, 6), (1, 3, 6, 4), (2, 2, 2, 4)]

/-- **`squeeze_depth2d` = `reshape(n, c, h//2, 2, w//2, 2).permute(0, 1, 3, 5, 2, 4).reshape(n, 4c, h//2, w//2)`**: on every
listed shape and every flat index, the element the generated reshape/permute pair reads is the one the model's
`squeezeSrc` reads, and the final shape is `(n, 4c, h/2, w/2)` -/
theorem squeezeSrc_as_coded :
    ∀ s ∈ shapes, match s with
      | (n, c, h, w) =>
        (∀ d < n * c * h * w,
          Gen.Py.permuteSrc ((Gen.squeezeShape n c h w).map Int.toNat) Gen.squeezePerm d = squeezeSrc h w d) ∧
        (Gen.squeezeOutShape n c h w).map Int.toNat = [n, 4 * c, h / 2, w / 2] := by
  decide +kernel

/-- **`unsqueeze_depth2d` = `reshape(n, C//4, 2, 2, H, W).permute(0, 1, 4, 2, 5, 3).reshape(n, C//4, 2H, 2W)`** against
`unsqueezeSrc` (input of size `(n, 4c, h/2, w/2)` for the listed `(n, c, h, w)`) -/
theorem unsqueezeSrc_as_coded :
    ∀ s ∈ shapes, match s with
      | (n, c, h, w) =>
        (∀ d < n * c * h * w,
          Gen.Py.permuteSrc ((Gen.unsqueezeShape n (4 * c) (h / 2 : Nat) (w / 2 : Nat)).map Int.toNat) Gen.unsqueezePerm d =
            unsqueezeSrc (h / 2) (w / 2) d) ∧
        (Gen.unsqueezeOutShape n (4 * c) (h / 2 : Nat) (w / 2 : Nat)).map Int.toNat = [n, c, h / 2 * 2, w / 2 * 2] := by
  decide +kernel

/-! ### (c) `RealNVP2d.build_permutation_matrix` -/

/-- **the four ordering patterns**: `ordering[q, 0, a, b] = 1` exactly where the model's `orderingBit q a b` holds -/
theorem orderingBit_as_coded :
    Gen.rnvpOrdering.length = 4 ∧
    ∀ q < 4, ∀ a < 2, ∀ b < 2,
      orderingBit q a b = ((((Gen.rnvpOrdering.getD q []).getD 0 []).getD a []).getD b 0 == 1) := by
  decide

/-- `weights[4i:4i+4, i:i+1] = ordering`: row `r` of input channel `ci` carries pattern `r − 4·ci` iff it lies in the
block of `i = ci` (checked for up to 4 channels), i.e. the model's `preWeight` -/
theorem preWeight_as_coded :
    ∀ ci : Nat, ci < 4 → Gen.rnvpBlockCols (ci : Int) = ((ci : Int), (ci : Int) + 1) ∧
      ∀ r : Nat, r < 16 → ∀ a < 2, ∀ b < 2,
        preWeight r ci a b =
          (decide ((Gen.rnvpBlockRows (ci : Int)).1 ≤ (r : Int) ∧ (r : Int) < (Gen.rnvpBlockRows (ci : Int)).2) &&
            ((((Gen.rnvpOrdering.getD ((r : Int) - (Gen.rnvpBlockRows (ci : Int)).1).toNat []).getD 0 []).getD a []).getD b 0 == 1)) := by
  decide +kernel

/-- **the channel permutation `[4*i + j for j in [0,1,2,3] for i in range(channels)]`** is the model's `permIndex`
(channels 1…6), and the matrix returned is `weights[permutation]` (`permWeight c o = preWeight (permIndex c o)`) -/
theorem permIndex_as_coded :
    (∀ c ∈ [1, 2, 3, 4, 5, 6],
      (Gen.rnvpPermutation (c : Nat)).map Int.toNat = (List.range (4 * c)).map (permIndex c)) ∧
    Gen.rnvpReturned = "weights[permutation]" ∧
    (∀ c : Nat, (Gen.rnvpWeightsShape c).map Int.toNat = [c * 4, c, 2, 2]) := by
  refine ⟨by decide +kernel, by decide, ?_⟩
  intro c; simp [Gen.rnvpWeightsShape]; omega

theorem permWeight_is_indexed (c o ci a b : Nat) : permWeight c o ci a b = preWeight (permIndex c o) ci a b := rfl

end Deeprob.Oblig.StructFlows
