import DeeprobModel.Oblig.StructPy
import DeeprobModel.Lemmas.CheckLemmas
/-
Static tie of `Model/Net.lean` (`isLabeled`, `isSmooth`, `isDecomposable`, `checkSpn`) to
/repo/deeprob/spn/utils/validity.py (C03): the guard chains of `is_labeled`, `is_smooth`, `is_decomposable` are
translated from the current AST (`Gen.isLabeledChain`, `Gen.isSmoothNode`, `Gen.isDecomposableNode`: index of the
first test that returns a reason) and the hand-written model is shown to make the same decisions, for every net.
-/
set_option linter.unusedSimpArgs false
set_option linter.unusedTactic false
set_option linter.unreachableTactic false
namespace Deeprob.Oblig.StructValidity
open Deeprob Deeprob.Net Deeprob.Oblig.StructPy

variable {α : Type}

/-- `set(a) == set(b)` of the translator's prelude is the model's `scopeEqB` -/
theorem setEqB_eq : Gen.Py.setEqB = Net.scopeEqB := rfl

theorem dedup_length_le (l : List Nat) : (Gen.Py.dedup l).length ≤ l.length := StructPy.dedup_length_le l

/-- `len(set(l)) == len(l)` is the model's duplicate test -/
theorem dedup_length_eq_iff (l : List Nat) : (Gen.Py.dedup l).length = l.length ↔ nodupB l = true :=
  (StructPy.dedup_length_eq_iff l).trans (nodupB_iff l).symm

def wsOf (n : Net α) (i : Nat) : List α := match n[i]? with | some x => x.ws | none => []

/-! ### `is_labeled` -/

def labeledTag : Nat → String
  | 0 => "none-id" | 1 => "repeated" | 2 => "min" | _ => "max"

/-- **`is_labeled`**: on every non-empty node list (`collect_nodes` always contains the root) the model returns the
reason selected by the coded chain `len(ids) != len(nodes)`, `min(ids) != 0`, `max(ids) != len(ids) - 1`
(ids are naturals in the model, so `None in ids` is `false`). -/
theorem isLabeled_as_coded (n : Net α) (nodes : List Nat) (hne : nodes ≠ []) :
    isLabeled n nodes =
      (Gen.isLabeledChain (idOf n) (chOf n) (wsOf n) (scopeOf n) nodes false
        (minL (nodes.map (idOf n))) (maxL (nodes.map (idOf n)))).map labeledTag := by
  rw [isLabeled_unfold]
  unfold Gen.isLabeledChain
  have hpos : 0 < nodes.length := List.length_pos_iff.2 hne
  have hle := dedup_length_le (nodes.map (idOf n))
  have hd := dedup_length_eq_iff (nodes.map (idOf n))
  simp only [List.length_map] at hd hle ⊢
  generalize (Gen.Py.dedup (nodes.map (idOf n))).length = a at *
  generalize minL (nodes.map (idOf n)) = m at *
  generalize maxL (nodes.map (idOf n)) = M at *
  generalize nodes.length = L at *
  cases hN : nodupB (nodes.map (idOf n)) <;> simp only [hN, Bool.false_eq_true, iff_false, iff_true] at hd
  all_goals close_chain labeledTag

/-! ### `is_smooth` -/

def kindOfClass : String → Option Kind
  | "Sum" => some .sum | "Product" => some .prod | _ => none

def smoothTag : Nat → String
  | 0 => "nochildren" | 1 => "weights" | _ => "scopes"

theorem chOf_of (n : Net α) (i : Nat) (x : NNode α) (h : n[i]? = some x) : chOf n i = x.ch := by
  simp [chOf, h]
theorem wsOf_of (n : Net α) (i : Nat) (x : NNode α) (h : n[i]? = some x) : wsOf n i = x.ws := by
  simp [wsOf, h]
theorem scopeOf_of (n : Net α) (i : Nat) (x : NNode α) (h : n[i]? = some x) : scopeOf n i = x.scope := by
  simp [scopeOf, h]

/-- **`is_smooth`** visits the sum nodes and, on each, applies the coded tests in the coded order -/
theorem isSmooth_as_coded (n : Net α) (nodes : List Nat) :
    kindOfClass Gen.isSmoothClass = some .sum ∧
    isSmooth n nodes = nodes.findSome? (fun i => match n[i]? with
      | some x => if x.kind = .sum then
          (Gen.isSmoothNode (idOf n) (chOf n) (wsOf n) (scopeOf n) i).map smoothTag else none
      | none => none) := by
  refine ⟨by decide, ?_⟩
  rw [isSmooth_unfold]
  congr 1; funext i
  cases hx : n[i]? with
  | none => rfl
  | some x =>
    simp only
    split
    · unfold Gen.isSmoothNode
      rw [chOf_of n i x hx, wsOf_of n i x hx, scopeOf_of n i x hx, setEqB_eq]
      simp only [List.any_map, List.all_map, Function.comp_def]
      generalize x.ch.length = a
      generalize x.ws.length = b
      generalize (x.ch.any fun c => !scopeEqB (scopeOf n c) x.scope) = p
      cases p <;> close_chain smoothTag
    · rfl

/-! ### `is_decomposable` -/

def decompTag : Nat → String
  | 0 => "nochildren" | _ => "scopes"

/-- **`is_decomposable`** visits the product nodes; the test is the LENGTH comparison of the concatenated child
scopes with their set (duplicate-freeness) OR-ed with the SET comparison with the node's scope -/
theorem isDecomposable_as_coded (n : Net α) (nodes : List Nat) :
    kindOfClass Gen.isDecomposableClass = some .prod ∧
    isDecomposable n nodes = nodes.findSome? (fun i => match n[i]? with
      | some x => if x.kind = .prod then
          (Gen.isDecomposableNode (idOf n) (chOf n) (wsOf n) (scopeOf n) i).map decompTag else none
      | none => none) := by
  refine ⟨by decide, ?_⟩
  rw [isDecomposable_unfold]
  congr 1; funext i
  cases hx : n[i]? with
  | none => rfl
  | some x =>
    simp only
    split
    · unfold Gen.isDecomposableNode
      rw [chOf_of n i x hx, scopeOf_of n i x hx, setEqB_eq]
      have hd := dedup_length_eq_iff (x.ch.map (scopeOf n)).flatten
      have hle := dedup_length_le (x.ch.map (scopeOf n)).flatten
      simp only []
      generalize (Gen.Py.dedup (x.ch.map (scopeOf n)).flatten).length = a at *
      generalize (x.ch.map (scopeOf n)).flatten.length = L at *
      generalize x.ch.length = k
      generalize scopeEqB x.scope (x.ch.map (scopeOf n)).flatten = q
      cases hN : nodupB (x.ch.map (scopeOf n)).flatten <;>
        simp only [hN, Bool.false_eq_true, iff_false, iff_true] at hd <;>
        cases q <;> close_chain decompTag
    · rfl

/-! ### `check_spn` -/

/-- `check_spn` applies labelled → smooth → decomposable (→ structured decomposable, outside `checkSpn`) in the order
of the model's nested matches -/
theorem checkSpn_order :
    Gen.checkSpnOrder.take 3 = [("labeled", "is_labeled"), ("smooth", "is_smooth"), ("decomposable", "is_decomposable")] ∧
    Gen.checkSpnOrder.drop 3 = [("structured_decomposable", "is_structured_decomposable")] := by decide

end Deeprob.Oblig.StructValidity
