import DeeprobModel.Generated.Consts
/-
Obligation about the re-queue discipline extracted from the current /repo source (C05): the invariant
`learn_inv` / `learn_final_proportions` is proved for the machine with `front := true`.
-/
namespace Deeprob.Oblig.C05

theorem requeue_is_front : Gen.learnRequeueFront = true ∧ Gen.learnRequeueMixed = false := by decide

end Deeprob.Oblig.C05
