import DeeprobModel.Props.E2ECirc
import DeeprobModel.Model.TopDownNet
import DeeprobModel.Props.C06Net
/-
Fifth wave, (c) — the LOOPS of the serial evaluation passes, as extracted (`Gen.S5evalUp…`, `Gen.S5evalDown…`,
`Gen.S5momentLoop`: fragments `evaluation.eval_bottom_up.loop`, `evaluation.eval_top_down.loop`, `moments.moment.loop`), are
the loops that `Props/E2ECirc.lean` (`genTable`, `llTable`, `moGenTable`) and `Model/TopDownNet.lean` (`mpeNetOrd`) write
out by hand.

Reading of the generated definitions.  Nodes are their positions in the stored table (`N = Nat`, `nid = id`, `children =
Net.chOf net`, as in `genEntry`), the table `ls` is a list indexed by node id (`getRow t k = t.getD k 0`, `setRow = List.set`),
`ordering` is any list whose REVERSE is `0, 1, …, n-1` (the table is stored in the order in which the serial loop visits the
nodes: children first).  The generated loop starts from `np.empty`: ANY table `t0` of the right length — on a children-first
table (`WellOrdered`) the unspecified content is overwritten before it is read (`fill_set_eq_append`).
-/
set_option linter.unusedSectionVars false
set_option linter.unusedSimpArgs false
set_option linter.unusedVariables false
namespace Deeprob.Struct5E
open Deeprob Deeprob.E2E

/-! ### filling a table in place = building it by appending -/

section fill
variable {V : Type}

/-- a table of length `n` whose entry `i` is written at step `i` with a value that depends only on the entries below `i`
ends up, whatever it contained at the start, as the table built by appending these values one by one -/
theorem fill_set_eq_append (d : V) (g : (Nat → V) → Nat → V) (t0 : List V)
    (hloc : ∀ i, i < t0.length → ∀ r r' : Nat → V, (∀ c, c < i → r c = r' c) → g r i = g r' i) :
    ∀ k, k ≤ t0.length →
      (List.range k).foldl (fun ls i => ls.set i (g (fun c => ls.getD c d) i)) t0
        = (List.range k).foldl (fun vals i => vals ++ [g (fun c => vals.getD c d) i]) [] ++ t0.drop k
      ∧ ((List.range k).foldl (fun vals i => vals ++ [g (fun c => vals.getD c d) i]) ([] : List V)).length = k := by
  intro k
  induction k with
  | zero => intro _; simp
  | succ k ih =>
    intro hk
    have hk' : k < t0.length := by omega
    obtain ⟨h1, h2⟩ := ih (by omega)
    rw [List.range_succ, List.foldl_append, List.foldl_append, h1]
    simp only [List.foldl_cons, List.foldl_nil]
    generalize hv : (List.range k).foldl (fun vals i => vals ++ [g (fun c => vals.getD c d) i]) ([] : List V) = vals at h1 h2 ⊢
    refine ⟨?_, by simp [h2]⟩
    have hg : g (fun c => (vals ++ t0.drop k).getD c d) k = g (fun c => vals.getD c d) k := by
      apply hloc k hk'
      intro c hc
      simp only [List.getD_eq_getElem?_getD]
      rw [List.getElem?_append_left (by omega)]
    rw [hg]
    have hd : t0.drop k = t0[k] :: t0.drop (k + 1) := List.drop_eq_getElem_cons hk'
    rw [hd, List.set_append]
    simp only [h2, Nat.lt_irrefl, if_false, Nat.sub_self, List.set_cons_zero, List.append_assoc, List.singleton_append]

end fill

section up
variable {F : Type} [Field F] [LinearOrder F] [IsStrictOrderedRing F]

/-- `isinstance(n, Leaf)` for the node stored at index `i` -/
def isLeafAt (net : Net F) (i : Nat) : Bool :=
  match net[i]? with
  | some x => decide (x.kind = .leaf)
  | none => false

/-- the GENERATED task `eval_forward` (`Gen.S5evalUpTask`) on a list table indexed by node id: nodes are table positions,
`leafVal i` = `leaf_func` at the leaf stored at `i`, `nodeF i` = `node_func` at the inner node stored at `i` -/
def upTask (net : Net F) (leafVal : Nat → F) (nodeF : Nat → List F → F) : List F → Nat → List F :=
  Gen.S5evalUpTask (N := Nat) (T := List F) (V := F) id (Net.chOf net) (isLeafAt net) (fun t k => t.getD k 0)
    (fun t k v => t.set k v) leafVal nodeF

/-- the GENERATED serial loop of `eval_bottom_up` (`Gen.S5evalUpLoop` around the generated task) -/
def upLoop (net : Net F) (leafVal : Nat → F) (nodeF : Nat → List F → F) (ordering : List Nat) (t0 : List F) : List F :=
  Gen.S5evalUpLoop (upTask net leafVal nodeF) ordering t0

/-- what one call of the task stores (the value of the hand-written `genEntry` / `llEntry` / `moGenEntry`) -/
def upEntry (net : Net F) (leafVal : Nat → F) (nodeF : Nat → List F → F) (vals : List F) (i : Nat) : F :=
  match net[i]? with
  | none => 0
  | some x =>
    if x.kind = .leaf then leafVal i
    else Gen.S3evalForwardInner (N := Nat) id (Net.chOf net) nodeF (fun c => vals.getD c 0) i

/-- **the generated task writes the row of the visited node, and what it writes in the inner-node branch is the body
extracted earlier** (`Gen.S3evalForwardInner`, fragment `evaluation.eval_forward`) -/
theorem upTask_as_coded (net : Net F) (leafVal : Nat → F) (nodeF : Nat → List F → F) (ls : List F) (i : Nat)
    (x : NNode F) (hx : net[i]? = some x) :
    upTask net leafVal nodeF ls i = ls.set i (upEntry net leafVal nodeF ls i) := by
  unfold upTask Gen.S5evalUpTask upEntry isLeafAt Gen.S3evalForwardInner
  simp only [hx, id]
  by_cases hk : x.kind = .leaf
  · simp [hk]
  · simp [hk]

/-- **the generated loop of `eval_bottom_up` IS the hand-written loop**: run on a children-first table, in an order whose
reverse is the storage order, from ANY initial table of the right length (`np.empty`), it returns the table built by
appending `upEntry` index by index -/
theorem upLoop_as_coded (net : Net F) (hw : WellOrdered net) (leafVal : Nat → F) (nodeF : Nat → List F → F)
    (ordering : List Nat) (hord : ordering.reverse = List.range net.length) (t0 : List F) (ht : t0.length = net.length) :
    upLoop net leafVal nodeF ordering t0
      = (List.range net.length).foldl (fun vals i => vals ++ [upEntry net leafVal nodeF vals i]) [] := by
  unfold upLoop Gen.S5evalUpLoop
  rw [hord]
  -- the entry as a function of the read function
  let g : (Nat → F) → Nat → F := fun r i =>
    match net[i]? with
    | none => 0
    | some x => if x.kind = .leaf then leafVal i else nodeF i ((Net.chOf net i).map r)
  have hE : ∀ vals i, upEntry net leafVal nodeF vals i = g (fun c => vals.getD c 0) i := by
    intro vals i; rfl
  have hloc : ∀ i, i < t0.length → ∀ r r' : Nat → F, (∀ c, c < i → r c = r' c) → g r i = g r' i := by
    intro i hi r r' hr
    have hn : net[i]? = some net[i] := by simp [ht ▸ hi]
    simp only [g, hn]
    by_cases hk : (net[i]).kind = .leaf
    · simp [hk]
    · simp only [hk, if_false]
      congr 1
      apply List.map_congr_left
      intro c hc
      apply hr
      have : Net.chOf net i = (net[i]).ch := by simp [Net.chOf, hn]
      rw [this] at hc
      exact hw i _ hn c hc
  have hT : ∀ (l : List Nat) (t : List F), (∀ i ∈ l, i < net.length) →
      l.foldl (fun st1 x1 => upTask net leafVal nodeF st1 x1) t
        = l.foldl (fun ls i => ls.set i (g (fun c => ls.getD c 0) i)) t := by
    intro l
    induction l with
    | nil => intro t _; rfl
    | cons a l ih =>
      intro t hl
      simp only [List.foldl_cons]
      have ha : a < net.length := hl a (by simp)
      have hn : net[a]? = some net[a] := by simp [ha]
      rw [upTask_as_coded net leafVal nodeF t a _ hn, hE]
      exact ih _ (fun i hi => hl i (by simp [hi]))
  rw [hT _ _ (fun i hi => List.mem_range.1 hi)]
  have := (fill_set_eq_append (0 : F) g t0 hloc t0.length (le_refl _)).1
  rw [List.drop_length, List.append_nil, ht] at this
  rw [this]
  simp only [hE]

/-! ### the three hand-written loops of `Props/E2ECirc.lean` are instances -/

/-- `leaf_func = node.likelihood` on the stored leaves -/
def likLeaf (e : Ev) (leaves : Nat → SrcLeaf F) : Nat → F := fun i => (leaves i).genValue e

/-- **`genTable` is the generated loop** with `leaf_func` = the generated leaf likelihoods, `node_func` = the generated
`node_likelihood` (`genNodeFunc`) -/
theorem genTable_as_coded (e : Ev) (net : Net F) (leaves : Nat → SrcLeaf F) (hw : WellOrdered net)
    (ordering : List Nat) (hord : ordering.reverse = List.range net.length) (t0 : List F) (ht : t0.length = net.length) :
    upLoop net (likLeaf e leaves) (genNodeFunc net) ordering t0 = genTable e net leaves := by
  rw [upLoop_as_coded net hw _ _ ordering hord t0 ht]
  rfl

/-- `leaf_func = node.log_likelihood` (floored) on the stored leaves -/
def llLeaf (E : ExpLog F) (e : Ev) (leaves : Nat → SrcLeaf F) : Nat → F := fun i => llLeafValue E e (leaves i)

/-- **`llTable` is the generated loop** with the generated log-domain leaf / node functions -/
theorem llTable_as_coded (E : ExpLog F) (e : Ev) (net : Net F) (leaves : Nat → SrcLeaf F) (hw : WellOrdered net)
    (ordering : List Nat) (hord : ordering.reverse = List.range net.length) (t0 : List F) (ht : t0.length = net.length) :
    upLoop net (llLeaf E e leaves) (llNodeFunc E net) ordering t0 = llTable E e net leaves := by
  rw [upLoop_as_coded net hw _ _ ordering hord t0 ht]
  rfl

/-- `leaf_func = leaf_moment` (GENERATED `Gen.S3leafMoment`), row `v` of the matrix, on the stored leaves -/
def momLeaf (k v : Nat) (net : Net F) (moms : List F) : Nat → F := fun i =>
  match net[i]? with
  | some x => Gen.S3leafMoment x.scope (fun _ => x.leaf.rawMoment k (moms.getD i 0)) v
  | none => 0

/-- **`moGenTable` is the generated loop** with `leaf_func = leaf_moment`, `node_func = node_likelihood` -/
theorem moGenTable_as_coded (k v : Nat) (net : Net F) (moms : List F) (hw : WellOrdered net)
    (ordering : List Nat) (hord : ordering.reverse = List.range net.length) (t0 : List F) (ht : t0.length = net.length) :
    upLoop net (momLeaf k v net moms) (genNodeFunc net) ordering t0 = moGenTable k v net moms := by
  rw [upLoop_as_coded net hw _ _ ordering hord t0 ht]
  unfold moGenTable
  congr 1
  funext vals i
  unfold upEntry moGenEntry momLeaf
  cases hn : net[i]? <;> simp

/-! ### the whole serial path (`Gen.S5evalUp`) and the pass of `moments.moment` (`Gen.S5momentLoop`) -/

/-- `eval_bottom_up(root, x, leaf_func, node_func)` on one row, serial path, as generated: `topo` = `topological_order`
(`none` = not a DAG: `ValueError`), `empty` = `np.empty` -/
def genEvalUp (net : Net F) (leafVal : Nat → F) (nodeF : Nat → List F → F) (topo : Nat → Option (List Nat))
    (empty : Nat → List F) (root : Nat) : Option (F × List F) :=
  Gen.S5evalUp (N := Nat) id (fun t k => t.getD k 0) (upTask net leafVal nodeF) topo empty root

/-- **the generated serial path returns the root's entry of the hand-written table** -/
theorem evalUp_as_coded (net : Net F) (hw : WellOrdered net) (leafVal : Nat → F) (nodeF : Nat → List F → F)
    (topo : Nat → Option (List Nat)) (empty : Nat → List F) (hempty : ∀ k, (empty k).length = k) (root : Nat)
    (ordering : List Nat) (ho : topo root = some ordering) (hord : ordering.reverse = List.range net.length) :
    genEvalUp net leafVal nodeF topo empty root
      = some (((List.range net.length).foldl (fun vals i => vals ++ [upEntry net leafVal nodeF vals i]) []).getD root 0,
              (List.range net.length).foldl (fun vals i => vals ++ [upEntry net leafVal nodeF vals i]) []) := by
  have hlen : ordering.length = net.length := by
    have := congrArg List.length hord
    simpa using this
  unfold genEvalUp Gen.S5evalUp
  simp only [ho, id]
  have h := upLoop_as_coded net hw leafVal nodeF ordering hord (empty ordering.length) (by rw [hempty, hlen])
  unfold upLoop at h
  rw [h]

/-- a cyclic structure (`topological_order` returns `None`) makes the generated path raise -/
theorem evalUp_raises (net : Net F) (leafVal : Nat → F) (nodeF : Nat → List F → F)
    (topo : Nat → Option (List Nat)) (empty : Nat → List F) (root : Nat) (ho : topo root = none) :
    genEvalUp net leafVal nodeF topo empty root = none := by
  unfold genEvalUp Gen.S5evalUp
  simp only [ho]

/-- `moments.moment(root, order)[v]` after the guards, as generated (`Gen.S5momentLoop`): the generated serial path of
`eval_bottom_up` with `leaf_func = leaf_moment(order)`, `node_func = node_likelihood` -/
def genMoment (v : Nat) (net : Net F) (moms : Nat → List F) (topo : Nat → Option (List Nat)) (empty : Nat → List F)
    (root : Nat) (order : Int) : Option (F × List F) :=
  Gen.S5momentLoop (N := Nat) (V := F) (fun r lf nf => genEvalUp net lf nf topo empty r)
    (fun o => momLeaf o.toNat v net (moms o.toNat)) (genNodeFunc net) root order

/-- **the generated moment pass returns the root's entry of `moGenTable`** -/
theorem moment_as_coded (v : Nat) (net : Net F) (hw : WellOrdered net) (moms : Nat → List F)
    (topo : Nat → Option (List Nat)) (empty : Nat → List F) (hempty : ∀ k, (empty k).length = k) (root : Nat) (order : Int)
    (ordering : List Nat) (ho : topo root = some ordering) (hord : ordering.reverse = List.range net.length) :
    genMoment v net moms topo empty root order
      = some ((moGenTable order.toNat v net (moms order.toNat)).getD root 0, moGenTable order.toNat v net (moms order.toNat)) := by
  have hlen : ordering.length = net.length := by
    have := congrArg List.length hord
    simpa using this
  unfold genMoment Gen.S5momentLoop genEvalUp Gen.S5evalUp
  simp only [ho, id]
  have h := moGenTable_as_coded order.toNat v net (moms order.toNat) hw ordering hord (empty ordering.length)
    (by rw [hempty, hlen])
  unfold upLoop at h
  rw [h]

/-! non-vacuity: the shared-leaf DAG `exNet` of `Props/E2ECirc.lean`, visited in the order `5, 4, 3, 2, 1, 0`, starting from a
table full of `7`s (the content of `np.empty` is never read) -/
example : upLoop E2E.exNet (likLeaf (Ev.ofList [some 1, none]) E2E.exLeaves) (genNodeFunc E2E.exNet) [5, 4, 3, 2, 1, 0] [7, 7, 7, 7, 7, 7]
    = genTable (Ev.ofList [some 1, none]) E2E.exNet E2E.exLeaves :=
  genTable_as_coded _ E2E.exNet E2E.exLeaves E2E.exNet_wellOrdered _ (by decide) _ rfl

example : (upLoop E2E.exNet (likLeaf (Ev.ofList [some 1, none]) E2E.exLeaves) (genNodeFunc E2E.exNet) [5, 4, 3, 2, 1, 0]
    [7, 7, 7, 7, 7, 7]).getD 5 0 = 3/4 := by decide +kernel

/-- the order matters: visiting the nodes parents first (the mutation `for node in ordering`) leaves the unspecified
content of `np.empty` in the result -/
example : (Gen.S5evalUpLoop (upTask E2E.exNet (likLeaf (Ev.ofList [some 1, none]) E2E.exLeaves) (genNodeFunc E2E.exNet))
    [0, 1, 2, 3, 4, 5] [7, 7, 7, 7, 7, 7]).getD 5 0 ≠ 3/4 := by decide +kernel

example : genMoment 1 C19.exNet (fun _ => []) (fun _ => some [5, 4, 3, 2, 1, 0]) (fun k => List.replicate k 7) 5 2
    = some (29/10, moGenTable 2 1 C19.exNet []) := by
  rw [moment_as_coded 1 C19.exNet C19.exNet_wellOrdered _ _ _ (by simp) 5 2 [5, 4, 3, 2, 1, 0] rfl (by decide)]
  have : (moGenTable (2 : Int).toNat 1 C19.exNet []).getD 5 0 = 29/10 := by decide +kernel
  rw [this]; rfl

end up

/-! ### the serial path of `eval_top_down` (`Gen.S5evalDown…`) is the fold `mpeNetOrd` of `Model/TopDownNet.lean`

Masks are read as functions of the node id (`getMask m k = m k`, `setMask = setM`, `np.zeros` = constantly `False`), `x` is the
row (`Ev`), `leaf_func = leaf_mpe` (`LeafP.mode`, written into the leaf's scope), `sum_func = sum_mpe` (first arg-max of
`wᵢ · lls[childᵢ]`).  No hypothesis on the table or on the visiting order is needed: the equality is step by step. -/
section down
variable {α : Type} [Zero α] [One α] [Add α] [Mul α] [LT α] [DecidableLT α]

/-- `masks[k] = b` on masks read as a function of the node id -/
def setM (m : Nat → Bool) (k : Nat) (b : Bool) : Nat → Bool := fun j => if j = k then b else m j

/-- `isinstance(n, <class>)` for the node stored at index `i` -/
def isKindAt (net : Net α) (k : Kind) (i : Nat) : Bool :=
  match net[i]? with
  | some x => decide (x.kind = k)
  | none => false

/-- the GENERATED task `eval_backward` (`Gen.S5evalDownTask`) for one row, with `leaf_func = leaf_mpe`, `sum_func = sum_mpe`
(the readings of `Model/TopDownNet.lean`), `lls` = `vals`; the branch that raises leaves the state unchanged -/
def downTask (net : Net α) (vals : List α) (isBern : Nat → Bool) (st : (Nat → Bool) × Ev) (i : Nat) : (Nat → Bool) × Ev :=
  Gen.S5evalDownTask (N := Nat) (M := Nat → Bool) (X := Ev) (L := α) id (Net.chOf net)
    (isKindAt net .leaf) (isKindAt net .prod) (isKindAt net .sum) (fun m k => m k) setM
    (fun i b x => if b then (match net[i]? with
        | some y => writeScope y.scope (y.leaf.mode (isBern i) x) x
        | none => x) else x)
    (fun i ls => argmax (List.zipWith (· * ·) (match net[i]? with | some y => y.ws | none => []) ls))
    (fun c => vals.getD c 0) st st.1 st.2 i

theorem fold_prod (i : Nat) : ∀ (cs : List Nat) (m : Nat → Bool),
    cs.foldl (fun st1 x1 => setM st1 (id x1) ((st1 (id x1)) || (st1 (id i)))) m
      = fun j => m j || (cs.contains j && m i) := by
  intro cs
  induction cs with
  | nil => intro m; funext j; simp
  | cons c cs ih =>
    intro m
    simp only [List.foldl_cons]
    rw [ih]
    funext j
    simp only [setM, id, List.contains_cons]
    by_cases hj : j = c <;> by_cases hi : i = c <;> simp [hj, hi] <;>
      (cases m j <;> cases m i <;> cases m c <;> cases cs.contains j <;> cases cs.contains c <;> simp_all)

theorem fold_sum (i b : Nat) : ∀ (cs : List Nat) (k : Nat) (m : Nat → Bool),
    (cs.zipIdx k).foldl (fun st1 x1 => setM st1 (id x1.1) ((st1 (id x1.1)) || ((st1 (id i)) && (b == x1.2)))) m
      = fun j => m j || (m i && (decide (k ≤ b) && (cs[b - k]? == some j))) := by
  intro cs
  induction cs with
  | nil => intro k m; funext j; simp
  | cons c cs ih =>
    intro k m
    simp only [List.zipIdx_cons, List.foldl_cons]
    rw [ih]
    funext j
    simp only [setM, id]
    rcases Nat.lt_trichotomy b k with h | h | h
    · have h1 : ¬ k ≤ b := by omega
      have h2 : ¬ k + 1 ≤ b := by omega
      have h3 : (b == k) = false := by simp; omega
      by_cases hj : j = c
      · subst hj; simp [h1, h2, h3]
      · simp [h1, h2, h3, hj]
    · subst h
      have h2 : ¬ b + 1 ≤ b := by omega
      by_cases hj : j = c
      · subst hj
        by_cases hi : i = j
        · subst hi; simp [h2]
        · simp [h2, hi]
      · have hj' : ¬ c = j := fun h => hj h.symm
        by_cases hi : i = c
        · subst hi; simp [h2, hj, hj']
        · simp [h2, hj, hj', hi]
    · have h1 : k ≤ b := by omega
      have h2 : k + 1 ≤ b := by omega
      have h3 : (b == k) = false := by simp; omega
      have h4 : b - k = (b - (k + 1)) + 1 := by omega
      by_cases hj : j = c
      · subst hj
        by_cases hi : i = j
        · subst hi; simp [h1, h2, h3, h4]
        · simp [h1, h2, h3, h4, hi]
      · by_cases hi : i = c
        · subst hi; simp [h1, h2, h3, h4, hj]
        · simp [h1, h2, h3, h4, hj, hi]

/-- **one call of the generated task = one `tdStep`** of `Model/TopDownNet.lean` (masks read as the function `reach`) -/
theorem downTask_as_coded (net : Net α) (vals : List α) (isBern : Nat → Bool) (st : TDState) (i : Nat) :
    downTask net vals isBern (st.reach, st.row) i
      = ((tdStep net vals isBern st i).reach, (tdStep net vals isBern st i).row) := by
  unfold downTask Gen.S5evalDownTask tdStep isKindAt
  cases hn : net[i]? with
  | none => simp
  | some x =>
    simp only [id, hn]
    have hch : Net.chOf net i = x.ch := by simp [Net.chOf, hn]
    cases hk : x.kind with
    | leaf =>
      simp only [decide_true, if_true]
      cases hr : st.reach i <;> simp [hr]
    | prod =>
      simp only [reduceCtorEq, decide_false, decide_true, if_true, Bool.false_eq_true, if_false]
      have h := fold_prod i x.ch st.reach
      simp only [id] at h
      rw [hch, h]
      cases hr : st.reach i
      · simp [hr]
      · simp only [hr, if_true, Bool.and_true, Prod.mk.injEq, and_true]
        funext j
        exact Bool.or_comm _ _
    | sum =>
      simp only [reduceCtorEq, decide_false, decide_true, if_true, Bool.false_eq_true, if_false]
      have h := fold_sum i (argmax (List.zipWith (· * ·) x.ws (x.ch.map (fun c => vals.getD c 0)))) x.ch 0 st.reach
      simp only [id] at h
      rw [hch, h]
      cases hr : st.reach i
      · simp [hr]
      · simp only [hr, if_true, Bool.true_and, Nat.zero_le, decide_true, Nat.sub_zero, Prod.mk.injEq, and_true, sumMpeNet]
        funext j
        exact Bool.or_comm _ _

/-- the GENERATED serial loop of `eval_top_down` (`Gen.S5evalDownLoop` around the generated task) -/
def downLoop (net : Net α) (vals : List α) (isBern : Nat → Bool) (ordering : List Nat) (masks : Nat → Bool) (x : Ev) :
    (Nat → Bool) × Ev :=
  Gen.S5evalDownLoop (downTask net vals isBern) ordering masks x

/-- **the generated loop of `eval_top_down` IS the fold of `tdStep`** over the same visiting order, from the same state -/
theorem downLoop_as_coded (net : Net α) (vals : List α) (isBern : Nat → Bool) (ordering : List Nat) (st : TDState) :
    downLoop net vals isBern ordering st.reach st.row
      = ((ordering.foldl (tdStep net vals isBern) st).reach, (ordering.foldl (tdStep net vals isBern) st).row) := by
  unfold downLoop Gen.S5evalDownLoop
  induction ordering generalizing st with
  | nil => rfl
  | cons a l ih =>
    simp only [List.foldl_cons]
    rw [downTask_as_coded net vals isBern st a]
    exact ih (tdStep net vals isBern st a)

/-- `eval_top_down(root, x, lls, leaf_mpe, sum_mpe)` on one row, serial path, as generated (`Gen.S5evalDown`): `topo` =
`topological_order`, masks as functions of the node id (`np.zeros` = constantly `False`), `lls` = the model's `evalNet` -/
def genEvalDown (e : Ev) (dens : List α) (net : Net α) (isBern : Nat → Bool) (topo : Nat → Option (List Nat)) (root : Nat) :
    Option Ev :=
  Gen.S5evalDown (N := Nat) (M := Nat → Bool) (X := Ev) id setM (downTask net (evalNet e dens net) isBern) topo
    (fun _ _ => false) root e

/-- **the generated serial path of `eval_top_down` returns the row of the hand-written `mpeNetOrd`** (same visiting order) -/
theorem evalDown_as_coded (e : Ev) (dens : List α) (net : Net α) (isBern : Nat → Bool) (topo : Nat → Option (List Nat))
    (root : Nat) (ordering : List Nat) (ho : topo root = some ordering) :
    genEvalDown e dens net isBern topo root = some (mpeNetOrd ordering e dens net root isBern).row := by
  unfold genEvalDown Gen.S5evalDown mpeNetOrd
  simp only [ho, id]
  have h0 : setM (fun _ => false) root true = fun j => j == root := by
    funext j; unfold setM; by_cases h : j = root <;> simp [h]
  rw [h0]
  have h := downLoop_as_coded net (evalNet e dens net) isBern ordering ⟨fun j => j == root, e⟩
  unfold downLoop at h
  rw [h]

/-- without a topological order the generated path raises -/
theorem evalDown_raises (e : Ev) (dens : List α) (net : Net α) (isBern : Nat → Bool) (topo : Nat → Option (List Nat))
    (root : Nat) (ho : topo root = none) : genEvalDown e dens net isBern topo root = none := by
  unfold genEvalDown Gen.S5evalDown
  simp only [ho]

end down

/-! non-vacuity: the 9-node DAG of `Props/C06Net.lean` (node 4 shared by two products), visited root first; the root mask is
needed (the mutation that forgets `masks[root.id] = True` completes nothing) -/
example : (genEvalDown (Ev.ofList [none, some 2, none]) [] C06.exNet C06.exBern (fun _ => some [8, 7, 6, 5, 4, 3, 2, 1, 0]) 8).map
      (fun x => (List.range 3).map x)
    = some ((List.range 3).map (mpeNetOrd [8, 7, 6, 5, 4, 3, 2, 1, 0] (Ev.ofList [none, some 2, none]) [] C06.exNet 8 C06.exBern).row) := by
  rw [evalDown_as_coded _ _ _ _ _ 8 [8, 7, 6, 5, 4, 3, 2, 1, 0] rfl]; rfl

example : ((Gen.S5evalDownLoop (downTask C06.exNet (evalNet (Ev.ofList [none, some 2, none]) [] C06.exNet) C06.exBern)
      [8, 7, 6, 5, 4, 3, 2, 1, 0] (setM (fun _ => false) 8 true) (Ev.ofList [none, some 2, none])).2 0).isSome = true ∧
    ((Gen.S5evalDownLoop (downTask C06.exNet (evalNet (Ev.ofList [none, some 2, none]) [] C06.exNet) C06.exBern)
      [8, 7, 6, 5, 4, 3, 2, 1, 0] (fun _ => false) (Ev.ofList [none, some 2, none])).2 0) = none := by
  constructor <;> decide +kernel

end Deeprob.Struct5E
