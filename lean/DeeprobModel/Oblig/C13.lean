import DeeprobModel.Generated.Formulas
import DeeprobModel.Generated.Consts
import DeeprobModel.Lemmas.RoundLemmas
import Mathlib.Algebra.Order.Field.Rat
import Mathlib.Tactic.Positivity
set_option linter.unusedSimpArgs false
set_option linter.unusedVariables false
/-
C13 — obligations tying the GENERATED constructor guards to the GENERATED fit / EM clamps through the rounding
of the JSON writer: whatever `fit` / `em_step` can store is accepted by the constructor after `round(·, 8)`.
`fit_loadable_gaussian` and `em_loadable_gaussian` do not prove on the pinned source (finding F9: the constructor
rejects `stddev <= 1e-5`, the clamp produces exactly `1e-5`).
All statements are about exact rationals; the reload additionally stores sum weights / array parameters as float32
(relative error 2⁻²⁴ each), which is not modelled.
-/
namespace Deeprob.Oblig.C13
open Deeprob

/-- the writer keeps 8 decimals everywhere (`round(·, 8)`, `np.around(·, 8)`) -/
theorem json_digits : Gen.jsonDigits = 8 := rfl

theorem round8_is_generated (q : ℚ) : round8 q = roundN Gen.jsonDigits q := rfl

/-! ### Gaussian -/

/-- any standard deviation `≥ 10⁻⁵` is accepted by the constructor after rounding -/
theorem gauss_loadable_of_ge (σ : ℚ) (h : 1 / 100000 ≤ σ) : ¬ Gen.gaussCtorRejects (round8 σ) := by
  have := round8_mono h
  rw [round8_1em5] at this
  unfold Gen.gaussCtorRejects
  exact not_lt.2 this

/-- **fit_loadable_gaussian**: what `Gaussian.fit` stores can be loaded -/
theorem fit_loadable_gaussian (s : ℚ) : ¬ Gen.gaussCtorRejects (round8 (Gen.gaussFitClamp s)) :=
  gauss_loadable_of_ge _ (by unfold Gen.gaussFitClamp; exact le_max_right _ _)

/-- **em_loadable_gaussian**: the clamped re-estimate of `Gaussian.em_step` can be loaded; with
`Oblig.C14.gaussian_em_sigma_pos` so can every standard deviation EM ever stores -/
theorem em_loadable_gaussian (s : ℚ) : ¬ Gen.gaussCtorRejects (round8 (Gen.gaussEmClamp s)) :=
  gauss_loadable_of_ge _ (by unfold Gen.gaussEmClamp; exact le_max_right _ _)

/-! ### Bernoulli -/

theorem bern_loadable_of_unit (p : ℚ) (h0 : 0 ≤ p) (h1 : p ≤ 1) : ¬ Gen.bernCtorRejects (round8 p) := by
  have a := round8_mono h0
  have b := round8_mono h1
  rw [round8_zero] at a; rw [round8_one] at b
  unfold Gen.bernCtorRejects
  rintro (h | h) <;> linarith

/-- **fit_loadable_bernoulli**: the Laplace estimate of `Bernoulli.fit` (counts `0 ≤ n1 ≤ n`, `α ≥ 0`, not both
zero) can be loaded -/
theorem fit_loadable_bernoulli (n1 n alpha : ℚ) (h0 : 0 ≤ n1) (h1 : n1 ≤ n) (ha : 0 ≤ alpha) (hpos : 0 < n + 2 * alpha) :
    ¬ Gen.bernCtorRejects (round8 (Gen.bernFit n1 n alpha)) := by
  apply bern_loadable_of_unit
  · unfold Gen.bernFit; exact div_nonneg (by linarith) (le_of_lt hpos)
  · unfold Gen.bernFit; rw [div_le_one hpos]; linarith

/-! ### sums of rounded entries: Sum weights, Categorical probabilities, Isotonic densities -/

theorem tsum_round8_close (ws : List ℚ) :
    |tsum (ws.map round8) - tsum ws| ≤ (ws.length : ℚ) / (2 * 10 ^ 8) := by
  induction ws with
  | nil => simp [tsum]
  | cons w ws ih =>
    simp only [List.map_cons, tsum, List.length_cons, Nat.cast_succ]
    have h1 := round8_err w
    have : round8 w + tsum (ws.map round8) - (w + tsum ws) = (round8 w - w) + (tsum (ws.map round8) - tsum ws) := by ring
    rw [this]
    refine le_trans (abs_add_le _ _) ?_
    have : ((ws.length : ℚ) + 1) / (2 * 10 ^ 8) = 1 / (2 * 10 ^ 8) + (ws.length : ℚ) / (2 * 10 ^ 8) := by ring
    rw [this]; linarith

/-- the `np.isclose(total, 1.0)` test of the constructors passes for a total within 5·10⁻⁶ of one -/
theorem isclose_of_close (total : ℚ) (h : |total - 1| ≤ 1000 / (2 * 10 ^ 8)) :
    (max (total - 1) (-(total - 1)) ≤ 1 / 100000000 + 1 / 100000 * max (1 : ℚ) (-1)) := by
  have h1 : max (1 : ℚ) (-1) = 1 := by norm_num
  rw [h1]
  rw [abs_le] at h
  apply max_le <;> norm_num at h ⊢ <;> linarith [h.1, h.2]

theorem rounded_total_close (ws : List ℚ) (hsum : tsum ws = 1) (hn : ws.length ≤ 1000) :
    |tsum (ws.map round8) - 1| ≤ 1000 / (2 * 10 ^ 8) := by
  have := tsum_round8_close ws
  rw [hsum] at this
  refine le_trans this ?_
  apply div_le_div_of_nonneg_right _ (by positivity)
  exact_mod_cast hn

/-- **weights_loadable**: the rounded weights of a sum node with at most 10³ children pass `Sum.__init__` -/
theorem weights_loadable (ws : List ℚ) (hsum : tsum ws = 1) (hn : ws.length ≤ 1000) :
    ¬ Gen.sumCtorRejects (tsum (ws.map round8)) := by
  unfold Gen.sumCtorRejects
  exact not_not.2 (isclose_of_close _ (rounded_total_close ws hsum hn))

/-- **fit_loadable_categorical** (constructor side): rounded probabilities pass `Categorical.__init__` -/
theorem probabilities_loadable (ps : List ℚ) (hsum : tsum ps = 1) (hn : ps.length ≤ 1000) :
    ¬ Gen.catCtorRejects (tsum (ps.map round8)) := by
  unfold Gen.catCtorRejects
  exact not_not.2 (isclose_of_close _ (rounded_total_close ps hsum hn))

/-- **fit_loadable_isotonic** (constructor side): rounded densities pass `Isotonic.__init__` -/
theorem densities_loadable (ds : List ℚ) (hsum : tsum ds = 1) (hn : ds.length ≤ 1000) :
    ¬ Gen.isoCtorRejects (tsum (ds.map round8)) := by
  unfold Gen.isoCtorRejects
  exact not_not.2 (isclose_of_close _ (rounded_total_close ds hsum hn))

/-- **fit_loadable_categorical** (fit side): the Laplace estimates of `Categorical.fit` sum to one when the
per-category counts add up to the number of rows -/
theorem catFit_sum_one (counts : List ℚ) (n alpha : ℚ) (hc : tsum counts = n)
    (hpos : 0 < n + (counts.length : ℚ) * alpha) :
    tsum (counts.map (fun nd => Gen.catFit nd n (counts.length : ℚ) alpha)) = 1 := by
  have : ∀ (l : List ℚ) (D : ℚ), tsum (l.map (fun nd => (nd + alpha) / D)) = (tsum l + (l.length : ℚ) * alpha) / D := by
    intro l D
    induction l with
    | nil => simp [tsum]
    | cons x xs ih => simp only [List.map_cons, tsum, ih, List.length_cons, Nat.cast_succ]; ring
  unfold Gen.catFit
  rw [this, hc, div_self (ne_of_gt hpos)]

end Deeprob.Oblig.C13
