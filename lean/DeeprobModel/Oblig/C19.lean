import DeeprobModel.Generated.Formulas
import Mathlib.Tactic.Ring
import Mathlib.Tactic.FieldSimp
import Mathlib.Tactic.Linarith
/-
C19 — obligations about the GENERATED derived statistics of `moments.py`
(`variance`, `skewness`, `kurtosis` as functions of the raw moments m1..m4).
`skewness_is_central3` does not prove on the pinned source (finding F12: `g3 = 3·m2 + 2·m1²`).
-/
set_option linter.unusedSectionVars false
namespace Deeprob.Oblig.C19
variable {F : Type} [Field F] [LinearOrder F]

/-- `variance` is the second central moment -/
theorem variance_is_central2 (m1 m2 m3 m4 : F) : Gen.variance m1 m2 m3 m4 = m2 - m1 ^ 2 := by
  unfold Gen.variance; ring

/-- `skewness` is the third central moment over σ³ (σ² to the power 3/2) -/
theorem skewness_is_central3 (E : ExpLog F) (m1 m2 m3 m4 : F) :
    Gen.skewness E m1 m2 m3 m4 = (m3 - 3 * m1 * m2 + 2 * m1 ^ 3) / E.rpow (m2 - m1 ^ 2) 3 2 := by
  unfold Gen.skewness; ring

/-- the numerator / denominator-base split used by the driver is the coded quotient -/
theorem skewness_parts (E : ExpLog F) (m1 m2 m3 m4 : F) :
    Gen.skewness E m1 m2 m3 m4 = Gen.skewnessNum m1 m2 m3 m4 / E.rpow (Gen.skewnessDenBase m1 m2 m3 m4) 3 2 := rfl

/-- with `σ² ≥ 0`: skewness = μ₃ / (σ² · σ) -/
theorem skewness_sigma (E : ExpLog F) (m1 m2 m3 m4 : F) (h : 0 ≤ m2 - m1 ^ 2) :
    Gen.skewness E m1 m2 m3 m4 = (m3 - 3 * m1 * m2 + 2 * m1 ^ 3) / ((m2 - m1 ^ 2) * E.sqrt (m2 - m1 ^ 2)) := by
  rw [skewness_is_central3, E.rpow_three_halves _ h]

/-- `kurtosis` is the excess kurtosis: fourth central moment over σ⁴, minus 3 -/
theorem kurtosis_is_excess (m1 m2 m3 m4 : F) (h : m2 - m1 ^ 2 ≠ 0) :
    Gen.kurtosis m1 m2 m3 m4 = (m4 - 4 * m1 * m3 + 6 * m1 ^ 2 * m2 - 3 * m1 ^ 4) / (m2 - m1 ^ 2) ^ 2 - 3 := by
  unfold Gen.kurtosis; field_simp; ring

/-- the three polynomials really are the central moments: for any linear functional `Ex` with `Ex 1 = 1`
    (written on the monomials: `Ex[X^j] = m j`), `Ex[(X − m1)^j]` expands as stated -/
theorem central_expansions (m1 m2 m3 m4 : F) :
    (m2 - 2 * m1 * m1 + m1 ^ 2 * 1 = m2 - m1 ^ 2) ∧
    (m3 - 3 * m1 * m2 + 3 * m1 ^ 2 * m1 - m1 ^ 3 * 1 = m3 - 3 * m1 * m2 + 2 * m1 ^ 3) ∧
    (m4 - 4 * m1 * m3 + 6 * m1 ^ 2 * m2 - 4 * m1 ^ 3 * m1 + m1 ^ 4 * 1
        = m4 - 4 * m1 * m3 + 6 * m1 ^ 2 * m2 - 3 * m1 ^ 4) := by
  refine ⟨by ring, by ring, by ring⟩

/-- `moment` rejects exactly the negative orders -/
theorem moment_guard (order : F) : Gen.momentRejects order ↔ order < 0 := Iff.rfl

end Deeprob.Oblig.C19
