import DeeprobModel.Generated.Formulas
import DeeprobModel.Generated.FormulasRat
import Mathlib.Algebra.Order.Field.Rat
/-
The Mathlib-free copy `Deeprob.GenRat` of the generated formulas (what the driver executes at `Rat`) is, formula by
formula, the generated definition `Deeprob.Gen` instantiated at the field ℚ — by `rfl`. (Both files are printed
from the same translated terms; this file makes the kernel check it. One line per formula the driver uses: if the
translator stops emitting one of them, this file stops building.)
-/
namespace Deeprob.Oblig.GenRat
open Deeprob

theorem variance (m1 m2 m3 m4 : ℚ) : GenRat.variance m1 m2 m3 m4 = Gen.variance m1 m2 m3 m4 := rfl
theorem kurtosis (m1 m2 m3 m4 : ℚ) : GenRat.kurtosis m1 m2 m3 m4 = Gen.kurtosis m1 m2 m3 m4 := rfl
theorem skewnessNum (m1 m2 m3 m4 : ℚ) : GenRat.skewnessNum m1 m2 m3 m4 = Gen.skewnessNum m1 m2 m3 m4 := rfl
theorem skewnessDenBase (m1 m2 m3 m4 : ℚ) : GenRat.skewnessDenBase m1 m2 m3 m4 = Gen.skewnessDenBase m1 m2 m3 m4 := rfl
theorem sumEmUnnorm (w s : ℚ) : GenRat.sumEmUnnorm w s = Gen.sumEmUnnorm w s := rfl
theorem sumEmNew (eta w s Z : ℚ) : GenRat.sumEmNew eta w s Z = Gen.sumEmNew eta w s Z := rfl
theorem bernEmReest (S1 T : ℚ) : GenRat.bernEmReest S1 T = Gen.bernEmReest S1 T := rfl
theorem bernEmNew (eta p S1 T : ℚ) : GenRat.bernEmNew eta p S1 T = Gen.bernEmNew eta p S1 T := rfl
theorem catEmReest (Sd T K : ℚ) : GenRat.catEmReest Sd T K = Gen.catEmReest Sd T K := rfl
theorem catEmNew (eta p Sd T K : ℚ) : GenRat.catEmNew eta p Sd T K = Gen.catEmNew eta p Sd T K := rfl
theorem gaussEmTotal (T : ℚ) : GenRat.gaussEmTotal T = Gen.gaussEmTotal T := rfl
theorem gaussEmMeanReest (Sx T : ℚ) : GenRat.gaussEmMeanReest Sx T = Gen.gaussEmMeanReest Sx T := rfl
theorem gaussEmMeanNew (eta mu Sx T : ℚ) : GenRat.gaussEmMeanNew eta mu Sx T = Gen.gaussEmMeanNew eta mu Sx T := rfl
theorem cltEmPrior1 (P T : ℚ) : GenRat.cltEmPrior1 P T = Gen.cltEmPrior1 P T := rfl
theorem cltEmPrior0 (P T : ℚ) : GenRat.cltEmPrior0 P T = Gen.cltEmPrior0 P T := rfl
theorem cltEmCond1 (C1 : ℚ) : GenRat.cltEmCond1 C1 = Gen.cltEmCond1 C1 := rfl
theorem cltEmCond0 (P C1 : ℚ) : GenRat.cltEmCond0 P C1 = Gen.cltEmCond0 P C1 := rfl
theorem cltEmCell1 (C T Pp : ℚ) : GenRat.cltEmCell1 C T Pp = Gen.cltEmCell1 C T Pp := rfl
theorem cltEmCell0 (C T Pp : ℚ) : GenRat.cltEmCell0 C T Pp = Gen.cltEmCell0 C T Pp := rfl
theorem cltEmNew (eta old q Z : ℚ) : GenRat.cltEmNew eta old q Z = Gen.cltEmNew eta old q Z := rfl
theorem gaussEmStdArg (V T : ℚ) : GenRat.gaussEmStdArg V T = Gen.gaussEmStdArg V T := rfl
theorem gaussEmStdOf (eta sigma r : ℚ) : GenRat.gaussEmStdOf eta sigma r = Gen.gaussEmStdOf eta sigma r := rfl
theorem gaussFitClamp (s : ℚ) : GenRat.gaussFitClamp s = Gen.gaussFitClamp s := rfl
theorem gaussEmClamp (s : ℚ) : GenRat.gaussEmClamp s = Gen.gaussEmClamp s := rfl
theorem bernFit (n1 n alpha : ℚ) : GenRat.bernFit n1 n alpha = Gen.bernFit n1 n alpha := rfl
theorem catFit (nd n K alpha : ℚ) : GenRat.catFit nd n K alpha = Gen.catFit nd n K alpha := rfl

end Deeprob.Oblig.GenRat
