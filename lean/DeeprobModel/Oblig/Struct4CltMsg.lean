import DeeprobModel.Oblig.Struct4Clt
import DeeprobModel.Lemmas.CltLemmas
/-
Fourth wave, (b) continued — the upward pass of `BinaryCLT.message_passing` (`Gen.S4cltMessages`, `Gen.S4cltRootValue`: the
loop body and the root value read on ONE row from the current AST) against the recursions `Clt.up` / `Clt.upMax` /
`Clt.value` of `Model/Clt.lean`, `Model/CltPc.lean` — C02, C06.

Linear-domain reading as in `Struct4Clt.lean`: `+ ↦ *`, `0 ↦ 1` (the `np.zeros` the messages start from), `logsumexp ↦` the
carrier's sum, `np.max ↦` the carrier's max (with the unit 0 of the model's max-times instance), `params[i, l, k] ↦ cptAt`.
-/
set_option linter.unusedSectionVars false
set_option linter.unusedSimpArgs false
set_option linter.unusedVariables false
namespace Deeprob.Struct4
open Deeprob Deeprob.Clt

section generic
variable {α : Type} [Zero α] [Add α]

/-- one iteration of `for j in reversed(self.bfs[1:])` on one row (the body as extracted) -/
def msgStep (params : Int → Int → Int → α) (tree : List Int) (logsumexp npMax : List α → α) (raised : List (List α))
    (x : List (Option Nat)) (obs_mask : List Bool) (reduce : String) (messages : List (List α)) (j : Int) : List (List α) :=
  let mask := Gen.Py4.getI obs_mask j false
  let obs_values : Int := ((Gen.Py3.val (Gen.Py4.getI x j none) : Nat) : Int)
  let msg := Gen.Py4.getI messages j []
  let tj := Gen.Py4.getI tree j 0
  let messages := if mask then Gen.Py4.updI messages tj (List.zipWith (fun a b => a + b) (Gen.Py4.getI messages tj [])
      ((Gen.Py4.vec2 (fun l => params j l obs_values)).map (fun a => a + Gen.Py4.getI msg obs_values 0))) else messages
  let parent_msg := (Gen.Py4.vec2 (fun l => Gen.Py4.vec2 (fun k => params j l k))).map (fun row => List.zipWith (fun a b => a + b) row msg)
  if reduce == "mar" then
    (if !mask then Gen.Py4.updI messages tj (List.zipWith (fun a b => a + b) (Gen.Py4.getI messages tj []) (parent_msg.map logsumexp))
     else messages)
  else if reduce == "mpe" then
    (if !mask then Gen.Py4.updI messages tj (List.zipWith (fun a b => a + b) (Gen.Py4.getI messages tj []) (parent_msg.map npMax))
     else messages)
  else raised

/-- **the upward pass as coded**: messages start from `np.zeros((n_features, ·, 2))` and the variables are visited in the
REVERSED order of `self.bfs[1:]` (children before parents), each adding (`+=`) its message into the row of its parent
`self.tree[j]`: an observed variable contributes `params[j, :, o] + messages[j][o]`, a missing one the reduction over its own
value of `params[j] + messages[j]` — `logsumexp` for 'mar', `np.max` for 'mpe', anything else raises -/
theorem messages_as_coded (params : Int → Int → Int → α) (root : Int) (bfs tree : List Int) (lse mx : List α → α)
    (raised : List (List α)) (nRows : Nat) (x : List (Option Nat)) (obs : List Bool) (reduce : String) :
    Gen.S4cltMessages params root bfs tree lse mx raised nRows x obs reduce =
      ((bfs.drop 1).reverse).foldl (msgStep params tree lse mx raised x obs reduce) (List.replicate x.length [0, 0]) := by
  unfold Gen.S4cltMessages
  simp only [drop_one, Int.toNat_natCast]
  rfl

end generic

/-- the defining equation of `up`, for any instances (used with `+ := max`) -/
theorem up_unfold {α : Type} [Zero α] [One α] [Add α] [Mul α] (scope : List Nat) (cpt : List (List (List α))) (i : Nat)
    (cs : List RTree) (l : Nat) (e : Ev) :
    up scope cpt (.node i cs) l e =
      (match e (scope.getD i 0) with
       | some o => cptAt cpt i l o * lprod (cs.map (fun c => up scope cpt c o e))
       | none => sumVar 2 (fun k => cptAt cpt i l k * lprod (cs.map (fun c => up scope cpt c k e)))) := by
  rw [up]
  cases e (scope.getD i 0) <;> rfl

section linear
variable {α : Type} [CommSemiring α]

/-- the carrier's sum / max of a vector: what `logsumexp` / `np.max` along the value axis are in the linear domain -/
def sumL (v : List α) : α := v.foldr (fun a b => a + b) 0
def maxL [Max α] (v : List α) : α := v.foldr max 0

theorem getI_pair_zero (a b d : α) : Gen.Py4.getI [a, b] (0 : Int) d = a := rfl
theorem getI_pair_one (a b d : α) : Gen.Py4.getI [a, b] (1 : Int) d = b := rfl

theorem updI_natCast {β : Type} (a : List β) (p : Nat) (v : β) : Gen.Py4.updI a (p : Int) v = a.set p v := by
  unfold Gen.Py4.updI
  have hn : ¬ ((p : Int) < 0) := by omega
  simp [hn]

theorem getI_natCast' {β : Type} (a : List β) (j : Nat) (d : β) : Gen.Py4.getI a (j : Int) d = a.getD j d := by
  unfold Gen.Py4.getI
  have hn : ¬ ((j : Int) < 0) := by omega
  simp [hn]

/-- **one iteration is one factor of the model's upward recursion (sum-product).**  When the row of variable `j` already
holds the products of its children's messages (`msgAt`), the iteration multiplies the two entries of its parent's row by
`up … (node j cs) 0 e` and `up … (node j cs) 1 e`: the observed case keeps the single term of the observed value, the
missing case sums over the variable's own value.  (`o < 2` for an observed value: the data are binary.) -/
theorem msgStep_mar_is_up (scope : List Nat) (cpt : List (List (List α))) (e : Ev) (tree : List Int) (mx : List α → α)
    (raised : List (List α)) (x : List (Option Nat)) (obs : List Bool) (messages : List (List α)) (j p : Nat) (cs : List RTree)
    (a0 a1 : α)
    (hx : e (scope.getD j 0) = x.getD j none) (hobs : obs.getD j false = (x.getD j none).isSome)
    (hbin : ∀ o, x.getD j none = some o → o < 2)
    (hp : Gen.Py4.getI tree (j : Int) 0 = (p : Int))
    (hj : messages.getD j [] = [msgAt scope cpt cs 0 e, msgAt scope cpt cs 1 e])
    (hpm : messages.getD p [] = [a0, a1]) :
    @msgStep α ⟨1⟩ ⟨(· * ·)⟩ (fun i l k => cptAt cpt i.toNat l.toNat k.toNat) tree sumL mx raised x obs "mar" messages (j : Int) =
      messages.set p [a0 * up scope cpt (.node j cs) 0 e, a1 * up scope cpt (.node j cs) 1 e] := by
  unfold msgStep
  simp only [hp, getI_natCast', updI_natCast, hj, hpm, hobs, Int.toNat_natCast, beq_self_eq_true, if_true]
  rw [up, up]
  cases hv : x.getD j none with
  | some o =>
    have ho := hbin o hv
    have hev : e (scope.getD j 0) = some o := by rw [hx, hv]
    simp only [hev, Option.isSome_some, if_true, Bool.not_true, Bool.false_eq_true, if_false, Gen.Py3.val, Option.getD_some]
    have ho' : o = 0 ∨ o = 1 := by omega
    rcases ho' with rfl | rfl
    · simp only [Gen.Py4.vec2, List.map_cons, List.map_nil, List.zipWith_cons_cons, List.zipWith_nil_right, Nat.cast_zero,
        Int.toNat_zero, getI_pair_zero, msgAt]
      rfl
    · simp only [Gen.Py4.vec2, List.map_cons, List.map_nil, List.zipWith_cons_cons, List.zipWith_nil_right, Nat.cast_one,
        getI_pair_one, msgAt]
      rfl
  | none =>
    have hev : e (scope.getD j 0) = none := by rw [hx, hv]
    simp only [hev, Option.isSome_none, Bool.false_eq_true, if_false, Bool.not_false, if_true, Gen.Py4.vec2, List.map_cons,
      List.map_nil, List.zipWith_cons_cons, List.zipWith_nil_right, sumL, List.foldr_cons, List.foldr_nil, msgAt, sumVar,
      List.range_succ, List.range_zero, List.nil_append, List.cons_append, Int.toNat_zero, hpm]
    rfl

/-- **the value returned with `return_lls=True` is the model's message of the root with row 0** (hence `Clt.value`): an
observed root contributes `params[root, 0, o] + messages[root][o]`, a missing one `logsumexp(params[root, 0] + messages[root])`;
every row is written (`np.empty` leaves no entry behind) -/
theorem rootValue_is_up (scope : List Nat) (cpt : List (List (List α))) (e : Ev) (bfs tree : List Int) (mx : List α → α)
    (nRows : Nat) (x : List (Option Nat)) (obs : List Bool) (messages : List (List α)) (r : Nat) (cs : List RTree)
    (hx : e (scope.getD r 0) = x.getD r none) (hobs : obs.getD r false = (x.getD r none).isSome)
    (hbin : ∀ o, x.getD r none = some o → o < 2)
    (hr : messages.getD r [] = [msgAt scope cpt cs 0 e, msgAt scope cpt cs 1 e]) :
    @Gen.S4cltRootValue α ⟨1⟩ ⟨(· * ·)⟩ (fun i l k => cptAt cpt i.toNat l.toNat k.toNat) (r : Int) bfs tree sumL mx nRows x obs messages =
      some (up scope cpt (.node r cs) 0 e) := by
  unfold Gen.S4cltRootValue
  simp only [getI_natCast', hr, hobs, Int.toNat_natCast]
  rw [up]
  cases hv : x.getD r none with
  | some o =>
    have ho := hbin o hv
    have hev : e (scope.getD r 0) = some o := by rw [hx, hv]
    simp only [hev, Option.isSome_some, if_true, Bool.not_true, Bool.false_eq_true, if_false, Gen.Py3.val, Option.getD_some]
    have ho' : o = 0 ∨ o = 1 := by omega
    rcases ho' with rfl | rfl
    · simp only [Nat.cast_zero, Int.toNat_zero, getI_pair_zero, msgAt]; rfl
    · simp only [Nat.cast_one, getI_pair_one, msgAt]; rfl
  | none =>
    have hev : e (scope.getD r 0) = none := by rw [hx, hv]
    simp only [hev, Option.isSome_none, Bool.false_eq_true, if_false, Bool.not_false, if_true, Gen.Py4.vec2,
      List.zipWith_cons_cons, List.zipWith_nil_right, sumL, List.foldr_cons, List.foldr_nil, msgAt, sumVar,
      List.range_succ, List.range_zero, List.nil_append, List.cons_append, Int.toNat_zero]
    rfl

end linear

section maxprod
variable {α : Type} [CommSemiring α] [LinearOrder α]

/-- **… and one factor of the max-product recursion** (`reduce='mpe'`: `np.max` along the variable's own value): the model's
`upMax`, with the messages of the children in max-product form (`msgMax`) -/
theorem msgStep_mpe_is_upMax (scope : List Nat) (cpt : List (List (List α))) (e : Ev) (tree : List Int) (lse : List α → α)
    (raised : List (List α)) (x : List (Option Nat)) (obs : List Bool) (messages : List (List α)) (j p : Nat) (cs : List RTree)
    (a0 a1 : α)
    (hx : e (scope.getD j 0) = x.getD j none) (hobs : obs.getD j false = (x.getD j none).isSome)
    (hbin : ∀ o, x.getD j none = some o → o < 2)
    (hp : Gen.Py4.getI tree (j : Int) 0 = (p : Int))
    (hj : messages.getD j [] = [msgMax scope cpt cs 0 e, msgMax scope cpt cs 1 e])
    (hpm : messages.getD p [] = [a0, a1]) :
    @msgStep α ⟨1⟩ ⟨(· * ·)⟩ (fun i l k => cptAt cpt i.toNat l.toNat k.toNat) tree lse maxL raised x obs "mpe" messages (j : Int) =
      messages.set p [a0 * upMax scope cpt (.node j cs) 0 e, a1 * upMax scope cpt (.node j cs) 1 e] := by
  unfold msgStep
  have hne : ("mpe" == "mar") = false := by decide
  simp only [hp, getI_natCast', updI_natCast, hj, hpm, hobs, Int.toNat_natCast, beq_self_eq_true, if_true, hne,
    Bool.false_eq_true, if_false]
  unfold upMax
  rw [@up_unfold α _ _ ⟨max⟩ _, @up_unfold α _ _ ⟨max⟩ _]
  cases hv : x.getD j none with
  | some o =>
    have ho := hbin o hv
    have hev : e (scope.getD j 0) = some o := by rw [hx, hv]
    simp only [hev, Option.isSome_some, if_true, Bool.not_true, Bool.false_eq_true, if_false, Gen.Py3.val, Option.getD_some]
    have ho' : o = 0 ∨ o = 1 := by omega
    rcases ho' with rfl | rfl
    · simp only [Gen.Py4.vec2, List.map_cons, List.map_nil, List.zipWith_cons_cons, List.zipWith_nil_right, Nat.cast_zero,
        Int.toNat_zero, getI_pair_zero, msgMax, upMax]
      rfl
    · simp only [Gen.Py4.vec2, List.map_cons, List.map_nil, List.zipWith_cons_cons, List.zipWith_nil_right, Nat.cast_one,
        getI_pair_one, msgMax, upMax]
      rfl
  | none =>
    have hev : e (scope.getD j 0) = none := by rw [hx, hv]
    simp only [hev, Option.isSome_none, Bool.false_eq_true, if_false, Bool.not_false, if_true, Gen.Py4.vec2, List.map_cons,
      List.map_nil, List.zipWith_cons_cons, List.zipWith_nil_right, maxL, List.foldr_cons, List.foldr_nil, msgMax, upMax, sumVar,
      List.range_succ, List.range_zero, List.nil_append, List.cons_append, Int.toNat_zero, hpm]
    rfl

/-- non-vacuity (both reductions, at `ℕ` with un-normalised tables): variable 1 (a leaf, missing) sends its message to its
parent 0 whose row is still `[1, 1]` -/
example :
    let cpt : List (List (List ℕ)) := [[[1, 2], [1, 2]], [[1, 3], [2, 1]]]
    let params : Int → Int → Int → ℕ := fun i l k => cptAt cpt i.toNat l.toNat k.toNat
    @Gen.S4cltMessages ℕ ⟨1⟩ ⟨(· * ·)⟩ params 0 [0, 1] [-1, 0] sumL maxL [] 1 [none, none] [false, false] "mar" = [[4, 3], [1, 1]] ∧
    @Gen.S4cltMessages ℕ ⟨1⟩ ⟨(· * ·)⟩ params 0 [0, 1] [-1, 0] sumL maxL [] 1 [none, none] [false, false] "mpe" = [[3, 2], [1, 1]] ∧
    @Gen.S4cltMessages ℕ ⟨1⟩ ⟨(· * ·)⟩ params 0 [0, 1] [-1, 0] sumL maxL [] 1 [none, some 1] [false, true] "mar" = [[3, 1], [1, 1]] ∧
    @Gen.S4cltRootValue ℕ ⟨1⟩ ⟨(· * ·)⟩ params 0 [0, 1] [-1, 0] sumL maxL 1 [none, none] [false, false] [[4, 3], [1, 1]] = some (1 * 4 + (2 * 3 + 0)) := by
  decide

end maxprod

end Deeprob.Struct4
