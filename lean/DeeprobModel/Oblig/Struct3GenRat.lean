import DeeprobModel.Generated.Formulas
import DeeprobModel.Generated.FormulasRat
import Mathlib.Algebra.Order.Field.Rat
/-
Third wave: the Mathlib-free copies `Deeprob.GenRat.S3…` executed by the driver (`Driver/OpsStruct3.lean`) are, formula by
formula, the generated definitions `Deeprob.Gen.S3…` at the field ℚ — by `rfl` (same role as `Oblig/GenRat.lean`).
-/
namespace Deeprob.Struct3.GenRat
open Deeprob

theorem S3sumLikelihood (w x : List ℚ) : GenRat.S3sumLikelihood w x = Gen.S3sumLikelihood w x := rfl
theorem S3productLikelihood (x : List ℚ) : GenRat.S3productLikelihood x = Gen.S3productLikelihood x := rfl
theorem S3productLogLikelihood (x : List ℚ) : GenRat.S3productLogLikelihood x = Gen.S3productLogLikelihood x := rfl
theorem S3nodeLikelihood (f : List ℚ → ℚ) (x : List ℚ) : GenRat.S3nodeLikelihood f x = Gen.S3nodeLikelihood f x := rfl
theorem S3nodeLogLikelihood (f : List ℚ → ℚ) (x : List ℚ) : GenRat.S3nodeLogLikelihood f x = Gen.S3nodeLogLikelihood f x := rfl
theorem S3evalForwardInner {N : Type} (nid : N → Nat) (children : N → List N) (g : N → List ℚ → ℚ) (ls : Nat → ℚ) (n : N) :
    GenRat.S3evalForwardInner nid children g ls n = Gen.S3evalForwardInner nid children g ls n := rfl
theorem S3bernoulliLikelihood (p : ℚ) (x : Option Nat) : GenRat.S3bernoulliLikelihood p x = Gen.S3bernoulliLikelihood p x := rfl
theorem S3categoricalLikelihood (c : List Nat) (p : List ℚ) (x : Option Nat) :
    GenRat.S3categoricalLikelihood c p x = Gen.S3categoricalLikelihood c p x := rfl
theorem S3leafMoment (s : List Nat) (m : Nat → ℚ) (v : Nat) : GenRat.S3leafMoment s m v = Gen.S3leafMoment s m v := rfl

end Deeprob.Struct3.GenRat
