import DeeprobModel.Oblig.Struct3Inference
import DeeprobModel.Model.Em
import DeeprobModel.Spec.RealExpLog
import Mathlib.Tactic.FieldSimp
/-
Third wave, (g) — static tie of `Model/Em.lean` (`respSum`, `respLeaf`) to
/repo/deeprob/spn/learning/em.py (`expectation_maximization`: the `stats` handed to `Sum.em_step` / `Leaf.em_step`) — C14.
(`Sum.em_step` itself is the existing fragment `Sum.em_step`, obligations in `Oblig/C14.lean`.)
-/
set_option linter.unusedSectionVars false
set_option linter.unusedSimpArgs false
set_option linter.unusedVariables false
namespace Deeprob.Struct3
open Deeprob

variable {F : Type} [Field F] [LinearOrder F] [IsStrictOrderedRing F]

theorem exp_sub_add (E : ExpLog F) (a b c : F) : E.exp (a - b + c) = E.exp a * E.exp c / E.exp b := by
  have hb : E.exp b ≠ 0 := ne_of_gt (E.exp_pos b)
  have h : E.exp (a - b + c) * E.exp b = E.exp a * E.exp c := by
    rw [← E.exp_add, ← E.exp_add]; congr 1; ring
  field_simp
  exact h

/-- **`stats = np.exp(children_ll - root_ll + grads[node.id])`** is, in the linear domain, `value(child) · grad(node) /
value(root)` — the model's `respSum` entry (values and gradient positive, so that they have logarithms) -/
theorem resp_entry_as_coded (E : ExpLog F) (vc vr g : F) (hc : 0 < vc) (hr : 0 < vr) (hg : 0 < g) :
    Gen.S3emRespSum E (E.log vc) (E.log vr) (E.log g) = vc * g / vr ∧
    Gen.S3emRespLeaf E (E.log vc) (E.log vr) (E.log g) = vc * g / vr := by
  unfold Gen.S3emRespSum Gen.S3emRespLeaf
  rw [exp_sub_add, E.exp_log vc hc, E.exp_log vr hr, E.exp_log g hg]
  exact ⟨rfl, rfl⟩

/-- the children rows are `lls[ids of node.children, in order]`: `respSum` maps over `x.ch` in order -/
theorem respSum_as_coded (E : ExpLog F) (vals grads : List F) (root i : Nat) (x : NNode F)
    (hpos : ∀ c ∈ x.ch, 0 < vals.getD c 0) (hr : 0 < vals.getD root 0) (hg : 0 < grads.getD i 0) :
    respSum vals grads root i x =
      x.ch.map (fun c => Gen.S3emRespSum E (E.log (vals.getD c 0)) (E.log (vals.getD root 0)) (E.log (grads.getD i 0))) := by
  unfold respSum
  apply List.map_congr_left
  intro c hc
  exact ((resp_entry_as_coded E _ _ _ (hpos c hc) hr hg).1).symm

theorem respLeaf_as_coded (E : ExpLog F) (vals grads : List F) (root i : Nat)
    (hv : 0 < vals.getD i 0) (hr : 0 < vals.getD root 0) (hg : 0 < grads.getD i 0) :
    respLeaf vals grads root i =
      Gen.S3emRespLeaf E (E.log (vals.getD i 0)) (E.log (vals.getD root 0)) (E.log (grads.getD i 0)) :=
  ((resp_entry_as_coded E _ _ _ hv hr hg).2).symm

/-- non-vacuity at ℝ: child value 1/2, root value 3/8, gradient 1/4 -/
example : Gen.S3emRespSum realExpLog (realExpLog.log (1/2)) (realExpLog.log (3/8)) (realExpLog.log (1/4)) = (1/2) * (1/4) / (3/8) :=
  (resp_entry_as_coded realExpLog (1/2) (3/8) (1/4) (by norm_num) (by norm_num) (by norm_num)).1

example : respSum [(1:ℝ)/2, 1/3, 3/8] [0, 0, 1] 2 2 { id := 2, kind := .sum, scope := [0], ch := [0, 1], ws := [1/4, 3/4], leaf := .absent }
    = [0, 1].map (fun c => Gen.S3emRespSum realExpLog (realExpLog.log ([(1:ℝ)/2, 1/3, 3/8].getD c 0))
        (realExpLog.log ([(1:ℝ)/2, 1/3, 3/8].getD 2 0)) (realExpLog.log ([(0:ℝ), 0, 1].getD 2 0))) := by
  apply respSum_as_coded
  · intro c hc; simp at hc; rcases hc with rfl | rfl <;> norm_num
  · norm_num
  · norm_num

/-! non-vacuity at ℝ of the log-domain statements of `Struct3Inference` -/

example : Gen.S3sumLogLikelihood realExpLog [(1:ℝ)/4, 3/4] ([(1:ℝ)/2, 1/3].map realExpLog.log)
    = realExpLog.log (wsum [(1:ℝ)/4, 3/4] [1/2, 1/3]) :=
  sum_log_likelihood_as_coded realExpLog _ _ (by intro v hv; simp at hv; rcases hv with rfl | rfl <;> norm_num)

example : Gen.S3productLogLikelihood ([(1:ℝ)/2, 1/3].map realExpLog.log) = realExpLog.log (lprod [(1:ℝ)/2, 1/3]) :=
  product_log_likelihood_as_coded realExpLog _ (by intro v hv; simp at hv; rcases hv with rfl | rfl <;> norm_num)

example : Gen.S3nodeLogLikelihood (Gen.S3productLogLikelihood) [(-1:ℝ), -2] = max (-1 + (-2 + 0)) (-10000000000000000000000000000000) := by
  rw [node_log_likelihood_as_coded]; rfl

/-- the floor is inactive on ordinary values: `log (3/8) ≥ −(8/3 − 1) ≥ −1e31` -/
theorem log_three_eighths_above_floor : (-10000000000000000000000000000000 : ℝ) ≤ Real.log (3/8) := by
  have h : Real.log (8/3) ≤ 8/3 - 1 := Real.log_le_sub_one_of_pos (by norm_num)
  have h2 : Real.log (3/8) = -Real.log (8/3) := by
    rw [show (3/8 : ℝ) = (8/3)⁻¹ by norm_num, Real.log_inv]
  rw [h2]; linarith

example : Gen.S3nodeLogLikelihood (Gen.S3sumLogLikelihood realExpLog [(1:ℝ)/4, 3/4]) ([(1:ℝ)/2, 1/3].map realExpLog.log)
    = realExpLog.log (Gen.S3nodeLikelihood (Gen.S3sumLikelihood [(1:ℝ)/4, 3/4]) [1/2, 1/3]) := by
  apply node_log_likelihood_sum realExpLog
  · intro v hv; simp at hv; rcases hv with rfl | rfl <;> norm_num
  · have : wsum [(1:ℝ)/4, 3/4] [1/2, 1/3] = 3/8 := by simp [wsum]; norm_num
    rw [this]; exact log_three_eighths_above_floor

example : Gen.S3nodeLogLikelihood Gen.S3productLogLikelihood ([(3:ℝ)/4, 1/2].map realExpLog.log)
    = realExpLog.log (Gen.S3nodeLikelihood Gen.S3productLikelihood [(3:ℝ)/4, 1/2]) := by
  apply node_log_likelihood_prod realExpLog
  · intro v hv; simp at hv; rcases hv with rfl | rfl <;> norm_num
  · have : lprod [(3:ℝ)/4, 1/2] = 3/8 := by simp [lprod]; norm_num
    rw [this]; exact log_three_eighths_above_floor

example : realExpLog.exp (Gen.S3bernoulliLogLikelihood realExpLog ((1:ℝ)/3) ((Ev.ofList [some 1]) 0))
    = Circ.catLeafFn 0 [1 - (1:ℝ)/3, 1/3] (Ev.ofList [some 1]) :=
  bernoulli_log_likelihood_as_coded realExpLog _ 0 _ (by simp [Circ.catLeafFn, Ev.ofList])

example : realExpLog.exp (Gen.S3categoricalLogLikelihood realExpLog (List.range 3) [(1:ℝ)/2, 1/3, 1/6] ((Ev.ofList [some 2]) 0))
    = Circ.catLeafFn 0 [(1:ℝ)/2, 1/3, 1/6] (Ev.ofList [some 2]) :=
  categorical_log_likelihood_as_coded realExpLog [(1:ℝ)/2, 1/3, 1/6] 0 _ (by simp [Circ.catLeafFn, Ev.ofList])

end Deeprob.Struct3
