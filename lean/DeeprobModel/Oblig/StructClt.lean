import DeeprobModel.Generated.Consts
import DeeprobModel.Generated.Formulas
import DeeprobModel.Model.Clt
import DeeprobModel.Model.CltPc
import Mathlib.Algebra.Order.Field.Basic
import Mathlib.Tactic.FieldSimp
import Mathlib.Tactic.Ring
import Mathlib.Tactic.Linarith
/-
Static tie of `Model/Clt.lean` / `Model/CltPc.lean` (`up`, `upMax`, `localCond`, `toPc`) to
/repo/deeprob/spn/structure/cltree.py (`message_passing`, `sample`, `to_pc`) — C02, C06, C07, C12.
-/
set_option linter.unusedSectionVars false
namespace Deeprob.Oblig.StructClt
open Deeprob Deeprob.Clt

/-- the semiring operation a log-domain reduction stands for: `logsumexp` = `+`, `max` = `max` (of the linear values) -/
inductive Red where | add | max
deriving DecidableEq, Repr

def redOf : String → Option Red
  | "logsumexp" => some .add | "max" => some .max | _ => none

/-- **`message_passing` reduces a missing variable with `logsumexp` for 'mar' and `np.max` for 'mpe'** (axis 2 = the
variable's own value), adds (`+=`) into the PARENT's row, treats observed values without reduction, and finishes the
root with `logsumexp` whatever `reduce` is -/
theorem message_passing_as_coded :
    Gen.cltMessageStores =
      [("", "messages", "(self.tree[j], mask)", "+=", "", none),
       ("reduce == 'mar'", "messages", "(self.tree[j], mis_mask)", "+=", "logsumexp", some 2),
       ("reduce == 'mpe'", "messages", "(self.tree[j], mis_mask)", "+=", "max", some 2),
       ("", "lls", "mask", "=", "", none),
       ("", "lls", "mis_mask", "=", "logsumexp", some 1)] ∧
    (Gen.cltMessageStores.filterMap (fun s => if s.1 == "reduce == 'mar'" then redOf s.2.2.2.2.1 else none)) = [Red.add] ∧
    (Gen.cltMessageStores.filterMap (fun s => if s.1 == "reduce == 'mpe'" then redOf s.2.2.2.2.1 else none)) = [Red.max] := by
  refine ⟨rfl, by decide, by decide⟩

/-- the model side of the two reductions: `up` sums over the two values with the carrier's `+`, `upMax` is literally
the same recursion with `max` as the additive operation -/
theorem up_missing_is_sum {α : Type} [Zero α] [One α] [Add α] [Mul α] (scope : List Nat) (cpt : List (List (List α)))
    (i : Nat) (cs : List RTree) (l : Nat) (e : Ev) (h : e (scope.getD i 0) = none) :
    up scope cpt (.node i cs) l e =
      sumVar 2 (fun k => cptAt cpt i l k * lprod (cs.map (fun c => up scope cpt c k e))) := by
  rw [up]; simp only [h]

theorem upMax_is_up_with_max {α : Type} [Zero α] [One α] [Mul α] [Max α] [LT α] [DecidableLT α]
    (scope : List Nat) (cpt : List (List (List α))) (t : RTree) (l : Nat) (e : Ev) :
    upMax scope cpt t l e = @up α _ _ ⟨max⟩ _ scope cpt t l e := rfl

/-! ### `sample` -/

variable {F : Type} [Field F] [LinearOrder F] [IsStrictOrderedRing F]

theorem exp_sub (E : ExpLog F) (a b : F) : E.exp (a - b) = E.exp a / E.exp b := by
  have h := E.exp_add (a - b) b
  rw [sub_add_cancel] at h
  rw [h, mul_div_assoc, div_self (ne_of_gt (E.exp_pos b)), mul_one]

/-- **`sample` normalises with `logsumexp(log_probs, axis=1)` and takes column 1** (root and every other variable), on
messages computed with `reduce='mar'`, reading the value just drawn for the parent: with `a_k = cpt[j,p,k]·msg_j[k]`
(linear domain) the Bernoulli parameter is `a₁ / (a₀ + a₁)` -/
theorem sample_as_coded (E : ExpLog F) (a0 a1 : F) (h0 : 0 < a0) (h1 : 0 < a1) :
    Gen.cltSampleNorm = [(1, "logsumexp", some 1), (1, "logsumexp", some 1)] ∧
    Gen.cltSampleLogits = ["self.params[self.root, 0] + messages[self.root, mask]",
                           "self.params[j, obs_parent_values] + messages[j, mask]"] ∧
    Gen.cltSampleStores = ["(mask, self.root)", "(mask, j)"] ∧
    Gen.cltSampleParentValues = "x[mask, self.tree[j]]" ∧ Gen.cltSampleReduce = "'mar'" ∧
    Gen.cltSampleBernParam E (Gen.cltSampleLogProb (E.log a1) (E.log (a0 + a1))) = a1 / (a0 + a1) := by
  refine ⟨by decide, by decide, by decide, by decide, by decide, ?_⟩
  unfold Gen.cltSampleBernParam Gen.cltSampleLogProb
  rw [exp_sub, E.exp_log a1 h1, E.exp_log (a0 + a1) (by linarith)]

/-- … which is the model's `localCond … 1` (the probability of drawing 1) -/
theorem localCond_one {α : Type} [Zero α] [One α] [Add α] [Mul α] [Div α] (scope : List Nat)
    (cpt : List (List (List α))) (j : Nat) (cs : List RTree) (p : Nat) (e : Ev) :
    localCond scope cpt j cs p 1 e =
      cptAt cpt j p 1 * msgAt scope cpt cs 1 e /
        (cptAt cpt j p 0 * msgAt scope cpt cs 0 e + (cptAt cpt j p 1 * msgAt scope cpt cs 1 e + 0)) := rfl

/-! ### `to_pc` -/

/-- **`to_pc` returns `pos_buffer[0]`**, whose sums carry ROW 1 of each table (`weights[1]`); the positive products pair
`leaves[1]` (`p = 1`) with the positive buffer, the negative ones `leaves[0]` (`p = 0`) with the negative buffer; the sum's
children are `[neg_prod, pos_prod]` (or the two leaves) — the shape of `Clt.pc` -/
theorem to_pc_as_coded :
    Gen.toPcReturnBuffer = "pos_buffer" ∧ Gen.toPcReturnIndex = 0 ∧
    (Gen.toPcBufferRows.filter (fun r => r.1 == Gen.toPcReturnBuffer)).map (fun r => r.2.2.2) = [1] ∧
    Gen.toPcBufferRows = [("neg_buffer", "sum_children", "weights", 0), ("pos_buffer", "sum_children", "weights", 1)] ∧
    Gen.toPcProducts = [("neg_prod", 0, "neg_buffer"), ("pos_prod", 1, "pos_buffer")] ∧
    Gen.toPcSumChildren = ["[neg_prod, pos_prod]", "leaves"] ∧ Gen.toPcLeafP = [0, 1] := by decide

/-- the model's `toPc` reads the row selected by the returned buffer -/
theorem toPc_row {α : Type} [Zero α] [One α] [Add α] [Mul α] (scope : List Nat) (pred : List Int)
    (cpt : List (List (List α))) (r : Nat) (h : rootOf pred = some r) :
    ((Gen.toPcBufferRows.filter (fun r => r.1 == Gen.toPcReturnBuffer)).map (fun r => r.2.2.2.toNat)).map
        (fun row => pc scope cpt (build pred pred.length r) row) = [toPc scope pred cpt] := by
  have e : (Gen.toPcBufferRows.filter (fun r => r.1 == Gen.toPcReturnBuffer)).map (fun r => r.2.2.2.toNat) = [1] := by
    decide
  rw [e]; simp [toPc, h]

end Deeprob.Oblig.StructClt
