import DeeprobModel.Generated.Consts
import DeeprobModel.Model.CltLoop
set_option linter.unusedVariables false
set_option linter.unusedSimpArgs false
/-
Fifth wave, Chow-Liu trees — the LOOP of `BinaryCLT.sample` as extracted by tools/listprog.py (block K): `Gen.S5cltSampleLoop`
(fragment `cltree.sample.loop`): `messages = self.message_passing(x, obs_mask, return_lls=False, reduce='mar')`, masked store at the
root, loop over `self.bfs[1:]` writing `x[j]` from `x[self.tree[j]]`, `return x`.

The skeleton is deterministic in its parameters `pre0` / `body` (what is stored); the stores of `sample` are DRAWS
(`ss.bernoulli.rvs(np.exp(log_probs))`).  Its LAW on one row is obtained by instantiating the SAME skeleton on weighted rows:
the state is `(row, weight)`, an entry is `(value, probability of that value)`, `setCol` writes the value and multiplies the weight.
Given a target row `target`, `pre0` / `body` store at a missing position `j` the pair
`(target[j], bernoulli.pmf(target[j], p_j))` with `p_j = exp(log_probs[1] - logsumexp(log_probs))`,
`log_probs = self.params[j, x[tree[j]]] + messages[j]` (root: `self.params[root, 0]`), exactly the expressions of the source; observed
positions are kept (`none`).  So `(sampleLawWith … x target).1` is the row the loop returns when every draw comes out as in `target`
and `.2` is the probability of these draws: the product, along `bfs`, of the per-entry probabilities.

Domain: `add` / `sub` / `expo` are the log-domain `+`, `-`, `np.exp` (linear reading: `*`, `/`, `id`), `lse` = `logsumexp`;
the Bernoulli pmf is `Gen.Py3.bernoulliPmf` (SciPy semantics, trusted).

Obligation `sample_loop_as_coded`: the law computed by folding the GENERATED skeleton is the explicit fold `sampleStep` over
`bfs[1:]` started from `sampleRoot` (value written, factor multiplied), for every implementation of `self.message_passing`.
-/
namespace Deeprob.Oblig.Struct5CltSample
open Deeprob Deeprob.Gen Deeprob.CltLoop

variable {α : Type}

/-- the Bernoulli parameter of one draw: `np.exp(log_probs[1] - logsumexp(log_probs))`, `log_probs = prow + msg` -/
def sampleParam [Zero α] (add sub : α → α → α) (expo : α → α) (lse : List α → α) (prow msg : List α) : α :=
  let lp := List.zipWith add prow msg
  expo (sub (Py4.getI lp (1 : Int) 0) (lse lp))

/-- a weighted row: the row and the probability of the draws made so far -/
abbrev WRow (α : Type) := List (Option Nat) × α

/-- `x[:, i]` of a weighted row (the weight of an entry read back is irrelevant: `1`) -/
def getW [One α] (s : WRow α) (i : Int) : Option Nat × α := (Py4.getI s.1 i none, 1)
/-- `x[:, i] = draw`: the value is written, the weight is multiplied by the probability of the draw -/
def setW [Mul α] (s : WRow α) (i : Int) (v : Option Nat × α) : WRow α := (Py4.setI s.1 i.toNat v.1, s.2 * v.2)

/-- the store before the loop of `sample`: the root entry, when missing in the INPUT row `x0`, drawn as `target[root]` -/
def samplePreW [Zero α] [One α] [Sub α] (add sub : α → α → α) (expo : α → α) (lse : List α → α)
    (params : Int → Int → Int → α) (root : Int) (x0 target : List (Option Nat)) (messages : Int → List α) :
    Option (Option Nat × α) :=
  if Py4.getI (x0.map Py3.isnan) root false then
    some (some (Py3.val (Py4.getI target root none)),
      Py3.bernoulliPmf (Py3.val (Py4.getI target root none))
        (sampleParam add sub expo lse (Py4.vec2 (params root (0 : Int))) (messages root)))
  else none

/-- one iteration of the sampling loop at `j`, seen from the entry `xp = x[tree[j]]` it reads -/
def sampleBodyW [Zero α] [One α] [Sub α] (add sub : α → α → α) (expo : α → α) (lse : List α → α)
    (params : Int → Int → Int → α) (x0 target : List (Option Nat)) (messages : Int → List α) (j : Int)
    (xp : Option Nat × α) : Option (Option Nat × α) :=
  if Py4.getI (x0.map Py3.isnan) j false then
    some (some (Py3.val (Py4.getI target j none)),
      Py3.bernoulliPmf (Py3.val (Py4.getI target j none))
        (sampleParam add sub expo lse (Py4.vec2 (params j ((Py3.val xp.1 : Nat) : Int))) (messages j)))
  else none

/-- **the law of `sample` on ONE row as the GENERATED skeleton renders it**, for ANY implementation `mp` of
`self.message_passing`: `.1` = the row returned when the draws come out as `target`, `.2` = the probability of these draws -/
def sampleLawWith [Zero α] [One α] [Sub α] [Mul α] (add sub : α → α → α) (expo : α → α) (lse : List α → α)
    (params : Int → Int → Int → α) (root : Int) (bfs tree : List Int)
    (mp : List (Option Nat) → List Bool → Bool → String → Int → List α) (x target : List (Option Nat)) : WRow α :=
  Gen.S5cltSampleLoop (getW (α := α)) (setW (α := α)) root bfs tree
    (fun (s : WRow α) rl rd => mp s.1 ((s.1.map Py3.isnan).map (fun b => !b)) rl rd)
    (samplePreW add sub expo lse params root x target) (sampleBodyW add sub expo lse params x target) (x, 1)

/-- the probability that the loop returns `target` -/
def sampleProbWith [Zero α] [One α] [Sub α] [Mul α] (add sub : α → α → α) (expo : α → α) (lse : List α → α)
    (params : Int → Int → Int → α) (root : Int) (bfs tree : List Int)
    (mp : List (Option Nat) → List Bool → Bool → String → Int → List α) (x target : List (Option Nat)) : α :=
  let r := sampleLawWith add sub expo lse params root bfs tree mp x target
  if r.1 = target then r.2 else 0

/-- the explicit root step: value written, factor multiplied -/
def sampleRoot [Zero α] [One α] [Sub α] [Mul α] (add sub : α → α → α) (expo : α → α) (lse : List α → α)
    (params : Int → Int → Int → α) (root : Int) (x0 target : List (Option Nat)) (messages : Int → List α) : WRow α :=
  if Py4.getI (x0.map Py3.isnan) root false then
    (Py4.setI x0 root.toNat (some (Py3.val (Py4.getI target root none))),
      1 * Py3.bernoulliPmf (Py3.val (Py4.getI target root none))
        (sampleParam add sub expo lse (Py4.vec2 (params root (0 : Int))) (messages root)))
  else (x0, 1)

/-- the explicit step at `j`: the parent's value is read from the row, `target[j]` is written, its probability multiplied -/
def sampleStep [Zero α] [One α] [Sub α] [Mul α] (add sub : α → α → α) (expo : α → α) (lse : List α → α)
    (params : Int → Int → Int → α) (tree : List Int) (x0 target : List (Option Nat)) (messages : Int → List α)
    (s : WRow α) (j : Int) : WRow α :=
  if Py4.getI (x0.map Py3.isnan) j false then
    (Py4.setI s.1 j.toNat (some (Py3.val (Py4.getI target j none))),
      s.2 * Py3.bernoulliPmf (Py3.val (Py4.getI target j none))
        (sampleParam add sub expo lse
          (Py4.vec2 (params j ((Py3.val (Py4.getI s.1 (Py4.getI tree j 0) none) : Nat) : Int))) (messages j)))
  else s

/-- **sample_loop_as_coded**: the law obtained by folding the GENERATED loop skeleton of `sample` (messages with
`return_lls=False, reduce='mar'`, masked store at the root, loop over `bfs[1:]` reading `x[tree[j]]` and writing `x[j]`) is the
explicit product along `bfs`: `sampleRoot`, then `sampleStep` at every `j` of `bfs[1:]` — observed entries are kept, a missing entry
`j` receives `target[j]` and multiplies the weight by `bernoulli.pmf(target[j], exp(log_probs[1] - logsumexp(log_probs)))` with
`log_probs = params[j, x[tree[j]]] + messages[j]`. -/
theorem sample_loop_as_coded [Zero α] [One α] [Sub α] [Mul α] (add sub : α → α → α) (expo : α → α) (lse : List α → α)
    (params : Int → Int → Int → α) (root : Int) (bfs tree : List Int)
    (mp : List (Option Nat) → List Bool → Bool → String → Int → List α) (x target : List (Option Nat)) :
    sampleLawWith add sub expo lse params root bfs tree mp x target =
      (Py.drop bfs (1 : Int)).foldl
        (sampleStep add sub expo lse params tree x target (mp x ((x.map Py3.isnan).map (fun b => !b)) false "mar"))
        (sampleRoot add sub expo lse params root x target (mp x ((x.map Py3.isnan).map (fun b => !b)) false "mar")) := by
  unfold sampleLawWith Gen.S5cltSampleLoop
  simp only
  have hpre : Py5.storeOpt (setW (α := α)) (x, (1 : α)) root
        (samplePreW add sub expo lse params root x target (mp x ((x.map Py3.isnan).map (fun b => !b)) false "mar")) =
      sampleRoot add sub expo lse params root x target (mp x ((x.map Py3.isnan).map (fun b => !b)) false "mar") := by
    unfold samplePreW sampleRoot
    cases Py4.getI (x.map Py3.isnan) root false <;> rfl
  rw [hpre]
  congr 1
  funext s j
  unfold sampleBodyW sampleStep
  cases Py4.getI (x.map Py3.isnan) j false <;> rfl

/-- non-vacuity (chain `0 → 1 → 2`, entry 2 observed; carrier ℚ-free: ℕ would not divide, so the linear reading is tested in
`Props/E2ECltSample.lean`); here: the skeleton keeps the observed entry and writes the target at the missing ones -/
example :
    (sampleLawWith (α := Int) (· + ·) (· - ·) id (fun v => v.foldr (· + ·) 0) (fun i l k => i + l + k) 0 [0, 1, 2] [-1, 0, 1]
      (fun _ _ _ _ _ => [1, 2]) [none, none, some 1] [some 1, some 0, some 1]).1 = [some 1, some 0, some 1] := by
  decide

end Deeprob.Oblig.Struct5CltSample
