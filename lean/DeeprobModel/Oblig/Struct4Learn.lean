import DeeprobModel.Generated.Consts
import DeeprobModel.Generated.Formulas
import DeeprobModel.Model.Learn
import DeeprobModel.Oblig.Struct3Learn
import Mathlib.Algebra.Order.Field.Basic
import Mathlib.Tactic.Linarith
import Mathlib.Tactic.NormNum
/-
Fourth wave, (a) — static tie of `Model/Learn.lean` (`selectOp`, `Op`) to the selection cascade of
/repo/deeprob/spn/learning/learnspn.py (`learn_spn`: the statements between `task = tasks.popleft()` and the dispatch
`if op == OperationKind.…`) — C04, C05.

`Gen.S4OperationKind` is the `Enum` of the source, `Gen.S4selectOp` the `if … elif … else` chain translated from the
current AST (`n_samples, n_features = task.data.shape` included: the order of the pair matters), `Gen.S4zeroVarAxis` the
axis of the variance the mask is computed from, `Gen.S4zeroVarTest` the `np.isclose(·, 0.0)` test.
-/
set_option linter.unusedSectionVars false
set_option linter.unusedSimpArgs false
set_option linter.unusedVariables false
namespace Deeprob.Struct4
open Deeprob Deeprob.Learn Deeprob.Struct3

/-- the model's operation for a member of the source's enumeration -/
def opOf : Gen.S4OperationKind → Op
  | .REM_FEATURES => .remFeatures
  | .CREATE_LEAF => .createLeaf
  | .SPLIT_NAIVE => .splitNaive
  | .SPLIT_ROWS => .splitRows
  | .SPLIT_COLS => .splitCols

/-- the enumeration's members are exactly the branches the dispatch of `learn_spn` tests (`Gen.S3learnOps`, third wave),
in the same order, with distinct values -/
theorem operationKind_as_coded :
    Gen.S4OperationKind.values.map (fun p => p.2.1) = Gen.S3learnOps ∧
    Gen.S4OperationKind.values.map (fun p => opOf p.1) = [.remFeatures, .createLeaf, .splitNaive, .splitRows, .splitCols] ∧
    (Gen.S4OperationKind.values.map (fun p => p.2.2)).Nodup := by
  refine ⟨by decide, by decide, by decide⟩

/-- **the selection cascade as coded**: on the task just popped (`task.data` = `rows × scope`, hence
`task.data.shape = (len rows, len scope)`), with the zero-variance mask `zv` and the hyper-parameters of the
configuration, the model's `selectOp` is the operation the source's cascade assigns to `op` -/
theorem selectOp_as_coded (cfg : Cfg) (t : Task) (zv : List Bool) :
    selectOp cfg t zv =
      opOf (Gen.S4selectOp (toS3 t) ((t.rows.length : Int), (t.scope.length : Int)) zv (cfg.minRows : Int) (cfg.minCols : Int)) := by
  unfold selectOp Gen.S4selectOp
  have h1 : zv.all id = zv.all (fun b => b) := rfl
  have h2 : zv.any id = zv.any (fun b => b) := rfl
  rw [h1, h2]
  by_cases ha : zv.all (fun b => b) = true
  · simp only [ha, if_true, opOf]
  · simp only [ha, Bool.false_eq_true, if_false]
    by_cases hb : zv.any (fun b => b) = true
    · simp only [hb, if_true, opOf]
    · simp only [hb, Bool.false_eq_true, if_false]
      have e1 : decide ((t.scope.length : Int) < (cfg.minCols : Int)) = decide (t.scope.length < cfg.minCols) := by
        simp only [Nat.cast_lt]
      have e2 : decide ((t.rows.length : Int) < (cfg.minRows : Int)) = decide (t.rows.length < cfg.minRows) := by
        simp only [Nat.cast_lt]
      simp only [toS3, e1, e2]
      by_cases hc : (t.noRowsSplit || decide (t.scope.length < cfg.minCols) || decide (t.rows.length < cfg.minRows)) = true
      · simp only [hc, if_true, opOf]
      · simp only [hc, Bool.false_eq_true, if_false]
        by_cases hd : (t.noColsSplit || t.isFirst) = true
        · simp only [hd, if_true, opOf]
        · simp only [hd, Bool.false_eq_true, if_false, opOf]

/-- non-vacuity: all five operations are reached -/
example :
    let cfg : Cfg := { minRows := 3, minCols := 2, front := true }
    let t : Task := { parent := 0, rows := [0, 1, 2, 3], scope := [5, 7] }
    [selectOp cfg t [true, true], selectOp cfg t [false, true], selectOp cfg { t with rows := [0, 1] } [false, false],
     selectOp cfg { t with isFirst := true } [false, false], selectOp cfg t [false, false]]
      = [.splitNaive, .remFeatures, .createLeaf, .splitRows, .splitCols] ∧
    [Gen.S4selectOp (toS3 t) (4, 2) [true, true] 3 2, Gen.S4selectOp (toS3 t) (4, 2) [false, true] 3 2,
     Gen.S4selectOp (toS3 t) (2, 2) [false, false] 3 2, Gen.S4selectOp (toS3 { t with isFirst := true }) (4, 2) [false, false] 3 2,
     Gen.S4selectOp (toS3 t) (4, 2) [false, false] 3 2]
      = [.SPLIT_NAIVE, .REM_FEATURES, .CREATE_LEAF, .SPLIT_ROWS, .SPLIT_COLS] := by
  decide

/-- the mask has one entry per COLUMN of `task.data` (`np.var(·, axis=0)`), which is what `zvMask pos t.scope.length`
(one entry per scope position) models -/
theorem zeroVar_axis_as_coded (pos : List Nat) (n : Nat) :
    Gen.S4zeroVarReduction = "var" ∧ Gen.S4zeroVarAxis = some 0 ∧ (zvMask pos n).length = n := by
  refine ⟨by decide, by decide, ?_⟩
  simp [zvMask]

section
variable {F : Type} [Field F] [LinearOrder F] [IsStrictOrderedRing F]

/-- **`np.isclose(v, 0.0)`** with the default tolerances is `|v| ≤ 1e-8` (the relative term vanishes at 0) -/
theorem zeroVarTest_as_coded (v : F) : Gen.S4zeroVarTest v ↔ (-(1 / 100000000 : F) ≤ v ∧ v ≤ 1 / 100000000) := by
  unfold Gen.S4zeroVarTest
  simp only [sub_zero, neg_zero, max_self, mul_zero, add_zero]
  constructor
  · intro h
    exact ⟨by have := le_trans (le_max_right v (-v)) h; linarith, le_trans (le_max_left v (-v)) h⟩
  · intro h
    exact max_le h.2 (by linarith [h.1])

example : Gen.S4zeroVarTest (0 : ℚ) ∧ ¬ Gen.S4zeroVarTest (1 / 1000 : ℚ) := by
  constructor
  · rw [zeroVarTest_as_coded]; norm_num
  · rw [zeroVarTest_as_coded]; norm_num

end
end Deeprob.Struct4
