import DeeprobModel.Generated.Consts
import Mathlib.Tactic.SplitIfs
import Mathlib.Tactic.Linarith
/-
Facts about the Python primitives of the translator's prelude (`Deeprob.Gen.Py`) shared by the `Oblig/Struct*.lean`
files, and the closing tactic of the "as coded" theorems.
-/
set_option linter.unusedSimpArgs false
namespace Deeprob.Oblig.StructPy
open Deeprob

theorem dedup_length_le (l : List Nat) : (Gen.Py.dedup l).length ≤ l.length := by
  induction l with
  | nil => simp [Gen.Py.dedup]
  | cons x xs ih => unfold Gen.Py.dedup; split <;> simp <;> omega

/-- `len(set(l)) == len(l)` iff `l` has no repeated element -/
theorem dedup_length_eq_iff (l : List Nat) : (Gen.Py.dedup l).length = l.length ↔ l.Nodup := by
  induction l with
  | nil => simp [Gen.Py.dedup]
  | cons x xs ih =>
    have hle := dedup_length_le xs
    unfold Gen.Py.dedup
    by_cases hx : x ∈ xs
    · simp only [List.contains_eq_mem, hx, decide_true, if_true, List.length_cons, List.nodup_cons, not_true_eq_false,
        false_and, iff_false]
      omega
    · simp only [List.contains_eq_mem, hx, decide_false, Bool.false_eq_true, if_false, List.length_cons,
        List.nodup_cons, not_false_eq_true, true_and, Nat.add_right_cancel_iff]
      exact ih

theorem fdiv_natCast (a b : Nat) : Int.fdiv (a : Int) (b : Int) = ((a / b : Nat) : Int) :=
  (Int.ofNat_fdiv a b).symm

theorem fmod_natCast (a b : Nat) : Int.fmod (a : Int) (b : Int) = ((a % b : Nat) : Int) := by
  rw [Int.fmod_eq_emod_of_nonneg _ (Int.natCast_nonneg b)]; rfl

theorem take_natCast {β : Type} (l : List β) (k : Nat) : Gen.Py.take l (k : Int) = l.take k := by
  simp [Gen.Py.take]
theorem drop_natCast {β : Type} (l : List β) (k : Nat) : Gen.Py.drop l (k : Int) = l.drop k := by
  simp [Gen.Py.drop]

/-- closing tactic of the `…_as_coded` theorems about guard chains: the tests are reduced to (in)equalities of naturals /
integers and Boolean atoms, every branch combination is closed by `rfl`, `omega` or `simp` — so that reordered operands,
swapped sides of a comparison or `not`-pushed forms of the same tests keep proving -/
macro "close_chain" tag:ident : tactic => `(tactic|
  (simp only [Bool.false_eq_true, if_false, Bool.not_true, Bool.not_false, if_true, bne_iff_ne, beq_iff_eq, ne_eq,
      decide_eq_true_eq, Bool.or_eq_true, Bool.and_eq_true, Bool.not_eq_true', Bool.not_eq_eq_eq_not,
      Int.natCast_eq_zero, List.length_eq_zero_iff]
   (try split_ifs) <;> first | rfl | (exfalso; omega) | (simp_all [$tag:ident]; done) | (exfalso; simp_all; omega)))

end Deeprob.Oblig.StructPy
